/-
C23 — Triggers fire exactly once per affected row, inside the statement.

Model: `Gms/Model/Triggers.lean` (`specOrder` = MySQL's trigger order; `orderImpl cap` = `plan.OrderTriggers`
with Go's slice aliasing; `execDml` = per-row firing of one DML statement with audit-table triggers).

Full statement (false on the unchanged tree, see `finding_…`):
  ∀ cap ts, wellFormed ts → orderImpl cap ts = specOrder ts        and a failed statement leaves no audit row
What is proved:
  * `specOrder_perm`, `specOrder_respects` — the Spec order is a permutation of the triggers and puts every
    FOLLOWS trigger after / PRECEDES trigger before a trigger with the referenced name, for all trigger lists;
  * `orderTriggers_correct_partial` — for every capacity and every well-formed trigger list on which
    `OrderTriggers` does not overwrite a visible slot of its input slice (`¬ aliasVisible`, the Region
    predicate of the finding), the Impl model returns exactly the Spec order;
  * `fires_once_per_row_*` — for INSERT / UPDATE / DELETE, any ordered trigger list and any table, the audit
    trail consists, per affected row in statement order, of the BEFORE triggers in order followed by the
    AFTER triggers in order — each trigger exactly once per affected row, none for other rows;
  * `insert_old_new_values`, `after_insert_new_is_stored`, `before_insert_new_is_stored`, `update_old_new_values`,
    `update_old_is_row`, `delete_old_values` — the OLD/NEW values every trigger sees, for written values that the
    conversion to the column type changes too: NEW of an AFTER trigger is the stored row, what the BEFORE chain
    leaves (converted) is what is stored, OLD is the row as it was;
  * `trigger_values_correct_partial` — outside Region `before_insert_new_unconverted` (a BEFORE INSERT trigger
    looks at a written value that the conversion changes) the Impl model agrees with the Spec.
-/
import Gms.Model.Triggers
import Gms.Generated.C23
set_option linter.unusedSimpArgs false
set_option linter.unusedVariables false

namespace Gms.Triggers

/-! ## Spec: permutation and FOLLOWS/PRECEDES -/

theorem specInsert_perm {ord o : List Trig} {t : Trig} (h : specInsert ord t = some o) : o.Perm (t :: ord) := by
  unfold specInsert at h
  split at h
  · cases h
    exact List.perm_append_comm
  · rename_i k ref _
    split at h
    · cases h
    · rename_i j _
      cases h
      have := @List.perm_middle _ t (ord.take (insPos k j)) (ord.drop (insPos k j))
      rw [List.take_append_drop] at this
      exact this

theorem specFold_perm : ∀ (ts acc o : List Trig), specFold acc ts = some o → o.Perm (acc ++ ts) := by
  intro ts
  induction ts with
  | nil => intro acc o h; simp only [specFold, Option.some.injEq] at h; subst h; simp
  | cons t ts ih =>
    intro acc o h
    simp only [specFold] at h
    split at h
    · cases h
    · rename_i acc' h1
      have p1 := ih acc' o h
      have p2 := specInsert_perm h1
      exact p1.trans ((p2.append_right ts).trans (List.perm_middle.symm))

theorem findName_some {r : TName} : ∀ {l : List Trig} {j : Nat}, findName r l = some j →
    ∃ x, l[j]? = some x ∧ x.name = r := by
  intro l
  induction l with
  | nil => intro j h; simp [findName] at h
  | cons t l ih =>
    intro j h
    simp only [findName] at h
    split at h
    · rename_i hn; cases h; exact ⟨t, rfl, hn⟩
    · cases hf : findName r l with
      | none => simp [hf] at h
      | some j' =>
        simp only [hf, Option.map_some, Option.some.injEq] at h
        subst h
        obtain ⟨x, hx, hn⟩ := ih hf
        exact ⟨x, by simpa using hx, hn⟩

theorem specInsert_sublist {ord o : List Trig} {t : Trig} (h : specInsert ord t = some o) : ord.Sublist o := by
  unfold specInsert at h
  split at h
  · cases h; exact List.sublist_append_left _ _
  · rename_i k ref _
    split at h
    · cases h
    · rename_i j _
      cases h
      have : (ord.take (insPos k j) ++ ord.drop (insPos k j)).Sublist (ord.take (insPos k j) ++ t :: ord.drop (insPos k j)) :=
        List.Sublist.append (List.Sublist.refl _) (List.sublist_cons_self _ _)
      rwa [List.take_append_drop] at this

theorem sublist_take_succ {l : List Trig} {j : Nat} {x : Trig} (h : l[j]? = some x) : [x].Sublist (l.take (j + 1)) := by
  induction l generalizing j with
  | nil => simp at h
  | cons a l ih =>
    cases j with
    | zero => simp at h; subst h; simp
    | succ j =>
      simp only [List.getElem?_cons_succ] at h
      simp only [List.take_succ_cons]
      exact (ih h).cons a

theorem drop_eq_cons {l : List Trig} {j : Nat} {x : Trig} (h : l[j]? = some x) : l.drop j = x :: l.drop (j + 1) := by
  induction l generalizing j with
  | nil => simp at h
  | cons a l ih =>
    cases j with
    | zero => simp at h; subst h; simp
    | succ j => simp only [List.getElem?_cons_succ] at h; simp [ih h]

/-- Placement at creation time: the new trigger stands right after (FOLLOWS) / before (PRECEDES)
a trigger with the referenced name. -/
theorem specInsert_respects {ord o : List Trig} {t : Trig} {k : OrdKind} {r : TName}
    (h : specInsert ord t = some o) (ho : t.order = some (k, r)) :
    ∃ x, x.name = r ∧ (k = .follows → [x, t].Sublist o) ∧ (k = .precedes → [t, x].Sublist o) := by
  unfold specInsert at h
  rw [ho] at h
  simp only at h
  split at h
  · cases h
  · rename_i j hj
    cases h
    obtain ⟨x, hx, hn⟩ := findName_some hj
    refine ⟨x, hn, ?_, ?_⟩
    · intro hk; subst hk
      simp only [insPos]
      have h2 : [t].Sublist (t :: ord.drop (j + 1)) := List.Sublist.cons_cons t (List.nil_sublist _)
      exact List.Sublist.append (sublist_take_succ hx) h2
    · intro hk; subst hk
      simp only [insPos]
      rw [drop_eq_cons hx]
      exact (List.Sublist.cons_cons t (List.Sublist.cons_cons x (List.nil_sublist _))).trans (List.sublist_append_right _ _)


/-- In the order `o`, trigger `t` stands after (FOLLOWS) / before (PRECEDES) a trigger carrying the
referenced name. -/
def Respects (o : List Trig) (t : Trig) : Prop :=
  ∀ k r, t.order = some (k, r) →
    ∃ x, x.name = r ∧ (k = .follows → [x, t].Sublist o) ∧ (k = .precedes → [t, x].Sublist o)

theorem specFold_respects : ∀ (ts acc o : List Trig), specFold acc ts = some o →
    acc.Sublist o ∧ ∀ t ∈ ts, Respects o t := by
  intro ts
  induction ts with
  | nil => intro acc o h; simp only [specFold, Option.some.injEq] at h; subst h; simp
  | cons t ts ih =>
    intro acc o h
    simp only [specFold] at h
    split at h
    · cases h
    · rename_i acc' h1
      obtain ⟨hs, hr⟩ := ih acc' o h
      refine ⟨(specInsert_sublist h1).trans hs, ?_⟩
      intro t' ht'
      rcases List.mem_cons.mp ht' with rfl | hm
      · intro k r ho
        obtain ⟨x, hn, hf, hp⟩ := specInsert_respects h1 ho
        exact ⟨x, hn, fun hk => (hf hk).trans hs, fun hk => (hp hk).trans hs⟩
      · exact hr t' hm

/-! ## `OrderTriggers` equals the Spec when it does not overwrite its input -/

/-- Every FOLLOWS/PRECEDES names a trigger created earlier (what MySQL accepts at CREATE time). -/
def wfFrom : List TName → List Trig → Bool
  | _, [] => true
  | seen, t :: ts =>
    (match t.order with
     | none => true
     | some (_, r) => seen.contains r) && wfFrom (seen ++ [t.name]) ts

def wellFormed (ts : List Trig) : Bool := wfFrom [] ts

theorem mutated_mono (cap : Nat) : ∀ rem i st, (orderLoop cap rem i st).mutated = false → st.mutated = false := by
  intro rem
  induction rem with
  | zero => intro i st h; exact h
  | succ rem ih =>
    intro i st h
    unfold orderLoop at h
    split at h
    · exact h
    · split at h
      · exact ih _ _ h
      · dsimp only at h
        split at h
        · exact h
        · have := ih _ _ h
          simp only [Bool.or_eq_false_iff] at this
          exact this.1

theorem findName_append_left {r : TName} : ∀ {S R : List Trig}, (∃ x ∈ S, x.name = r) →
    ∃ j, findName r (S ++ R) = some j ∧ j < S.length := by
  intro S
  induction S with
  | nil => intro R h; obtain ⟨x, hx, _⟩ := h; cases hx
  | cons a S ih =>
    intro R h
    simp only [List.cons_append, findName]
    by_cases ha : a.name = r
    · simp only [ha, if_true]; exact ⟨0, rfl, by simp⟩
    · simp only [ha, if_false]
      obtain ⟨x, hx, hn⟩ := h
      rcases List.mem_cons.mp hx with rfl | hm
      · exact absurd hn ha
      · obtain ⟨j, hj, hlt⟩ := ih (R := R) ⟨x, hm, hn⟩
        exact ⟨j + 1, by simp [hj], by simp; omega⟩

theorem findName_append_eq {r : TName} {S R : List Trig} {j : Nat} (h : findName r (S ++ R) = some j)
    (hj : j < S.length) : findName r S = some j := by
  induction S generalizing j with
  | nil => simp at hj
  | cons a S ih =>
    simp only [List.cons_append, findName] at h ⊢
    by_cases ha : a.name = r
    · simp only [ha, if_true] at h ⊢; exact h
    · simp only [ha, if_false] at h ⊢
      cases hf : findName r (S ++ R) with
      | none => simp [hf] at h
      | some j' =>
        simp only [hf, Option.map_some, Option.some.injEq] at h
        subst h
        simp only [List.length_cons] at hj
        rw [ih hf (by omega)]
        rfl

theorem eraseIdx_mid (S R : List Trig) (t : Trig) : (S ++ t :: R).eraseIdx S.length = S ++ R := by
  induction S with
  | nil => rfl
  | cons a S ih => simp only [List.cons_append, List.length_cons, List.eraseIdx_cons_succ, ih]

theorem insPos_le {k : OrdKind} {j n : Nat} (h : j < n) : insPos k j ≤ n := by
  cases k <;> simp [insPos] <;> omega

/-- Loop invariant of `OrderTriggers` for runs that never overwrite a visible input slot: after
the first `done.length` iterations the ordered slice is the Spec order of `done` followed by the
untouched rest. -/
theorem loop_spec (cap : Nat) : ∀ (rest done S : List Trig), S.Perm done →
    wfFrom (done.map (·.name)) rest = true →
    (orderLoop cap rest.length done.length
        { trig := done ++ rest, ord := S ++ rest, mutated := false, panicked := false }).mutated = false →
    (orderLoop cap rest.length done.length
        { trig := done ++ rest, ord := S ++ rest, mutated := false, panicked := false }).panicked = false ∧
    specFold S rest = some (orderLoop cap rest.length done.length
        { trig := done ++ rest, ord := S ++ rest, mutated := false, panicked := false }).ord := by
  intro rest
  induction rest with
  | nil => intro done S hp hw hm; simp [orderLoop, specFold]
  | cons t rest ih =>
    intro done S hp hw hm
    have hlen : S.length = done.length := hp.length_eq
    have hget : (done ++ t :: rest)[done.length]? = some t := by simp
    simp only [wfFrom, Bool.and_eq_true] at hw
    have hd1 : (done ++ [t]) ++ rest = done ++ t :: rest := by simp
    have hl1 : (done ++ [t]).length = done.length + 1 := by simp
    have hmap : (done ++ [t]).map (·.name) = done.map (·.name) ++ [t.name] := by simp
    simp only [List.length_cons] at hm ⊢
    unfold orderLoop at hm ⊢
    simp only [hget] at hm ⊢
    cases ho : t.order with
    | none =>
      simp only [ho] at hm ⊢
      have hS1 : (S ++ [t]) ++ rest = S ++ t :: rest := by simp
      have hp1 : (S ++ [t]).Perm (done ++ [t]) := hp.append_right [t]
      have := ih (done ++ [t]) (S ++ [t]) hp1 (by rw [hmap]; exact hw.2)
      rw [hd1, hS1, hl1] at this
      obtain ⟨h1, h2⟩ := this hm
      refine ⟨h1, ?_⟩
      simp only [specFold, specInsert, ho]
      exact h2
    | some kr =>
      obtain ⟨k, r⟩ := kr
      simp only [ho] at hm hw ⊢
      have hmem : ∃ x ∈ S, x.name = r := by
        have := hw.1
        simp only [List.contains_iff_mem, List.mem_map] at this
        obtain ⟨x, hx, hn⟩ := this
        exact ⟨x, hp.mem_iff.mpr hx, hn⟩
      have herase : (S ++ t :: rest).eraseIdx done.length = S ++ rest := by rw [← hlen]; exact eraseIdx_mid S rest t
      obtain ⟨j, hj, hjl⟩ := findName_append_left (R := rest) hmem
      have hjS := findName_append_eq hj hjl
      have hple : insPos k j ≤ S.length := insPos_le hjl
      simp only [herase, hj] at hm ⊢
      have htake : (S ++ rest).take (insPos k j) = S.take (insPos k j) := List.take_append_of_le_length hple
      have hdrop : (S ++ rest).drop (insPos k j) = S.drop (insPos k j) ++ rest := List.drop_append_of_le_length hple
      simp only [htake, hdrop] at hm ⊢
      -- the input slot write must have been invisible
      have hmono := mutated_mono cap _ _ _ hm
      simp only [Bool.false_or, bne_eq_false_iff_eq] at hmono
      simp only [hmono, bne_self_eq_false, Bool.or_false] at hm ⊢
      have hS1 : (S.take (insPos k j) ++ t :: S.drop (insPos k j)) ++ rest
          = S.take (insPos k j) ++ t :: (S.drop (insPos k j) ++ rest) := by simp
      have hins : specInsert S t = some (S.take (insPos k j) ++ t :: S.drop (insPos k j)) := by
        simp only [specInsert, ho, hjS]
      have hp1 : (S.take (insPos k j) ++ t :: S.drop (insPos k j)).Perm (done ++ [t]) :=
        (specInsert_perm hins).trans ((List.Perm.cons t hp).trans (List.perm_append_comm (l₁ := [t]) (l₂ := done)))
      have := ih (done ++ [t]) _ hp1 (by rw [hmap]; exact hw.2)
      rw [hd1, hS1, hl1] at this
      obtain ⟨h1, h2⟩ := this hm
      refine ⟨h1, ?_⟩
      simp only [specFold, hins]
      exact h2


/-! ## Statement level: every trigger of the ordered list runs once per affected row, and what it sees -/

theorem roundT_cell (n : Int) : roundT (10 * n) = n := by
  unfold roundT
  split <;> omega

theorem cell_roundT {x : Int} (h : x % 10 = 0) : 10 * roundT x = x := by
  unfold roundT
  split <;> omega

theorem stored_raw (r : Row) : r.raw.stored = r := by
  cases r
  simp [Row.raw, RawRow.stored, roundT_cell]

theorem entryRow_integral (early : Bool) {r : RawRow} (h : r.integral = true) : entryRow early r = r := by
  cases early
  · rfl
  · obtain ⟨a, b⟩ := r
    simp only [RawRow.integral, Bool.and_eq_true, beq_iff_eq] at h
    simp [entryRow, RawRow.stored, Row.raw, cell_roundT h.1, cell_roundT h.2]

theorem runBefore_names : ∀ (bf : List Trig) (old new : Option Row) (acc : List Audit),
    ((runBefore bf old new acc).2).map (·.n) = acc.map (·.n) ++ bf.map (·.name) := by
  intro bf
  induction bf with
  | nil => intro old new acc; simp [runBefore]
  | cons t ts ih =>
    intro old new acc
    simp only [runBefore, ih, List.map_append, List.map_cons, List.map_nil, auditOf, List.append_assoc,
      List.singleton_append]

theorem runBefore_some : ∀ (bf : List Trig) (old : Option Row) (r : Row) (acc : List Audit),
    ∃ r', (runBefore bf old (some r) acc).1 = some r' ∧ r'.a = r.a := by
  intro bf
  induction bf with
  | nil => intro old r acc; exact ⟨r, rfl, rfl⟩
  | cons t ts ih =>
    intro old r acc
    simp only [runBefore]
    cases t.setB with
    | none => exact ih old r _
    | some k =>
      obtain ⟨r', h1, h2⟩ := ih old { r with b := r.b + k } (acc ++ [auditOf t old (some { r with b := r.b + k })])
      exact ⟨r', h1, h2⟩

/-- The accumulator of `runBefore` is only appended to. -/
theorem runBefore_acc : ∀ (bf : List Trig) (old new : Option Row) (acc : List Audit),
    runBefore bf old new acc = ((runBefore bf old new []).1, acc ++ (runBefore bf old new []).2) := by
  intro bf
  induction bf with
  | nil => intro old new acc; simp [runBefore]
  | cons t ts ih =>
    intro old new acc
    simp only [runBefore, List.nil_append]
    rw [ih _ _ (acc ++ _), ih _ _ [_]]
    simp

theorem runBeforeRaw_acc : ∀ (bf : List Trig) (new : RawRow) (acc : List Audit),
    runBeforeRaw bf new acc = ((runBeforeRaw bf new []).1, acc ++ (runBeforeRaw bf new []).2) := by
  intro bf
  induction bf with
  | nil => intro new acc; simp [runBeforeRaw]
  | cons t ts ih =>
    intro new acc
    simp only [runBeforeRaw, List.nil_append]
    rw [ih _ (acc ++ _), ih _ [_]]
    simp

theorem runBeforeRaw_names : ∀ (bf : List Trig) (new : RawRow) (acc : List Audit),
    ((runBeforeRaw bf new acc).2).map (·.n) = acc.map (·.n) ++ bf.map (·.name) := by
  intro bf
  induction bf with
  | nil => intro new acc; simp [runBeforeRaw]
  | cons t ts ih =>
    intro new acc
    simp only [runBeforeRaw, ih, List.map_append, List.map_cons, List.map_nil, auditRaw, List.append_assoc,
      List.singleton_append]

/-- A BEFORE INSERT chain never changes the key cell. -/
theorem runBeforeRaw_key : ∀ (bf : List Trig) (new : RawRow) (acc : List Audit),
    (runBeforeRaw bf new acc).1.a = new.a := by
  intro bf
  induction bf with
  | nil => intro new acc; rfl
  | cons t ts ih =>
    intro new acc
    simp only [runBeforeRaw]
    rw [ih]
    cases t.setB <;> rfl

/-- Every record a BEFORE/AFTER chain of an UPDATE or DELETE writes carries the row as it was as OLD. -/
theorem runBefore_old : ∀ (bf : List Trig) (old new : Option Row) (acc : List Audit),
    ∀ e ∈ (runBefore bf old new acc).2, e ∈ acc ∨ (e.oa = old.map (10 * ·.a) ∧ e.ob = old.map (10 * ·.b)) := by
  intro bf
  induction bf with
  | nil => intro old new acc e he; exact Or.inl he
  | cons t ts ih =>
    intro old new acc e he
    simp only [runBefore] at he
    rcases ih _ _ _ e he with h | h
    · rcases List.mem_append.mp h with h | h
      · exact Or.inl h
      · simp only [List.mem_singleton] at h
        subst h
        exact Or.inr ⟨rfl, rfl⟩
    · exact Or.inr h

/-- What the last BEFORE INSERT trigger records as NEW is the row the chain hands on. -/
theorem runBeforeRaw_last : ∀ (bf : List Trig) (new : RawRow) (acc : List Audit), bf ≠ [] →
    ∃ e, (runBeforeRaw bf new acc).2.getLast? = some e ∧
      e.na = some (runBeforeRaw bf new acc).1.a ∧ e.nb = some (runBeforeRaw bf new acc).1.b := by
  intro bf
  induction bf with
  | nil => intro new acc h; exact absurd rfl h
  | cons t ts ih =>
    intro new acc _
    simp only [runBeforeRaw]
    cases ts with
    | nil => simp [runBeforeRaw, auditRaw]
    | cons u us => exact ih _ _ (by simp)

/-- The names fired for one affected row: the BEFORE triggers in order, then the AFTER triggers. -/
def rowNames (bf af : List Trig) : List TName := bf.map (·.name) ++ af.map (·.name)

/-! ### INSERT: the trace of one row -/

/-- The row an INSERT stores for the written row `r`: what the BEFORE chain leaves, converted to
the column types. -/
def insStored (early : Bool) (bf : List Trig) (r : RawRow) : Row :=
  (runBeforeRaw bf (entryRow early r) []).1.stored

/-- The audit records of one inserted row: the BEFORE chain's records, then one record per AFTER
trigger whose NEW is *the stored row*. -/
def insTrace (early : Bool) (bf af : List Trig) (r : RawRow) : List Audit :=
  (runBeforeRaw bf (entryRow early r) []).2 ++ af.map (fun t => auditOf t none (some (insStored early bf r)))

theorem insTrace_names (early : Bool) (bf af : List Trig) (r : RawRow) :
    (insTrace early bf af r).map (·.n) = rowNames bf af := by
  simp [insTrace, rowNames, runBeforeRaw_names, auditOf, Function.comp_def]

theorem insertRows_trace (early : Bool) (bf af : List Trig) : ∀ (rows : List RawRow) (au : List Audit) (tbl : List Row)
    (au' : List Audit) (tbl' : List Row),
    insertRows early bf af rows au tbl = (au', tbl', false) →
    au' = au ++ rows.flatMap (insTrace early bf af) ∧
    tbl' = rows.foldl (fun t r => insertSorted (insStored early bf r) t) tbl := by
  intro rows
  induction rows with
  | nil => intro au tbl au' tbl' h; simp only [insertRows, Prod.mk.injEq] at h; simp [← h.1, ← h.2.1]
  | cons r rows ih =>
    intro au tbl au' tbl' h
    simp only [insertRows] at h
    rw [runBeforeRaw_acc] at h
    simp only at h
    split at h
    · simp at h
    · obtain ⟨h1, h2⟩ := ih _ _ _ _ h
      refine ⟨?_, ?_⟩
      · rw [h1]
        simp [runAfter, insTrace, insStored, List.append_assoc]
      · rw [h2]
        simp [insStored]

theorem mem_insertSorted (r x : Row) : ∀ (l : List Row), x ∈ insertSorted r l ↔ x = r ∨ x ∈ l := by
  intro l
  induction l with
  | nil => simp [insertSorted]
  | cons y ys ih =>
    simp only [insertSorted]
    split
    · simp
    · simp only [List.mem_cons, ih]
      constructor
      · rintro (h | h | h)
        · exact Or.inr (Or.inl h)
        · exact Or.inl h
        · exact Or.inr (Or.inr h)
      · rintro (h | h | h)
        · exact Or.inr (Or.inl h)
        · exact Or.inl h
        · exact Or.inr (Or.inr h)

theorem mem_foldl_insertSorted (f : RawRow → Row) : ∀ (rows : List RawRow) (tbl : List Row) (x : Row),
    x ∈ rows.foldl (fun t r => insertSorted (f r) t) tbl ↔ x ∈ tbl ∨ ∃ r ∈ rows, x = f r := by
  intro rows
  induction rows with
  | nil => intro tbl x; simp
  | cons r rows ih =>
    intro tbl x
    simp only [List.foldl_cons, ih, mem_insertSorted, List.mem_cons]
    constructor
    · rintro ((h | h) | ⟨r', hr', h⟩)
      · exact Or.inr ⟨r, Or.inl rfl, h⟩
      · exact Or.inl h
      · exact Or.inr ⟨r', Or.inr hr', h⟩
    · rintro (h | ⟨r', (rfl | hr'), h⟩)
      · exact Or.inl (Or.inr h)
      · exact Or.inl (Or.inl h)
      · exact Or.inr ⟨r', hr', h⟩

/-- Outside Region `before_insert_new_unconverted` the moment of the conversion does not matter. -/
theorem insertRows_early_irrelevant (bf af : List Trig) : ∀ (rows : List RawRow) (au : List Audit) (tbl : List Row),
    (bf = [] ∨ ∀ r ∈ rows, r.integral = true) →
    insertRows false bf af rows au tbl = insertRows true bf af rows au tbl := by
  intro rows
  induction rows with
  | nil => intro au tbl _; rfl
  | cons r rows ih =>
    intro au tbl h
    have hrest : bf = [] ∨ ∀ r ∈ rows, r.integral = true := by
      rcases h with h | h
      · exact Or.inl h
      · exact Or.inr (fun x hx => h x (List.mem_cons_of_mem _ hx))
    rcases h with h | h
    · subst h
      simp only [insertRows, runBeforeRaw, entryRow, Bool.false_eq_true, if_false, if_true, stored_raw]
      split
      · rfl
      · exact ih _ _ hrest
    · have hr := h r (List.mem_cons_self ..)
      simp only [insertRows, entryRow_integral _ hr]
      split
      · rfl
      · exact ih _ _ hrest

/-! ### UPDATE / DELETE: the trace of one row -/

/-- The row an UPDATE leaves for `r`: `b + k` converted to the column type, then the BEFORE chain. -/
def updStored (bf : List Trig) (k : Tenths) (r : Row) : Row :=
  ((runBefore bf (some r) (some { r with b := roundT (10 * r.b + k) }) []).1).getD r

def updTrace (bf af : List Trig) (k : Tenths) (r : Row) : List Audit :=
  (runBefore bf (some r) (some { r with b := roundT (10 * r.b + k) }) []).2 ++
    af.map (fun t => auditOf t (some r) (some (updStored bf k r)))

def delTrace (bf af : List Trig) (r : Row) : List Audit :=
  (runBefore bf (some r) none []).2 ++ af.map (fun t => auditOf t (some r) none)

theorem updateRows_trace (bf af : List Trig) (k : Tenths) (lo : Int) : ∀ (tbl : List Row) (au : List Audit),
    updateRows bf af k lo tbl au =
      (au ++ (tbl.filter (fun r => decide (lo ≤ r.a))).flatMap (updTrace bf af k),
       tbl.map (fun r => if lo ≤ r.a then updStored bf k r else r)) := by
  intro tbl
  induction tbl with
  | nil => intro au; simp [updateRows]
  | cons r tbl ih =>
    intro au
    simp only [updateRows]
    by_cases hlo : lo ≤ r.a
    · simp only [hlo, if_true, List.filter_cons, decide_true, List.flatMap_cons, List.map_cons]
      rw [runBefore_acc]
      simp only [ih]
      simp [runAfter, updTrace, updStored, List.append_assoc]
    · simp only [hlo, if_false, List.filter_cons, decide_false, List.map_cons, ih]
      simp

theorem deleteRows_trace (bf af : List Trig) (lo : Int) : ∀ (tbl : List Row) (au : List Audit),
    deleteRows bf af lo tbl au =
      (au ++ (tbl.filter (fun r => decide (lo ≤ r.a))).flatMap (delTrace bf af),
       tbl.filter (fun r => !decide (lo ≤ r.a))) := by
  intro tbl
  induction tbl with
  | nil => intro au; simp [deleteRows]
  | cons r tbl ih =>
    intro au
    simp only [deleteRows]
    by_cases hlo : lo ≤ r.a
    · simp only [hlo, if_true, List.filter_cons, decide_true, List.flatMap_cons, Bool.not_true, Bool.false_eq_true, if_false]
      rw [runBefore_acc]
      simp only [ih]
      simp [runAfter, delTrace, List.append_assoc]
    · simp only [hlo, if_false, List.filter_cons, decide_false, ih]
      simp

theorem updTrace_names (bf af : List Trig) (k : Tenths) (r : Row) : (updTrace bf af k r).map (·.n) = rowNames bf af := by
  simp [updTrace, rowNames, runBefore_names, auditOf, Function.comp_def]

theorem delTrace_names (bf af : List Trig) (r : Row) : (delTrace bf af r).map (·.n) = rowNames bf af := by
  simp [delTrace, rowNames, runBefore_names, auditOf, Function.comp_def]

theorem flatMap_names {α : Type} (f : α → List Audit) (g : List TName) (h : ∀ x, (f x).map (·.n) = g) :
    ∀ (l : List α), (l.flatMap f).map (·.n) = l.flatMap (fun _ => g) := by
  intro l
  induction l with
  | nil => rfl
  | cons x xs ih => simp only [List.flatMap_cons, List.map_append, h, ih]

end Gms.Triggers

/-! ## Property theorems -/
namespace Gms.C23
open Gms.Triggers

/-- The list surgery of `OrderTriggers`, the AFTER-reversal and wrapping of the analyzer, and the
append-growth capacities of a trigger slice are the ones the model transliterates. -/
theorem facts_match :
    Gms.Generated.C23.orderAssigns = ["make([]*CreateTrigger,len(triggers))", "copy(orderedTriggers,triggers)",
      "append(orderedTriggers[:i],orderedTriggers[i+1:]...)",
      "append(orderedTriggers[:j],append(triggers[i:i+1],orderedTriggers[j:]...)...)",
      "append(orderedTriggers,triggers[i])",
      "append(orderedTriggers[:j+1],append(triggers[i:i+1],orderedTriggers[j+1:]...)...)"]
    ∧ Gms.Generated.C23.orderRanges = ["i,trigger:=rangetriggers", "j,t:=rangeorderedTriggers", "_,trigger:=rangeorderedTriggers"]
    ∧ Gms.Generated.C23.orderTests = ["trigger.TriggerOrder!=nil", "t.TriggerName==ref",
      "trigger.TriggerOrder.PrecedesOrFollows==sqlparser.PrecedesStr", "trigger.TriggerOrder.PrecedesOrFollows==sqlparser.FollowsStr",
      "len(orderedTriggers)==j-1", "trigger.TriggerTime==sqlparser.BeforeStr"]
    ∧ Gms.Generated.C23.reverseAfter = ["for:left,right:=0,len(afterTriggers)-1;left<right;left,right=left+1,right-1",
      "body:afterTriggers[left],afterTriggers[right]=afterTriggers[right],afterTriggers[left]",
      "return:append(beforeTriggers,afterTriggers...)"]
    ∧ Gms.Generated.C23.wraps = ["*plan.InsertInto:before=n.Source:after=n", "*plan.Update:before=n.Child:after=n",
      "*plan.DeleteFrom:before=n.Child:after=n"]
    ∧ Gms.Generated.C23.appendCaps = [0, 1, 2, 4, 4, 8, 8, 8, 8, 16, 16, 16, 16, 16, 16, 16, 16]
    -- row flow: the row insertIter converts in place is the row it stores *and* the row it returns (= NEW of the
    -- AFTER executors above it); updateIter stores the new half of the row it returns; triggerIter prepends the
    -- row of its child to the trigger logic and passes that row on
    ∧ Gms.Generated.C23.insertFlow = ["assign:row,err:=i.rowSource.Next(ctx)", "assign:row[idx]=converted",
      "assign:row=convertDataAndWarn(ctx,i.schema,row,idx,cErr)", "assign:row[idx]=converted",
      "store:i.replacer.Insert(ctx,row)", "store:i.inserter.Insert(ctx,row)", "return:row,nil"]
    ∧ Gms.Generated.C23.updateFlow = ["assign:oldAndNewRow,err:=u.childIter.Next(ctx)",
      "assign:oldRow,newRow:=oldAndNewRow[:len(oldAndNewRow)/2],oldAndNewRow[len(oldAndNewRow)/2:]",
      "store:u.updater.Update(ctx,oldRow,newRow)", "return:oldAndNewRow,nil"]
    ∧ Gms.Generated.C23.triggerFlow = ["assign:childRow,err:=t.child.Next(ctx)",
      "call:prependRowInPlanForTriggerExecution(ctx,childRow)", "call:t.b.buildNodeExec(ctx,logic,childRow)",
      "call:shouldUseLogicResult(ctx,logic,logicRow)", "return:childRow,nil"] := by
  decide

/-- The Spec order is a permutation of the triggers: every trigger appears exactly once. -/
theorem specOrder_perm (ts o : List Trig) (h : specOrder ts = some o) : o.Perm ts := by
  have := specFold_perm ts [] o h
  simpa using this

/-- In the Spec order every FOLLOWS trigger stands after, and every PRECEDES trigger before, a
trigger with the referenced name. -/
theorem specOrder_respects (ts o : List Trig) (h : specOrder ts = some o) : ∀ t ∈ ts, Respects o t :=
  (specFold_respects ts [] o h).2

/-- **`OrderTriggers` is correct whenever it does not overwrite its input.** For every capacity of
the input slice and every well-formed trigger list: if the run never changes a visible element of
`triggers` (Region `order_input_aliasing` does not apply), the result is the Spec order (and it
does not panic). -/
theorem orderTriggers_correct_partial (cap : Nat) (ts : List Trig) (hw : wellFormed ts = true)
    (hr : aliasVisible cap ts = false) : orderImpl cap ts = specOrder ts := by
  have h := loop_spec cap ts [] [] (List.Perm.refl _) (by simpa [wellFormed] using hw)
  simp only [List.nil_append, List.length_nil] at h
  unfold aliasVisible orderRun at hr
  obtain ⟨h1, h2⟩ := h hr
  unfold orderImpl orderRun specOrder
  simp only [h1, Bool.false_eq_true, if_false]
  exact h2.symm

/-- … and in that case it inherits the Spec's guarantees. -/
theorem orderTriggers_perm_partial (cap : Nat) (ts o : List Trig) (hw : wellFormed ts = true)
    (hr : aliasVisible cap ts = false) (h : orderImpl cap ts = some o) : o.Perm ts ∧ ∀ t ∈ ts, Respects o t := by
  rw [orderTriggers_correct_partial cap ts hw hr] at h
  exact ⟨specOrder_perm ts o h, specOrder_respects ts o h⟩

/-- INSERT: per inserted row, the BEFORE triggers in order then the AFTER triggers in order — each
trigger of the event exactly once per row. -/
theorem fires_once_per_row_insert (spec : Bool) (ordered : List Trig) (tbl : List Row) (rows : List RawRow)
    (hok : (execDml spec ordered tbl (.insert rows)).outcome = .ok) :
    (execDml spec ordered tbl (.insert rows)).audit.map (·.n) =
      rows.flatMap (fun _ => rowNames (befores ordered) (afters ordered)) := by
  simp only [execDml, firingOrder, List.reverse_reverse] at hok ⊢
  generalize hres : insertRows spec (befores ordered) (afters ordered) rows [] tbl = res at hok ⊢
  obtain ⟨au, tbl', failed⟩ := res
  cases failed with
  | true => simp at hok
  | false =>
    simp only [Bool.false_eq_true, if_false]
    obtain ⟨h1, _⟩ := insertRows_trace _ _ _ rows [] tbl au tbl' hres
    rw [h1, List.nil_append]
    exact flatMap_names _ _ (insTrace_names spec _ _) rows

theorem fires_once_per_row_update (spec : Bool) (ordered : List Trig) (tbl : List Row) (k : Tenths) (lo : Int) :
    (execDml spec ordered tbl (.update k lo)).audit.map (·.n) =
      (tbl.filter (fun r => decide (lo ≤ r.a))).flatMap (fun _ => rowNames (befores ordered) (afters ordered)) := by
  simp only [execDml, firingOrder, List.reverse_reverse, updateRows_trace, List.nil_append]
  exact flatMap_names _ _ (updTrace_names _ _ k) _

theorem fires_once_per_row_delete (spec : Bool) (ordered : List Trig) (tbl : List Row) (lo : Int) :
    (execDml spec ordered tbl (.delete lo)).audit.map (·.n) =
      (tbl.filter (fun r => decide (lo ≤ r.a))).flatMap (fun _ => rowNames (befores ordered) (afters ordered)) := by
  simp only [execDml, firingOrder, List.reverse_reverse, deleteRows_trace, List.nil_append]
  exact flatMap_names _ _ (delTrace_names _ _) _

/-- **OLD/NEW values of an INSERT.** A successful INSERT writes, per row as written and in statement
order, the BEFORE chain's records followed by one record per AFTER trigger whose NEW is the *stored*
row `insStored` (= what the BEFORE chain leaves, converted to the column types); the table gains
exactly those stored rows. Holds for the Spec and for the Impl model (any moment of conversion). -/
theorem insert_old_new_values (spec : Bool) (ordered : List Trig) (tbl : List Row) (rows : List RawRow)
    (hok : (execDml spec ordered tbl (.insert rows)).outcome = .ok) :
    (execDml spec ordered tbl (.insert rows)).audit = rows.flatMap (insTrace spec (befores ordered) (afters ordered)) ∧
    (execDml spec ordered tbl (.insert rows)).table =
      rows.foldl (fun t r => insertSorted (insStored spec (befores ordered) r) t) tbl := by
  simp only [execDml, firingOrder, List.reverse_reverse] at hok ⊢
  generalize hres : insertRows spec (befores ordered) (afters ordered) rows [] tbl = res at hok ⊢
  obtain ⟨au, tbl', failed⟩ := res
  cases failed with
  | true => simp at hok
  | false =>
    simp only [Bool.false_eq_true, if_false]
    obtain ⟨h1, h2⟩ := insertRows_trace _ _ _ rows [] tbl au tbl' hres
    exact ⟨by simpa using h1, h2⟩

/-- **NEW of an AFTER INSERT trigger is a row of the table.** Every record an AFTER trigger writes
for a written row `r` shows, cell for cell, the row `insStored … r`, and that row is in the table
when the statement has succeeded — an AFTER trigger never sees a value that was not stored. -/
theorem after_insert_new_is_stored (spec : Bool) (ordered : List Trig) (tbl : List Row) (rows : List RawRow)
    (hok : (execDml spec ordered tbl (.insert rows)).outcome = .ok) (r : RawRow) (hr : r ∈ rows) :
    insStored spec (befores ordered) r ∈ (execDml spec ordered tbl (.insert rows)).table ∧
    ∀ e ∈ (afters ordered).map (fun t => auditOf t none (some (insStored spec (befores ordered) r))),
      e.oa = none ∧ e.ob = none ∧
      e.na = some (10 * (insStored spec (befores ordered) r).a) ∧ e.nb = some (10 * (insStored spec (befores ordered) r).b) := by
  refine ⟨?_, ?_⟩
  · rw [(insert_old_new_values spec ordered tbl rows hok).2, mem_foldl_insertSorted]
    exact Or.inr ⟨r, hr, rfl⟩
  · intro e he
    simp only [List.mem_map] at he
    obtain ⟨t, _, rfl⟩ := he
    simp [auditOf]

/-- **What a BEFORE INSERT chain leaves in NEW is what gets stored**: the last BEFORE trigger's
record shows the row whose conversion to the column types is `insStored`, and the key cell is the
one that entered the chain. -/
theorem before_insert_new_is_stored (early : Bool) (bf : List Trig) (r : RawRow) (hbf : bf ≠ []) :
    ∃ (e : Audit) (new : RawRow), (runBeforeRaw bf (entryRow early r) []).2.getLast? = some e ∧ e.na = some new.a ∧ e.nb = some new.b ∧
      new.stored = insStored early bf r ∧ new.a = (entryRow early r).a := by
  obtain ⟨e, h1, h2, h3⟩ := runBeforeRaw_last bf (entryRow early r) [] hbf
  exact ⟨e, (runBeforeRaw bf (entryRow early r) []).1, h1, h2, h3, rfl, runBeforeRaw_key _ _ _⟩

/-- **OLD/NEW values of an UPDATE**: per affected row in table order, the BEFORE chain's records then
one record per AFTER trigger with OLD = the row as it was and NEW = the row as it is stored; the
table holds `updStored` for every affected row and the other rows unchanged. -/
theorem update_old_new_values (spec : Bool) (ordered : List Trig) (tbl : List Row) (k : Tenths) (lo : Int) :
    (execDml spec ordered tbl (.update k lo)).audit =
      (tbl.filter (fun r => decide (lo ≤ r.a))).flatMap (updTrace (befores ordered) (afters ordered) k) ∧
    (execDml spec ordered tbl (.update k lo)).table =
      tbl.map (fun r => if lo ≤ r.a then updStored (befores ordered) k r else r) := by
  simp [execDml, firingOrder, updateRows_trace]

/-- Every record of an UPDATE row trace carries the row as it was as OLD. -/
theorem update_old_is_row (bf af : List Trig) (k : Tenths) (r : Row) :
    ∀ e ∈ updTrace bf af k r, e.oa = some (10 * r.a) ∧ e.ob = some (10 * r.b) := by
  intro e he
  simp only [updTrace, List.mem_append, List.mem_map] at he
  rcases he with he | ⟨t, _, rfl⟩
  · rcases runBefore_old _ _ _ _ e he with h | h
    · cases h
    · simpa using h
  · simp [auditOf]

/-- **OLD values of a DELETE**: per deleted row, BEFORE then AFTER records with OLD = the deleted row
and no NEW; exactly the rows outside the WHERE clause stay. -/
theorem delete_old_values (spec : Bool) (ordered : List Trig) (tbl : List Row) (lo : Int) :
    (execDml spec ordered tbl (.delete lo)).audit =
      (tbl.filter (fun r => decide (lo ≤ r.a))).flatMap (delTrace (befores ordered) (afters ordered)) ∧
    (execDml spec ordered tbl (.delete lo)).table = tbl.filter (fun r => !decide (lo ≤ r.a)) ∧
    ∀ r, ∀ e ∈ delTrace (befores ordered) (afters ordered) r, e.oa = some (10 * r.a) ∧ e.ob = some (10 * r.b) := by
  refine ⟨by simp [execDml, firingOrder, deleteRows_trace], by simp [execDml, firingOrder, deleteRows_trace], ?_⟩
  intro r e he
  simp only [delTrace, List.mem_append, List.mem_map] at he
  rcases he with he | ⟨t, _, rfl⟩
  · rcases runBefore_old _ _ _ _ e he with h | h
    · cases h
    · simpa using h
  · simp [auditOf]

/- Full statement (false on the unchanged tree, see `finding_before_insert_new_unconverted`):
     ∀ ordered tbl d, (execDml false ordered tbl d) and (execDml true ordered tbl d) agree on outcome, table and —
     when the statement succeeds — on every OLD/NEW value the triggers see.
   Proved with the guard `unconvertedSeen ordered d = false`: -/
/-- **The values triggers see are the Spec's, outside Region `before_insert_new_unconverted`**: if no
BEFORE trigger looks at an inserted value that the conversion to the column type changes, the Impl
model and the Spec agree on outcome and table, and on the whole audit trail of a successful
statement (a failing one differs by Region `failed_statement_keeps_trigger_effects` only). -/
theorem trigger_values_correct_partial (ordered : List Trig) (tbl : List Row) (d : Dml)
    (hr : unconvertedSeen ordered d = false) :
    (execDml false ordered tbl d).outcome = (execDml true ordered tbl d).outcome ∧
    (execDml false ordered tbl d).table = (execDml true ordered tbl d).table ∧
    ((execDml true ordered tbl d).outcome = .ok → (execDml false ordered tbl d).audit = (execDml true ordered tbl d).audit) := by
  cases d with
  | insert rows =>
    have hg : befores ordered = [] ∨ ∀ r ∈ rows, r.integral = true := by
      simp only [unconvertedSeen, Bool.and_eq_false_iff, Bool.not_eq_false', List.isEmpty_iff, List.any_eq_false,
        Bool.not_eq_true', Bool.not_eq_false] at hr
      rcases hr with h | h
      · exact Or.inl h
      · exact Or.inr (fun r hx => by simpa using h r hx)
    simp only [execDml, firingOrder, List.reverse_reverse]
    rw [insertRows_early_irrelevant _ _ rows [] tbl hg]
    generalize insertRows true (befores ordered) (afters ordered) rows [] tbl = res
    obtain ⟨au, tbl', failed⟩ := res
    cases failed <;> simp
  | update k lo => simp [execDml]
  | delete lo => simp [execDml]

/-- The row a BEFORE UPDATE chain hands to the storage layer is the updated row with every
`SET NEW.b = NEW.b + k` applied, and it keeps its key. -/
theorem before_new_keeps_key (bf : List Trig) (old : Option Row) (r : Row) (acc : List Audit) :
    ∃ r', (runBefore bf old (some r) acc).1 = some r' ∧ r'.a = r.a := runBefore_some bf old r acc

/-! ### Non-vacuity -/

def bt (n : TName) (o : Option (OrdKind × TName) := none) : Trig := { name := n, time := .before, order := o }
def atr (n : TName) (o : Option (OrdKind × TName) := none) : Trig := { name := n, time := .after, order := o }

/-- DESIGN's example: t1, t2, t3 PRECEDES t1, t4 FOLLOWS t1, t5 PRECEDES t2 ↦ t3,t1,t4,t5,t2; with a slice
of capacity 5 `OrderTriggers` does not alias and agrees. -/
example : let ts := [bt 1, bt 2, bt 3 (some (.precedes, 1)), bt 4 (some (.follows, 1)), bt 5 (some (.precedes, 2))]
    wellFormed ts = true ∧ aliasVisible 5 ts = false ∧
    (specOrder ts).map (·.map (·.name)) = some [3, 1, 4, 5, 2] ∧ (orderImpl 5 ts).map (·.map (·.name)) = some [3, 1, 4, 5, 2] := by
  decide

example : (execDml true [bt 1, atr 2] [⟨1, 10⟩, ⟨2, 20⟩] (.delete 2)).audit.map (·.n) = [1, 2] := by decide

/-- `INSERT INTO t VALUES (1, 2.6), (3.4, -0.5)` with one AFTER trigger: it sees (1,3) and (3,-1), the stored
rows, in the Impl model as in the Spec (the guard of `trigger_values_correct_partial` holds: no BEFORE trigger). -/
example : unconvertedSeen [atr 1] (.insert [⟨10, 26⟩, ⟨34, -5⟩]) = false ∧
    (execDml false [atr 1] [] (.insert [⟨10, 26⟩, ⟨34, -5⟩])).outcome = .ok ∧
    (execDml false [atr 1] [] (.insert [⟨10, 26⟩, ⟨34, -5⟩])).audit =
      [⟨1, none, none, some 10, some 30⟩, ⟨1, none, none, some 30, some (-10)⟩] ∧
    (execDml false [atr 1] [] (.insert [⟨10, 26⟩, ⟨34, -5⟩])).table = [⟨1, 3⟩, ⟨3, -1⟩] := by decide

/-- `UPDATE t SET b = b + 1.6`: BEFORE and AFTER triggers see the converted value 12 (= round 11.6). -/
example : (execDml false [bt 1, atr 2] [⟨1, 10⟩] (.update 16 0)).audit =
    [⟨1, some 10, some 100, some 10, some 120⟩, ⟨2, some 10, some 100, some 10, some 120⟩] := by decide

/-! ### Findings on the unchanged tree -/

/-- Three triggers (slice capacity 4, as `applyTriggers` builds it): t1, t2 PRECEDES t1, t3 PRECEDES t2
fire as t2,t1,t3 instead of t3,t2,t1. -/
theorem finding_order_input_aliasing :
    let ts := [bt 1, bt 2 (some (.precedes, 1)), bt 3 (some (.precedes, 2))]
    wellFormed ts = true ∧ aliasVisible 4 ts = true ∧
    (orderImpl 4 ts).map (·.map (·.name)) = some [2, 1, 3] ∧ (specOrder ts).map (·.map (·.name)) = some [3, 2, 1] := by
  decide

/-- Five triggers (capacity 8): t3 fires three times, t4 and t5 never — the result is not even a
permutation of the triggers. -/
theorem finding_trigger_fires_thrice :
    let ts := [bt 1, bt 2 (some (.precedes, 1)), bt 3 (some (.follows, 1)), bt 4, bt 5]
    wellFormed ts = true ∧ aliasVisible 8 ts = true ∧
    (orderImpl 8 ts).map (·.map (·.name)) = some [2, 1, 3, 3, 3] ∧ (specOrder ts).map (·.map (·.name)) = some [2, 1, 3, 4, 5] := by
  decide

/-- Seven well-formed triggers (capacity 8): `OrderTriggers` panics ("Referenced trigger … not found"). -/
theorem finding_order_panics :
    let ts := [bt 1, bt 2 (some (.precedes, 1)), bt 3 (some (.follows, 2)), bt 4, bt 5 (some (.precedes, 4)), bt 6, bt 7]
    wellFormed ts = true ∧ aliasVisible 8 ts = true ∧ orderImpl 8 ts = none ∧
    (specOrder ts).map (·.map (·.name)) = some [2, 3, 1, 5, 4, 6, 7] := by
  decide

/-- A statement that fails on its second row keeps the audit rows its triggers wrote (memory
backend: no savepoints), while the table itself is unchanged. -/
theorem finding_failed_statement_keeps_trigger_effects :
    let ts := [{ bt 1 with setB := some 1 }, atr 2]
    (stmtImpl 2 ts [⟨1, 10⟩] (.insert [⟨50, 500⟩, ⟨10, 10⟩, ⟨60, 600⟩])).outcome = .dupKey ∧
    (stmtImpl 2 ts [⟨1, 10⟩] (.insert [⟨50, 500⟩, ⟨10, 10⟩, ⟨60, 600⟩])).audit.map (·.n) = [1, 2, 1] ∧
    (stmtSpec ts [⟨1, 10⟩] (.insert [⟨50, 500⟩, ⟨10, 10⟩, ⟨60, 600⟩])).map (·.audit) = some [] := by
  decide

/-- `INSERT INTO t VALUES (1, 2.6)` with one BEFORE INSERT trigger: the trigger sees NEW.b = 2.6 (the value
as written; `insertIter` converts it only afterwards), MySQL shows it 3 — the stored value. -/
theorem finding_before_insert_new_unconverted :
    unconvertedSeen [bt 1] (.insert [⟨10, 26⟩]) = true ∧
    (execDml false [bt 1] [] (.insert [⟨10, 26⟩])).audit = [⟨1, none, none, some 10, some 26⟩] ∧
    (execDml true [bt 1] [] (.insert [⟨10, 26⟩])).audit = [⟨1, none, none, some 10, some 30⟩] ∧
    (execDml false [bt 1] [] (.insert [⟨10, 26⟩])).table = [⟨1, 3⟩] := by
  decide

end Gms.C23
