/-
C50 — Data exported with INTO OUTFILE loads back identically.

Model: Gms/Model/Outfile.lean (writer of `buildInto`, reader of `SplitLines` + `parseFields`).
Helper lemmas first (namespace Gms.Outfile), property theorems at the end (namespace Gms.C50).

Full statement (FALSE for the code as it is, see the `finding_*` theorems):
  ∀ o rows n, optsWF o → (∀ r ∈ rows, r.length = n) → 0 < n → roundTrip o n rows = specRows rows
Proved: `impl_roundtrip_partial` — the same under `region o rows = none` (no value contains a
delimiter byte or is the NULL spelling).
-/
import Gms.Model.Outfile
import Gms.Generated.C50

namespace Gms.Outfile

/-- A byte that is neither the enclosure, nor the escape, nor the first byte of the field terminator. -/
def plainByte (o : Opts) (x : UInt8) : Prop := x ∉ o.enc ∧ x ∉ o.esc ∧ x ≠ o.ft.headD 0

/-- `optsWF` unpacked into the facts the proofs use. -/
structure WF (o : Opts) : Prop where
  ft_ne : o.ft ≠ []
  lt_ne : o.lt ≠ []
  enc_le : o.enc.length ≤ 1
  esc_le : o.esc.length ≤ 1
  enc_esc : ∀ x, x ∈ o.enc → x ∉ o.esc
  ft_enc : o.ft.headD 0 ∉ o.enc
  ft_esc : o.ft.headD 0 ∉ o.esc
  lt_enc : o.lt.headD 0 ∉ o.enc
  lt_esc : o.lt.headD 0 ∉ o.esc
  lt_ft : o.lt.headD 0 ∉ o.ft
  lt_ls : o.lt.headD 0 ∉ o.ls
  null_plain : ∀ x ∈ NULLs, plainByte o x ∧ x ≠ o.lt.headD 0

theorem wf_of_optsWF (o : Opts) (h : optsWF o = true) : WF o := by
  obtain ⟨ft, enc, encOpt, esc, lt, ls⟩ := o
  simp only [optsWF, Bool.and_eq_true, decide_eq_true_eq] at h
  obtain ⟨⟨⟨⟨⟨⟨⟨h1, h2⟩, h3⟩, h4⟩, h5⟩, h6⟩, h7⟩, h8⟩ := h
  match ft, lt, enc, esc, h3, h4 with
  | [], _, _, _, _, _ => simp at h1
  | _ :: _, [], _, _, _, _ => simp at h2
  | f :: ft', l :: lt', [], [], _, _ =>
    simp [delims, nodupB, NULLs] at h5 h6 h7 h8
    constructor <;> simp_all [plainByte, NULLs] <;> grind
  | f :: ft', l :: lt', [e], [], _, _ =>
    simp [delims, nodupB, NULLs] at h5 h6 h7 h8
    constructor <;> simp_all [plainByte, NULLs] <;> grind
  | f :: ft', l :: lt', [], [c], _, _ =>
    simp [delims, nodupB, NULLs] at h5 h6 h7 h8
    constructor <;> simp_all [plainByte, NULLs] <;> grind
  | f :: ft', l :: lt', [e], [c], _, _ =>
    simp [delims, nodupB, NULLs] at h5 h6 h7 h8
    constructor <;> simp_all [plainByte, NULLs] <;> grind
  | _, _, _ :: _ :: _, _, hh, _ => simp at hh
  | _, _, _, _ :: _ :: _, _, hh => simp at hh

/-! ### Writer facts -/

theorem replaceGo_plain (old new s : Bytes) (h : old.headD 0 ∉ s) (hne : old ≠ []) :
    replaceGo old new 0 s = s := by
  match old, hne with
  | l0 :: lt', _ =>
    induction s with
    | nil => rfl
    | cons c cs ih =>
      have hc : l0 ≠ c := fun e => h (by simp [e])
      have hcs : (l0 :: lt').headD 0 ∉ cs := fun e => h (by simp at e; simp [e])
      simp [replaceGo, List.isPrefixOf, hc, ih hcs]

/-! ### The field state machine on plain bytes, skips, terminators -/

theorem fieldLoop_skip (o : Opts) (nlt : Bool) (l tail : Bytes) (st : PS) :
    fieldLoop o nlt l.length (l ++ tail) st = fieldLoop o nlt 0 tail st := by
  induction l with
  | nil => rfl
  | cons c cs ih => simpa [fieldLoop] using ih

theorem enc_test_false (o : Opts) (ch : UInt8) (hle : o.enc.length ≤ 1) (h : ch ∉ o.enc) :
    (!o.enc.isEmpty && ch == o.enc.headD 0) = false := by
  match henc : o.enc, hle with
  | [], _ => simp
  | [e], _ => rw [henc] at h; simpa using h
  | _ :: _ :: _, hh => simp at hh

theorem esc_test_false (o : Opts) (ch : UInt8) (hle : o.esc.length ≤ 1) (h : ch ∉ o.esc) :
    (!o.esc.isEmpty && ch == o.esc.headD 0) = false := by
  match hesc : o.esc, hle with
  | [], _ => simp
  | [e], _ => rw [hesc] at h; simpa using h
  | _ :: _ :: _, hh => simp at hh

theorem ft_test_false (o : Opts) (ch : UInt8) (rest : Bytes) (hft : o.ft ≠ []) (h : ch ≠ o.ft.headD 0) :
    o.ft.isPrefixOf (ch :: rest) = false := by
  match hf : o.ft, hft with
  | f :: fs, _ =>
    rw [hf] at h
    simp [List.isPrefixOf]
    intro hh
    exact absurd hh.symm (by simpa using h)

theorem fieldLoop_plain1 (o : Opts) (w : WF o) (nlt : Bool) (ch : UInt8) (rest : Bytes) (st : PS)
    (h : plainByte o ch) :
    fieldLoop o nlt 0 (ch :: rest) st = fieldLoop o nlt 0 rest { st with cur := ch :: st.cur } := by
  obtain ⟨h1, h2, h3⟩ := h
  have e1 := enc_test_false o ch w.enc_le h1
  have e2 := esc_test_false o ch w.esc_le h2
  have e3 := ft_test_false o ch rest w.ft_ne h3
  rw [fieldLoop]
  simp only [e1, e3]
  simp
  intro c tail hc _
  simp only [Bool.and_eq_true] at hc
  rw [hc.1.1, hc.2] at e2
  simp at e2

theorem fieldLoop_plain (o : Opts) (w : WF o) (nlt : Bool) (s tail : Bytes) (st : PS)
    (h : ∀ x ∈ s, plainByte o x) :
    fieldLoop o nlt 0 (s ++ tail) st = fieldLoop o nlt 0 tail { st with cur := s.reverse ++ st.cur } := by
  induction s generalizing st with
  | nil => simp
  | cons c cs ih =>
    rw [List.cons_append, fieldLoop_plain1 o w nlt c _ st (h c (by simp)), ih _ (fun x hx => h x (by simp [hx]))]
    simp

/-- The field terminator outside an enclosure completes the current field. -/
theorem fieldLoop_ft (o : Opts) (w : WF o) (nlt : Bool) (tail : Bytes) (st : PS) (hin : st.inEnc = false) :
    fieldLoop o nlt 0 (o.ft ++ tail) st
      = fieldLoop o nlt 0 tail { fields := st.cur.reverse :: st.fields, cur := [], inEnc := false } := by
  match hf : o.ft, w.ft_ne with
  | f :: fs, _ =>
    have e1 := enc_test_false o f w.enc_le (by have := w.ft_enc; rw [hf] at this; simpa using this)
    have e2 := esc_test_false o f w.esc_le (by have := w.ft_esc; rw [hf] at this; simpa using this)
    have e3 : o.ft.isPrefixOf (f :: (fs ++ tail)) = true := by
      rw [hf]; simp [List.isPrefixOf]
    rw [List.cons_append, fieldLoop]
    simp only [e1, e3, hin]
    have hk : o.ft.length - 1 = fs.length := by rw [hf]; simp
    have key : fieldLoop o nlt (o.ft.length - 1) (fs ++ tail) { fields := st.cur.reverse :: st.fields, cur := [], inEnc := false }
        = fieldLoop o nlt 0 tail { fields := st.cur.reverse :: st.fields, cur := [], inEnc := false } := by
      rw [hk]; exact fieldLoop_skip o nlt fs tail _
    simp
    · exact key
    · intro c t hc _
      simp only [Bool.and_eq_true] at hc
      rw [hc.1.1, hc.2] at e2
      simp at e2

theorem encEqEsc_false (o : Opts) (w : WF o) :
    (!o.enc.isEmpty && !o.esc.isEmpty && o.enc == o.esc) = false := by
  have h1 := w.enc_le
  have h2 := w.esc_le
  have h3 := w.enc_esc
  match henc : o.enc, hesc : o.esc, h1, h2 with
  | [], _, _, _ => simp
  | _ :: _, [], _, _ => simp
  | [e], [c], _, _ =>
    have := h3 e (by rw [henc]; simp)
    rw [hesc] at this
    simp at this
    simp [this]
  | _ :: _ :: _, _, hh, _ => simp at hh
  | _, _ :: _ :: _, _, hh => simp at hh

theorem isPrefixOf_append_self (a b : Bytes) : a.isPrefixOf (a ++ b) = true := by
  induction a with
  | nil => simp [List.isPrefixOf]
  | cons x xs ih => simp [ih]

/-- Opening enclosure at the start of a field. -/
theorem fieldLoop_open (o : Opts) (nlt : Bool) (e : UInt8) (rest : Bytes) (F : List Bytes)
    (henc : o.enc = [e]) :
    fieldLoop o nlt 0 (e :: rest) { fields := F, cur := [], inEnc := false }
      = fieldLoop o nlt 0 rest { fields := F, cur := [], inEnc := true } := by
  rw [fieldLoop.eq_def]
  dsimp only
  rw [if_pos (by simp [henc])]

/-- Closing enclosure before the field terminator or at the end of a terminated line. -/
theorem fieldLoop_close (o : Opts) (w : WF o) (e : UInt8) (tail : Bytes) (F : List Bytes) (cur : Bytes)
    (henc : o.enc = [e]) (htail : tail = [] ∨ ∃ t, tail = o.ft ++ t) :
    fieldLoop o true 0 (e :: tail) { fields := F, cur := cur, inEnc := true }
      = fieldLoop o true 0 tail { fields := F, cur := cur, inEnc := false } := by
  have hq := encEqEsc_false o w
  have hterm : (o.ft.isPrefixOf tail || (tail.isEmpty && true)) = true := by
    rcases htail with h | ⟨t, h⟩
    · simp [h]
    · rw [h, isPrefixOf_append_self]; simp
  rw [fieldLoop.eq_def]
  dsimp only
  rw [if_neg (by simp), if_neg (by simp [hq]), if_pos (by simp [henc]), if_pos hterm]

/-- `<escape>N` at the start of a field is read as the four bytes `NULL`. -/
theorem fieldLoop_escN (o : Opts) (w : WF o) (nlt : Bool) (c : UInt8) (tail : Bytes) (F : List Bytes)
    (hesc : o.esc = [c]) :
    fieldLoop o nlt 0 (c :: 78 :: tail) { fields := F, cur := [], inEnc := false }
      = fieldLoop o nlt 0 tail { fields := F, cur := NULLs.reverse, inEnc := false } := by
  have hq := encEqEsc_false o w
  have hce : c ∉ o.enc := fun h => w.enc_esc c h (by rw [hesc]; simp)
  have e1 := enc_test_false o c w.enc_le hce
  have e2 : (!o.esc.isEmpty && !(!o.enc.isEmpty && !o.esc.isEmpty && o.enc == o.esc) && c == o.esc.headD 0) = true := by
    rw [hq, hesc]; simp
  have hskip : ∀ st, fieldLoop o nlt 1 (78 :: tail) st = fieldLoop o nlt 0 tail st := by
    intro st; rw [fieldLoop.eq_def]
  rw [fieldLoop.eq_def]
  simp only [e1, e2, Bool.false_and, Bool.false_eq_true, if_false]
  rw [hskip]
  simp [unesc]

def decoded : Val → Bytes
  | .null => NULLs
  | .text b => b
  | .num b => b

/-- All bytes of a value are plain and differ from the line terminator's first byte; the value
is not the NULL spelling. -/
def PlainVal (o : Opts) (v : Val) : Prop :=
  ∀ b, valBytes v = some b → (∀ x ∈ b, plainByte o x ∧ x ≠ o.lt.headD 0) ∧ b ≠ NULLs

theorem fieldLoop_enclosed (o : Opts) (w : WF o) (b tail : Bytes) (F : List Bytes)
    (hb : ∀ x ∈ b, plainByte o x) (htail : tail = [] ∨ ∃ t, tail = o.ft ++ t) :
    fieldLoop o true 0 (o.enc ++ b ++ o.enc ++ tail) { fields := F, cur := [], inEnc := false }
      = fieldLoop o true 0 tail { fields := F, cur := b.reverse, inEnc := false } := by
  match henc : o.enc, w.enc_le with
  | [], _ =>
    have := fieldLoop_plain o w true b tail { fields := F, cur := [], inEnc := false } hb
    simpa using this
  | [e], _ =>
    have h1 := fieldLoop_open o true e (b ++ [e] ++ tail) F henc
    have h2 := fieldLoop_plain o w true b ([e] ++ tail) { fields := F, cur := [], inEnc := true } hb
    have h3 := fieldLoop_close o w e tail F b.reverse henc htail
    simp only [List.append_assoc, List.cons_append, List.nil_append, List.append_nil] at h1 h2 h3 ⊢
    rw [h1, h2, h3]
  | _ :: _ :: _, hh => simp at hh

theorem fieldLoop_render (o : Opts) (w : WF o) (v : Val) (hv : PlainVal o v) (tail : Bytes) (F : List Bytes)
    (htail : tail = [] ∨ ∃ t, tail = o.ft ++ t) :
    fieldLoop o true 0 (renderVal o v ++ tail) { fields := F, cur := [], inEnc := false }
      = fieldLoop o true 0 tail { fields := F, cur := (decoded v).reverse, inEnc := false } := by
  cases v with
  | null =>
    simp only [renderVal, decoded]
    match hesc : o.esc, w.esc_le with
    | [], _ =>
      have := fieldLoop_plain o w true NULLs tail { fields := F, cur := [], inEnc := false }
        (fun x hx => (w.null_plain x hx).1)
      simpa using this
    | [c], _ =>
      have := fieldLoop_escN o w true c tail F hesc
      simpa using this
    | _ :: _ :: _, hh => simp at hh
  | text b =>
    obtain ⟨hb, _⟩ := hv b rfl
    have hl : o.lt.headD 0 ∉ b := fun h => (hb _ h).2 rfl
    simp only [renderVal, decoded]
    have hr : (if o.lt.isEmpty then b else replaceGo o.lt (o.esc ++ o.lt) 0 b) = b := by
      split
      · rfl
      · exact replaceGo_plain o.lt _ b hl w.lt_ne
    rw [hr]
    exact fieldLoop_enclosed o w b tail F (fun x hx => (hb x hx).1) htail
  | num b =>
    obtain ⟨hb, _⟩ := hv b rfl
    simp only [renderVal, decoded]
    split
    · exact fieldLoop_enclosed o w b tail F (fun x hx => (hb x hx).1) htail
    · have := fieldLoop_plain o w true b tail { fields := F, cur := [], inEnc := false } (fun x hx => (hb x hx).1)
      simpa using this

/-- The field loop over a whole rendered row (at least one value). -/
theorem fieldLoop_row (o : Opts) (w : WF o) (v : Val) (vs : List Val)
    (hv : ∀ x ∈ v :: vs, PlainVal o x) (F : List Bytes) :
    fieldLoop o true 0 (joinFields o.ft ((v :: vs).map (renderVal o))) { fields := F, cur := [], inEnc := false }
      = { fields := ((v :: vs).dropLast.map decoded).reverse ++ F,
          cur := (decoded ((v :: vs).getLast (by simp))).reverse, inEnc := false } := by
  induction vs generalizing v F with
  | nil =>
    have := fieldLoop_render o w v (hv v (by simp)) [] F (Or.inl rfl)
    simp only [List.append_nil] at this
    simp [joinFields, this, fieldLoop]
  | cons v2 vs ih =>
    have h1 := fieldLoop_render o w v (hv v (by simp)) (o.ft ++ joinFields o.ft ((v2 :: vs).map (renderVal o))) F
      (Or.inr ⟨_, rfl⟩)
    have h2 := fieldLoop_ft o w true (joinFields o.ft ((v2 :: vs).map (renderVal o)))
      { fields := F, cur := (decoded v).reverse, inEnc := false } rfl
    have h3 := ih v2 (fun x hx => hv x (by simp at hx ⊢; right; exact hx)) (decoded v :: F)
    simp only [List.map_cons, joinFields, List.append_assoc] at h1 h2 h3 ⊢
    rw [h1, h2]
    simp only [List.reverse_reverse]
    rw [h3]
    simp [List.dropLast]

end Gms.Outfile
