/-
C50 — Data exported with INTO OUTFILE loads back identically.

Model: Gms/Model/Outfile.lean (writer of `buildInto`, reader of `SplitLines` + `parseFields`).
Helper lemmas first (namespace Gms.Outfile), property theorems at the end (namespace Gms.C50).

Full statement (FALSE for the code as it is, see the `finding_*` theorems):
  ∀ o rows n, optsWF o → (∀ r ∈ rows, r.length = n) → 0 < n → roundTrip o n rows = specRows rows
Proved: `impl_roundtrip_partial` — the same under `region o rows = none` (no value contains a
delimiter byte or is the NULL spelling); `impl_roundtrip_chunked_partial` — the same when the
reader delivers the file in ANY chunking (`scan`: bufio.Scanner calling the stateless split
function `splitFn` on a growing buffer), by `scan_whole` (Gms/Lemmas/LineScan.lean): the streaming
scanner produces the whole-file split for every chunking.
-/
import Gms.Model.Outfile
import Gms.Lemmas.LineScan
import Gms.Generated.C50

namespace Gms.Outfile

/-- A byte that is neither the enclosure, nor the escape, nor the first byte of the field terminator. -/
def plainByte (o : Opts) (x : UInt8) : Prop := x ∉ o.enc ∧ x ∉ o.esc ∧ x ≠ o.ft.headD 0

/-- `optsWF` unpacked into the facts the proofs use. -/
structure WF (o : Opts) : Prop where
  ft_ne : o.ft ≠ []
  lt_ne : o.lt ≠ []
  enc_le : o.enc.length ≤ 1
  esc_le : o.esc.length ≤ 1
  enc_esc : ∀ x, x ∈ o.enc → x ∉ o.esc
  ft_enc : o.ft.headD 0 ∉ o.enc
  ft_esc : o.ft.headD 0 ∉ o.esc
  lt_enc : o.lt.headD 0 ∉ o.enc
  lt_esc : o.lt.headD 0 ∉ o.esc
  lt_ft : o.lt.headD 0 ∉ o.ft
  lt_ls : o.lt.headD 0 ∉ o.ls
  null_plain : ∀ x ∈ NULLs, plainByte o x ∧ x ≠ o.lt.headD 0

theorem wf_of_optsWF (o : Opts) (h : optsWF o = true) : WF o := by
  obtain ⟨ft, enc, encOpt, esc, lt, ls⟩ := o
  simp only [optsWF, Bool.and_eq_true, decide_eq_true_eq] at h
  obtain ⟨⟨⟨⟨⟨⟨⟨h1, h2⟩, h3⟩, h4⟩, h5⟩, h6⟩, h7⟩, h8⟩ := h
  match ft, lt, enc, esc, h3, h4 with
  | [], _, _, _, _, _ => simp at h1
  | _ :: _, [], _, _, _, _ => simp at h2
  | f :: ft', l :: lt', [], [], _, _ =>
    simp [delims, nodupB, NULLs] at h5 h6 h7 h8
    constructor <;> simp_all [plainByte, NULLs] <;> grind
  | f :: ft', l :: lt', [e], [], _, _ =>
    simp [delims, nodupB, NULLs] at h5 h6 h7 h8
    constructor <;> simp_all [plainByte, NULLs] <;> grind
  | f :: ft', l :: lt', [], [c], _, _ =>
    simp [delims, nodupB, NULLs] at h5 h6 h7 h8
    constructor <;> simp_all [plainByte, NULLs] <;> grind
  | f :: ft', l :: lt', [e], [c], _, _ =>
    simp [delims, nodupB, NULLs] at h5 h6 h7 h8
    constructor <;> simp_all [plainByte, NULLs] <;> grind
  | _, _, _ :: _ :: _, _, hh, _ => simp at hh
  | _, _, _, _ :: _ :: _, _, hh => simp at hh

/-! ### Writer facts -/

theorem replaceGo_plain (old new s : Bytes) (h : old.headD 0 ∉ s) (hne : old ≠ []) :
    replaceGo old new 0 s = s := by
  match old, hne with
  | l0 :: lt', _ =>
    induction s with
    | nil => rfl
    | cons c cs ih =>
      have hc : l0 ≠ c := fun e => h (by simp [e])
      have hcs : (l0 :: lt').headD 0 ∉ cs := fun e => h (by simp at e; simp [e])
      simp [replaceGo, List.isPrefixOf, hc, ih hcs]

/-! ### The field state machine on plain bytes, skips, terminators -/

theorem fieldLoop_skip (o : Opts) (nlt : Bool) (l tail : Bytes) (st : PS) :
    fieldLoop o nlt l.length (l ++ tail) st = fieldLoop o nlt 0 tail st := by
  induction l with
  | nil => rfl
  | cons c cs ih => simpa [fieldLoop] using ih

theorem enc_test_false (o : Opts) (ch : UInt8) (hle : o.enc.length ≤ 1) (h : ch ∉ o.enc) :
    (!o.enc.isEmpty && ch == o.enc.headD 0) = false := by
  match henc : o.enc, hle with
  | [], _ => simp
  | [e], _ => rw [henc] at h; simpa using h
  | _ :: _ :: _, hh => simp at hh

theorem esc_test_false (o : Opts) (ch : UInt8) (hle : o.esc.length ≤ 1) (h : ch ∉ o.esc) :
    (!o.esc.isEmpty && ch == o.esc.headD 0) = false := by
  match hesc : o.esc, hle with
  | [], _ => simp
  | [e], _ => rw [hesc] at h; simpa using h
  | _ :: _ :: _, hh => simp at hh

theorem ft_test_false (o : Opts) (ch : UInt8) (rest : Bytes) (hft : o.ft ≠ []) (h : ch ≠ o.ft.headD 0) :
    o.ft.isPrefixOf (ch :: rest) = false := by
  match hf : o.ft, hft with
  | f :: fs, _ =>
    rw [hf] at h
    simp [List.isPrefixOf]
    intro hh
    exact absurd hh.symm (by simpa using h)

theorem fieldLoop_plain1 (o : Opts) (w : WF o) (nlt : Bool) (ch : UInt8) (rest : Bytes) (st : PS)
    (h : plainByte o ch) :
    fieldLoop o nlt 0 (ch :: rest) st = fieldLoop o nlt 0 rest { st with cur := ch :: st.cur } := by
  obtain ⟨h1, h2, h3⟩ := h
  have e1 := enc_test_false o ch w.enc_le h1
  have e2 := esc_test_false o ch w.esc_le h2
  have e3 := ft_test_false o ch rest w.ft_ne h3
  rw [fieldLoop]
  simp only [e1, e3]
  simp
  intro c tail hc _
  simp only [Bool.and_eq_true] at hc
  rw [hc.1.1, hc.2] at e2
  simp at e2

theorem fieldLoop_plain (o : Opts) (w : WF o) (nlt : Bool) (s tail : Bytes) (st : PS)
    (h : ∀ x ∈ s, plainByte o x) :
    fieldLoop o nlt 0 (s ++ tail) st = fieldLoop o nlt 0 tail { st with cur := s.reverse ++ st.cur } := by
  induction s generalizing st with
  | nil => simp
  | cons c cs ih =>
    rw [List.cons_append, fieldLoop_plain1 o w nlt c _ st (h c (by simp)), ih _ (fun x hx => h x (by simp [hx]))]
    simp

/-- The field terminator outside an enclosure completes the current field. -/
theorem fieldLoop_ft (o : Opts) (w : WF o) (nlt : Bool) (tail : Bytes) (st : PS) (hin : st.inEnc = false) :
    fieldLoop o nlt 0 (o.ft ++ tail) st
      = fieldLoop o nlt 0 tail { fields := st.cur.reverse :: st.fields, cur := [], inEnc := false } := by
  match hf : o.ft, w.ft_ne with
  | f :: fs, _ =>
    have e1 := enc_test_false o f w.enc_le (by have := w.ft_enc; rw [hf] at this; simpa using this)
    have e2 := esc_test_false o f w.esc_le (by have := w.ft_esc; rw [hf] at this; simpa using this)
    have e3 : o.ft.isPrefixOf (f :: (fs ++ tail)) = true := by
      rw [hf]; simp [List.isPrefixOf]
    rw [List.cons_append, fieldLoop]
    simp only [e1, e3, hin]
    have hk : o.ft.length - 1 = fs.length := by rw [hf]; simp
    have key : fieldLoop o nlt (o.ft.length - 1) (fs ++ tail) { fields := st.cur.reverse :: st.fields, cur := [], inEnc := false }
        = fieldLoop o nlt 0 tail { fields := st.cur.reverse :: st.fields, cur := [], inEnc := false } := by
      rw [hk]; exact fieldLoop_skip o nlt fs tail _
    simp
    · exact key
    · intro c t hc _
      simp only [Bool.and_eq_true] at hc
      rw [hc.1.1, hc.2] at e2
      simp at e2

theorem encEqEsc_false (o : Opts) (w : WF o) :
    (!o.enc.isEmpty && !o.esc.isEmpty && o.enc == o.esc) = false := by
  have h1 := w.enc_le
  have h2 := w.esc_le
  have h3 := w.enc_esc
  match henc : o.enc, hesc : o.esc, h1, h2 with
  | [], _, _, _ => simp
  | _ :: _, [], _, _ => simp
  | [e], [c], _, _ =>
    have := h3 e (by rw [henc]; simp)
    rw [hesc] at this
    simp at this
    simp [this]
  | _ :: _ :: _, _, hh, _ => simp at hh
  | _, _ :: _ :: _, _, hh => simp at hh

theorem isPrefixOf_append_self (a b : Bytes) : a.isPrefixOf (a ++ b) = true := by
  induction a with
  | nil => simp [List.isPrefixOf]
  | cons x xs ih => simp [ih]

/-- Opening enclosure at the start of a field. -/
theorem fieldLoop_open (o : Opts) (nlt : Bool) (e : UInt8) (rest : Bytes) (F : List Bytes)
    (henc : o.enc = [e]) :
    fieldLoop o nlt 0 (e :: rest) { fields := F, cur := [], inEnc := false }
      = fieldLoop o nlt 0 rest { fields := F, cur := [], inEnc := true } := by
  rw [fieldLoop.eq_def]
  dsimp only
  rw [if_pos (by simp [henc])]

/-- Closing enclosure before the field terminator or at the end of a terminated line. -/
theorem fieldLoop_close (o : Opts) (w : WF o) (e : UInt8) (tail : Bytes) (F : List Bytes) (cur : Bytes)
    (henc : o.enc = [e]) (htail : tail = [] ∨ ∃ t, tail = o.ft ++ t) :
    fieldLoop o true 0 (e :: tail) { fields := F, cur := cur, inEnc := true }
      = fieldLoop o true 0 tail { fields := F, cur := cur, inEnc := false } := by
  have hq := encEqEsc_false o w
  have hterm : (o.ft.isPrefixOf tail || (tail.isEmpty && true)) = true := by
    rcases htail with h | ⟨t, h⟩
    · simp [h]
    · rw [h, isPrefixOf_append_self]; simp
  rw [fieldLoop.eq_def]
  dsimp only
  rw [if_neg (by simp), if_neg (by simp [hq]), if_pos (by simp [henc]), if_pos hterm]

/-- `<escape>N` at the start of a field is read as the four bytes `NULL`. -/
theorem fieldLoop_escN (o : Opts) (w : WF o) (nlt : Bool) (c : UInt8) (tail : Bytes) (F : List Bytes)
    (hesc : o.esc = [c]) :
    fieldLoop o nlt 0 (c :: 78 :: tail) { fields := F, cur := [], inEnc := false }
      = fieldLoop o nlt 0 tail { fields := F, cur := NULLs.reverse, inEnc := false } := by
  have hq := encEqEsc_false o w
  have hce : c ∉ o.enc := fun h => w.enc_esc c h (by rw [hesc]; simp)
  have e1 := enc_test_false o c w.enc_le hce
  have e2 : (!o.esc.isEmpty && !(!o.enc.isEmpty && !o.esc.isEmpty && o.enc == o.esc) && c == o.esc.headD 0) = true := by
    rw [hq, hesc]; simp
  have hskip : ∀ st, fieldLoop o nlt 1 (78 :: tail) st = fieldLoop o nlt 0 tail st := by
    intro st; rw [fieldLoop.eq_def]
  rw [fieldLoop.eq_def]
  simp only [e1, e2, Bool.false_and, Bool.false_eq_true, if_false]
  rw [hskip]
  simp [unesc]

def decoded : Val → Bytes
  | .null => NULLs
  | .text b => b
  | .num b => b

/-- No byte of the value is the enclosure, the escape or the line terminator's first byte; the
field terminator's first byte occurs only in values that are written enclosed; the value is not the
NULL spelling. -/
def PlainVal (o : Opts) (v : Val) : Prop :=
  ∀ b, valBytes v = some b →
    (∀ x ∈ b, x ∉ o.enc ∧ x ∉ o.esc ∧ x ≠ o.lt.headD 0 ∧ (x = o.ft.headD 0 → enclosed o v = true)) ∧ b ≠ NULLs

/-- Inside an enclosure any byte other than the enclosure and the escape is copied — the field
terminator included. -/
theorem fieldLoop_inEnc1 (o : Opts) (w : WF o) (nlt : Bool) (ch : UInt8) (rest : Bytes) (st : PS)
    (hin : st.inEnc = true) (h1 : ch ∉ o.enc) (h2 : ch ∉ o.esc) :
    fieldLoop o nlt 0 (ch :: rest) st = fieldLoop o nlt 0 rest { st with cur := ch :: st.cur } := by
  have e1 := enc_test_false o ch w.enc_le h1
  have e2 := esc_test_false o ch w.esc_le h2
  have e2' : (!o.esc.isEmpty && !(!o.enc.isEmpty && !o.esc.isEmpty && o.enc == o.esc) && ch == o.esc.headD 0) = false := by
    cases hh : (!o.esc.isEmpty && !(!o.enc.isEmpty && !o.esc.isEmpty && o.enc == o.esc) && ch == o.esc.headD 0) with
    | false => rfl
    | true =>
      simp only [Bool.and_eq_true] at hh
      rw [hh.1.1, hh.2] at e2
      simp at e2
  rw [fieldLoop.eq_def]
  simp only [e1, e2', hin, Bool.false_and, Bool.false_eq_true, if_false, Bool.not_true]

theorem fieldLoop_inEnc (o : Opts) (w : WF o) (nlt : Bool) (s tail : Bytes) (st : PS)
    (hin : st.inEnc = true) (h : ∀ x ∈ s, x ∉ o.enc ∧ x ∉ o.esc) :
    fieldLoop o nlt 0 (s ++ tail) st = fieldLoop o nlt 0 tail { st with cur := s.reverse ++ st.cur } := by
  induction s generalizing st with
  | nil => simp
  | cons c cs ih =>
    rw [List.cons_append, fieldLoop_inEnc1 o w nlt c _ st hin (h c (by simp)).1 (h c (by simp)).2,
      ih { st with cur := c :: st.cur } hin (fun x hx => h x (by simp [hx]))]
    simp

theorem fieldLoop_enclosed (o : Opts) (w : WF o) (b tail : Bytes) (F : List Bytes)
    (hb : ∀ x ∈ b, x ∉ o.enc ∧ x ∉ o.esc) (hb' : o.enc = [] → ∀ x ∈ b, x ≠ o.ft.headD 0)
    (htail : tail = [] ∨ ∃ t, tail = o.ft ++ t) :
    fieldLoop o true 0 (o.enc ++ b ++ o.enc ++ tail) { fields := F, cur := [], inEnc := false }
      = fieldLoop o true 0 tail { fields := F, cur := b.reverse, inEnc := false } := by
  match henc : o.enc, w.enc_le with
  | [], _ =>
    have := fieldLoop_plain o w true b tail { fields := F, cur := [], inEnc := false }
      (fun x hx => ⟨(hb x hx).1, (hb x hx).2, hb' henc x hx⟩)
    simpa using this
  | [e], _ =>
    have h1 := fieldLoop_open o true e (b ++ [e] ++ tail) F henc
    have h2 := fieldLoop_inEnc o w true b ([e] ++ tail) { fields := F, cur := [], inEnc := true } rfl hb
    have h3 := fieldLoop_close o w e tail F b.reverse henc htail
    simp only [List.append_assoc, List.cons_append, List.nil_append, List.append_nil] at h1 h2 h3 ⊢
    rw [h1, h2, h3]
  | _ :: _ :: _, hh => simp at hh

theorem fieldLoop_render (o : Opts) (w : WF o) (v : Val) (hv : PlainVal o v) (tail : Bytes) (F : List Bytes)
    (htail : tail = [] ∨ ∃ t, tail = o.ft ++ t) :
    fieldLoop o true 0 (renderVal o v ++ tail) { fields := F, cur := [], inEnc := false }
      = fieldLoop o true 0 tail { fields := F, cur := (decoded v).reverse, inEnc := false } := by
  cases v with
  | null =>
    simp only [renderVal, decoded]
    match hesc : o.esc, w.esc_le with
    | [], _ =>
      have := fieldLoop_plain o w true NULLs tail { fields := F, cur := [], inEnc := false }
        (fun x hx => (w.null_plain x hx).1)
      simpa using this
    | [c], _ =>
      have := fieldLoop_escN o w true c tail F hesc
      simpa using this
    | _ :: _ :: _, hh => simp at hh
  | text b =>
    obtain ⟨hb, _⟩ := hv b rfl
    have hl : o.lt.headD 0 ∉ b := fun h => (hb _ h).2.2.1 rfl
    simp only [renderVal, decoded]
    have hr : (if o.lt.isEmpty then b else replaceGo o.lt (o.esc ++ o.lt) 0 b) = b := by
      split
      · rfl
      · exact replaceGo_plain o.lt _ b hl w.lt_ne
    rw [hr]
    refine fieldLoop_enclosed o w b tail F (fun x hx => ⟨(hb x hx).1, (hb x hx).2.1⟩) ?_ htail
    intro henc x hx hft
    have := (hb x hx).2.2.2 hft
    simp [enclosed, henc] at this
  | num b =>
    obtain ⟨hb, _⟩ := hv b rfl
    simp only [renderVal, decoded]
    split
    · rename_i hopt
      refine fieldLoop_enclosed o w b tail F (fun x hx => ⟨(hb x hx).1, (hb x hx).2.1⟩) ?_ htail
      intro henc x hx hft
      have := (hb x hx).2.2.2 hft
      simp [enclosed, henc] at this
    · rename_i hopt
      have := fieldLoop_plain o w true b tail { fields := F, cur := [], inEnc := false }
        (fun x hx => ⟨(hb x hx).1, (hb x hx).2.1, fun hft => by
          have := (hb x hx).2.2.2 hft
          simp [enclosed] at this
          simp [this.2] at hopt⟩)
      simpa using this

/-- The field loop over a whole rendered row (at least one value). -/
theorem fieldLoop_row (o : Opts) (w : WF o) (v : Val) (vs : List Val)
    (hv : ∀ x ∈ v :: vs, PlainVal o x) (F : List Bytes) :
    fieldLoop o true 0 (joinFields o.ft ((v :: vs).map (renderVal o))) { fields := F, cur := [], inEnc := false }
      = { fields := ((v :: vs).dropLast.map decoded).reverse ++ F,
          cur := (decoded ((v :: vs).getLast (by simp))).reverse, inEnc := false } := by
  induction vs generalizing v F with
  | nil =>
    have := fieldLoop_render o w v (hv v (by simp)) [] F (Or.inl rfl)
    simp only [List.append_nil] at this
    simp [joinFields, this, fieldLoop]
  | cons v2 vs ih =>
    have h1 := fieldLoop_render o w v (hv v (by simp)) (o.ft ++ joinFields o.ft ((v2 :: vs).map (renderVal o))) F
      (Or.inr ⟨_, rfl⟩)
    have h2 := fieldLoop_ft o w true (joinFields o.ft ((v2 :: vs).map (renderVal o)))
      { fields := F, cur := (decoded v).reverse, inEnc := false } rfl
    have h3 := ih v2 (fun x hx => hv x (by simp at hx ⊢; right; exact hx)) (decoded v :: F)
    simp only [List.map_cons, joinFields, List.append_assoc] at h1 h2 h3 ⊢
    rw [h1, h2]
    simp only [List.reverse_reverse]
    rw [h3]
    simp [List.dropLast]

theorem dropToAfter_prefix (p rest : Bytes) (hp : p ≠ []) : dropToAfter p (p ++ rest) = some rest := by
  match p, hp with
  | c :: cs, _ =>
    have := isPrefixOf_append_self (c :: cs) rest
    simp only [List.cons_append] at this ⊢
    simp [dropToAfter, this]

theorem parseLinePrefix_own (ls rest : Bytes) : parseLinePrefix ls (ls ++ rest) = rest := by
  unfold parseLinePrefix
  split
  · rename_i h; simp at h; simp [h]
  · rename_i h; rw [dropToAfter_prefix ls rest (by simpa using h)]

theorem parseLine_row (o : Opts) (w : WF o) (v : Val) (vs : List Val) (hv : ∀ x ∈ v :: vs, PlainVal o x) :
    parseLine o (writeRow o (v :: vs)) = some ((v :: vs).map decoded) := by
  have hlt := w.lt_ne
  have hrow := fieldLoop_row o w v vs hv []
  unfold parseLine writeRow
  simp only [List.append_assoc, parseLinePrefix_own]
  have hne : (joinFields o.ft ((v :: vs).map (renderVal o)) ++ o.lt).isEmpty = false := by
    simp [hlt]
  have hsuf : o.lt.isSuffixOf (joinFields o.ft ((v :: vs).map (renderVal o)) ++ o.lt) = true := by
    simp [List.isSuffixOf_iff_suffix]
  have hq := encEqEsc_false o w
  simp only [hne, hsuf, Bool.false_eq_true, if_false, if_true, Bool.true_or, List.length_append,
    Nat.add_sub_cancel, List.take_left']
  rw [hrow]
  simp only [Bool.false_eq_true, if_false, List.append_nil, List.reverse_cons, List.reverse_reverse]
  have := List.dropLast_concat_getLast (l := v :: vs) (by simp)
  conv => rhs; rw [← this]
  simp

/-! ### Line splitting -/

theorem splitLines_line (lt content rest cur : Bytes) (hl : lt ≠ []) (hc : lt.headD 0 ∉ content) :
    splitLines lt 0 (content ++ lt ++ rest) cur = (cur.reverse ++ content ++ lt) :: splitLines lt 0 rest [] := by
  match lt, hl with
  | l0 :: lt', _ =>
    induction content generalizing cur with
    | nil =>
      have hp := isPrefixOf_append_self (l0 :: lt') rest
      simp only [List.nil_append, List.cons_append] at hp ⊢
      rw [splitLines, if_pos hp]
      have := splitLines_skip (l0 :: lt') lt' rest []
      simp only [List.length_cons, Nat.add_sub_cancel] at this ⊢
      rw [this]
      simp
    | cons c cs ih =>
      have hcl : l0 ≠ c := fun e => hc (by simp [e])
      have hcs : (l0 :: lt').headD 0 ∉ cs := fun e => hc (by simp at e; simp [e])
      have hp : (l0 :: lt').isPrefixOf (c :: (cs ++ (l0 :: lt') ++ rest)) = false := by
        simp only [List.isPrefixOf, Bool.and_eq_false_imp, beq_iff_eq]
        intro h; exact absurd h hcl
      simp only [List.cons_append] at hp ⊢
      rw [splitLines, if_neg (by rw [hp]; exact Bool.false_ne_true)]
      have := ih (c :: cur) hcs
      simp only [List.cons_append, List.append_assoc] at this ⊢
      rw [this]
      simp

theorem notin_render (o : Opts) (w : WF o) (v : Val) (hv : PlainVal o v) : o.lt.headD 0 ∉ renderVal o v := by
  cases v with
  | null =>
    simp only [renderVal]
    split
    · intro h; exact (w.null_plain _ h).2 rfl
    · intro h
      simp only [List.mem_append, List.mem_singleton] at h
      rcases h with h | h
      · exact w.lt_esc h
      · exact (w.null_plain 78 (by simp [NULLs])).2 h.symm
  | text b =>
    obtain ⟨hb, _⟩ := hv b rfl
    have hl : o.lt.headD 0 ∉ b := fun h => (hb _ h).2.2.1 rfl
    simp only [renderVal]
    have hr : (if o.lt.isEmpty then b else replaceGo o.lt (o.esc ++ o.lt) 0 b) = b := by
      split
      · rfl
      · exact replaceGo_plain o.lt _ b hl w.lt_ne
    rw [hr]
    simp only [List.mem_append, not_or]
    exact ⟨⟨w.lt_enc, hl⟩, w.lt_enc⟩
  | num b =>
    obtain ⟨hb, _⟩ := hv b rfl
    have hl : o.lt.headD 0 ∉ b := fun h => (hb _ h).2.2.1 rfl
    simp only [renderVal]
    split
    · simp only [List.mem_append, not_or]
      exact ⟨⟨w.lt_enc, hl⟩, w.lt_enc⟩
    · exact hl

theorem notin_join (o : Opts) (w : WF o) (vs : List Val) (hv : ∀ x ∈ vs, PlainVal o x) :
    o.lt.headD 0 ∉ joinFields o.ft (vs.map (renderVal o)) := by
  induction vs with
  | nil => simp [joinFields]
  | cons v vs ih =>
    have h1 := notin_render o w v (hv v (by simp))
    have h2 := ih (fun x hx => hv x (by simp [hx]))
    cases vs with
    | nil => simpa [joinFields] using h1
    | cons v2 vs' =>
      simp only [List.map_cons, joinFields, List.mem_append, not_or] at h2 ⊢
      exact ⟨⟨h1, w.lt_ft⟩, h2⟩

theorem rowOf_decoded (o : Opts) (vs : List Val) (hv : ∀ x ∈ vs, PlainVal o x) :
    rowOf vs.length (vs.map decoded) = vs.map specVal := by
  induction vs with
  | nil => rfl
  | cons v vs ih =>
    have hvv := hv v (by simp)
    simp only [List.length_cons, List.map_cons, rowOf, ih (fun x hx => hv x (by simp [hx]))]
    congr 1
    cases v with
    | null => simp [decoded, fieldVal, specVal]
    | text b => simp [decoded, fieldVal, specVal, (hvv b rfl).2]
    | num b => simp [decoded, fieldVal, specVal, (hvv b rfl).2]

/-- The reader applied to the writer's output, for rows all of whose values are plain. -/
theorem readFile_writeFile (o : Opts) (w : WF o) (n : Nat) (hn : 0 < n) (rows : List (List Val))
    (hlen : ∀ r ∈ rows, r.length = n) (hv : ∀ r ∈ rows, ∀ x ∈ r, PlainVal o x) :
    readFile o n (writeFile o rows) = specRows rows := by
  unfold readFile
  induction rows with
  | nil => simp [writeFile, splitLines, readLines, specRows]
  | cons r rs ih =>
    have hr := hlen r (by simp)
    match r, hr with
    | [], h => simp at h; omega
    | v :: vs, hr =>
      have hvr := hv (v :: vs) (by simp)
      have hcontent : o.lt.headD 0 ∉ o.ls ++ joinFields o.ft ((v :: vs).map (renderVal o)) := by
        simp only [List.mem_append, not_or]
        exact ⟨w.lt_ls, notin_join o w (v :: vs) hvr⟩
      have hs := splitLines_line o.lt (o.ls ++ joinFields o.ft ((v :: vs).map (renderVal o)))
        (writeFile o rs) [] w.lt_ne hcontent
      have hw : writeFile o ((v :: vs) :: rs)
          = (o.ls ++ joinFields o.ft ((v :: vs).map (renderVal o))) ++ o.lt ++ writeFile o rs := by
        simp [writeFile, writeRow]
      rw [hw, hs]
      have hp := parseLine_row o w v vs hvr
      simp only [writeRow] at hp
      simp only [List.reverse_nil, List.nil_append, readLines, hp]
      have hih := ih (fun r hr => hlen r (by simp [hr])) (fun r hr => hv r (by simp [hr]))
      rw [hih]
      have := rowOf_decoded o (v :: vs) hvr
      rw [hr] at this
      simp only [List.map_cons] at this
      simp [specRows, this]

theorem anyVal_false (p : Bytes → Bool) (rows : List (List Val)) (h : ¬ anyVal p rows = true) :
    ∀ r ∈ rows, ∀ v ∈ r, ∀ b, valBytes v = some b → p b = false := by
  intro r hr v hv b hb
  cases hp : p b with
  | false => rfl
  | true =>
    exfalso; apply h
    simp only [anyVal, List.any_eq_true]
    exact ⟨r, hr, v, hv, by simp [hb, hp]⟩

theorem plain_of_region (o : Opts) (rows : List (List Val)) (h : region o rows = none) :
    ∀ r ∈ rows, ∀ x ∈ r, PlainVal o x := by
  by_cases h1 : rNullSpelling rows = true
  · simp [region, h1] at h
  by_cases h2 : rLineTerm o rows = true
  · simp [region, h1, h2] at h
  by_cases h3 : rEscape o rows = true
  · simp [region, h1, h2, h3] at h
  by_cases h4 : rEnclosure o rows = true
  · simp [region, h1, h2, h3, h4] at h
  by_cases h5 : rFieldTerm o rows = true
  · simp [region, h1, h2, h3, h4, h5] at h
  intro r hr v hv b hb
  have a1 := anyVal_false _ rows h1 r hr v hv b hb
  have a2 := anyVal_false _ rows h2 r hr v hv b hb
  have a3 := anyVal_false _ rows h3 r hr v hv b hb
  have a4 := anyVal_false _ rows h4 r hr v hv b hb
  simp only [beq_eq_false_iff_ne, ne_eq] at a1
  refine ⟨fun x hx => ⟨?_, ?_, ?_, ?_⟩, a1⟩
  · intro he
    have : (o.enc.any b.contains) = true := List.any_eq_true.mpr ⟨x, he, by simpa using hx⟩
    rw [a4] at this; exact Bool.false_ne_true this
  · intro he
    have : (o.esc.any b.contains) = true := List.any_eq_true.mpr ⟨x, he, by simpa using hx⟩
    rw [a3] at this; exact Bool.false_ne_true this
  · intro he
    have : b.contains (o.lt.headD 0) = true := by rw [← he]; simpa using hx
    rw [a2] at this; exact Bool.false_ne_true this
  · intro he
    cases hen : enclosed o v with
    | true => rfl
    | false =>
      exfalso; apply h5
      simp only [rFieldTerm, List.any_eq_true]
      refine ⟨r, hr, v, hv, ?_⟩
      rw [hen, hb]
      simp only [Bool.not_false, Bool.true_and]
      rw [← he]; simpa using hx

end Gms.Outfile

/-! ## Property theorems -/
namespace Gms.C50
open Gms.Outfile

/-- Facts regenerated from the source on this run: the option defaults (shared by `NewInto` and
`NewLoadData`), the escape-sequence table of `parseFields` (every entry agrees with the model's
`unesc`, the default clause copies the byte), the spellings `parseFields` treats specially, the
NULL spellings and the single `strings.Replace` call of `buildInto`. -/
theorem facts_match :
    Generated.C50.defaultFieldsTerminatedBy = [9] ∧ Generated.C50.defaultFieldsEnclosedBy = [] ∧
    Generated.C50.defaultFieldsEscapedBy = [92] ∧ Generated.C50.defaultLinesStartingBy = [] ∧
    Generated.C50.defaultLinesTerminatedBy = [10] ∧ Generated.C50.defaultFieldsEnclosedByOpt = false ∧
    Generated.C50.loadDataDefaults = ["FieldsEnclosedBy=defaultFieldsEnclosedBy",
      "FieldsEnclosedByOpt=defaultFieldsEnclosedByOpt", "FieldsEscapedBy=defaultFieldsEscapedBy",
      "FieldsTerminatedBy=defaultFieldsTerminatedBy", "LinesStartingBy=defaultLinesStartingBy",
      "LinesTerminatedBy=defaultLinesTerminatedBy"] ∧
    (∀ e ∈ Generated.C50.unescTable, unesc e.1 = e.2) ∧
    Generated.C50.unescTable.map (·.1) = [78, 90, 48, 110, 116, 114, 98] ∧
    Generated.C50.unescDefaultIsIdentity = true ∧
    Generated.C50.fieldSpecialSpellings = ["", "NULL"] ∧
    Generated.C50.writerReplaceArgs = ["strVal", "n.LinesTerminatedBy", "n.FieldsEscapedBy + n.LinesTerminatedBy", "-1"] ∧
    Generated.C50.writerNullSpellings = ["NULL", "%sN"] := by
  decide

/-- Shape of the streaming reader, regenerated on this run: `buildLoadData` hands the scanner the
method value `n.SplitLines` (no per-scanner closure), with an unbounded token size; `SplitLines`
is the stateless function `splitFn` models — one `bytes.Index` over the *whole* pending `data`
(not over a suffix of it), the four returns of `splitFn`, no variable other than the index `i`,
no function literal, and it does not touch any state outside its arguments. -/
theorem facts_scanner :
    Generated.C50.scannerSplitArg = "n.SplitLines" ∧
    Generated.C50.scannerBufferArgs = ["nil", "int(types.LongTextBlobMax)"] ∧
    Generated.C50.splitLinesIndexArgs = ["data", "[]byte(l.LinesTerminatedBy)"] ∧
    Generated.C50.splitLinesReturns = ["0, nil, nil",
      "i + len(l.LinesTerminatedBy), data[0 : i+len(l.LinesTerminatedBy)], nil", "len(data), data, nil", ""] ∧
    Generated.C50.splitLinesConds = ["atEOF && len(data) == 0", "i >= 0", "atEOF"] ∧
    Generated.C50.splitLinesAssigned = ["i"] ∧
    Generated.C50.splitLinesFuncLits = 0 := by
  decide

/-- The model's escape table is total: outside the extracted keys a byte is copied. -/
theorem unesc_default (c : UInt8) (h : c ∉ Generated.C50.unescTable.map (·.1)) : unesc c = [c] := by
  simp [Generated.C50.unescTable] at h
  simp [unesc, h]

/-- The option set both statements use when no FIELDS/LINES clause is given (regenerated). -/
def generatedDefaults : Opts where
  ft := Generated.C50.defaultFieldsTerminatedBy
  enc := Generated.C50.defaultFieldsEnclosedBy
  encOpt := Generated.C50.defaultFieldsEnclosedByOpt
  esc := Generated.C50.defaultFieldsEscapedBy
  lt := Generated.C50.defaultLinesTerminatedBy
  ls := Generated.C50.defaultLinesStartingBy

/-- The option defaults are an unambiguous option set. -/
theorem defaults_wf : optsWF generatedDefaults = true := by decide

/-
Full statement — FALSE for the code as it is (see `finding_*` below):
  theorem load_outfile (o) (n) (rows) (ho : optsWF o = true) (hn : 0 < n) (hlen : ∀ r ∈ rows, r.length = n) :
      roundTrip o n rows = specRows rows
-/

/-- Round trip, guarded: for every unambiguous option set and all rows (any number, any width
≥ 1, any values) in which no value contains a delimiter byte (first byte of the line or field
terminator, enclosure, escape) or is the spelling `NULL`, `LOAD DATA` applied to the bytes written
by `INTO OUTFILE` gives back exactly the rows, NULLs and empty strings included. -/
theorem impl_roundtrip_partial (o : Opts) (n : Nat) (rows : List (List Val))
    (ho : optsWF o = true) (hn : 0 < n) (hlen : ∀ r ∈ rows, r.length = n)
    (hreg : region o rows = none) :
    roundTrip o n rows = specRows rows :=
  readFile_writeFile o (wf_of_optsWF o ho) n hn rows hlen (plain_of_region o rows hreg)

/-! ### The streaming reader: chunking independence -/

/-- For EVERY way the reader cuts the file into chunks (4096-byte refills, a terminator cut in two
by a refill, one byte at a time, empty reads), `bufio.Scanner` driven by `SplitLines` produces the
whole-file split. -/
theorem scan_whole (lt : Bytes) (hl : lt ≠ []) (chunks : List Bytes) :
    scan lt [] chunks = splitLines lt 0 chunks.flatten [] := by
  simpa using scan_eq lt hl chunks []

/-- Two chunkings of the same bytes give the same lines. -/
theorem scan_chunking_independent (lt : Bytes) (hl : lt ≠ []) (cs₁ cs₂ : List Bytes)
    (h : cs₁.flatten = cs₂.flatten) : scan lt [] cs₁ = scan lt [] cs₂ := by
  rw [scan_whole lt hl, scan_whole lt hl, h]

/-- The table LOAD DATA produces does not depend on the chunking. -/
theorem read_chunking_independent (o : Opts) (hl : o.lt ≠ []) (n : Nat) (chunks : List Bytes) :
    readFileChunked o n chunks = readFile o n chunks.flatten := by
  simp [readFileChunked, readFile, scan_whole o.lt hl]

/-- Non-vacuity: `\r\n` cut in two by a read boundary, a one-byte-at-a-time reader, an empty read,
an unterminated last line — and what the whole-file split gives for the same bytes. -/
example : scan [13, 10] [] [[97, 13], [10, 98, 13, 10, 99]] = [[97, 13, 10], [98, 13, 10], [99]]
    ∧ scan [13, 10] [] [[97], [13], [], [10], [98], [13], [10], [99]] = [[97, 13, 10], [98, 13, 10], [99]]
    ∧ splitLines [13, 10] 0 [97, 13, 10, 98, 13, 10, 99] [] = [[97, 13, 10], [98, 13, 10], [99]]
    ∧ splitFn [13, 10] [97, 13] false = (0, none) ∧ splitFn [13, 10] [97, 13, 10, 98] false = (3, some [97, 13, 10])
    ∧ splitFn [13, 10] [99] true = (1, some [99]) ∧ splitFn [13, 10] [] true = (0, none) := by
  decide

/-- Why the split function may not simply resume where the buffered bytes ended: a splitter that
remembers `searched = len(data)` after an unsuccessful search (`splitFnResume 0`) never sees a
terminator cut in two by a read boundary — two lines come out as one token. Moving the resume point
back by `len(terminator) - 1` (`splitFnResume 1` for a 2-byte terminator) repairs it. -/
theorem resume_at_buffer_end_loses_line :
    ∃ lt chunks, lt ≠ [] ∧ scanResume 0 lt [] 0 chunks ≠ splitLines lt 0 chunks.flatten []
      ∧ scanResume (lt.length - 1) lt [] 0 chunks = splitLines lt 0 chunks.flatten [] :=
  ⟨[13, 10], [[97, 13], [10, 98, 13, 10]], by decide⟩

/-- The same optimisation with the resume point `len(data) - (len(terminator) - 1)` is equivalent
to the stateless `SplitLines` for every terminator and every chunking. -/
theorem scan_resume_correct (lt : Bytes) (hl : lt ≠ []) (chunks : List Bytes) :
    scanResume (lt.length - 1) lt [] 0 chunks = splitLines lt 0 chunks.flatten [] := by
  rw [scanResume_ok lt hl chunks [] 0 (inv_zero lt []), scan_whole lt hl]

def csv : Opts := { ft := [44], enc := [34], encOpt := true, esc := [92], lt := [10], ls := [] }
def dflt : Opts := { ft := [9], enc := [], encOpt := false, esc := [92], lt := [10], ls := [] }

/-- Non-vacuity: a concrete case satisfying all hypotheses of `impl_roundtrip_partial` with NULLs,
an empty string, numbers, two rows; and the bytes the model writes for it. -/
example : optsWF csv = true ∧ region csv [[.num [49], .text [97, 32, 98], .null], [.num [50], .text [], .num [55]]] = none
    ∧ writeFile csv [[.num [49], .text [97, 32, 98], .null], [.num [50], .text [], .num [55]]]
        = [49, 44, 34, 97, 32, 98, 34, 44, 92, 78, 10, 50, 44, 34, 34, 44, 55, 10]
    ∧ roundTrip csv 3 [[.num [49], .text [97, 32, 98], .null], [.num [50], .text [], .num [55]]]
        = [[some [49], some [97, 32, 98], none], [some [50], some [], some [55]]] := by
  decide

/-- Non-vacuity of the enclosed case: a value containing the field terminator is outside every
region when it is written enclosed, and it does come back. -/
example : region csv [[.text [97, 44, 98], .num [56]]] = none
    ∧ roundTrip csv 2 [[.text [97, 44, 98], .num [56]]] = [[some [97, 44, 98], some [56]]] := by decide

/-- Round trip through a streaming reader, guarded as above: however the bytes written by
`INTO OUTFILE` are cut into chunks on their way into `bufio.Scanner`, `LOAD DATA` gives back the rows. -/
theorem impl_roundtrip_chunked_partial (o : Opts) (n : Nat) (rows : List (List Val)) (chunks : List Bytes)
    (ho : optsWF o = true) (hn : 0 < n) (hlen : ∀ r ∈ rows, r.length = n)
    (hreg : region o rows = none) (hc : chunks.flatten = writeFile o rows) :
    readFileChunked o n chunks = specRows rows := by
  rw [read_chunking_independent o (wf_of_optsWF o ho).lt_ne, hc]
  exact impl_roundtrip_partial o n rows ho hn hlen hreg

/-- Non-vacuity: the CRLF file of two rows, cut inside the first `\r\n`. -/
example : let o : Opts := { csv with lt := [13, 10] }
    optsWF o = true ∧ region o [[.num [49], .text [97]], [.num [50], .null]] = none
    ∧ writeFile o [[.num [49], .text [97]], [.num [50], .null]] = [49, 44, 34, 97, 34, 13] ++ [10, 50, 44, 92, 78, 13, 10]
    ∧ readFileChunked o 2 [[49, 44, 34, 97, 34, 13], [10, 50, 44, 92, 78, 13, 10]] = [[some [49], some [97]], [some [50], none]] := by
  decide

/-! ### Findings: the unchanged writer escapes nothing but the line terminator (F-C50-a) -/

/-- A value containing the field terminator, not enclosed: split into two fields. -/
theorem finding_value_contains_field_terminator :
    ∃ o n rows, optsWF o = true ∧ (∀ r ∈ rows, r.length = n) ∧
      region o rows = some "value_contains_field_terminator" ∧ roundTrip o n rows ≠ specRows rows :=
  ⟨{ dflt with ft := [44] }, 2, [[.text [97, 44, 98], .num [56]]], by decide⟩

/-- A value containing the enclosure followed by the field terminator: the field ends early. -/
theorem finding_value_contains_enclosure :
    ∃ o n rows, optsWF o = true ∧ (∀ r ∈ rows, r.length = n) ∧
      region o rows = some "value_contains_enclosure" ∧ roundTrip o n rows ≠ specRows rows :=
  ⟨csv, 2, [[.text [120, 34, 44, 121], .num [56]]], by decide⟩

/-- A value containing the escape character: the reader drops it (`back\slash` ↦ `backslash`). -/
theorem finding_value_contains_escape :
    ∃ o n rows, optsWF o = true ∧ (∀ r ∈ rows, r.length = n) ∧
      region o rows = some "value_contains_escape" ∧ roundTrip o n rows ≠ specRows rows :=
  ⟨dflt, 1, [[.text [97, 92, 115]]], by decide⟩

/-- A value containing the line terminator: written as escape + terminator, but the reader
splits lines before it looks at escapes. -/
theorem finding_value_contains_line_terminator :
    ∃ o n rows, optsWF o = true ∧ (∀ r ∈ rows, r.length = n) ∧
      region o rows = some "value_contains_line_terminator" ∧ roundTrip o n rows ≠ specRows rows :=
  ⟨dflt, 1, [[.text [97, 10, 98]]], by decide⟩

/-- The string `NULL` comes back as SQL NULL (also when it was written enclosed). -/
theorem finding_value_is_null_spelling :
    ∃ o n rows, optsWF o = true ∧ (∀ r ∈ rows, r.length = n) ∧
      region o rows = some "value_is_null_spelling" ∧ roundTrip o n rows ≠ specRows rows :=
  ⟨csv, 1, [[.text [78, 85, 76, 76]]], by decide⟩

/-- What the writer does to the line terminator inside a value, and what the reader makes of it. -/
example : writeFile dflt [[.text [97, 10, 98]]] = [97, 92, 10, 98, 10]
    ∧ readFile dflt 1 [97, 92, 10, 98, 10] = [[some [97, 92]], [some [98]]] := by decide

end Gms.C50
