/-
C43 — information_schema and SHOW reflect the catalog.

Model: Gms/Model/Catalog.lean. Facts: Gms/Generated/C43.lean (regenerated on every run).
Helper lemmas first, the property theorems in `namespace Gms.C43` at the end.
-/
import Gms.Model.Catalog
import Gms.Generated.C43

open Gms.Catalog

namespace Gms.Catalog

/-! ### column sets under the column-changing statements -/

theorem any_setNotNull (cols : List Col) (names : List String) (n : String) :
    (setNotNull cols names).any (·.name = n) = cols.any (·.name = n) := by
  unfold setNotNull
  rw [List.any_map]
  congr 1
  funext c
  simp only [Function.comp]
  split <;> rfl

theorem any_insertAfter (cols : List Col) (c : Col) (a n : String) :
    (cols.flatMap fun x => if x.name = a then [x, c] else [x]).any (·.name = n) =
      (cols.any (·.name = n) || (cols.any (·.name = a) && decide (c.name = n))) := by
  induction cols with
  | nil => simp
  | cons x rest ih =>
    simp only [List.flatMap_cons, List.any_append, List.any_cons]
    rw [ih]
    by_cases hx : x.name = a
    · simp only [hx, if_true, List.any_cons, List.any_nil, Bool.or_false, decide_true, Bool.true_or, Bool.true_and]
      cases decide (a = n) <;> cases rest.any (·.name = n) <;> cases decide (c.name = n) <;> simp
    · simp only [hx, if_false, List.any_cons, List.any_nil, Bool.or_false, decide_false, Bool.false_or]
      cases decide (x.name = n) <;> simp

theorem any_insertCol {cols cols' : List Col} {c : Col} {pos : Pos} (h : insertCol cols c pos = some cols') (n : String) :
    cols'.any (·.name = n) = (cols.any (·.name = n) || decide (c.name = n)) := by
  cases pos with
  | last => simp [insertCol] at h; subst h; simp [List.any_append]
  | first => simp [insertCol] at h; subst h; simp [Bool.or_comm]
  | after a =>
    simp only [insertCol] at h
    split at h
    · rename_i ha
      cases h
      rw [any_insertAfter, ha]
      simp
    · cases h

theorem any_filter_ne (cols : List Col) (cn n : String) :
    (cols.filter (·.name ≠ cn)).any (·.name = n) = (cols.any (·.name = n) && decide (n ≠ cn)) := by
  induction cols with
  | nil => simp
  | cons c rest ih =>
    by_cases hc : c.name = cn
    · simp only [List.filter, hc, ne_eq, not_true_eq_false, decide_false, List.any_cons]
      rw [ih]
      by_cases hn : n = cn
      · simp [hn]
      · have : ¬ cn = n := fun e => hn e.symm
        simp [hn, this]
    · simp only [List.filter, hc, ne_eq, not_false_eq_true, decide_true, List.any_cons]
      rw [ih]
      by_cases hn : n = cn
      · have : ¬ c.name = n := fun e => hc (e.trans hn)
        simp [hn, this, hc]
      · simp [hn, Bool.and_or_distrib_right]

theorem any_rename (cols : List Col) (old new n : String) (h : cols.any (·.name = n) = true) :
    (cols.map fun x => if x.name = old then { x with name := new } else x).any
      (·.name = (if n = old then new else n)) = true := by
  induction cols with
  | nil => simp at h
  | cons c rest ih =>
    simp only [List.any_cons, Bool.or_eq_true, decide_eq_true_eq] at h
    simp only [List.map, List.any_cons, Bool.or_eq_true, decide_eq_true_eq]
    rcases h with h | h
    · left
      subst h
      by_cases hc : c.name = old <;> simp [hc]
    · right
      exact ih h

/-! ### the well-formedness invariant: keys only mention existing columns, triggers existing tables -/

def tblWF (t : Tbl) : Prop :=
  (∀ n ∈ t.pk, t.hasCol n = true) ∧ (∀ i ∈ t.idxs, ∀ n ∈ i.cols, t.hasCol n = true)

def CatWF (c : Cat) : Prop :=
  (∀ t ∈ c.tables, tblWF t) ∧ (∀ tr ∈ c.trigs, ∃ t ∈ c.tables, t.name = tr.table) ∧
  (c.tables.map (·.name)).Nodup

theorem table?_mem {c : Cat} {n : String} {t : Tbl} (h : c.table? n = some t) : t ∈ c.tables ∧ t.name = n := by
  unfold Cat.table? at h
  exact ⟨List.mem_of_find?_eq_some h, by simpa using List.find?_some h⟩

theorem unique_by_name (l : List Tbl) (hn : (l.map (·.name)).Nodup) {t t1 : Tbl} (ht : t ∈ l) (h1 : t1 ∈ l)
    (e : t1.name = t.name) : t1 = t := by
  induction l with
  | nil => cases ht
  | cons a rest ih =>
    simp only [List.map, List.nodup_cons, List.mem_map, not_exists, not_and] at hn
    rcases List.mem_cons.mp ht with rfl | ht'
    · rcases List.mem_cons.mp h1 with rfl | h1'
      · rfl
      · exact absurd e (hn.1 t1 h1')
    · rcases List.mem_cons.mp h1 with rfl | h1'
      · exact absurd e.symm (hn.1 t ht')
      · exact ih hn.2 ht' h1'

theorem mem_updTable {c : Cat} {n : String} {f : Tbl → Tbl} {t' : Tbl} (h : t' ∈ (updTable c n f).tables) :
    (t' ∈ c.tables ∧ t'.name ≠ n) ∨ (∃ t ∈ c.tables, t.name = n ∧ t' = f t) := by
  simp only [updTable, List.mem_map] at h
  obtain ⟨t, ht, rfl⟩ := h
  by_cases hn : t.name = n
  · right; exact ⟨t, ht, hn, by simp [hn]⟩
  · left; simp [hn, ht]

theorem updTable_names {c : Cat} {n : String} {f : Tbl → Tbl} (hname : ∀ t, (f t).name = t.name) :
    (updTable c n f).tables.map (·.name) = c.tables.map (·.name) := by
  simp only [updTable, List.map_map]
  apply List.map_congr_left
  intro t _
  by_cases h : t.name = n <;> simp [h, hname]

/-- `updTable` on the table found by name, with a name-preserving function that keeps that table
well-formed, keeps `CatWF`. -/
theorem updTable_wf {c : Cat} {n : String} {f : Tbl → Tbl} {t : Tbl} (hw : CatWF c) (hfound : c.table? n = some t)
    (hname : ∀ t, (f t).name = t.name) (hf : tblWF t → tblWF (f t)) :
    CatWF (updTable c n f) := by
  have hm := table?_mem hfound
  refine ⟨?_, ?_, ?_⟩
  · intro t' ht'
    rcases mem_updTable ht' with ⟨h1, _⟩ | ⟨t1, ht1, hn, rfl⟩
    · exact hw.1 t' h1
    · have : t1 = t := unique_by_name c.tables hw.2.2 hm.1 ht1 (hn.trans hm.2.symm)
      subst this
      exact hf (hw.1 t1 ht1)
  · intro tr htr
    obtain ⟨t0, ht0, hn0⟩ := hw.2.1 tr (by simpa [updTable] using htr)
    refine ⟨if t0.name = n then f t0 else t0, ?_, ?_⟩
    · simp only [updTable, List.mem_map]; exact ⟨t0, ht0, rfl⟩
    · by_cases h : t0.name = n
      · rw [if_pos h, hname]; exact hn0
      · rw [if_neg h]; exact hn0
  · rw [updTable_names hname]; exact hw.2.2

theorem all_hasCol {t : Tbl} {l : List String} (h : l.all t.hasCol = true) : ∀ n ∈ l, t.hasCol n = true := by
  simpa [List.all_eq_true] using h


theorem hasCol_of_insert {t : Tbl} {cols : List Col} {c : Col} {pos : Pos} (h : insertCol t.cols c pos = some cols)
    {n : String} (hn : t.hasCol n = true) : ({ t with cols := cols } : Tbl).hasCol n = true := by
  simp only [Tbl.hasCol] at hn ⊢
  rw [any_insertCol h, hn]; rfl

theorem apply_wf {c c' : Cat} (d : Ddl) (hw : CatWF c) (h : apply c d = some c') : CatWF c' := by
  cases d with
  | createTable t =>
    simp only [apply] at h
    split at h
    · cases h
    · rename_i hc
      cases h
      have hnm : c.hasName t.name = false := by cases hb : c.hasName t.name <;> simp_all
      have hok : tblOk t = true := by cases hb : tblOk t <;> simp_all
      simp only [tblOk, Bool.and_eq_true] at hok
      refine ⟨?_, ?_, ?_⟩
      · intro t' ht'
        simp only [List.mem_append, List.mem_singleton] at ht'
        rcases ht' with ht' | rfl
        · exact hw.1 t' ht'
        · refine ⟨?_, ?_⟩
          · intro n hn
            simp only [Tbl.hasCol, any_setNotNull]
            exact all_hasCol hok.1.1.1.2 n hn
          · intro i hi n hn
            simp only [Tbl.hasCol, any_setNotNull]
            have := (List.all_eq_true.mp hok.2) i hi
            simp only [Bool.and_eq_true] at this
            exact all_hasCol this.1.1.2 n hn
      · intro tr htr
        obtain ⟨t0, ht0, hn⟩ := hw.2.1 tr htr
        exact ⟨t0, by simp [ht0], hn⟩
      · simp only [List.map_append, List.map_cons, List.map_nil]
        refine List.nodup_append.mpr ⟨hw.2.2, by simp, ?_⟩
        intro a ha b hb
        simp at hb
        subst hb
        simp only [Cat.hasName, Bool.or_eq_false_iff] at hnm
        obtain ⟨t0, ht0, rfl⟩ := List.mem_map.mp ha
        have := hnm.1
        simp only [List.any_eq_false, decide_eq_true_eq] at this
        exact this t0 ht0
  | dropTable n =>
    simp only [apply] at h
    split at h
    · cases h
      refine ⟨?_, ?_, ?_⟩
      · intro t ht; exact hw.1 t (List.mem_filter.mp ht).1
      · intro tr htr
        have htr' := List.mem_filter.mp htr
        obtain ⟨t0, ht0, hn⟩ := hw.2.1 tr htr'.1
        refine ⟨t0, List.mem_filter.mpr ⟨ht0, ?_⟩, hn⟩
        have : tr.table ≠ n := by simpa using htr'.2
        simpa [hn] using this
      · exact (List.Sublist.map _ (List.filter_sublist)).nodup hw.2.2
    · cases h
  | addColumn tn col pos =>
    simp only [apply] at h
    split at h
    · rename_i t ht
      split at h
      · cases h
      · split at h
        · rename_i cols hcols
          cases h
          refine updTable_wf hw ht (fun _ => rfl) ?_
          intro hw1
          exact ⟨fun n hn => hasCol_of_insert hcols (hw1.1 n hn), fun i hi n hn => hasCol_of_insert hcols (hw1.2 i hi n hn)⟩
        · cases h
    · cases h
  | dropColumn tn cn =>
    simp only [apply] at h
    split at h
    · rename_i t ht
      split at h
      · cases h
      · rename_i hc
        cases h
        simp only [Bool.or_eq_true, not_or, Bool.not_eq_true, Tbl.mentions, Bool.or_eq_false_iff] at hc
        refine updTable_wf hw ht (fun _ => rfl) ?_
        intro hw1
        have hpk : ∀ n ∈ t.pk, n ≠ cn := by
          intro n hn e; subst e
          have := hc.1.2.1
          simp only [List.contains_eq_mem, decide_eq_false_iff_not] at this
          exact this hn
        have hix : ∀ i ∈ t.idxs, ∀ n ∈ i.cols, n ≠ cn := by
          intro i hi n hn e; subst e
          have := hc.1.2.2
          simp only [List.any_eq_false, List.contains_eq_mem, decide_eq_true_eq] at this
          exact this i hi hn
        refine ⟨?_, ?_⟩
        · intro n hn
          simp only [Tbl.hasCol, any_filter_ne]
          have := hw1.1 n hn
          simp only [Tbl.hasCol] at this
          simp [this, hpk n hn]
        · intro i hi n hn
          simp only [Tbl.hasCol, any_filter_ne]
          have := hw1.2 i hi n hn
          simp only [Tbl.hasCol] at this
          simp [this, hix i hi n hn]
    · cases h
  | renameColumn tn old new =>
    simp only [apply] at h
    split at h
    · rename_i t ht
      split at h
      · cases h
      · cases h
        refine updTable_wf hw ht (fun _ => rfl) ?_
        intro hw1
        refine ⟨?_, ?_⟩
        · intro n hn
          simp only [renameIn, List.mem_map] at hn
          obtain ⟨m, hm, rfl⟩ := hn
          exact any_rename t.cols old new m (hw1.1 m hm)
        · intro i hi n hn
          simp only [List.mem_map] at hi
          obtain ⟨i0, hi0, rfl⟩ := hi
          simp only [renameIn, List.mem_map] at hn
          obtain ⟨m, hm, rfl⟩ := hn
          exact any_rename t.cols old new m (hw1.2 i0 hi0 m hm)
    · cases h
  | createIndex tn i =>
    simp only [apply] at h
    split at h
    · rename_i t ht
      split at h
      · cases h
      · rename_i hc
        cases h
        have hall : i.cols.all t.hasCol = true := by cases hb : i.cols.all t.hasCol <;> simp_all
        refine updTable_wf hw ht (fun _ => rfl) ?_
        intro hw1
        refine ⟨hw1.1, ?_⟩
        intro j hj n hn
        simp only [List.mem_append, List.mem_singleton] at hj
        rcases hj with hj | rfl
        · exact hw1.2 j hj n hn
        · exact all_hasCol hall n hn
    · cases h
  | dropIndex tn n =>
    simp only [apply] at h
    split at h
    · rename_i t ht
      split at h
      · cases h
        refine updTable_wf hw ht (fun _ => rfl) ?_
        intro hw1
        exact ⟨hw1.1, fun i hi m hm => hw1.2 i (List.mem_filter.mp hi).1 m hm⟩
      · cases h
    · cases h
  | addPk tn cols =>
    simp only [apply] at h
    split at h
    · rename_i t ht
      split at h
      · cases h
      · rename_i hc
        cases h
        have hall : cols.all t.hasCol = true := by cases hb : cols.all t.hasCol <;> simp_all
        refine updTable_wf hw ht (fun _ => rfl) ?_
        intro hw1
        refine ⟨?_, ?_⟩
        · intro n hn
          simp only [Tbl.hasCol, any_setNotNull]
          exact all_hasCol hall n hn
        · intro i hi n hn
          simp only [Tbl.hasCol, any_setNotNull]
          exact hw1.2 i hi n hn
    · cases h
  | dropPk tn =>
    simp only [apply] at h
    split at h
    · rename_i t ht
      split at h
      · cases h
      · cases h
        refine updTable_wf hw ht (fun _ => rfl) ?_
        intro hw1
        exact ⟨fun n hn => absurd hn List.not_mem_nil, hw1.2⟩
    · cases h
  | createView v =>
    simp only [apply] at h
    split at h
    · cases h
    · cases h; exact hw
  | dropView n =>
    simp only [apply] at h
    split at h
    · cases h; exact hw
    · cases h
  | createTrigger tr =>
    simp only [apply] at h
    split at h
    · cases h
    · rename_i hc
      cases h
      have hex : c.tables.any (·.name = tr.table) = true := by
        cases hb : c.tables.any (·.name = tr.table) <;> simp_all
      refine ⟨hw.1, ?_, hw.2.2⟩
      intro tr' htr'
      simp only [List.mem_append, List.mem_singleton] at htr'
      rcases htr' with h1 | rfl
      · exact hw.2.1 tr' h1
      · simpa [List.any_eq_true] using hex
  | dropTrigger n =>
    simp only [apply] at h
    split at h
    · cases h
      exact ⟨hw.1, fun tr htr => hw.2.1 tr (List.mem_filter.mp htr).1, hw.2.2⟩
    · cases h
  | createProc p =>
    simp only [apply] at h
    split at h
    · cases h
    · cases h; exact hw
  | dropProc n =>
    simp only [apply] at h
    split at h
    · cases h; exact hw
    · cases h

theorem applyAll_wf (h : List Ddl) {c : Cat} (hw : CatWF c) : CatWF (applyAll c h) := by
  induction h generalizing c with
  | nil => exact hw
  | cons d rest ih =>
    simp only [applyAll]
    cases ha : apply c d with
    | none => simpa using ih hw
    | some c' => simpa using ih (apply_wf d hw ha)

end Gms.Catalog

namespace Gms.Catalog

theorem mem_insertIdx {i j : Idx} {l : List Idx} : j ∈ insertIdx i l ↔ j = i ∨ j ∈ l := by
  induction l with
  | nil => simp [insertIdx]
  | cons a rest ih =>
    simp only [insertIdx]
    split
    · simp
    · simp only [List.mem_cons, ih]
      constructor
      · rintro (h | h | h) <;> simp [h]
      · rintro (h | h | h) <;> simp [h]

theorem mem_sortIdxs {j : Idx} {l : List Idx} : j ∈ sortIdxs l ↔ j ∈ l := by
  unfold sortIdxs
  induction l with
  | nil => simp
  | cons a rest ih => simp only [List.foldr, mem_insertIdx, ih, List.mem_cons]

/-- Every index `GetIndexes` reports is the primary key or a declared index. -/
theorem mem_allIdxs {t : Tbl} {i : Idx} (h : i ∈ t.allIdxs) :
    (i = ⟨"PRIMARY", true, t.pk⟩ ∧ t.pk ≠ []) ∨ i ∈ t.idxs := by
  simp only [Tbl.allIdxs, List.mem_append, mem_sortIdxs] at h
  rcases h with h | h
  · left
    split at h
    · cases h
    · rename_i hp
      simp only [List.mem_singleton] at h
      exact ⟨h, by intro e; simp [e] at hp⟩
  · exact Or.inr h

/-- The table a statement is about (`none`: views and triggers only). -/
def ddlTable : Ddl → Option String
  | .createTable t => some t.name
  | .dropTable n => some n
  | .addColumn t _ _ | .dropColumn t _ | .renameColumn t _ _ | .createIndex t _ | .dropIndex t _
  | .addPk t _ | .dropPk t => some t
  | _ => none

theorem mem_updTable_other {c : Cat} {n : String} {f : Tbl → Tbl} (hname : ∀ t, (f t).name = t.name) {t' : Tbl}
    (hne : t'.name ≠ n) : t' ∈ (updTable c n f).tables ↔ t' ∈ c.tables := by
  constructor
  · intro h
    rcases mem_updTable h with ⟨h1, _⟩ | ⟨t, _, hn, rfl⟩
    · exact h1
    · exact absurd ((hname t).trans hn) hne
  · intro h
    simp only [updTable, List.mem_map]
    exact ⟨t', h, by simp [hne]⟩

/-! ### key order: the ordinals of the key columns read back to the key, in key order -/

theorem getElem?_idxOf_of_mem {names : List String} {n : String} (h : n ∈ names) : names[names.idxOf n]? = some n := by
  have hlt : names.idxOf n < names.length := List.idxOf_lt_length_of_mem h
  rw [List.getElem?_eq_getElem hlt, List.getElem_idxOf hlt]

theorem hasCol_iff_mem {t : Tbl} {n : String} : t.hasCol n = true ↔ n ∈ t.cols.map (·.name) := by
  simp only [Tbl.hasCol, List.any_eq_true, decide_eq_true_eq, List.mem_map]

theorem filterMap_some_of_forall {α : Type} (f : α → Option α) (l : List α) (h : ∀ n ∈ l, f n = some n) : l.filterMap f = l := by
  induction l with
  | nil => rfl
  | cons a r ih =>
    rw [List.filterMap_cons, h a (by simp)]
    simp only
    rw [ih (fun n hn => h n (by simp [hn]))]

/-- `schema[pkOrdinals[k]].Name` is the k-th key column: going through the ordinals loses nothing and
keeps the *key* order (not the column order). -/
theorem showCreatePk_eq_pk (t : Tbl) (h : ∀ n ∈ t.pk, t.hasCol n = true) : showCreatePk t = t.pk := by
  unfold showCreatePk pkOrdinals
  rw [List.filterMap_map]
  apply filterMap_some_of_forall
  intro n hn
  simp only [Function.comp]
  rw [← List.getElem?_map]
  exact getElem?_idxOf_of_mem (hasCol_iff_mem.mp (h n hn))

/-- The rows one index contributes to STATISTICS / SHOW INDEX. -/
def statRowsOf (t : Tbl) (i : Idx) : List Row :=
  i.cols.zipIdx.map fun (cn, k) =>
    [t.name, if i.unique then "0" else "1", i.name, toString (k + 1), cn, if colNullable t cn then "YES" else ""]

theorem map_zipIdx_fst' {α β : Type} (f : α → β) (l : List α) (k : Nat) :
    (l.zipIdx k).map (fun x => f x.1) = l.map f := by
  induction l generalizing k with
  | nil => rfl
  | cons a r ih => simp [List.zipIdx_cons, ih]

theorem map_zipIdx_snd' {α β : Type} (f : Nat → β) (l : List α) (k : Nat) :
    (l.zipIdx k).map (fun x => f x.2) = (List.range' k l.length).map f := by
  induction l generalizing k with
  | nil => rfl
  | cons a r ih => simp [List.zipIdx_cons, ih, List.range'_succ]

/-! ### routines: the loop with carried variables is a map -/

theorem foldl_chrStep_sec (chars : List Chr) (v : RVars) : (chars.foldl chrStep v).sec = v.sec := by
  induction chars generalizing v with
  | nil => rfl
  | cons a rest ih =>
    simp only [List.foldl_cons]
    rw [ih]
    cases a <;> rfl

theorem foldl_chrStep_det (chars : List Chr) (v : RVars) :
    (chars.foldl chrStep v).det =
      match (chars.filter isDetChr).getLast? with
      | some .det => "YES"
      | some _ => "NO"
      | none => v.det := by
  induction chars generalizing v with
  | nil => rfl
  | cons a rest ih =>
    simp only [List.foldl_cons]
    rw [ih]
    cases a <;> simp only [List.filter, isDetChr, List.getLast?_cons, chrStep] <;>
      (cases (List.filter isDetChr rest).getLast? with
       | none => simp
       | some w => cases w <;> simp)

theorem foldl_chrStep_acc (chars : List Chr) (v : RVars) :
    (chars.foldl chrStep v).acc =
      match (chars.filter isAccChr).getLast? with
      | some .noSql => "NO SQL"
      | some .readsSql => "READS SQL DATA"
      | some .modifiesSql => "MODIFIES SQL DATA"
      | some _ => "CONTAINS SQL"
      | none => v.acc := by
  induction chars generalizing v with
  | nil => rfl
  | cons a rest ih =>
    simp only [List.foldl_cons]
    rw [ih]
    cases a <;> simp only [List.filter, isAccChr, List.getLast?_cons, chrStep] <;>
      (cases (List.filter isAccChr rest).getLast? with
       | none => simp
       | some w => cases w <;> simp)

/-- **The loop of `routinesRowIter` is a map**: whatever the variables hold when an iteration starts
(the initial values, or what the previous procedure left there), the row of a procedure is
`routineRow` of that procedure. -/
theorem routinesLoop_eq_map (ps : List Proc) (v : RVars) : routinesLoop v ps = ps.map routineRow := by
  induction ps generalizing v with
  | nil => rfl
  | cons p rest ih =>
    simp only [routinesLoop, List.map_cons, ih]
    congr 1
    have hd := foldl_chrStep_det p.chars (resetVars v)
    have ha := foldl_chrStep_acc p.chars (resetVars v)
    have hs := foldl_chrStep_sec p.chars (resetVars v)
    have hd' : (List.foldl chrStep (resetVars v) p.chars).det = detOf p.chars := by
      rw [hd]; unfold detOf
      cases (List.filter isDetChr p.chars).getLast? with
      | none => rfl
      | some w => cases w <;> rfl
    have ha' : (List.foldl chrStep (resetVars v) p.chars).acc = accOf p.chars := by
      rw [ha]; unfold accOf
      cases (List.filter isAccChr p.chars).getLast? with
      | none => rfl
      | some w => cases w <;> rfl
    simp only [resetVars] at hd' ha' hs
    cases hi : p.invoker <;> simp [routineRow, hd', ha', hs, hi, resetVars]


theorem mem_insertProc {p q : Proc} {l : List Proc} : q ∈ insertProc p l ↔ q = p ∨ q ∈ l := by
  induction l with
  | nil => simp [insertProc]
  | cons a rest ih =>
    simp only [insertProc]
    split
    · simp
    · simp only [List.mem_cons, ih]
      constructor
      · rintro (h | h | h) <;> simp [h]
      · rintro (h | h | h) <;> simp [h]

theorem mem_sortProcs {q : Proc} {l : List Proc} : q ∈ sortProcs l ↔ q ∈ l := by
  unfold sortProcs
  induction l with
  | nil => simp
  | cons a rest ih => simp only [List.foldr, mem_insertProc, ih, List.mem_cons]

/-- What a statement does to the procedures: nothing, append one of a new name, or remove one name. -/
theorem apply_procs {c c' : Cat} {d : Ddl} (h : apply c d = some c') :
    c'.procs = c.procs ∨
    (∃ p, d = .createProc p ∧ c.procs.any (·.name = p.name) = false ∧ c'.procs = c.procs ++ [p]) ∨
    (∃ n, d = .dropProc n ∧ c'.procs = c.procs.filter (·.name ≠ n)) := by
  cases d <;> simp only [apply] at h
  case createProc p =>
    split at h
    · cases h
    · rename_i hc
      cases h
      exact Or.inr (Or.inl ⟨p, rfl, by simpa using hc, rfl⟩)
  case dropProc n =>
    split at h
    · cases h; exact Or.inr (Or.inr ⟨n, rfl, rfl⟩)
    · cases h
  all_goals (
    repeat' (split at h)
    all_goals first
      | (cases h; done)
      | (cases h; exact Or.inl rfl))

def ProcsNodup (c : Cat) : Prop := (c.procs.map (·.name)).Nodup

theorem apply_procsNodup {c c' : Cat} {d : Ddl} (hw : ProcsNodup c) (h : apply c d = some c') : ProcsNodup c' := by
  unfold ProcsNodup at *
  rcases apply_procs h with e | ⟨p, _, hn, e⟩ | ⟨n, _, e⟩
  · rw [e]; exact hw
  · rw [e, List.map_append]
    refine List.nodup_append.mpr ⟨hw, by simp, ?_⟩
    intro a ha b hb
    simp at hb
    subst hb
    obtain ⟨q, hq, rfl⟩ := List.mem_map.mp ha
    simp only [List.any_eq_false, decide_eq_true_eq] at hn
    exact hn q hq
  · rw [e]
    exact (List.Sublist.map _ List.filter_sublist).nodup hw

theorem applyAll_procsNodup (h : List Ddl) {c : Cat} (hw : ProcsNodup c) : ProcsNodup (applyAll c h) := by
  induction h generalizing c with
  | nil => exact hw
  | cons d rest ih =>
    simp only [applyAll]
    cases ha : apply c d with
    | none => simpa using ih hw
    | some c' => simpa using ih (apply_procsNodup hw ha)

end Gms.Catalog

/-! ## Property theorems -/

namespace Gms.C43

open Gms.Generated.C43

/-- The code the model follows still has the shape it assumes: the index classification chain and
the composite-UNIQUE special case of `getIndexKeyInfo`, the conditions of `getRowsFromTable`, the
nil-privilege-set early return of the TRIGGERS and VIEWS iterators, the index order of the memory
table. -/
theorem facts_match :
    keyInfoChain = ["index.ID() == \"PRIMARY\" => PRI", "index.IsUnique() => UNI", "else => MUL"] ∧
    keyInfoComposite = "idx == \"UNI\" && len(colNames) > 1 => MUL | else: all columns" ∧
    columnKeyConds = ["err != nil", "col.HiddenSystem", "col.PrimaryKey", "ok",
      "!col.Nullable && !hasPK && columnKey == \"UNI\"", "r != nil"] ∧
    triggersNilPrivSet = true ∧ viewsNilPrivSet = true ∧
    indexOrder = "return nonPrimaryIndexes[i].ID() < nonPrimaryIndexes[j].ID()" := by decide

/-- SHOW CREATE TABLE takes the column list of its PRIMARY KEY clause from the key ordinals
(`pkSchema.PkOrdinals`, key order; the scan of `col.PrimaryKey` in column order is only the fallback
for a table without a primary-key schema) and reads the names back from the schema — `showCreatePk`. -/
theorem facts_match_show_create_pk :
    showCreatePkSource = ["if len(pkSchema.Schema) > 0 => pkOrdinals = pkSchema.PkOrdinals",
      "if col.PrimaryKey && len(pkSchema.Schema) == 0 => pkOrdinals = append(pkOrdinals, idx)",
      "range pkOrdinals => primaryKeyCols = append(primaryKeyCols, schema[idx].Name)"] := by decide

/-- `routinesRowIter`: the three variables are declared without values, re-initialised at the top of the
body of the loop over the procedures (`resetVars`), then assigned by the if / else-if chains over the
characteristics (`chrStep`) and the security context — `routinesLoop`; a missing privilege set is
replaced by an empty one (`routinesView true`). -/
theorem facts_match_routines :
    routinesAssignments = ["range procedures => securityType = \"DEFINER\"", "range procedures => isDeterministic = \"NO\"",
      "range procedures => sqlDataAccess = \"CONTAINS SQL\"",
      "if ch == plan.Characteristic_Deterministic => isDeterministic = \"YES\"",
      "if ch == plan.Characteristic_NotDeterministic => isDeterministic = \"NO\"",
      "if ch == plan.Characteristic_ContainsSql => sqlDataAccess = \"CONTAINS SQL\"",
      "if ch == plan.Characteristic_NoSql => sqlDataAccess = \"NO SQL\"",
      "if ch == plan.Characteristic_ReadsSqlData => sqlDataAccess = \"READS SQL DATA\"",
      "if ch == plan.Characteristic_ModifiesSqlData => sqlDataAccess = \"MODIFIES SQL DATA\"",
      "if procedure.SecurityContext == plan.ProcedureSecurityContext_Invoker => securityType = \"INVOKER\""] ∧
    routinesNilPrivSetIsEmptySet = true := by decide

/-- **After any history of DDL** the catalog is well-formed: every key (primary or secondary) only
names columns that exist in its table, every trigger belongs to an existing table, table names are
unique — across CREATE/DROP TABLE, ADD/DROP/RENAME COLUMN, CREATE/DROP INDEX, ADD/DROP PRIMARY KEY,
views and triggers, including rejected statements. -/
theorem catalog_wf_after_any_history (h : List Ddl) : CatWF (applyAll Cat.empty h) :=
  applyAll_wf h ⟨fun t ht => absurd ht List.not_mem_nil, fun t ht => absurd ht List.not_mem_nil, by simp [Cat.empty]⟩

example : (applyAll Cat.empty [.createTable ⟨"t", [⟨"a", "int", true, none⟩, ⟨"b", "int", true, none⟩], ["a"], [⟨"i", false, ["b"]⟩]⟩,
    .renameColumn "t" "b" "c", .dropColumn "t" "c"]).tables.map (·.idxs.map (·.cols)) = [[["c"]]] := by decide

/-- **TABLES / SHOW FULL TABLES list exactly the objects that exist.** -/
theorem tables_exact (c : Cat) (r : Row) :
    r ∈ tablesView c ↔ (∃ t ∈ c.tables, r = [t.name, "BASE TABLE"]) ∨ (∃ v ∈ c.views, r = [v.name, "VIEW"]) := by
  simp only [tablesView, List.mem_append, List.mem_map]
  constructor
  · rintro (⟨t, ht, rfl⟩ | ⟨v, hv, rfl⟩)
    · exact Or.inl ⟨t, ht, rfl⟩
    · exact Or.inr ⟨v, hv, rfl⟩
  · rintro (⟨t, ht, rfl⟩ | ⟨v, hv, rfl⟩)
    · exact Or.inl ⟨t, ht, rfl⟩
    · exact Or.inr ⟨v, hv, rfl⟩

/-- SHOW TABLES is the name column of information_schema.TABLES. -/
theorem show_tables_eq_infoschema (c : Cat) : showTables c = (tablesView c).map (·.take 1) := by
  simp [showTables, tablesView, List.map_append, Function.comp_def]

/-- **COLUMNS lists exactly the columns of the existing tables.** -/
theorem columns_exact (keys : Tbl → List String) (c : Cat) (r : Row) :
    r ∈ columnsView keys c ↔ ∃ t ∈ c.tables, r ∈ columnRows keys t := by
  simp [columnsView, List.mem_flatMap]

/-- **STATISTICS / SHOW INDEX never name a column that does not exist**: in a well-formed catalog
(hence after any history) every row of the key views belongs to an existing table and names an
existing column of it. -/
theorem statistics_columns_exist (c : Cat) (hw : CatWF c) (r : Row) (h : r ∈ statisticsView c) :
    ∃ t ∈ c.tables, ∃ cn, r[0]? = some t.name ∧ r[4]? = some cn ∧ t.hasCol cn = true := by
  simp only [statisticsView, List.mem_flatMap, statRows, List.mem_map] at h
  obtain ⟨t, ht, i, hi, ⟨cn, k⟩, hck, rfl⟩ := h
  refine ⟨t, ht, cn, rfl, rfl, ?_⟩
  have hcn : cn ∈ i.cols := by
    have h0 := List.mem_zipIdx hck
    simp only [Nat.sub_zero] at h0
    rw [h0.2.2]
    exact List.getElem_mem _
  rcases mem_allIdxs hi with ⟨rfl, _⟩ | hi'
  · exact (hw.1 t ht).1 cn hcn
  · exact (hw.1 t ht).2 i hi' cn hcn

/-- **TRIGGERS / SHOW TRIGGERS only list triggers of existing tables.** -/
theorem triggers_tables_exist (c : Cat) (hw : CatWF c) (r : Row) (h : r ∈ showTriggers c) :
    ∃ t ∈ c.tables, r[2]? = some t.name := by
  simp only [showTriggers, List.mem_map] at h
  obtain ⟨tr, htr, rfl⟩ := h
  obtain ⟨t, ht, hn⟩ := hw.2.1 tr htr
  exact ⟨t, ht, by simp [hn]⟩

/-- **A dropped table disappears from every view**: no table of that name, no trigger on it, all
other tables and all views untouched. -/
theorem drop_table_removes (c c' : Cat) (n : String) (h : apply c (.dropTable n) = some c') :
    (∀ t ∈ c'.tables, t.name ≠ n) ∧ (∀ r ∈ showTriggers c', r[2]? ≠ some n) ∧ c'.views = c.views ∧
    (∀ t, t.name ≠ n → (t ∈ c'.tables ↔ t ∈ c.tables)) := by
  simp only [apply] at h
  split at h
  · cases h
    refine ⟨?_, ?_, rfl, ?_⟩
    · intro t ht; simpa using (List.mem_filter.mp ht).2
    · intro r hr
      simp only [showTriggers, List.mem_map] at hr
      obtain ⟨tr, htr, rfl⟩ := hr
      have : tr.table ≠ n := by simpa using (List.mem_filter.mp htr).2
      simpa using this
    · intro t hne; simp [List.mem_filter, hne]
  · cases h

/-- **Frame**: a statement about table `n` changes nothing about any other table, and never the views;
a rejected statement changes nothing at all (`applyAll` keeps the catalog). -/
theorem ddl_frame (c c' : Cat) (d : Ddl) (n : String) (hd : ddlTable d = some n) (h : apply c d = some c')
    (t' : Tbl) (hne : t'.name ≠ n) : (t' ∈ c'.tables ↔ t' ∈ c.tables) ∧ c'.views = c.views := by
  cases d <;> simp only [ddlTable, Option.some.injEq, reduceCtorEq] at hd <;> subst hd <;> simp only [apply] at h
  case createTable t =>
    split at h
    · cases h
    · cases h
      refine ⟨?_, rfl⟩
      simp only [List.mem_append, List.mem_singleton]
      constructor
      · rintro (h | rfl)
        · exact h
        · exact absurd rfl hne
      · exact Or.inl
  case dropTable =>
    split at h
    · cases h; exact ⟨by simp [List.mem_filter, hne], rfl⟩
    · cases h
  all_goals (
    split at h
    · repeat' (split at h)
      all_goals first
        | cases h; done
        | (cases h; refine ⟨?_, rfl⟩; apply mem_updTable_other _ hne; intro _; rfl)
    · cases h)

/-- **SHOW COLUMNS agrees with information_schema.COLUMNS** (the property's semantics: same key
rule, default printed the same way): it is the projection (name, type, null, key, default). -/
def projCols : Row → Row
  | [_, n, _, nl, ty, k, d] => [n, ty, nl, k, d]
  | r => r

theorem map_zipIdx_fst {α β : Type} (f : α → β) (l : List α) (k : Nat) :
    (l.zipIdx k).map (fun x => f x.1) = l.map f := by
  induction l generalizing k with
  | nil => rfl
  | cons a r ih => simp [List.zipIdx_cons, ih]

theorem show_columns_eq_infoschema (keys : Tbl → List String) (t : Tbl) :
    showColumns false keys t = (columnRows keys t).map projCols := by
  simp only [showColumns, columnRows, List.map_map]
  rw [← map_zipIdx_fst (fun (q : Col × String) => [q.1.name, q.1.ty, yesNo q.1.nullable, q.2, showDefault false q.1]) _ 0]
  apply List.map_congr_left
  rintro ⟨⟨col, key⟩, i⟩ _
  simp only [projCols, Function.comp, showDefault]
  cases col.dflt <;> simp

/-- SHOW INDEX FROM t is the part of STATISTICS about t (same rows by construction of the model:
both come from `GetIndexes`). -/
theorem show_index_eq_statistics (c : Cat) : statisticsView c = c.tables.flatMap showIndex := rfl

/-! ### key order -/

/-- **SHOW CREATE TABLE prints every key in key order**: in a well-formed table the PRIMARY KEY clause
(built from the ordinals of the key columns) and the secondary key clauses list exactly the columns
of `GetIndexes`, in the order the key was declared — whatever the column order of the table is. -/
theorem show_create_keys_follow_key_order (t : Tbl) (hw : tblWF t) : showCreateKeys t = t.allIdxs.map keyLine := by
  unfold showCreateKeys Tbl.allIdxs
  rw [showCreatePk_eq_pk t hw.1, List.map_append]
  congr 1
  split <;> rfl

/-- STATISTICS / SHOW INDEX are the concatenation of the rows of each index of `GetIndexes` … -/
theorem statistics_by_index (t : Tbl) : statRows t = t.allIdxs.flatMap (statRowsOf t) := rfl

/-- … and the rows of one index name its columns in key order, numbered 1..n: the same list, in
the same order, as the key clause of SHOW CREATE TABLE (`keyLine i` prints `i.cols`). -/
theorem statistics_key_order (t : Tbl) (i : Idx) :
    (statRowsOf t i).map (fun r => r.getD 4 "") = i.cols ∧
    (statRowsOf t i).map (fun r => r.getD 3 "") = (List.range' 0 i.cols.length).map (fun k => toString (k + 1)) := by
  unfold statRowsOf
  simp only [List.map_map]
  constructor
  · have := map_zipIdx_fst' (fun (cn : String) => cn) i.cols 0
    simpa [Function.comp_def] using this
  · have := map_zipIdx_snd' (fun (k : Nat) => toString (k + 1)) i.cols 0
    simpa [Function.comp_def] using this

/-- KEY_COLUMN_USAGE numbers the columns of a unique key in the same order. -/
theorem key_column_usage_key_order (t : Tbl) :
    keyColumnRows t = (t.allIdxs.filter (·.unique)).flatMap fun i => i.cols.zipIdx.map fun (cn, k) => [i.name, t.name, cn, toString (k + 1)] := rfl

/-- **The key order is the declared order**: after ADD PRIMARY KEY (cols) the table's key is `cols`, as
written (after any history, and independently of the column order). -/
theorem addPk_declares_order (c c' : Cat) (tn : String) (cols : List String) (h : apply c (.addPk tn cols) = some c')
    (t' : Tbl) (ht' : t' ∈ c'.tables) (hn : t'.name = tn) : t'.pk = cols := by
  simp only [apply] at h
  split at h
  · split at h
    · cases h
    · cases h
      rcases mem_updTable ht' with ⟨_, hne⟩ | ⟨t0, _, _, rfl⟩
      · exact absurd hn hne
      · rfl
  · cases h

example : (applyAll Cat.empty [.createTable ⟨"t", [⟨"a", "int", true, none⟩, ⟨"b", "int", true, none⟩, ⟨"c", "int", true, none⟩], ["b", "a"], []⟩,
    .dropPk "t", .addPk "t" ["c", "a"]]).tables.map showCreateKeys = [[["PRIMARY", "1", "c,a"]]] := by decide

/-- **Frame for the column order**: ADD COLUMN at any position changes no key of any table. -/
theorem addColumn_keeps_keys (c c' : Cat) (tn : String) (col : Col) (pos : Pos) (h : apply c (.addColumn tn col pos) = some c') :
    c'.tables.map (fun t => (t.name, t.pk, t.idxs)) = c.tables.map (fun t => (t.name, t.pk, t.idxs)) := by
  simp only [apply] at h
  split at h
  · split at h
    · cases h
    · split at h
      · cases h
        simp only [updTable, List.map_map]
        apply List.map_congr_left
        intro t _
        simp only [Function.comp]
        split <;> rfl
      · cases h
  · cases h

/-! ### routines -/

/-- **Each ROUTINES row is a function of its own routine**: the listing the code computes (one loop over
the procedures sorted by name, three variables declared outside the loop) is, row by row, `routineRow`
of the procedure — IS_DETERMINISTIC / SQL_DATA_ACCESS / SECURITY_TYPE of one routine do not depend on
which other routines exist, nor on where it comes in the iteration. -/
theorem routines_rows_independent (c : Cat) : routinesView false c = routinesSpec c := by
  simp [routinesView, routinesSpec, routinesLoop_eq_map]

/-- The carried state is irrelevant: the loop gives the same rows from any starting values. -/
theorem routines_loop_state_irrelevant (ps : List Proc) (v w : RVars) : routinesLoop v ps = routinesLoop w ps := by
  rw [routinesLoop_eq_map, routinesLoop_eq_map]

example : routinesLoop ⟨"", "", ""⟩ [⟨"p_audit", [.det, .readsSql], true⟩, ⟨"p_plain", [], false⟩] =
    [["p_audit", "YES", "READS SQL DATA", "INVOKER"], ["p_plain", "NO", "CONTAINS SQL", "DEFINER"]] := by decide

/-- **ROUTINES lists exactly the existing procedures, each with its own row.** -/
theorem routines_exact (c : Cat) (r : Row) : r ∈ routinesView false c ↔ ∃ p ∈ c.procs, r = routineRow p := by
  rw [routines_rows_independent]
  simp only [routinesSpec, List.mem_map, mem_sortProcs]
  constructor
  · rintro ⟨p, hp, rfl⟩; exact ⟨p, hp, rfl⟩
  · rintro ⟨p, hp, rfl⟩; exact ⟨p, hp, rfl⟩

/-- **Frame**: creating or dropping another procedure (or any other statement) leaves the row of an
existing procedure in the listing unchanged. -/
theorem routine_row_frame (c c' : Cat) (d : Ddl) (h : apply c d = some c') (p : Proc) (hp : p ∈ c.procs)
    (hd : d ≠ .dropProc p.name) : routineRow p ∈ routinesView false c' := by
  rw [routines_exact]
  refine ⟨p, ?_, rfl⟩
  rcases apply_procs h with e | ⟨q, _, _, e⟩ | ⟨n, hdn, e⟩
  · rw [e]; exact hp
  · rw [e]; exact List.mem_append_left _ hp
  · rw [e]
    refine List.mem_filter.mpr ⟨hp, ?_⟩
    have : p.name ≠ n := by intro e'; subst e'; exact hd hdn
    simpa using this

/-- Procedure names stay unique after any history (a second CREATE PROCEDURE of a name is rejected). -/
theorem procs_unique_after_any_history (h : List Ddl) : ProcsNodup (applyAll Cat.empty h) :=
  applyAll_procsNodup h (by simp [ProcsNodup, Cat.empty])

/-- SHOW PROCEDURE STATUS is a projection of ROUTINES (name, security type). -/
theorem show_proc_status_eq_routines (c : Cat) :
    showProcStatus (routinesView false c) = (sortProcs c.procs).map fun p => [p.name, if p.invoker then "INVOKER" else "DEFINER"] := by
  rw [routines_rows_independent]
  simp [showProcStatus, routinesSpec, routineRow, List.map_map, Function.comp_def]

/-- ROUTINES without a privilege set (account management disabled): empty although procedures exist. -/
theorem finding_no_privilege_set_routines_empty :
    let c : Cat := ⟨[], [], [], [⟨"p", [.det], false⟩]⟩
    routinesView true c = [] ∧ routinesSpec c = [["p", "YES", "CONTAINS SQL", "DEFINER"]] := by decide

theorem routines_eq_spec_partial (c : Cat) (privSetMissing : Bool) (h : privSetMissing = false) :
    routinesView privSetMissing c = routinesSpec c := by
  subst h; exact routines_rows_independent c

/-! ### where the code differs from the property -/

/-- COLUMN_KEY: `information_schema.columns` marks the second column of a non-unique index MUL and lets
the alphabetically last index win; SHOW COLUMNS (and MySQL) do not. -/
theorem finding_column_key_composite_or_shared_index :
    let t1 : Tbl := ⟨"t1", [⟨"a", "int", false, none⟩, ⟨"b", "varchar(20)", false, none⟩, ⟨"c", "int", true, none⟩], ["a"], [⟨"ib", false, ["b", "c"]⟩]⟩
    let t2 : Tbl := ⟨"t1", [⟨"a", "int", true, none⟩], [], [⟨"aa", true, ["a"]⟩, ⟨"zz", false, ["a"]⟩]⟩
    columnKeysImpl t1 = ["PRI", "MUL", "MUL"] ∧ columnKeysSpec t1 = ["PRI", "MUL", ""] ∧
    columnKeysImpl t2 = ["MUL"] ∧ columnKeysSpec t2 = ["UNI"] := by decide

/- Full statement (false, see above): theorem columnKeys_agree : columnKeysImpl t = columnKeysSpec t.
   It is proved for tables without any key (the guard is much stronger than the region the driver
   computes — the case-by-case agreement for single-column, non-overlapping indexes is not proved): -/
theorem columnKeys_agree_partial (t : Tbl) (hp : t.pk = []) (hi : t.idxs = []) :
    columnKeysImpl t = columnKeysSpec t := by
  have hall : t.allIdxs = [] := by simp [Tbl.allIdxs, hp, hi, sortIdxs]
  have hm : keyMapImpl t = [] := by simp [keyMapImpl, hall]
  simp only [columnKeysImpl, columnKeysSpec, hm, hp]
  have : ∀ (cols : List Col) (b : Bool), columnKeysImplAux [] [] cols b = cols.map (showKey t) := by
    intro cols
    induction cols with
    | nil => intro b; rfl
    | cons c rest ih =>
      intro b
      simp only [columnKeysImplAux, List.contains_nil, Bool.false_eq_true, if_false, lookupLast, List.foldl_nil,
        List.map_cons, ih]
      congr 1
      simp [showKey, hp, isPriCol, isUnqCol, isMulCol, hall]
  exact this t.cols _

/-- TRIGGERS / VIEWS without a cached privilege set (account management disabled, the default
engine): empty although the objects exist. -/
theorem finding_no_privilege_set_views_triggers_empty :
    let c : Cat := ⟨[⟨"t", [⟨"a", "int", true, none⟩], [], []⟩], [⟨"v", "select 1"⟩], [⟨"tr", "t", "BEFORE", "INSERT"⟩], []⟩
    triggersView true c = [] ∧ showTriggers c ≠ [] ∧ viewsView true c = [] ∧ viewsRows c ≠ [] := by decide

theorem triggers_eq_show_triggers_partial (c : Cat) : triggersView false c = showTriggers c ∧ viewsView false c = viewsRows c :=
  ⟨rfl, rfl⟩

/-- SHOW COLUMNS prints the default of a string column with its quotes. -/
theorem finding_show_columns_string_default_quoted :
    let t : Tbl := ⟨"t", [⟨"c", "varchar(5)", true, some "x"⟩], [], []⟩
    showColumns true columnKeysSpec t = [["c", "varchar(5)", "YES", "", "'x'"]] ∧
    showColumns false columnKeysSpec t = [["c", "varchar(5)", "YES", "", "x"]] := by decide

theorem show_columns_default_partial (keys : Tbl → List String) (t : Tbl)
    (h : ∀ col ∈ t.cols, col.dflt = none ∨ isStringTy col.ty = false) :
    showColumns true keys t = showColumns false keys t := by
  simp only [showColumns]
  apply List.map_congr_left
  rintro ⟨col, key⟩ hm
  have hc : col ∈ t.cols := (List.of_mem_zip hm).1
  rcases h col hc with h | h <;> simp [showDefault, h]

end Gms.C43
