/-
C42 — Read-only modes block every write and nothing else.

Helper lemmas first (namespace `Gms.ReadOnly`), the property theorems at the end in
`namespace Gms.C42` (those are audited).
-/
import Gms.Model.ReadOnlyTie

namespace Gms.ReadOnly

/-! ## Lemmas: the recursive functions as maps/filters -/

theorem isROs_eq_map (tbl : Table) (cs : List Node) :
    isROs tbl cs = cs.map (fun c => (⟨c.field, c.isNil, isRO tbl c⟩ : ChildRes)) := by
  induction cs with
  | nil => simp [isROs]
  | cons c cs ih => simp [isROs, ih]

theorem verdicts_eq (exp : ExpTable) (runs : List String) (cs : List Node) :
    verdicts exp runs cs = (cs.filter (fun c => runs.contains c.field)).map (verdict exp) := by
  induction cs with
  | nil => simp [verdicts]
  | cons c cs ih =>
    by_cases h : c.field ∈ runs
    · simp [verdicts, h, ih]
    · simp [verdicts, h, ih]

theorem consulted_eq (tbl : Table) (fs : List String) (cs : List Node) :
    consulted fs (isROs tbl cs) = (cs.filter (fun c => fs.contains c.field)).map (isRO tbl) := by
  rw [isROs_eq_map]
  unfold consulted
  induction cs with
  | nil => simp
  | cons c cs ih =>
    by_cases h : c.field ∈ fs
    · simp [h]
      simpa using ih
    · simp [h]
      simpa using ih

theorem sel_eq (tbl : Table) (f : String) (cs : List Node) :
    sel f (isROs tbl cs) =
      (cs.filter (fun c => c.field == f)).map (fun c => (⟨c.field, c.isNil, isRO tbl c⟩ : ChildRes)) := by
  rw [isROs_eq_map]
  unfold sel
  induction cs with
  | nil => simp
  | cons c cs ih =>
    by_cases h : c.field = f
    · simp [h]
      simpa using ih
    · simp [h]
      simpa using ih

/-! ## Lemmas: `conj` and `combine` -/

theorem conj_true_of_all {rs : List Res} (h : ∀ r ∈ rs, r = .ok true) : conj rs = .ok true := by
  induction rs with
  | nil => rfl
  | cons r rs ih =>
    have hr : r = .ok true := h r (by simp)
    subst hr
    simp only [conj]
    exact ih (fun r hr => h r (by simp [hr]))

theorem conj_total {rs : List Res} (hall : ∀ r ∈ rs, ∃ b, r = .ok b) : ∃ b, conj rs = .ok b := by
  induction rs with
  | nil => exact ⟨true, rfl⟩
  | cons r rs ih =>
    obtain ⟨b, hb⟩ := hall r (by simp)
    subst hb
    cases b with
    | true => simp only [conj]; exact ih (fun r hr => hall r (by simp [hr]))
    | false => exact ⟨false, rfl⟩

theorem conj_false_of {rs : List Res} (hall : ∀ r ∈ rs, ∃ b, r = .ok b) (hex : ∃ r ∈ rs, r = .ok false) :
    conj rs = .ok false := by
  induction rs with
  | nil => simp at hex
  | cons r rs ih =>
    obtain ⟨b, hb⟩ := hall r (by simp)
    subst hb
    cases b with
    | false => rfl
    | true =>
      simp only [conj]
      apply ih (fun r hr => hall r (by simp [hr]))
      obtain ⟨x, hx, hxf⟩ := hex
      rcases List.mem_cons.mp hx with rfl | hx'
      · cases hxf
      · exact ⟨x, hx', hxf⟩

theorem combine_block {own : V} {vs : List V} : combine own vs = .block ↔ own = .block ∨ .block ∈ vs := by
  unfold combine
  cases own <;> by_cases h : V.block ∈ vs <;> by_cases h2 : V.free ∈ vs <;> simp [h, h2]

theorem combine_allow {own : V} {vs : List V} : combine own vs = .allow ↔ own = .allow ∧ ∀ v ∈ vs, v = .allow := by
  constructor
  · intro hc
    unfold combine at hc
    by_cases h : V.block ∈ vs
    · simp [h] at hc
    · by_cases h2 : V.free ∈ vs
      · cases own <;> simp [h, h2] at hc
      · cases own <;> simp [h, h2] at hc
        refine ⟨rfl, fun v hv => ?_⟩
        cases v
        · rfl
        · exact absurd hv h
        · exact absurd hv h2
  · rintro ⟨rfl, hall⟩
    have h : V.block ∉ vs := fun hm => by simpa using hall _ hm
    have h2 : V.free ∉ vs := fun hm => by simpa using hall _ hm
    simp [combine, h, h2]

/-! ## Lemmas: well-formedness -/

theorem wfL_mem {tbl : Table} {exp : ExpTable} {strict : List String} :
    ∀ {cs : List Node}, wfL tbl exp strict cs = true → ∀ c ∈ cs,
      (c.kind = nilKind → c.field ∉ strict) ∧ (c.kind ≠ nilKind → wf tbl exp c = true) := by
  intro cs
  induction cs with
  | nil => intro _ c hc; cases hc
  | cons d ds ih =>
    intro h c hc
    simp only [wfL, Bool.and_eq_true] at h
    rcases List.mem_cons.mp hc with rfl | hc'
    · by_cases hk : c.kind = nilKind
      · simp [hk] at h
        exact ⟨fun _ => h.1, fun hn => absurd hk hn⟩
      · simp [hk] at h
        exact ⟨fun hn => absurd hn hk, fun _ => h.1⟩
    · exact ih h.2 c hc'

theorem storedProcL_mem {tbl : Table} : ∀ {cs : List Node}, storedProcL tbl cs = false →
    ∀ c ∈ cs, storedProc tbl c = false := by
  intro cs
  induction cs with
  | nil => intro _ c hc; cases hc
  | cons d ds ih =>
    intro h c hc
    simp only [storedProcL, Bool.or_eq_false_iff] at h
    rcases List.mem_cons.mp hc with rfl | hc'
    · exact h.1
    · exact ih h.2 c hc'

theorem count_zero {f : String} : ∀ {cs : List Node}, fieldNodesCount f cs = 0 →
    cs.filter (fun c => c.field == f) = [] := by
  intro cs
  induction cs with
  | nil => intro _; rfl
  | cons d ds ih =>
    intro h
    simp only [fieldNodesCount] at h
    by_cases hd : d.field = f
    · simp [hd] at h
    · simp [hd] at h
      simp [hd, ih h]

theorem count_one {f : String} : ∀ {cs : List Node}, fieldNodesCount f cs = 1 →
    ∃ c, c ∈ cs ∧ c.field = f ∧ cs.filter (fun c => c.field == f) = [c] := by
  intro cs
  induction cs with
  | nil => intro h; simp [fieldNodesCount] at h
  | cons d ds ih =>
    intro h
    simp only [fieldNodesCount] at h
    by_cases hd : d.field = f
    · simp [hd] at h
      refine ⟨d, by simp, hd, ?_⟩
      simp [hd, count_zero h]
    · simp [hd] at h
      obtain ⟨c, hc, hcf, hfl⟩ := ih h
      exact ⟨c, by simp [hc], hcf, by simp [hd, hfl]⟩

theorem ifSetFlagOk_mem {f : String} {flag : Bool} : ∀ {cs : List Node}, ifSetFlagOk f flag cs = true →
    ∀ c ∈ cs, c.field = f → c.isNil = false → flag = true := by
  intro cs
  induction cs with
  | nil => intro _ c hc; cases hc
  | cons d ds ih =>
    intro h c hc hf hn
    simp only [ifSetFlagOk, Bool.and_eq_true] at h
    rcases List.mem_cons.mp hc with rfl | hc'
    · simpa [hf, hn] using h.1
    · exact ih h.2 c hc' hf hn

theorem nilIn_of_mem {f : String} : ∀ {cs : List Node} (c : Node), c ∈ cs → c.field = f → c.isNil = true →
    nilIn f cs = true := by
  intro cs
  induction cs with
  | nil => intro c hc; cases hc
  | cons d ds ih =>
    intro c hc hf hn
    simp only [nilIn, Bool.or_eq_true]
    rcases List.mem_cons.mp hc with rfl | hc'
    · left; simp [hf, hn]
    · right; exact ih c hc' hf hn

/-- What the theorems say about one node. -/
def Good (tbl : Table) (exp : ExpTable) (n : Node) : Prop :=
  (∃ b, isRO tbl n = .ok b) ∧ (verdict exp n = .block → isRO tbl n = .ok false) ∧
  (storedProc tbl n = false → verdict exp n = .allow → isRO tbl n = .ok true)

/-- The conjunction over the consulted children (shapes `fields`, `via`). -/
theorem fields_case (tbl : Table) (exp : ExpTable) (fs : List String) (cs : List Node)
    (ih : ∀ c ∈ cs, wf tbl exp c = true → Good tbl exp c) (hw : wfL tbl exp fs cs = true) :
    (∃ b, conj (consulted fs (isROs tbl cs)) = .ok b) ∧
    (V.block ∈ verdicts exp fs cs → conj (consulted fs (isROs tbl cs)) = .ok false) ∧
    (storedProcL tbl cs = false → (∀ v ∈ verdicts exp fs cs, v = .allow) →
      conj (consulted fs (isROs tbl cs)) = .ok true) := by
  rw [consulted_eq, verdicts_eq]
  have hgood : ∀ c ∈ cs.filter (fun c => fs.contains c.field), Good tbl exp c := by
    intro c hc
    simp only [List.mem_filter, List.contains_iff_mem] at hc
    have hm := wfL_mem hw c hc.1
    have hnn : c.kind ≠ nilKind := fun hn => (hm.1 hn) (by simpa using hc.2)
    exact ih c hc.1 (hm.2 hnn)
  have htot : ∀ r ∈ (cs.filter (fun c => fs.contains c.field)).map (isRO tbl), ∃ b, r = .ok b := by
    intro r hr
    obtain ⟨c, hc, rfl⟩ := List.mem_map.mp hr
    exact (hgood c hc).1
  refine ⟨conj_total htot, ?_, ?_⟩
  · intro hb
    obtain ⟨c, hc, hvc⟩ := List.mem_map.mp hb
    exact conj_false_of htot ⟨isRO tbl c, List.mem_map.mpr ⟨c, hc, rfl⟩, (hgood c hc).2.1 hvc⟩
  · intro hsp hall
    apply conj_true_of_all
    intro r hr
    obtain ⟨c, hc, rfl⟩ := List.mem_map.mp hr
    have hcs : c ∈ cs := (List.mem_filter.mp hc).1
    exact (hgood c hc).2.2 (storedProcL_mem hsp c hcs) (hall _ (List.mem_map.mpr ⟨c, hc, rfl⟩))

/-- Shapes `optField f` / `ifSet f d`: the single node of field `f`. -/
theorem single_case (tbl : Table) (exp : ExpTable) (f : String) (cs : List Node)
    (hcount : fieldNodesCount f cs = 1) :
    ∃ c, c ∈ cs ∧ c.field = f ∧
      sel f (isROs tbl cs) = [⟨c.field, c.isNil, isRO tbl c⟩] ∧ verdicts exp [f] cs = [verdict exp c] := by
  obtain ⟨c, hc, hcf, hfl⟩ := count_one hcount
  refine ⟨c, hc, hcf, ?_, ?_⟩
  · rw [sel_eq, hfl]; rfl
  · rw [verdicts_eq]
    have : (fun c : Node => [f].contains c.field) = (fun c : Node => c.field == f) := by
      funext c; simp only [List.contains_cons, List.contains_nil, Bool.or_false]
    rw [this, hfl]; rfl

theorem verdict_nil (exp : ExpTable) (c : Node) (h : c.isNil = true) : verdict exp c = .allow := by
  cases c with
  | mk f k ch a cs =>
    have hk : (k == nilKind) = true := h
    simp [verdict, hk]

theorem wf_not_nil {tbl : Table} {exp : ExpTable} {c : Node} (h : wf tbl exp c = true) : c.isNil = false := by
  cases c with
  | mk f k ch a cs =>
    simp only [wf, Bool.and_eq_true] at h
    have : (k != nilKind) = true := h.1.1
    simpa [Node.isNil, Node.kind, bne] using this

theorem isRO_mk (tbl : Table) (fld kind : String) (ch : Bool) (a : Attr) (cs : List Node) (c : Cls)
    (hnil : (kind == nilKind) = false) (hR : resolve tbl 4 kind = some c) :
    isRO tbl (.mk fld kind ch a cs) = step c a (isROs tbl cs) := by
  simp [isRO, hnil, hR]

theorem verdict_mk (exp : ExpTable) (fld kind : String) (ch : Bool) (a : Attr) (cs : List Node) (eff : Eff)
    (runs : List String) (hnil : (kind == nilKind) = false) (hE : lookupE exp kind = some ⟨eff, runs⟩) :
    verdict exp (.mk fld kind ch a cs) = combine (ownV eff a) (verdicts exp runs cs) := by
  simp [verdict, hnil, hE]

theorem storedProc_mk_ifSet (tbl : Table) (fld kind : String) (ch : Bool) (a : Attr) (cs : List Node)
    (f : String) (d : Bool) (hR : resolve tbl 4 kind = some (.ifSet f d)) :
    storedProc tbl (.mk fld kind ch a cs) = (a.flag && nilIn f cs || storedProcL tbl cs) := by
  simp [storedProc, hR]

theorem storedProc_mk_other (tbl : Table) (fld kind : String) (ch : Bool) (a : Attr) (cs : List Node)
    (c : Cls) (hR : resolve tbl 4 kind = some c) (hc : ∀ f d, c ≠ .ifSet f d) :
    storedProc tbl (.mk fld kind ch a cs) = storedProcL tbl cs := by
  cases c <;> simp [storedProc, hR] <;> exact absurd rfl (hc _ _)

/-- Soundness of `IsReadOnly` against the verdict, for every well-formed tree. -/
theorem good_of_wf (tbl : Table) (exp : ExpTable) : (n : Node) → wf tbl exp n = true → Good tbl exp n
  | .mk fld kind ch a cs => by
    intro hw
    have ih : ∀ c ∈ cs, wf tbl exp c = true → Good tbl exp c := fun c _ => good_of_wf tbl exp c
    simp only [wf, Bool.and_eq_true] at hw
    obtain ⟨⟨hnil, hk⟩, hm⟩ := hw
    have hnil' : (kind == nilKind) = false := by simpa [bne] using hnil
    unfold kindOk at hk
    cases hE : lookupE exp kind with
    | none => simp [hE] at hk
    | some e =>
      obtain ⟨eff, runs⟩ := e
      rw [hE] at hk
      have hv := verdict_mk exp fld kind ch a cs eff runs hnil' hE
      cases hR : resolve tbl 4 kind with
      | none => simp [hR, clsOk] at hk
      | some c =>
        rw [hR] at hk hm
        have hro := isRO_mk tbl fld kind ch a cs c hnil' hR
        unfold Good
        rw [hro, hv]
        cases c with
        | const b =>
          rw [storedProc_mk_other tbl fld kind ch a cs _ hR (by intro f d h; cases h)]
          cases b <;> cases eff <;> cases runs <;> simp [clsOk] at hk <;>
            simp [step, ownV, combine_block, combine_allow, verdicts_eq]
        | fields fs =>
          rw [storedProc_mk_other tbl fld kind ch a cs _ hR (by intro f d h; cases h)]
          cases eff <;> simp [clsOk] at hk
          subst hk
          obtain ⟨h1, h2, h3⟩ := fields_case tbl exp fs cs ih hm
          simp only [step, ownV, combine_block, combine_allow]
          refine ⟨h1, ?_, ?_⟩
          · rintro (h | h)
            · cases h
            · exact h2 h
          · intro hs hall
            exact h3 hs hall.2
        | via f k gs =>
          rw [storedProc_mk_other tbl fld kind ch a cs _ hR (by intro f d h; cases h)]
          cases eff <;> simp [clsOk] at hk
          subst hk
          obtain ⟨h1, h2, h3⟩ := fields_case tbl exp [f] cs ih hm
          simp only [step, ownV, combine_block, combine_allow]
          refine ⟨h1, ?_, ?_⟩
          · rintro (h | h)
            · cases h
            · exact h2 h
          · intro hs hall
            exact h3 hs hall.2
        | optField f =>
          rw [storedProc_mk_other tbl fld kind ch a cs _ hR (by intro f d h; cases h)]
          cases eff <;> simp [clsOk] at hk
          subst hk
          simp only [Bool.and_eq_true, beq_iff_eq] at hm
          obtain ⟨d, hd, hdf, hsel, hver⟩ := single_case tbl exp f cs hm.1
          have hmem := wfL_mem hm.2 d hd
          simp only [step, hsel, hver, ownV, combine_block, combine_allow, List.mem_singleton]
          by_cases hn : d.isNil = true
          · rw [verdict_nil exp d hn]
            simp only [hn, if_true]
            simp
          · have hn' : d.isNil = false := by simpa using hn
            have hwd : wf tbl exp d = true := hmem.2 (by simpa [Node.isNil] using hn')
            obtain ⟨g1, g2, g3⟩ := ih d hd hwd
            simp only [hn', Bool.false_eq_true, if_false]
            refine ⟨g1, ?_, ?_⟩
            · rintro (h | h)
              · cases h
              · exact g2 h.symm
            · intro hs hall
              exact g3 (storedProcL_mem hs d hd) (hall.2 _ rfl)
        | ifSet f dflt =>
          rw [storedProc_mk_ifSet tbl fld kind ch a cs f dflt hR]
          cases eff <;> cases dflt <;> simp [clsOk] at hk
          subst hk
          simp only [Bool.and_eq_true, beq_iff_eq] at hm
          obtain ⟨d, hd, hdf, hsel, hver⟩ := single_case tbl exp f cs hm.1.1
          have hmem := wfL_mem hm.2 d hd
          simp only [step, hsel, hver, ownV, combine_block, combine_allow, List.mem_singleton]
          by_cases hn : d.isNil = true
          · have hni : nilIn f cs = true := nilIn_of_mem d hd hdf hn
            rw [verdict_nil exp d hn, hni]
            simp only [hn, if_true]
            cases hfl : a.flag <;> simp
          · have hn' : d.isNil = false := by simpa using hn
            have hwd : wf tbl exp d = true := hmem.2 (by simpa [Node.isNil] using hn')
            have hflag : a.flag = true := ifSetFlagOk_mem hm.1.2 d hd hdf hn'
            obtain ⟨g1, g2, g3⟩ := ih d hd hwd
            simp only [hn', Bool.false_eq_true, if_false, hflag, if_true]
            refine ⟨g1, ?_, ?_⟩
            · rintro (h | h)
              · cases h
              · exact g2 h.symm
            · intro hs hall
              simp only [Bool.or_eq_false_iff] at hs
              exact g3 (storedProcL_mem hs.2 d hd) (hall.2 _ rfl)
        | attr =>
          rw [storedProc_mk_other tbl fld kind ch a cs _ hR (by intro f d h; cases h)]
          cases eff <;> cases runs <;> simp [clsOk] at hk
          cases hfl : a.flag <;> simp [step, ownV, hfl, combine_block, combine_allow, verdicts_eq]
        | panics => cases eff <;> simp [clsOk] at hk
        | embed k => cases eff <;> simp [clsOk] at hk
        | complex src => cases eff <;> simp [clsOk] at hk
termination_by n => sizeOf n
decreasing_by
  simp_wf
  have := List.sizeOf_lt_of_mem ‹_ ∈ cs›
  omega

/-! ## Lemmas: the traversals of the two analyzer rules -/

mutual
/-- The nodes a `Children()` traversal visits, in pre-order. -/
def reach : Node → List Node
  | .mk f k c a cs => .mk f k c a cs :: reachL cs
def reachL : List Node → List Node
  | [] => []
  | c :: cs => (if c.isChild then reach c else []) ++ reachL cs
end

/-- `readOnlyDBSearch` lowers `valid` on this node. -/
def badDb (enforce : Bool) (n : Node) : Bool :=
  n.kind == resolvedTable && n.attr.roIface && (n.attr.roDb || enforce)

def isRT (n : Node) : Bool := n.kind == resolvedTable

theorem dbSearchL_spec (enforce : Bool) (cs : List Node)
    (ih : ∀ c ∈ cs, ∀ v, reachNil c = false →
      dbSearch enforce c (.valid v) = .valid (v && !(reach c).any (badDb enforce))) :
    ∀ v, reachNilL cs = false →
      dbSearchL enforce cs (.valid v) = .valid (v && !(reachL cs).any (badDb enforce)) := by
  induction cs with
  | nil => intro v _; simp [dbSearchL, reachL]
  | cons c cs ihl =>
    intro v hn
    simp only [reachNilL, Bool.or_eq_false_iff] at hn
    have ihl' := ihl (fun d hd => ih d (by simp [hd]))
    simp only [dbSearchL, reachL]
    by_cases hc : c.isChild = true
    · have hnc : reachNil c = false := by simpa [hc] using hn.1
      rw [if_pos hc, if_pos hc, ih c (by simp) v hnc, ihl' _ hn.2]
      simp [List.any_append, Bool.and_assoc]
    · have hc' : c.isChild = false := by simpa using hc
      simp only [hc', Bool.false_eq_true, if_false, List.nil_append]
      exact ihl' v hn.2

/-- `readOnlyDBSearch` over a tree without reachable nil nodes: `valid` stays true exactly when no
visited resolved table lives in a read-only database (the pruning never hides one, because
`valid` is only ever lowered). -/
theorem dbSearch_spec (enforce : Bool) : (n : Node) → ∀ v, reachNil n = false →
    dbSearch enforce n (.valid v) = .valid (v && !(reach n).any (badDb enforce))
  | .mk f k c a cs => by
    intro v hn
    have ih : ∀ d ∈ cs, ∀ v, reachNil d = false →
        dbSearch enforce d (.valid v) = .valid (v && !(reach d).any (badDb enforce)) :=
      fun d _ => dbSearch_spec enforce d
    simp only [reachNil, Bool.or_eq_false_iff] at hn
    have hl := dbSearchL_spec enforce cs ih
    simp only [dbSearch, reach, List.any_cons, badDb, Node.kind, Node.attr, hn.1]
    cases hk : (k == resolvedTable) <;> cases hi : a.roIface <;> cases hr : a.roDb <;> cases enforce <;>
      cases v <;> simp [hl _ hn.2]
termination_by n => sizeOf n
decreasing_by
  simp_wf
  have := List.sizeOf_lt_of_mem ‹_ ∈ cs›
  omega

/-- All resolved tables the traversal can reach implement sql.TemporaryTable and are permanent. -/
def allPerm (n : Node) : Bool := (reach n).all (fun d => !isRT d || (d.attr.tempIface && !d.attr.temp))

theorem tempSearchL_perm (cs : List Node)
    (ih : ∀ c ∈ cs, ∀ v, reachNil c = false → allPerm c = true →
      tempSearch c (.valid v) = .valid (v && !(reach c).any isRT)) :
    ∀ v, reachNilL cs = false → (reachL cs).all (fun d => !isRT d || (d.attr.tempIface && !d.attr.temp)) = true →
      tempSearchL cs (.valid v) = .valid (v && !(reachL cs).any isRT) := by
  induction cs with
  | nil => intro v _ _; simp [tempSearchL, reachL]
  | cons c cs ihl =>
    intro v hn hp
    simp only [reachNilL, Bool.or_eq_false_iff] at hn
    have ihl' := ihl (fun d hd => ih d (by simp [hd]))
    simp only [tempSearchL, reachL]
    simp only [reachL, List.all_append, Bool.and_eq_true] at hp
    by_cases hc : c.isChild = true
    · have hnc : reachNil c = false := by simpa [hc] using hn.1
      have hpc : allPerm c = true := by simpa [allPerm, hc] using hp.1
      rw [if_pos hc, if_pos hc, ih c (by simp) v hnc hpc, ihl' _ hn.2 hp.2]
      simp [List.any_append, Bool.and_assoc]
    · have hc' : c.isChild = false := by simpa using hc
      simp only [hc', Bool.false_eq_true, if_false, List.nil_append]
      exact ihl' v hn.2 hp.2

/-- `temporaryTableSearch` when every reachable table is a permanent table that implements
sql.TemporaryTable: the statement is valid exactly when it reaches no table at all. -/
theorem tempSearch_perm : (n : Node) → ∀ v, reachNil n = false → allPerm n = true →
    tempSearch n (.valid v) = .valid (v && !(reach n).any isRT)
  | .mk f k c a cs => by
    intro v hn hp
    have ih : ∀ d ∈ cs, ∀ v, reachNil d = false → allPerm d = true →
        tempSearch d (.valid v) = .valid (v && !(reach d).any isRT) :=
      fun d _ => tempSearch_perm d
    simp only [reachNil, Bool.or_eq_false_iff] at hn
    simp only [allPerm, reach, List.all_cons, Bool.and_eq_true] at hp
    have hl := tempSearchL_perm cs ih
    simp only [tempSearch, reach, List.any_cons, isRT, Node.kind, hn.1]
    cases hk : (k == resolvedTable)
    · cases v <;> simp [hl _ hn.2 hp.2]
    · have h1 := hp.1
      simp only [isRT, Node.kind, hk, Bool.not_true, Bool.false_or, Node.attr, Bool.and_eq_true,
        Bool.not_eq_true'] at h1
      simp [h1.1, h1.2]
termination_by n => sizeOf n
decreasing_by
  simp_wf
  have := List.sizeOf_lt_of_mem ‹_ ∈ cs›
  omega

/-! ## Lemmas: from the positional table obligation to `kindOk` by name -/

def pairOk (tbl : Table) (exc : List String) (p : (String × Cls) × (String × Expect)) : Bool :=
  p.1.1 == p.2.1 && (clsOk (resolveCls tbl 4 p.1.2) p.2.2 || exc.contains p.1.1)

theorem kindOk_of_pairs (T : Table) (exc : List String) :
    ∀ (tbl : Table) (exp : ExpTable), tbl.length = exp.length → (tbl.zip exp).all (pairOk T exc) = true →
      ∀ k c, lookup tbl k = some c → k ∉ exc →
        ∃ e, lookupE exp k = some e ∧ clsOk (resolveCls T 4 c) e = true := by
  intro tbl
  induction tbl with
  | nil => intro exp _ _ k c h; simp [lookup] at h
  | cons t ts ih =>
    intro exp hlen hall k c hl hk
    cases exp with
    | nil => simp at hlen
    | cons x xs =>
      obtain ⟨tk, tc⟩ := t
      obtain ⟨xk, xe⟩ := x
      simp only [List.zip_cons_cons, List.all_cons, Bool.and_eq_true, pairOk, beq_iff_eq] at hall
      obtain ⟨⟨hname, hok⟩, hrest⟩ := hall
      subst hname
      simp only [lookup, lookupE] at hl ⊢
      by_cases hkk : tk = k
      · subst hkk
        simp only [beq_self_eq_true, if_true, Option.some.injEq] at hl ⊢
        subst hl
        refine ⟨xe, rfl, ?_⟩
        rcases Bool.or_eq_true _ _ ▸ hok with h | h
        · exact h
        · exact absurd (by simpa using h) hk
      · have hne : (tk == k) = false := by simpa using hkk
        simp only [hne, Bool.false_eq_true, if_false] at hl ⊢
        exact ih xs (by simpa using hlen) hrest k c hl hk

/-! ## Lemmas: `repair` is the identity on a sound table -/

theorem lookup_of_mem : ∀ (T : Table) (p : String × Cls), p ∈ T → ∃ c, lookup T p.1 = some c := by
  intro T
  induction T with
  | nil => intro p h; simp at h
  | cons t ts ih =>
    intro p hp
    obtain ⟨tk, tc⟩ := t
    by_cases hk : tk = p.1
    · exact ⟨tc, by simp [lookup, hk]⟩
    · rcases List.mem_cons.mp hp with rfl | hp'
      · exact absurd rfl hk
      · obtain ⟨c, hc⟩ := ih p hp'
        exact ⟨c, by simp [lookup, hk, hc]⟩

theorem repairWith_id (T : Table) (exp : ExpTable) (exc : List String) :
    ∀ l : Table, (∀ p ∈ l, kindOk T exp p.1 = true ∨ exc.contains p.1 = true) → repairWith T exp exc l = l := by
  intro l
  induction l with
  | nil => intro _; rfl
  | cons t ts ih =>
    intro h
    obtain ⟨k, c⟩ := t
    have hk : (kindOk T exp k || exc.contains k) = true := by
      simp only [Bool.or_eq_true]
      exact h (k, c) (List.mem_cons_self ..)
    simp only [repairWith, hk, if_true]
    rw [ih (fun p hp => h p (List.mem_cons_of_mem _ hp))]

end Gms.ReadOnly

/-! ## Property theorems -/
namespace Gms.C42
open Gms.ReadOnly Gms.Generated

/-! ### Obligations over the regenerated facts -/

set_option maxRecDepth 100000 in
/-- Every node kind the source declares today (with its `IsReadOnly` body shape as classified
from the source text) agrees with the hand-written expectation: writers answer `false`, readers
answer `true`, composite nodes consult exactly the fields that are executed. Positional over the
two name-sorted tables (so it also says: no unknown kind, no vanished kind). -/
theorem table_sound :
    tbl.length = expect.length ∧ (tbl.zip expect).all (pairOk tbl kindExceptions) = true := by
  decide +kernel

set_option maxRecDepth 100000 in
/-- No `IsReadOnly` body escaped the extractor's classification, and `via` shapes are coherent
with the kind they go through (`RecursiveCte` ↦ its `SetOp`). -/
theorem shapes_understood :
    tbl.all (fun e => match e.2 with
      | .complex _ => false
      | .via _ k gs => resolve tbl 4 k == some (.fields gs)
      | _ => true) = true := by
  decide +kernel

/-- The harness can construct every exported node kind of the source, and knows no kind the source
lost (`kinds_complete`). -/
theorem kinds_complete : C42.registryMissing = [] ∧ C42.registryVanished = [] := by decide

set_option maxRecDepth 100000 in
/-- `plan.IsReadOnly` is the method call; `Engine.readOnlyCheck` is the two guarded returns in
this order; both callers run it before the execution plan is built. -/
theorem gate_shape :
    C42.planIsReadOnlyBody = "{ return node.IsReadOnly() }" ∧
    C42.engineGate = ["e.IsReadOnly() => sql.ErrReadOnly.New()", "e.IsServerLocked => sql.ErrDatabaseWriteLocked.New()", "return nil"] ∧
    C42.gateBeforeBuild_QueryWithBindings = true ∧ C42.gateBeforeBuild_PrepQueryPlanForExecution = true := by
  decide +kernel

set_option maxRecDepth 100000 in
/-- The two analyzer rules have the shape the model transliterates: guards, root-scrutinising
kind switch with these arms and actions, and these closure bodies. -/
theorem rules_shape :
    C42.roTxSwitchOn = "root" ∧ C42.roDbSwitchOn = "root" ∧
    C42.roTxArms.map (·.2) = [actTxSearchRoot, actTxSearchDest, actTxReject, actTxTempCreate, actTxDefault] ∧
    C42.roDbArms.map (·.2) = [actDbSearchRoot, actDbSearchDest, actDbOwn, actDbDefault] ∧
    (C42.roTxArms.getLast?.map (·.1)) = some ["default"] ∧ (C42.roDbArms.getLast?.map (·.1)) = some ["default"] ∧
    C42.roTxGuards = ["t == nil", "!t.IsReadOnly() && !scope.EnforcesReadOnly()", "!valid"] ∧
    C42.body_isTempTable = "{ tt, isTempTable := table.(sql.TemporaryTable) if !isTempTable { valid = false } return tt.IsTemporary() }" ∧
    C42.body_temporaryTableSearch = "{ if rt, ok := node.(*plan.ResolvedTable); ok { valid = isTempTable(rt.Table) } return valid }" ∧
    C42.body_readOnlyDBSearch = "{ if rt, ok := node.(*plan.ResolvedTable); ok { if ro, ok := rt.SqlDatabase.(sql.ReadOnlyDatabase); ok { if ro.IsReadOnly() { readOnlyDB = ro valid = false } else if enforceReadOnly { valid = false } } } return valid }" := by
  decide +kernel

set_option maxRecDepth 100000 in
/-- The kinds of the rules' arms. -/
theorem rule_kinds :
    facts.txSearchRoot = ["plan.DeleteFrom", "plan.Update", "plan.UnlockTables"] ∧
    facts.txSearchDest = ["plan.InsertInto"] ∧ facts.txReject = ["plan.LockTables"] ∧
    facts.txTempCreate = ["plan.CreateTable"] ∧
    facts.dbSearchRoot = ["plan.DeleteFrom", "plan.Update", "plan.LockTables", "plan.UnlockTables"] ∧
    facts.dbSearchDest = ["plan.InsertInto"] ∧ facts.dbOwn = ["plan.CreateTable"] := by
  decide +kernel

set_option maxRecDepth 100000 in
/-- No kind that one of the rules can reject is a pure reader; every DDL kind except the
`Block` wrapper is a writer. -/
theorem rule_kinds_not_readers :
    (facts.txSearchRoot ++ facts.txSearchDest ++ facts.txReject ++ facts.txTempCreate ++
      facts.dbSearchRoot ++ facts.dbSearchDest ++ facts.dbOwn).all
      (fun k => match lookupE expect k with | some e => e.eff == .write || e.eff == .free | none => false) = true ∧
    facts.ddl.all (fun k => k == "plan.Block" ||
      (match lookupE expect k with | some e => e.eff == .write | none => false)) = true := by
  decide +kernel

/-! ### `plan.IsReadOnly` and the engine gate -/

/-- **Every write is blocked** (full strength, no region guard): for every well-formed plan tree
over the regenerated kind table whose execution modifies data or schema, `IsReadOnly` is `false`,
so the engine rejects it with `ErrReadOnly` when read-only and with `ErrDatabaseWriteLocked`
when the server is locked. -/
theorem engine_blocks_every_write (n : Node) (ro locked : Bool) (hw : wf tbl expect n = true)
    (hv : verdict expect n = .block) (hm : ro = true ∨ locked = true) :
    isRO tbl n = .ok false ∧
    engineGate ro locked (isRO tbl n) = (if ro then .errReadOnly else .errLocked) := by
  have h := (good_of_wf tbl expect n hw).2.1 hv
  refine ⟨h, ?_⟩
  rw [h]
  cases ro <;> cases locked <;> simp_all [engineGate]

/- Full statement of "and nothing else" (false on the unchanged tree, see
`finding_stored_procedure_call_rejected`):
   ∀ n, wf tbl expect n → verdict expect n = .allow → engineGate ro locked (isRO tbl n) = .pass -/

/-- **Nothing else is blocked**, outside the region `storedProc` (a stored procedure whose body
does not write is called): a plan that modifies nothing passes the gate in every mode. -/
theorem engine_allows_reads_partial (n : Node) (ro locked : Bool) (hw : wf tbl expect n = true)
    (hr : storedProc tbl n = false) (hv : verdict expect n = .allow) :
    isRO tbl n = .ok true ∧ engineGate ro locked (isRO tbl n) = .pass := by
  have h := (good_of_wf tbl expect n hw).2.2 hr hv
  refine ⟨h, ?_⟩
  rw [h]
  cases ro <;> cases locked <;> simp [engineGate]

/-- `IsReadOnly` never panics and never leaves the table on a well-formed tree. -/
theorem isReadOnly_total (n : Node) (hw : wf tbl expect n = true) : ∃ b, isRO tbl n = .ok b :=
  (good_of_wf tbl expect n hw).1

/-- With both modes off nothing is rejected (and `IsReadOnly` is not even evaluated). -/
theorem read_write_mode_never_blocks (r : Res) : engineGate false false r = .pass := rfl

/-- The same two theorems for *any* kind table and expectation (not only today's): this is
what makes `table_sound` the only obligation a change of the source can break. -/
theorem isReadOnly_sound_generic (t : Table) (e : ExpTable) (n : Node) (hw : wf t e n = true) :
    (verdict e n = .block → isRO t n = .ok false) ∧
    (storedProc t n = false → verdict e n = .allow → isRO t n = .ok true) :=
  ⟨(good_of_wf t e n hw).2.1, (good_of_wf t e n hw).2.2⟩

/-- The per-kind condition inside `wf` is discharged by `table_sound` for every kind of the
regenerated table outside the two placeholder kinds: `wf` only constrains the *shape* of the tree
(no nil in a consulted field, single optional nodes present once). -/
theorem kind_condition_holds (k : String) (c : Cls) (h : lookup tbl k = some c) (hx : k ∉ kindExceptions) :
    kindOk tbl expect k = true := by
  obtain ⟨e, he, hok⟩ := kindOk_of_pairs tbl kindExceptions tbl expect table_sound.1 table_sound.2 k c h hx
  simp [kindOk, he, resolve, h, hok]

/-! ### The Spec does not lean on the source's table; DML wrapped by a trigger executor

`wf tbl expect` contains `kindOk tbl expect`: if a method of the source goes wrong (say
`TriggerExecutor.IsReadOnly` stops consulting the wrapped INSERT/UPDATE/DELETE), every tree
holding that kind stops being well-formed over `tbl` and the theorems above say nothing about
it. The driver therefore decides the Spec of such trees over `tblR`, the table with every unsound
entry replaced by the shape the expectation prescribes. -/

/-- Today's source needs no repair (a consequence of `table_sound`: while it holds, the table the
driver falls back to is the source's own table and `wfSpecOnly` is false on every tree). -/
theorem repair_is_identity : tblR = tbl := by
  unfold tblR repair
  apply repairWith_id
  intro p hp
  by_cases hx : p.1 ∈ kindExceptions
  · right; simpa using hx
  · left
    obtain ⟨c, hc⟩ := lookup_of_mem tbl p hp
    exact kind_condition_holds p.1 c hc hx

/-- What the driver answers as Spec on a tree that is well-formed over the repaired table: a
write must be reported (`false`), a non-write outside the stored-procedure region must pass. -/
theorem spec_over_repaired_table (n : Node) (hw : wf tblR expect n = true) :
    (verdict expect n = .block → isRO tblR n = .ok false) ∧
    (storedProc tblR n = false → verdict expect n = .allow → isRO tblR n = .ok true) :=
  isReadOnly_sound_generic tblR expect n hw

theorem wfSpecOnly_never_today (n : Node) : wfSpecOnly n = false := by
  unfold wfSpecOnly
  rw [repair_is_identity]
  cases wf tbl expect n <;> simp

/-- **A trigger executor never hides the statement it wraps.** For AFTER triggers the analyzer
makes `TriggerExecutor(left := the INSERT/UPDATE/DELETE, right := trigger logic)` the *root* of the
plan; whatever the trigger logic is (even `SET @x = NEW.a`), a writing `left` makes the root a
write, so the engine gate rejects it in read-only / locked mode. -/
theorem trigger_executor_reports_wrapped_write (fld : String) (ch : Bool) (a : Attr) (l r : Node)
    (ro locked : Bool)
    (hw : wf tbl expect (.mk fld "plan.TriggerExecutor" ch a [l, r]) = true)
    (hl : l.field = "left") (hv : verdict expect l = .block) (hm : ro = true ∨ locked = true) :
    isRO tbl (.mk fld "plan.TriggerExecutor" ch a [l, r]) = .ok false ∧
    engineGate ro locked (isRO tbl (.mk fld "plan.TriggerExecutor" ch a [l, r])) =
      (if ro then .errReadOnly else .errLocked) := by
  apply engine_blocks_every_write _ ro locked hw _ hm
  have hE : lookupE expect "plan.TriggerExecutor" = some ⟨.none, ["left", "right"]⟩ := by decide +kernel
  rw [verdict_mk expect fld "plan.TriggerExecutor" ch a [l, r] .none ["left", "right"] (by decide) hE]
  rw [combine_block]
  right
  rw [verdicts_eq]
  simp [hl, hv]

/-- The same for the other position (BEFORE triggers: the executor is the row source *below* the
DML node): the DML node itself is a writer whatever it wraps. -/
theorem dml_over_trigger_executor_is_write (fld kind : String) (ch : Bool) (a : Attr) (cs : List Node)
    (hk : kind ∈ ["plan.InsertInto", "plan.Update", "plan.DeleteFrom", "plan.Truncate"]) :
    verdict expect (.mk fld kind ch a cs) = .block := by
  simp only [List.mem_cons, List.mem_nil_iff, or_false] at hk
  rcases hk with rfl | rfl | rfl | rfl <;>
    (rw [verdict_mk expect fld _ ch a cs .write [] (by decide) (by decide +kernel), combine_block]; left; rfl)

/-- The shape the analyzer builds for `INSERT` on a table with an `AFTER INSERT … SET @x = NEW.a`
trigger. -/
def afterTriggerInsert : Node :=
  .mk "" "plan.TriggerExecutor" false Attr.none
    [.mk "left" "plan.InsertInto" true Attr.none
       [.mk "Destination" "plan.InsertDestination" true Attr.none [.mk "Child" resolvedTable true Attr.none []],
        .mk "Source" "plan.Values" true Attr.none []],
     .mk "right" "plan.TriggerBeginEndBlock" true Attr.none [.mk "statements" "plan.Set" true Attr.none []]]

set_option maxRecDepth 100000 in
/-- Non-vacuity of `trigger_executor_reports_wrapped_write`, and the trigger logic alone is a
reader (so only the wrapped statement makes the root a write). -/
example : wf tbl expect afterTriggerInsert = true ∧ verdict expect afterTriggerInsert = .block ∧
    isRO tbl afterTriggerInsert = .ok false ∧
    engineGate true false (isRO tbl afterTriggerInsert) = .errReadOnly ∧
    isRO tbl (.mk "right" "plan.TriggerBeginEndBlock" true Attr.none [.mk "statements" "plan.Set" true Attr.none []]) = .ok true := by
  decide +kernel

/-- Finding (region `stored_procedure_call_rejected`): CALL of a stored procedure whose body only
reads is a read-only statement, yet `Procedure.IsReadOnly` answers `false` for every
non-external procedure and the engine rejects the call in read-only mode. -/
def witnessCall : Node :=
  .mk "" "plan.Call" false Attr.none [.mk "Procedure" "plan.Procedure" false ⟨true, false, false, false, false⟩
    [.mk "ExternalProc" nilKind false Attr.none []]]

set_option maxRecDepth 100000 in
theorem finding_stored_procedure_call_rejected :
    ∃ n, wf tbl expect n = true ∧ verdict expect n = .allow ∧ storedProc tbl n = true ∧
      engineGate true false (isRO tbl n) = .errReadOnly :=
  ⟨witnessCall, by decide +kernel⟩

/-! ### READ ONLY transactions (`validateReadOnlyTransaction`) -/

theorem not_reader_of_mem (k : String) (a : Attr) (cs : List Node) (fld : String) (ch : Bool)
    (hk : k ∈ facts.txSearchRoot ++ facts.txSearchDest ++ facts.txReject ++ facts.txTempCreate ++
      facts.dbSearchRoot ++ facts.dbSearchDest ++ facts.dbOwn) :
    verdict expect (.mk fld k ch a cs) ≠ .allow := by
  have h := rule_kinds_not_readers.1
  rw [List.all_eq_true] at h
  have hk' := h k hk
  intro hv
  by_cases hn : (k == nilKind) = true
  · have : k = nilKind := by simpa using hn
    subst this
    revert hk'
    decide +kernel
  · have hn' : (k == nilKind) = false := by simpa using hn
    cases hE : lookupE expect k with
    | none => simp [hE] at hk'
    | some e =>
      obtain ⟨eff, runs⟩ := e
      rw [verdict_mk expect fld k ch a cs eff runs hn' hE, combine_allow] at hv
      simp only [hE, Bool.or_eq_true, beq_iff_eq] at hk'
      rcases hk' with h1 | h1 <;> simp [h1, ownV] at hv

/-- **Reads are unaffected by a READ ONLY transaction**: whatever the transaction and scope, a
plan that modifies nothing passes the rule (no reachable nil node). -/
theorem roTx_reads_pass (n : Node) (tx : Tx) (enforce : Bool) (hnil : reachNil n = false)
    (hv : verdict expect n = .allow) : roTxRule facts tx enforce n = .pass := by
  cases n with
  | mk fld k ch a cs =>
    have hnot := not_reader_of_mem k a cs fld ch
    have e1 : facts.txSearchRoot.contains k = false := by
      apply Bool.eq_false_iff.mpr; intro h
      exact hnot (by simp only [List.mem_append]; simp [List.contains_iff_mem.mp h]) hv
    have e2 : facts.txSearchDest.contains k = false := by
      apply Bool.eq_false_iff.mpr; intro h
      exact hnot (by simp only [List.mem_append]; simp [List.contains_iff_mem.mp h]) hv
    have e3 : facts.txReject.contains k = false := by
      apply Bool.eq_false_iff.mpr; intro h
      exact hnot (by simp only [List.mem_append]; simp [List.contains_iff_mem.mp h]) hv
    have e4 : facts.txTempCreate.contains k = false := by
      apply Bool.eq_false_iff.mpr; intro h
      exact hnot (by simp only [List.mem_append]; simp [List.contains_iff_mem.mp h]) hv
    unfold roTxRule
    simp only [Node.kind, e1, e2, e3, e4, hnil]
    cases tx <;> cases enforce <;> simp

/-- **DML on permanent tables is rejected in a READ ONLY transaction** (the guarded, `_partial`
form of "every write is rejected"): root UPDATE / DELETE (or UNLOCK TABLES) whose reachable
tables all implement sql.TemporaryTable and are permanent is rejected iff it reaches a table. -/
theorem roTx_dml_on_permanent_tables_partial (n : Node) (enforce : Bool)
    (hk : facts.txSearchRoot.contains n.kind = true) (hnil : reachNil n = false) (hp : allPerm n = true) :
    roTxRule facts .ro enforce n = (if (reach n).any isRT then .reject else .pass) := by
  unfold roTxRule
  simp only [hk, if_true, tempSearch_perm n true hnil hp]
  cases h : (reach n).any isRT <;> simp [ofSt]

/-- Finding (region `rotx_table_without_temporary_iface_panics`): a table that does not implement
sql.TemporaryTable (every table of the in-memory backend) makes `isTempTable` call a method on a
nil interface: INSERT/UPDATE/DELETE in a READ ONLY transaction panics instead of returning
ErrReadOnlyTransaction. -/
def witnessInsert : Node :=
  .mk "" "plan.InsertInto" false Attr.none [.mk "Destination" "plan.InsertDestination" true Attr.none
    [.mk "Child" resolvedTable true Attr.none []]]

set_option maxRecDepth 100000 in
theorem finding_rotx_table_without_temporary_iface_panics :
    ∃ n, verdict expect n = .block ∧ roTxRule facts .ro false n = .panic :=
  ⟨witnessInsert, by decide +kernel⟩

/-- Finding (region `rotx_ddl_passes`): every kind of `IsDDLNode` is waved through ("implicit
commit"), so TRUNCATE / CREATE / DROP / ALTER take effect inside a READ ONLY transaction. -/
def witnessTruncate : Node :=
  .mk "" "plan.Truncate" false Attr.none [.mk "Child" resolvedTable true ⟨false, true, false, false, false⟩ []]

set_option maxRecDepth 100000 in
theorem finding_rotx_ddl_passes :
    ∃ n, verdict expect n = .block ∧ roTxRule facts .ro false n = .pass :=
  ⟨witnessTruncate, by decide +kernel⟩

/-- Finding (region `rotx_call_not_checked`): CALL is not one of the rule's arms: a procedure that
writes is not stopped by the rule. -/
def witnessCallW : Node :=
  .mk "" "plan.Call" false Attr.none [.mk "Procedure" "plan.Procedure" false Attr.none
    [.mk "ExternalProc" nilKind false Attr.none []]]

set_option maxRecDepth 100000 in
theorem finding_rotx_call_not_checked :
    ∃ n, verdict expect n = .block ∧ roTxRule facts .ro false n = .pass :=
  ⟨witnessCallW, by decide +kernel⟩

/-- Observation (not a listed region: the property is silent about temporary tables): the
traversal overwrites `valid` at every table, so the *last* table reached decides —
`UPDATE perm JOIN temp` passes, `UPDATE temp JOIN perm` is rejected. -/
example :
    let rt (temp : Bool) (fld : String) : Node := .mk fld resolvedTable true ⟨false, true, temp, false, false⟩ []
    roTxRule facts .ro false (.mk "" "plan.Update" false Attr.none [.mk "Child" "plan.JoinNode" true Attr.none [rt false "left", rt true "right"]]) = .pass ∧
    roTxRule facts .ro false (.mk "" "plan.Update" false Attr.none [.mk "Child" "plan.JoinNode" true Attr.none [rt true "left", rt false "right"]]) = .reject := by
  decide +kernel

/-! ### Read-only databases (`validateReadOnlyDatabase`) -/

/-- **Exactly the statements that touch a read-only database through a resolved table are
rejected**, for root UPDATE / DELETE / LOCK / UNLOCK: rejected iff the traversal reaches a
resolved table whose database is read-only (or merely implements the interface, when the scope
enforces read-only). -/
theorem roDb_dml_rejected_iff (n : Node) (enforce : Bool)
    (hk : facts.dbSearchRoot.contains n.kind = true) (hnil : reachNil n = false) :
    roDbRule facts enforce n = (if (reach n).any (badDb enforce) then .reject else .pass) := by
  unfold roDbRule
  simp only [hk, if_true, dbSearch_spec enforce n true hnil]
  cases h : (reach n).any (badDb enforce) <;> simp [ofSt]

/-- The same for every DDL kind other than CREATE TABLE (which looks at its own database). -/
theorem roDb_ddl_rejected_iff (n : Node) (enforce : Bool)
    (h1 : facts.dbSearchRoot.contains n.kind = false) (h2 : facts.dbSearchDest.contains n.kind = false)
    (h3 : facts.dbOwn.contains n.kind = false) (hk : facts.ddl.contains n.kind = true) (hnil : reachNil n = false) :
    roDbRule facts enforce n = (if (reach n).any (badDb enforce) then .reject else .pass) := by
  unfold roDbRule
  simp only [h1, h2, h3, hk, if_true, Bool.false_eq_true, if_false, dbSearch_spec enforce n true hnil]
  cases h : (reach n).any (badDb enforce) <;> simp [ofSt]

/-- **Reads are unaffected by read-only databases**: a plan that modifies nothing passes (the
top-level `Block` wrapper excepted, which the rule treats as DDL). -/
theorem roDb_reads_pass (n : Node) (enforce : Bool) (hnil : reachNil n = false)
    (hv : verdict expect n = .allow) (hb : n.kind ≠ "plan.Block") : roDbRule facts enforce n = .pass := by
  cases n with
  | mk fld k ch a cs =>
    have hnot := not_reader_of_mem k a cs fld ch
    have e1 : facts.dbSearchRoot.contains k = false := by
      apply Bool.eq_false_iff.mpr; intro h
      exact hnot (by simp only [List.mem_append]; simp [List.contains_iff_mem.mp h]) hv
    have e2 : facts.dbSearchDest.contains k = false := by
      apply Bool.eq_false_iff.mpr; intro h
      exact hnot (by simp only [List.mem_append]; simp [List.contains_iff_mem.mp h]) hv
    have e3 : facts.dbOwn.contains k = false := by
      apply Bool.eq_false_iff.mpr; intro h
      exact hnot (by simp only [List.mem_append]; simp [List.contains_iff_mem.mp h]) hv
    have e4 : facts.ddl.contains k = false := by
      apply Bool.eq_false_iff.mpr; intro h
      have hd := rule_kinds_not_readers.2
      rw [List.all_eq_true] at hd
      have hk' := hd k (List.contains_iff_mem.mp h)
      simp only [Bool.or_eq_true, beq_iff_eq] at hk'
      rcases hk' with hk' | hk'
      · exact hb hk'
      · by_cases hn : (k == nilKind) = true
        · have : k = nilKind := by simpa using hn
          subst this
          revert hk'
          decide +kernel
        · have hn' : (k == nilKind) = false := by simpa using hn
          cases hE : lookupE expect k with
          | none => simp [hE] at hk'
          | some e =>
            obtain ⟨eff, runs⟩ := e
            rw [verdict_mk expect fld k ch a cs eff runs hn' hE, combine_allow] at hv
            simp only [hE, beq_iff_eq] at hk'
            simp [hk', ownV] at hv
    unfold roDbRule
    simp only [Node.kind, e1, e2, e3, e4, hnil]
    simp

/-- Finding (region `rodb_statement_without_resolved_table_passes`): the rule only sees a read-only
database through a resolved table (or CREATE TABLE's own database): CREATE VIEW / PROCEDURE /
EVENT, RENAME TABLE, DROP DATABASE, ALTER … AUTO_INCREMENT in a read-only database pass. -/
def witnessCreateView : Node := .mk "" "plan.CreateView" false ⟨false, false, false, true, true⟩ []

set_option maxRecDepth 100000 in
theorem finding_rodb_statement_without_resolved_table_passes :
    ∃ n, verdict expect n = .block ∧ ownDbReadOnly n = true ∧ roDbRule facts false n = .pass :=
  ⟨witnessCreateView, by decide +kernel⟩

/-! ### Non-vacuity -/

/-- A nested plan with a writer deep inside a trigger executor is well-formed, is a write, and is
blocked; the same plan with the writer replaced by a reader is allowed. -/
def sampleTree (leaf : String) : Node :=
  .mk "" "plan.Project" false Attr.none [.mk "Child" "plan.TriggerExecutor" true Attr.none
    [.mk "left" "plan.Filter" true Attr.none [.mk "Child" resolvedTable true Attr.none []],
     .mk "right" "plan.BeginEndBlock" true Attr.none [.mk "statements" leaf true Attr.none []]]]

set_option maxRecDepth 100000 in
example : wf tbl expect (sampleTree "plan.InsertInto") = true ∧ verdict expect (sampleTree "plan.InsertInto") = .block ∧
    isRO tbl (sampleTree "plan.InsertInto") = .ok false ∧
    wf tbl expect (sampleTree "plan.ShowTables") = true ∧ storedProc tbl (sampleTree "plan.ShowTables") = false ∧
    verdict expect (sampleTree "plan.ShowTables") = .allow ∧ isRO tbl (sampleTree "plan.ShowTables") = .ok true := by
  decide +kernel

set_option maxRecDepth 100000 in
example : roDbRule facts false (.mk "" "plan.Update" false Attr.none
      [.mk "Child" "plan.UpdateSource" true Attr.none [.mk "Child" resolvedTable true ⟨false, false, false, true, true⟩ []]]) = .reject ∧
    reachNil (sampleTree "plan.ShowTables") = false := by
  decide +kernel

end Gms.C42
