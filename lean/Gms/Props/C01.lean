/-
C01 — Query results do not depend on the physical plan chosen.

What is proved here (for all inputs, by induction on the row lists; no bound):

* the memo's reordering moves are identities of the join algebra — `move_commute`, `move_assoc`,
  `move_lasscom`, `move_rasscom` — and every `always` entry of the three REGENERATED property
  tables (`assocTable`, `leftAsscomTable`, `rightAsscomTable`) is an instance of one of them
  (`tables_sound_assoc`, `tables_sound_lasscom`, `tables_sound_rasscom`); conditional entries never
  fire because `edge.nullRejectedRels` is never written (`conditional_entries_never_fire`,
  regenerated fact `nullRejectedRelsWrites = 0`);
* the iterator models equal the operators of the SQL definition: `phys_nl_inner`, `phys_nl_left`,
  `phys_semi`, `phys_anti`, `phys_antiNulls` (same row sequence), `phys_hash_eq` (hash join = nested
  loop join, same sequence, whenever TRUE pairs agree on the key), `phys_hash_exclNulls_partial`
  (the NULL-excluding variants, under the guard ¬`HashProbeMiss`), `phys_lookup_perm`,
  `phys_merge_inner` (merge join = inner join on index-ordered inputs, same sequence);
* the four findings on the unchanged tree as witness theorems: `finding_hash_exclude_nulls_probe_miss`,
  `finding_inner_conjunct_lost_at_outer_join`, `finding_merge_tuple_null_key`,
  `finding_transitive_edge_from_nullsafe_equality`, each beside its guarded theorem
  (`phys_hash_exclNulls_partial`, `reorder_left_inner_partial`, `phys_merge_inner`,
  `transitive_edge_partial`); later findings are listed in section 5 (`Keys`) and after it:
  `finding_inner_conjunct_lost_by_conflict_rule` (model of the builder's conflict detection,
  `Gms/Model/JoinConflict.lean`; guarded: `applied_once_partial`, `lost_iff_rule_violated`) and
  `finding_left_join_replaced_by_inner_join` (guarded: `left_replaced_by_inner_partial`).
-/
import Gms.Lemmas.Phys
import Gms.Lemmas.Merge
import Gms.Lemmas.MergeLeft
import Gms.Lemmas.PhysKeys
import Gms.Lemmas.Rel
import Gms.Lemmas.JoinConflict
import Gms.Model.PhysRegions
import Gms.Model.PhysKeys
import Gms.Generated.C01

namespace Gms.C01
open Gms.Sql Gms.Rel Gms.Phys List

/-! ## 1. Reordering moves -/

section Moves
variable {α β γ : Type}

/-- commute: `e1 ⋈ e2 ≈ e2 ⋈ e1`. -/
theorem move_commute (m : α → β → Bool) (L : List α) (R : List β) :
    ((ij m L R).map fun p => (p.2, p.1)) ~ ij (fun b a => m a b) R L := commute_inner m L R

/-- assoc: `(e1 ⋈A e2) opB e3 = e1 ⋈A (e2 opB e3)` for an inner/cross A and ANY left-linear B. -/
theorem move_assoc (s : Shape) (mA : α → β → Bool) (mB : β → γ → Bool)
    (L : List α) (R2 : List β) (R3 : List γ) :
    ((lop s (fun p z => mB p.2 z) (ij mA L R2) R3).map fun q => (q.1.1, (q.1.2, q.2)))
      = ij (fun a q => mA a q.1) L (lop s mB R2 R3) := assoc_inner s mA mB L R2 R3

/-- l-asscom: `(e1 opA e2) opB e3 ≈ (e1 opB e3) opA e2` for ANY two left-linear operators. -/
theorem move_lasscom (sA sB : Shape) (mA : α → β → Bool) (mB : α → γ → Bool)
    (L : List α) (R2 : List β) (R3 : List γ) :
    ((lop sB (fun p z => mB p.1 z) (lop sA mA L R2) R3).map fun q => (q.1.1, q.1.2, q.2))
      ~ ((lop sA (fun p y => mA p.1 y) (lop sB mB L R3) R2).map fun q => (q.1.1, q.2, q.1.2)) :=
  lasscom sA sB mA mB L R2 R3

/-- r-asscom: `e1 ⋈B (e2 ⋈A e3) ≈ e2 ⋈A (e1 ⋈B e3)` for inner/cross operators. -/
theorem move_rasscom (mA : β → γ → Bool) (mB : α → γ → Bool)
    (L1 : List α) (L2 : List β) (L3 : List γ) :
    ((ij (fun a q => mB a q.2) L1 (ij mA L2 L3)).map fun q => (q.1, q.2.1, q.2.2))
      ~ ((ij (fun b q => mA b q.2) L2 (ij mB L1 L3)).map fun q => (q.2.1, q.1, q.2.2)) :=
  rasscom_inner mA mB L1 L2 L3

end Moves

/-- The inner join of the algebra is the inner join of the SQL definition. -/
theorem ij_is_innerJoin (m : Row → Row → Bool) (L R : List Row) :
    innerJoin m L R = (ij m L R).map fun p => p.1 ++ p.2 := by
  unfold innerJoin ij
  rw [map_flatMap']
  apply flatMap_congr'
  intro a _
  simp [List.map_map, Function.comp_def]

theorem lop_inner_is_innerJoin (m : Row → Row → Bool) (L R : List Row) :
    innerJoin m L R = (lop .inner m L R).map fun p => p.1 ++ p.2.getD [] := by
  unfold innerJoin lop
  rw [map_flatMap']
  apply flatMap_congr'
  intro a _
  simp [Shape.ext, List.map_map, Function.comp_def]

theorem isEmpty_filter_eq_not_any {α : Type} (p : α → Bool) (l : List α) :
    (l.filter p).isEmpty = !l.any p := by
  induction l with
  | nil => rfl
  | cons a l ih => by_cases h : p a = true <;> simp [List.filter_cons, h, ih]

theorem lop_left_is_leftJoin (m : Row → Row → Bool) (w : Nat) (L R : List Row) :
    leftJoin m w L R = (lop .left m L R).map fun p => p.1 ++ p.2.getD (nulls w) := by
  unfold leftJoin lop
  rw [map_flatMap']
  apply flatMap_congr'
  intro a _
  cases h : (R.filter (m a)).isEmpty <;> simp [Shape.ext, h, List.map_map, Function.comp_def]

theorem filter_eq_flatMap {α : Type} (p : α → Bool) (l : List α) :
    l.filter p = l.flatMap fun a => if p a then [a] else [] := by
  induction l with
  | nil => rfl
  | cons a l ih => by_cases h : p a = true <;> simp [List.filter_cons, h, ih]

theorem lop_semi_is_semiJoin (m : Row → Row → Bool) (L R : List Row) :
    semiJoin m L R = (lop .semi m L R).map fun p => p.1 := by
  unfold semiJoin lop
  rw [map_flatMap', filter_eq_flatMap]
  apply flatMap_congr'
  intro a _
  simp only [Shape.ext, isEmpty_filter_eq_not_any]
  cases R.any (m a) <;> simp

theorem lop_anti_is_antiJoin (m : Row → Row → Bool) (L R : List Row) :
    antiJoin m L R = (lop .anti m L R).map fun p => p.1 := by
  unfold antiJoin lop
  rw [map_flatMap', filter_eq_flatMap]
  apply flatMap_congr'
  intro a _
  simp only [Shape.ext, isEmpty_filter_eq_not_any]
  cases R.any (m a) <;> simp

/-! ## 2. The regenerated property tables -/

def AssocHolds (A B : Kind) : Prop :=
  A.shape = some .inner ∧ ∃ sB, B.shape = some sB ∧
    ∀ (α β γ : Type) (mA : α → β → Bool) (mB : β → γ → Bool) (L : List α) (R2 : List β) (R3 : List γ),
      ((lop sB (fun p z => mB p.2 z) (ij mA L R2) R3).map fun q => (q.1.1, (q.1.2, q.2)))
        = ij (fun a q => mA a q.1) L (lop sB mB R2 R3)

def LAsscomHolds (A B : Kind) : Prop :=
  ∃ sA sB, A.shape = some sA ∧ B.shape = some sB ∧
    ∀ (α β γ : Type) (mA : α → β → Bool) (mB : α → γ → Bool) (L : List α) (R2 : List β) (R3 : List γ),
      ((lop sB (fun p z => mB p.1 z) (lop sA mA L R2) R3).map fun q => (q.1.1, q.1.2, q.2))
        ~ ((lop sA (fun p y => mA p.1 y) (lop sB mB L R3) R2).map fun q => (q.1.1, q.2, q.1.2))

def RAsscomHolds (A B : Kind) : Prop :=
  A.shape = some .inner ∧ B.shape = some .inner ∧
    ∀ (α β γ : Type) (mA : β → γ → Bool) (mB : α → γ → Bool) (L1 : List α) (L2 : List β) (L3 : List γ),
      ((ij (fun a q => mB a q.2) L1 (ij mA L2 L3)).map fun q => (q.1, q.2.1, q.2.2))
        ~ ((ij (fun b q => mA b q.2) L2 (ij mB L1 L3)).map fun q => (q.2.1, q.1, q.2.2))

theorem assoc_table_shapes : ∀ A B : Kind, A ≠ .group → B ≠ .group →
    allowed Generated.C01.assocTable A B = true → A.shape = some .inner ∧ B.shape.isSome = true := by
  intro A B; cases A <;> cases B <;> decide

theorem lasscom_table_shapes : ∀ A B : Kind, A ≠ .group → B ≠ .group →
    allowed Generated.C01.leftAsscomTable A B = true → A.shape.isSome = true ∧ B.shape.isSome = true := by
  intro A B; cases A <;> cases B <;> decide

theorem rasscom_table_shapes : ∀ A B : Kind, A ≠ .group → B ≠ .group →
    allowed Generated.C01.rightAsscomTable A B = true → A.shape = some .inner ∧ B.shape = some .inner := by
  intro A B; cases A <;> cases B <;> decide

/-- Every pair of operator kinds for which the memo's `assoc()` table lookup succeeds on the
current source satisfies the associativity identity, for all inputs. (`group`: the kind
`JoinTypeGroupBy` is never constructed — regenerated fact `groupByJoinMentions`.) -/
theorem tables_sound_assoc (A B : Kind) (hA : A ≠ .group) (hB : B ≠ .group)
    (h : allowed Generated.C01.assocTable A B = true) : AssocHolds A B := by
  obtain ⟨h1, h2⟩ := assoc_table_shapes A B hA hB h
  obtain ⟨sB, hs⟩ := Option.isSome_iff_exists.mp h2
  exact ⟨h1, sB, hs, fun _ _ _ mA mB L R2 R3 => move_assoc sB mA mB L R2 R3⟩

theorem tables_sound_lasscom (A B : Kind) (hA : A ≠ .group) (hB : B ≠ .group)
    (h : allowed Generated.C01.leftAsscomTable A B = true) : LAsscomHolds A B := by
  obtain ⟨h1, h2⟩ := lasscom_table_shapes A B hA hB h
  obtain ⟨sA, hsA⟩ := Option.isSome_iff_exists.mp h1
  obtain ⟨sB, hsB⟩ := Option.isSome_iff_exists.mp h2
  exact ⟨sA, sB, hsA, hsB, fun _ _ _ mA mB L R2 R3 => move_lasscom sA sB mA mB L R2 R3⟩

theorem tables_sound_rasscom (A B : Kind) (hA : A ≠ .group) (hB : B ≠ .group)
    (h : allowed Generated.C01.rightAsscomTable A B = true) : RAsscomHolds A B := by
  obtain ⟨h1, h2⟩ := rasscom_table_shapes A B hA hB h
  exact ⟨h1, h2, fun _ _ _ mA mB L1 L2 L3 => move_rasscom mA mB L1 L2 L3⟩

/-- Non-vacuity: the tables do allow moves (inner below left outer; semi beside left outer). -/
example : allowed Generated.C01.assocTable .inner .left = true := by decide
example : allowed Generated.C01.leftAsscomTable .semi .left = true := by decide
example : allowed Generated.C01.rightAsscomTable .cross .inner = true := by decide

/-- With empty null-rejection sets `checkProperty` succeeds only on `always` or on an entry
without a filter bit. -/
theorem checkProperty_no_nullrej (e l r : Nat) :
    checkProperty e 0 0 l r = (e == eAlways || (e != eNever && !hasBit e eFilterA && !hasBit e eFilterB)) := by
  unfold checkProperty intersects
  by_cases h0 : e = eNever
  · subst h0; simp [eNever, eAlways]
  · by_cases h1 : e = eAlways
    · subst h1; simp [eNever, eAlways]
    · have hn0 : (e == eNever) = false := by simpa using h0
      have hn1 : (e == eAlways) = false := by simpa using h1
      simp only [hn0, hn1, Nat.zero_and, bne_self_eq_false, Bool.not_false, Bool.and_true, Bool.false_eq_true,
        if_false, Bool.false_or]
      cases hasBit e eFilterA <;> cases hasBit e eFilterB <;> simp [h0]

/-- On the current source every conditional entry of the three tables carries a filter bit, so
(with `nullRejectedRels` never written) the memo treats it as `never`: a table lookup succeeds
exactly on the `always` entries. -/
theorem conditional_entries_never_fire :
    ∀ t ∈ [Generated.C01.assocTable, Generated.C01.leftAsscomTable, Generated.C01.rightAsscomTable],
      ∀ A ∈ Kind.all, ∀ B ∈ Kind.all, allowed t A B = (tableEntry t A B == eAlways) := by decide

/-- The identity fails for a pair the table rejects: associating two LEFT joins whose upper
condition accepts NULLs changes the result (so `never` / the null-rejection side condition there
is not vacuous). -/
theorem assoc_left_left_fails :
    ∃ (L : List Nat) (R2 : List Nat) (R3 : List Nat) (mA : Nat → Nat → Bool) (mB : Option Nat → Nat → Bool),
      ((lop .left (fun p z => mB p.2 z) (lop .left mA L R2) R3).map fun q => (q.1.1, q.1.2, q.2)).length
        ≠ (L.flatMap fun a => (Shape.left.ext ((lop .left (fun y z => mB (some y) z) R2 R3).filter fun q => mA a q.1)).map
            fun y => (a, y)).length :=
  ⟨[1], [], [7, 8], fun _ _ => true, fun _ _ => true, by decide⟩

/-! ## 3. Physical operators = their definition -/

/-- `joinIter` (nested loop) as inner join: the SQL definition's inner join, same row sequence. -/
theorem phys_nl_inner (c : Row → Row → Tri) (rw : Nat) (L R : List Row) :
    nlJoin false false c rw L R = innerJoin (fun a b => c a b == .t) L R := nlJoin_inner c rw L R

/-- `joinIter` as left outer join. -/
theorem phys_nl_left (c : Row → Row → Tri) (rw : Nat) (L R : List Row) :
    nlJoin true false c rw L R = leftJoin (fun a b => c a b == .t) rw L R := nlJoin_left c rw L R

/-- `existsIter` as semi join (either NULL mode). -/
theorem phys_semi (excl : Bool) (c : Row → Row → Tri) (L R : List Row) :
    existsJoin false excl c L R = semiJoin (fun a b => c a b == .t) L R := existsJoin_semi excl c L R

/-- `existsIter` as `AntiJoinIncludingNulls` (NOT EXISTS). -/
theorem phys_anti (c : Row → Row → Tri) (L R : List Row) :
    existsJoin true false c L R = antiJoin (fun a b => c a b == .t) L R := existsJoin_antiIncl c L R

/-- `existsIter` as `AntiJoin` (NOT IN): a left row survives iff the condition is FALSE — not NULL —
against every right row; for `c a b = (x a = y b)` this is exactly "`x a NOT IN (y b …)` is TRUE"
(`Gms.Sql.notIn_eq_t`). -/
theorem phys_antiNulls (c : Row → Row → Tri) (L R : List Row) :
    existsJoin true true c L R = L.filter fun a => R.all fun b => c a b == .f := by
  unfold existsJoin
  congr 1; funext a; exact existsScanRow_antiExcl c a R

theorem phys_antiNulls_notIn (x y : Row → Value) (L R : List Row) :
    existsJoin true true (fun a b => cmpTri .eq (x a) (y b)) L R
      = L.filter fun a => decide (Tri.not (inTri (x a) (R.map y)) = .t) := by
  rw [phys_antiNulls]
  apply List.filter_congr
  intro a _
  have h := notIn_eq_t (x a) (R.map y)
  by_cases hall : (R.all fun b => cmpTri .eq (x a) (y b) == .f) = true
  · have : Tri.not (inTri (x a) (R.map y)) = .t := h.mpr (by
      intro w hw
      obtain ⟨b, hb, rfl⟩ := List.mem_map.mp hw
      have := List.all_eq_true.mp hall b hb
      simpa using this)
    simp [hall, this]
  · have : ¬ Tri.not (inTri (x a) (R.map y)) = .t := by
      intro ht
      apply hall
      rw [List.all_eq_true]
      intro b hb
      have := h.mp ht (y b) (List.mem_map.mpr ⟨b, hb, rfl⟩)
      simp [this]
    simp [hall, this]

section Hash
variable {κ : Type} [DecidableEq κ]

/-- **Hash join = nested-loop join** (inner and left outer, same row sequence), for every state of
the lazily published lookup table, provided TRUE pairs agree on the hash key — which is what
`addHashJoins` guarantees by taking the keys from the equality conjuncts of the condition. -/
theorem phys_hash_eq (lo : Bool) (c : Row → Row → Tri) (rw : Nat) (kL kR : Row → κ) (choice : Nat)
    (L R : List Row) (H : ∀ a ∈ L, ∀ b ∈ R, c a b = .t → kR b = kL a) :
    hashJoin lo false c rw kL kR choice L R = nlJoin lo false c rw L R :=
  hashJoinGo_eq_nl_noexcl lo c rw kL kR R choice L false H

/-- Region of the finding: a pair on which the condition is NULL although the hash keys differ. -/
def HashProbeMiss (c : Row → Row → Tri) (kL kR : Row → κ) (L R : List Row) : Prop :=
  ∃ a ∈ L, ∃ b ∈ R, c a b = .u ∧ kR b ≠ kL a

/-- Full statement (FALSE on the unchanged tree, see `finding_hash_exclude_nulls_probe_miss`):
`∀ …, H → hashJoin lo true c rw kL kR choice L R = nlJoin lo true c rw L R`.
Guarded statement: the NULL-excluding hash joins (`LeftOuterHashJoinExcludingNulls`, and through
it NOT IN) equal the nested-loop join outside the region, whichever bucket `buildHashLookup` returns
for an empty probe. -/
theorem phys_hash_exclNulls_partial (lo : Bool) (c : Row → Row → Tri) (rw : Nat) (kL kR : Row → κ)
    (choice : Nat) (L R : List Row) (H : ∀ a ∈ L, ∀ b ∈ R, c a b = .t → kR b = kL a)
    (hreg : ¬ HashProbeMiss c kL kR L R) :
    hashJoin lo true c rw kL kR choice L R = nlJoin lo true c rw L R := by
  apply hashJoinGo_eq_nl
  intro a ha b hb hne
  cases hc : c a b with
  | t => exact H a ha b hb hc
  | f => exact absurd hc hne
  | u =>
    apply Classical.byContradiction
    intro hk
    exact hreg ⟨a, ha, b, hb, hc, hk⟩

/-- Lookup join ≈ nested-loop join (bag equality; the index decides the order within a key). -/
theorem phys_lookup_perm (lo : Bool) (c : Row → Row → Tri) (rw : Nat) (kL kR : Row → κ)
    (idx : κ → List Row) (L R : List Row) (hidx : ∀ k, idx k ~ R.filter (fun r => kR r = k))
    (H : ∀ a ∈ L, ∀ b ∈ R, c a b = .t → kR b = kL a) :
    lookupJoin lo c rw kL idx L ~ nlJoin lo false c rw L R :=
  lookupJoin_perm_nl lo c rw kL kR idx L R hidx H

end Hash

/-- **Merge join = inner join**, same row sequence: both inputs in index order on a nullable
integer key (NULLs first), the comparer `l.k = r.k`, any further filters `sel`. The model's NULL
test is on the key itself (the single-column comparer); the row-constructor comparer fails exactly
there (`finding_merge_tuple_null_key`). String keys: the same argument over `bytesCmp` (not
mechanised); left outer merge join: tied by correspondence only. -/
theorem phys_merge_inner (kl kr : Row → Option Int) (sel : Row → Row → Bool) (rw : Nat) (L R : List Row)
    (hL : SortedBy kl L) (hR : SortedBy kr R) :
    mergeJoin false (mergeCmp kl kr) (fun a => (kl a).isNone) sel rw L R
      = innerJoin (mergeCond kl kr sel) L R :=
  mergeGo_eq_innerJoin kl kr sel rw (mergeFuel L R) L R (by simp [mergeFuel]) hL hR

/-- Non-vacuity: sorted inputs with duplicate keys, NULL keys and a residual filter. -/
example :
    mergeJoin false (mergeCmp (fun r => match r.getD 0 .null with | .int i => some i | _ => none)
        (fun r => match r.getD 0 .null with | .int i => some i | _ => none))
      (fun a => (match a.getD 0 .null with | .int i => some i | _ => (none : Option Int)).isNone)
      (fun a b => a.getD 1 .null != b.getD 1 .null) 2
      [[.null, .int 0], [.int 1, .int 5], [.int 1, .int 6], [.int 3, .int 0]]
      [[.null, .int 9], [.int 1, .int 5], [.int 1, .int 7], [.int 2, .int 0]]
    = [[.int 1, .int 5, .int 1, .int 7], [.int 1, .int 6, .int 1, .int 5], [.int 1, .int 6, .int 1, .int 7]] := by
  decide

/-! ### Finding 1: hash lookup of NULL-excluding joins -/

/-- Row-constructor equality `(a0,a1) = (b0,b1)` in three-valued logic. -/
def eq2 (a b : Row) : Tri :=
  Tri.and (cmpTri .eq (a.getD 0 .null) (b.getD 0 .null)) (cmpTri .eq (a.getD 1 .null) (b.getD 1 .null))

def key2 (r : Row) : Row := r.take 2

def wL : List Row := [[.int 1, .int 2], [.int 5, .int 7]]
def wR : List Row := [[.int 1, .int 5], [.null, .int 7]]

/-- TRUE pairs agree on the key (the hypothesis of `phys_hash_eq` holds for the witness). -/
example : ∀ a ∈ wL, ∀ b ∈ wR, eq2 a b = .t → key2 b = key2 a := by decide

/-- `(5,7) NOT IN {(1,5),(NULL,7)}` is NULL, so the nested-loop `LeftOuterJoinExcludingNulls`
abandons the left row (5,7); the hash variant probes the empty bucket of key (5,7), is handed the
bucket of (1,5) instead, finds no match and emits the NULL-padded row — which the `IS NULL` filter
above it then lets through. -/
theorem finding_hash_exclude_nulls_probe_miss :
    ∃ (L R : List Row) (choice : Nat),
      (∀ a ∈ L, ∀ b ∈ R, eq2 a b = .t → key2 b = key2 a) ∧
      hashJoin true true eq2 2 key2 key2 choice L R ≠ nlJoin true true eq2 2 L R :=
  ⟨wL, wR, 0, by decide, by decide⟩

/-- … and the outcome depends on which bucket the Go map iteration yields: with the other
choice the hash join is right. -/
example : hashJoin true true eq2 2 key2 key2 1 wL wR = nlJoin true true eq2 2 wL wR := by decide

example : HashProbeMiss eq2 key2 key2 wL wR := ⟨[.int 5, .int 7], by decide, [.null, .int 7], by decide, by decide, by decide⟩

/-- The encoding of a row-constructor NOT IN used by the harness: `WHERE NOT EXISTS (SELECT * FROM q
WHERE NOT (e IS FALSE))` keeps a row iff `e` is FALSE on every row of `q` — i.e. iff the disjunction
over the rows of `q` of `e` (the row-constructor IN) is FALSE, i.e. NOT IN is TRUE. -/
theorem tupleNotIn_filter (db : Db) (env : Env) (e : Expr) (q : Query) :
    (evalE db env (.not (.exists (.filter (.not (.isTruth false e)) q)))).truth = .t
      ↔ ∀ r ∈ evalQ db env q, (evalE db (r :: env) e).truth = .f := by
  have hnot : ∀ (env' : Env) (x : Expr), (evalE db env' (.not x)).truth = .t ↔ (evalE db env' x).truth = .f := by
    intro env' x; simp [evalE, truth_toValue, Tri.not_eq_t]
  have hex : ∀ Q : Query, (evalE db env (.exists Q)).truth = .f ↔ evalQ db env Q = [] := by
    intro Q
    simp only [evalE, truth_toValue]
    cases h : evalQ db env Q <;> simp [Tri.ofBool]
  have hisf : ∀ (env' : Env), (evalE db env' (.isTruth false e)).truth = .f ↔ (evalE db env' e).truth ≠ .f := by
    intro env'
    simp only [evalE, truth_toValue]
    cases (evalE db env' e).truth <;> simp [Tri.ofBool] <;> rfl
  rw [hnot, hex]
  simp only [evalQ, List.filter_eq_nil_iff, decide_eq_true_eq]
  constructor
  · intro h r hr
    have := h r hr
    rw [hnot, hisf] at this
    exact Classical.not_not.mp this
  · intro h r hr
    rw [hnot, hisf]
    exact fun hc => hc (h r hr)

/-! ### Finding 2: an inner-join conjunct lost at an outer join -/

/-- What `addPlans` builds for `(e1 ⟕A e2) ⋈(B1 ∧ B2) e3` when B1 mentions e1,e3 and B2 mentions
e2,e3: the plan `(e1 ⋈B1 e3) ⟕A e2` — B2 is collected as a "select filter" and never used. -/
def plannedDropped {α β γ : Type} (mA : α → β → Bool) (mB1 : α → γ → Bool)
    (L : List α) (R2 : List β) (R3 : List γ) : List (α × Option β × Option γ) :=
  (lop .left (fun p y => mA p.1 y) (lop .inner mB1 L R3) R2).map fun q => (q.1.1, q.2, q.1.2)

def original {α β γ : Type} (mA : α → β → Bool) (mB1 : α → γ → Bool) (mB2 : Option β → γ → Bool)
    (L : List α) (R2 : List β) (R3 : List γ) : List (α × Option β × Option γ) :=
  (lop .inner (fun p z => mB1 p.1 z && mB2 p.2 z) (lop .left mA L R2) R3).map fun q => (q.1.1, q.1.2, q.2)

/-- Guarded statement: when the inner join has no conjunct on the LEFT JOIN's right table (B2
trivially true) the plan is a permutation of the original (this is `move_lasscom`). The full
statement (for every `mB2`) is FALSE: `finding_inner_conjunct_lost_at_outer_join`. -/
theorem reorder_left_inner_partial {α β γ : Type} (mA : α → β → Bool) (mB1 : α → γ → Bool)
    (mB2 : Option β → γ → Bool) (h : ∀ y z, mB2 y z = true) (L : List α) (R2 : List β) (R3 : List γ) :
    original mA mB1 mB2 L R2 R3 ~ plannedDropped mA mB1 L R2 R3 := by
  unfold original plannedDropped
  have : (fun (p : α × Option β) z => mB1 p.1 z && mB2 p.2 z) = fun p z => mB1 p.1 z := by
    funext p z; simp [h]
  rw [this]
  exact move_lasscom .left .inner mA mB1 L R2 R3

/-- The corpus witness: `t0 s1 LEFT JOIN t1 s2 ON s2.c1 = s1.c1 INNER JOIN t1 s3 ON s1.c1 = s3.c2
AND s3.c2 <= s2.c2` with t0 = {(1,3)}, t1 = {(3,1,3)}: s2 is NULL-padded, `s3.c2 <= NULL` is not
TRUE, the result is empty; the planned join returns one row. -/
theorem finding_inner_conjunct_lost_at_outer_join :
    ∃ (L : List (Int × Int)) (R2 R3 : List (Int × Int × Int))
      (mA : Int × Int → Int × Int × Int → Bool) (mB1 : Int × Int → Int × Int × Int → Bool)
      (mB2 : Option (Int × Int × Int) → Int × Int × Int → Bool),
      ¬ (original mA mB1 mB2 L R2 R3 ~ plannedDropped mA mB1 L R2 R3) := by
  refine ⟨[(1, 3)], [(3, 1, 3)], [(3, 1, 3)], fun a b => b.2.1 == a.2, fun a c => a.2 == c.2.2,
    fun y c => match y with | some b => decide (c.2.2 ≤ b.2.2) | none => false, ?_⟩
  intro h
  have := h.length_eq
  revert this
  decide

/-! ### Finding 3: merge join with a row-constructor comparer and a NULL key part -/

/-- Three-way comparison of the two-column keys of a merge join over a composite index; `none`
(`ErrNilOperand`) as soon as one part is NULL. -/
def cmp2 (a b : Row) : Option Ordering :=
  match a.getD 0 .null, a.getD 1 .null, b.getD 0 .null, b.getD 1 .null with
  | .null, _, _, _ => none
  | _, .null, _, _ => none
  | _, _, .null, _ => none
  | _, _, _, .null => none
  | a0, a1, b0, b1 => some (match a0.ord b0 with | .eq => a1.ord b1 | o => o)

def mL : List Row := [[.null, .int 1], [.int 2, .int 0], [.int 3, .int 2]]

/-- `mergeJoinIter.msRejectNull` asks whether the LEFT operand of the comparer is nil; for a row
constructor it never is (`leftNull = fun _ => false`), so on the left row (NULL,1) the iterator
advances the right side — to its end. The self join of {(NULL,1),(2,0),(3,2)} on both columns
returns nothing; the SQL definition returns the two non-NULL rows. -/
theorem finding_merge_tuple_null_key :
    ∃ (L R : List Row),
      mergeJoin false cmp2 (fun _ => false) (fun _ _ => true) 2 L R
        ≠ innerJoin (fun a b => cmp2 a b == some .eq) L R :=
  ⟨mL, mL, by decide⟩

/-- With the NULL test on the key parts (what the single-column comparer does) the model returns
the right rows on the same input: the defect is the nil test on the tuple. -/
example : mergeJoin false cmp2 (fun a => (a.getD 0 .null).isNull || (a.getD 1 .null).isNull) (fun _ _ => true) 2 mL mL
    = innerJoin (fun a b => cmp2 a b == some .eq) mL mL := by decide

/-! ### Finding 4: transitive edge derived from NULL-safe equalities -/

/-- The plan with the derived edge: `e1 ⋈(m12 ∧ m13) (e2 ⋈m23 e3)`. -/
def plannedTransitive {α β γ : Type} (m12 : α → β → Bool) (m13 : α → γ → Bool) (m23 : β → γ → Bool)
    (L1 : List α) (L2 : List β) (L3 : List γ) : List (α × β × γ) :=
  ij (fun a q => m12 a q.1 && m13 a q.2) L1 (ij m23 L2 L3)

/-- The query as written: `(e1 ⋈m12 e2) ⋈m13 e3`. -/
def writtenTransitive {α β γ : Type} (m12 : α → β → Bool) (m13 : α → γ → Bool)
    (L1 : List α) (L2 : List β) (L3 : List γ) : List (α × β × γ) :=
  (ij (fun p c => m13 p.1 c) (ij m12 L1 L2) L3).map fun q => (q.1.1, q.1.2, q.2)

theorem plannedTransitive_flat {α β γ : Type} (m12 : α → β → Bool) (m13 : α → γ → Bool) (m23 : β → γ → Bool)
    (L1 : List α) (L2 : List β) (L3 : List γ) :
    plannedTransitive m12 m13 m23 L1 L2 L3
      = L1.flatMap fun a => L2.flatMap fun b => L3.flatMap fun c =>
          if m23 b c && (m12 a b && m13 a c) then [(a, b, c)] else [] := by
  unfold plannedTransitive ij
  apply flatMap_congr'; intro a _
  rw [filter_flatMap', map_flatMap']
  apply flatMap_congr'; intro b _
  induction L3 with
  | nil => rfl
  | cons c L3 ih =>
    by_cases h1 : m23 b c = true <;> by_cases h2 : m12 a b = true <;> by_cases h3 : m13 a c = true <;>
      simp [List.filter_cons, h1, h2, h3, List.flatMap_cons] at ih ⊢ <;> exact ih

theorem writtenTransitive_flat {α β γ : Type} (m12 : α → β → Bool) (m13 : α → γ → Bool)
    (L1 : List α) (L2 : List β) (L3 : List γ) :
    writtenTransitive m12 m13 L1 L2 L3
      = L1.flatMap fun a => L2.flatMap fun b => L3.flatMap fun c =>
          if m12 a b && m13 a c then [(a, b, c)] else [] := by
  unfold writtenTransitive ij
  rw [flatMap_flatMap', map_flatMap']
  apply flatMap_congr'; intro a _
  rw [flatMap_map', map_flatMap', flatMap_filter_eq]
  apply flatMap_congr'; intro b _
  by_cases h2 : m12 a b = true
  · simp only [h2, if_true, Bool.true_and, List.map_map]
    induction L3 with
    | nil => rfl
    | cons c L3 ih => by_cases h3 : m13 a c = true <;> simp [List.filter_cons, h3, List.flatMap_cons] at ih ⊢ <;> exact ih
  · have : m12 a b = false := by simpa using h2
    simp only [this, Bool.false_and, Bool.false_eq_true, if_false, List.map_nil]
    induction L3 with
    | nil => rfl
    | cons c L3 ih => simpa [List.flatMap_cons] using ih

/-- Guarded statement: adding a derived edge is harmless when it is IMPLIED by the given
conditions (true for `=`: a = b ∧ a = c ⇒ b = c). The full statement (for every `m23` the builder
derives) is FALSE for `<=>`: `finding_transitive_edge_from_nullsafe_equality`. -/
theorem transitive_edge_partial {α β γ : Type} (m12 : α → β → Bool) (m13 : α → γ → Bool) (m23 : β → γ → Bool)
    (himp : ∀ a b c, m12 a b = true → m13 a c = true → m23 b c = true)
    (L1 : List α) (L2 : List β) (L3 : List γ) :
    plannedTransitive m12 m13 m23 L1 L2 L3 = writtenTransitive m12 m13 L1 L2 L3 := by
  rw [plannedTransitive_flat, writtenTransitive_flat]
  apply flatMap_congr'; intro a _
  apply flatMap_congr'; intro b _
  apply flatMap_congr'; intro c _
  by_cases h2 : m12 a b = true <;> by_cases h3 : m13 a c = true
  · simp [h2, h3, himp a b c h2 h3]
  · simp [h2, h3]
  · simp [h2, h3]
  · simp [h2, h3]

/-- NULL-safe equality and plain equality as join conditions on nullable integers. -/
def nseqB (a b : Option Int) : Bool := a == b
def eqB (a b : Option Int) : Bool := match a, b with | some x, some y => x == y | _, _ => false

/-- `a <=> b ∧ a <=> c` does not imply `b = c` (all NULL): the written query has the all-NULL row,
the plan with the derived plain-equality edge does not. -/
theorem finding_transitive_edge_from_nullsafe_equality :
    ∃ (L1 L2 L3 : List (Option Int)),
      plannedTransitive nseqB nseqB eqB L1 L2 L3 ≠ writtenTransitive nseqB nseqB L1 L2 L3 :=
  ⟨[none], [none], [none], by decide⟩

/-- Non-vacuity of the guard: plain equalities do imply the derived edge. -/
example : ∀ a b c : Option Int, eqB a b = true → eqB a c = true → eqB b c = true := by
  intro a b c
  cases a <;> cases b <;> cases c <;> simp [eqB]
  intro h1 h2; omega

/-! ## 4. Left outer merge join (residual filters over blocks of equal keys) -/

/-- **Left outer merge join = left outer join**, same row sequence: inputs in index order on a
nullable integer key, the comparer `l.k = r.k`, any residual filters `sel`. Whatever the order of
passing and failing rows of `sel` inside a block of equal right keys, and whatever the previous left
row did, a left row gets its NULL-extended row iff NO row of its block passes (the state
`mergeJoinIter.leftMatched` has to carry exactly that; the driver runs this model on every plain
`LeftOuterMergeJoin(Idx, Idx)` plan and compares it with the engine). -/
theorem phys_merge_left (kl kr : Row → Option Int) (sel : Row → Row → Bool) (rw : Nat) (L R : List Row)
    (hL : SortedBy kl L) (hR : SortedBy kr R) :
    mergeJoin true (mergeCmp kl kr) (fun a => (kl a).isNone) sel rw L R
      = leftJoin (mergeCond kl kr sel) rw L R :=
  mergeGo_eq_leftJoin kl kr sel rw (mergeFuel L R) L R (by simp [mergeFuel]) hL hR

def intKey (i : Nat) (r : Row) : Option Int := match r.getD i .null with | .int v => some v | _ => none

/-- Non-vacuity, on the input class of the stream `mres`: a block of three right rows with key 1 on
which the residual `l.x > r.y` passes, passes and FAILS LAST (pass … fail), one where it fails first,
left rows sharing a key, NULL keys: the left rows (1,5) and (1,6) matched, so they get no NULL row. -/
example :
    mergeJoin true (mergeCmp (intKey 0) (intKey 0)) (fun a => (intKey 0 a).isNone)
      (fun a b => decide ((intKey 1 a).getD 0 > (intKey 1 b).getD 0)) 2
      [[.null, .int 0], [.int 1, .int 5], [.int 1, .int 6], [.int 2, .int 0], [.int 3, .int 1]]
      [[.null, .int 9], [.int 1, .int 3], [.int 1, .int 4], [.int 1, .int 7], [.int 2, .int 5], [.int 2, .int 9]]
    = [[.null, .int 0, .null, .null],
       [.int 1, .int 5, .int 1, .int 3], [.int 1, .int 5, .int 1, .int 4],
       [.int 1, .int 6, .int 1, .int 3], [.int 1, .int 6, .int 1, .int 4],
       [.int 2, .int 0, .null, .null], [.int 3, .int 1, .null, .null]] := by
  decide

/-! ## 5. Join keys whose equality is not byte equality

Text keys under a case/accent-insensitive collation, numeric keys of different column types: two
stored values are `=` iff their NORMAL FORMS (`Gms.PhysKeys.normValue`) are the same value. Plan
independence must hold for them as well: an operator that keys a map / an index / a DISTINCT by the
stored value instead of (a function of) the normal form loses or duplicates rows. -/

section Keys
open Gms.PhysKeys

/-- **Hash join keyed by the normal form = nested-loop join.** -/
theorem phys_hash_normKey (lo : Bool) (n : Value → Value) (i j : Nat) (res : Row → Row → Tri) (rw : Nat)
    (choice : Nat) (L R : List Row) :
    hashJoin lo false (keyedCond n i j res) rw (fun a => n (a.getD i .null)) (fun b => n (b.getD j .null))
        choice L R
      = nlJoin lo false (keyedCond n i j res) rw L R := hashJoin_normKey lo n i j res rw choice L R

/-- … and so is one keyed by any function of the normal form (a lossy hash of the collation
weights, say — `hash.HashOfSimple`). -/
theorem phys_hash_coarserKey {κ : Type} [DecidableEq κ] (lo : Bool) (n : Value → Value) (h : Value → κ)
    (i j : Nat) (res : Row → Row → Tri) (rw : Nat) (choice : Nat) (L R : List Row) :
    hashJoin lo false (keyedCond n i j res) rw (fun a => h (n (a.getD i .null))) (fun b => h (n (b.getD j .null)))
        choice L R
      = nlJoin lo false (keyedCond n i j res) rw L R := hashJoin_coarserKey lo n h i j res rw choice L R

/-- Normal form of a text key under an `_ai_ci` collation / of a numeric key. -/
def ciNorm (v : Value) : Value := (normValue .ci v).getD .null
def numNorm (v : Value) : Value := (normValue .num v).getD .null

/-- 'bob', 'BOB', 'bób' (UTF-8). -/
def sBob : Value := .str [0x62, 0x6F, 0x62]
def sBOB : Value := .str [0x42, 0x4F, 0x42]
def sBob' : Value := .str [0x62, 0xC3, 0xB3, 0x62]
def sX : Value := .str [0x78]

example : ciNorm sBOB = sBob ∧ ciNorm sBob' = sBob := by decide
example : numNorm (.str [0x31, 0x2E, 0x35, 0x30]) = .int 1500 ∧ numNorm (.str [0x2D, 0x30, 0x2E, 0x30]) = .int 0
    ∧ numNorm (.int 1) = numNorm (.str [0x31, 0x2E, 0x30, 0x30, 0x30]) := by decide

def kL1 : List Row := [[.int 1, sBob], [.int 2, sBOB], [.int 3, sBob']]
def kR1 : List Row := [[.int 1, sBob]]

/-- Non-vacuity of `phys_hash_normKey`, and the reason the stream `keq` exists: keyed by the STORED
value (a "strings are comparable map keys anyway" fast path in `HashLookup.GetHashKey`) the hash join
loses every left row spelled differently from its partner — except the first left row, which still
scans the whole right side because the lookup table is published lazily. The hypothesis of
`phys_hash_eq` (TRUE pairs agree on the key) is what fails. -/
theorem hash_key_finer_than_equality_loses_rows :
    hashJoin false false (keyedCond ciNorm 1 1 fun _ _ => .t) 2 (fun a => a.getD 1 .null) (fun b => b.getD 1 .null) 0 kL1 kR1
      = [[.int 1, sBob, .int 1, sBob]]
    ∧ nlJoin false false (keyedCond ciNorm 1 1 fun _ _ => .t) 2 kL1 kR1
      = [[.int 1, sBob, .int 1, sBob], [.int 2, sBOB, .int 1, sBob], [.int 3, sBob', .int 1, sBob]]
    ∧ hashJoin false false (keyedCond ciNorm 1 1 fun _ _ => .t) 2 (fun a => ciNorm (a.getD 1 .null))
        (fun b => ciNorm (b.getD 1 .null)) 0 kL1 kR1
      = nlJoin false false (keyedCond ciNorm 1 1 fun _ _ => .t) 2 kL1 kR1 := by
  decide

/-! ### The fold is the collations' (regenerated weights) -/

def weightOf (tbl : List (Nat × Int)) (r : Nat) : Int := ((tbl.find? (·.1 == r)).map (·.2)).getD 0

/-- For every case-insensitive collation the stream uses, on the stream's alphabet: the table lists
exactly the alphabet, a rune has the weight of its fold, and the base letters have pairwise different
— indeed increasing — weights. (Weights dumped by running the collation's `Sorter`.) -/
theorem facts_fold_weights : ∀ c ∈ Generated.C01.ciWeights,
    c.2.map (·.1) = alphabet
    ∧ (∀ r ∈ alphabet, weightOf c.2 r = weightOf c.2 (foldRune r))
    ∧ (∀ b1 ∈ baseLetters, ∀ b2 ∈ baseLetters, weightOf c.2 b1 = weightOf c.2 b2 → b1 = b2)
    ∧ (∀ b1 ∈ baseLetters, ∀ b2 ∈ baseLetters, b1 < b2 → weightOf c.2 b1 < weightOf c.2 b2) := by
  decide

theorem fold_in_base : ∀ r ∈ alphabet, foldRune r ∈ baseLetters := by decide

/-- Two runes of the alphabet have the same collation weight iff they have the same fold. -/
theorem fold_eq_iff_weight_eq (c : String × List (Nat × Int)) (hc : c ∈ Generated.C01.ciWeights)
    (r1 r2 : Nat) (h1 : r1 ∈ alphabet) (h2 : r2 ∈ alphabet) :
    weightOf c.2 r1 = weightOf c.2 r2 ↔ foldRune r1 = foldRune r2 := by
  obtain ⟨_, hw, hinj, _⟩ := facts_fold_weights c hc
  constructor
  · intro h
    apply hinj _ (fold_in_base r1 h1) _ (fold_in_base r2 h2)
    rw [← hw r1 h1, ← hw r2 h2, h]
  · intro h
    rw [hw r1 h1, hw r2 h2, h]

example : Generated.C01.ciWeights.length = 2 := by decide

/-- `HashLookup.GetHashKey`, run on typed values for every pair of key column types the stream joins:
every pair of values that `expression.Equals` calls equal gets the same map key (the hypothesis of
`phys_hash_eq` on the real key function), and each type pair has such pairs. -/
theorem facts_hash_key_respects_eq :
    Generated.C01.hashKeyBreaks = []
    ∧ (∀ f ∈ Generated.C01.hashKeyFacts, f.2.2.2.1 = f.2.2.2.2 ∧ 0 < f.2.2.2.1)
    ∧ Generated.C01.hashKeyFacts.length = 28 := by
  decide

/-! ### Finding 5: a hash join keyed by a row constructor hashes the parts by their bytes -/

def ciCond2 (a b : Row) : Tri :=
  Tri.and (cmpTri .eq (ciNorm (a.getD 1 .null)) (ciNorm (b.getD 1 .null)))
    (cmpTri .eq (ciNorm (a.getD 2 .null)) (ciNorm (b.getD 2 .null)))

def rawKey2 (r : Row) : Row := [r.getD 1 .null, r.getD 2 .null]
def normKey2 (r : Row) : Row := [ciNorm (r.getD 1 .null), ciNorm (r.getD 2 .null)]

def tL : List Row := [[.int 1, sBob, sX], [.int 2, sBOB, sX], [.int 3, sBob', sX]]
def tR : List Row := [[.int 1, sBob, sX]]

/-- `plan.NewHashLookup` takes `leftKeySch` from the ONE row-constructor expression, so `hash.HashOf`
sees no string type for the parts and hashes their bytes: the model with the raw two-column key.
Guarded statement: `phys_hash_eq` (its hypothesis holds for `normKey2`, fails for `rawKey2`). -/
theorem finding_hash_join_tuple_key_not_by_equality :
    ∃ (L R : List Row), hashJoin false false ciCond2 3 rawKey2 rawKey2 0 L R ≠ nlJoin false false ciCond2 3 L R :=
  ⟨tL, tR, by decide⟩

example : hashJoin false false ciCond2 3 normKey2 normKey2 0 tL tR = nlJoin false false ciCond2 3 tL tR := by decide
example : ∀ a ∈ tL, ∀ b ∈ tR, ciCond2 a b = .t → normKey2 b = normKey2 a := by decide

/-! ### Finding 6: a lookup join rounds the probe key to the index type and drops the equality -/

/-- Guarded statement: dropping the equality conjunct of a lookup join is sound when "the index
returns the row" and "the condition is TRUE" coincide. -/
theorem phys_lookup_dropped_cond_partial {κ : Type} [DecidableEq κ] (lo : Bool) (c : Row → Row → Tri) (rw : Nat)
    (kL kR : Row → κ) (idx : κ → List Row) (L R : List Row)
    (hidx : ∀ k, idx k ~ R.filter (fun r => kR r = k))
    (H : ∀ a ∈ L, ∀ b ∈ R, (c a b = .t ↔ kR b = kL a)) :
    lookupJoin lo (fun _ _ => Tri.t) rw kL idx L ~ nlJoin lo false c rw L R :=
  lookupJoin_dropped_cond_perm lo c rw kL kR idx L R hidx H

/-- Thousandths rounded to a whole number (half away from zero), as the conversion to BIGINT does. -/
def roundK (v : Value) : Value :=
  match v with
  | .int n => .int (if n ≥ 0 then (n + 500) / 1000 * 1000 else -((-n + 500) / 1000 * 1000))
  | v => v

def numEq (a b : Row) : Tri := cmpTri .eq (a.getD 1 .null) (b.getD 1 .null)
def lkL : List Row := [[.int 1, .int 3000], [.int 3, .int 2500]]
def lkR : List Row := [[.int 1, .int 2000], [.int 2, .int 3000]]

/-- t1(c1 DOUBLE) = {3.0, 2.5}, t2(c1 BIGINT UNSIGNED, KEY) = {2, 3} (in thousandths): the lookup
join probes the index with 2.5 converted to 3 and, the equality having been removed as "implied by
the lookup", returns (2.5, 3) as a match. -/
theorem finding_lookup_join_probe_key_rounded :
    ∃ (L R : List Row),
      ¬ (lookupJoin false (fun _ _ => Tri.t) 2 (fun a => roundK (a.getD 1 .null))
            (fun k => R.filter fun b => b.getD 1 .null = k) L ~ nlJoin false false numEq 2 L R) := by
  refine ⟨lkL, lkR, ?_⟩
  intro h
  have := h.length_eq
  revert this
  decide

/-- Non-vacuity of the guard: with the exact key the same lookup join is right. -/
example : lookupJoin false (fun _ _ => Tri.t) 2 (fun a => a.getD 1 .null)
      (fun k => lkR.filter fun b => b.getD 1 .null = k) lkL = nlJoin false false numEq 2 lkL lkR := by decide

/-! ### Finding 7: semi join as inner join over a DISTINCT that is not by key equality -/

/-- Guarded statement: the memo's rewrite `L ⋉ R = π_L (L ⋈ Distinct(R))` is sound when the
de-duplicated right side `D` has, for every left row, a match iff `R` has one, and at most one. The
full statement (for `D` = the rows of `R` distinct AS STORED) is FALSE:
`finding_semi_join_distinct_not_by_key_equality`. -/
theorem semi_as_distinct_inner_partial (m : Row → Row → Bool) (L R D : List Row)
    (hany : ∀ a ∈ L, D.any (m a) = R.any (m a))
    (hone : ∀ a ∈ L, (D.filter (m a)).length ≤ 1) :
    (L.flatMap fun a => (D.filter (m a)).map fun _ => a) = semiJoin m L R :=
  semi_as_inner_over_distinct m L R D hany hone

def ciMatch (a b : Row) : Bool := cmpTri .eq (ciNorm (a.getD 0 .null)) (ciNorm (b.getD 0 .null)) == .t

/-- `plan.Distinct` hashes rows without a schema (C07 `distinct_collation`): 'bob' and 'BOB' both
survive, and the left row 'bób' comes out twice. -/
theorem finding_semi_join_distinct_not_by_key_equality :
    ∃ (L R : List Row),
      (L.flatMap fun a => ((dedup R).filter (ciMatch a)).map fun _ => a) ≠ semiJoin ciMatch L R :=
  ⟨[[sBob']], [[sBob], [sBOB], [sBob]], by decide⟩

/-- Non-vacuity of the guard: de-duplicated by the normal form the rewrite is right on that input. -/
example : ([[sBob']].flatMap fun a => ((dedup ([[sBob], [sBOB], [sBob]].map fun r => r.map ciNorm)).filter (ciMatch a)).map fun _ => a)
    = semiJoin ciMatch [[sBob']] [[sBob], [sBOB], [sBob]] := by decide

/-! ### Finding 8: NOT IN executed as a plain left outer join -/

/-- Guarded statement: `Filter(right IS NULL, LeftOuterJoin)` — i.e. the anti join that treats NULL
like FALSE (`AntiJoinIncludingNulls`, NOT EXISTS) — is the NOT IN anti join when the condition is
never NULL. The full statement is FALSE as soon as a key is NULL: `finding_not_in_as_left_outer_join`. -/
theorem notIn_as_leftOuter_partial (c : Row → Row → Tri) (L R : List Row)
    (h : ∀ a ∈ L, ∀ b ∈ R, c a b ≠ .u) :
    existsJoin true true c L R = existsJoin true false c L R := by
  rw [phys_antiNulls, phys_anti]
  unfold antiJoin
  apply List.filter_congr
  intro a ha
  induction R with
  | nil => rfl
  | cons b R ih =>
    have hb := h a ha b (by simp)
    have ih' := ih (fun a' ha' b' hb' => h a' ha' b' (by simp [hb']))
    simp only [List.all_cons, List.any_cons, Bool.not_or, ih']
    cases hc : c a b <;> simp_all

def keyEq0 (a b : Row) : Tri := cmpTri .eq (a.getD 0 .null) (b.getD 0 .null)

/-- a = {1, NULL, 9}, b = {1, NULL}: `a.k NOT IN (SELECT b.k FROM b)` is never TRUE (b has a NULL);
as `LeftOuterMergeJoin` / `LeftOuterLookupJoin` + `IS NULL` the rows NULL and 9 are returned. -/
theorem finding_not_in_as_left_outer_join :
    ∃ (L R : List Row), existsJoin true false keyEq0 L R ≠ existsJoin true true keyEq0 L R :=
  ⟨[[.int 1], [.null], [.int 9]], [[.int 1], [.null]], by decide⟩

/-! ### Finding 9: one `<=>` conjunct makes the index lookup NULL-safe for every key part -/

/-- Guarded statement: a lookup join that keeps the residual `c'` and is keyed on `kL`/`kR` is the
join on `c` when "`c` is TRUE" means "`c'` is TRUE and the index returns the row". It fails when the
index also returns the rows whose key is NULL for a probe key NULL although `c` demands `=`:
`finding_lookup_join_nullsafe_for_all_key_parts`. -/
theorem phys_lookup_residual_partial {κ : Type} [DecidableEq κ] (lo : Bool) (c c' : Row → Row → Tri) (rw : Nat)
    (kL kR : Row → κ) (idx : κ → List Row) (L R : List Row)
    (hidx : ∀ k, idx k ~ R.filter (fun r => kR r = k))
    (H : ∀ a ∈ L, ∀ b ∈ R, (c a b = .t ↔ (c' a b = .t ∧ kR b = kL a))) :
    lookupJoin lo c' rw kL idx L ~ nlJoin lo false c rw L R :=
  lookupJoin_residual_perm lo c c' rw kL kR idx L R hidx H

def nsCond (a b : Row) : Tri :=
  Tri.and (cmpTri .nseq (a.getD 0 .null) (b.getD 0 .null)) (cmpTri .eq (a.getD 1 .null) (b.getD 1 .null))
def nsL : List Row := [[.int 7, .null], [.int 7, .int 5]]

/-- t(c1, c3) = {(7, NULL), (7, 5)} joined with itself ON c1 <=> c1 AND c3 = c3: the lookup on the
index of c3 is made NULL-safe by the `<=>` conjunct (the index returns the NULL-keyed row for the
probe key NULL) and `c3 = c3` is dropped, so (7, NULL) finds itself. -/
theorem finding_lookup_join_nullsafe_for_all_key_parts :
    ∃ (L R : List Row),
      ¬ (lookupJoin false (fun a b => cmpTri .nseq (a.getD 0 .null) (b.getD 0 .null)) 2 (fun a => a.getD 1 .null)
            (fun k => R.filter fun b => b.getD 1 .null = k) L ~ nlJoin false false nsCond 2 L R) := by
  refine ⟨nsL, nsL, ?_⟩
  intro h
  have := h.length_eq
  revert this
  decide

end Keys

/-! ### Finding 10: an inner-join conjunct lost through a conflict rule (inner-only chains, ≥ 4 tables)

`Gms/Model/JoinConflict.lean` is the Impl model of `edge.calcTES` / `edge.applicable` on left-deep
chains of inner joins (unit correspondence with the real functions: the `jcd` cases of the run).
The builder's `assoc` / `leftAsscom` refuse a move that would "estrange" a relation BEFORE they look
at their tables, so an inner edge gets conflict rules — which the published algorithm never gives
to a pair of inner joins (the table entries are `always`: `inner_cross_entries_always`). A table set
that violates a rule of edge e can still be joined through other edges; e's filter is then put at no
node of that plan. -/

open Gms.JoinConflict in
/-- Inner and cross operators: `checkProperty` allows assoc, l-asscom and r-asscom for every pair
(REGENERATED tables), so on inner-only chains the only source of conflict rules is the estrange
test in front of it. -/
theorem inner_cross_entries_always :
    ∀ t ∈ [Generated.C01.assocTable, Generated.C01.leftAsscomTable, Generated.C01.rightAsscomTable],
      ∀ a ∈ [Kind.cross, Kind.inner], ∀ b ∈ [Kind.cross, Kind.inner], allowed t a b = true := by
  decide

open Gms.JoinConflict in
/-- Guarded statement: in a plan over distinct tables that covers the edge's TES, the conjunct of
the edge is applied at EXACTLY ONE join node whenever the edge's conflict rules hold at the lowest
node covering the TES (in particular whenever the edge has no rules). The full statement (for
every edge and plan) is FALSE: `finding_inner_conjunct_lost_by_conflict_rule`. -/
theorem applied_once_partial (e : Edge) (t : PTree) (hnd : t.verts.Nodup)
    (hcov : subset e.tes t.verts = true) (h2 : ∃ a b, a ∈ e.tes ∧ b ∈ e.tes ∧ a ≠ b)
    (hok : rulesOk e (lowestCover e t).verts = true) : countApplied e t = 1 := by
  rw [applied_count e t hnd hcov h2, if_pos hok]

open Gms.JoinConflict in
/-- … and it is applied NOWHERE iff a rule is violated there: the region of the finding is exactly
"a conflict rule of the conjunct's edge fails at the node where its tables first meet". -/
theorem lost_iff_rule_violated (e : Edge) (t : PTree) (hnd : t.verts.Nodup)
    (hcov : subset e.tes t.verts = true) (h2 : ∃ a b, a ∈ e.tes ∧ b ∈ e.tes ∧ a ≠ b) :
    countApplied e t = 0 ↔ rulesOk e (lowestCover e t).verts = false := by
  rw [applied_count e t hnd hcov h2]
  cases rulesOk e (lowestCover e t).verts <;> simp

open Gms.JoinConflict in
theorem applied_once_of_no_rules (e : Edge) (t : PTree) (hnd : t.verts.Nodup)
    (hcov : subset e.tes t.verts = true) (h2 : ∃ a b, a ∈ e.tes ∧ b ∈ e.tes ∧ a ≠ b)
    (hr : e.rules = []) : countApplied e t = 1 :=
  applied_once_partial e t hnd hcov h2 (rulesOk_nil e hr _)

namespace Conflict
open Gms.JoinConflict

/-- The corpus witness: `s1 ⋈ s2 ON s2=s1 ⋈ s3 ON s2=s3 ⋈ s4 ON s3=s4 AND s4>s1`; SESs of the conjuncts. -/
def wOns : List (List VSet) := [[[0, 1]], [[1, 2]], [[2, 3], [0, 3]]]
/-- The default plan `LookupJoin(InnerJoin(s4, InnerJoin(s3, s1)), s2)`. -/
def wPlan : PTree := .node (.node (.leaf 3) (.node (.leaf 2) (.leaf 0))) (.leaf 1)
/-- The plan in syntactic order. -/
def wPlanFwd : PTree := .node (.node (.node (.leaf 0) (.leaf 1)) (.leaf 2)) (.leaf 3)

/-- The edge of `s4 > s1` carries the rule {s3} → {s2}. -/
example : (buildEdges wOns).map (·.rules) = [[], [], [], [⟨[2], [1]⟩]] := by decide
/-- The default plan applies the three equalities once and `s4 > s1` nowhere; the plan in syntactic
order applies every conjunct once. -/
example : (buildEdges wOns).map (countApplied · wPlan) = [1, 1, 1, 0] := by decide
example : (buildEdges wOns).map (countApplied · wPlanFwd) = [1, 1, 1, 1] := by decide
/-- Chains of up to three tables get no rules (samples; the mechanism needs four tables). -/
example : ∀ e ∈ buildEdges [[[0, 1], [0, 1]], [[1, 2], [0, 2], [0, 1, 2], [0, 1]]], e.rules = [] := by decide
example : ∀ e ∈ buildEdges [[], [[0, 2], [1, 2]]], e.rules = [] := by decide

/-- What the default plan computes (the conjunct `p14` is in no filter list; `m13` is the edge
derived from the equalities) … -/
def plannedLost {α : Type} (m12 m23 m34 m13 : α → α → Bool) (L1 L2 L3 L4 : List α) : List (α × α × α × α) :=
  (ij (fun (q : α × α × α) b => m12 q.2.2 b && m23 b q.2.1)
      (ij (fun d (q : α × α) => m34 q.1 d) L4 (ij (fun c a => m13 a c) L3 L1)) L2).map
    fun x => (x.1.2.2, x.2, x.1.2.1, x.1.1)

/-- … and the query as written. -/
def written {α : Type} (m12 m23 m34 p14 : α → α → Bool) (L1 L2 L3 L4 : List α) : List (α × α × α × α) :=
  (ij (fun (q : (α × α) × α) d => m34 q.2 d && p14 q.1.1 d)
      (ij (fun (q : α × α) c => m23 q.2 c) (ij m12 L1 L2) L3) L4).map
    fun x => (x.1.1.1, x.1.1.2, x.1.2, x.2)

end Conflict

open Gms.JoinConflict Conflict in
/-- The witness: the model of the conflict detection applies the conjunct `s4.c0 > s1.c0` at no node
of the default plan although the plan covers its tables (so `applied_once_partial` without its guard
is false), and on t1 = {0}, t0 = {-2, 4, -1, 0} the plan without the conjunct returns (0,0,0,0)
while the query as written returns nothing. -/
theorem finding_inner_conjunct_lost_by_conflict_rule :
    (∃ (e : Edge) (t : PTree), e ∈ buildEdges wOns ∧ t.verts.Nodup ∧ subset e.tes t.verts = true ∧
        (∃ a b, a ∈ e.tes ∧ b ∈ e.tes ∧ a ≠ b) ∧ countApplied e t = 0) ∧
    (∃ (L1 L2 L3 L4 : List Int),
        plannedLost (· == ·) (· == ·) (· == ·) (· == ·) L1 L2 L3 L4
          ≠ written (· == ·) (· == ·) (· == ·) (fun a d => decide (d > a)) L1 L2 L3 L4) := by
  refine ⟨⟨⟨3, [0, 3], [0, 3], [⟨[2], [1]⟩]⟩, wPlan, by decide, by decide, by decide,
    ⟨0, 3, by decide, by decide, by decide⟩, by decide⟩, ⟨[0], [-2, 4, -1, 0], [0], [0], by decide⟩⟩

/-! ### Finding 11: a LEFT JOIN replaced by an inner join on a derived edge

`ensureClosure` derives from the equalities above a LEFT JOIN (`s4 = s2 AND s3 = s4`) the edge
`s2 = s3` between the LEFT JOIN's two sides, registers it as an INNER edge of the LEFT JOIN's
operator, and `addPlans` then joins the two sides as an inner join on that edge alone — the LEFT
JOIN's own ON is in no filter list (the comment in `addPlans`: "transitive closure can accidentally
replace nonInner op with inner op"). -/

/-- The query as written: `(L ⟕ON R)` filtered by the condition `up` of the operators above. -/
def writtenLeft {α β : Type} (mON : α → β → Bool) (up : α → Option β → Bool) (L : List α) (R : List β) :
    List (α × Option β) :=
  (lop .left mON L R).filter fun p => up p.1 p.2

/-- The plan: the inner join on the derived edge `m'`. -/
def plannedInner {α β : Type} (m' : α → β → Bool) (L : List α) (R : List β) : List (α × Option β) :=
  lop .inner m' L R

theorem filter_and' {β : Type} (p q : β → Bool) (R : List β) :
    R.filter (fun b => p b && q b) = (R.filter p).filter q := by
  induction R with
  | nil => rfl
  | cons b R ih => cases hp : p b <;> cases hq : q b <;> simp [List.filter_cons, hp, hq, ih]

theorem filter_map_pair {α β : Type} (a : α) (up : α → Option β → Bool) (F : List β) :
    (((F.map some).map fun y => (a, y)).filter fun p => up p.1 p.2)
      = ((F.filter fun b => up a (some b)).map some).map fun y => (a, y) := by
  induction F with
  | nil => rfl
  | cons b F ih => cases h : up a (some b) <;> simp [List.filter_cons, h] at ih ⊢ <;> exact ih

/-- Guarded statement: the replacement is right when the conditions above reject the NULL-padded
rows AND the derived edge also enforces the LEFT JOIN's ON. The builder checks neither; the full
statement is FALSE: `finding_left_join_replaced_by_inner_join`. -/
theorem left_replaced_by_inner_partial {α β : Type} (mON m' : α → β → Bool) (up : α → Option β → Bool)
    (hnull : ∀ a, up a none = false) (hon : ∀ a b, (mON a b && up a (some b)) = m' a b)
    (L : List α) (R : List β) : writtenLeft mON up L R = plannedInner m' L R := by
  unfold writtenLeft plannedInner lop
  rw [filter_flatMap']
  apply flatMap_congr'; intro a _
  have hm : (fun b => m' a b) = fun b => (mON a b && up a (some b)) := by funext b; rw [hon]
  show _ = ((Shape.inner.ext (R.filter (m' a))).map fun y => (a, y))
  rw [show R.filter (m' a) = R.filter (fun b => m' a b) from rfl, hm, filter_and']
  simp only [Shape.ext]
  by_cases he : (R.filter (mON a)).isEmpty = true
  · have hnil : R.filter (mON a) = [] := List.isEmpty_iff.mp he
    simp [he, hnull, hnil]
  · simp only [he]
    exact filter_map_pair a up _

/-- Non-vacuity of the guard, and the witness: `t0 s2 LEFT JOIN t1 s3 ON s2.c0 <=> s3.c0 AND
s3.c0 > s3.c0 … INNER JOIN t0 s4 ON s4.c0 = s2.c0 AND s3.c0 = s4.c0` on s2 = {-1}, s3 = {-1}: the
ON is never true, every s2 row is NULL-padded and rejected above; the inner join on the derived
`s2.c0 = s3.c0` returns (-1,-1). -/
example : ∀ a b : Int, ((a == b) && (match some b with | some y => a == y | none => false)) = (a == b) := by
  intro a b; simp

theorem finding_left_join_replaced_by_inner_join :
    ∃ (L R : List Int) (mON m' : Int → Int → Bool) (up : Int → Option Int → Bool),
      (∀ a, up a none = false) ∧ writtenLeft mON up L R ≠ plannedInner m' L R :=
  ⟨[-1], [-1], fun a b => a == b && decide (b > b), fun a b => a == b,
    fun a y => match y with | some b => a == b | none => false, fun _ => rfl, by decide⟩

/-! ## 6. Regenerated facts -/

/-- The `lookupTableEntry` constants the model uses are the ones of the source. -/
theorem entryBits_match :
    Generated.C01.entryBits = [eNever, eAlways, eFilterA, eFilterB, eRejectsOnLeftA, eRejectsOnRightA, eRejectsOnRightB] := by
  decide

/-- Flag positions in `Generated.C01.joinTypes`. -/
def flag (e : String × Nat × List Bool) (i : Nat) : Bool := e.2.2.getD i false
def fCommute := 0
def fExcl := 1
def fLeftOuter := 2
def fSemi := 3
def fAnti := 4
def fPartial := 5
def fHash := 6
def fMerge := 7
def fLookup := 8
def fCross := 9
def fRange := 10
def fLateral := 11
def fFull := 12
def fPlaceholder := 13

def predFlag : String → Option Nat
  | "IsFullOuter" => some fFull | "IsPartial" => some fPartial | "IsCross" => some fCross
  | "IsPlaceholder" => some fPlaceholder | "IsMerge" => some fMerge | "IsLateral" => some fLateral
  | "IsRange" => some fRange | _ => none

/-- The iterator `buildJoinNode` picks for a join type, computed from the regenerated dispatch
order and the regenerated predicate table. -/
def iterOf (e : String × Nat × List Bool) : List (String × String) → String
  | [] => "none"
  | (p, target) :: rest =>
    if p == "default" then target
    else match predFlag p with
      | some i => if flag e i then target else iterOf e rest
      | none => "unknown-predicate"

def iterTable : List (String × String) :=
  Generated.C01.joinTypes.map fun e => (e.1, iterOf e Generated.C01.iterDispatch)

/-- The iterator models of `Gms/Model/Phys.lean` are the ones the engine runs for each physical
join type: `joinIter` (`nlScanRow`) for inner/left/lookup/hash joins, `existsIter`
(`existsScanRow`) for every semi/anti variant that `IsPartial` knows, `mergeJoinIter` for merge
joins. -/
theorem iter_dispatch_match :
    iterTable.filter (fun p => p.1 ∈ ["InnerJoin", "LeftOuterJoin", "LeftOuterJoinExcludingNulls", "LookupJoin",
        "LeftOuterLookupJoin", "HashJoin", "LeftOuterHashJoin", "LeftOuterHashJoinExcludingNulls", "SemiJoin", "AntiJoin",
        "AntiJoinIncludingNulls", "SemiHashJoin", "AntiHashJoin", "AntiHashJoinIncludingNulls", "SemiLookupJoin",
        "AntiLookupJoin", "AntiLookupIncludingNulls", "MergeJoin", "LeftOuterMergeJoin", "CrossJoin", "FullOuterJoin"])
      = [("CrossJoin", "newCrossJoinIter"), ("InnerJoin", "newJoinIter"), ("SemiJoin", "newExistsIter"),
         ("AntiJoin", "newExistsIter"), ("AntiJoinIncludingNulls", "newExistsIter"), ("LeftOuterJoin", "newJoinIter"),
         ("LeftOuterJoinExcludingNulls", "newJoinIter"), ("FullOuterJoin", "newFullJoinIter"), ("LookupJoin", "newJoinIter"),
         ("LeftOuterLookupJoin", "newJoinIter"), ("HashJoin", "newJoinIter"), ("LeftOuterHashJoin", "newJoinIter"),
         ("LeftOuterHashJoinExcludingNulls", "newJoinIter"), ("MergeJoin", "newMergeJoinIter"),
         ("LeftOuterMergeJoin", "newMergeJoinIter"), ("SemiHashJoin", "newExistsIter"), ("AntiHashJoin", "newExistsIter"),
         ("AntiHashJoinIncludingNulls", "newExistsIter"), ("SemiLookupJoin", "newExistsIter"),
         ("AntiLookupJoin", "newExistsIter"), ("AntiLookupIncludingNulls", "newExistsIter")] := by
  decide

/-- Which join types exclude NULLs, which are left outer, semi, anti (the mode flags the iterator
models are instantiated with). -/
theorem mode_flags_match :
    (Generated.C01.joinTypes.filter fun e => flag e fExcl).map (·.1)
        = ["AntiJoin", "LeftOuterJoinExcludingNulls", "LeftOuterHashJoinExcludingNulls", "AntiHashJoin", "AntiLookupJoin", "AntiMergeJoin"]
    ∧ (Generated.C01.joinTypes.filter fun e => flag e fLeftOuter).map (·.1)
        = ["LeftOuterJoin", "LeftOuterJoinExcludingNulls", "LeftOuterLookupJoin", "LeftOuterHashJoin",
           "LeftOuterHashJoinExcludingNulls", "LeftOuterMergeJoin", "LeftOuterRangeHeapJoin"]
    ∧ (Generated.C01.joinTypes.filter fun e => flag e fSemi).map (·.1)
        = ["SemiJoin", "SemiHashJoin", "SemiLookupJoin", "SemiMergeJoin"]
    ∧ (Generated.C01.joinTypes.filter fun e => flag e fAnti).map (·.1)
        = ["AntiJoin", "AntiJoinIncludingNulls", "AntiHashJoin", "AntiHashJoinIncludingNulls", "AntiLookupJoin",
           "AntiLookupIncludingNulls", "AntiMergeJoin", "AntiMergeIncludingNulls"] := by
  decide

/-- `getOpIdx` maps the logical join types to the table rows the model's `Kind.idx` uses, and only
inner and cross joins commute. -/
theorem opIdx_match :
    (Generated.C01.joinTypes.filter fun e => e.2.1 < 8).map (fun e => (e.1, e.2.1))
        = [("CrossJoin", Kind.cross.idx), ("InnerJoin", Kind.inner.idx), ("SemiJoin", Kind.semi.idx),
           ("AntiJoin", Kind.anti.idx), ("AntiJoinIncludingNulls", Kind.anti.idx), ("LeftOuterJoin", Kind.left.idx),
           ("FullOuterJoin", Kind.full.idx), ("GroupByJoin", Kind.group.idx), ("LateralCrossJoin", Kind.lateral.idx),
           ("LateralInnerJoin", Kind.lateral.idx), ("LateralLeftJoin", Kind.lateral.idx), ("LateralLeftJoin", Kind.lateral.idx)]
    ∧ (Generated.C01.joinTypes.filter fun e => flag e fCommute).map (·.1) = ["CrossJoin", "InnerJoin"] := by
  decide

/-- The remaining scalar facts: the null-rejection sets are never written, the group-by join kind
is only declared and indexed, and every hint the harness uses exists. -/
theorem facts_match :
    Generated.C01.nullRejectedRelsWrites = 0 ∧ Generated.C01.groupByJoinMentions = 3 ∧
    (∀ h ∈ ["join_order", "merge_join", "lookup_join", "hash_join", "inner_join", "semi_join", "anti_join",
            "left_outer_lookup_join", "left_deep", "no_merge_join"], h ∈ Generated.C01.hintNames) := by
  decide

end Gms.C01
