/-
C03 — Index lookups return exactly the rows a full scan would.

What is proved here is the filter → range part of the property (sql/index_builder.go) and the
range → filter part of the in-memory backend (expression.NewRangeFilterExpr), over the range model
of C46: a key tuple lies in the ranges the builder produces iff every leaf predicate is TRUE on
it, for all literals (integer, decimal, out of the column type's range), and the backend's filter
expression is TRUE exactly on the members of a range. Between the two sits the analyzer
(sql/analyzer/costed_index_scan.go): AND / OR trees of leaves go through `rangeBuildAnd` (OR groups
intersected with `MySQLRangeCollection.Intersect`, a nil collection as the "nothing applied yet"
sentinel), `rangeBuildOr` and `buildRangeCollection`; `scan_sound_complete` says the resulting
collection is never nil and holds exactly the key tuples on which the filter is TRUE. The
engine-level statement (same WHERE on an indexed table and on an index-free copy) is the property
oracle of harness/cmd/c03.
Helper lemmas: Gms/Lemmas/IndexBuilder.lean, Gms/Lemmas/IndexScan.lean, Gms/Lemmas/RangeSimplify.lean.
-/
import Gms.Lemmas.IndexBuilder
import Gms.Lemmas.IndexScan
import Gms.Props.C46
import Gms.Generated.C03

namespace Gms.C03
open Gms.Range Gms.IndexBuilder Gms.IndexScan

/-! ## Regenerated facts -/

/-- `rangeBuildDefaultLeaf` maps every `IndexScanOp` to the builder call the model's `Pred`
constructors stand for (`NullSafeEq` is `IsNull` or `Equals`, depending on the literal). -/
theorem facts_match_scanOps :
    Gms.Generated.C03.scanOpSwitch =
      [("Eq", ["Equals"]), ("NotEq", ["NotEquals"]), ("InSet", ["In"]), ("NotInSet", ["NotIn"]),
       ("Gt", ["GreaterThan"]), ("Gte", ["GreaterOrEqual"]), ("Lt", ["LessThan"]), ("Lte", ["LessOrEqual"]),
       ("IsNotNull", ["IsNotNull"]), ("IsNull", ["IsNull"]), ("NullSafeEq", ["IsNull", "Equals"])] := by
  decide

/-- The four bound builders: which rounding they apply to the key and which column range they
build for an overflowing / underflowing / in-range key — the tables `potGreaterThan`,
`potGreaterOrEqual`, `potLessThan`, `potLessOrEqual` transliterate. -/
theorem facts_match_bounds :
    Gms.Generated.C03.boundSwitch =
      [("GreaterThan", "floor", ["Empty"], ["NotNull"], ["GreaterThan"]),
       ("GreaterOrEqual", "floor", ["Empty"], ["NotNull"], ["GreaterThan", "GreaterOrEqual"]),
       ("LessThan", "ceil", ["NotNull"], ["Empty"], ["LessThan"]),
       ("LessOrEqual", "ceil", ["NotNull"], ["Empty"], ["LessThan", "LessOrEqual"])] := by
  decide

def kindCut (k : Nat) : Cut :=
  match k with
  | 0 => .belowNull | 1 => .aboveNull | 2 => .below 1 | 3 => .above 1 | _ => .aboveAll

def rtName : RangeType → String
  | .invalid => "Invalid" | .empty => "Empty" | .all => "All" | .greaterThan => "GreaterThan"
  | .greaterOrEqual => "GreaterOrEqual" | .lessThanOrNull => "LessThanOrNull"
  | .lessOrEqualOrNull => "LessOrEqualOrNull" | .closedClosed => "ClosedClosed" | .openOpen => "OpenOpen"
  | .openClosed => "OpenClosed" | .closedOpen => "ClosedOpen" | .equalNull => "EqualNull"

/-- The real `MySQLRangeColumnExpr.Type()` on all 25 pairs of cut kinds (dumped from the compiled
code on this run) is the model's `rangeType`. -/
theorem facts_match_rangeType :
    Gms.Generated.C03.rangeTypeTable.length = 25 ∧
    ∀ e ∈ Gms.Generated.C03.rangeTypeTable, rtName (rangeType ⟨kindCut e.1, kindCut e.2.1⟩) = e.2.2 := by
  decide

/-- `rangeBuildAnd` uses the nil collection as its sentinel exactly as `Gms.IndexScan.andStep` /
`rangeBuildAnd` transliterate: an OR group with nil ranges is skipped, the first non-nil group
initialises `ret`, and `ret == nil` after the loop means "no OR group": the leaf conjunction alone.
There is no other nil test on `ret` (none is needed: `intersect_sound_never_nil`). -/
theorem facts_match_andSentinel :
    Gms.Generated.C03.andNilTests =
      [("ranges == nil", "continue"), ("ret == nil", "ret = ranges; continue"),
       ("ret == nil", "return partBuilder.Ranges(b.ctx), nil")] := by
  decide

def decCut (c : Nat × Int) : Cut :=
  match c.1 with
  | 0 => .belowNull | 1 => .aboveNull | 2 => .below c.2 | 3 => .above c.2 | _ => .aboveAll

def decColl (rs : List (List ((Nat × Int) × (Nat × Int)))) : List Range :=
  rs.map (fun r => r.map (fun c => ⟨decCut c.1, decCut c.2⟩))

/-- The real `MySQLRangeCollection.Intersect` on the 36 pairs of a grid of one-column collections
(mutually exclusive, overlapping, nested, with NULL, empty; dumped from the compiled code on this
run) never returns nil and is the model's `collectionIntersect` over the plain-set tree. -/
theorem facts_match_intersect :
    Gms.Generated.C03.intersectTable.length = 36 ∧
    ∀ e ∈ Gms.Generated.C03.intersectTable,
      e.2.2.1 = false ∧ collectionIntersect listTree 40 (decColl e.1) (decColl e.2.1) = .ok (decColl e.2.2.2) := by
  decide

/-! ## Literal rounding -/

/-- The rounding rules behind the builder: for an integer `x` and a literal `q = num/den`,
`x > q ↔ x > ⌊q⌋`, `x ≤ q ↔ x ≤ ⌊q⌋`, `x < q ↔ x < ⌈q⌉`, `x ≥ q ↔ x ≥ ⌈q⌉`, `x = q` only for whole `q`;
`⌈q⌉` is `⌊q⌋` or `⌊q⌋ + 1`. -/
theorem rounding (k : Lit) (x : Int) :
    (k.num < x * k.den ↔ k.floor < x) ∧ (x * k.den ≤ k.num ↔ x ≤ k.floor)
    ∧ (x * k.den < k.num ↔ x < k.ceil) ∧ (k.num ≤ x * k.den ↔ k.ceil ≤ x)
    ∧ (x * k.den = k.num ↔ (k.integral = true ∧ x = k.floor))
    ∧ k.ceil = (if k.integral then k.floor else k.floor + 1) :=
  ⟨gt_iff k x, le_iff k x, lt_iff k x, ge_iff k x, eq_iff k x, ceil_eq k⟩

example : (Lit.dec 25 1).floor = 2 ∧ (Lit.dec 25 1).ceil = 3 ∧ (Lit.dec (-25) 1).floor = -3
    ∧ (Lit.dec (-25) 1).ceil = -2 ∧ (Lit.dec 20 1).integral = true ∧ (Lit.dec 25 1).integral = false := by
  decide

/-! ## Leaves -/

/-- **Leaf theorem.** For every comparison operator, every literal (integer, decimal, inside or
outside the column type's range) and every column value `x` (NULL or a key of the column type):
`x` lies in the ranges a single builder call produces iff the predicate is TRUE on `x`.
This is where inclusivity, rounding (`x > 2.5 ↔ x > 2`, `x >= 2.5 ↔ x > 2`, `x < 2.5 ↔ x < 3`,
`x = 2.5 ↔ False`) and Overflow/Underflow handling live. -/
theorem leaf_sound_complete (t : IntType) (p : Pred) (hwf : p.WF) (x : Option Int) (hx : InType t x) :
    memAny (ranges (apply t (B.new 1) 0 p)) [pt x] = p.holds x := by
  have h := apply_sat t (B.new 1) 0 p [x] (by simp [B.new]) (by simpa using hx) hwf
  have hn : (apply t (B.new 1) 0 p).cols ≠ [] := by
    intro e; have := h.2; rw [e] at this; simp [B.new] at this
  have := ranges_sat (apply t (B.new 1) 0 p) [pt x] hn (by simp)
  rw [this]
  have h1 := h.1
  simp only [List.map_cons, List.map_nil] at h1
  rw [h1]
  simp [B.sat, B.new, colsSat, anyMem, mem_all]

example : ranges (apply ⟨-128, 127⟩ (B.new 1) 0 (.gt (.dec 25 1))) = [[ColRange.greaterThan 2]]
    ∧ ranges (apply ⟨-128, 127⟩ (B.new 1) 0 (.ge (.dec 25 1))) = [[ColRange.greaterThan 2]]
    ∧ ranges (apply ⟨-128, 127⟩ (B.new 1) 0 (.lt (.dec 25 1))) = [[ColRange.lessThan 3]]
    ∧ ranges (apply ⟨-128, 127⟩ (B.new 1) 0 (.eq [.dec 25 1])) = [[ColRange.empty]]
    ∧ ranges (apply ⟨-128, 127⟩ (B.new 1) 0 (.gt (.int 300))) = [[ColRange.empty]]
    ∧ ranges (apply ⟨-128, 127⟩ (B.new 1) 0 (.lt (.int 300))) = [[ColRange.notNull]]
    ∧ ranges (apply ⟨-128, 127⟩ (B.new 1) 0 (.neq (.int 5))) = [[ColRange.greaterThan 5], [ColRange.lessThan 5]] := by
  decide

/-! ## Conjunctions over an n-column index -/

/-- **Builder theorem (AND).** For an index of `n ≥ 1` integer columns and any sequence of leaf
predicates on its columns (any length, any literals): a key tuple (NULLs allowed) lies in the
ranges `MySQLIndexBuilder.Ranges` returns iff every predicate is TRUE on it — whether the builder
ended valid or "invalid" (impossible combination ⇒ the all-empty range). -/
theorem build_sound_complete (t : IntType) (n : Nat) (hn : 0 < n) (ops : List (Nat × Pred))
    (hops : ∀ op ∈ ops, op.1 < n ∧ op.2.WF) (v : List (Option Int)) (hv : v.length = n)
    (hty : ∀ x ∈ v, InType t x) :
    memAny (ranges (build t n ops)) (v.map pt) = ops.all (fun op => op.2.holds (v[op.1]?.getD none)) := by
  unfold build
  have hlen : (B.new n).cols.length = n := by simp [B.new]
  obtain ⟨f1, f2⟩ := build_fold_sat t v hty ops (B.new n) (fun op ho => by rw [hlen]; exact hops op ho)
  have hlen2 : (ops.foldl (fun b op => apply t b op.1 op.2) (B.new n)).cols.length = n := by rw [f2, hlen]
  have hne : (ops.foldl (fun b op => apply t b op.1 op.2) (B.new n)).cols ≠ [] := by
    intro e; rw [e] at hlen2; simp at hlen2; omega
  have hw : v.map pt ≠ [] := by
    intro e; have := congrArg List.length e; simp only [List.length_map, List.length_nil] at this; omega
  rw [ranges_sat _ _ hne hw, f1]
  have : (B.new n).sat (v.map pt) = true := by
    simp only [B.sat, B.new, Bool.not_false, Bool.true_and]
    exact colsSat_new n (v.map pt) (by simp [hv])
  rw [this, Bool.true_and]

/-- Non-vacuity: a 2-column conjunction with a fractional bound, an out-of-range bound and a
`<>`; two ranges come out (in the odometer's order). -/
example : ranges (build ⟨-128, 127⟩ 2 [(0, .ge (.dec 25 1)), (1, .neq (.int 0)), (0, .le (.int 300))]) =
    [[ColRange.greaterThan 2, ColRange.greaterThan 0], [ColRange.greaterThan 2, ColRange.lessThan 0]] := by
  decide

/-- `x < 1 AND x > 1` makes the builder invalid; the result is the all-empty range. -/
example : ranges (build ⟨-128, 127⟩ 2 [(0, .lt (.int 1)), (0, .gt (.int 1))]) = [[ColRange.empty, ColRange.empty]] := by
  decide

/-! ## Disjunctions: union + `RemoveOverlappingRanges` (C46) -/

/-- **OR.** `rangeBuildOr` concatenates the ranges of its children and `buildRangeCollection`
passes them through `RemoveOverlappingRanges`: for every set-like tree, a non-error result
contains exactly the key tuples of either side (corollary of `Gms.C46.removeOverlapping_preserves`). -/
theorem or_sound_complete {T : Type} (ops : TreeOps T) (content : T → List Range)
    (hts : Gms.C46.TreeSet ops content) (fuel : Nat) (xs ys coll : List Range)
    (hx : ∀ r ∈ xs, Range.NonInv r) (hy : ∀ r ∈ ys, Range.NonInv r)
    (h : removeOverlappingRanges ops fuel (xs ++ ys) = .ok coll) (v : Tuple) (hv : v ≠ []) :
    memAny coll v = (memAny xs v || memAny ys v) := by
  have := (Gms.C46.removeOverlapping_preserves ops content hts fuel (xs ++ ys) coll
    (fun r hr => by rcases List.mem_append.mp hr with h' | h'; exact hx r h'; exact hy r h') h).1 v hv
  rw [this, memAny_append]

/-! ## The backend: range → filter expression -/

/-- A range with an inhabitant always has a valid `RangeType` (the `Invalid` classification only
hits ranges that `IsEmpty` reports empty), so `NewRangeFilterExpr` builds an expression for it. -/
theorem rangeType_invalid_isEmpty (r : ColRange) (h : rangeType r = .invalid) : r.isEmpty = true := by
  obtain ⟨lo, hi⟩ := r
  cases lo <;> cases hi <;> simp [rangeType] at h <;> simp [ColRange.isEmpty, Cut.compare]

/-- **Filter theorem.** The boolean expression `NewRangeFilterExpr` builds for a column range with
a valid type is TRUE on a column value (NULL included) exactly when the value is a member of the
range — so filtering rows by it returns the rows whose key the range denotes. -/
theorem rangeFilterExpr_eq_mem (r : ColRange) (x : Option Int) (hn : r.NonInv) (ht : rangeType r ≠ .invalid) :
    filterHolds r x = some (r.mem (pt x)) := by
  obtain ⟨lo, hi⟩ := r
  cases lo <;> cases hi <;> simp [rangeType] at ht <;> cases x <;>
    simp [filterHolds, rangeType, cutKey, ColRange.mem, pt, Cut.isBelow, keyPt, ColRange.NonInv, Cut.compare, cmpKey] at hn ⊢ <;>
    (try (apply Bool.eq_iff_iff.mpr)) <;> (try simp) <;> (try omega)

/-! ## The analyzer side: filter tree → range collection

`costed_index_scan.go`: `rangeBuildAnd` (loop over the OR groups with a nil collection as the
"nothing applied yet" sentinel, `MySQLRangeCollection.Intersect`, intersection with the leaf
conjunction), `rangeBuildOr` (concatenation), `buildRangeCollection` (`RemoveOverlappingRanges` of
the root). Model: Gms/Model/IndexScan.lean; lemmas: Gms/Lemmas/IndexScan.lean. -/

/-- **`MySQLRangeCollection.Intersect` never returns the nil collection** and denotes the
intersection: for non-nil well-formed collections of an index of `n ≥ 1` columns, over every
set-like tree, a non-error result is non-nil, well-formed, and contains exactly the key tuples of
both sides. When the two sides have nothing in common the result is the single all-empty range
(next `example`) — `rangeBuildAnd` relies on this: it uses `ret == nil` for "no OR group applied yet". -/
theorem intersect_sound_never_nil {T : Type} (ops : TreeOps T) (content : T → List Range)
    (hts : Gms.C46.TreeSet ops content) (n : Nat) (hn : 0 < n) (fuel : Nat) (xs ys coll : List Range)
    (hx : Good n xs) (hy : Good n ys) (h : collectionIntersect ops fuel xs ys = .ok coll) :
    coll ≠ [] ∧ Good n coll ∧ ∀ v : Tuple, v ≠ [] → memAny coll v = (memAny xs v && memAny ys v) :=
  have := collectionIntersect_sound ops content hts n hn fuel xs ys coll hx hy h
  ⟨this.1.ne, this.1, this.2⟩

/-- Disjoint collections: `{[1,1],[2,2]} ∩ {[5,5],[6,6]}` is the one all-empty range, not nil;
overlapping ones: `{[1,3]} ∩ {[2,5],[7,9]} = {[2,3]}`. -/
example : collectionIntersect listTree 20 [[ColRange.closed 1 1], [ColRange.closed 2 2]]
      [[ColRange.closed 5 5], [ColRange.closed 6 6]] = .ok [[ColRange.empty]]
    ∧ collectionIntersect listTree 20 [[ColRange.closed 1 3]] [[ColRange.closed 2 5], [ColRange.closed 7 9]]
      = .ok [[ColRange.closed 2 3]] := by
  decide

/-- **`rangeBuildAnd`.** The OR groups' ranges (each nil = not in the scan, or well-formed) folded
with the nil sentinel and `Intersect`, then intersected with the leaf conjunction's ranges: a
non-error result is non-nil and well-formed, and a key tuple lies in it iff it lies in the ranges of
every OR group that is in the scan and in the ranges of the leaf conjunction. -/
theorem and_sound_complete {T : Type} (ops : TreeOps T) (content : T → List Range)
    (hts : Gms.C46.TreeSet ops content) (n : Nat) (hn : 0 < n) (fuel : Nat)
    (ors : List (List Range)) (part coll : List Range)
    (hors : ∀ x ∈ ors, x = [] ∨ Good n x) (hp : Good n part)
    (h : rangeBuildAnd ops fuel (ors.map Res.ok) part = .ok coll) :
    Good n coll ∧ ∀ v : Tuple, v ≠ [] →
      memAny coll v = (ors.all (fun x => x.isEmpty || memAny x v) && memAny part v) :=
  rangeBuildAnd_sound ops content hts n hn fuel ors part coll hors hp h

/-- The tree induction: ranges of a node (as the root / as a child of an OR) and of the OR groups
of an AND spine. -/
theorem tree_sound {T : Type} (ops : TreeOps T) (content : T → List Range)
    (hts : Gms.C46.TreeSet ops content) (fuel : Nat) (t : IntType) (n : Nat) (hn : 0 < n) :
    ∀ (e : E), E.WF n e →
    (∀ x, nodeRanges ops fuel t n e = .ok x →
      Good n x ∧ ∀ v : List (Option Int), v.length = n → (∀ q ∈ v, InType t q) →
        memAny x (v.map pt) = e.holds v)
    ∧ (∀ xs : List (List Range), orGroupRanges ops fuel t n e = xs.map Res.ok →
      (∀ x ∈ xs, Good n x) ∧ ∀ v : List (Option Int), v.length = n → (∀ q ∈ v, InType t q) →
        xs.all (fun x => memAny x (v.map pt)) = orsHold e v) := by
  intro e
  induction e with
  | leaf c p =>
    intro hwf
    have hops : ∀ op ∈ [(c, p)], op.1 < n ∧ op.2.WF := by
      intro op ho; simp at ho; subst ho; exact hwf
    refine ⟨?_, ?_⟩
    · intro x hx
      simp only [nodeRanges, Res.ok.injEq] at hx
      subst hx
      refine ⟨build_ranges_good t n _ hops, fun v hv hty => ?_⟩
      rw [build_sound_complete t n hn [(c, p)] hops v hv hty]
      simp [E.holds]
    · intro xs hxs
      simp only [orGroupRanges] at hxs
      have : xs = [] := by cases xs <;> simp_all
      subst this
      exact ⟨by simp, fun v _ _ => by simp [orsHold]⟩
  | and a b iha ihb =>
    intro hwf
    obtain ⟨a1, a2⟩ := iha hwf.1
    obtain ⟨b1, b2⟩ := ihb hwf.2
    refine ⟨?_, ?_⟩
    · intro x hx
      simp only [nodeRanges] at hx
      have hall := rangeBuildAnd_ok_all_ok ops fuel _ _ x hx
      obtain ⟨xa, hxa⟩ := all_ok_map (orGroupRanges ops fuel t n a) (fun q hq => hall q (by simp [hq]))
      obtain ⟨xb, hxb⟩ := all_ok_map (orGroupRanges ops fuel t n b) (fun q hq => hall q (by simp [hq]))
      obtain ⟨ga, ma⟩ := a2 xa hxa
      obtain ⟨gb, mb⟩ := b2 xb hxb
      rw [hxa, hxb, ← List.map_append] at hx
      have hops : ∀ op ∈ andLeaves a ++ andLeaves b, op.1 < n ∧ op.2.WF := by
        intro op ho
        rcases List.mem_append.mp ho with ho | ho
        · exact andLeaves_wf n a hwf.1 op ho
        · exact andLeaves_wf n b hwf.2 op ho
      have hgood : ∀ y ∈ xa ++ xb, Good n y := by
        intro y hy
        rcases List.mem_append.mp hy with hy | hy
        · exact ga y hy
        · exact gb y hy
      obtain ⟨g, m⟩ := rangeBuildAnd_sound ops content hts n hn fuel (xa ++ xb) _ x
        (fun y hy => Or.inr (hgood y hy)) (build_ranges_good t n _ hops) hx
      refine ⟨g, fun v hv hty => ?_⟩
      have hne : v.map pt ≠ [] := by
        intro e; have := congrArg List.length e
        simp only [List.length_map, List.length_nil] at this; omega
      rw [m (v.map pt) hne, build_sound_complete t n hn _ hops v hv hty]
      have hden : ∀ (l : List (List Range)), (∀ y ∈ l, Good n y) →
          l.all (fun y => den y (v.map pt)) = l.all (fun y => memAny y (v.map pt)) := by
        intro l
        induction l with
        | nil => intro _; rfl
        | cons y l ih =>
          intro hl
          simp only [List.all_cons]
          rw [den_good (hl y (by simp)), ih (fun z hz => hl z (by simp [hz]))]
      rw [hden _ hgood, List.all_append, ma v hv hty, mb v hv hty, holds_split (.and a b) v]
      simp only [orsHold, andLeaves]
    · intro xs hxs
      simp only [orGroupRanges] at hxs
      obtain ⟨xa, xb, e, hxa, hxb⟩ := List.append_eq_map_iff.mp hxs
      subst e
      obtain ⟨ga, ma⟩ := a2 xa hxa.symm
      obtain ⟨gb, mb⟩ := b2 xb hxb.symm
      refine ⟨?_, fun v hv hty => ?_⟩
      · intro y hy
        rcases List.mem_append.mp hy with hy | hy
        · exact ga y hy
        · exact gb y hy
      · rw [List.all_append, ma v hv hty, mb v hv hty]; simp [orsHold]
  | or a b iha ihb =>
    intro hwf
    obtain ⟨a1, _⟩ := iha hwf.1
    obtain ⟨b1, _⟩ := ihb hwf.2
    have hP1 : ∀ x, orAppend (nodeRanges ops fuel t n a) (nodeRanges ops fuel t n b) = .ok x →
        Good n x ∧ ∀ v : List (Option Int), v.length = n → (∀ q ∈ v, InType t q) →
          memAny x (v.map pt) = (E.or a b).holds v := by
      intro x hx
      obtain ⟨xa, xb, ha, hb, e⟩ := orAppend_ok _ _ x hx
      subst e
      obtain ⟨ga, ma⟩ := a1 xa ha
      obtain ⟨gb, mb⟩ := b1 xb hb
      exact ⟨good_append ga gb, fun v hv hty => by
        rw [memAny_append, ma v hv hty, mb v hv hty]; simp [E.holds]⟩
    refine ⟨?_, ?_⟩
    · intro x hx
      simp only [nodeRanges] at hx
      exact hP1 x hx
    · intro xs hxs
      simp only [orGroupRanges] at hxs
      match xs, hxs with
      | [x], hxs =>
        simp only [List.map_cons, List.map_nil, List.cons.injEq, and_true] at hxs
        obtain ⟨g, m⟩ := hP1 x hxs
        exact ⟨fun y hy => by simp at hy; subst hy; exact g, fun v hv hty => by
          simp only [List.all_cons, List.all_nil, Bool.and_true]
          rw [m v hv hty]; simp [orsHold, E.holds]⟩
      | [], hxs => simp at hxs
      | _ :: _ :: _, hxs => simp at hxs

/-- **Index-scan theorem (AND / OR trees).** For an index of `n ≥ 1` integer columns, every filter
built from leaf predicates on its columns with AND / OR (any nesting, any literals), every set-like
tree: if `buildRangeCollection` returns a collection (no error from `RemoveOverlappingRanges`), the
collection is not nil and a key tuple (NULLs allowed) lies in one of its ranges iff the filter is
TRUE on it — in particular when two OR groups of a conjunction are mutually exclusive. -/
theorem scan_sound_complete {T : Type} (ops : TreeOps T) (content : T → List Range)
    (hts : Gms.C46.TreeSet ops content) (fuel : Nat) (t : IntType) (n : Nat) (hn : 0 < n)
    (e : E) (hwf : E.WF n e) (coll : List Range) (h : rootRanges ops fuel t n e = .ok coll)
    (v : List (Option Int)) (hv : v.length = n) (hty : ∀ x ∈ v, InType t x) :
    coll ≠ [] ∧ memAny coll (v.map pt) = e.holds v := by
  unfold rootRanges at h
  cases hr : nodeRanges ops fuel t n e with
  | ok rs =>
    simp only [hr] at h
    obtain ⟨g, m⟩ := (tree_sound ops content hts fuel t n hn e hwf).1 rs hr
    have hne : v.map pt ≠ [] := by
      intro e; have := congrArg List.length e
      simp only [List.length_map, List.length_nil] at this; omega
    refine ⟨(removeOverlapping_good ops content hts n fuel rs coll g h).ne, ?_⟩
    rw [(Gms.C46.removeOverlapping_preserves ops content hts fuel rs coll g.ni h).1 _ hne, m v hv hty]
  | err m => simp [hr] at h
  | crash => simp [hr] at h
  | fuel => simp [hr] at h

/-- Non-vacuity, and the class of filter the theorem is about: two mutually exclusive OR groups plus
a further restriction of the same column, `(a = 1 OR a = 2) AND (a = 5 OR a = 6) AND a > 0` on a
TINYINT index: the result is the single all-empty range (no row), not the ranges of `a > 0`;
with overlapping groups `(a = 1 OR a = 2) AND (a = 2 OR a = 6) AND a > 0` it is `[2, 2]`. -/
example :
    rootRanges listTree 50 ⟨-128, 127⟩ 1
      (.and (.and (.or (.leaf 0 (.eq [.int 1])) (.leaf 0 (.eq [.int 2])))
                  (.or (.leaf 0 (.eq [.int 5])) (.leaf 0 (.eq [.int 6]))))
            (.leaf 0 (.gt (.int 0)))) = .ok [[ColRange.empty]]
    ∧ rootRanges listTree 50 ⟨-128, 127⟩ 1
      (.and (.and (.or (.leaf 0 (.eq [.int 1])) (.leaf 0 (.eq [.int 2])))
                  (.or (.leaf 0 (.eq [.int 2])) (.leaf 0 (.eq [.int 6]))))
            (.leaf 0 (.gt (.int 0)))) = .ok [[ColRange.closed 2 2]] := by
  decide

/-! ## Engine-level regions (decided on the generated query by harness/cmd/c03)

There is no Impl model of the engine; these are the query features under which the unchanged
engine returns different rows through the index and through a full scan (both replayed on the
real engine, see known_findings/C03.jsonl). -/

/-- Features of a generated `WHERE` the regions are defined on. -/
structure InList where
  negated : Bool                 -- NOT IN
  firstIsInteger : Bool          -- the first list element is an integer literal
  anyFractional : Bool           -- some element is a non-whole decimal
  allFractionalOrOutOfType : Bool -- every element is non-whole or outside the column type

/-- Region `scan_in_list_rounds_fractional`: the full scan's hashed `IN` evaluation converts the
list to the integer type of its first element and rounds `126.3` to `126`; the index builder
(`potEqualsOne`, proved exact above) drops the value. -/
def Region_scan_in_list_rounds_fractional (l : InList) : Bool := l.firstIsInteger && l.anyFractional

/-- Region `in_list_all_values_dropped`: `inValsToMySQLRangeColl` returns an empty collection for
`a IN (300)` / `a IN (1.5)` on a single-column integer index and the engine panics (nil pointer)
instead of returning no rows. -/
def Region_in_list_all_values_dropped (l : InList) : Bool := !l.negated && l.allFractionalOrOutOfType

/-- The exact semantics the index side implements for the witness of the first region: the key 126
is not in `IN (1, 126.3)` (the full scan of the real engine returns it). -/
theorem finding_scan_in_list_rounds_fractional :
    (Pred.eq [.int 1, .dec 1263 1]).holds (some 126) = false
    ∧ memAny (ranges (apply ⟨-128, 127⟩ (B.new 1) 0 (.eq [.int 1, .dec 1263 1]))) [pt (some 126)] = false := by
  decide

/-- The witness of the second region on the builder: all values dropped ⇒ the builder is invalid
and `Ranges` is the single all-empty range (the builder path is fine; the fast path for IN on a
one-column index returns an empty collection instead, which the caller does not survive). -/
theorem finding_in_list_all_values_dropped :
    ranges (apply ⟨-128, 127⟩ (B.new 1) 0 (.eq [.int 300])) = [[ColRange.empty]]
    ∧ ranges (apply ⟨-128, 127⟩ (B.new 1) 0 (.eq [.dec 15 1])) = [[ColRange.empty]] := by
  decide

end Gms.C03
