/-
C02 — Query results match the SQL definition of the query.

The definition is `Gms.Rel.eval` (M1 + M2, Gms/Model/Sql.lean + Rel.lean). The engine is compared
with it by correspondence (harness/cmd/c02 ↔ Drivers/C02.lean). The theorems below make the
definition a credible oracle (they are the SQL laws the property statement names, proved for all
databases, rows and environments), tie the scalar operators to the engine's own operators through
regenerated truth tables (`facts_match`), model the code path of correlated `IN` subqueries
(`plan.InSubquery.Eval`: `insub_probe_correct`, `insub_scan_*`) and tie it to the compiled engine by
a regenerated table of per-row values in 72 scan orders (`facts_corr_rows_independent`), and state
the known-defect regions (`finding_*`, `impl_eq_spec_partial`).
-/
import Gms.Lemmas.Rel
import Gms.Lemmas.InSubProbe
import Gms.Model.SqlQuirks
import Gms.Generated.C02

namespace Gms.C02
open Gms.Sql Gms.Rel Gms.Quirks Gms.InSubProbe

/-! ## Regenerated facts: the engine's scalar operators on {NULL,0,1,2} agree with M1 -/

def optV : Option Int → Value
  | none => .null
  | some i => .int i

def lit (x : Option Int) : Expr := .lit (optV x)

def ev (e : Expr) : Value := evalE [] [] e

def bin2 (f : Expr → Expr → Expr) (t : List (Option Int × Option Int × Option Int)) : Bool :=
  t.all (fun e => ev (f (lit e.1) (lit e.2.1)) == optV e.2.2)

def un1 (f : Expr → Expr) (t : List (Option Int × Option Int)) : Bool :=
  t.all (fun e => ev (f (lit e.1)) == optV e.2)

def tern3 (f : Expr → Expr → Expr → Expr)
    (t : List (Option Int × Option Int × Option Int × Option Int)) : Bool :=
  t.all (fun e => ev (f (lit e.1) (lit e.2.1) (lit e.2.2.1)) == optV e.2.2.2)

open Gms.Generated.C02 in
/-- Every entry of the truth tables dumped from the freshly compiled `sql/expression` operators
(AND, OR, XOR, NOT, the six comparisons and `<=>`, IS NULL, IS TRUE, IS FALSE, IN / NOT IN over a
two-element list, BETWEEN; all over {NULL,0,1,2}) is what M1 prescribes, and the tables are
complete (4, 16, 64 entries). -/
theorem facts_match :
    bin2 .and andTable = true ∧ bin2 .or orTable = true ∧ bin2 .xor xorTable = true
    ∧ bin2 (.cmp .eq) eqTable = true ∧ bin2 (.cmp .ne) neTable = true
    ∧ bin2 (.cmp .lt) ltTable = true ∧ bin2 (.cmp .le) leTable = true
    ∧ bin2 (.cmp .gt) gtTable = true ∧ bin2 (.cmp .ge) geTable = true
    ∧ bin2 (.cmp .nseq) nseqTable = true
    ∧ un1 .not notTable = true ∧ un1 .isNull isNullTable = true
    ∧ un1 (.isTruth true) isTrueTable = true ∧ un1 (.isTruth false) isFalseTable = true
    ∧ tern3 (fun x y z => .inList x [y, z]) inTable = true
    ∧ tern3 (fun x y z => .not (.inList x [y, z])) notInTable = true
    ∧ tern3 .between betweenTable = true
    ∧ [andTable.length, orTable.length, xorTable.length, eqTable.length, neTable.length,
        ltTable.length, leTable.length, gtTable.length, geTable.length, nseqTable.length] = List.replicate 10 16
    ∧ [notTable.length, isNullTable.length, isTrueTable.length, isFalseTable.length] = List.replicate 4 4
    ∧ [inTable.length, notInTable.length, betweenTable.length] = List.replicate 3 64 := by
  decide

/-! ## NULL semantics of IN / NOT IN / EXISTS (for all databases and environments) -/

/-- `x NOT IN (… NULL …)` is never TRUE (list form). -/
theorem eval_notIn_null (db : Db) (env : Env) (e : Expr) (es : List Expr)
    (h : Value.null ∈ evalEs db env es) :
    (evalE db env (.not (.inList e es))).truth ≠ .t := by
  simp only [evalE, truth_toValue]
  exact notIn_null_never_true _ _ h

/-- `x NOT IN (subquery)` is never TRUE when the subquery returns a NULL. -/
theorem eval_notInSub_null (db : Db) (env : Env) (e : Expr) (q : Query)
    (h : Value.null ∈ firstCol (evalQ db env q)) :
    (evalE db env (.not (.inSub e q))).truth ≠ .t := by
  simp only [evalE, truth_toValue]
  exact notIn_null_never_true _ _ h

/-- `x NOT IN (subquery)` is TRUE exactly when `x = y` is FALSE for every returned `y` — in
particular for every `x`, even NULL, over an empty subquery. -/
theorem eval_notInSub_iff (db : Db) (env : Env) (e : Expr) (q : Query) :
    (evalE db env (.not (.inSub e q))).truth = .t ↔
      ∀ w ∈ firstCol (evalQ db env q), cmpTri .eq (evalE db env e) w = .f := by
  simp only [evalE, truth_toValue]
  exact notIn_eq_t _ _

theorem eval_inSub_iff (db : Db) (env : Env) (e : Expr) (q : Query) :
    (evalE db env (.inSub e q)).truth = .t ↔
      ∃ w ∈ firstCol (evalQ db env q), cmpTri .eq (evalE db env e) w = .t := by
  simp only [evalE, truth_toValue]
  exact inTri_eq_t _ _

theorem eval_exists_iff (db : Db) (env : Env) (q : Query) :
    (evalE db env (.exists q)).truth = .t ↔ evalQ db env q ≠ [] := by
  simp only [evalE, truth_toValue]
  cases evalQ db env q <;> simp [Tri.ofBool]

/-- EXISTS is two-valued. -/
theorem eval_exists_not_null (db : Db) (env : Env) (q : Query) :
    (evalE db env (.exists q)).truth ≠ .u := by
  simp only [evalE, truth_toValue]
  cases evalQ db env q <;> simp [Tri.ofBool]

/-- WHERE keeps exactly the rows on which the predicate is TRUE. -/
theorem eval_filter_mem (db : Db) (env : Env) (p : Expr) (q : Query) (r : Row) :
    r ∈ evalQ db env (.filter p q) ↔ r ∈ evalQ db env q ∧ (evalE db (r :: env) p).truth = .t := by
  simp [evalQ, List.mem_filter]

/-- `WHERE x IN (uncorrelated subquery)` is the semi-join on `=`. -/
theorem eval_in_iff_semijoin (db : Db) (env : Env) (i : Nat) (q base : Query)
    (huncorr : ∀ r, evalQ db (r :: env) q = evalQ db env q) :
    evalQ db env (.filter (.inSub (.col 0 i) q) base) =
      semiJoin (fun a b => decide (cmpTri .eq (a.getD i .null) (b.headD .null) = .t))
        (evalQ db env base) (evalQ db env q) := by
  simp only [evalQ, semiJoin]
  apply List.filter_congr
  intro r _
  have h := eval_inSub_iff db (r :: env) (.col 0 i) q
  rw [huncorr r] at h
  rw [Bool.eq_iff_iff]
  simp only [decide_eq_true_eq, List.any_eq_true]
  rw [h]
  simp only [firstCol, evalE, lookup, List.mem_map, List.getElem?_cons_zero, List.getD_eq_getElem?_getD]
  constructor
  · rintro ⟨w, ⟨a, ha, rfl⟩, hp⟩; exact ⟨a, ha, hp⟩
  · rintro ⟨x, hx, hp⟩; exact ⟨_, ⟨x, hx, rfl⟩, hp⟩

/-- `WHERE x NOT IN (uncorrelated subquery)` is the anti-join that respects NULLs: a row survives
iff `x = y` is FALSE (not merely "not TRUE") for every `y`. -/
theorem eval_notIn_iff_antijoinNulls (db : Db) (env : Env) (i : Nat) (q base : Query)
    (huncorr : ∀ r, evalQ db (r :: env) q = evalQ db env q) :
    evalQ db env (.filter (.not (.inSub (.col 0 i) q)) base) =
      antiJoin (fun a b => decide (cmpTri .eq (a.getD i .null) (b.headD .null) ≠ .f))
        (evalQ db env base) (evalQ db env q) := by
  simp only [evalQ, antiJoin]
  apply List.filter_congr
  intro r _
  have h := eval_notInSub_iff db (r :: env) (.col 0 i) q
  rw [huncorr r] at h
  rw [Bool.eq_iff_iff]
  simp only [decide_eq_true_eq, Bool.not_eq_true', List.any_eq_false]
  rw [h]
  simp only [firstCol, evalE, lookup, List.mem_map, List.getElem?_cons_zero, List.getD_eq_getElem?_getD,
    ne_eq, Decidable.not_not]
  constructor
  · intro hall x hx; exact hall _ ⟨x, hx, rfl⟩
  · rintro hall w ⟨a, ha, rfl⟩; exact hall a ha

/-- `WHERE EXISTS (correlated subquery σ_p(S))` is the semi-join with `p` as its condition. -/
theorem eval_exists_iff_semijoin (db : Db) (env : Env) (p : Expr) (s base : Query)
    (huncorr : ∀ r, evalQ db (r :: env) s = evalQ db env s) :
    evalQ db env (.filter (.exists (.filter p s)) base) =
      semiJoin (fun a b => decide ((evalE db (b :: a :: env) p).truth = .t))
        (evalQ db env base) (evalQ db env s) := by
  simp only [evalQ, semiJoin]
  apply List.filter_congr
  intro r _
  rw [Bool.eq_iff_iff]
  simp only [decide_eq_true_eq, List.any_eq_true]
  rw [eval_exists_iff]
  simp only [evalQ, huncorr r]
  constructor
  · intro h
    obtain ⟨b, hb⟩ := List.exists_mem_of_ne_nil _ h
    simp only [List.mem_filter, decide_eq_true_eq] at hb
    exact ⟨b, hb.1, hb.2⟩
  · rintro ⟨b, hb, hp⟩ hnil
    have : b ∈ (evalQ db env s).filter (fun r' => decide ((evalE db (r' :: r :: env) p).truth = .t)) := by
      simp [List.mem_filter, hb, hp]
    rw [hnil] at this
    cases this

/-! ## Joins -/

/-- Outer joins pad with NULL: the left join of two queries is, as a bag, the inner join plus
the unmatched left rows extended by NULLs. -/
theorem eval_leftJoin_pads (db : Db) (env : Env) (on : Expr) (l r : Query) :
    (evalQ db env (.join .left on l r)).Perm
      (evalQ db env (.join .inner on l r) ++
        (antiJoin (fun a b => decide ((evalE db ((a ++ b) :: env) on).truth = .t))
          (evalQ db env l) (evalQ db env r)).map (· ++ nulls (r.width db))) := by
  simp only [evalQ]
  exact leftJoin_perm _ _ _ _

/-- … and no left row is lost. -/
theorem eval_leftJoin_keeps (db : Db) (env : Env) (on : Expr) (l r : Query) (a : Row)
    (ha : a ∈ evalQ db env l) : ∃ x ∈ evalQ db env (.join .left on l r), a <+: x := by
  simp only [evalQ]
  exact leftJoin_keeps_left _ _ _ _ a ha

/-! ## DISTINCT and set operations: multiplicity algebra -/

theorem eval_distinct_nodup (db : Db) (env : Env) (q : Query) :
    (evalQ db env (.distinct q)).Nodup ∧ ∀ r, r ∈ evalQ db env (.distinct q) ↔ r ∈ evalQ db env q := by
  simp only [evalQ]
  exact ⟨dedup_nodup _, fun r => mem_dedup r _⟩

theorem eval_union_distinct_nodup (db : Db) (env : Env) (l r : Query) :
    (evalQ db env (.setop .union false l r)).Nodup
    ∧ ∀ x, x ∈ evalQ db env (.setop .union false l r) ↔ x ∈ evalQ db env l ∨ x ∈ evalQ db env r := by
  simp only [evalQ, setOp]
  exact ⟨dedup_nodup _, fun x => by rw [mem_dedup, List.mem_append]⟩

theorem eval_union_all_count (db : Db) (env : Env) (l r : Query) (x : Row) :
    (evalQ db env (.setop .union true l r)).count x = (evalQ db env l).count x + (evalQ db env r).count x := by
  simp [evalQ, setOp]

theorem eval_intersect_all_count (db : Db) (env : Env) (l r : Query) (x : Row) :
    (evalQ db env (.setop .intersect true l r)).count x =
      min ((evalQ db env l).count x) ((evalQ db env r).count x) := by
  simp only [evalQ, setOp]
  exact count_intersectAll _ _ _

theorem eval_except_all_count (db : Db) (env : Env) (l r : Query) (x : Row) :
    (evalQ db env (.setop .except true l r)).count x =
      (evalQ db env l).count x - (evalQ db env r).count x := by
  simp only [evalQ, setOp]
  exact count_exceptAll _ _ _

theorem eval_intersect_distinct_count (db : Db) (env : Env) (l r : Query) (x : Row) :
    (evalQ db env (.setop .intersect false l r)).count x =
      if x ∈ evalQ db env l ∧ x ∈ evalQ db env r then 1 else 0 := by
  simp only [evalQ, setOp]
  rw [List.Nodup.count (dedup_nodup _)]
  simp [mem_dedup, List.mem_filter]

theorem eval_except_distinct_count (db : Db) (env : Env) (l r : Query) (x : Row) :
    (evalQ db env (.setop .except false l r)).count x =
      if x ∈ evalQ db env l ∧ x ∉ evalQ db env r then 1 else 0 := by
  simp only [evalQ, setOp]
  rw [List.Nodup.count (dedup_nodup _)]
  simp [mem_dedup, List.mem_filter]

/-! ## GROUP BY, ORDER BY, LIMIT -/

/-- GROUP BY with keys: one output row per group of the partition of the input by key value,
carrying the key and the aggregates folded over exactly that group. -/
theorem eval_groupby_partition (db : Db) (env : Env) (k : Expr) (ks : List Expr) (fns : List AggFn)
    (args : List Expr) (q : Query) :
    let key := fun r => evalEs db (r :: env) (k :: ks)
    let groups := groupRows true key (evalQ db env q)
    evalQ db env (.group (k :: ks) fns args q) = groups.map (fun g => g.1 ++ evalAggs db env g.2 fns args)
    ∧ (groups.flatMap (·.2)).Perm (evalQ db env q)
    ∧ (groups.map (·.1)).Nodup
    ∧ ∀ g ∈ groups, (∀ r ∈ g.2, key r = g.1) ∧ g.2 ≠ [] := by
  intro key groups
  refine ⟨by simp [evalQ, groups, key], ?_⟩
  exact groupRows_partition key _

/-- Aggregation without GROUP BY returns exactly one row, even over an empty input. -/
theorem eval_group_noKeys (db : Db) (env : Env) (fns : List AggFn) (args : List Expr) (q : Query) :
    evalQ db env (.group [] fns args q) = [evalAggs db env (evalQ db env q) fns args] := by
  simp [evalQ, groupRows]

/-- COUNT(*) of a group is its size; COUNT(x) skips NULLs; SUM/MIN/MAX over no non-NULL value are
NULL. -/
theorem aggregate_laws (vs : List Value) :
    aggregate .countStar vs = .int vs.length
    ∧ aggregate .count vs = .int (vs.filter (fun v => !v.isNull)).length
    ∧ ((∀ v ∈ vs, v = .null) → aggregate .sum vs = .null ∧ aggregate .min vs = .null ∧ aggregate .max vs = .null) := by
  refine ⟨rfl, rfl, ?_⟩
  intro h
  have : nonNull vs = [] := by
    simp only [nonNull, List.filter_eq_nil_iff]
    intro v hv; simp [h v hv, Value.isNull]
  simp [aggregate, this, extremum]

/-- ORDER BY returns a permutation of its input; LIMIT/OFFSET is the slice. -/
theorem eval_orderBy_perm (db : Db) (env : Env) (ks : List Expr) (d : List Bool) (q : Query) :
    (evalQ db env (.orderBy ks d q)).Perm (evalQ db env q) := by
  simp only [evalQ, orderRows]
  exact sortBy_perm _ _

theorem eval_limit_slice (db : Db) (env : Env) (n off : Nat) (q : Query) :
    evalQ db env (.limit n off q) = ((evalQ db env q).drop off).take n := by
  simp [evalQ, limitRows]

/-! ## Correlated subqueries: one expression object, many outer rows

`filter` and `project` evaluate their expression once per row with that row pushed on the
environment, so the value on a row is a function of that row alone. The engine evaluates ONE
`plan.InSubquery` / `plan.Subquery` object on the successive rows of the scan; the theorems below
say that the Impl model of that object computes the definition on every call
(`insub_probe_correct`), hence that a scan is a map (`insub_scan_eq_spec`, `insub_scan_append`,
`insub_scan_perm`), and — on a table regenerated by running the engine over 24 outer rows in 72
scan orders — that the compiled code carries nothing from one row to the next
(`facts_corr_rows_independent`). -/

/-- `InSubquery.Eval` (hash probe + probe of the NULL key) is `IN` of the SQL definition. -/
theorem insub_probe_correct (x : Value) (ws : List Value) : probe x ws = (inTri x ws).toValue :=
  probe_eq_inTri x ws

/-- … so `x NOT IN (… NULL …)` is never TRUE on that code path either, whatever was evaluated before. -/
theorem insub_probe_notIn_null (x : Value) (ws : List Value) (h : Value.null ∈ ws) :
    notInTruth x ws ≠ .t := by
  simp only [notInTruth, probe_eq_inTri, truth_toValue]
  exact notIn_null_never_true x ws h

/-- A scan by one `InSubquery` object returns on every row the definition's value of that row. -/
theorem insub_scan_eq_spec (calls : List (Value × List Value)) :
    probeRows calls = calls.map (fun c => (inTri c.1 c.2).toValue) := by
  simp [probeRows, probe_eq_inTri]

/-- Results of successive calls are independent: the values on the rows of a scan do not depend on
the rows scanned before them … -/
theorem insub_scan_append (a b : List (Value × List Value)) :
    probeRows (a ++ b) = probeRows a ++ probeRows b := by
  simp [probeRows]

/-- … nor on the scan order. -/
theorem insub_scan_perm (a b : List (Value × List Value)) (h : a.Perm b) :
    (probeRows a).Perm (probeRows b) := h.map _

/-- The same for the definition itself: the value of a select item / the decision of a WHERE on a
row does not depend on the other rows of the input (here: of a base table split in two). -/
theorem eval_rows_independent (db : Db) (env : Env) (p : Expr) (es : List Expr) (l₁ l₂ : List Row) (n : Nat)
    (t : Table) (ht : db[n]? = some t) (hrows : t.rows = l₁ ++ l₂) :
    evalQ db env (.filter p (.table n)) =
        l₁.filter (fun r => (evalE db (r :: env) p).truth = .t) ++ l₂.filter (fun r => (evalE db (r :: env) p).truth = .t)
    ∧ evalQ db env (.project es (.table n)) =
        l₁.map (fun r => evalEs db (r :: env) es) ++ l₂.map (fun r => evalEs db (r :: env) es) := by
  simp [evalQ, ht, hrows]

/-- The excluded class is really excluded by the model: a node that keeps "the set has a NULL" from
its first miss returns different values than `probeRows` … -/
theorem memo_scan_differs :
    ∃ calls, probeMemoRows none calls ≠ probeRows calls :=
  ⟨[(.int 1, [.int 5]), (.int 2, [.null, .int 7])], by decide⟩

/-- … and makes `x NOT IN (… NULL …)` TRUE on the second row. -/
theorem memo_scan_notIn_null_true :
    ∃ c₁ c₂ : Value × List Value, Value.null ∈ c₂.2
      ∧ ((probeMemoRows none [c₁, c₂]).getD 1 .null).truth = .f
      ∧ notInTruth c₂.1 c₂.2 ≠ .t :=
  ⟨(.int 1, [.int 5]), (.int 2, [.null, .int 7]), by decide, by decide, by decide⟩

/-! ### Regenerated table: the engine on 24 outer rows in 72 scan orders -/

section CorrFacts
open Gms.Generated.C02

def toOpt : Value → Option Int
  | .int i => some i
  | _ => none

/-- Inner table `u(a, b)`: group `b` holds the members of `corrSets[b]`. -/
def fU : Table :=
  ⟨2, (corrSets.zipIdx).flatMap (fun sb => sb.1.map (fun a => [optV a, Value.int sb.2]))⟩

/-- Outer row `(id, a, b)`: `a = corrX[id / 8]`, `b = id % 8`. -/
def fRow (id : Nat) : Row := [.int id, optV ((corrX[id / corrSets.length]?).getD none), .int (id % corrSets.length : Nat)]

def fDb : Db := [⟨3, []⟩, fU]

/-- `SELECT u.a FROM u WHERE u.b = t.b` -/
def fSub : Query := .project [.col 0 0] (.filter (.cmp .eq (.col 0 1) (.col 1 2)) (.table 1))
/-- `t.a IN (SELECT u.a FROM u WHERE u.b = t.b)` -/
def fIn : Expr := .inSub (.col 0 1) fSub
/-- `EXISTS (SELECT u.a FROM u WHERE u.b = t.b AND u.a = t.a)` -/
def fExists : Expr :=
  .exists (.project [.col 0 0] (.filter (.and (.cmp .eq (.col 0 1) (.col 1 2)) (.cmp .eq (.col 0 0) (.col 1 1))) (.table 1)))
/-- `(SELECT MAX(u.a) FROM u WHERE u.b = t.b)` -/
def fMax : Expr := .scalar (.group [] [.max] [.col 0 0] (.filter (.cmp .eq (.col 0 1) (.col 1 2)) (.table 1)))

/-- What the SQL definition gives to outer row `id` ALONE (only that row on the environment). -/
def specRow (id : Nat) : Nat × Option Int × Option Int × Option Int :=
  (id, toOpt (evalE fDb [fRow id] fIn), toOpt (evalE fDb [fRow id] fExists), toOpt (evalE fDb [fRow id] fMax))

def specKeep (id : Nat) : Bool := (evalE fDb [fRow id] (.not fIn)).truth = .t

/-- The definition's table over the 24 rows, computed once. -/
def specTable : List (Nat × Option Int × Option Int × Option Int) := (List.range 24).map specRow
def keepTable : List Bool := (List.range 24).map specKeep

def runOk (run : List (Nat × Option Int × Option Int × Option Int) × List Nat) : Bool :=
  let ids := run.1.map (·.1)
  decide (run.1 = ids.map (fun id => (specTable[id]?).getD (id, none, none, none)))
    && decide (run.2 = ids.filter (fun id => (keepTable[id]?).getD false))
    && decide (ids.length = 24) && (List.range 24).all (fun i => ids.contains i)

/-- **Rows are independent in the compiled engine.** In each of the 72 scan orders (every rotation
of three strides: each of the 24 rows is evaluated first in some order) every row carries, for
`a IN (correlated)`, `EXISTS (correlated)` and `(SELECT MAX … correlated)`, exactly the value the SQL
definition gives to that row alone, and `WHERE a NOT IN (correlated)` keeps exactly the rows whose
own `NOT IN` is TRUE, in scan order; each order is a permutation of the 24 rows, and the domain is
the one documented (3 probe values × the 8 member sets over {NULL,0,1}). -/
theorem facts_corr_rows_independent :
    corrRuns.all runOk = true
    ∧ corrRuns.length = 72
    ∧ corrX = [none, some 0, some 1]
    ∧ corrSets = [[], [none], [some 0], [some 1], [none, some 0], [none, some 1], [some 0, some 1], [none, some 0, some 1]]
    ∧ (List.range 24).all (fun i => (corrRuns.map (fun run => (run.1.map (·.1)).head?)).contains (some i)) = true := by
  decide

/-- The `IN` column of the table is also what the Impl model `probe` returns (as it must, by
`insub_probe_correct`): left value and member set of row `id` read off the domain. -/
theorem facts_corr_probe :
    corrRuns.all (fun run =>
      decide (run.1.map (fun r => r.2.1) =
        (probeRows (run.1.map (fun r =>
          (optV ((corrX[r.1 / 8]?).getD none), ((corrSets[r.1 % 8]?).getD []).map optV)))).map toOpt)) = true := by
  decide

/-- The table discriminates the excluded class: on some dumped scan order the memoising variant
returns a different column than the engine did. -/
theorem facts_corr_discriminates :
    corrRuns.any (fun run =>
      decide (run.1.map (fun r => r.2.1) ≠
        (probeMemoRows none (run.1.map (fun r =>
          (optV ((corrX[r.1 / 8]?).getD none), ((corrSets[r.1 % 8]?).getD []).map optV)))).map toOpt)) = true := by
  decide

end CorrFacts

/-! ## Known-defect regions -/

/-- Outside the listed regions the Impl model of the engine *is* the definition. -/
theorem impl_eq_spec_partial (db : Db) (feats : List String) (q : Query)
    (h : region feats q = none) : implEval db feats q = eval db q := by
  simp [implEval, implRewrite, h]

/-
Full statement (false on the unchanged tree, see the witnesses below):
  theorem impl_eq_spec (db feats q) : implEval db feats q = eval db q
-/

def wT0 : Table := ⟨2, [[.int 1, .int 2], [.int 1, .null], [.null, .int 3], [.int 2, .int 2], [.int 1, .int 2]]⟩
def wT1 : Table := ⟨1, [[.int 5], [.int 6]]⟩
def wDb : Db := [wT0, wT1, ⟨1, []⟩]

/-- `x NOT IN (SELECT NULL FROM t1)` is TRUE in the engine for every non-NULL `x`. -/
def wNotInNull : Query := .filter (.not (.inSub (.col 0 0) (.project [.lit .null] (.table 1)))) (.table 0)

theorem finding_in_subquery_null_literal :
    ∃ db q, region [] q = some .inSubqueryNullLiteral ∧ implEval db [] q ≠ eval db q :=
  ⟨wDb, wNotInNull, by decide, by decide⟩

/-- `WHERE EXISTS (SELECT … FROM t1 LEFT JOIN t2 ON 0)` is FALSE in the engine although the left
join has a row for every row of t1. -/
def wExistsLeft : Query := .filter (.exists (.join .left (.lit (.int 0)) (.table 1) (.table 2))) (.table 0)

theorem finding_exists_left_join_const_false :
    ∃ db q, region [] q = some .existsLeftJoinConstFalse ∧ implEval db [] q ≠ eval db q :=
  ⟨wDb, wExistsLeft, by decide, by decide⟩

/-- `… UNION ALL … ORDER BY 1 DESC LIMIT 3 OFFSET 2`: the engine skips two rows *before* sorting. -/
def wSetopOffset : Query :=
  .limit 3 2 (.orderBy [.col 0 0] [true] (.setop .union true (.project [.col 0 1] (.table 0)) (.table 1)))

theorem finding_setop_offset_before_sort :
    ∃ db q, region ["setop_offset"] q = some .setopOffsetBeforeSort
      ∧ implEval db ["setop_offset"] q ≠ eval db q :=
  ⟨wDb, wSetopOffset, by decide, by decide⟩

/-! ## Non-vacuity -/

/-- A database with NULLs and duplicates on which the laws above have content. -/
example : eval wDb (.filter (.not (.inSub (.col 0 0) (.project [.col 0 1] (.table 0)))) (.table 0)) = [] := by
  decide  -- the subquery returns a NULL: NOT IN keeps nothing

example : eval wDb (.filter (.not (.inSub (.col 0 0) (.table 2))) (.table 0)) = wT0.rows := by
  decide  -- empty subquery: NOT IN keeps everything, even the NULL row

example : eval wDb (.join .left (.cmp .eq (.col 0 0) (.col 0 2)) (.table 0) (.table 1))
    = wT0.rows.map (· ++ [.null]) := by decide  -- no partner anywhere: every row padded

example : eval wDb (.group [.col 0 0] [.countStar, .sum] [.lit (.int 1), .col 0 1] (.table 0))
    = [[.int 1, .int 3, .int 4], [.null, .int 1, .int 3], [.int 2, .int 1, .int 2]] := by decide

example : eval wDb (.setop .except true (.project [.col 0 0] (.table 0)) (.project [.lit (.int 1)] (.table 1)))
    = [[.null], [.int 2], [.int 1]] := by decide  -- 3 − 2 = 1 occurrence of 1 survives

example : eval wDb (.limit 2 1 (.orderBy [.col 0 0, .col 0 1] [true, false] (.distinct (.table 0))))
    = [[.int 1, .null], [.int 1, .int 2]] := by decide

example : ∃ r, evalQ wDb [r] (.filter (.cmp .eq (.col 0 0) (.col 1 0)) (.table 0)) ≠
    evalQ wDb [] (.filter (.cmp .eq (.col 0 0) (.col 1 0)) (.table 0)) :=
  ⟨[.int 1], by decide⟩  -- the "uncorrelated" hypothesis of the semi-join theorems is not vacuous

end Gms.C02
