/-
C08 — Aggregate and window functions compute their defined values.

Model: Gms/Model/Window.lean (framers, framed aggregates, rank family, NTILE, LAG/LEAD, the
sort/partition pipeline) and Gms/Model/GroupAgg.lean (GROUP BY buffers).
Helper lemmas first, the property theorems are in `namespace Gms.C08`.
-/
import Gms.Model.Window
import Gms.Model.GroupAgg
import Gms.Model.DecAgg
import Gms.Lemmas.DecAgg
import Gms.Generated.C08
open Gms.Window

/-! ## helper lemmas: prefix tables -/

/-- sum with NULL counted as 0 (what `floatPrefixSum` accumulates) -/
def cntSome (xs : List Val) : Int := ((xs.filter (·.isSome)).length : Int)
def cntNone (xs : List Val) : Nat := (xs.filter (·.isNone)).length
def sum0 (xs : List Val) : Int := (xs.map (·.getD 0)).sum



theorem sum0_nil : sum0 [] = 0 := rfl
theorem sum0_cons (v : Val) (xs : List Val) : sum0 (v :: xs) = v.getD 0 + sum0 xs := by simp [sum0]
theorem sum0_append (xs ys : List Val) : sum0 (xs ++ ys) = sum0 xs + sum0 ys := by
  simp [sum0, List.sum_append]

theorem sum0_eq_nonNull (xs : List Val) : sum0 xs = (nonNull xs).sum := by
  induction xs with
  | nil => rfl
  | cons v xs ih => cases v <;> simp [sum0_cons, nonNull, List.filterMap_cons, ih] <;> simp [nonNull] at ih ⊢ <;> omega

theorem prefixSums_getD (xs : List Val) : ∀ (c : Int) (n : Nat), n < xs.length →
    (prefixSums xs c).getD n 0 = c + sum0 (xs.take (n + 1)) := by
  induction xs with
  | nil => intro c n h; simp at h
  | cons v xs ih =>
    intro c n h
    cases n with
    | zero => simp [prefixSums, sum0_cons, sum0_nil]
    | succ n =>
      simp only [prefixSums, List.getD_cons_succ, List.take_succ_cons, sum0_cons]
      rw [ih (c + v.getD 0) n (by simpa using h)]
      omega

theorem take_split (xs : List Val) (a b : Nat) (h : a ≤ b) :
    xs.take b = xs.take a ++ (xs.drop a).take (b - a) := by
  have : b = a + (b - a) := by omega
  conv => lhs; rw [this]
  exact List.take_add

theorem computePrefixSum_eq (xs : List Val) (ps a b : Nat) (hab : a ≤ b) (hb : b ≤ xs.length) :
    computePrefixSum ((ps + a : Nat) : Int) ((ps + b : Nat) : Int) ps (prefixSums xs 0)
      = sum0 ((xs.drop a).take (b - a)) := by
  unfold computePrefixSum
  have hs : sum0 (xs.take b) = sum0 (xs.take a) + sum0 ((xs.drop a).take (b - a)) := by
    rw [take_split xs a b hab, sum0_append]
  cases b with
  | zero =>
    have : a = 0 := by omega
    subst this
    simp [sum0]
  | succ b =>
    have e1 : ((ps + (b + 1) : Nat) : Int) - ps - 1 = (b : Int) := by omega
    have h1 : ((b : Int) ≥ 0) := by omega
    simp only [e1, h1, if_true, Int.toNat_natCast]
    rw [prefixSums_getD xs 0 b (by omega)]
    cases a with
    | zero =>
      have e2 : ((ps + 0 : Nat) : Int) - ps - 1 = -1 := by omega
      have h2 : ¬ ((-1 : Int) ≥ 0) := by omega
      simp only [e2, h2, if_false]
      simp [sum0] at hs ⊢
    | succ a =>
      have e2 : ((ps + (a + 1) : Nat) : Int) - ps - 1 = (a : Int) := by omega
      have h2 : ((a : Int) ≥ 0) := by omega
      simp only [e2, h2, if_true, Int.toNat_natCast]
      rw [prefixSums_getD xs 0 a (by omega)]
      omega
theorem cntSome_append (xs ys : List Val) : cntSome (xs ++ ys) = cntSome xs + cntSome ys := by
  simp [cntSome]
theorem cntSome_cons (v : Val) (xs : List Val) : cntSome (v :: xs) = (if v.isSome then 1 else 0) + cntSome xs := by
  cases v <;> simp [cntSome] <;> omega
theorem cntNone_cons (v : Val) (xs : List Val) : cntNone (v :: xs) = (if v.isNone then 1 else 0) + cntNone xs := by
  cases v <;> simp [cntNone] <;> omega
theorem cntNone_append (xs ys : List Val) : cntNone (xs ++ ys) = cntNone xs + cntNone ys := by
  simp [cntNone]
theorem cnt_total (xs : List Val) : cntSome xs + cntNone xs = xs.length := by
  induction xs with
  | nil => rfl
  | cons v xs ih => rw [cntSome_cons, cntNone_cons]; cases v <;> simp <;> omega
theorem cntSome_eq_nonNull (xs : List Val) : cntSome xs = ((nonNull xs).length : Int) := by
  induction xs with
  | nil => rfl
  | cons v xs ih => rw [cntSome_cons]; cases v <;> simp [nonNull] at ih ⊢ <;> omega

theorem prefixCounts_getD (xs : List Val) : ∀ (c : Int) (n : Nat), n < xs.length →
    (prefixCounts xs c).getD n 0 = c + cntSome (xs.take (n + 1)) := by
  induction xs with
  | nil => intro c n h; simp at h
  | cons v xs ih =>
    intro c n h
    cases n with
    | zero => cases v <;> simp [prefixCounts, cntSome]
    | succ n =>
      simp only [prefixCounts, List.getD_cons_succ, List.take_succ_cons, cntSome_cons]
      rw [ih _ n (by simpa using h)]
      cases v <;> simp <;> omega

theorem prefixNulls_getD (xs : List Val) : ∀ (c : Nat) (n : Nat), n < xs.length →
    (prefixNulls xs c).getD n 0 = c + cntNone (xs.take (n + 1)) := by
  induction xs with
  | nil => intro c n h; simp at h
  | cons v xs ih =>
    intro c n h
    cases n with
    | zero => cases v <;> simp [prefixNulls, cntNone]
    | succ n =>
      simp only [prefixNulls, List.getD_cons_succ, List.take_succ_cons, cntNone_cons]
      rw [ih _ n (by simpa using h)]
      cases v <;> simp <;> omega

/-- `computePrefixSum` over any additive prefix table is the value of the slice -/
theorem computePrefix_gen (F : List Val → Int) (hF0 : F [] = 0) (hFapp : ∀ x y, F (x ++ y) = F x + F y)
    (pre : List Int) (xs : List Val)
    (hpre : ∀ n, n < xs.length → pre.getD n 0 = F (xs.take (n + 1)))
    (ps a b : Nat) (hab : a ≤ b) (hb : b ≤ xs.length) :
    computePrefixSum ((ps + a : Nat) : Int) ((ps + b : Nat) : Int) ps pre = F ((xs.drop a).take (b - a)) := by
  unfold computePrefixSum
  have hs : F (xs.take b) = F (xs.take a) + F ((xs.drop a).take (b - a)) := by
    rw [take_split xs a b hab, hFapp]
  cases b with
  | zero =>
    have : a = 0 := by omega
    subst this
    simp [hF0]
  | succ b =>
    have e1 : ((ps + (b + 1) : Nat) : Int) - ps - 1 = (b : Int) := by omega
    have h1 : ((b : Int) ≥ 0) := by omega
    simp only [e1, h1, if_true, Int.toNat_natCast]
    rw [hpre b (by omega)]
    cases a with
    | zero =>
      have e2 : ((ps + 0 : Nat) : Int) - ps - 1 = -1 := by omega
      have h2 : ¬ ((-1 : Int) ≥ 0) := by omega
      simp only [e2, h2, if_false]
      simp [hF0] at hs ⊢
    | succ a =>
      have e2 : ((ps + (a + 1) : Nat) : Int) - ps - 1 = (a : Int) := by omega
      have h2 : ((a : Int) ≥ 0) := by omega
      simp only [e2, h2, if_true, Int.toNat_natCast]
      rw [hpre a (by omega)]
      omega

theorem nonNullCnt_eq (xs : List Val) (ps a b : Nat) (hab : a ≤ b) (hb : b ≤ xs.length) :
    nonNullCnt ((ps + a : Nat) : Int) ((ps + b : Nat) : Int) ps (prefixNulls xs 0)
      = cntSome ((xs.drop a).take (b - a)) := by
  unfold nonNullCnt
  have hs : cntNone (xs.take b) = cntNone (xs.take a) + cntNone ((xs.drop a).take (b - a)) := by
    rw [take_split xs a b hab, cntNone_append]
  have hl : ((xs.drop a).take (b - a)).length = b - a := by simp; omega
  have ht := cnt_total ((xs.drop a).take (b - a))
  rw [hl] at ht
  cases b with
  | zero =>
    have : a = 0 := by omega
    subst this
    simp [cntSome]
  | succ b =>
    have e1 : ((ps + (b + 1) : Nat) : Int) - ps - 1 = (b : Int) := by omega
    have h1 : ((b : Int) ≥ 0) := by omega
    simp only [e1, h1, if_true, Int.toNat_natCast]
    rw [prefixNulls_getD xs 0 b (by omega)]
    cases a with
    | zero =>
      have e2 : ((ps + 0 : Nat) : Int) - ps - 1 = -1 := by omega
      have h2 : ¬ ((-1 : Int) ≥ 0) := by omega
      simp only [e2, h2, if_false]
      simp [cntNone] at hs ⊢
      simp [cntNone] at ht
      omega
    | succ a =>
      have e2 : ((ps + (a + 1) : Nat) : Int) - ps - 1 = (a : Int) := by omega
      have h2 : ((a : Int) ≥ 0) := by omega
      simp only [e2, h2, if_true, Int.toNat_natCast]
      rw [prefixNulls_getD xs 0 a (by omega)]
      omega

theorem minFold_some (vs : List Val) : ∀ m : Int,
    vs.foldl (fun m v => match v with
      | none => m
      | some y => match m with
        | none => some y
        | some mm => if y < mm then some y else some mm) (some m)
    = some ((nonNull vs).foldl (fun m y => if y < m then y else m) m) := by
  induction vs with
  | nil => intro m; rfl
  | cons v vs ih =>
    intro m
    cases v with
    | none => simpa [nonNull] using ih m
    | some y =>
      simp only [List.foldl_cons, nonNull, List.filterMap_cons, id]
      by_cases h : y < m
      · simp only [h, if_true]; simpa [nonNull] using ih y
      · simp only [h, if_false]; simpa [nonNull] using ih m

theorem minLoop_eq (vs : List Val) : minLoop vs = listMin (nonNull vs) := by
  unfold minLoop
  induction vs with
  | nil => rfl
  | cons v vs ih =>
    cases v with
    | none => simpa [nonNull] using ih
    | some y =>
      simp only [List.foldl_cons, nonNull, List.filterMap_cons, id, listMin]
      have := minFold_some vs y
      simp only [nonNull] at this
      exact this

theorem maxFold_some (vs : List Val) : ∀ m : Int,
    vs.foldl (fun m v => match v with
      | none => m
      | some y => match m with
        | none => some y
        | some mm => if y > mm then some y else some mm) (some m)
    = some ((nonNull vs).foldl (fun m y => if y > m then y else m) m) := by
  induction vs with
  | nil => intro m; rfl
  | cons v vs ih =>
    intro m
    cases v with
    | none => simpa [nonNull] using ih m
    | some y =>
      simp only [List.foldl_cons, nonNull, List.filterMap_cons, id]
      by_cases h : y > m
      · simp only [h, if_true]; simpa [nonNull] using ih y
      · simp only [h, if_false]; simpa [nonNull] using ih m

theorem maxLoop_eq (vs : List Val) : maxLoop vs = listMax (nonNull vs) := by
  unfold maxLoop
  induction vs with
  | nil => rfl
  | cons v vs ih =>
    cases v with
    | none => simpa [nonNull] using ih
    | some y =>
      simp only [List.foldl_cons, nonNull, List.filterMap_cons, id, listMax]
      have := maxFold_some vs y
      simp only [nonNull] at this
      exact this

theorem sliceRel_eq (xs : List Val) (ps a b : Nat) (hab : a ≤ b) :
    sliceRel xs ps ((ps + a : Nat) : Int) ((ps + b : Nat) : Int) = (xs.drop a).take (b - a) := by
  unfold sliceRel
  by_cases h : a = b
  · subst h; simp
  · have h1 : ¬ (((ps + a : Nat) : Int) ≥ ((ps + b : Nat) : Int)) := by omega
    rw [if_neg h1]
    have e1 : (((ps + a : Nat) : Int) - (ps : Int)).toNat = a := by omega
    have e2 : (((ps + b : Nat) : Int) - ((ps + a : Nat) : Int)).toNat = b - a := by omega
    rw [e1, e2]


/-! ## helper lemmas: GROUP BY buffers as folds -/

section
open Gms.GroupAgg

theorem countStar_fold (xs : List Val) : ∀ c : Int, xs.foldl (fun (c : Int) _ => c + 1) c = c + xs.length := by
  induction xs with
  | nil => intro c; simp
  | cons v xs ih => intro c; simp [ih]; omega

theorem count_fold (xs : List Val) : ∀ c : Int,
    xs.foldl (fun (c : Int) (v : Val) => if v.isSome then c + 1 else c) c = c + (nonNull xs).length := by
  induction xs with
  | nil => intro c; simp [nonNull]
  | cons v xs ih => intro c; cases v <;> simp [ih, nonNull] <;> omega

theorem sumBuf_fold_live (xs : List Val) : ∀ s : Int,
    xs.foldl SumBuf.update { sum := s, isnil := false } = { sum := s + (nonNull xs).sum, isnil := false } := by
  induction xs with
  | nil => intro s; simp [nonNull]
  | cons v xs ih =>
    intro s
    cases v with
    | none => simpa [SumBuf.update, nonNull] using ih s
    | some n =>
      simp only [List.foldl_cons, SumBuf.update, nonNull, List.filterMap_cons, id, List.sum_cons, Bool.false_eq_true, if_false]
      have := ih (s + n)
      simp only [nonNull] at this
      rw [this, Int.add_assoc]

theorem sumBuf_fold (xs : List Val) :
    xs.foldl SumBuf.update {} = (match nonNull xs with
      | [] => ({} : SumBuf)
      | l => { sum := l.sum, isnil := false }) := by
  induction xs with
  | nil => rfl
  | cons v xs ih =>
    cases v with
    | none => simpa [SumBuf.update, nonNull] using ih
    | some n =>
      simp only [List.foldl_cons, SumBuf.update, nonNull, List.filterMap_cons, id]
      have := sumBuf_fold_live xs n
      simp only [nonNull] at this
      simp [this]

theorem avgBuf_fold_live (xs : List Val) : ∀ (s : Int) (r : Nat),
    xs.foldl AvgBuf.update { sum := { sum := s, isnil := false }, rows := r }
      = { sum := { sum := s + (nonNull xs).sum, isnil := false }, rows := r + (nonNull xs).length } := by
  induction xs with
  | nil => intro s r; simp [nonNull]
  | cons v xs ih =>
    intro s r
    cases v with
    | none => simpa [AvgBuf.update, nonNull] using ih s r
    | some n =>
      simp only [List.foldl_cons, AvgBuf.update, SumBuf.update, nonNull, List.filterMap_cons, id, List.sum_cons,
        List.length_cons, Bool.false_eq_true, if_false]
      have := ih (s + n) (r + 1)
      simp only [nonNull] at this
      rw [this, Int.add_assoc, Nat.add_assoc, Nat.add_comm 1]

theorem avgBuf_fold (xs : List Val) :
    xs.foldl AvgBuf.update {} = (match nonNull xs with
      | [] => ({} : AvgBuf)
      | l => { sum := { sum := l.sum, isnil := false }, rows := l.length }) := by
  induction xs with
  | nil => rfl
  | cons v xs ih =>
    cases v with
    | none => simpa [AvgBuf.update, nonNull] using ih
    | some n =>
      simp only [List.foldl_cons, AvgBuf.update, SumBuf.update, nonNull, List.filterMap_cons, id]
      have := avgBuf_fold_live xs n 1
      simp only [nonNull] at this
      simp [this, Nat.add_comm]

theorem bit_fold (op : Nat → Nat → Nat) (xs : List Val) : ∀ acc : Nat,
    xs.foldl (bitUpdate op) acc = (nonNull xs).foldl (fun (a : Nat) n => op a (toU64 n)) acc := by
  induction xs with
  | nil => intro acc; rfl
  | cons v xs ih => intro acc; cases v <;> simp [bitUpdate, nonNull, ih] <;> simp [nonNull]

theorem gc_fold (xs : List Val) : ∀ acc : List Int, xs.foldl (gcUpdate false) acc = acc ++ nonNull xs := by
  induction xs with
  | nil => intro acc; simp [nonNull]
  | cons v xs ih => intro acc; cases v <;> simp [gcUpdate, nonNull, ih] <;> simp [nonNull]

theorem gcDistinct_fold (xs : List Val) : ∀ acc : List Int,
    xs.foldl (gcUpdate true) acc = acc ++ (dedup (nonNull xs)).filter (fun n => !acc.contains n) := by
  induction xs with
  | nil => intro acc; simp [nonNull, dedup]
  | cons v xs ih =>
    intro acc
    cases v with
    | none => simpa [gcUpdate, nonNull] using ih acc
    | some n =>
      by_cases hc : acc.contains n = true
      · have hm : n ∈ acc := by simpa using hc
        simp only [List.foldl_cons, gcUpdate, hc, and_self, if_true, nonNull, List.filterMap_cons, id, dedup]
        have := ih acc
        simp only [nonNull] at this
        rw [this]
        congr 1
        simp only [List.filter_cons, hc, Bool.not_true, Bool.false_eq_true, if_false, List.filter_filter]
        apply List.filter_congr
        intro m _
        by_cases hm2 : m ∈ acc
        · simp [hm2]
        · have : m ≠ n := fun e => hm2 (e ▸ hm)
          simp [hm2, this]
      · have hm : n ∉ acc := by simpa using hc
        simp only [List.foldl_cons, gcUpdate, hc, and_false, if_false, nonNull, List.filterMap_cons, id, dedup, Bool.false_eq_true]
        have := ih (acc ++ [n])
        simp only [nonNull] at this
        rw [this]
        simp only [List.filter_cons, hc, Bool.not_false, if_true, List.filter_filter, List.append_assoc, List.singleton_append]
        congr 2
        apply List.filter_congr
        intro m _
        by_cases hm2 : m ∈ acc <;> by_cases hmn : m = n <;> simp [hm2, hmn, hm]

theorem minUpdate_fold (xs : List Val) : xs.foldl minUpdate none = minLoop xs := rfl
theorem maxUpdate_fold (xs : List Val) : xs.foldl maxUpdate none = maxLoop xs := rfl

end

namespace Gms.C08

/-! ## A. ROWS framer = definition -/

theorem rowsInterval_mem (lo hi : Bound) (hlo : lo.validLo = true) (hhi : hi.validHi = true)
    (ps pe i j : Nat) (h1 : ps ≤ i) (h2 : i < pe) :
    ((rowsInterval (cfgOfBounds lo hi) ps pe i).1 ≤ (j : Int) ∧ (j : Int) < (rowsInterval (cfgOfBounds lo hi) ps pe i).2)
      ↔ rowsMem lo hi ps pe i j = true := by
  cases lo <;> cases hi <;>
    simp [Bound.validLo, Bound.validHi] at hlo hhi <;>
    simp only [rowsInterval, cfgOfBounds, RowCfg.startOffset, RowCfg.endOffset, rowsMem, Bound.loOK, Bound.hiOK] <;>
    simp <;> (repeat' split) <;> omega

theorem rowsNext_some (c : RowCfg) (ps pe idx : Nat) (h : idx < pe) :
    rowsNext c ps pe idx = some (rowsInterval c ps pe idx, (idx : Int) + 1) := by
  unfold rowsNext
  have h1 : ¬ ((idx : Int) ≠ 0 ∧ (idx : Int) ≥ pe) := by omega
  have h2 : ¬ ((pe : Int) = 0) := by omega
  rw [if_neg h1, if_neg h2]

theorem rowsNext_eof (c : RowCfg) (ps pe : Nat) : rowsNext c ps pe pe = none := by
  unfold rowsNext
  by_cases h : pe = 0
  · subst h; simp
  · have : ((pe : Int) ≠ 0 ∧ (pe : Int) ≥ pe) := by omega
    rw [if_pos this]

theorem rowsStream_eq_aux (c : RowCfg) (ps pe : Nat) :
    ∀ (n idx : Nat), idx + n = pe →
      rowsStream c ps pe n idx = (List.range n).map (fun d => rowsInterval c ps pe ((idx + d : Nat) : Int)) := by
  intro n
  induction n with
  | zero => intro idx _; simp [rowsStream]
  | succ n ih =>
    intro idx h
    have hlt : idx < pe := by omega
    rw [rowsStream, rowsNext_some c ps pe idx hlt]
    simp only
    have := ih (idx + 1) (by omega)
    have e : ((idx : Int) + 1) = ((idx + 1 : Nat) : Int) := by omega
    rw [e, this, List.range_succ_eq_map]
    simp [List.map_map, Function.comp_def, Nat.add_assoc, Nat.add_comm 1]

/-- the partition iterator gets exactly one interval per row of the partition, in row order,
and then `io.EOF` -/
theorem rowsStream_eq (c : RowCfg) (ps pe : Nat) (h : ps ≤ pe) :
    rowsStream c ps pe (pe - ps) ps = (List.range (pe - ps)).map (fun d => rowsInterval c ps pe ((ps + d : Nat) : Int)) :=
  rowsStream_eq_aux c ps pe (pe - ps) ps (by omega)

theorem rowsInterval_le (c : RowCfg) (ps pe idx : Int) :
    (rowsInterval c ps pe idx).1 ≤ (rowsInterval c ps pe idx).2 := by
  simp only [rowsInterval]; (repeat' split) <;> omega

theorem rowsInterval_bounds_partial (c : RowCfg) (ps pe idx : Int) (hp : ps ≤ pe)
    (h : rowsEndBeforePartition c ps pe idx = false) :
    ps ≤ (rowsInterval c ps pe idx).1 ∧ (rowsInterval c ps pe idx).2 ≤ pe := by
  simp only [rowsEndBeforePartition, Bool.and_eq_false_iff, Bool.not_eq_false', decide_eq_false_iff_not] at h
  simp only [rowsInterval]
  cases hu : c.unbFoll <;> cases hv : c.unbPrec <;> simp [hu] at h ⊢ <;> (repeat' split) <;> omega

theorem finding_rows_frame_before_partition :
    ∃ (c : RowCfg) (ps pe idx : Int), ps ≤ idx ∧ idx < pe ∧ (rowsInterval c ps pe idx).2 < ps :=
  ⟨cfgOfBounds (.prec 5) (.prec 3), 0, 4, 0, by decide⟩

/-! ## B. framed aggregates: `Compute` on an in-partition interval = definition on the frame's rows -/

/-- known-defect value classes of the framed aggregates -/
def SumAllNull (vs : List Val) : Prop := vs ≠ [] ∧ nonNull vs = []
def AvgNoValues (vs : List Val) : Prop := nonNull vs = []

theorem aggCompute_eq_spec_partial (f : AggFn) (xs : List Val) (ps a b : Nat) (hab : a ≤ b) (hb : b ≤ xs.length)
    (h1 : f = .sum → ¬ SumAllNull ((xs.drop a).take (b - a)))
    (h2 : f = .avg → ¬ AvgNoValues ((xs.drop a).take (b - a))) :
    aggCompute f xs ps ((ps + a : Nat) : Int) ((ps + b : Nat) : Int) = some (aggSpec f ((xs.drop a).take (b - a))) := by
  have hl : ((xs.drop a).take (b - a)).length = b - a := by simp; omega
  cases f with
  | countStar =>
    simp only [aggCompute, aggSpec]
    rw [computePrefix_gen cntSome rfl cntSome_append _ (xs.map fun _ => some 0)
      (fun n hn => prefixCounts_getD _ 0 n hn |>.trans (by simp)) ps a b hab (by simpa using hb)]
    rw [cntSome_eq_nonNull]
    simp [nonNull, ← List.map_drop, ← List.map_take, List.filterMap_map, hl]
  | count =>
    simp only [aggCompute, aggSpec, specCount]
    rw [computePrefix_gen cntSome rfl cntSome_append _ xs
      (fun n hn => prefixCounts_getD _ 0 n hn |>.trans (by simp)) ps a b hab hb, cntSome_eq_nonNull]
  | sum =>
    simp only [aggCompute, aggSpec, specSum]
    by_cases hab' : a = b
    · subst hab'; simp [nonNull]
    · have : ¬ (((ps + b : Nat) : Int) - ((ps + a : Nat) : Int) < 1) := by omega
      rw [if_neg this, computePrefixSum_eq xs ps a b hab hb, sum0_eq_nonNull]
      have hne : (xs.drop a).take (b - a) ≠ [] := by
        intro h; rw [h] at hl; simp at hl; omega
      have := h1 rfl
      unfold SumAllNull at this
      cases hnn : nonNull ((xs.drop a).take (b - a)) with
      | nil => exact absurd ⟨hne, hnn⟩ this
      | cons y ys => rfl
  | avg =>
    simp only [aggCompute, aggSpec, specAvg]
    rw [nonNullCnt_eq xs ps a b hab hb, computePrefixSum_eq xs ps a b hab hb, sum0_eq_nonNull, cntSome_eq_nonNull]
    have := h2 rfl
    unfold AvgNoValues at this
    cases hnn : nonNull ((xs.drop a).take (b - a)) with
    | nil => exact absurd hnn this
    | cons y ys => simp; omega
  | min =>
    simp only [aggCompute, aggSpec, specMin]
    have : ¬ (((ps + a : Nat) : Int) < 0 ∨ ((ps + b : Nat) : Int) < 0) := by omega
    rw [if_neg this, sliceRel_eq xs ps a b hab, minLoop_eq]
  | max =>
    simp only [aggCompute, aggSpec, specMax]
    rw [sliceRel_eq xs ps a b hab, maxLoop_eq]
  | first =>
    simp only [aggCompute, aggSpec, specFirst]
    by_cases hab' : a = b
    · subst hab'; simp [Res.ofVal]
    · have : ¬ (((ps + b : Nat) : Int) - ((ps + a : Nat) : Int) < 1) := by omega
      rw [if_neg this, sliceRel_eq xs ps a b hab]
  | last =>
    simp only [aggCompute, aggSpec, specLast]
    by_cases hab' : a = b
    · subst hab'; simp [Res.ofVal]
    · have : ¬ (((ps + b : Nat) : Int) - ((ps + a : Nat) : Int) < 1) := by omega
      rw [if_neg this, sliceRel_eq xs ps a b hab]

/-- the guards are decidable on a case and are exactly where the Go code departs from the definition -/
theorem finding_sum_all_null_frame :
    ∃ (xs : List Val) (ps a b : Nat), a ≤ b ∧ b ≤ xs.length ∧
      aggCompute .sum xs ps ((ps + a : Nat) : Int) ((ps + b : Nat) : Int) ≠ some (aggSpec .sum ((xs.drop a).take (b - a))) :=
  ⟨[none, none], 0, 0, 2, by decide⟩

theorem finding_avg_no_values_nan :
    ∃ (xs : List Val) (ps a b : Nat), a ≤ b ∧ b ≤ xs.length ∧
      aggCompute .avg xs ps ((ps + a : Nat) : Int) ((ps + b : Nat) : Int) ≠ some (aggSpec .avg ((xs.drop a).take (b - a))) :=
  ⟨[some 1], 0, 0, 0, by decide⟩

/-- `MinAgg.Compute` slices the buffer: an interval that ends before index 0 panics -/
theorem min_crashes_before_buffer (xs : List Val) (ps s e : Int) (h : e < 0) : aggCompute .min xs ps s e = none := by
  simp [aggCompute, h]

/-- … and `rowFramerBase.Next` produces such an interval (first partition, frame wholly before it):
MIN(x) OVER (ORDER BY id ROWS BETWEEN 5 PRECEDING AND 3 PRECEDING) at the first row -/
theorem finding_rows_frame_before_partition_min :
    aggCompute .min [some 1, some 2] 0 (rowsInterval (cfgOfBounds (.prec 5) (.prec 3)) 0 2 0).1
      (rowsInterval (cfgOfBounds (.prec 5) (.prec 3)) 0 2 0).2 = none := by decide

-- non-vacuity: the hypotheses of `aggCompute_eq_spec_partial` hold on a frame with a NULL and ties
example : aggCompute .sum [some 3, none, some 3, some 5] 7 ((7 + 1 : Nat) : Int) ((7 + 4 : Nat) : Int)
    = some (aggSpec .sum [none, some 3, some 5]) ∧ aggSpec .sum [none, some 3, some 5] = .int 8 := by decide
example : aggCompute .avg [some 3, none, some 4] 0 ((0 + 0 : Nat) : Int) ((0 + 3 : Nat) : Int) = some (.rat 7 2) := by decide
example : rowsMem (.prec 1) (.foll 1) 2 6 2 3 = true ∧ rowsMem (.prec 1) (.foll 1) 2 6 2 4 = false := by decide

/-! ## C. LAG / LEAD -/

theorem xsOf_length (buf : List Row) (ps pe : Nat) (h : pe ≤ buf.length) : (xsOf buf ps pe).length = pe - ps := by
  simp [xsOf]; omega

theorem xsOf_getD (buf : List Row) (ps pe j : Nat) (h : pe ≤ buf.length) (hj : j < pe - ps) :
    (xsOf buf ps pe).getD j none = (buf.getD (ps + j) default).x := by
  unfold xsOf
  have h1 : j < ((buf.drop ps).take (pe - ps)).length := by simp; omega
  rw [List.getD_eq_getElem?_getD, List.getElem?_map, List.getElem?_take_of_lt hj, List.getElem?_drop]
  have h2 : ps + j < buf.length := by omega
  simp [List.getD_eq_getElem?_getD, List.getElem?_eq_getElem h2]

theorem lag_eq_spec (buf : List Row) (ps pe i off : Nat) (d : Val) (h : pe ≤ buf.length) (hi : i < pe - ps) :
    lagCompute buf (ps + i) off d ps pe = lagSpec (xsOf buf ps pe) i off false d := by
  unfold lagCompute lagSpec
  have hse : ¬ (ps > pe) := by omega
  simp only [hse, if_false]
  by_cases ho : off ≤ i
  · have c : (((ps + i : Nat) : Int) - (off : Int) ≥ (ps : Int) ∧ ((ps + i : Nat) : Int) - (off : Int) < (pe : Int)) := by omega
    have e : (((ps + i : Nat) : Int) - (off : Int)).toNat = ps + (i - off) := by omega
    simp only [c, and_self, if_true, ho, e, Bool.false_eq_true, if_false]
    rw [xsOf_getD buf ps pe (i - off) h (by omega)]
  · have c : ¬ (((ps + i : Nat) : Int) - (off : Int) ≥ (ps : Int) ∧ ((ps + i : Nat) : Int) - (off : Int) < (pe : Int)) := by omega
    simp only [c, if_false, ho, Bool.false_eq_true]

theorem lead_eq_spec (buf : List Row) (ps pe i off : Nat) (d : Val) (h : pe ≤ buf.length) (hi : i < pe - ps) :
    lagCompute buf (ps + i) (-(off : Int)) d ps pe = lagSpec (xsOf buf ps pe) i off true d := by
  unfold lagCompute lagSpec
  have hse : ¬ (ps > pe) := by omega
  rw [xsOf_length buf ps pe h]
  simp only [hse, if_false, if_true]
  by_cases ho : i + off < pe - ps
  · have c : (((ps + i : Nat) : Int) - -(off : Int) ≥ (ps : Int) ∧ ((ps + i : Nat) : Int) - -(off : Int) < (pe : Int)) := by omega
    have e : (((ps + i : Nat) : Int) - -(off : Int)).toNat = ps + (i + off) := by omega
    simp only [c, and_self, if_true, ho, e]
    rw [xsOf_getD buf ps pe (i + off) h ho]
  · have c : ¬ (((ps + i : Nat) : Int) - -(off : Int) ≥ (ps : Int) ∧ ((ps + i : Nat) : Int) - -(off : Int) < (pe : Int)) := by omega
    simp only [c, if_false, ho]

-- non-vacuity
example : lagCompute [⟨1, none, none, some 5⟩, ⟨2, none, none, some 6⟩, ⟨3, none, none, none⟩] (1 + 1) 1 (some 9) 1 3 = .int 6 := by decide

/-! ## D. GROUP BY aggregation buffers = definitions -/

section
open Gms.GroupAgg

theorem implEval_eq_specEval_partial (f : GFn) (xs : List Val) (h : f = .jsonArray → xs ≠ []) :
    implEval f xs = specEval f xs := by
  cases f with
  | countStar => simp [implEval, specEval, countStar_fold]
  | count => simp [implEval, specEval, count_fold]
  | sum =>
    simp only [implEval, specEval, sumBuf_fold]
    cases nonNull xs <;> simp [SumBuf.eval]
  | avg =>
    simp only [implEval, specEval, avgBuf_fold]
    cases nonNull xs <;> simp [AvgBuf.eval]
  | min =>
    simp only [implEval, specEval]
    rw [minUpdate_fold, minLoop_eq]
    cases listMin (nonNull xs) <;> rfl
  | max =>
    simp only [implEval, specEval]
    rw [maxUpdate_fold, maxLoop_eq]
    cases listMax (nonNull xs) <;> rfl
  | bitAnd => simp only [implEval, specEval, bit_fold]
  | bitOr => simp only [implEval, specEval, bit_fold]
  | bitXor => simp only [implEval, specEval, bit_fold]
  | gcId => simp only [implEval, specEval, gc_fold, List.nil_append]
  | gcDesc => simp only [implEval, specEval, gc_fold, List.nil_append]
  | gcDistinct =>
    simp only [implEval, specEval, gcDistinct_fold, List.nil_append]
    cases nonNull xs <;> simp [dedup]
  | jsonArray =>
    simp only [implEval, specEval]
    cases xs with
    | nil => exact absurd rfl (h rfl)
    | cons v vs => rfl
  | countDistinct =>
    simp only [implEval, specEval, gcDistinct_fold, List.nil_append]
    have hf : ∀ l : List Int, l.filter (fun n => !([] : List Int).contains n) = l := fun l => by induction l <;> simp_all
    rw [hf]

theorem finding_json_arrayagg_empty_input : implEval .jsonArray [] ≠ specEval .jsonArray [] := by decide

/-- the whole `SELECT [p,] F(x) FROM t [GROUP BY p]`: same groups, each value by the theorem above -/
theorem implQuery_eq_specQuery_partial (f : GFn) (byP : Bool) (rows : List (Val × Val))
    (h : f = .jsonArray → byP = false → rows ≠ []) (hg : ∀ g ∈ groups rows, g.2 ≠ []) :
    Gms.GroupAgg.implQuery f byP rows = Gms.GroupAgg.specQuery f byP rows := by
  unfold Gms.GroupAgg.implQuery Gms.GroupAgg.specQuery
  cases byP with
  | true =>
    simp only [if_true]
    apply List.map_congr_left
    intro g hgm
    rw [implEval_eq_specEval_partial f g.2 (fun _ => hg g hgm)]
  | false =>
    simp only [Bool.false_eq_true, if_false]
    rw [implEval_eq_specEval_partial f _ (fun hf => by
      have := h hf rfl
      intro e
      apply this
      cases rows with
      | nil => rfl
      | cons r rs => simp at e)]

example : implEval .avg [some 1, none, some 2] = .rat 3 2 := by decide
example : implEval .gcDistinct [some 3, some 1, none, some 3] = .text [1, 3] "," := by decide

end

/-! ## D2. Aggregates over shared value objects (DECIMAL cells): read-only statements, independent results

`Gms.DecAgg`: the table stores objects, a buffer holds either an object of its own or the stored object a
row evaluation returned. The policy the compiled code has is read off the regenerated run-time fact
`aggAlias` (`facts_alias`); for that policy every statement of a script is the definition on the table's
*values* and leaves every stored object as it was, whatever ran before (`dec_script_eq_spec`). The other
policy (the first value of a group becomes the accumulator) is expressible in the same model and breaks
both halves (`adopt_corrupts_statement`, `adopt_rerun_differs`). -/

section
open Gms.DecAgg Gms.GroupAgg

/-- the policy of the freshly compiled buffers, from the alias probe (`none` if the probe has neither shape) -/
def compiledPolicy : Option Policy := policyOf Gms.Generated.C08.aggAlias

/-- regenerated fact: three distinct `*apd.Decimal` objects through every buffer — no input is changed,
SUM/AVG return an object of their own, MIN/MAX/ANY_VALUE return one of the inputs, and the values are the
definitions. Exactly what the model computes with `fresh` accumulators. -/
theorem facts_alias : Gms.Generated.C08.aggAlias = probeTable .fresh ∧ compiledPolicy = some .fresh := by
  decide

/-- a read-only aggregate statement leaves the heap of stored objects unchanged -/
theorem dec_stmt_preserves_table (h : Heap) (rows : List TRow) (st : Stmt) :
    (runStmt .fresh h rows st).1 = h := by
  simp [runStmt, runGroups_fresh]

theorem specFn_eq (h : Heap) (f : Gms.DecAgg.Fn) (vs : List (Option Nat)) :
    (vs.foldl (upd h) { fn := f }).eval h = specFn f (vs.map (Option.map (rd h))) := by
  rw [bufFold_eval]
  cases f <;> simp only [specFn, deref]
  all_goals first | rfl | (rw [implEval_eq_specEval_partial]; intro hc; cases hc)

/-- … and every cell of its result is the definition on the values of the group -/
theorem dec_stmt_eq_spec (h : Heap) (rows : List TRow) (st : Stmt) :
    (runStmt .fresh h rows st).2 = specStmt h rows st := by
  simp only [runStmt, runGroups_fresh, specStmt, List.map_map]
  apply List.map_congr_left
  intro g _
  simp only [Function.comp, initBufs, List.map_map]
  congr 1
  apply List.map_congr_left
  intro f _
  exact specFn_eq h f g.2

/-- a whole script: every statement returns the definition on the *initial* table and every dump is the
initial table — results of successive statements do not depend on what was executed before -/
theorem dec_script_eq_spec (h : Heap) (rows : List TRow) : ∀ (sts : List Stmt),
    runScript .fresh h rows sts = specScript h rows sts
  | [] => rfl
  | st :: rest => by
    have e : runStmt .fresh h rows st = (h, specStmt h rows st) :=
      Prod.ext (dec_stmt_preserves_table h rows st) (dec_stmt_eq_spec h rows st)
    simp only [runScript, e, dec_script_eq_spec h rows rest, specScript, List.map_cons]

/-- the same statement twice in a script returns the same rows -/
theorem dec_rerun_same (h : Heap) (rows : List TRow) (st : Stmt) :
    (runScript .fresh h rows [st, st]).map (·.1) = [specStmt h rows st, specStmt h rows st] := by
  rw [dec_script_eq_spec]; rfl

/-- the statement is stated for the policy the compiled code exhibits (`facts_alias`) -/
theorem dec_script_compiled (h : Heap) (rows : List TRow) (sts : List Stmt) :
    ∀ pol, compiledPolicy = some pol → runScript pol h rows sts = specScript h rows sts := by
  intro pol hp
  rw [facts_alias.2] at hp
  cases hp
  exact dec_script_eq_spec h rows sts

/-- non-vacuity + expressiveness: one group 1.50, 2.25, 10.00 -/
def decDemo : Heap × List TRow := mkTable [(1, some 1, some 150), (2, some 1, some 225), (3, some 1, some 1000)] []
def decAll : Stmt := { byP := true, fns := [.sum, .min, .max, .avg] }

example : runScript .fresh decDemo.1 decDemo.2 [decAll, decAll] =
    [([(some 1, [.int 1375, .int 150, .int 1000, .rat 1375 3])], [(1, some 150), (2, some 225), (3, some 1000)]),
     ([(some 1, [.int 1375, .int 150, .int 1000, .rat 1375 3])], [(1, some 150), (2, some 225), (3, some 1000)])] := by
  decide

/-- adopting the first value as the accumulator: SUM and AVG add into the *same* stored object, MAX holds a
reference to it (26.00 / 2.25 / 26.00 / 8.67 instead of 13.75 / 1.50 / 10.00 / 4.58 — the values the engine
returns with such a buffer), and the stored row is overwritten -/
theorem adopt_corrupts_statement :
    runStmt .adopt decDemo.1 decDemo.2 decAll =
      ([2600, 225, 1000], [(some 1, [.int 2600, .int 225, .int 2600, .rat 2600 3])]) ∧
    runStmt .adopt decDemo.1 decDemo.2 decAll ≠ (decDemo.1, specStmt decDemo.1 decDemo.2 decAll) := by
  decide

/-- `SELECT p, SUM(d) … GROUP BY p` alone is right the first time and wrong the second time -/
theorem adopt_rerun_differs :
    (runScript .adopt decDemo.1 decDemo.2 [{ byP := true, fns := [.sum] }, { byP := true, fns := [.sum] }]).map (·.1) =
      [[(some 1, [.int 1375])], [(some 1, [.int 2600])]] := by
  decide

end

/-! ## E. NTILE and the rank family -/

def ntileOK (count k : Nat) : Bool :=
  ntileRun count (ntileStart {} count k) == (List.range count).map (specNtile count k) &&
  (ntileAfter count (ntileStart {} count k)).bigBuckets == 0

/-- NTILE state machine (`NTile.StartPartition`/`Compute`, with the `pos` reset trick) = definition
(the first `count % k` buckets have `count / k + 1` rows, the others `count / k`), and no stale
`bigBuckets` is left for the next partition: checked for every partition size ≤ 16 and every bucket
count 1..18 (a complete finite table; the statement for all sizes is not proved, see the report). -/
theorem ntile_spec_bounded : ∀ count < 17, ∀ k < 18, ntileOK count (k + 1) = true := by decide

/-- `rankBase.Compute` (with its `pos == 0` and single-row special cases) is "rows before the peer
group + 1" whenever the framer hands it the peer group `[s, e)` of the row at `pos`. -/
theorem rankCompute_eq (pos ps pe s e : Nat) (h1 : ps ≤ s) (h2 : s ≤ pos) (h3 : pos < e) (h4 : e ≤ pe) :
    rankCompute pos ps pe s e = some (s - ps + 1) := by
  unfold rankCompute
  have a : ¬ ((e : Int) - s < 1) := by omega
  rw [if_neg a]
  by_cases hp : pos = 0
  · rw [if_pos hp]; congr 1; omega
  · rw [if_neg hp]
    by_cases hq : pe - ps = 1
    · rw [if_pos hq]; congr 1; omega
    · rw [if_neg hq]

/-- DENSE_RANK increments exactly when RANK changes and restarts at 1 with every partition. -/
theorem denseStep_first (st : DenseState) : denseStep st 1 = (1, { prevRank := 1, denseRank := 1 }) := by
  simp [denseStep]
theorem denseStep_same (st : DenseState) (r : Nat) (h1 : r ≠ 1) (h : r = st.prevRank) : denseStep st r = (st.denseRank, st) := by
  unfold denseStep
  rw [if_neg h1, if_neg (by simpa using h)]
theorem denseStep_new (st : DenseState) (r : Nat) (h1 : r ≠ 1) (h : r ≠ st.prevRank) :
    denseStep st r = (st.denseRank + 1, { prevRank := r, denseRank := st.denseRank + 1 }) := by
  unfold denseStep
  rw [if_neg h1, if_pos h]

example : ntileRun 7 (ntileStart {} 7 3) = [1, 1, 1, 2, 2, 3, 3] := by decide
example : rankCompute 4 2 7 3 6 = some 2 := by decide

/-! ### NTILE, general statement -/

/-- NTILE by definition, as a bucket counter: `left` rows remain in the current bucket `bucket`;
`g` = number of big buckets (size `bs + 1`) among the current and the following buckets; when a
bucket is full the next one starts, big iff big buckets remain. -/
def ntileGen (bs : Nat) : (g left bucket : Nat) → (k : Nat) → List Nat
  | _, _, _, 0 => []
  | g, left + 1, bucket, k + 1 => bucket :: ntileGen bs g left bucket k
  | g, 0, bucket, k + 1 =>
    (bucket + 1) :: ntileGen bs (g - 1) ((if g - 1 > 0 then bs + 1 else bs) - 1) (bucket + 1) k

theorem mod_zero_iff_left (pos left w : Nat) (hw : left < w) (h : (pos + left) % w = 0) :
    pos % w = 0 ↔ left = 0 := by
  constructor
  · intro hp
    have : (pos + left) % w = left := by
      rw [Nat.add_mod, hp, Nat.zero_add, Nat.mod_mod, Nat.mod_eq_of_lt hw]
    omega
  · intro hl; subst hl; simpa using h

/-- the simulation relation between the Go state and the bucket counter (after the first row) -/
def NRel (bs : Nat) (st : NtileState) (g left : Nat) : Prop :=
  st.bucketSize = bs ∧ st.bigBuckets = g ∧ st.pos ≥ 1 ∧
  (g > 0 → left ≤ bs ∧ (st.pos + left) % (bs + 1) = 0) ∧
  (g = 0 → left + 1 ≤ bs ∧ (st.pos + left) % bs = 0)

theorem ntileRun_sim (bs : Nat) (hbs : bs ≥ 1) :
    ∀ (k : Nat) (st : NtileState) (g left : Nat), NRel bs st g left →
      ntileRun k st = ntileGen bs g left st.bucket k := by
  intro k
  induction k with
  | zero => intro st g left _; cases left <;> rfl
  | succ k ih =>
    intro st g left hrel
    obtain ⟨h1, h2, h3, h4, h5⟩ := hrel
    have hpos : st.pos ≠ 0 := by omega
    cases left with
    | succ left =>
      -- rows remain in the current bucket: the Go code must take the last branch
      have hstep : ntileStep st = (st.bucket, { st with pos := st.pos + 1 }) := by
        unfold ntileStep
        rw [if_neg hpos]
        by_cases hg : g > 0
        · have ⟨hl, hm⟩ := h4 hg
          have hne : ¬ (st.pos % (st.bucketSize + 1) = 0) := by
            rw [h1]; intro hz
            have := (mod_zero_iff_left st.pos (left + 1) (bs + 1) (by omega) hm).mp hz
            omega
          rw [if_neg (fun hh => hne hh.2)]
          have : ¬ (st.bigBuckets = 0 ∧ st.pos % st.bucketSize = 0) := by omega
          rw [if_neg this]
        · have hg0 : g = 0 := by omega
          have ⟨hl, hm⟩ := h5 hg0
          have : ¬ (st.bigBuckets > 0 ∧ st.pos % (st.bucketSize + 1) = 0) := by omega
          rw [if_neg this]
          have hne : ¬ (st.pos % st.bucketSize = 0) := by
            rw [h1]; intro hz
            have := (mod_zero_iff_left st.pos (left + 1) bs (by omega) hm).mp hz
            omega
          rw [if_neg (fun hh => hne hh.2)]
      simp only [ntileRun, ntileGen, hstep]
      congr 1
      apply ih { st with pos := st.pos + 1 } g left
      refine ⟨h1, h2, by simp, ?_, ?_⟩
      · intro hg
        have ⟨hl, hm⟩ := h4 hg
        refine ⟨by omega, ?_⟩
        have e : st.pos + 1 + left = st.pos + (left + 1) := by omega
        simp only [e]; exact hm
      · intro hg
        have ⟨hl, hm⟩ := h5 hg
        refine ⟨by omega, ?_⟩
        have e : st.pos + 1 + left = st.pos + (left + 1) := by omega
        simp only [e]; exact hm
    | zero =>
      by_cases hg : g > 0
      · -- a big bucket is full: branch 2 of the Go code
        have ⟨_, hm⟩ := h4 hg
        have hz : st.pos % (st.bucketSize + 1) = 0 := by
          rw [h1]; exact (mod_zero_iff_left st.pos 0 (bs + 1) (by omega) hm).mpr rfl
        have hstep : ntileStep st = (st.bucket + 1,
            { st with bucket := st.bucket + 1, bigBuckets := st.bigBuckets - 1,
                      pos := (if st.bigBuckets - 1 = 0 then 0 else st.pos) + 1 }) := by
          unfold ntileStep
          rw [if_neg hpos, if_pos ⟨by omega, hz⟩]
        simp only [ntileRun, ntileGen, hstep]
        congr 1
        apply ih _ (g - 1) ((if g - 1 > 0 then bs + 1 else bs) - 1)
        refine ⟨h1, by simp [h2], by simp, ?_, ?_⟩
        · intro hg'
          have hne : ¬ (st.bigBuckets - 1 = 0) := by omega
          simp only [hg', if_true, hne, if_false]
          refine ⟨by omega, ?_⟩
          have e : st.pos + 1 + (bs + 1 - 1) = st.pos + (bs + 1) := by omega
          rw [e, Nat.add_mod_right]
          simpa using hm
        · intro hg'
          have he : st.bigBuckets - 1 = 0 := by omega
          have hng : ¬ (g - 1 > 0) := by omega
          simp only [hng, if_false, he, if_true]
          refine ⟨by omega, ?_⟩
          have e : 0 + 1 + (bs - 1) = bs := by omega
          rw [e, Nat.mod_self]
      · -- a small bucket is full: branch 3
        have hg0 : g = 0 := by omega
        have ⟨_, hm⟩ := h5 hg0
        have hz : st.pos % st.bucketSize = 0 := by
          rw [h1]; exact (mod_zero_iff_left st.pos 0 bs (by omega) hm).mpr rfl
        have hstep : ntileStep st = (st.bucket + 1, { st with bucket := st.bucket + 1, pos := st.pos + 1 }) := by
          unfold ntileStep
          rw [if_neg hpos]
          have : ¬ (st.bigBuckets > 0 ∧ st.pos % (st.bucketSize + 1) = 0) := by omega
          rw [if_neg this, if_pos ⟨by omega, hz⟩]
        simp only [ntileRun, ntileGen, hstep]
        congr 1
        have hng : ¬ (g - 1 > 0) := by omega
        simp only [hng, if_false]
        have hg1 : g - 1 = 0 := by omega
        rw [hg1]
        apply ih _ 0 (bs - 1)
        refine ⟨h1, by simp [h2, hg0], by simp, fun hh => by omega, ?_⟩
        intro _
        refine ⟨by omega, ?_⟩
        have e : st.pos + 1 + (bs - 1) = st.pos + bs := by omega
        rw [e, Nat.add_mod_right]
        simpa using hm

/-- NTILE(n) over `count` rows by definition: the first `count % n` buckets are big -/
def specNtileGen (count n : Nat) : List Nat :=
  ntileGen (count / n) (count % n) (if count % n > 0 then count / n + 1 else count / n) 1 count

theorem ntileGen_iota0 (g : Nat) : ∀ (k b : Nat), ntileGen 0 g 0 b k = List.range' (b + 1) k := by
  intro k
  induction k generalizing g with
  | zero => intro b; rfl
  | succ k ih =>
    intro b
    simp only [ntileGen, List.range'_succ]
    congr 1
    have : (if g - 1 > 0 then 0 + 1 else 0) - 1 = 0 := by split <;> omega
    rw [this]
    exact ih (g - 1) (b + 1)

theorem ntileGen_iota1 : ∀ (k b : Nat), ntileGen 1 0 0 b k = List.range' (b + 1) k := by
  intro k
  induction k with
  | zero => intro b; rfl
  | succ k ih =>
    intro b
    simp only [ntileGen, List.range'_succ]
    congr 1
    exact ih (b + 1)

/-- **NTILE = definition, for every partition size and every bucket count**: the Go state machine
(`StartPartition` + `Compute`, including the `pos` reset when the big buckets are used up) emits
exactly the bucket-counter sequence. (`st.bigBuckets = 0`: `StartPartition` leaves `bigBuckets`
untouched when there are more buckets than rows; see `ntile_spec_bounded` for the chaining.) -/
theorem ntile_eq_definition (st : NtileState) (count n : Nat) (hn : n ≥ 1) (hst : st.bigBuckets = 0) :
    ntileRun count (ntileStart st count n) = specNtileGen count n := by
  cases count with
  | zero => rfl
  | succ k =>
    unfold ntileStart specNtileGen
    by_cases hgt : n > k + 1
    · -- more buckets than rows: bucketSize := 1, every row its own bucket
      rw [if_pos hgt]
      have hdiv : (k + 1) / n = 0 := Nat.div_eq_of_lt hgt
      have hmod : (k + 1) % n = k + 1 := Nat.mod_eq_of_lt hgt
      rw [hdiv, hmod]
      have hsz : (if k + 1 > 0 then 0 + 1 else 0) = 1 := by simp
      rw [hsz]
      simp only [ntileRun, ntileStep, if_true, ntileGen]
      congr 1
      rw [ntileGen_iota0]
      have hrel : NRel 1 { st with bucketSize := 1, pos := 0 + 1, bucket := 1 } 0 0 :=
        ⟨rfl, hst, by simp, fun h => by omega, fun _ => ⟨by omega, by simp⟩⟩
      have := ntileRun_sim 1 (by omega) k _ 0 0 hrel
      simp only at this
      rw [show ({ bucketSize := 1, pos := 0, bucket := 1, bigBuckets := st.bigBuckets } : NtileState).pos + 1 = 0 + 1 from rfl]
      rw [this, ntileGen_iota1]
    · rw [if_neg hgt]
      have hbs : (k + 1) / n ≥ 1 := by
        have : n ≤ k + 1 := by omega
        exact (Nat.one_le_div_iff (by omega)).mpr this
      generalize hb : (k + 1) / n = bs at hbs ⊢
      generalize hr : (k + 1) % n = r
      by_cases hr0 : r > 0
      · simp only [hr0, if_true, ntileRun, ntileStep, ntileGen]
        congr 1
        have hrel : NRel bs { bucketSize := bs, bigBuckets := r, pos := 0 + 1, bucket := 1 } r bs :=
          ⟨rfl, rfl, by simp, fun _ => ⟨Nat.le_refl _, by simp [Nat.add_comm 1 bs]⟩, fun h => by omega⟩
        exact ntileRun_sim bs hbs k _ r bs hrel
      · have hr00 : r = 0 := by omega
        subst hr00
        simp only [Nat.lt_irrefl, if_false, ntileRun, ntileStep, if_true]
        obtain ⟨b', hb'⟩ : ∃ b', bs = b' + 1 := ⟨bs - 1, by omega⟩
        subst hb'
        simp only [ntileGen]
        congr 1
        have hrel : NRel (b' + 1) { bucketSize := b' + 1, bigBuckets := 0, pos := 0 + 1, bucket := 1 } 0 b' :=
          ⟨rfl, rfl, by simp, fun h => by omega, fun _ => ⟨Nat.le_refl _, by simp [Nat.add_comm 1 b']⟩⟩
        exact ntileRun_sim (b' + 1) hbs k _ 0 b' hrel

example : specNtileGen 7 3 = [1, 1, 1, 2, 2, 3, 3] := by decide
example : specNtileGen 3 5 = [1, 2, 3] := by decide

/-- the bucket-counter definition and the closed form printed by the driver agree (complete finite table) -/
theorem specNtileGen_closed_form_bounded :
    ∀ count < 17, ∀ k < 18, specNtileGen count (k + 1) = (List.range count).map (specNtile count (k + 1)) := by decide

/-! ### two NTILEs over one window (the planner identifies window functions without their argument) -/

def ntileQ (part : Bool) (n : Nat) : Query :=
  { part := part, ord := [{ col := .id, desc := false }], frame := .none, fn := .ntile n }

/-- finding ntile_shared_window_dedup: the engine serves the second NTILE column from the first one;
that differs from the definition as soon as the bucket counts differ -/
theorem finding_ntile_shared_window_dedup :
    ∃ (rows : List Row) (n1 n2 : Nat), specQuery (ntileQ false n1) rows ≠ specQuery (ntileQ false n2) rows :=
  ⟨[⟨1, none, none, none⟩, ⟨2, none, none, none⟩, ⟨3, none, none, none⟩], 3, 1, by decide⟩

theorem ntile_shared_window_partial (rows : List Row) (part : Bool) (n1 n2 : Nat) (h : n1 = n2) :
    specQuery (ntileQ part n1) rows = specQuery (ntileQ part n2) rows := by rw [h]

/-! ## F. RANGE framer (sliding search) = definition by key distance -/

/-- characterisation of the boundary scan (`findInclusionBoundary`'s loop): the first index `≥ i`
that is `≥ pe` or whose key compares `≥ stop` to `cur`; nothing before it does -/
theorem scan_char (keys : List Val) (cur : Val) (stop : Int) (pe : Nat) :
    ∀ (fuel i : Nat), i ≤ pe → pe + 1 - i ≤ fuel →
      i ≤ scanBoundary keys cur stop pe fuel i ∧ scanBoundary keys cur stop pe fuel i ≤ pe ∧
      (∀ j, i ≤ j → j < scanBoundary keys cur stop pe fuel i → ¬ (cmpNullGreater (keys.getD j none) cur ≥ stop)) ∧
      (scanBoundary keys cur stop pe fuel i < pe →
        cmpNullGreater (keys.getD (scanBoundary keys cur stop pe fuel i) none) cur ≥ stop) := by
  intro fuel
  induction fuel with
  | zero => intro i h1 h2; omega
  | succ fuel ih =>
    intro i h1 h2
    unfold scanBoundary
    by_cases hi : i ≥ pe
    · rw [if_pos hi]
      refine ⟨Nat.le_refl _, by omega, ?_, ?_⟩
      · intro j hj1 hj2; omega
      · intro h; omega
    · rw [if_neg hi]
      by_cases hc : cmpNullGreater (keys.getD i none) cur ≥ stop
      · rw [if_pos hc]
        refine ⟨Nat.le_refl _, by omega, ?_, fun _ => hc⟩
        intro j hj1 hj2; omega
      · rw [if_neg hc]
        have := ih (i + 1) (by omega) (by omega)
        refine ⟨by omega, this.2.1, ?_, this.2.2.2⟩
        intro j hj1 hj2
        by_cases hji : j = i
        · subst hji; exact hc
        · exact this.2.2.1 j (by omega) hj2

theorem cmp_ge0 (x t : Int) : cmpNullGreater (some x) (some t) ≥ 0 ↔ t ≤ x := by
  simp only [cmpNullGreater]; split <;> (try split) <;> omega
theorem cmp_ge1 (x t : Int) : cmpNullGreater (some x) (some t) ≥ 1 ↔ t < x := by
  simp only [cmpNullGreater]; split <;> (try split) <;> omega

section RangeFramer
variable (keys : List Val) (K : Nat → Int) (ps pe : Nat)

/-- the partition `[ps, pe)` has non-NULL keys `K j`, ascending -/
def SortedPart : Prop :=
  (∀ j, ps ≤ j → j < pe → keys.getD j none = some (K j)) ∧ (∀ i j, ps ≤ i → i ≤ j → j < pe → K i ≤ K j)

theorem find_ge (h : SortedPart keys K ps pe) (idx ss : Nat) (off : Int)
    (hidx1 : ps ≤ idx) (hidx2 : idx < pe) (hss1 : ps ≤ ss) (hss2 : ss ≤ pe)
    (hpre : ∀ j, ps ≤ j → j < ss → K j < K idx + off) :
    ss ≤ findInclusionBoundary keys idx ss pe off 0 ∧ findInclusionBoundary keys idx ss pe off 0 ≤ pe ∧
    ∀ j, ps ≤ j → j < pe → (findInclusionBoundary keys idx ss pe off 0 ≤ j ↔ K idx + off ≤ K j) := by
  unfold findInclusionBoundary
  rw [h.1 idx hidx1 hidx2]
  simp only [addOff, Option.map_some]
  have sc := scan_char keys (some (K idx + off)) 0 pe (pe + 1 - ss) ss hss2 (Nat.le_refl _)
  generalize scanBoundary keys (some (K idx + off)) 0 pe (pe + 1 - ss) ss = r at sc
  obtain ⟨h1, h2, h3, h4⟩ := sc
  refine ⟨h1, h2, ?_⟩
  intro j hj1 hj2
  constructor
  · intro hrj
    have hr : r < pe := by omega
    have hit := h4 hr
    rw [h.1 r (by omega) hr, cmp_ge0] at hit
    have := h.2 r j (by omega) hrj hj2
    omega
  · intro hkj
    by_cases hjr : r ≤ j
    · exact hjr
    · exfalso
      by_cases hjs : ss ≤ j
      · have := h3 j hjs (by omega)
        rw [h.1 j hj1 hj2, cmp_ge0] at this
        omega
      · have := hpre j hj1 (by omega)
        omega

theorem find_gt (h : SortedPart keys K ps pe) (idx m S : Nat) (off : Int)
    (hidx1 : ps ≤ idx) (hidx2 : idx < pe) (hS1 : ps ≤ S) (hSm : S ≤ m) (hm : m ≤ pe)
    (hpre : ∀ j, ps ≤ j → j < m → K j ≤ K idx + off ∨ j < S) :
    m ≤ findInclusionBoundary keys idx m pe off 1 ∧ findInclusionBoundary keys idx m pe off 1 ≤ pe ∧
    (∀ j, ps ≤ j → j < pe → S ≤ j → (j < findInclusionBoundary keys idx m pe off 1 ↔ K j ≤ K idx + off)) ∧
    (∀ j, ps ≤ j → j < findInclusionBoundary keys idx m pe off 1 → K j ≤ K idx + off ∨ j < S) := by
  unfold findInclusionBoundary
  rw [h.1 idx hidx1 hidx2]
  simp only [addOff, Option.map_some]
  have sc := scan_char keys (some (K idx + off)) 1 pe (pe + 1 - m) m hm (Nat.le_refl _)
  generalize scanBoundary keys (some (K idx + off)) 1 pe (pe + 1 - m) m = r at sc
  obtain ⟨h1, h2, h3, h4⟩ := sc
  have hinv : ∀ j, ps ≤ j → j < r → K j ≤ K idx + off ∨ j < S := by
    intro j hj1 hj2
    by_cases hjm : j < m
    · exact hpre j hj1 hjm
    · have := h3 j (by omega) hj2
      rw [h.1 j hj1 (by omega), cmp_ge1] at this
      left; omega
  refine ⟨h1, h2, ?_, hinv⟩
  intro j hj1 hj2 hSj
  constructor
  · intro hjr
    rcases hinv j hj1 hjr with hh | hh
    · exact hh
    · omega
  · intro hkj
    by_cases hjr : j < r
    · exact hjr
    · exfalso
      have hr : r < pe := by omega
      have hit := h4 hr
      rw [h.1 r (by omega) hr, cmp_ge1] at hit
      have := h.2 r j (by omega) (by omega) hj2
      omega

/-- invariant of the sliding window w.r.t. the key `v` of the current row -/
def RInv (c : RangeCfg) (st : RangeState) (v : Int) : Prop :=
  ps ≤ st.frameStart ∧ st.frameStart ≤ pe ∧ st.frameEnd ≤ pe ∧
  (c.unbPrec = false → ∀ j, ps ≤ j → j < st.frameStart → K j < v + c.startOff) ∧
  (c.unbFoll = false → ∀ j, ps ≤ j → j < st.frameEnd →
    K j ≤ v + c.endOff ∨ (c.unbPrec = false ∧ K j < v + c.startOff))

theorem rinv_mono (c : RangeCfg) (st : RangeState) (v w : Int) (hvw : v ≤ w) (h : RInv K ps pe c st v) :
    RInv K ps pe c st w := by
  obtain ⟨h1, h2, h3, h4, h5⟩ := h
  refine ⟨h1, h2, h3, ?_, ?_⟩
  · intro hu j hj1 hj2; have := h4 hu j hj1 hj2; omega
  · intro hu j hj1 hj2
    rcases h5 hu j hj1 hj2 with hh | ⟨hh1, hh2⟩
    · left; omega
    · right; exact ⟨hh1, by omega⟩

/-- one `rangeFramerBase.Next`: the interval is the frame by key distance, and the invariant is kept -/
theorem rangeNext_step (h : SortedPart keys K ps pe) (c : RangeCfg) (ho : c.hasOrder = true) (st : RangeState)
    (hidx1 : ps ≤ st.idx) (hidx2 : st.idx < pe) (hinv : RInv K ps pe c st (K st.idx)) :
    ∃ S E, rangeNext c keys ps pe st = some ((S, E), { idx := st.idx + 1, frameStart := S, frameEnd := E }) ∧
      RInv K ps pe c { idx := st.idx + 1, frameStart := S, frameEnd := E } (K st.idx) ∧
      ∀ j, ps ≤ j → j < pe →
        ((S ≤ j ∧ j < E) ↔ ((c.unbPrec = true ∨ K st.idx + c.startOff ≤ K j) ∧ (c.unbFoll = true ∨ K j ≤ K st.idx + c.endOff))) := by
  obtain ⟨i1, i2, i3, i4, i5⟩ := hinv
  have hnoeof : ¬ (st.idx ≠ 0 ∧ st.idx ≥ pe) := by omega
  have hfs : ¬ (st.frameStart < ps) := by omega
  -- the start boundary
  have hstart : ∃ S, (if st.frameStart < ps ∨ c.unbPrec = true ∨ (c.startCur = true ∧ ¬ c.hasOrder = true) then ps
        else findInclusionBoundary keys st.idx st.frameStart pe c.startOff 0) = S ∧
      ps ≤ S ∧ S ≤ pe ∧ (c.unbPrec = true → S = ps) ∧ (c.unbPrec = false → st.frameStart ≤ S) ∧
      (c.unbPrec = false → ∀ j, ps ≤ j → j < pe → (S ≤ j ↔ K st.idx + c.startOff ≤ K j)) := by
    cases hu : c.unbPrec with
    | true => exact ⟨ps, by simp, Nat.le_refl _, by omega, fun _ => rfl, fun hh => by simp at hh, fun hh => by simp at hh⟩
    | false =>
      have hcond : ¬ (st.frameStart < ps ∨ false = true ∨ (c.startCur = true ∧ ¬ c.hasOrder = true)) := by
        simp [ho]; omega
      have fg := find_ge keys K ps pe h st.idx st.frameStart c.startOff hidx1 hidx2 i1 i2 (i4 hu)
      exact ⟨_, by rw [if_neg hcond], by omega, fg.2.1, fun hh => by simp at hh, fun _ => fg.1, fun _ => fg.2.2⟩
  obtain ⟨S, hSeq, hS1, hS2, hSup, hSfs, hSchar⟩ := hstart
  -- the end boundary
  let m := if S > st.frameEnd then S else st.frameEnd
  have hm1 : S ≤ m := by simp only [m]; split <;> omega
  have hm2 : m ≤ pe := by simp only [m]; split <;> omega
  have hm3 : st.frameEnd ≤ m := by simp only [m]; split <;> omega
  have hend : ∃ E, (if m > pe ∨ c.unbFoll = true ∨ (c.endCur = true ∧ ¬ c.hasOrder = true) then pe
        else findInclusionBoundary keys st.idx m pe c.endOff 1) = E ∧ E ≤ pe ∧
      (∀ j, ps ≤ j → j < pe → S ≤ j → (j < E ↔ (c.unbFoll = true ∨ K j ≤ K st.idx + c.endOff))) ∧
      (c.unbFoll = false → ∀ j, ps ≤ j → j < E → K j ≤ K st.idx + c.endOff ∨ (c.unbPrec = false ∧ K j < K st.idx + c.startOff)) := by
    cases hu : c.unbFoll with
    | true =>
      refine ⟨pe, by simp, Nat.le_refl _, ?_, fun hh => by simp at hh⟩
      intro j _ hj2 _
      simp [hj2]
    | false =>
      have hcond : ¬ (m > pe ∨ false = true ∨ (c.endCur = true ∧ ¬ c.hasOrder = true)) := by
        simp [ho]; omega
      have hpre : ∀ j, ps ≤ j → j < m → K j ≤ K st.idx + c.endOff ∨ j < S := by
        intro j hj1 hj2
        by_cases hjS : j < S
        · right; exact hjS
        · have hjfe : j < st.frameEnd := by
            simp only [m] at hj2
            split at hj2 <;> omega
          rcases i5 hu j hj1 hjfe with hh | ⟨hh1, hh2⟩
          · left; exact hh
          · exfalso
            have := (hSchar hh1 j hj1 (by omega)).mp (by omega)
            omega
      have fg := find_gt keys K ps pe h st.idx m S c.endOff hidx1 hidx2 hS1 hm1 hm2 hpre
      refine ⟨_, by rw [if_neg hcond], fg.2.1, ?_, ?_⟩
      · intro j hj1 hj2 hSj
        rw [fg.2.2.1 j hj1 hj2 hSj]
        simp
      · intro _ j hj1 hj2
        rcases fg.2.2.2 j hj1 hj2 with hh | hh
        · left; exact hh
        · cases hup : c.unbPrec with
          | true => have := hSup hup; omega
          | false =>
            right
            refine ⟨rfl, ?_⟩
            have := (hSchar hup j hj1 (by omega))
            by_cases hle : K st.idx + c.startOff ≤ K j
            · have := this.mpr hle; omega
            · omega
  obtain ⟨E, hEeq, hE1, hEchar, hEinv⟩ := hend
  refine ⟨S, E, ?_, ?_, ?_⟩
  · unfold rangeNext
    rw [if_neg hnoeof]
    simp only
    have e1 : (if st.frameStart < ps ∨ c.unbPrec = true ∨ (c.startCur = true ∧ ¬ c.hasOrder = true) then ps
        else findInclusionBoundary keys st.idx st.frameStart pe c.startOff 0) = S := hSeq
    rw [e1]
    have e2 : (if (if S > st.frameEnd then S else st.frameEnd) > pe ∨ c.unbFoll = true ∨ (c.endCur = true ∧ ¬ c.hasOrder = true) then pe
        else findInclusionBoundary keys st.idx (if S > st.frameEnd then S else st.frameEnd) pe c.endOff 1) = E := hEeq
    rw [e2]
  · refine ⟨hS1, hS2, hE1, ?_, hEinv⟩
    intro hu j hj1 hj2
    have hj2 : j < S := hj2
    have := hSchar hu j hj1 (by omega)
    by_cases hle : K st.idx + c.startOff ≤ K j
    · have := this.mpr hle; omega
    · omega
  · intro j hj1 hj2
    constructor
    · intro ⟨hSj, hjE⟩
      constructor
      · cases hup : c.unbPrec with
        | true => left; rfl
        | false => right; exact (hSchar hup j hj1 hj2).mp hSj
      · exact (hEchar j hj1 hj2 hSj).mp hjE
    · intro ⟨hlo, hhi⟩
      have hSj : S ≤ j := by
        cases hup : c.unbPrec with
        | true => have := hSup hup; omega
        | false =>
          rcases hlo with hh | hh
          · rw [hup] at hh; simp at hh
          · exact (hSchar hup j hj1 hj2).mpr hh
      exact ⟨hSj, (hEchar j hj1 hj2 hSj).mpr hhi⟩

end RangeFramer

theorem rangeStream_spec (keys : List Val) (K : Nat → Int) (ps pe : Nat) (h : SortedPart keys K ps pe)
    (c : RangeCfg) (ho : c.hasOrder = true) :
    ∀ (n : Nat) (st : RangeState), ps ≤ st.idx → st.idx + n = pe → (n > 0 → RInv K ps pe c st (K st.idx)) →
      (rangeStream c keys ps pe n st).length = n ∧
      ∀ d, d < n → ∀ j, ps ≤ j → j < pe →
        ((((rangeStream c keys ps pe n st).getD d (0, 0)).1 ≤ j ∧ j < ((rangeStream c keys ps pe n st).getD d (0, 0)).2) ↔
          ((c.unbPrec = true ∨ K (st.idx + d) + c.startOff ≤ K j) ∧ (c.unbFoll = true ∨ K j ≤ K (st.idx + d) + c.endOff))) := by
  intro n
  induction n with
  | zero => intro st _ _ _; exact ⟨rfl, fun d hd => by omega⟩
  | succ n ih =>
    intro st h1 h2 h3
    have hlt : st.idx < pe := by omega
    obtain ⟨S, E, hnext, hinv', hmem⟩ := rangeNext_step keys K ps pe h c ho st h1 hlt (h3 (by omega))
    have hstream : rangeStream c keys ps pe (n + 1) st
        = (S, E) :: rangeStream c keys ps pe n { idx := st.idx + 1, frameStart := S, frameEnd := E } := by
      rw [rangeStream, hnext]
    have hih := ih { idx := st.idx + 1, frameStart := S, frameEnd := E } (by simp; omega) (by simp; omega)
      (fun hn => rinv_mono K ps pe c _ (K st.idx) (K (st.idx + 1)) (h.2 st.idx (st.idx + 1) h1 (by omega) (by omega)) hinv')
    rw [hstream]
    refine ⟨by simp [hih.1], ?_⟩
    intro d hd j hj1 hj2
    cases d with
    | zero => simpa using hmem j hj1 hj2
    | succ d =>
      have := hih.2 d (by omega) j hj1 hj2
      simp only [List.getD_cons_succ]
      have e : st.idx + (d + 1) = st.idx + 1 + d := by omega
      rw [e]
      exact this

theorem cfg_lo_char (lo hi : Bound) (hlo : lo.validLo = true) (hhi : hi.validHi = true) (vi vj : Int) :
    (lo.rangeLoOK (.fin vi) (.fin vj) = true ↔
      ((rangeCfgOfBounds lo hi true).unbPrec = true ∨ vi + (rangeCfgOfBounds lo hi true).startOff ≤ vj)) := by
  cases lo <;> cases hi <;> simp [Bound.validLo, Bound.validHi] at hlo hhi <;>
    simp [Bound.rangeLoOK, rangeCfgOfBounds, RangeCfg.startOff, XInt.le, XInt.shift] <;> omega

theorem cfg_hi_char (lo hi : Bound) (hlo : lo.validLo = true) (hhi : hi.validHi = true) (vi vj : Int) :
    (hi.rangeHiOK (.fin vi) (.fin vj) = true ↔
      ((rangeCfgOfBounds lo hi true).unbFoll = true ∨ vj ≤ vi + (rangeCfgOfBounds lo hi true).endOff)) := by
  cases lo <;> cases hi <;> simp [Bound.validLo, Bound.validHi] at hlo hhi <;>
    simp [Bound.rangeHiOK, rangeCfgOfBounds, RangeCfg.endOff, XInt.le, XInt.shift] <;> omega

theorem cfg_hasOrder (lo hi : Bound) : (rangeCfgOfBounds lo hi true).hasOrder = true := by
  cases lo <;> cases hi <;> rfl

/-- **RANGE framer = definition** on every ascending partition without NULL keys: for all frame
bounds the parser accepts, all partitions and all rows, the interval produced by the sliding
search of `rangeFramerBase.Next` contains exactly the positions whose key lies in the frame by
key distance (`…_partial`: DESC and NULL keys are the findings range_desc / range_null_key). -/
theorem rangeIntervals_mem_partial (lo hi : Bound) (hlo : lo.validLo = true) (hhi : hi.validHi = true)
    (keys : List Val) (K : Nat → Int) (ps pe : Nat) (hpe : ps ≤ pe) (h : SortedPart keys K ps pe) :
    (rangeIntervals (rangeCfgOfBounds lo hi true) keys ps pe).length = pe - ps ∧
    ∀ d, d < pe - ps → ∀ j, ps ≤ j → j < pe →
      ((((rangeIntervals (rangeCfgOfBounds lo hi true) keys ps pe).getD d (0, 0)).1 ≤ j ∧
        j < ((rangeIntervals (rangeCfgOfBounds lo hi true) keys ps pe).getD d (0, 0)).2) ↔
        rangeMem lo hi false keys ps pe (ps + d) j = true) := by
  have hinit : pe - ps > 0 → RInv K ps pe (rangeCfgOfBounds lo hi true) { idx := ps, frameStart := ps, frameEnd := ps } (K ps) :=
    fun _ => ⟨Nat.le_refl _, hpe, hpe, fun _ j hj1 hj2 => by simp at hj2; omega, fun _ j hj1 hj2 => by simp at hj2; omega⟩
  have hs := rangeStream_spec keys K ps pe h (rangeCfgOfBounds lo hi true) (cfg_hasOrder lo hi) (pe - ps)
    { idx := ps, frameStart := ps, frameEnd := ps } (Nat.le_refl _) (by simp; omega) hinit
  refine ⟨hs.1, ?_⟩
  intro d hd j hj1 hj2
  have := hs.2 d hd j hj1 hj2
  unfold rangeIntervals
  rw [this]
  simp only [rangeMem, h.1 (ps + d) (by omega) (by omega), h.1 j hj1 hj2, normKey, Bool.false_eq_true, if_false,
    Bool.and_eq_true, decide_eq_true_eq]
  rw [cfg_lo_char lo hi hlo hhi, cfg_hi_char lo hi hlo hhi]
  constructor
  · intro ⟨a, b⟩; exact ⟨⟨⟨hj1, hj2⟩, a⟩, b⟩
  · intro ⟨⟨_, a⟩, b⟩; exact ⟨a, b⟩

-- non-vacuity: an ascending partition with ties, offset by an earlier partition
example : SortedPart [some 9, some 9, some 1, some 2, some 2, some 5] (fun j => [9, 9, 1, 2, 2, 5].getD j 0) 2 6 := by
  constructor
  · intro j h1 h2
    have : j = 2 ∨ j = 3 ∨ j = 4 ∨ j = 5 := by omega
    rcases this with h | h | h | h <;> subst h <;> rfl
  · intro i j h1 h2 h3
    have hi : i = 2 ∨ i = 3 ∨ i = 4 ∨ i = 5 := by omega
    have hj : j = 2 ∨ j = 3 ∨ j = 4 ∨ j = 5 := by omega
    rcases hi with h | h | h | h <;> rcases hj with h' | h' | h' | h' <;> subst h <;> subst h' <;> first | (simp; done) | omega
example : rangeIntervals (rangeCfgOfBounds (.prec 1) .cur true) [some 9, some 9, some 1, some 2, some 2, some 5] 2 6
    = [(2, 3), (2, 5), (2, 5), (5, 6)] := by decide

/-- finding range_null_key: with NULL keys in the partition the sliding search runs to the
partition end (`CompareNulls` orders NULL after every value, the sorter before) -/
theorem finding_range_null_key :
    ∃ (keys : List Val) (ps pe d j : Nat), ps ≤ j ∧ j < pe ∧ d < pe - ps ∧
      decide (((rangeIntervals (rangeCfgOfBounds .up .cur true) keys ps pe).getD d (0, 0)).1 ≤ j ∧
              j < ((rangeIntervals (rangeCfgOfBounds .up .cur true) keys ps pe).getD d (0, 0)).2)
        ≠ rangeMem .up .cur false keys ps pe (ps + d) j :=
  ⟨[none, none, some 3], 0, 3, 0, 2, by decide⟩

/-- finding range_desc: on a descending partition the same search (always `key − n`, `≥`/`>`
on an ascending scan) includes every later row -/
theorem finding_range_desc :
    ∃ (keys : List Val) (ps pe d j : Nat), ps ≤ j ∧ j < pe ∧ d < pe - ps ∧
      decide (((rangeIntervals (rangeCfgOfBounds .up .cur true) keys ps pe).getD d (0, 0)).1 ≤ j ∧
              j < ((rangeIntervals (rangeCfgOfBounds .up .cur true) keys ps pe).getD d (0, 0)).2)
        ≠ rangeMem .up .cur true keys ps pe (ps + d) j :=
  ⟨[some 4, some 2, some 1], 0, 3, 0, 1, by decide⟩

/-! ## Facts regenerated from the source on every run -/

def boundKinds : List (String × Bound) :=
  [("UnboundedPreceding", .up), ("NPreceding", .prec 1), ("CurrentRow", .cur), ("NFollowing", .foll 1), ("UnboundedFollowing", .uf)]

/-- field names of `rowFramerBase` that the model's `cfgOfBounds` sets -/
def rowCfgFields (c : RowCfg) : List String :=
  (if c.unbPrec then ["unboundedPreceding"] else []) ++ (if c.unbFoll then ["unboundedFollowing"] else []) ++
  (if c.startCur then ["startCurrentRow"] else []) ++ (if c.endCur then ["endCurrentRow"] else []) ++
  (if c.startNPrec ≠ 0 then ["startNPreceding"] else []) ++ (if c.endNPrec ≠ 0 then ["endNPreceding"] else []) ++
  (if c.startNFoll ≠ 0 then ["startNFollowing"] else []) ++ (if c.endNFoll ≠ 0 then ["endNFollowing"] else [])

def rangeCfgFields (c : RangeCfg) : List String :=
  ["orderBy"] ++
  (if c.unbPrec then ["unboundedPreceding"] else []) ++ (if c.unbFoll then ["unboundedFollowing"] else []) ++
  (if c.startCur then ["startCurrentRow"] else []) ++ (if c.endCur then ["endCurrentRow"] else []) ++
  (if c.startNPrec.isSome then ["startNPreceding"] else []) ++ (if c.endNPrec.isSome then ["endNPreceding"] else []) ++
  (if c.startNFoll.isSome then ["startNFollowing"] else []) ++ (if c.endNFoll.isSome then ["endNFollowing"] else [])

/-- the model's view of window_framer.og.go: constructor name ↦ fields set -/
def modelFramerTable : List (String × List String) :=
  (boundKinds.flatMap fun (ln, lo) => boundKinds.filterMap fun (hn, hi) =>
    if lo.validLo && hi.validHi then some ("Rows" ++ ln ++ "To" ++ hn, rowCfgFields (cfgOfBounds lo hi)) else none) ++
  (boundKinds.flatMap fun (ln, lo) => boundKinds.filterMap fun (hn, hi) =>
    if lo.validLo && hi.validHi then some ("Range" ++ ln ++ "To" ++ hn, rangeCfgFields (rangeCfgOfBounds lo hi true)) else none)

def sameSet (a b : List String) : Bool := a.all (b.contains ·) && b.all (a.contains ·)

def tableAgrees (gen model : List (String × List String)) : Bool :=
  gen.length == model.length &&
  gen.all (fun (n, fs) => match model.lookup n with | some ms => sameSet fs ms | none => false) &&
  model.all (fun (n, _) => (gen.lookup n).isSome)

/-- default framer per function, (with ORDER BY, without): what `Query.framer` and
`implPartition` assume -/
def modelDefaultFramers : List (String × String × String) := [
  ("avg", "RangeUnboundedPrecedingToCurrentRowFramer", "PartitionFramer"),
  ("count", "RangeUnboundedPrecedingToCurrentRowFramer", "PartitionFramer"),
  ("dense", "PeerGroupFramer", "PeerGroupFramer"),
  ("first", "RowsUnboundedPrecedingToCurrentRowFramer", "RowsUnboundedPrecedingToCurrentRowFramer"),
  ("lag", "PartitionFramer", "PartitionFramer"),
  ("last", "RowsUnboundedPrecedingToCurrentRowFramer", "RowsUnboundedPrecedingToCurrentRowFramer"),
  ("lead", "PartitionFramer", "PartitionFramer"),
  ("max", "RangeUnboundedPrecedingToCurrentRowFramer", "PartitionFramer"),
  ("min", "RangeUnboundedPrecedingToCurrentRowFramer", "PartitionFramer"),
  ("ntile", "PeerGroupFramer", "PeerGroupFramer"),
  ("prank", "PeerGroupFramer", "PeerGroupFramer"),
  ("rank", "PeerGroupFramer", "PeerGroupFramer"),
  ("rownum", "PartitionFramer", "PartitionFramer"),
  ("sum", "RangeUnboundedPrecedingToCurrentRowFramer", "PartitionFramer")]

theorem facts_match :
    tableAgrees Gms.Generated.C08.framerFields modelFramerTable = true ∧
    Gms.Generated.C08.rowsNewStart = "f.idx + f.startOffset" ∧
    Gms.Generated.C08.rowsNewEnd = "f.idx + f.endOffset + 1" ∧
    Gms.Generated.C08.rowsNextConds =
      ["f.idx != 0 && f.idx >= f.partitionEnd || !f.partitionSet", "f.partitionEnd == 0",
       "f.unboundedPreceding || newStart < f.partitionStart", "f.unboundedFollowing || newEnd > f.partitionEnd",
       "newStart > newEnd"] ∧
    Gms.Generated.C08.rowsOffsetCases =
      ["f.startNPreceding != 0 => startOffset = -f.startNPreceding", "f.startNFollowing != 0 => startOffset = f.startNFollowing",
       "f.startCurrentRow => startOffset = 0", "f.endNPreceding != 0 => endOffset = -f.endNPreceding",
       "f.endNFollowing != 0 => endOffset = f.endNFollowing", "f.endCurrentRow => endOffset = 0"] ∧
    Gms.Generated.C08.rangeInclusionCases =
      ["f.startCurrentRow => startInclusion = f.orderBy",
       "f.startNPreceding != nil => startInclusion = expression.NewArithmetic(f.orderBy, f.startNPreceding, ast.MinusStr)",
       "f.startNFollowing != nil => startInclusion = expression.NewArithmetic(f.orderBy, f.startNFollowing, ast.PlusStr)",
       "f.endCurrentRow => endInclusion = f.orderBy",
       "f.endNPreceding != nil => endInclusion = expression.NewArithmetic(f.orderBy, f.endNPreceding, ast.MinusStr)",
       "f.endNFollowing != nil => endInclusion = expression.NewArithmetic(f.orderBy, f.endNFollowing, ast.PlusStr)"] ∧
    Gms.Generated.C08.rangeBoundaryCalls =
      ["findInclusionBoundary(ctx, f.idx, newStart, f.partitionEnd, f.startInclusion, f.orderBy, buf, greaterThanOrEqual)",
       "findInclusionBoundary(ctx, f.idx, newEnd, f.partitionEnd, f.endInclusion, f.orderBy, buf, greaterThan)"] ∧
    Gms.Generated.C08.stop_greaterThan = 1 ∧ Gms.Generated.C08.stop_greaterThanOrEqual = 0 ∧
    Gms.Generated.C08.stop_unknown < Gms.Generated.C08.stop_greaterThanOrEqual ∧
    Gms.Generated.C08.nullCompareTable =
      [cmpNullGreater none none, cmpNullGreater none (some 1), cmpNullGreater (some 1) none,
       cmpNullGreater (some 1) (some 2), cmpNullGreater (some 2) (some 2), cmpNullGreater (some 3) (some 2)] ∧
    Gms.Generated.C08.defaultFramers = modelDefaultFramers := by
  decide

end Gms.C08
