/-
C41 — Persisted accounts and grants reload identically.

Model: Gms/Model/PrivSerial.lean (`serialize` = MySQLDb.Persist + mysql_db_serialize.go, `load` =
MySQLDb.LoadData + mysql_db_load.go, with switches that select the repaired loader = the Spec).
Lemmas: Gms/Lemmas/PrivSerial.lean. The property theorems are in `namespace Gms.C41` below.

Shape of the result. "Reload is the identity on the access-control state" splits into four parts, each
stated for all states:
  1. every account comes back with the same credentials and flags            (`reload_accounts`)
  2. every account's privilege set holds exactly the same grants             (`reload_privileges_spec`,
     hence answers every question of the authorization code alike: `reload_view_spec`); for the code
     as it is, under the guard "no persisted entry has a name that differs from its key":
     `reload_privileges_partial`; the unguarded statement is false: `finding_reload_loses_mixed_case_names`
  3. the role edges are the same                                             (`reload_edges_spec`); as it
     is, under the guard "no edge has the admin option": `reload_edges_partial`; the unguarded statement
     is false: `finding_reload_drops_admin_option`
  4. a session runs as the same account                                      (`reload_same_account_partial`,
     under the guard "the session is not ambiguous"); unguarded it is false, because the reload
     re-inserts the accounts sorted by (Host, User) and `GetUser` takes the first match:
     `finding_reload_reorders_matching_accounts`.
The composition of 1–4 into whole decision grids (`UserActivePrivilegeSet` over the role edges, then
`UserHasPrivileges`/`HandleAuth`) is C39's machine, executed by the driver on every generated state and
compared with the real engine; it is not re-proved here.
-/
import Gms.Lemmas.PrivSerial
import Gms.Generated.C41

namespace Gms.C41
open Gms.Priv Gms.PrivSerial

/-! ## Regenerated facts: which fields the serializer writes and the loader restores -/

/-- The in-memory structs, the fields `serializeUser`/`serializeRoleEdge` read and the fields
`LoadUser`/`LoadRoleEdge` set are the ones the model is written for. (`WithAdminOption` is written but
not read back; the reloaded maps are keyed by the stored names, not by their lower-cased form.) -/
theorem facts_match :
    Generated.C41.userFields = ["Attributes", "AuthString", "Host", "Identity", "IsEphemeral", "IsRole", "IsSuperUser",
      "Locked", "PasswordLastChanged", "Plugin", "PrivilegeSet", "SslCipher", "SslType", "User", "X509Issuer", "X509Subject"] ∧
    Generated.C41.roleEdgeFields = ["FromHost", "FromUser", "ToHost", "ToUser", "WithAdminOption"] ∧
    Generated.C41.serializeRoleEdgeReads = Generated.C41.roleEdgeFields ∧
    Generated.C41.loadRoleEdgeSets = ["FromHost", "FromUser", "ToHost", "ToUser"] ∧
    Generated.C41.serializePrivilegeSetReads = ["ToSlice", "getDatabases", "globalDynamic"] ∧
    Generated.C41.loadPrivilegeSetSets = ["databases", "globalDynamic", "globalStatic"] ∧
    Generated.C41.loadDatabaseSets = ["name", "privs", "routines", "tables"] ∧
    Generated.C41.loaderMapKeys = ["databases[database.Name()]", "globalDynamic[string(serialPrivilegeSet.GlobalDynamic(i))]",
      "tables[table.Name()]", "routines[key]", "key=routineKey{routine.RoutineName(), routine.isProc}"] := by
  decide

/-- Every field of `User` is persisted and restored, except the three run-time flags the model resets
(`IsSuperUser`, `IsEphemeral`) or does not carry (`IsRole`). -/
theorem all_fields_covered :
    (∀ f ∈ Generated.C41.userFields, f ∈ Generated.C41.serializeUserReads ∨ f ∈ ["IsEphemeral", "IsRole", "IsSuperUser"]) ∧
    (∀ f ∈ Generated.C41.serializeUserReads, f ∈ Generated.C41.loadUserSets) ∧
    (∀ f ∈ Generated.C41.loadUserSets, f ∈ Generated.C41.serializeUserReads) ∧
    (∀ f ∈ ["IsEphemeral", "IsRole", "IsSuperUser"], f ∉ Generated.C41.serializeUserReads) := by
  decide

/-! ## 1. Accounts -/

/-- What the loader makes of one persisted account: every credential field and flag is the persisted one,
the run-time flags are reset, the privilege set is the persisted-and-reloaded set. -/
theorem reload_account_fields (fk : Bool) (u : NUser) :
    let u' := loadUser fk (serUser u)
    u'.name = u.name ∧ u'.host = u.host ∧ u'.plugin = u.plugin ∧ u'.auth = u.auth ∧ u'.locked = u.locked ∧
      u'.extra = u.extra ∧ u'.isSuper = false ∧ u'.isEphemeral = false ∧
      u'.privs = loadPrivSet fk (serPrivSet u.privs) :=
  ⟨rfl, rfl, rfl, rfl, rfl, rfl, rfl, rfl, rfl⟩

theorem reload_users_perm (fk fa : Bool) (s : NState) :
    (reload fk fa s).users.Perm ((s.users.filter (fun u => !u.isEphemeral)).map (fun u => loadUser fk (serUser u))) := by
  simp only [reload, load, serialize, sortUsers, ← List.map_append, List.map_map]
  apply List.Perm.map
  refine ((List.mergeSort_perm _ _).append (List.mergeSort_perm _ _)).trans ?_
  exact List.perm_append_comm.trans (List.filter_append_perm (fun u : NUser => u.isSuper) _)

/-- **Accounts.** The accounts of the reloaded state are exactly the images of the non-ephemeral accounts
(super users included), each once. -/
theorem reload_accounts (fk fa : Bool) (s : NState) (u' : NUser) :
    u' ∈ (reload fk fa s).users ↔ ∃ u ∈ s.users, u.isEphemeral = false ∧ u' = loadUser fk (serUser u) := by
  rw [(reload_users_perm fk fa s).mem_iff]
  simp only [List.mem_map, List.mem_filter, Bool.not_eq_true']
  constructor
  · rintro ⟨u, ⟨hu, he⟩, rfl⟩; exact ⟨u, hu, he, rfl⟩
  · rintro ⟨u, hu, he, rfl⟩; exact ⟨u, ⟨hu, he⟩, rfl⟩

/-! ## 2. Privilege sets -/

/-- **Privileges (Spec loader).** For every privilege set whose entries are the entries of Go maps filed
under their lower-cased names — the invariant of every live set — persisting and reloading with the
repaired loader keeps exactly the grants the set holds, at every level. -/
theorem reload_privileges_spec (ps : NPrivSet) (hk : Keyed ps) (h : KeysOK true ps) (g : Grant) :
    (erase (loadPrivSet true (serPrivSet ps))).holds g = (erase ps).holds g :=
  reload_holds true ps hk h g

/-- … hence every question the authorization code asks the set (`Has`, `HasDynamic`, `Database(d).Has`,
`Table(t).Has`, `Routine(r).Has`, `Count() == 0`, `HasPrivileges()`) has the same answer, and with it
`UserHasPrivileges`, `RoutineAdminCheck` and `HandleAuth` (C39 `allow_iff`, `decisions_refine`). -/
theorem reload_view_spec (ps : NPrivSet) (hk : Keyed ps) (h : KeysOK true ps) :
    (erase (loadPrivSet true (serPrivSet ps))).view = (erase ps).view :=
  view_congr _ _ (reload_privileges_spec ps hk h)

theorem reload_decisions_spec (ps : NPrivSet) (hk : Keyed ps) (h : KeysOK true ps) (cur : String) (ops : List Op) :
    userHasPrivileges (erase (loadPrivSet true (serPrivSet ps))).view cur ops = userHasPrivileges (erase ps).view cur ops ∧
    routineAdminCheck (erase (loadPrivSet true (serPrivSet ps))).view cur ops = routineAdminCheck (erase ps).view cur ops := by
  rw [reload_view_spec ps hk h]; exact ⟨rfl, rfl⟩

/- Full statement for the code as it is — FALSE (see `finding_reload_loses_mixed_case_names`):
   theorem reload_privileges (ps) (hk : Keyed ps) (h : KeysOK true ps) (g) :
     (erase (loadPrivSet false (serPrivSet ps))).holds g = (erase ps).holds g -/

/-- **Privileges (code as it is), guarded.** If every persisted entry sits under its own name (no name
differs from its key), the reloaded set holds exactly the same grants under the same keys. -/
theorem reload_privileges_partial (ps : NPrivSet) (hk : Keyed ps) (h : KeysOK false ps) (g : Grant) :
    (erase (loadPrivSet false (serPrivSet ps))).holds g = (erase ps).holds g :=
  reload_holds false ps hk h g

/-- The guard of `reload_privileges_partial` is exactly the complement of the region predicate the driver
evaluates (`NDb.mixedCase`). -/
theorem keysOK_false_iff_not_mixedCase (ps : NPrivSet) :
    KeysOK false ps ↔ ps.dbs.all (fun d => !d.mixedCase) = true := by
  simp only [KeysOK, List.all_eq_true, Bool.not_eq_true']
  constructor
  · intro h d hd
    cases hp : d.hasPrivileges with
    | false => simp [NDb.mixedCase, hp]
    | true =>
      have ok := h d hd hp
      have h1 : (d.name != d.key) = false := by
        have := ok.key; simp [keyOf] at this; simp [this]
      have h2 : d.tables.any (fun t => t.hasPrivileges && t.name != t.key) = false := by
        rw [List.any_eq_false]
        intro t ht
        cases htp : t.hasPrivileges with
        | false => simp
        | true => have := ok.tkey t ht htp; simp [keyOf] at this; simp [this]
      have h3 : d.routines.any (fun r => r.name != r.key) = false := by
        rw [List.any_eq_false]
        intro r hr
        have := ok.rkey r hr; simp [keyOf] at this; simp [this]
      simp [NDb.mixedCase, h1, h2, h3]
  · intro h d hd hp
    have hm := h d hd
    simp only [NDb.mixedCase, hp, Bool.true_and, Bool.or_eq_false_iff] at hm
    refine ⟨?_, ?_, ?_⟩
    · have := hm.1.1; simpa [keyOf] using this
    · intro t ht htp
      have := (List.any_eq_false.1 hm.1.2) t ht
      simpa [keyOf, htp] using this
    · intro r hr
      have := (List.any_eq_false.1 hm.2) r hr
      simpa [keyOf] using this

/-- A live set with one database-level grant on a database named `n`. -/
def liveDb (n : String) (p : Priv) : NPrivSet :=
  { dbs := [{ key := lower n, name := n, privs := [p], tables := [], routines := [] }] }

theorem toSlice_singleton (p : Priv) : toSlice [p] = [p] := by
  simp [toSlice, sortNats, List.eraseDups_cons]

theorem reloaded_liveDb (n : String) (p : Priv) :
    erase (loadPrivSet false (serPrivSet (liveDb n p))) =
      { global := [], dynamic := [], dbs := [(n, { privs := [p], tables := [], routines := [] })] } := by
  simp [erase, loadPrivSet, serPrivSet, liveDb, serDbs, sortBy, NDb.hasPrivileges, loadDb, serTables, serRoutines,
    toSlice_singleton, putKey, eraseDb]
  simp [toSlice, sortNats]

/-- **Finding F-C41-a (`reload_loses_mixed_case_names`).** For every database name `n` that is not
lower-case and every privilege `p`: on the engine that persisted, `REVOKE p ON n.*` removes the grant;
on the reloaded engine the same statement changes nothing (the entry sits under key `n`, the statement
looks under `lower n`), and the grant is still there for every decision (`Copy()` re-files it under
`lower n`). The same holds for table and routine names (harness corpus). -/
theorem finding_reload_loses_mixed_case_names (n : String) (p : Priv) (hn : lower n ≠ n) :
    ((erase (liveDb n p)).remDb n [p]).holds (.db (lower n) p) = false ∧
    (erase (loadPrivSet false (serPrivSet (liveDb n p)))).remDb n [p] = erase (loadPrivSet false (serPrivSet (liveDb n p))) ∧
    (normalizePs (erase (loadPrivSet false (serPrivSet (liveDb n p))))).holds (.db (lower n) p) = true := by
  rw [reloaded_liveDb]
  refine ⟨?_, ?_, ?_⟩
  · simp [erase, liveDb, eraseDb, PrivSet.remDb, mget, premAll, prem, merase, PrivSet.holds]
  · simp [PrivSet.remDb, mget, Ne.symm hn]
  · simp [normalizePs, mfold, mget, mset, merase, PrivSet.unionDb, normDb, pinsAll, pins, PrivSet.holds]

theorem lower_D_ne : lower "D" ≠ "D" := by
  intro h
  have := congrArg String.toList h
  simp [lower, String.toList_map] at this

/-- The finding is not vacuous (`D` is such a name) and it refutes the unguarded statement: the reloaded
set does not hold the grant under the key the live set holds it under. -/
theorem finding_reload_loses_mixed_case_names_witness :
    ∃ ps : NPrivSet, Keyed ps ∧ KeysOK true ps ∧
      ∃ g, (erase (loadPrivSet false (serPrivSet ps))).holds g ≠ (erase ps).holds g := by
  refine ⟨liveDb "D" 0, ⟨by simp [liveDb], by simp [liveDb], by simp [liveDb]⟩, ?_, .db (lower "D") 0, ?_⟩
  · intro d hd _
    simp only [liveDb, List.mem_singleton] at hd
    subst hd
    exact ⟨rfl, by simp, by simp⟩
  · rw [reloaded_liveDb]
    simp [erase, liveDb, eraseDb, PrivSet.holds, mget, Ne.symm lower_D_ne]

/-- Non-vacuity of `reload_privileges_spec` / `reload_view_spec`: the same set satisfies their hypotheses. -/
example : Keyed (liveDb "D" 0) ∧ KeysOK true (liveDb "D" 0) := by
  refine ⟨⟨by simp [liveDb], by simp [liveDb], by simp [liveDb]⟩, ?_⟩
  intro d hd _
  simp only [liveDb, List.mem_singleton] at hd
  subst hd
  exact ⟨rfl, by simp, by simp⟩

/-- Non-vacuity of `reload_privileges_partial`: a lower-case-named set with a table grant. -/
example : Keyed { dbs := [{ key := "d", name := "d", privs := [], tables := [{ key := "t", name := "t", privs := [0] }], routines := [] }] } ∧
    KeysOK false { dbs := [{ key := "d", name := "d", privs := [], tables := [{ key := "t", name := "t", privs := [0] }], routines := [] }] } := by
  refine ⟨⟨by simp, by simp, by simp⟩, ?_⟩
  intro d hd _
  simp only [List.mem_singleton] at hd
  subst hd
  exact ⟨rfl, by simp [keyOf], by simp⟩

/-! ## 3. Role edges -/

theorem mem_putEdge (acc : List Edge) (e x : Edge) : x ∈ putEdge acc e ↔ x ∈ acc ∨ x = e := by
  simp only [putEdge, List.mem_append, List.mem_filter, List.mem_singleton, decide_eq_true_eq]
  constructor
  · rintro (⟨h, _⟩ | h); exact Or.inl h; exact Or.inr h
  · rintro (h | h)
    · by_cases hx : x = e
      · exact Or.inr hx
      · exact Or.inl ⟨h, hx⟩
    · exact Or.inr h

theorem mem_foldl_putEdge (l acc : List Edge) (x : Edge) : x ∈ l.foldl putEdge acc ↔ x ∈ acc ∨ x ∈ l := by
  induction l generalizing acc with
  | nil => simp
  | cons e l ih =>
    simp only [List.foldl_cons, ih, mem_putEdge, List.mem_cons]
    constructor
    · rintro ((h | h) | h); exact Or.inl h; exact Or.inr (Or.inl h); exact Or.inr (Or.inr h)
    · rintro (h | h | h); exact Or.inl (Or.inl h); exact Or.inl (Or.inr h); exact Or.inr h

/-- The role edges after a reload are the images of the persisted ones under the loader. -/
theorem reload_edges (fk fa : Bool) (s : NState) (e : Edge) :
    e ∈ (reload fk fa s).edges ↔ ∃ e0 ∈ s.edges, e = loadEdge fa e0 := by
  simp only [reload, load, serialize, mem_foldl_putEdge, List.mem_map, List.mem_mergeSort, List.not_mem_nil, false_or]
  constructor
  · rintro ⟨a, ha, rfl⟩; exact ⟨a, ha, rfl⟩
  · rintro ⟨a, ha, rfl⟩; exact ⟨a, ha, rfl⟩

/-- **Role edges (Spec loader).** The reloaded state has exactly the persisted edges. -/
theorem reload_edges_spec (fk : Bool) (s : NState) (e : Edge) : e ∈ (reload fk true s).edges ↔ e ∈ s.edges := by
  rw [reload_edges]
  constructor
  · rintro ⟨e0, h0, rfl⟩; exact h0
  · intro h; exact ⟨e, h, rfl⟩

/- Full statement for the code as it is — FALSE (see `finding_reload_drops_admin_option`):
   theorem reload_edges_actual (s) (e) : e ∈ (reload fk false s).edges ↔ e ∈ s.edges -/

/-- **Role edges (code as it is), guarded**: without an ADMIN OPTION edge the edges are exactly the
persisted ones. -/
theorem reload_edges_partial (fk : Bool) (s : NState) (h : hasAdminEdge s = false) (e : Edge) :
    e ∈ (reload fk false s).edges ↔ e ∈ s.edges := by
  rw [reload_edges]
  have hf : ∀ e0 ∈ s.edges, loadEdge false e0 = e0 := by
    intro e0 h0
    have := (List.any_eq_false.1 h) e0 h0
    cases e0 with
    | mk a b c d adm =>
      simp only [Bool.not_eq_true] at this
      simp only [loadEdge, Bool.false_eq_true, if_false]
      simp_all
  constructor
  · rintro ⟨e0, h0, rfl⟩; rw [hf e0 h0]; exact h0
  · intro h0; exact ⟨e, h0, (hf e h0).symm⟩

/-- **Finding F-C41-b (`reload_drops_admin_option`).** Whatever the state: after a reload by the code as
it is no edge carries the admin option — every `WITH ADMIN OPTION` edge of the persisted state is missing
from the reloaded one (its holder can no longer grant the role). -/
theorem finding_reload_drops_admin_option (fk : Bool) (s : NState) :
    (∀ e ∈ (reload fk false s).edges, e.admin = false) ∧
    (∀ e ∈ s.edges, e.admin = true → e ∉ (reload fk false s).edges) := by
  have h1 : ∀ e ∈ (reload fk false s).edges, e.admin = false := by
    intro e he
    obtain ⟨e0, _, rfl⟩ := (reload_edges fk false s e).1 he
    simp [loadEdge]
  exact ⟨h1, fun e _ ha he => by simp [h1 e he] at ha⟩

/-- The finding is not vacuous: a state with such an edge. -/
example : ∃ s : NState, ∃ e ∈ s.edges, e.admin = true :=
  ⟨{ edges := [⟨"%", "r1", "localhost", "u1", true⟩] }, ⟨"%", "r1", "localhost", "u1", true⟩, by simp, rfl⟩

example : hasAdminEdge { edges := [⟨"%", "r1", "localhost", "u1", false⟩] } = false := by decide

/-! ## 4. Which account a session runs as -/

/-- The (name, host) keys `GetUser` searches. -/
def keysOf (s : NState) : List (String × String) := s.users.map (fun u => (u.name, u.host))

theorem reload_keys_perm (fk fa : Bool) (s : NState) :
    (keysOf { users := s.users.filter (fun u => !u.isEphemeral) }).Perm (keysOf (reload fk fa s)) := by
  have h := ((reload_users_perm fk fa s).map (fun u => (u.name, u.host))).symm
  simpa [keysOf, List.map_map, Function.comp_def, loadUser, serUser] using h

/- Full statement — FALSE (see `finding_reload_reorders_matching_accounts`):
   theorem reload_same_account (s) (user host) :
     getUserKey (keysOf (reload fk fa s)) user host rs = getUserKey (keysOf {users := live s}) user host rs -/

/-- **Account lookup, guarded.** A session that is not ambiguous (it is the primary key of an account, or
at most one account of its name — else at most one anonymous account — accepts its host) runs as the same
account after the reload, although the reload re-inserts the accounts in another order. -/
theorem reload_same_account_partial (fk fa : Bool) (s : NState)
    (hn : (keysOf { users := s.users.filter (fun u => !u.isEphemeral) }).Nodup)
    (user host : String) (rs : Bool)
    (ha : ambiguous (keysOf { users := s.users.filter (fun u => !u.isEphemeral) }) user host rs = false) :
    getUserKey (keysOf (reload fk fa s)) user host rs =
      getUserKey (keysOf { users := s.users.filter (fun u => !u.isEphemeral) }) user host rs :=
  getUser_order_independent _ _ (reload_keys_perm fk fa s) hn user host rs ha

/-- The underlying fact about `GetUser`: the result is a function of the *set* of accounts unless the
session is ambiguous. -/
theorem account_lookup_order_independent (keys keys' : List (String × String)) (hp : keys.Perm keys') (hn : keys.Nodup)
    (user host : String) (rs : Bool) (ha : ambiguous keys user host rs = false) :
    getUserKey keys' user host rs = getUserKey keys user host rs :=
  getUser_order_independent keys keys' hp hn user host rs ha

/-- Two accounts `u@127.0.0.1` (created first) and `u@%`. -/
def wU (h : String) (g : List Priv) : NUser :=
  { name := "u", host := h, plugin := "", auth := "", locked := false, isSuper := false, isEphemeral := false,
    extra := [], privs := { global := g } }
def wOrder : NState := { users := [wU "127.0.0.1" [0], wU "%" []] }

theorem wOrder_reloaded (fk fa : Bool) : keysOf (reload fk fa wOrder) = [("u", "%"), ("u", "127.0.0.1")] := by
  simp [keysOf, reload, load, serialize, wOrder, sortUsers, List.mergeSort, List.MergeSort.Internal.splitInTwo, pairLe,
    strLe, wU, loadUser, serUser]

/-- **Finding F-C41-c (`reload_reorders_matching_accounts`).** `Persist` writes the accounts sorted by
(Host, User), `LoadData` inserts them in that order, and `GetUser` returns the first account of the name
whose host pattern accepts the client: a session from the loopback address runs as `u@127.0.0.1` (which
holds SELECT) on the engine that persisted and as `u@%` (which holds nothing) on the reloaded one. -/
theorem finding_reload_reorders_matching_accounts (fk fa : Bool) :
    getUserKey (keysOf wOrder) "u" "localhost" false = some ("u", "127.0.0.1") ∧
    getUserKey (keysOf (reload fk fa wOrder)) "u" "localhost" false = some ("u", "%") ∧
    ambiguous (keysOf wOrder) "u" "localhost" false = true := by
  rw [wOrder_reloaded]
  decide

/-- Non-vacuity of `reload_same_account_partial`: the same two accounts and a session from elsewhere. -/
example : (keysOf { users := wOrder.users.filter (fun u => !u.isEphemeral) }).Nodup ∧
    ambiguous (keysOf { users := wOrder.users.filter (fun u => !u.isEphemeral) }) "u" "elsewhere" false = false := by
  decide

/-! ## `RemoveRoutine` on arbitrary keys agrees with C39's version on lower-case keys -/

theorem merase_of_not_mem {κ α : Type} [DecidableEq κ] (m : List (κ × α)) (k : κ) (h : ∀ e ∈ m, e.1 ≠ k) :
    merase m k = m := by
  unfold merase
  apply List.filter_eq_self.2
  intro e he
  simpa using h e he

/-- On a set whose routine keys are lower-case (every live set), the follow-up model `remRtnRaw` is C39's
`remRtn`. -/
theorem remRtnRaw_eq (ps : PrivSet) (d r : String) (b : Bool) (privs : List Priv)
    (h : ∀ e ∈ (ps.dbOrNew d).routines, lower e.1.1 = e.1.1) :
    remRtnRaw ps d r b privs = ps.remRtn d r b privs := by
  by_cases hr : r = lower r
  · simp only [remRtnRaw, PrivSet.remRtn]
    by_cases he : (premAll ((mget (ps.dbOrNew d).routines (lower r, b)).getD []) privs).isEmpty = true
    · simp [he, ← hr]
    · simp [he]
  · simp only [remRtnRaw, PrivSet.remRtn]
    have hno : ∀ rp, merase (mset (ps.dbOrNew d).routines (lower r, b) rp) (r, b) = mset (ps.dbOrNew d).routines (lower r, b) rp := by
      intro rp
      apply merase_of_not_mem
      intro e he hk
      simp only [mset, List.mem_cons] at he
      rcases he with rfl | he
      · exact hr (Prod.mk.inj hk).1.symm
      · have hm : e ∈ (ps.dbOrNew d).routines := (List.mem_filter.1 he).1
        have := h e hm
        rw [hk] at this
        exact hr this.symm
    by_cases he : (premAll ((mget (ps.dbOrNew d).routines (lower r, b)).getD []) privs).isEmpty = true
    · simp [he, hr, hno]
    · simp [he, hr]

end Gms.C41
