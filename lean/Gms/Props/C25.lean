/-
C25 — Integer and decimal arithmetic is exact or reports out-of-range.

Model: Gms/Model/Num.lean (Impl = Go's 64-bit wrapping operators on `BitVec 64` behind the operand
conversion of `Arithmetic/IntDiv/Mod/Div/UnaryMinus.Eval`, followed by the rendering through the
declared result type; Spec = exact `Int` arithmetic). Helper lemmas first (namespace `Gms.Num`),
property theorems in `namespace Gms.C25`.

The full-strength statement

    theorem arith_exact_or_error : lt.InRange lv → rt.InRange rv →
        acceptable (arithResOk lt rt) (implArith op lt lv rt rv) (exactArith op lv rv)

is FALSE for the unchanged code (`finding_bigint_overflow_wraps`, `finding_unsigned_operand_clamped`);
what is proved instead is `arith_exact_partial` (exact outside the two regions) together with
`arith_overflow_never_acceptable` (inside `bigint_overflow_wraps` the code is *always* wrong and never
reports), i.e. `arith_acceptable_iff`. Likewise for unary minus (`neg_acceptable_iff`, an exact
characterisation) and DIV (`intdiv_partial`). `%` and `/` on integers are exact (`mod_*`, `div_round_exact`).
DECIMAL operands (`apd` is a parameter, taken as exact): `dec_add_sub_exact`, `dec_mul_exact`,
`dec_mod_partial` (+ `int_mod_never_fails`), `dec_div_partial` (no double rounding: `trunc_then_round`),
`dec_intdiv_partial`, with findings `mod_quotient_exceeds_precision`, `div_internal_scale_not_above_final`.
-/
import Gms.Model.Num
import Gms.Generated.C25

namespace Gms.Num

theorem toInt_ofInt64 {v : Int} (h1 : -(2^63) ≤ v) (h2 : v < 2^63) : (BitVec.ofInt 64 v).toInt = v := by
  rw [BitVec.toInt_ofInt]; simp only [Int.bmod]; omega

theorem toNat_ofInt64 {v : Int} (h1 : 0 ≤ v) (h2 : v < 2^64) : ((BitVec.ofInt 64 v).toNat : Int) = v := by
  rw [BitVec.toNat_ofInt]; omega

theorem ITy.inRange_i64_or_u64 (t : ITy) (v : Int) (h : t.InRange v) :
    (t.unsigned = true ∧ 0 ≤ v ∧ v < 2^64 ∧ (t ≠ .u64 → v < 2^32)) ∨ (t.unsigned = false ∧ -(2^63) ≤ v ∧ v < 2^63 ∧ (t ≠ .i64 → -(2^31) ≤ v ∧ v < 2^31)) := by
  cases t <;> simp [ITy.InRange, ITy.lo, ITy.hi, ITy.unsigned, ITy.bits] at h ⊢ <;> omega

/-- signed view of the operand after `toI64`, when it is not clamped -/
theorem toI64_toInt (t : ITy) (v : Int) (h : t.InRange v) (hc : ¬ (t = .u64 ∧ v > maxI64)) :
    (toI64 t v).toInt = v := by
  unfold toI64
  rw [if_neg hc]
  apply toInt_ofInt64
  · rcases ITy.inRange_i64_or_u64 t v h with h | h <;> omega
  · rcases ITy.inRange_i64_or_u64 t v h with ⟨hu, h0, h1, h2⟩ | h
    · by_cases ht : t = .u64
      · simp [maxI64, ht] at hc; omega
      · have := h2 ht; omega
    · omega

theorem arith_signed (op : AOp) (x y : BitVec 64)
    (h : -(2^63) ≤ op.exact x.toInt y.toInt ∧ op.exact x.toInt y.toInt < 2^63) :
    (op.bv x y).toInt = op.exact x.toInt y.toInt := by
  cases op <;> simp only [AOp.bv, AOp.exact] at h ⊢
  · rw [BitVec.toInt_add]; simp only [Int.bmod]; omega
  · rw [BitVec.toInt_sub]; simp only [Int.bmod]; omega
  · rw [BitVec.toInt_mul]; simp only [Int.bmod]; omega

theorem arith_unsigned (op : AOp) (x y : BitVec 64)
    (h : 0 ≤ op.exact x.toNat y.toNat ∧ op.exact x.toNat y.toNat < 2^64) :
    ((op.bv x y).toNat : Int) = op.exact x.toNat y.toNat := by
  have hx := x.isLt
  have hy := y.isLt
  cases op <;> simp only [AOp.bv, AOp.exact] at h ⊢
  · rw [BitVec.toNat_add]; omega
  · rw [BitVec.toNat_sub]; omega
  · rw [BitVec.toNat_mul]
    have : (x.toNat * y.toNat) < 2^64 := by
      have h2 := h.2
      have : ((x.toNat * y.toNat : Nat) : Int) < 2^64 := by rw [Int.natCast_mul]; exact h2
      omega
    rw [Nat.mod_eq_of_lt this, Int.natCast_mul]

theorem toInt_range64 (x : BitVec 64) : -(2^63) ≤ x.toInt ∧ x.toInt < 2^63 := by
  have h1 := BitVec.le_toInt x
  have h2 := BitVec.toInt_lt (x := x)
  simp at h1 h2
  omega


end Gms.Num

namespace Gms.C25
open Gms.Num

theorem arith_exact_partial (op : AOp) (lt : ITy) (lv : Int) (rt : ITy) (rv : Int)
    (hl : lt.InRange lv) (hr : rt.InRange rv)
    (hc : ¬ unsigned_operand_clamped lt lv rt rv) (ho : ¬ bigint_overflow_wraps op lt lv rt rv) :
    implArith op lt lv rt rv = exactArith op lv rv := by
  unfold implArith exactArith
  unfold bigint_overflow_wraps arithResOk at ho
  unfold unsigned_operand_clamped at hc
  by_cases hu : arithUnsigned lt rt = true
  · rw [if_pos hu] at ho ⊢
    simp only [arithUnsigned, Bool.and_eq_true] at hu
    rcases ITy.inRange_i64_or_u64 lt lv hl with ⟨_, l0, l1, _⟩ | ⟨hx, _⟩
    rcases ITy.inRange_i64_or_u64 rt rv hr with ⟨_, r0, r1, _⟩ | ⟨hx, _⟩
    · have e1 := toNat_ofInt64 l0 l1
      have e2 := toNat_ofInt64 r0 r1
      have ho' : inU64 (op.exact lv rv) := by simpa using ho
      unfold inU64 maxU64 at ho'
      have := arith_unsigned op (toU64 lv) (toU64 rv) (by unfold toU64; rw [e1, e2]; omega)
      unfold toU64 at this ⊢
      rw [this, e1, e2]
    · rw [hu.2] at hx; cases hx
    · rw [hu.1] at hx; cases hx
  · have hu' : arithUnsigned lt rt = false := by simpa using hu
    rw [if_neg hu] at ho ⊢
    have hcl : ¬ (lt = .u64 ∧ lv > maxI64) := fun h => hc ⟨hu', Or.inl h⟩
    have hcr : ¬ (rt = .u64 ∧ rv > maxI64) := fun h => hc ⟨hu', Or.inr h⟩
    have e1 := toI64_toInt lt lv hl hcl
    have e2 := toI64_toInt rt rv hr hcr
    have ho' : inI64 (op.exact lv rv) := by simpa using ho
    unfold inI64 minI64 maxI64 at ho'
    have := arith_signed op (toI64 lt lv) (toI64 rt rv) (by rw [e1, e2]; omega)
    rw [this, e1, e2]



theorem mul_natAbs_bound {a b : Int} {A B : Nat} (ha : a.natAbs ≤ A) (hb : b.natAbs ≤ B) :
    (a * b).natAbs ≤ A * B := by
  rw [Int.natAbs_mul]; exact Nat.mul_le_mul ha hb

/-- Inside `bigint_overflow_wraps` the code is always wrong and never reports: the region is exactly
a defect class (no accidental hits). Needs no hypothesis on the operands. -/
theorem arith_overflow_never_acceptable (op : AOp) (lt : ITy) (lv : Int) (rt : ITy) (rv : Int)
    (ho : bigint_overflow_wraps op lt lv rt rv) :
    ¬ acceptable (arithResOk lt rt) (implArith op lt lv rt rv) (exactArith op lv rv) := by
  unfold bigint_overflow_wraps arithResOk at ho
  unfold acceptable implArith exactArith
  by_cases hu : arithUnsigned lt rt = true
  · rw [if_pos hu] at ho ⊢
    have ho' : ¬ inU64 (op.exact lv rv) := by simpa using ho
    unfold inU64 maxU64 at ho'
    rintro (h | ⟨h, _⟩)
    · have hlt := (op.bv (toU64 lv) (toU64 rv)).isLt
      simp only [Obs.int.injEq] at h
      omega
    · cases h
  · rw [if_neg hu] at ho ⊢
    have ho' : ¬ inI64 (op.exact lv rv) := by simpa using ho
    unfold inI64 minI64 maxI64 at ho'
    rintro (h | ⟨h, _⟩)
    · have hr := toInt_range64 (op.bv (toI64 lt lv) (toI64 rt rv))
      simp only [Obs.int.injEq] at h
      omega
    · cases h

/-- Outside `unsigned_operand_clamped`, `+ - *` is acceptable exactly outside `bigint_overflow_wraps`. -/
theorem arith_acceptable_iff (op : AOp) (lt : ITy) (lv : Int) (rt : ITy) (rv : Int)
    (hl : lt.InRange lv) (hr : rt.InRange rv) (hc : ¬ unsigned_operand_clamped lt lv rt rv) :
    acceptable (arithResOk lt rt) (implArith op lt lv rt rv) (exactArith op lv rv)
      ↔ ¬ bigint_overflow_wraps op lt lv rt rv := by
  constructor
  · intro h ho
    exact arith_overflow_never_acceptable op lt lv rt rv ho h
  · intro ho
    exact Or.inl (arith_exact_partial op lt lv rt rv hl hr hc ho)

/-- Operands narrower than 64 bits are widened before the operator is applied, so `+` and `*` on
them are always exact, and `-` is exact unless both are unsigned and the difference is negative
(the declared result type is then BIGINT UNSIGNED). -/
theorem arith_narrow_exact (op : AOp) (lt : ITy) (lv : Int) (rt : ITy) (rv : Int)
    (hl : lt.InRange lv) (hr : rt.InRange rv) (hlb : lt.bits ≤ 32) (hrb : rt.bits ≤ 32)
    (hs : op = .sub → arithUnsigned lt rt = true → rv ≤ lv) :
    implArith op lt lv rt rv = exactArith op lv rv := by
  have hl64 : lt ≠ .u64 ∧ lt ≠ .i64 := by cases lt <;> simp [ITy.bits] at hlb ⊢
  have hr64 : rt ≠ .u64 ∧ rt ≠ .i64 := by cases rt <;> simp [ITy.bits] at hrb ⊢
  apply arith_exact_partial op lt lv rt rv hl hr
  · rintro ⟨_, ⟨h, _⟩ | ⟨h, _⟩⟩
    · exact hl64.1 h
    · exact hr64.1 h
  · have key : arithResOk lt rt (op.exact lv rv) = true := by
      unfold arithResOk
      rcases ITy.inRange_i64_or_u64 lt lv hl with ⟨lu, l0, _, l2⟩ | ⟨lu, _, _, l2⟩ <;>
      rcases ITy.inRange_i64_or_u64 rt rv hr with ⟨ru, r0, _, r2⟩ | ⟨ru, _, _, r2⟩
      · have l3 := l2 hl64.1
        have r3 := r2 hr64.1
        have hu : arithUnsigned lt rt = true := by simp [arithUnsigned, lu, ru]
        rw [if_pos hu]
        rw [decide_eq_true_eq]; unfold inU64 maxU64
        cases op <;> simp only [AOp.exact]
        · omega
        · have := hs rfl hu; omega
        · have h1 : 0 ≤ lv * rv := Int.mul_nonneg l0 r0
          have h2 := mul_natAbs_bound (a := lv) (b := rv) (A := 2^32 - 1) (B := 2^32 - 1) (by omega) (by omega)
          omega
      · have l3 := l2 hl64.1
        have r3 := r2 hr64.2
        have hu : ¬ arithUnsigned lt rt = true := by simp [arithUnsigned, lu, ru]
        rw [if_neg hu]
        rw [decide_eq_true_eq]; unfold inI64 minI64 maxI64
        cases op <;> simp only [AOp.exact]
        · omega
        · omega
        · have h2 := mul_natAbs_bound (a := lv) (b := rv) (A := 2^32 - 1) (B := 2^31) (by omega) (by omega)
          omega
      · have l3 := l2 hl64.2
        have r3 := r2 hr64.1
        have hu : ¬ arithUnsigned lt rt = true := by simp [arithUnsigned, lu, ru]
        rw [if_neg hu]
        rw [decide_eq_true_eq]; unfold inI64 minI64 maxI64
        cases op <;> simp only [AOp.exact]
        · omega
        · omega
        · have h2 := mul_natAbs_bound (a := lv) (b := rv) (A := 2^31) (B := 2^32 - 1) (by omega) (by omega)
          omega
      · have l3 := l2 hl64.2
        have r3 := r2 hr64.2
        have hu : ¬ arithUnsigned lt rt = true := by simp [arithUnsigned, lu, ru]
        rw [if_neg hu]
        rw [decide_eq_true_eq]; unfold inI64 minI64 maxI64
        cases op <;> simp only [AOp.exact]
        · omega
        · omega
        · have h2 := mul_natAbs_bound (a := lv) (b := rv) (A := 2^31) (B := 2^31) (by omega) (by omega)
          omega
    unfold bigint_overflow_wraps
    simp [key]


theorem wrapS_def (n : Nat) (v : Int) : wrapS n v = v.bmod (2^n) := by
  unfold wrapS; rw [BitVec.toInt_ofInt]

theorem neg_i64_acceptable (v : Int) : acceptable negResOk (implNeg .i64 v) (exactNeg v) := by
  unfold acceptable exactNeg negResOk implNeg
  by_cases hv : v = minI64
  · right
    rw [if_pos hv]
    refine ⟨rfl, -v, rfl, ?_⟩
    intro hh
    have := hh.1
    unfold inI64 minI64 maxI64 at this
    unfold minI64 at hv
    omega
  · left; rw [if_neg hv]

/-- Unary minus on an integer column is acceptable exactly outside the two listed regions: the
regions are an exact characterisation of where the unchanged code is wrong. -/
theorem neg_acceptable_iff (t : ITy) (v : Int) (h : t.InRange v) :
    acceptable negResOk (implNeg t v) (exactNeg v)
      ↔ ¬ neg_unsigned_wraps t v ∧ ¬ neg_mediumint_min_clamped t v := by
  by_cases ht : t = .i64
  · subst ht
    simp only [neg_i64_acceptable, neg_unsigned_wraps, neg_mediumint_min_clamped, reduceCtorEq, false_and,
      not_false_eq_true, and_self]
  · unfold acceptable exactNeg negResOk neg_unsigned_wraps neg_mediumint_min_clamped
    cases t <;>
      simp only [ITy.InRange, ITy.lo, ITy.hi, ITy.unsigned, ITy.bits] at h <;>
      simp only [implNeg, wrapS_def, renderUnsigned, Int.bmod, inI64, minI64, maxI64, Obs.int.injEq,
        reduceCtorEq, false_and, or_false, not_false_eq_true, and_true, true_and] <;>
      (try simp only [if_true, if_false, Bool.false_eq_true] at h) <;>
      first
        | omega
        | exact absurd rfl ht



theorem toU64_eq_zero_iff {v : Int} (h0 : 0 ≤ v) (h1 : v < 2^64) : toU64 v = 0 ↔ v = 0 := by
  unfold toU64
  constructor
  · intro h
    have := toNat_ofInt64 h0 h1
    rw [h] at this
    simpa using this.symm
  · intro h; subst h; rfl

theorem toI64_eq_zero_iff (t : ITy) (v : Int) (h : t.InRange v) (hc : ¬ (t = .u64 ∧ v > maxI64)) :
    toI64 t v = 0 ↔ v = 0 := by
  have e := toI64_toInt t v h hc
  constructor
  · intro hz; rw [hz] at e; simpa using e.symm
  · intro hz; subst hz; unfold toI64; simp [maxI64]

/-- `DIV` is acceptable (truncating quotient, NULL on a zero divisor, or an out-of-range error when the
quotient does not fit) outside the two listed regions. -/
theorem intdiv_partial (lt : ITy) (lv : Int) (rt : ITy) (rv : Int)
    (hl : lt.InRange lv) (hr : rt.InRange rv)
    (h3 : ¬ intdiv_minint_by_minus1 lt lv rt rv) (h4 : ¬ intdiv_mixed_negative_as_unsigned lt lv rt rv) :
    acceptable (intDivResOk lt rt) (implIntDiv lt lv rt rv) (exactIntDiv lv rv) := by
  unfold implIntDiv exactIntDiv
  rcases ITy.inRange_i64_or_u64 lt lv hl with ⟨lu, l0, l1, _⟩ | ⟨lu, l0, l1, _⟩ <;>
  rcases ITy.inRange_i64_or_u64 rt rv hr with ⟨ru, r0, r1, _⟩ | ⟨ru, r0, r1, _⟩
  · -- both unsigned
    simp only [lu, ru, Bool.and_self, if_true]
    have hzz := toU64_eq_zero_iff r0 r1
    by_cases hz : rv = 0
    · rw [if_pos (hzz.mpr hz), if_pos hz]; exact Or.inl rfl
    · rw [if_neg (fun h => hz (hzz.mp h)), if_neg hz]
      left
      congr 1
      rw [BitVec.toNat_udiv]
      have e1 := toNat_ofInt64 l0 l1
      have e2 := toNat_ofInt64 r0 r1
      unfold toU64
      rw [Int.natCast_ediv, e1, e2]
      exact (Int.tdiv_eq_ediv_of_nonneg l0).symm
  · -- unsigned DIV signed: decimal path
    simp only [lu, ru, Bool.and_false, Bool.false_eq_true, if_false, Bool.not_true, Bool.not_false, Bool.and_true]
    by_cases hz : rv = 0
    · rw [if_pos hz, if_pos hz]; exact Or.inl rfl
    · rw [if_neg hz, if_neg hz]
      have hq : ¬ ((lv.tdiv rv) < 0 ∧ minI64 ≤ lv.tdiv rv) := fun hh =>
        h4 ⟨by simp [lu, ru], hz, hh.1, hh.2⟩
      by_cases hb : lv.tdiv rv < minI64 ∨ lv.tdiv rv > maxI64
      · rw [if_pos hb]
        right
        refine ⟨rfl, _, rfl, ?_⟩
        intro hh
        have := hh.1
        unfold inI64 at this
        omega
      · rw [if_neg hb]
        left
        have : ¬ lv.tdiv rv < 0 := by omega
        rw [if_neg this]
  · -- signed DIV unsigned: decimal path
    simp only [lu, ru, Bool.and_false, Bool.false_eq_true, if_false, Bool.not_true, Bool.not_false, Bool.and_true]
    by_cases hz : rv = 0
    · rw [if_pos hz, if_pos hz]; exact Or.inl rfl
    · rw [if_neg hz, if_neg hz]
      have hq : ¬ ((lv.tdiv rv) < 0 ∧ minI64 ≤ lv.tdiv rv) := fun hh =>
        h4 ⟨by simp [lu, ru], hz, hh.1, hh.2⟩
      by_cases hb : lv.tdiv rv < minI64 ∨ lv.tdiv rv > maxI64
      · rw [if_pos hb]
        right
        refine ⟨rfl, _, rfl, ?_⟩
        intro hh
        have := hh.1
        unfold inI64 at this
        omega
      · rw [if_neg hb]
        left
        have : ¬ lv.tdiv rv < 0 := by omega
        rw [if_neg this]
  · -- both signed: Go int64 division
    simp only [lu, ru, Bool.and_self, Bool.false_eq_true, if_false, Bool.not_false, if_true]
    have hcl : ¬ (lt = .u64 ∧ lv > maxI64) := by rintro ⟨h, _⟩; subst h; simp [ITy.unsigned] at lu
    have hcr : ¬ (rt = .u64 ∧ rv > maxI64) := by rintro ⟨h, _⟩; subst h; simp [ITy.unsigned] at ru
    have hzz := toI64_eq_zero_iff rt rv hr hcr
    have e1 := toI64_toInt lt lv hl hcl
    have e2 := toI64_toInt rt rv hr hcr
    by_cases hz : rv = 0
    · rw [if_pos (hzz.mpr hz), if_pos hz]; exact Or.inl rfl
    · rw [if_neg (fun h => hz (hzz.mp h)), if_neg hz]
      left
      congr 1
      have hne : toI64 lt lv ≠ BitVec.intMin 64 ∨ toI64 rt rv ≠ -1#64 := by
        by_cases ha : lv = minI64
        · right
          intro hb
          have : (toI64 rt rv).toInt = -1 := by rw [hb]; decide
          rw [e2] at this
          exact h3 ⟨lu, ru, ha, this⟩
        · left
          intro hb
          have : (toI64 lt lv).toInt = -(2^63) := by rw [hb]; decide
          rw [e1] at this
          exact ha this
      rw [BitVec.toInt_sdiv_of_ne_or_ne _ _ hne, e1, e2]


theorem scale_e2 (b : Nat) : 2 * b * (5 * 10 ^ 4) = b * 10 ^ 5 := by omega
theorem scale_e1 (a b : Nat) : (2 * a * 10 ^ 4 + b) * (5 * 10 ^ 4) = a * 10 ^ 9 + 5 * 10 ^ 4 * b := by omega

/-- Truncating the quotient at 9 places and then rounding half-up to 4 places is the same as rounding
the exact quotient half-up to 4 places (no double-rounding error). -/
theorem trunc9_round4 (a b : Nat) (hb : 0 < b) :
    (a * 10 ^ 9 / b + 5 * 10 ^ 4) / 10 ^ 5 = (2 * a * 10 ^ 4 + b) / (2 * b) := by
  have h1 : a * 10 ^ 9 / b + 5 * 10 ^ 4 = (a * 10 ^ 9 + 5 * 10 ^ 4 * b) / b := by
    rw [Nat.add_mul_div_right _ _ hb]
  rw [h1, Nat.div_div_eq_div_mul]
  have h2 : (2 * a * 10 ^ 4 + b) / (2 * b) = ((2 * a * 10 ^ 4 + b) * (5 * 10 ^ 4)) / ((2 * b) * (5 * 10 ^ 4)) := by
    rw [Nat.mul_div_mul_right _ _ (by omega : 0 < 5 * 10 ^ 4)]
  rw [h2]
  rw [scale_e1, scale_e2]

/-- `/` on two integers returns the exact quotient rounded half away from zero to 4 places (or NULL
for a zero divisor), for all integers. -/
theorem div_round_exact (lv rv : Int) : implDiv lv rv = exactDiv4 lv rv := by
  unfold implDiv exactDiv4
  by_cases hz : rv = 0
  · simp [hz]
  · simp only [hz, if_false]
    have hb : 0 < rv.natAbs := Int.natAbs_pos.mpr hz
    have hs : divInternalScale 0 0 = 9 := by decide
    simp only [hs, divPrecInc]
    have := trunc9_round4 lv.natAbs rv.natAbs hb
    simp only [show (9 - 4 - 1 : Nat) = 4 from rfl, show (9 - 4 : Nat) = 5 from rfl]
    rw [this]

theorem zero_divisor_null (lt : ITy) (lv : Int) (rt : ITy) :
    implIntDiv lt lv rt 0 = .null ∧ implMod lv 0 = .null ∧ implDiv lv 0 = .null := by
  refine ⟨?_, by simp [implMod], by simp [implDiv]⟩
  unfold implIntDiv toU64 toI64
  cases lt <;> cases rt <;> simp [ITy.unsigned, maxI64]

/-- `%`: the result has the sign of the dividend, is smaller than the divisor in magnitude, and
`dividend = divisor * (dividend DIV divisor) + remainder` with the truncating quotient of `exactIntDiv`. -/
theorem mod_sign_of_dividend (lv rv r : Int) (hz : rv ≠ 0) (h : implMod lv rv = .dec r 0) :
    lv = rv * Int.tdiv lv rv + r ∧ r.natAbs < rv.natAbs ∧ (0 ≤ lv → 0 ≤ r) ∧ (lv ≤ 0 → r ≤ 0) := by
  unfold implMod at h
  rw [if_neg hz] at h
  simp only [Obs.dec.injEq, and_true] at h
  subst h
  refine ⟨(Int.mul_tdiv_add_tmod lv rv).symm, ?_, ?_, ?_⟩
  · rw [Int.natAbs_tmod]; exact Nat.mod_lt _ (Int.natAbs_pos.mpr hz)
  · intro h0; exact Int.tmod_nonneg rv h0
  · intro h0
    have h1 : 0 ≤ (-lv).tmod rv := Int.tmod_nonneg rv (by omega)
    rw [Int.neg_tmod] at h1
    omega


/-! ### Findings: the full-strength statement is false for the unchanged code -/

/-- `SELECT 9223372036854775807 + 1` → `-9223372036854775808`. -/
theorem finding_bigint_overflow_wraps :
    ∃ op lt lv rt rv, lt.InRange lv ∧ rt.InRange rv ∧ bigint_overflow_wraps op lt lv rt rv ∧
      implArith op lt lv rt rv = .int (-9223372036854775808) ∧
      ¬ acceptable (arithResOk lt rt) (implArith op lt lv rt rv) (exactArith op lv rv) :=
  ⟨.add, .i64, 9223372036854775807, .i8, 1, by decide⟩

/-- `SELECT 200 - 201` (two TINYINT UNSIGNED literals) → `18446744073709551615`. -/
theorem finding_bigint_overflow_wraps_narrow_unsigned :
    ∃ lv rv, ITy.u8.InRange lv ∧ ITy.u8.InRange rv ∧ litTy lv = some .u8 ∧ litTy rv = some .u8 ∧
      implArith .sub .u8 lv .u8 rv = .int 18446744073709551615 ∧ exactArith .sub lv rv = .int (-1) :=
  ⟨200, 201, by decide⟩

/-- `SELECT 18446744073709551615 + -9223372036854775808` → `-1`; the exact result fits BIGINT. -/
theorem finding_unsigned_operand_clamped :
    ∃ op lt lv rt rv, lt.InRange lv ∧ rt.InRange rv ∧ unsigned_operand_clamped lt lv rt rv ∧
      ¬ bigint_overflow_wraps op lt lv rt rv ∧ implArith op lt lv rt rv = .int (-1) ∧
      ¬ acceptable (arithResOk lt rt) (implArith op lt lv rt rv) (exactArith op lv rv) :=
  ⟨.add, .u64, 18446744073709551615, .i64, -9223372036854775808, by decide⟩

/-- `SELECT -9223372036854775808 DIV -1` → `-9223372036854775808`. -/
theorem finding_intdiv_minint_by_minus1 :
    ∃ lt lv rt rv, lt.InRange lv ∧ rt.InRange rv ∧ intdiv_minint_by_minus1 lt lv rt rv ∧
      ¬ acceptable (intDivResOk lt rt) (implIntDiv lt lv rt rv) (exactIntDiv lv rv) :=
  ⟨.i64, -9223372036854775808, .i8, -1, by decide⟩

/-- `SELECT -500 DIV 200` → `18446744073709551614`. -/
theorem finding_intdiv_mixed_negative_as_unsigned :
    ∃ lt lv rt rv, lt.InRange lv ∧ rt.InRange rv ∧ intdiv_mixed_negative_as_unsigned lt lv rt rv ∧
      implIntDiv lt lv rt rv = .int 18446744073709551614 ∧
      ¬ acceptable (intDivResOk lt rt) (implIntDiv lt lv rt rv) (exactIntDiv lv rv) :=
  ⟨.i16, -500, .u8, 200, by decide⟩

/-- TINYINT UNSIGNED 200: `-c` → `56`. -/
theorem finding_neg_unsigned_wraps :
    ∃ t v, t.InRange v ∧ neg_unsigned_wraps t v ∧ implNeg t v = .int 56 ∧ exactNeg v = .int (-200) :=
  ⟨.u8, 200, by decide⟩

/-- MEDIUMINT -8388608: `-c` → `8388607`. -/
theorem finding_neg_mediumint_min_clamped :
    ∃ t v, t.InRange v ∧ neg_mediumint_min_clamped t v ∧ implNeg t v = .int 8388607 ∧ exactNeg v = .int 8388608 :=
  ⟨.i24, -8388608, by decide⟩

/-! ### Non-vacuity of the guarded theorems -/

example : ITy.i64.InRange 9223372036854775806 ∧ ITy.u8.InRange 1 ∧
    ¬ unsigned_operand_clamped .i64 9223372036854775806 .u8 1 ∧
    ¬ bigint_overflow_wraps .add .i64 9223372036854775806 .u8 1 ∧
    implArith .add .i64 9223372036854775806 .u8 1 = .int 9223372036854775807 := by decide

example : ITy.u64.InRange 18446744073709551615 ∧ ITy.u32.InRange 4294967295 ∧
    ¬ unsigned_operand_clamped .u64 18446744073709551615 .u32 4294967295 ∧
    ¬ bigint_overflow_wraps .sub .u64 18446744073709551615 .u32 4294967295 ∧
    implArith .sub .u64 18446744073709551615 .u32 4294967295 = .int 18446744069414584320 := by decide

example : implArith .mul .i32 (-2147483648) .u32 4294967295 = .int (-9223372034707292160) := by decide

example : ¬ intdiv_minint_by_minus1 .i64 (-9223372036854775808) .i8 1 ∧
    ¬ intdiv_mixed_negative_as_unsigned .i64 (-7) .i8 2 ∧ implIntDiv .i64 (-7) .i8 2 = .int (-3) ∧
    implIntDiv .u64 18446744073709551615 .i8 1 = .errRange ∧ implMod (-7) 2 = .dec (-1) 0 ∧
    implDiv 2 3 = .dec 6667 4 ∧ implDiv (-2) 3 = .dec (-6667) 4 ∧ implDiv 3000001 20000006667 = .dec 1 4 := by decide

example : ¬ neg_unsigned_wraps .u32 2147483648 ∧ implNeg .u32 2147483648 = .int (-2147483648) ∧
    implNeg .i64 (-9223372036854775808) = .errRange ∧ implNeg .i8 (-128) = .int 128 := by decide



/-! ### Obligations over the facts regenerated from the source on this run -/

def goIntTypes : List String := ["uint8", "int8", "uint16", "int16", "uint32", "int32", "uint64", "int64"]

/-- `plus/minus/mult`: every integer Go type is combined only with itself and by the native operator
(so the 64-bit model `AOp.bv` is what runs after both operands were converted to the result type). -/
theorem facts_match_switch :
    Gms.Generated.C25.plusCases = goIntTypes.map (fun t => (t, t, "l + r")) ∧
    Gms.Generated.C25.minusCases = goIntTypes.map (fun t => (t, t, "l - r")) ∧
    Gms.Generated.C25.multCases = goIntTypes.map (fun t => (t, t, "l * r")) ∧
    Gms.Generated.C25.intDivIntCases = [("uint64", "uint64"), ("int64", "int64")] := by
  decide

/-- `UnaryMinus.Eval`: the conversions the model `implNeg` transliterates. -/
theorem facts_match_neg :
    Gms.Generated.C25.negCases = [("int8", "-int64(n)"), ("int16", "-int64(n)"), ("int32", "-int64(n)"),
      ("int64", "-n"), ("uint8", "-int8(n)"), ("uint16", "-int16(n)"), ("uint32", "-int32(n)"), ("uint64", "-int64(n)")] ∧
    Gms.Generated.C25.negInt64Guard = "n == math.MinInt64" ∧
    Gms.Generated.C25.negInt64GuardError = "sql.ErrValueOutOfRange.New" := by
  decide

theorem facts_match_consts :
    Gms.Generated.C25.divPrecInc = divPrecInc ∧ Gms.Generated.C25.divIntPrecInc = divIntPrecInc := by
  decide

/-- The declared result type of every operator on every pair of integer types, dumped from the real
expression nodes, is the one the model renders through (600 entries, all pairs). -/
theorem facts_match_types :
    (∀ e ∈ Gms.Generated.C25.binTypeTable, binResTy e.1 e.2.1 e.2.2.1 = e.2.2.2) ∧
    Gms.Generated.C25.binTypeTable.length = 600 ∧
    (∀ e ∈ Gms.Generated.C25.negTypeTable, negResTy e.1 = e.2) ∧
    Gms.Generated.C25.negTypeTable.map (·.1) = ITy.all := by
  decide +kernel

/-- The planbuilder types integer literals at every boundary the way `litTy` does. -/
theorem facts_match_literals :
    (∀ e ∈ Gms.Generated.C25.litTypeTable, litTy e.1 = e.2) ∧ 60 ≤ Gms.Generated.C25.litTypeTable.length := by
  decide



theorem numDigits_pos (n : Nat) : 1 ≤ numDigits n := by
  rw [numDigits.eq_1]; split <;> omega

theorem numDigits_mono : ∀ n m : Nat, m ≤ n → numDigits m ≤ numDigits n := by
  intro n
  induction n using Nat.strongRecOn with
  | _ n ih =>
    intro m hm
    by_cases hn : n < 10
    · have hm' : m < 10 := by omega
      rw [numDigits.eq_1 n, numDigits.eq_1 m, if_pos hn, if_pos hm']
      exact Nat.le_refl _
    · rw [numDigits.eq_1 n, if_neg hn]
      by_cases hm' : m < 10
      · rw [numDigits.eq_1 m, if_pos hm']; omega
      · rw [numDigits.eq_1 m, if_neg hm']
        have := ih (n / 10) (by omega) (m / 10) (Nat.div_le_div_right hm)
        omega

/-- On two integers `%` never hits the `apd.Rem` precision failure: the decimal path computes exactly
`implMod`. -/
theorem int_mod_never_fails (a b : Int) : implDecMod (Dec.ofInt a) (Dec.ofInt b) = implMod a b := by
  unfold implDecMod implMod Dec.ofInt Dec.at
  simp only [Nat.max_self, Nat.sub_self, Int.pow_zero, Int.mul_one]
  by_cases hb : b = 0
  · simp [hb]
  · simp only [hb, if_false]
    have h1 : a.natAbs / b.natAbs ≤ a.natAbs := Nat.div_le_self _ _
    have h2 := numDigits_mono _ _ h1
    have : ¬ numDigits (a.natAbs / b.natAbs) > max (numDigits a.natAbs) (numDigits b.natAbs) := by
      have := Nat.le_max_left (numDigits a.natAbs) (numDigits b.natAbs)
      omega
    rw [if_neg this]

theorem dec_mod_partial (a b : Dec) (h : ¬ mod_quotient_exceeds_precision a b) :
    implDecMod a b = exactDecMod a b := by
  unfold implDecMod exactDecMod
  by_cases hb : b.coeff = 0
  · simp [hb]
  · simp only [hb, if_false]
    have : ¬ numDigits ((a.at (max a.scale b.scale)).natAbs / (b.at (max a.scale b.scale)).natAbs)
        > max (numDigits a.coeff.natAbs) (numDigits b.coeff.natAbs) := fun hh => h ⟨hb, hh⟩
    rw [if_neg this]

/-- coefficient re-expressed at a larger scale denotes the same number -/
theorem Dec.at_spec (a : Dec) (s : Nat) (h : a.scale ≤ s) : a.at s * 10 ^ a.scale = a.coeff * 10 ^ s := by
  unfold Dec.at
  rw [Int.mul_assoc, ← Int.pow_add, Nat.sub_add_cancel h]

/-- `+`/`-` on decimals: the result `c / 10^s` is exactly `a ± b` (stated without division: both
sides multiplied by `10^s`), at scale `max`. -/
theorem dec_add_sub_exact (a b : Dec) :
    (∃ c, implDecArith .add a b = .dec c (max a.scale b.scale) ∧
      c * 10 ^ a.scale * 10 ^ b.scale = (a.coeff * 10 ^ b.scale + b.coeff * 10 ^ a.scale) * 10 ^ (max a.scale b.scale)) ∧
    (∃ c, implDecArith .sub a b = .dec c (max a.scale b.scale) ∧
      c * 10 ^ a.scale * 10 ^ b.scale = (a.coeff * 10 ^ b.scale - b.coeff * 10 ^ a.scale) * 10 ^ (max a.scale b.scale)) := by
  have ha := Dec.at_spec a (max a.scale b.scale) (Nat.le_max_left _ _)
  have hb := Dec.at_spec b (max a.scale b.scale) (Nat.le_max_right _ _)
  constructor
  · refine ⟨_, rfl, ?_⟩
    grind
  · refine ⟨_, rfl, ?_⟩
    grind

theorem dec_mul_exact (a b : Dec) :
    implDecArith .mul a b = .dec (a.coeff * b.coeff) (a.scale + b.scale) := rfl


/-- General form of "truncate at a finer scale, then round half-up" = "round half-up": for `k ≥ 1`
extra digits there is no double-rounding error. -/
theorem trunc_then_round (N D j : Nat) (hD : 0 < D) :
    (N * 10 ^ (j + 1) / D + 5 * 10 ^ j) / 10 ^ (j + 1) = (2 * N + D) / (2 * D) := by
  have h1 : N * 10 ^ (j + 1) / D + 5 * 10 ^ j = (N * 10 ^ (j + 1) + 5 * 10 ^ j * D) / D := by
    rw [Nat.add_mul_div_right _ _ hD]
  rw [h1, Nat.div_div_eq_div_mul]
  have hp : 0 < 5 * 10 ^ j := Nat.mul_pos (by omega) (Nat.pow_pos (by omega))
  have h2 : (2 * N + D) / (2 * D) = ((2 * N + D) * (5 * 10 ^ j)) / ((2 * D) * (5 * 10 ^ j)) := by
    rw [Nat.mul_div_mul_right _ _ hp]
  rw [h2]
  have e1 : (2 * N + D) * (5 * 10 ^ j) = N * 10 ^ (j + 1) + 5 * 10 ^ j * D := by grind
  have e2 : 2 * D * (5 * 10 ^ j) = D * 10 ^ (j + 1) := by grind
  rw [e1, e2]

/-- `/` with a DECIMAL operand returns the exact quotient rounded half away from zero to the final
scale, whenever the internal working scale is above the final scale. -/
theorem dec_div_partial (a b : Dec) (h : ¬ div_internal_scale_not_above_final a b) :
    implDecDiv a b = exactDecDiv a b := by
  unfold div_internal_scale_not_above_final at h
  unfold implDecDiv exactDecDiv
  by_cases hb : b.coeff = 0
  · simp [hb]
  · simp only [hb, if_false]
    rw [if_neg h]
    have hD : 0 < b.coeff.natAbs * 10 ^ a.scale :=
      Nat.mul_pos (Int.natAbs_pos.mpr hb) (Nat.pow_pos (by omega))
    obtain ⟨j, hj⟩ : ∃ j, divInternalScale a.scale b.scale = divFinalScale a.scale + (j + 1) :=
      ⟨divInternalScale a.scale b.scale - divFinalScale a.scale - 1, by omega⟩
    have e1 : divInternalScale a.scale b.scale - divFinalScale a.scale - 1 = j := by omega
    have e2 : divInternalScale a.scale b.scale - divFinalScale a.scale = j + 1 := by omega
    have e3 : a.coeff.natAbs * 10 ^ (divInternalScale a.scale b.scale + b.scale)
        = (a.coeff.natAbs * 10 ^ (divFinalScale a.scale + b.scale)) * 10 ^ (j + 1) := by
      rw [hj, Nat.mul_assoc, ← Nat.pow_add]
      congr 2
      omega
    rw [e1, e2, e3, trunc_then_round _ _ j hD]

/-- `DIV` with a DECIMAL operand is acceptable unless it is declared unsigned and the quotient is negative. -/
theorem dec_intdiv_partial (u : Bool) (a b : Dec) (h : ¬ intdiv_dec_negative_as_unsigned u a b) :
    acceptable (decIntDivResOk u) (implDecIntDiv u a b) (exactDecIntDiv a b) := by
  unfold implDecIntDiv exactDecIntDiv
  by_cases hb : b.coeff = 0
  · simp [hb, acceptable]
  · simp only [hb, if_false]
    generalize hq : Int.tdiv (a.at (max a.scale b.scale)) (b.at (max a.scale b.scale)) = q
    have hq' : ¬ (u = true ∧ q < 0 ∧ minI64 ≤ q) := fun hh => h ⟨hh.1, hb, by rw [hq]; exact hh.2.1, by rw [hq]; exact hh.2.2⟩
    by_cases hr : q < minI64 ∨ q > maxI64
    · rw [if_pos hr]
      right
      refine ⟨rfl, q, rfl, ?_⟩
      intro hh
      have := hh.1
      unfold inI64 at this
      omega
    · rw [if_neg hr]
      left
      have : ¬ (u = true ∧ q < 0) := by
        intro hh; exact hq' ⟨hh.1, hh.2, by omega⟩
      rw [if_neg this]

theorem finding_mod_quotient_exceeds_precision :
    ∃ a b, mod_quotient_exceeds_precision a b ∧ implDecMod a b = .errOther ∧ exactDecMod a b = .dec 0 2 :=
  ⟨Dec.ofInt 127, ⟨1, 2⟩, by
    simp [mod_quotient_exceeds_precision, implDecMod, exactDecMod, Dec.ofInt, Dec.at, numDigits]⟩

/-- `SELECT 2.00000/3` → `0.666666666`; the exact quotient rounds to `0.666666667`. -/
theorem finding_div_internal_scale_not_above_final :
    ∃ a b, div_internal_scale_not_above_final a b ∧ implDecDiv a b = .dec 666666666 9 ∧
      exactDecDiv a b = .dec 666666667 9 :=
  ⟨⟨200000, 5⟩, Dec.ofInt 3, by decide⟩

example : ¬ div_internal_scale_not_above_final ⟨20000, 4⟩ (Dec.ofInt 3) ∧
    implDecDiv ⟨20000, 4⟩ (Dec.ofInt 3) = .dec 66666667 8 ∧
    implDecArith .add ⟨15, 1⟩ ⟨225, 2⟩ = .dec 375 2 ∧ implDecArith .mul ⟨15, 1⟩ ⟨225, 2⟩ = .dec 3375 3 ∧
    implDecIntDiv false ⟨-75, 1⟩ (Dec.ofInt 2) = .int (-3) := by decide


/-- The integer `/` model is the decimal `/` model at scale 0 (one code path in `Div.Eval`). -/
theorem int_div_is_dec_div (a b : Int) : implDecDiv (Dec.ofInt a) (Dec.ofInt b) = implDiv a b := by
  unfold implDecDiv implDiv Dec.ofInt
  have hS : divInternalScale 0 0 = 9 := by decide
  have hf : divFinalScale 0 = 4 := by decide
  simp only [hS, hf, divPrecInc]
  by_cases hb : b = 0
  · simp [hb]
  · simp only [hb, if_false]
    simp only [show ¬ ((9:Nat) ≤ 4) by omega, if_false, Nat.add_zero, Nat.pow_zero, Nat.mul_one]


end Gms.C25
