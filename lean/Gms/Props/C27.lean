/-
C27 — Storing a value keeps it exactly or reports the change.

Model: Gms/Model/NumConv.lean (`convert` = `sql.Type.Convert` of the ten integer types, DECIMAL(p,s)
column / non-column, YEAR, BIT(n), path by path, defects included) and Gms/Model/Store.lean (the
insert-time policy of sql/rowexec/insert.go `insertIter.Next`, the Spec `acceptableConvert` /
`acceptableOutcome`, the regions). Lemmas: Gms/Lemmas/Round.lean (rounding never crosses an integer
bound), StoreNum.lean (the two 64-bit converters), StoreSpec.lean (Prop form of the Spec), StoreInt.lean,
StoreDec.lean (per type family), StoreIdem.lean (range of the result, fixpoints).

Property theorems (namespace Gms.C27), for ALL well-formed values (nil, Go integers of any width,
`*apd.Decimal` of any size and scale; strings where stated) and all modelled types:

* `convert_exact_or_reported_partial` — outside the three regions `Convert` stores the value exactly
  (rounded half away from zero to the type's scale, `InRange`, no error) when that value is storable,
  and otherwise reports (flag ≠ InRange or an error) and hands back the nearest storable value or none.
* `convert_idem_partial` — converting a converted value again returns it unchanged, `InRange`, no
  error (also for string inputs) — outside `unsigned_underflow_wraps`.
* `strict_stores_only_exact_partial`, `ignore_changed_implies_warned_partial`,
  `ignore_stores_nearest_partial`, `insert_acceptable_partial` — "never silently a different value"
  for `INSERT` and `INSERT IGNORE`.
* `strict_rejects_iff`, `ignore_never_rejects`, `ignore_warns_iff` — the policy itself, unguarded.
* the full statements are FALSE for the unchanged code: `finding_*` give concrete witnesses for each region.
* binary strings (`[]byte`; Gms/Model/StoreBin.lean, Gms/Lemmas/StoreBinL.lean) into the integer types and
  BIT: `binary_exact_or_reported` (full strength), `binary_idem`, `binary_strict_never_silently_different`
  (unguarded), `binary_insert_acceptable_partial`, `finding_binary_out_of_range_stored_as_zero`; facts
  `facts_match_kinds`, `facts_match_bytes_branch`, `facts_match_binary`.
-/
import Gms.Model.Store
import Gms.Model.StoreStr
import Gms.Lemmas.StoreIdem
import Gms.Lemmas.StoreStrL
import Gms.Lemmas.StoreBinL
import Gms.Generated.C27

namespace Gms.Store
open Gms.Num Gms.Conv

/-! ## helpers for the obligations over the regenerated facts -/

/-- the numeric values of `sql.InRange / Overflow / Underflow` as dumped from the compiled code -/
def flagOfNat (tbl : List Nat) (n : Nat) : Option Flag :=
  match tbl with
  | [a, b, c] => if n = a then some .inRange else if n = b then some .overflow else if n = c then some .underflow else none
  | _ => none

/-- one row of the run-time clamp table agrees with the model: `Convert(±10^26)` of the compiled code -/
def clampRowOk (tbl : List Nat) (row : String × Int × Nat × Bool × Int × Nat × Bool) : Bool :=
  let (name, hv, hf, hok, tv, tf, tok) := row
  match ITy.ofName? name, flagOfNat tbl hf, flagOfNat tbl tf with
  | some it, some hf, some tf =>
    let big : Int := 10 ^ 26 - 1
    (convertInt it (.d big 0) == ⟨.int hv, hf, if hok then .none else .fatal⟩) &&
    (convertInt it (.d (-big) 0) == ⟨.int tv, tf, if tok then .none else .fatal⟩)
  | _, _, _ => false

/-- one cell of the run-time table of binary strings agrees with the model: `Convert([]byte)` of the compiled code -/
def binCellOk (tbl : List Nat) (it : ITy) (cell : List Nat × Int × Nat × Bool) : Bool :=
  let (bytes, v, f, ok) := cell
  match flagOfNat tbl f with
  | some f => convertIntB it (bytes.map UInt8.ofNat) == ⟨.int v, f, if ok then .none else .fatal⟩
  | none => false

def binRowOk (tbl : List Nat) (row : String × List (List Nat × Int × Nat × Bool)) : Bool :=
  match ITy.ofName? row.1 with
  | some it => row.2.all (binCellOk tbl it)
  | none => false

end Gms.Store

namespace Gms.C27
open Gms.Num Gms.Conv Gms.Store

/-! ### Obligations over the regenerated facts -/

/-- the Go kinds the two 64-bit converters dispatch on. The model covers nil, the ten integer kinds,
`*apd.Decimal`, `string`, `[]byte` (Gms/Model/StoreBin.lean) and `bool` (generated as the integers 0 / 1);
`time.Time`, `float32`, `float64` are outside the model (props/C27.json). A kind added to or removed
from the dispatch breaks this obligation. -/
theorem facts_match_kinds :
    Gms.Generated.C27.converterKinds = [
      ("convertToInt64", ["time.Time", "int", "int8", "int16", "int32", "int64", "uint", "uint8", "uint16", "uint32", "uint64",
        "float32", "float64", "*apd.Decimal", "[]byte", "string", "bool", "nil", "default"]),
      ("convertToUint64", ["time.Time", "int", "int8", "int16", "int32", "int64", "uint", "uint8", "uint16", "uint32", "uint64",
        "float32", "float64", "*apd.Decimal", "[]byte", "string", "bool", "nil", "default"])] := by decide

/-- the `[]byte` branch of `convertToInt64` / `convertToUint64`: the value is parsed by
`strconv.ParseInt / ParseUint` (base 16, 64 bits) from its hex text — the range check of the signed
parse is what refuses `2^63 … 2^64-1` — and any parse error yields `0, InRange, ErrInvalidValue`:
the branch `convertToInt64B` / `convertToUint64B` transliterate. `ConvertRound` hands anything but a
Go string to `Convert`. -/
theorem facts_match_bytes_branch :
    Gms.Generated.C27.bytesBranch = [
      ("convertToInt64", "strconv.ParseInt(hex.EncodeToString(v), 16, 64)",
        ["if err != nil", "return 0, sql.InRange, sql.ErrInvalidValue.New(v, t.String())", "return i, sql.InRange, nil"]),
      ("convertToUint64", "strconv.ParseUint(hex.EncodeToString(v), 16, 64)",
        ["if err != nil", "return 0, sql.InRange, sql.ErrInvalidValue.New(v, t.String())", "return i, sql.InRange, nil"])] ∧
    Gms.Generated.C27.roundDefers = ("_, isStr := v.(string)", "!isStr", "return t.Convert(ctx, v)") := by decide

/-- what the *compiled* `Convert` returns (value, flag, error) for a table of binary strings — empty,
one to ten bytes, the 8-byte strings with the top bit set, leading zero bytes — equals the model's
`convertIntB`, for each of the ten integer types. -/
theorem facts_match_binary :
    Gms.Generated.C27.binTable.map (fun r => r.1) = ITy.all.map ITy.name ∧
    (∀ row ∈ Gms.Generated.C27.binTable, row.2.length ≥ 15) ∧
    ∀ row ∈ Gms.Generated.C27.binTable, binRowOk Gms.Generated.C27.flagValues row = true := by
  decide

/-- `sql.ConvertInRange` values and, for each of the ten integer types, what the *compiled* `Convert`
returns for `+(10^26-1)` and `-(10^26-1)` (value, flag, error) equal the model's `convertInt` — including the
wrapped results of the unsigned types (MEDIUMINT UNSIGNED: `2^24`, beyond the type). -/
theorem facts_match_clamp :
    Gms.Generated.C27.flagValues.length = 3 ∧
    Gms.Generated.C27.clampTable.map (fun r => r.1) = ITy.all.map ITy.name ∧
    ∀ row ∈ Gms.Generated.C27.clampTable, clampRowOk Gms.Generated.C27.flagValues row = true := by
  decide

/-- `NumberTypeImpl_.Convert`: per base type the 64-bit converter it calls and its range guards with
the returned value and flag (go/ast) — the branches `convertInt` transliterates. -/
theorem facts_match_dispatch :
    Gms.Generated.C27.convertDispatch = [
      ("Int8", "convertToInt64", [("num > math.MaxInt8", "int8(math.MaxInt8)", "sql.Overflow"), ("num < math.MinInt8", "int8(math.MinInt8)", "sql.Underflow")]),
      ("Uint8", "convertToInt64", [("num > math.MaxUint8", "uint8(math.MaxUint8)", "sql.Overflow"), ("num < 0", "uint8(math.MaxUint8 + num + 1)", "sql.Underflow")]),
      ("Int16", "convertToInt64", [("num > math.MaxInt16", "int16(math.MaxInt16)", "sql.Overflow"), ("num < math.MinInt16", "int16(math.MinInt16)", "sql.Underflow")]),
      ("Uint16", "convertToInt64", [("num > math.MaxUint16", "uint16(math.MaxUint16)", "sql.Overflow"), ("num < 0", "uint16(math.MaxUint16 + num + 1)", "sql.Underflow")]),
      ("Int24", "convertToInt64", [("num > (1<<23 - 1)", "int32(1<<23 - 1)", "sql.Overflow"), ("num < (-1 << 23)", "int32(-1 << 23)", "sql.Underflow")]),
      ("Uint24", "convertToInt64", [("num >= (1 << 24)", "uint32(1<<24 - 1)", "sql.Overflow"), ("num < 0", "uint32(1<<24 + num)", "sql.Underflow")]),
      ("Int32", "convertToInt64", [("num > math.MaxInt32", "int32(math.MaxInt32)", "sql.Overflow"), ("num < math.MinInt32", "int32(math.MinInt32)", "sql.Underflow")]),
      ("Uint32", "convertToInt64", [("num > math.MaxUint32", "uint32(math.MaxUint32)", "sql.Overflow"), ("num < 0", "uint32(math.MaxUint32 + num + 1)", "sql.Underflow")]),
      ("Int64", "convertToInt64", []),
      ("Uint64", "convertToUint64", [])] := by decide

/-- `insertIter.Next`: a flag other than `InRange` becomes `ErrValueOutOfRange`, a truncation error
becomes `ErrInvalidValue`, any error rejects the row unless `i.ignore` (non-JSON), in which case
number types keep the converted value (`Zero()` when nil) — the conditions `insertStrict` /
`insertIgnore` model, in source order. -/
theorem facts_match_policy :
    Gms.Generated.C27.insertPolicy = [
      ("cErr == nil && inRange != sql.InRange", "cErr = sql.ErrValueOutOfRange.New(val, col.Type)"),
      ("sql.ErrTruncatedIncorrect.Is(cErr)", "cErr = sql.ErrInvalidValue.New(val, col.Type)"),
      ("cErr != nil", "if i.ignore && col.Type.Type() != query.Type_JSON { if sql.I"),
      ("i.ignore && col.Type.Type() != query.Type_JSON", "if sql.IsNumberType(col.Type) { if converted == nil { conver")] := by decide

/-! ### `Convert`: exact, or reported and nearest -/

/-- the three defect classes of `Convert` on numeric values -/
def ConvRegion (t : Ty) (v : Val) : Prop :=
  unsigned_underflow_wraps t v ∨ bit_negative_reinterpreted t v ∨ year_decimal_beyond_int64_becomes_zero t v

instance (t : Ty) (v : Val) : Decidable (ConvRegion t v) := by unfold ConvRegion; infer_instance

/-- Prop form, all types: outside the regions the result of `Convert` on a numeric value is acceptable. -/
theorem convert_acceptable (t : Ty) (ht : t.WF) (v : Val) (hwf : v.WF) (c : Int) (s : Nat)
    (hx : numOf v = some (c, s))
    (hy : ¬ (t = .year ∧ 1 ≤ target t (c, s) ∧ target t (c, s) ≤ 99))
    (hreg : ¬ ConvRegion t v) : Acceptable t (c, s) (convert t v) := by
  have h1 : ¬ unsigned_underflow_wraps t v := fun h => hreg (Or.inl h)
  have h2 : ¬ bit_negative_reinterpreted t v := fun h => hreg (Or.inr (Or.inl h))
  have h3 : ¬ year_decimal_beyond_int64_becomes_zero t v := fun h => hreg (Or.inr (Or.inr h))
  cases t with
  | int it => exact int_acceptable it v hwf c s hx h1
  | dec p sc col => exact dec_acceptable p sc col ht v c s hx
  | year =>
    have hy' : ¬ (1 ≤ roundHalfAway c s ∧ roundHalfAway c s ≤ 99) := by
      intro h; apply hy
      rw [(year_spec_unfold c s).1]; exact ⟨rfl, h⟩
    exact year_acceptable v hwf c s hx hy' h3
  | bit n => exact bit_acceptable n ht v hwf c s hx h2

/-- **C27, `Convert` level.** For every modelled type and every well-formed value (nil, Go integer of
any width, decimal of any size/scale, string), outside the listed regions, the Spec never says "no":
a storable value is stored exactly (`InRange`, no error), anything else is reported and — where a value
comes back for IGNORE mode — is the nearest storable one. (`none` = the Spec leaves strings and
two-digit YEAR inputs undetermined.) Full statement without the region guard: false, see `finding_*`. -/
theorem convert_exact_or_reported_partial (t : Ty) (ht : t.WF) (v : Val) (hwf : v.WF)
    (hreg : ¬ ConvRegion t v) : acceptableConvert t v (convert t v) ≠ some false := by
  by_cases hn : v = .null
  · subst hn
    have : convert t .null = ⟨.null, .inRange, .none⟩ := by cases t <;> rfl
    rw [this]; simp [acceptableConvert]
  · cases hx : numOf v with
    | none =>
      have : acceptableConvert t v (convert t v) = none := by
        cases v with
        | null => exact absurd rfl hn
        | s bs => simp only [acceptableConvert, numOf]
        | i x => simp [numOf] at hx
        | u x => simp [numOf] at hx
        | d a b => simp [numOf] at hx
      rw [this]; simp
    | some x =>
      obtain ⟨c, s⟩ := x
      by_cases hy : t = .year ∧ 1 ≤ target t (c, s) ∧ target t (c, s) ≤ 99
      · rw [acceptableConvert_num t v (c, s) _ hx, if_pos hy]; simp
      · rw [acceptableConvert_of t v (c, s) _ hx hy (convert_acceptable t ht v hwf c s hx hy hreg)]
        simp

/-- in words, for a storable value: stored exactly, `InRange`, no error -/
theorem convert_exact_when_storable_partial (t : Ty) (ht : t.WF) (v : Val) (hwf : v.WF) (c : Int) (s : Nat)
    (hx : numOf v = some (c, s)) (hy : ¬ (t = .year ∧ 1 ≤ target t (c, s) ∧ target t (c, s) ≤ 99))
    (hreg : ¬ ConvRegion t v)
    (hs : t.storable (target t (c, s)) = true) (hb : exactInBounds t (c, s) = true) :
    (convert t v).err = .none ∧ (convert t v).flag = .inRange ∧
      storedCoeff t (convert t v).val = some (target t (c, s)) :=
  (convert_acceptable t ht v hwf c s hx hy hreg).1 hs hb

/-- in words, for a value that is not storable: reported, and never a wrapped value -/
theorem convert_clamp_nearest_partial (t : Ty) (ht : t.WF) (v : Val) (hwf : v.WF) (c : Int) (s : Nat)
    (hx : numOf v = some (c, s)) (hy : ¬ (t = .year ∧ 1 ≤ target t (c, s) ∧ target t (c, s) ≤ 99))
    (hreg : ¬ ConvRegion t v) (hs : t.storable (target t (c, s)) = false) :
    conversionOk (convert t v) = false ∧
      ((convert t v).err = .fatal ∨ storedCoeff t (convert t v).val = some (nearest t (target t (c, s)))) :=
  (convert_acceptable t ht v hwf c s hx hy hreg).2.2 hs

/-! ### idempotence -/

theorem convert_null (t : Ty) : convert t .null = ⟨.null, .inRange, .none⟩ := by cases t <;> rfl

/-- **C27, idempotence.** Converting an already converted value again never changes it: for every
modelled type and EVERY well-formed value (strings included), if `Convert` returns a value without a
fatal error then converting that value again returns it unchanged, `InRange`, without error —
outside `unsigned_underflow_wraps` (see `finding_not_idempotent`). -/
theorem convert_idem_partial (t : Ty) (ht : t.WF) (v : Val) (hwf : v.WF)
    (hreg : ¬ unsigned_underflow_wraps t v)
    (hne : (convert t v).err ≠ .fatal) (hv : (convert t v).val ≠ .null) :
    convert t (inject t (convert t v).val) = ⟨(convert t v).val, .inRange, .none⟩ := by
  have hnn : v ≠ .null := by
    intro h; subst h; rw [convert_null] at hv; exact hv rfl
  cases t with
  | int it =>
    simp only [convert] at hne hv ⊢
    obtain ⟨x, hx, hlo, hhi⟩ := convertInt_val_storable it v hwf hnn hreg hne
    rw [hx]; exact convertInt_fixpoint it x hlo hhi
  | dec p s col =>
    simp only [convert] at hne hv ⊢
    cases hx : numOf v with
    | none =>
      exfalso
      cases v with
      | null => exact hnn rfl
      | s bs => simp [convertDec, toDecimal] at hne
      | i x => simp [numOf] at hx
      | u x => simp [numOf] at hx
      | d a b => simp [numOf] at hx
    | some x =>
      obtain ⟨c, sc⟩ := x
      obtain ⟨c', sc', hle, hcol, _, hconv⟩ := convertDec_num p s col v c sc hx
      rw [hconv] at hne hv ⊢
      by_cases hb : c'.natAbs ≥ 10 ^ (p - s) * 10 ^ sc'
      · rw [if_pos hb] at hne; exact absurd rfl hne
      · rw [if_neg hb]
        simp only [inject]
        exact convertDec_fixpoint p s col c' sc' hle hcol hb
  | year =>
    simp only [convert] at hne hv ⊢
    -- whatever `convertYear` returns without error came out of `yearOfInt`
    have key : ∀ y : Int, (match yearOfInt y with
        | some y => (⟨.int y, .inRange, .none⟩ : CRes)
        | none => ⟨.null, .inRange, .fatal⟩) = convertYear v →
        convertYear (inject .year (convertYear v).val) = ⟨(convertYear v).val, .inRange, .none⟩ := by
      intro y hy
      rw [← hy] at hne ⊢
      cases hyo : yearOfInt y with
      | none => rw [hyo] at hne; exact absurd rfl hne
      | some z =>
        simp only
        apply convertYear_fixpoint
        unfold yearOfInt at hyo
        split at hyo
        · simp at hyo; omega
        · split at hyo
          · simp at hyo; omega
          · split at hyo
            · simp at hyo; omega
            · split at hyo
              · simp at hyo; omega
              · cases hyo
    cases v with
    | null => exact absurd rfl hnn
    | i x => exact key x rfl
    | u x => exact key (BitVec.ofInt 64 x).toInt rfl
    | d c s =>
      refine key (if inI64 (roundHalfAway c s) then roundHalfAway c s else 0) ?_
      simp only [convertYear]
      cases yearOfInt (if inI64 (roundHalfAway c s) then roundHalfAway c s else 0) <;> rfl
    | s bs => simp [convertYear] at hne
  | bit n =>
    simp only [convert] at hne hv ⊢
    have key : ∀ x : Int, (if x > 2 ^ n - 1 then (⟨.null, .overflow, .fatal⟩ : CRes) else ⟨.int x, .inRange, .none⟩) = convertBit n v →
        convertBit n (inject (.bit n) (convertBit n v).val) = ⟨(convertBit n v).val, .inRange, .none⟩ := by
      intro x hx
      rw [← hx] at hne ⊢
      by_cases h : x > 2 ^ n - 1
      · rw [if_pos h] at hne; exact absurd rfl hne
      · rw [if_neg h]; exact convertBit_fixpoint n x (by omega)
    cases v with
    | null => exact absurd rfl hnn
    | i x => exact key (x % 2 ^ 64) rfl
    | u x => exact key x rfl
    | d c s =>
      simp only [convertBit] at hne
      by_cases h1 : roundHalfAway c s > maxU64
      · rw [if_pos h1] at hne; exact absurd rfl hne
      · by_cases h2 : roundHalfAway c s < minI64
        · rw [if_neg h1, if_pos h2] at hne; exact absurd rfl hne
        · refine key (((roundHalfAway c s).natAbs : Int) % 2 ^ 64) ?_
          simp only [convertBit, h1, h2, if_false]
    | s bs =>
      simp only [convertBit] at hne
      by_cases h1 : bs.length > 8
      · rw [if_pos h1] at hne; exact absurd rfl hne
      · refine key (List.foldl (fun (acc : Int) (b : UInt8) => acc * 256 + (b.toNat : Int)) ((0 : Nat) : Int) bs) ?_
        simp only [convertBit, h1, if_false]

/-! ### the insert policy (`insertIter.Next`) -/

/-- strict mode rejects exactly when the conversion is not clean -/
theorem strict_rejects_iff (t : Ty) (v : Val) :
    insertStrict t v = .rejected ↔ conversionOk (convert t v) = false := by
  simp only [insertStrict]
  cases conversionOk (convert t v) <;> simp

theorem strict_stores_converted (t : Ty) (v : Val) (x : Stored) (w : Bool) (h : insertStrict t v = .stored x w) :
    w = false ∧ x = (convert t v).val ∧ conversionOk (convert t v) = true := by
  simp only [insertStrict] at h
  cases hc : conversionOk (convert t v) <;> simp [hc] at h
  rcases h with ⟨rfl, rfl⟩
  exact ⟨rfl, rfl, rfl⟩

theorem ignore_never_rejects (t : Ty) (v : Val) : insertIgnore t v ≠ .rejected := by
  simp only [insertIgnore]
  cases conversionOk (convert t v) <;> simp

/-- IGNORE mode warns exactly when the conversion is not clean -/
theorem ignore_warns_iff (t : Ty) (v : Val) (x : Stored) (w : Bool) (h : insertIgnore t v = .stored x w) :
    (w = true ↔ conversionOk (convert t v) = false) := by
  simp only [insertIgnore] at h
  cases hc : conversionOk (convert t v) <;> simp [hc] at h <;> rcases h with ⟨_, rfl⟩ <;> simp

/-- **never silently a different value, strict mode**: whatever a strict `INSERT` stores for a numeric
value is the value itself (rounded to the column's scale) — outside the regions. -/
theorem strict_stores_only_exact_partial (t : Ty) (ht : t.WF) (v : Val) (hwf : v.WF) (c : Int) (s : Nat)
    (hx : numOf v = some (c, s)) (hy : ¬ (t = .year ∧ 1 ≤ target t (c, s) ∧ target t (c, s) ≤ 99))
    (hreg : ¬ ConvRegion t v) (x : Stored) (w : Bool) (h : insertStrict t v = .stored x w) :
    storedCoeff t x = some (target t (c, s)) ∧ t.storable (target t (c, s)) = true := by
  obtain ⟨_, hxv, hok⟩ := strict_stores_converted t v x w h
  obtain ⟨a1, a2, a3⟩ := convert_acceptable t ht v hwf c s hx hy hreg
  have hsto : t.storable (target t (c, s)) = true := by
    cases hs : t.storable (target t (c, s))
    · have := (a3 hs).1; rw [hok] at this; cases this
    · rfl
  refine ⟨?_, hsto⟩
  subst hxv
  cases hb : exactInBounds t (c, s)
  · rcases a2 hsto hb with e | e
    · simp [conversionOk, e] at hok
    · exact e
  · exact (a1 hsto hb).2.2

/-- **changed ⇒ warned, IGNORE mode**: if `INSERT IGNORE` stores something other than the value itself,
a warning is raised — outside the regions. -/
theorem ignore_changed_implies_warned_partial (t : Ty) (ht : t.WF) (v : Val) (hwf : v.WF) (c : Int) (s : Nat)
    (hx : numOf v = some (c, s)) (hy : ¬ (t = .year ∧ 1 ≤ target t (c, s) ∧ target t (c, s) ≤ 99))
    (hreg : ¬ ConvRegion t v) (x : Stored) (w : Bool) (h : insertIgnore t v = .stored x w)
    (hch : storedCoeff t x ≠ some (target t (c, s))) : w = true := by
  cases hw : w
  · exfalso
    subst hw
    have hok : conversionOk (convert t v) = true := by
      cases hc : conversionOk (convert t v)
      · have := (ignore_warns_iff t v x false h).2 hc; cases this
      · rfl
    have hs : insertStrict t v = .stored x false := by
      unfold insertStrict; unfold insertIgnore at h; simp [hok] at h ⊢; exact h
    exact hch (strict_stores_only_exact_partial t ht v hwf c s hx hy hreg x false hs).1
  · rfl

/-- **nearest under IGNORE**: a numeric value that is not storable is stored as the nearest storable
value (YEAR: `0000`), with a warning — outside the regions, `ignore_stores_zero_not_nearest` included. -/
theorem ignore_stores_nearest_partial (t : Ty) (ht : t.WF) (v : Val) (hwf : v.WF) (c : Int) (s : Nat)
    (hx : numOf v = some (c, s)) (hy : ¬ (t = .year ∧ 1 ≤ target t (c, s) ∧ target t (c, s) ≤ 99))
    (hreg : ¬ ConvRegion t v) (hz : ¬ ignore_stores_zero_not_nearest t v)
    (hs : t.storable (target t (c, s)) = false) :
    ∃ x, insertIgnore t v = .stored x true ∧ storedCoeff t x = some (nearest t (target t (c, s))) := by
  obtain ⟨hok, hval⟩ := (convert_acceptable t ht v hwf c s hx hy hreg).2.2 hs
  have hnn := numOf_ne_null hx
  unfold insertIgnore
  simp only [hok, Bool.false_eq_true, if_false]
  rcases hval with hf | hval
  · -- a fatal error: only YEAR is outside `ignore_stores_zero_not_nearest`
    have hty : t = .year := by
      by_cases h : t = .year
      · exact h
      · exact absurd ⟨hf, hnn, h⟩ hz
    subst hty
    refine ⟨_, rfl, ?_⟩
    have hvn : (convert .year v).val = .null := by
      simp only [convert] at hf ⊢
      cases v with
      | null => exact absurd rfl hnn
      | s bs => rfl
      | i a =>
        simp only [convertYear] at hf ⊢
        generalize yearOfInt a = yo at hf ⊢
        cases yo <;> simp at hf ⊢
      | u a =>
        simp only [convertYear] at hf ⊢
        generalize yearOfInt (BitVec.ofInt 64 a).toInt = yo at hf ⊢
        cases yo <;> simp at hf ⊢
      | d a b =>
        simp only [convertYear] at hf ⊢
        generalize yearOfInt (if inI64 (roundHalfAway a b) then roundHalfAway a b else 0) = yo at hf ⊢
        cases yo <;> simp at hf ⊢
    simp [hvn, hnn, zeroOf, storedCoeff, nearest]
  · refine ⟨_, rfl, ?_⟩
    have : ¬ ((convert t v).val = .null ∧ v ≠ .null) := by
      intro h; rw [h.1] at hval; simp [storedCoeff] at hval
    rw [if_neg this]; exact hval

/-- **C27, insert level.** The Spec `acceptableOutcome` (what the driver evaluates on every generated
case) never says "no" outside the regions, for both modes. -/
theorem insert_acceptable_partial (ignore : Bool) (t : Ty) (ht : t.WF) (v : Val) (hwf : v.WF)
    (hreg : ¬ ConvRegion t v) (hz : ignore = true → ¬ ignore_stores_zero_not_nearest t v) :
    acceptableOutcome ignore t v (if ignore then insertIgnore t v else insertStrict t v) ≠ some false := by
  by_cases hn : v = .null
  · subst hn
    have hc := convert_null t
    cases ignore <;> simp [acceptableOutcome, insertIgnore, insertStrict, hc, conversionOk]
  · cases hx : numOf v with
    | none =>
      have : ∀ o, acceptableOutcome ignore t v o = none := by
        intro o
        cases v with
        | null => exact absurd rfl hn
        | s bs => simp only [acceptableOutcome, numOf]
        | i x => simp [numOf] at hx
        | u x => simp [numOf] at hx
        | d a b => simp [numOf] at hx
      rw [this]; simp
    | some x =>
      obtain ⟨c, s⟩ := x
      have hunf : ∀ o, acceptableOutcome ignore t v o =
          (if t = .year ∧ 1 ≤ target t (c, s) ∧ target t (c, s) ≤ 99 then none
           else match o with
            | .rejected => some (!ignore && !(t.storable (target t (c, s)) && exactInBounds t (c, s)))
            | .stored st w =>
              if t.storable (target t (c, s)) then some (storedCoeff t st == some (target t (c, s)))
              else some (ignore && w && storedCoeff t st == some (nearest t (target t (c, s))))) := by
        intro o
        cases v with
        | null => exact absurd rfl hn
        | s bs => simp [numOf] at hx
        | i a => simp only [acceptableOutcome, hx]; rfl
        | u a => simp only [acceptableOutcome, hx]; rfl
        | d a b => simp only [acceptableOutcome, hx]; rfl
      rw [hunf]
      by_cases hy : t = .year ∧ 1 ≤ target t (c, s) ∧ target t (c, s) ≤ 99
      · rw [if_pos hy]; simp
      · rw [if_neg hy]
        obtain ⟨a1, a2, a3⟩ := convert_acceptable t ht v hwf c s hx hy hreg
        cases ignore with
        | false =>
          simp only [Bool.false_eq_true, if_false]
          cases ho : insertStrict t v with
          | rejected =>
            simp only
            -- rejected although storable and within bounds? then the conversion was clean
            cases hs : t.storable (target t (c, s)) <;> cases hb : exactInBounds t (c, s) <;> simp
            have hok := (strict_rejects_iff t v).1 ho
            obtain ⟨e1, e2, _⟩ := a1 hs hb
            simp [conversionOk, e1, e2] at hok
          | stored st w =>
            obtain ⟨e, hsto⟩ := strict_stores_only_exact_partial t ht v hwf c s hx hy hreg st w ho
            simp [hsto, e]
        | true =>
          simp only [if_true]
          cases ho : insertIgnore t v with
          | rejected => exact absurd ho (ignore_never_rejects t v)
          | stored st w =>
            simp only
            cases hs : t.storable (target t (c, s))
            · obtain ⟨x, hx', hcoef⟩ := ignore_stores_nearest_partial t ht v hwf c s hx hy hreg (hz rfl) hs
              rw [ho] at hx'
              simp only [Outcome.stored.injEq] at hx'
              obtain ⟨rfl, rfl⟩ := hx'
              simp [hcoef]
            · simp only [if_true]
              by_cases hch : storedCoeff t st = some (target t (c, s))
              · simp [hch]
              · -- changed although storable: the conversion was not clean, yet acceptable ⇒ value is the target
                exfalso
                have hw := ignore_changed_implies_warned_partial t ht v hwf c s hx hy hreg st w ho hch
                subst hw
                have hnok := (ignore_warns_iff t v st true ho).1 rfl
                unfold insertIgnore at ho
                simp only [hnok, Bool.false_eq_true, if_false, Outcome.stored.injEq, and_true] at ho
                cases hb : exactInBounds t (c, s)
                · rcases a2 hs hb with e | e
                  · -- fatal error: zero stored; for the types concerned `hz` excludes it unless YEAR, where storable tg = 0
                    have hnn := numOf_ne_null hx
                    by_cases hty : t = .year
                    · subst hty
                      -- YEAR: a fatal error contradicts acceptability of a storable target only if the stored zero differs
                      have hst := (year_spec_unfold c s)
                      -- fatal for YEAR means `yearOfInt` failed, impossible for a storable target outside the region
                      have h3 : ¬ year_decimal_beyond_int64_becomes_zero .year v := fun h => hreg (Or.inr (Or.inr h))
                      have hy' : ¬ (1 ≤ roundHalfAway c s ∧ roundHalfAway c s ≤ 99) := by
                        intro h; apply hy; rw [hst.1]; exact ⟨rfl, h⟩
                      obtain ⟨y, hyy, hconv⟩ := convertYear_num v hwf c s hx h3
                      rw [hst.1] at hs
                      have hsx := hst.2.1 hs
                      have : yearOfInt y = some (roundHalfAway c s) := by
                        rcases hyy with e' | ⟨_, e'⟩
                        · rw [e']; exact yearOfInt_storable _ hsx
                        · omega
                      simp only [convert] at e
                      rw [hconv, this] at e; cases e
                    · exact absurd ⟨e, hnn, hty⟩ (hz rfl)
                  · apply hch
                    have : ¬ ((convert t v).val = .null ∧ v ≠ .null) := by
                      intro h; rw [h.1] at e; simp [storedCoeff] at e
                    rw [if_neg this] at ho
                    rw [← ho]; exact e
                · obtain ⟨e1, e2, _⟩ := a1 hs hb
                  simp [conversionOk, e1, e2] at hnok

/-! ### Findings: the unguarded statements are false for the unchanged code -/

/-- TINYINT UNSIGNED ← -1: `Convert` hands back the wrapped 255 (flag Underflow) instead of the nearest
value 0, and `INSERT IGNORE` stores it. -/
theorem finding_unsigned_underflow_wraps :
    ∃ t v, unsigned_underflow_wraps t v ∧ acceptableConvert t v (convert t v) = some false ∧
      insertIgnore t v = .stored (.int 255) true ∧ acceptableOutcome true t v (insertIgnore t v) = some false :=
  ⟨.int .u8, .i (-1), by decide⟩

/-- MEDIUMINT UNSIGNED ← "-9223372036854775808": the wrapped value `2^24` is not a value of the type and
converts to something else the second time: `Convert` is not idempotent. -/
theorem finding_not_idempotent :
    ∃ t v, unsigned_underflow_wraps t v ∧ (convert t v).err ≠ .fatal ∧ (convert t v).val = .int 16777216 ∧
      convert t (inject t (convert t v).val) = ⟨.int 16777215, .overflow, .none⟩ :=
  ⟨.int .u24, .s [45, 57, 50, 50, 51, 51, 55, 50, 48, 51, 54, 56, 53, 52, 55, 55, 53, 56, 48, 56], by decide⟩

/-- BIT(64) ← -1 is accepted silently as 18446744073709551615; BIT(8) ← -5.0 is stored as 5. -/
theorem finding_bit_negative_reinterpreted :
    (∃ t v, bit_negative_reinterpreted t v ∧ convert t v = ⟨.int 18446744073709551615, .inRange, .none⟩ ∧
      acceptableConvert t v (convert t v) = some false ∧ insertStrict t v = .stored (.int 18446744073709551615) false) ∧
    (∃ t v, bit_negative_reinterpreted t v ∧ convert t v = ⟨.int 5, .inRange, .none⟩ ∧
      acceptableConvert t v (convert t v) = some false) :=
  ⟨⟨.bit 64, .i (-1), by decide⟩, ⟨.bit 8, .d (-50) 1, by decide⟩⟩

/-- YEAR ← 100000000000000000000 (a decimal beyond the int64 range) is silently stored as 0000, in
strict mode, without error or warning. -/
theorem finding_year_decimal_beyond_int64_becomes_zero :
    ∃ t v, year_decimal_beyond_int64_becomes_zero t v ∧ convert t v = ⟨.int 0, .inRange, .none⟩ ∧
      insertStrict t v = .stored (.int 0) false ∧ acceptableOutcome false t v (insertStrict t v) = some false :=
  ⟨.year, .d 100000000000000000000 0, by decide⟩

/-- DECIMAL(10,2) column ← 123456789012.34 under `INSERT IGNORE`: 0.00 is stored (with a warning)
instead of the nearest value 99999999.99. -/
theorem finding_ignore_stores_zero_not_nearest :
    ∃ t v, ignore_stores_zero_not_nearest t v ∧ ¬ ConvRegion t v ∧ insertIgnore t v = .stored (.dec 0 2) true ∧
      nearest t (target t (12345678901234, 2)) = 9999999999 ∧
      acceptableOutcome true t v (insertIgnore t v) = some false :=
  ⟨.dec 10 2 true, .d 12345678901234 2, by decide⟩

/-! ### Non-vacuity -/

example : ¬ ConvRegion (.int .i8) (.d 1275 1) ∧ (Ty.int .i8).WF ∧ (Val.d 1275 1).WF ∧
    convert (.int .i8) (.d 1275 1) = ⟨.int 127, .overflow, .none⟩ ∧          -- 127.5 rounds to 128: clamped, reported
    acceptableConvert (.int .i8) (.d 1275 1) (convert (.int .i8) (.d 1275 1)) = some true ∧
    convert (.int .i8) (.d 1274 1) = ⟨.int 127, .inRange, .none⟩ ∧           -- 127.4 rounds to 127: exact
    acceptableConvert (.int .i8) (.d 1274 1) (convert (.int .i8) (.d 1274 1)) = some true ∧
    convert (.int .i64) (.d 92233720368547758073 1) = ⟨.int 9223372036854775807, .overflow, .none⟩ ∧
    acceptableConvert (.int .i64) (.d 92233720368547758073 1) (convert (.int .i64) (.d 92233720368547758073 1)) = some true ∧
    insertIgnore (.int .i8) (.i 300) = .stored (.int 127) true ∧ insertStrict (.int .i8) (.i 300) = .rejected ∧
    insertStrict (.dec 10 2 true) (.d 12345 3) = .stored (.dec 1235 2) false ∧   -- 12.345 → 12.35
    insertStrict .year (.i 1900) = .rejected ∧ insertIgnore .year (.i 1900) = .stored (.int 0) true ∧
    convert (.int .i32) (.s [49, 50, 97]) = ⟨.int 12, .inRange, .truncated⟩ ∧      -- "12a"
    convert (.int .i32) (inject (.int .i32) (.int 12)) = ⟨.int 12, .inRange, .none⟩ := by decide

/-! ### strings written into integer columns -/

theorem acceptNum_of (t : Ty) (x : Int × Nat) (r : CRes)
    (hy : ¬ (t = .year ∧ 1 ≤ target t x ∧ target t x ≤ 99)) (h : Acceptable t x r) :
    acceptNum t x r = some true := by
  have := acceptableConvert_of t (.d x.1 x.2) x r rfl hy h
  rw [acceptableConvert_num t (.d x.1 x.2) x r rfl] at this
  exact this

theorem signedVal_neg_head (t : List UInt8) (h : signedVal t < 0) : (t.head? == some 45) = true := by
  match t, h with
  | [], h => simp [signedVal, digitsVal] at h
  | c :: ds, h =>
    by_cases hc : c = 45
    · subst hc; simp
    · exfalso
      unfold signedVal at h
      split at h
      · rename_i heq; simp at heq; exact hc heq.1
      · omega
      · omega

theorem strNum_trunc (bs : List UInt8) (n : Int) (hn : strNum bs = some n) :
    truncateStringToInt bs = (trim isIntCut bs, false) ∧ signedVal (trim isIntCut bs) = n := by
  simp only [strNum] at hn
  by_cases h : isIntBody (trim isIntCut bs) = true
  · rw [if_pos h] at hn; exact ⟨truncate_intBody bs h, by simpa using hn⟩
  · rw [if_neg h] at hn; cases hn

/-- the wrap region seen from the integer the text denotes -/
theorem region_of_text (it : ITy) (bs : List UInt8) (n : Int) (hn : strNum bs = some n)
    (hreg : ¬ unsigned_underflow_wraps (.int it) (.s bs)) : ¬ unsigned_underflow_wraps (.int it) (.i n) := by
  intro ⟨hu, hneg⟩
  apply hreg
  refine ⟨hu, ?_⟩
  obtain ⟨ht, hv⟩ := strNum_trunc bs n hn
  simp only [Val.negative, decide_eq_true_eq] at hneg
  simp only [Val.negative, ht]
  exact signedVal_neg_head _ (by omega)

/-- **C27 for string inputs, `Convert` level**: integer text (within the int64 range, every integer
type except BIGINT UNSIGNED) enjoys exactly the guarantee of the integer it denotes. -/
theorem string_intText_exact_or_reported_partial (it : ITy) (hu : it ≠ .u64) (bs : List UInt8) (n : Int)
    (hn : strNum bs = some n) (hr : inI64 n) (hreg : ¬ unsigned_underflow_wraps (.int it) (.s bs)) :
    acceptableConvertS (.int it) (.s bs) (convert (.int it) (.s bs)) = some true := by
  simp only [acceptableConvertS, hn, convert]
  rw [(string_intText_as_integer it hu bs n hn hr).1]
  apply acceptNum_of
  · simp
  · exact int_acceptable it (.i n) hr n 0 rfl (region_of_text it bs n hn hreg)

/-- malformed text is never stored silently by `Convert` (all ten integer types) -/
theorem string_malformed_convert_partial (it : ITy) (bs : List UInt8) (hm : strNum bs = none)
    (hreg : ¬ sign_only_or_empty_string_as_zero (.int it) (.s bs)) :
    acceptableConvertS (.int it) (.s bs) (convert (.int it) (.s bs)) = some true := by
  simp only [acceptableConvertS, hm, convert]
  rw [(string_malformed_reported it bs hm hreg).1]; rfl

theorem policy_eq_insert (ignore : Bool) (it : ITy) (n : Int) :
    policy ignore (convertInt it (.i n)) =
      (if ignore then insertIgnore (.int it) (.i n) else insertStrict (.int it) (.i n)) := by
  have hnn : (convertInt it (.i n)).val ≠ .null := by
    by_cases h1 : it = .i64
    · subst h1; simp [convertInt]
    · by_cases h2 : it = .u64
      · subst h2; simp [convertInt]
      · rw [convertInt_narrow it ⟨h1, h2⟩ _ (by simp)]
        simp only
        split
        · simp
        · split
          · simp
          · split <;> simp
  have hz : ¬ ((convertInt it (.i n)).val = .null ∧ Val.i n ≠ .null) := fun h => hnn h.1
  cases ignore <;> cases hc : conversionOk (convertInt it (.i n)) <;>
    simp [policy, insertStrict, insertIgnore, convert, hc, hnn]

/-- **C27 for string inputs, insert level**: `INSERT [IGNORE]` of integer text behaves as the Spec
demands of the integer it denotes (within int64, every integer type except BIGINT UNSIGNED). -/
theorem string_insert_intText_partial (ignore : Bool) (it : ITy) (hu : it ≠ .u64) (bs : List UInt8) (n : Int)
    (hn : strNum bs = some n) (hr : inI64 n) (hreg : ¬ unsigned_underflow_wraps (.int it) (.s bs)) :
    acceptableStrOutcome ignore it bs (insertStr ignore it bs) = true := by
  have hreg' := region_of_text it bs n hn hreg
  have hcr : ¬ ConvRegion (.int it) (.i n) := by
    rintro (h | h | h)
    · exact hreg' h
    · simp [bit_negative_reinterpreted] at h
    · simp [year_decimal_beyond_int64_becomes_zero] at h
  have hz : ignore = true → ¬ ignore_stores_zero_not_nearest (.int it) (.i n) := by
    intro _ ⟨hf, _, _⟩
    have := (int_acceptable it (.i n) hr n 0 rfl hreg')
    -- an integer never converts with a fatal error
    have he : (convert (.int it) (.i n)).err = .none := by
      simp only [convert]
      by_cases h1 : it = .i64
      · subst h1; rfl
      · rw [convertInt_narrow it ⟨h1, hu⟩ _ (by simp)]
        simp only [convertToInt64]
        by_cases a : n > it.hi
        · simp [a]
        · by_cases b : n < it.lo <;> simp [a, b]
    rw [he] at hf; cases hf
  have key := insert_acceptable_partial ignore (.int it) trivial (.i n) hr hcr hz
  simp only [acceptableStrOutcome, hn, insertStr]
  rw [(string_intText_as_integer it hu bs n hn hr).2, policy_eq_insert]
  generalize (if ignore = true then insertIgnore (.int it) (.i n) else insertStrict (.int it) (.i n)) = o at key ⊢
  simp only [acceptableOutcome, numOf] at key
  have hy : ¬ (Ty.int it = .year ∧ 1 ≤ target (.int it) (n, 0) ∧ target (.int it) (n, 0) ≤ 99) := by simp
  rw [if_neg hy] at key
  unfold acceptNumOutcome
  have some_ne_false : ∀ {b : Bool}, some b ≠ some false → b = true := by
    intro b h; cases b <;> simp_all
  cases o with
  | rejected => exact some_ne_false key
  | stored s w =>
    simp only at key ⊢
    split at key <;> rename_i hs
    · rw [if_pos hs]; exact some_ne_false key
    · rw [if_neg hs]; exact some_ne_false key

/-- malformed text: a strict `INSERT` rejects it, `INSERT IGNORE` warns — all ten integer types,
unless the text is nothing but an optional sign -/
theorem string_insert_malformed_partial (it : ITy) (bs : List UInt8) (hm : strNum bs = none)
    (hreg : ¬ sign_only_or_empty_string_as_zero (.int it) (.s bs)) :
    insertStr false it bs = .rejected ∧ ∃ x, insertStr true it bs = .stored x true := by
  have h := (string_malformed_reported it bs hm hreg).2
  simp [insertStr, policy, h]

def txt (s : String) : List UInt8 := s.toUTF8.toList

/-- `''`, `'-'`: read as 0, InRange, no error — stored by a strict `INSERT` without any report -/
theorem finding_sign_only_or_empty_string_as_zero :
    (sign_only_or_empty_string_as_zero (.int .i32) (.s []) ∧
      convert (.int .i32) (.s []) = ⟨.int 0, .inRange, .none⟩ ∧
      acceptableConvertS (.int .i32) (.s []) (convert (.int .i32) (.s [])) = some false) ∧
    (sign_only_or_empty_string_as_zero (.int .i32) (.s [45]) ∧
      insertStr false .i32 [45] = .stored (.int 0) false ∧
      acceptableStrOutcome false .i32 [45] (insertStr false .i32 [45]) = false) := by decide

/-- BIGINT ← '9223372036854775808': strict `INSERT` stores -9223372036854775808 without error or warning;
BIGINT UNSIGNED ← '+9007199254740993' stores 9007199254740992. -/
theorem finding_string_via_float64 :
    (string_via_float64 .i64 [57, 50, 50, 51, 51, 55, 50, 48, 51, 54, 56, 53, 52, 55, 55, 53, 56, 48, 56] ∧
      insertStr false .i64 [57, 50, 50, 51, 51, 55, 50, 48, 51, 54, 56, 53, 52, 55, 55, 53, 56, 48, 56]
        = .stored (.int (-9223372036854775808)) false ∧
      acceptableStrOutcome false .i64 [57, 50, 50, 51, 51, 55, 50, 48, 51, 54, 56, 53, 52, 55, 55, 53, 56, 48, 56]
        (.stored (.int (-9223372036854775808)) false) = false) ∧
    (string_via_float64 .u64 [43, 57, 48, 48, 55, 49, 57, 57, 50, 53, 52, 55, 52, 48, 57, 57, 51] ∧
      insertStr false .u64 [43, 57, 48, 48, 55, 49, 57, 57, 50, 53, 52, 55, 52, 48, 57, 57, 51]
        = .stored (.int 9007199254740992) false ∧
      acceptableStrOutcome false .u64 [43, 57, 48, 48, 55, 49, 57, 57, 50, 53, 52, 55, 52, 48, 57, 57, 51]
        (.stored (.int 9007199254740992) false) = false) := by decide

/-- TINYINT ← '300abc' under `INSERT IGNORE`: 44 (= int8(300)) is stored instead of 127 -/
theorem finding_truncated_string_skips_range_check :
    truncated_string_skips_range_check .i8 [51, 48, 48, 97, 98, 99] ∧
      insertStr true .i8 [51, 48, 48, 97, 98, 99] = .stored (.int 44) true ∧
      acceptableStrOutcome true .i8 [51, 48, 48, 97, 98, 99] (.stored (.int 44) true) = false ∧
      insertStr false .i8 [51, 48, 48, 97, 98, 99] = .rejected := by decide

example : strNum [32, 45, 52, 50, 32] = some (-42) ∧ inI64 (-42) ∧ ¬ unsigned_underflow_wraps (.int .i16) (.s [32, 45, 52, 50, 32]) ∧
    insertStr false .i16 [32, 45, 52, 50, 32] = .stored (.int (-42)) false ∧
    strNum [49, 50, 97] = none ∧ ¬ sign_only_or_empty_string_as_zero (.int .i16) (.s [49, 50, 97]) ∧
    insertStr true .i16 [49, 50, 97] = .stored (.int 12) true := by decide

/-! ### binary strings (`[]byte`) written into integer / BIT columns -/

theorem binLimit_le (it : ITy) : binLimit it ≤ maxU64 ∧ it.hi ≤ binLimit it := by
  cases it <;> simp [binLimit, maxU64, maxI64, ITy.hi, ITy.unsigned, ITy.bits]

/-- a refusal (fatal error) is what the Spec demands of a value that is not storable -/
theorem refused_acceptable (t : Ty) (x : Int × Nat) (v : Stored) (f : Flag)
    (hs : t.storable (target t x) = false) : Acceptable t x ⟨v, f, .fatal⟩ :=
  ⟨fun h _ => (by rw [hs] at h; cases h), fun h _ => (by rw [hs] at h; cases h),
   fun _ => ⟨by simp [conversionOk], Or.inl rfl⟩⟩

theorem int_not_storable (it : ITy) (n : Int) (h : n > it.hi) :
    Ty.storable (.int it) (target (.int it) (n, 0)) = false := by
  obtain ⟨htg, hst, _⟩ := int_spec_unfold it n 0
  rw [htg, rha_scale_zero] at *
  cases hs : Ty.storable (.int it) n
  · rfl
  · have := hst.1 hs; omega

theorem bit_not_storable (n : Nat) (c : Int) (h : c > 2 ^ n - 1) :
    Ty.storable (.bit n) (target (.bit n) (c, 0)) = false := by
  have htg : target (.bit n) (c, 0) = c := by simp [target, Ty.scale, target_int, rha_scale_zero]
  have : Ty.storable (.bit n) c = false := by
    cases hs : Ty.storable (.bit n) c
    · rfl
    · simp only [Ty.storable, Ty.lo, Ty.hi, Bool.and_eq_true] at hs
      have := of_decide_eq_true hs.2; omega
  rw [htg]; exact this

theorem binU_wf (bs : List UInt8) (h : (beVal bs : Int) ≤ maxU64) : (Val.u (beVal bs)).WF := by
  simp only [Val.WF, inU64]; omega

/-- **C27 for binary strings, `Convert` level — full strength, no region.** For all ten integer types
and BIT(n), and EVERY binary string: a non-empty binary string is stored as the big-endian integer it
denotes, exactly, `InRange`, without error, when that integer is a value of the type; otherwise it is
reported (flag ≠ InRange or an error) and what comes back is the nearest value or nothing. In
particular an 8-byte string with the top bit set is never handed back as a negative number. The empty
string is reported by the integer types. -/
theorem binary_exact_or_reported (t : Ty) (ht : t.WF) (bs : List UInt8) :
    acceptableConvertB t bs (convertB t bs) ≠ some false := by
  cases t with
  | int it =>
    simp only [acceptableConvertB, convertB]
    by_cases he : bs = []
    · rw [if_pos he, binary_refused it bs (Or.inl he)]; simp [conversionOk]
    · rw [if_neg he]
      by_cases hr : (beVal bs : Int) ≤ binLimit it
      · rw [binary_as_integer it bs he hr]
        have hwf := binU_wf bs (by have := (binLimit_le it).1; omega)
        have := int_acceptable it (.u (beVal bs)) hwf (beVal bs) 0 rfl
          (by simp [unsigned_underflow_wraps, Val.negative])
        simp only [convert] at this
        rw [acceptNum_of _ _ _ (by simp) this]; simp
      · rw [binary_refused it bs (Or.inr (by omega))]
        rw [acceptNum_of _ _ _ (by simp)
          (refused_acceptable _ _ _ _ (int_not_storable it _ (by have := (binLimit_le it).2; omega)))]
        simp
  | bit n =>
    simp only [acceptableConvertB, convertB]
    by_cases hl : bs.length ≤ 8
    · rw [if_neg (by omega), bit_binary_as_integer n bs hl]
      have := bit_acceptable n ht (.u (beVal bs)) (binU_wf bs (beVal_le8 bs hl)) (beVal bs) 0 rfl
        (by simp only [bit_negative_reinterpreted, numOf]; omega)
      simp only [convert] at this
      rw [acceptNum_of _ _ _ (by simp) this]; simp
    · by_cases hf : (beVal bs : Int) ≤ 2 ^ n - 1
      · rw [if_pos ⟨by omega, hf⟩]; simp
      · rw [if_neg (fun h => hf h.2)]
        have : convertBit n (.s bs) = ⟨.null, .overflow, .fatal⟩ := by
          simp only [convertBit]; rw [if_pos (by omega)]
        rw [this, acceptNum_of _ _ _ (by simp) (refused_acceptable _ _ _ _ (bit_not_storable n _ (by omega)))]
        simp
  | dec p s c => simp [acceptableConvertB]
  | year => simp [acceptableConvertB]

/-- what `Convert` returns for a binary string without a fatal error is a fixed point of `Convert` -/
theorem binary_idem (t : Ty) (ht : t.WF) (bs : List UInt8)
    (hne : (convertB t bs).err ≠ .fatal) (hv : (convertB t bs).val ≠ .null) :
    convert t (inject t (convertB t bs).val) = ⟨(convertB t bs).val, .inRange, .none⟩ := by
  cases t with
  | int it =>
    simp only [convertB] at hne hv ⊢
    by_cases h : bs = [] ∨ (beVal bs : Int) > binLimit it
    · rw [binary_refused it bs h] at hne; exact absurd rfl hne
    · have he : bs ≠ [] := fun e => h (Or.inl e)
      have hr : (beVal bs : Int) ≤ binLimit it := by omega
      rw [binary_as_integer it bs he hr] at hne hv ⊢
      exact convert_idem_partial (.int it) trivial (.u (beVal bs))
        (binU_wf bs (by have := (binLimit_le it).1; omega))
        (by simp [unsigned_underflow_wraps, Val.negative]) hne hv
  | bit n =>
    exact convert_idem_partial (.bit n) ht (.s bs) trivial (by simp [unsigned_underflow_wraps]) hne hv
  | dec p s c => simp [convertB] at hne
  | year => simp [convertB] at hne

theorem policy_eq_insert_u (ignore : Bool) (it : ITy) (n : Int) :
    policy ignore (convertInt it (.u n)) =
      (if ignore then insertIgnore (.int it) (.u n) else insertStrict (.int it) (.u n)) := by
  have hnn : (convertInt it (.u n)).val ≠ .null := by
    by_cases h1 : it = .i64
    · subst h1; simp [convertInt]
    · by_cases h2 : it = .u64
      · subst h2; simp [convertInt]
      · rw [convertInt_narrow it ⟨h1, h2⟩ _ (by simp)]
        simp only
        split
        · simp
        · split
          · simp
          · split <;> simp
  cases ignore <;> cases hc : conversionOk (convertInt it (.u n)) <;>
    simp [policy, insertStrict, insertIgnore, convert, hc, hnn]

/-- the insert-level Spec of a numeric value, in terms of the number it denotes -/
theorem acceptableOutcome_num (ignore : Bool) (t : Ty) (hty : t ≠ .year) (v : Val) (x : Int × Nat)
    (hx : numOf v = some x) (o : Outcome) :
    acceptableOutcome ignore t v o = some (acceptNumOutcome ignore t x o) := by
  have hy : ¬ (t = .year ∧ 1 ≤ target t x ∧ target t x ≤ 99) := fun h => hty h.1
  have hnn := numOf_ne_null hx
  cases v with
  | null => exact absurd rfl hnn
  | s bs => simp [numOf] at hx
  | i a =>
    simp only [acceptableOutcome, hx, acceptNumOutcome]; rw [if_neg hy]
    cases o <;> simp only <;> split <;> rfl
  | u a =>
    simp only [acceptableOutcome, hx, acceptNumOutcome]; rw [if_neg hy]
    cases o <;> simp only <;> split <;> rfl
  | d a b =>
    simp only [acceptableOutcome, hx, acceptNumOutcome]; rw [if_neg hy]
    cases o <;> simp only <;> split <;> rfl

/-- **C27 for binary strings, insert level.** `INSERT` / `INSERT IGNORE` of EVERY binary string into a
column of any of the ten integer types or BIT(n) leaves behind what the Spec demands: the integer the
bytes denote, exactly, or — strict mode — nothing (the row is rejected), or — IGNORE — the nearest
value with a warning; outside `binary_out_of_range_stored_as_zero` (integer columns, IGNORE only) and
`ignore_stores_zero_not_nearest` (BIT beyond the width, IGNORE only). Strict mode: unguarded. -/
theorem binary_insert_acceptable_partial (ignore : Bool) (t : Ty) (ht : t.WF) (bs : List UInt8)
    (hreg : ignore = true → ¬ binary_out_of_range_stored_as_zero t bs)
    (hz : ignore = true → ∀ n, t = .bit n → ¬ ignore_stores_zero_not_nearest t (.s bs)) :
    acceptableBinOutcome ignore t bs (insertBin ignore t bs) ≠ some false := by
  cases t with
  | int it =>
    simp only [acceptableBinOutcome, insertBin]
    by_cases he : bs = []
    · rw [if_pos he, binary_refused it bs (Or.inl he)]
      cases ignore <;> simp [policy, conversionOk]
    · rw [if_neg he]
      by_cases hr : (beVal bs : Int) ≤ binLimit it
      · have hwf := binU_wf bs (by have := (binLimit_le it).1; omega)
        have hcr : ¬ ConvRegion (.int it) (.u (beVal bs)) := by
          rintro (h | h | h)
          · simp [unsigned_underflow_wraps, Val.negative] at h
          · simp [bit_negative_reinterpreted] at h
          · simp [year_decimal_beyond_int64_becomes_zero] at h
        have hz' : ignore = true → ¬ ignore_stores_zero_not_nearest (.int it) (.u (beVal bs)) := by
          intro _ ⟨hf, _, _⟩
          have he' : (convert (.int it) (.u (beVal bs))).err = .none := by
            simp only [convert]
            by_cases h2 : it = .u64
            · subst h2; rfl
            · have hr' : (beVal bs : Int) ≤ maxI64 := by simpa [binLimit, h2] using hr
              have e3 : convertToInt64 (.u (beVal bs)) = ⟨beVal bs, .inRange, .none⟩ := by
                simp only [convertToInt64]; rw [if_neg (by omega)]
              by_cases h1 : it = .i64
              · subst h1; rw [convertInt_i64 _ (by simp), e3]
              · rw [convertInt_narrow it ⟨h1, h2⟩ _ (by simp), e3]
                simp only
                by_cases a : (beVal bs : Int) > it.hi
                · simp [a]
                · by_cases b : (beVal bs : Int) < it.lo <;> simp [a, b]
          rw [he'] at hf; cases hf
        have key := insert_acceptable_partial ignore (.int it) trivial (.u (beVal bs)) hwf hcr hz'
        rw [binary_as_integer it bs he hr, policy_eq_insert_u]
        rw [acceptableOutcome_num ignore (.int it) (by simp) (.u (beVal bs)) (beVal bs, 0) rfl] at key
        exact key
      · have hgt : (beVal bs : Int) > binLimit it := by omega
        rw [binary_refused it bs (Or.inr hgt)]
        cases ignore with
        | true => exact absurd ⟨he, hgt⟩ (hreg rfl)
        | false =>
          have := int_not_storable it (beVal bs) (by have := (binLimit_le it).2; omega)
          simp [policy, conversionOk, acceptNumOutcome, this]
  | bit n =>
    simp only [acceptableBinOutcome, insertBin]
    by_cases hl : bs.length ≤ 8
    · rw [if_neg (by omega)]
      have hc : convert (.bit n) (.s bs) = convert (.bit n) (.u (beVal bs)) := by
        simp only [convert]; exact bit_binary_as_integer n bs hl
      have hwf := binU_wf bs (beVal_le8 bs hl)
      have hcr : ¬ ConvRegion (.bit n) (.u (beVal bs)) := by
        rintro (h | h | h)
        · simp [unsigned_underflow_wraps] at h
        · simp only [bit_negative_reinterpreted, numOf] at h; omega
        · simp [year_decimal_beyond_int64_becomes_zero] at h
      have hz' : ignore = true → ¬ ignore_stores_zero_not_nearest (.bit n) (.u (beVal bs)) := by
        intro hi ⟨hf, _, _⟩
        exact hz hi n rfl ⟨by rw [hc]; exact hf, by simp, by simp⟩
      have key := insert_acceptable_partial ignore (.bit n) ht (.u (beVal bs)) hwf hcr hz'
      rw [acceptableOutcome_num ignore (.bit n) (by simp) (.u (beVal bs)) (beVal bs, 0) rfl] at key
      have hio : (if ignore = true then insertIgnore (.bit n) (.s bs) else insertStrict (.bit n) (.s bs)) =
          (if ignore = true then insertIgnore (.bit n) (.u (beVal bs)) else insertStrict (.bit n) (.u (beVal bs))) := by
        simp [insertIgnore, insertStrict, hc]
      rw [hio]; exact key
    · by_cases hf : (beVal bs : Int) ≤ 2 ^ n - 1
      · rw [if_pos ⟨by omega, hf⟩]; simp
      · rw [if_neg (fun h => hf h.2)]
        have hcv : convert (.bit n) (.s bs) = ⟨.null, .overflow, .fatal⟩ := by
          simp only [convert, convertBit]; rw [if_pos (by omega)]
        cases ignore with
        | true => exact absurd ⟨by rw [hcv], by simp, by simp⟩ (hz rfl n rfl)
        | false =>
          have := bit_not_storable n (beVal bs) (by omega)
          simp [insertStrict, hcv, conversionOk, acceptNumOutcome, this]
  | dec p s c => simp [acceptableBinOutcome]
  | year => simp [acceptableBinOutcome]

/-- **never silently a different value (strict mode), binary strings — unguarded**: whatever a strict
`INSERT` of a binary string stores in an integer column is the big-endian integer of its bytes. -/
theorem binary_strict_never_silently_different (it : ITy) (bs : List UInt8) (x : Stored) (w : Bool)
    (h : insertBin false (.int it) bs = .stored x w) :
    bs ≠ [] ∧ storedCoeff (.int it) x = some (beVal bs : Int) ∧
      Ty.storable (.int it) (beVal bs : Int) = true := by
  have key := binary_insert_acceptable_partial false (.int it) trivial bs (by simp) (by simp)
  rw [h] at key
  simp only [acceptableBinOutcome] at key
  by_cases he : bs = []
  · rw [if_pos he] at key; simp at key
  · rw [if_neg he] at key
    refine ⟨he, ?_⟩
    have htg : target (.int it) ((beVal bs : Int), 0) = (beVal bs : Int) := by
      rw [(int_spec_unfold it _ 0).1, rha_scale_zero]
    simp only [acceptNumOutcome, htg] at key
    cases hs : Ty.storable (.int it) (beVal bs : Int)
    · simp [hs] at key
    · simp [hs] at key; exact ⟨key, rfl⟩

/-- TINYINT UNSIGNED ← X'FFFFFFFFFFFFFFFF' under `INSERT IGNORE`: 0 is stored (with a warning) instead
of the nearest value 255; a strict `INSERT` rejects the row, as it must. -/
theorem finding_binary_out_of_range_stored_as_zero :
    binary_out_of_range_stored_as_zero (.int .u8) [255, 255, 255, 255, 255, 255, 255, 255] ∧
      insertBin true (.int .u8) [255, 255, 255, 255, 255, 255, 255, 255] = .stored (.int 0) true ∧
      nearest (.int .u8) (target (.int .u8) (18446744073709551615, 0)) = 255 ∧
      acceptableBinOutcome true (.int .u8) [255, 255, 255, 255, 255, 255, 255, 255]
        (insertBin true (.int .u8) [255, 255, 255, 255, 255, 255, 255, 255]) = some false ∧
      insertBin false (.int .u8) [255, 255, 255, 255, 255, 255, 255, 255] = .rejected ∧
      insertBin false (.int .i64) [255, 255, 255, 255, 255, 255, 255, 255] = .rejected := by decide

example : convertB (.int .i16) [1, 255] = ⟨.int 511, .inRange, .none⟩ ∧          -- X'01FF' = 511
    convertB (.int .i16) [128, 0] = ⟨.int 32767, .overflow, .none⟩ ∧             -- X'8000' = 32768: clamped, reported
    convertB (.int .i64) [127, 255, 255, 255, 255, 255, 255, 255] = ⟨.int 9223372036854775807, .inRange, .none⟩ ∧
    convertB (.int .i64) [128, 0, 0, 0, 0, 0, 0, 0] = ⟨.int 0, .inRange, .fatal⟩ ∧   -- 2^63: refused
    convertB (.int .u64) [255, 255, 255, 255, 255, 255, 255, 255] = ⟨.int 18446744073709551615, .inRange, .none⟩ ∧
    convertB (.int .i8) [0, 0, 0, 0, 0, 0, 0, 0, 0, 7] = ⟨.int 7, .inRange, .none⟩ ∧   -- leading zero bytes are harmless
    convertB (.bit 8) [1, 0] = ⟨.null, .overflow, .fatal⟩ ∧
    insertBin false (.int .i16) [1, 255] = .stored (.int 511) false ∧
    insertBin true (.int .i16) [128, 0] = .stored (.int 32767) true ∧
    acceptableBinOutcome true (.int .i16) [128, 0] (insertBin true (.int .i16) [128, 0]) = some true ∧
    ¬ binary_out_of_range_stored_as_zero (.int .i16) [128, 0] := by decide

end Gms.C27
