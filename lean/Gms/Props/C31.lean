/-
C31 — Date and time values parse, format and compute consistently.

Model: `Gms/Model/Cal.lean` (integer calendar; Impl models of dateparse.ParseDateWithFormat,
formatDate, TimeDelta.apply, DateDiff/TimestampDiff; Specs). Helper lemmas: `Gms/Lemmas/Cal*.lean`.
The property theorems are below, in `namespace Gms.C31`; they are quantified over all instants
(`Int` nanoseconds), all civil fields, all item lists / byte strings.

Findings on the unchanged tree (each with a witness theorem and a guarded `…_partial` theorem):
  * str_to_date_invalid_shifted     STR_TO_DATE lets time.Date carry impossible fields (Feb 30 ↦ Mar 2 …)
  * str_to_date_ampm_ignored        %p / %r are parsed and then dropped: not the inverse of DATE_FORMAT
  * datediff_saturates              DATEDIFF goes through time.Duration: saturates beyond 106752 days
  * monthsdiff_minutes_ignored      sql.SecondsPerMinute = int64(time.Second/time.Minute) = 0
  * timedelta_year_month_intermediate_feb29   API level only (no SQL unit has years and months)
  * datetime_text_year_below_1000   the SQL text of a DATE/DATETIME value of year 1..999 has an unpadded year:
                                    it is not the `%Y-%m-%d …` text and does not read back (same root defect as
                                    C28 `date_year_below_1000`; here: format ↔ parse consistency of a computed value)
  * dateadd_result_before_year_zero DATE_ADD/DATE_SUB check the result against ZeroTime (= −0001-11-30 in Go): results
                                    in the 32 days before the year 0 are returned (`-1-12-29 …`) instead of NULL
-/
import Gms.Lemmas.CalDelta2
import Gms.Lemmas.CalSqlText
import Gms.Lemmas.CalDiff
import Gms.Lemmas.CalParse
import Gms.Generated.C31

namespace Gms.C31
open Gms.Cal

/-! ## 0. Regenerated facts -/

/-- expected content of `function.dateFormatSpecifierToFunc` (what `Cal.formatSpec` transliterates) -/
def formatTable : List (Nat × String) :=
  [(97, "nil"), (98, "nil"), (99, "monthNum"), (68, "dayWithSuffix"), (100, "nil"), (101, "dayOfMonth"),
   (102, "microsecondsStr"), (72, "nil"), (104, "twelveHourPadded"), (73, "twelveHourPadded"),
   (105, "minutesStr"), (106, "nil"), (107, "twentyFourHourNoPadding"), (108, "twelveHourNoPadding"),
   (77, "fullMonthName"), (109, "nil"), (112, "nil"), (114, "ampmClockStr"), (83, "nil"), (115, "secondsStr"),
   (84, "nil"), (85, "weekMode0"), (117, "weekMode1"), (86, "weekMode2"), (118, "weekMode3"), (87, "dayName"),
   (119, "nil"), (88, "yearMode0"), (120, "yearMode1"), (89, "nil"), (121, "yearTwoDigit")]

/-- expected `switch unit` of `TimestampDiff.Eval` (what `Cal.tsDiffImpl` transliterates) -/
def unitTable : List (String × String) :=
  [("microsecond", "microsecondsDiff(time1, time2)"),
   ("second", "microsecondsDiff(time1, time2) / sql.MicrosecondsPerSecond"),
   ("minute", "microsecondsDiff(time1, time2) / sql.MicrosecondsPerMinute"),
   ("hour", "microsecondsDiff(time1, time2) / sql.MicrosecondsPerHour"),
   ("day", "microsecondsDiff(time1, time2) / sql.MicrosecondsPerDay"),
   ("week", "microsecondsDiff(time1, time2) / sql.MicrosecondsPerWeek"),
   ("month", "monthsDiff(time1, time2)"),
   ("quarter", "monthsDiff(time1, time2) / sql.MonthsPerQuarter"),
   ("year", "monthsDiff(time1, time2) / sql.MonthsPerYear")]

/-- The tables and constants of the source are the ones the model transliterates: the parser map
(`specName` is a lookup in `parseSpecTable`, so equality of the tables fixes the dispatch for every
byte), the specifier lists, the AM/PM guard, DATE_FORMAT's map, TIMESTAMPDIFF's switch, the
`sql.*Per*` constants as compiled (SecondsPerMinute = 0 included). -/
theorem facts_match :
    Generated.C31.parseSpecifiers = parseSpecTable ∧
    Generated.C31.timeSpecifiers = timeSpecifiers.map (·.toNat) ∧
    Generated.C31.dateSpecifiers = dateSpecifiers.map (·.toNat) ∧
    Generated.C31.ampmGuard = "(s == 'H' || s == 'k' || s == 'T') && hasAmPm" ∧
    Generated.C31.parseUsesAmPm = false ∧
    Generated.C31.formatSpecifiers = formatTable ∧
    Generated.C31.timestampDiffUnits = unitTable ∧
    Generated.C31.secondsPerMinute = secondsPerMinuteImpl ∧
    Generated.C31.secondsPerHour = 3600 ∧
    Generated.C31.microsecondsPerSecond = 1000000 ∧
    Generated.C31.microsecondsPerMinute = 60000000 ∧
    Generated.C31.microsecondsPerHour = 3600000000 ∧
    Generated.C31.microsecondsPerDay = 86400000000 ∧
    Generated.C31.microsecondsPerWeek = 604800000000 ∧
    Generated.C31.monthsPerQuarter = 3 ∧
    Generated.C31.monthsPerYear = 12 := by
  decide

/-- one row of the dumped table: the Impl model of `datetimeType.SQL` writes the text the compiled code wrote -/
def sampleMatches (e : String × List Int × String) : Bool :=
  match SqlKind.ofName? e.1, e.2.1 with
  | some k, [y, mo, d, h, mi, s, ns] => sqlTextImpl k (goDate ⟨y, mo, d, h, mi, s, ns⟩) == ofString e.2.2
  | _, _ => false

/-- The text `types.Date / Datetime / Datetime3 / DatetimeMaxPrecision .SQL` writes (freshly compiled code,
11 sample values covering the year classes 0, 1..999, 1000..9999 × 4 types) is the text of the Impl model
`sqlTextImpl` — unpadded years included. -/
theorem facts_match_sqltext :
    Generated.C31.sqlTextSamples.all sampleMatches = true ∧ Generated.C31.sqlTextSamples.length = 44 := by
  decide

def probeMatches (e : List Int × Bool) : Bool :=
  match e.1 with
  | [y, mo, d, h, mi, s, ns] => (validateTime (goDate ⟨y, mo, d, h, mi, s, ns⟩)).isSome == e.2
  | _ => false

/-- `types.ZeroTime` is the instant the model calls `zeroTime` (−0001-11-30 00:00:00), and the compiled
`types.ValidateTime` accepts exactly what the Impl model `validateTime` accepts on 13 probes around both ends
of the range (the last instant before ZeroTime, ZeroTime, the year −1, the year 0, 9999-12-31 23:59:59.999999,
the nanoseconds after it, the year 10000). -/
theorem facts_match_range :
    Generated.C31.zeroTimeFields = [-1, 11, 30, 0, 0, 0, 0] ∧
    fieldsOf zeroTime = ⟨-1, 11, 30, 0, 0, 0, 0⟩ ∧
    Generated.C31.validateTimeProbes.all probeMatches = true ∧ Generated.C31.validateTimeProbes.length = 13 := by
  decide

/-! ## 1. The calendar -/

/-- every valid civil date is recovered from its day number -/
theorem civil_roundtrip (y m d : Int) (h : 1 ≤ m ∧ m ≤ 12 ∧ 1 ≤ d ∧ d ≤ dim y m) :
    cfd (dfc y m d) = (y, m, d) := Cal.civil_roundtrip y m d h

/-- every day number is the day number of its civil date, and that civil date is valid -/
theorem days_roundtrip (z : Int) :
    dfc (cfd z).1 (cfd z).2.1 (cfd z).2.2 = z ∧
    1 ≤ (cfd z).2.1 ∧ (cfd z).2.1 ≤ 12 ∧ 1 ≤ (cfd z).2.2 ∧ (cfd z).2.2 ≤ dim (cfd z).1 (cfd z).2.1 :=
  ⟨Cal.days_roundtrip z, Cal.cfd_valid z⟩

example : cfd (dfc 2024 2 29) = (2024, 2, 29) := by decide
example : dfc 1970 1 1 = 0 ∧ dfc 2000 3 1 = 11017 := by decide

/-- `time.Date` is the identity on valid fields and every instant has valid fields -/
theorem goDate_fieldsOf_inverse :
    (∀ f, validFields f → fieldsOf (goDate f) = f) ∧ (∀ t, goDate (fieldsOf t) = t ∧ validFields (fieldsOf t)) :=
  ⟨fieldsOf_goDate, fun t => ⟨goDate_fieldsOf t, fieldsOf_valid t⟩⟩

/-- Impl model and Spec of STR_TO_DATE give the same outcome on this input -/
def agrees (date fmt : Str) : Bool :=
  match parseImpl date fmt, parseSpec date fmt with
  | .ok r, .ok (some r') => r == r'
  | .error e, .error e' => e == e'
  | _, _ => false

def implIs (date fmt : Str) (t : Int) : Bool :=
  match parseImpl date fmt with
  | .ok (some t') => t' == t
  | _ => false

/-! ## 2. DATE_FORMAT / STR_TO_DATE are mutual inverses on complete formats -/

/-- For every complete format of the item grammar (`%Y %m %d` all present, optionally `%H %i %s %f`,
harmless literals, no two numeric fields run together) and every instant of year 0..9999:
parsing the formatted text with the same format gives back the instant (restricted to the fields the
format carries: `maskFields`). -/
theorem format_parse_inverse (items : List Item) (f : Fields) (hc : completeItems items = true)
    (hv : validFields f) (hy : 0 ≤ f.y ∧ f.y ≤ 9999) :
    ∃ s, formatImpl (goDate f) (renderItems items) = .ok s ∧
         parseImpl s (renderItems items) = .ok (some (goDate (maskFields items f))) :=
  ⟨_, roundtrip_items items f hc hv hy⟩

/-- with all of `%H %i %s %f` present the instant itself comes back (microsecond precision) -/
theorem format_parse_inverse_full (items : List Item) (f : Fields) (hc : completeItems items = true)
    (hfull : items.contains .H ∧ items.contains .i ∧ items.contains .s ∧ items.contains .f)
    (hv : validFields f) (hy : 0 ≤ f.y ∧ f.y ≤ 9999) (hus : f.ns % 1000 = 0) :
    ∃ s, formatImpl (goDate f) (renderItems items) = .ok s ∧
         parseImpl s (renderItems items) = .ok (some (goDate f)) := by
  obtain ⟨s, h1, h2⟩ := format_parse_inverse items f hc hv hy
  refine ⟨s, h1, ?_⟩
  have : maskFields items f = f := by
    obtain ⟨a, b, c, d⟩ := hfull
    have e : f.ns / 1000 * 1000 = f.ns := by omega
    cases f; simp_all [maskFields]
  rw [h2, this]

/-- the converse direction on well-formed text: formatting what was parsed reproduces the text
(stated on the text the formatter produces — the well-formed strings of the grammar) -/
theorem parse_format_inverse (items : List Item) (f : Fields) (hc : completeItems items = true)
    (hv : validFields f) (hy : 0 ≤ f.y ∧ f.y ≤ 9999) (s : Str)
    (hs : formatImpl (goDate f) (renderItems items) = .ok s) :
    ∃ t, parseImpl s (renderItems items) = .ok (some t) ∧
      (items.contains .H ∧ items.contains .i ∧ items.contains .s ∧ items.contains .f → f.ns % 1000 = 0 →
        formatImpl t (renderItems items) = .ok s) := by
  obtain ⟨h1, h2⟩ := roundtrip_items items f hc hv hy
  rw [h1] at hs
  have hs' : s = items.flatMap (itemText f) := by injection hs with h; exact h.symm
  subst hs'
  refine ⟨_, h2, fun hfull hus => ?_⟩
  have : maskFields items f = f := by
    obtain ⟨a, b, c, d⟩ := hfull
    have e : f.ns / 1000 * 1000 = f.ns := by omega
    cases f; simp_all [maskFields]
  rw [this]; exact h1

-- non-vacuity: `%Y-%m-%d %H:%i:%s.%f` is a complete format
example : completeItems [.Y, .lit 45, .m, .lit 45, .d, .lit 84, .H, .lit 58, .i, .lit 58, .s, .lit 46, .f] = true := by
  decide
example : itemsOf? [37, 89, 45, 37, 109, 45, 37, 100] = some [.Y, .lit 45, .m, .lit 45, .d] := by decide

/-- FULL STATEMENT (false on the unchanged tree): the 12-hour formats `%h:%i:%s %p` / `%r` are
complete as well, but `ParseDateWithFormat` never looks at the AM/PM it parsed.
    ∀ dt, ¬ invalid → parseImpl = parseSpec -/
theorem finding_str_to_date_ampm_ignored : ∃ date fmt, agrees date fmt = false ∧ implIs date fmt (goDate ⟨0, 0, 0, 3, 0, 0, 0⟩) = true :=
  -- STR_TO_DATE('03 PM', '%h %p') = 03:00 instead of 15:00
  ⟨[48, 51, 32, 80, 77], [37, 104, 32, 37, 112], by decide, by decide⟩

/-! ## 3. Invalid dates are rejected rather than silently shifted -/

/-- The Spec never shifts: when it yields an instant for a text with a date part, the instant's
calendar fields are exactly the numbers that were read. -/
theorem spec_never_shifts (date fmt : Str) (dt : PDT) (t : Int)
    (hp : parseFields date fmt = .ok dt) (hs : parseSpec date fmt = .ok (some (some t)))
    (hd : hasDatePart dt = true) : fieldsOf t = specFields dt := by
  unfold parseSpec at hs
  rw [hp] at hs
  simp only at hs
  split at hs
  · simp at hs
  · split at hs
    · rename_i hv
      injection hs with hs; injection hs with hs; injection hs with hs
      subst hs
      apply fieldsOf_goDate
      simp only [specValid, hd, if_true, Bool.and_eq_true, decide_eq_true_eq] at hv
      obtain ⟨⟨⟨a, b, c, d⟩, e⟩, _⟩ := hv
      have hh : 0 ≤ (specFields dt).h ∧ (specFields dt).h ≤ 23 := by
        simp only [specFields]
        cases dt.am with
        | none => exact ⟨e.1, e.2.1⟩
        | some v => cases v <;> (simp only; split <;> omega)
      exact ⟨a, b, c, d, hh.1, hh.2, e.2.2⟩
    · simp at hs

/-- FULL STATEMENT (false on the unchanged tree): `∀ date fmt, parseImpl date fmt` agrees with
`parseSpec`. Guarded version: outside the two regions (and without `%j`) the implementation returns
exactly what the Spec demands — in particular a text that parses to a valid date is not changed. -/
theorem invalid_rejected_partial (date fmt : Str) (dt : PDT) (hp : parseFields date fmt = .ok dt)
    (hj : dt.dayOfYear = none)
    (h1 : str_to_date_invalid_shifted dt = false) (h2 : str_to_date_ampm_ignored dt = false) :
    ∃ r, parseImpl date fmt = .ok r ∧ parseSpec date fmt = .ok (some r) := by
  unfold parseImpl parseSpec
  rw [hp]
  simp only
  by_cases he : dt.isEmpty = true
  · exact ⟨none, by simp [he], by simp [he]⟩
  · have hv : specValid dt = true := by
      simp only [str_to_date_invalid_shifted, Bool.and_eq_false_iff, Bool.not_eq_eq_eq_not] at h1
      rcases h1 with h | h
      · exact absurd h he
      · simpa using h
    refine ⟨some (assemble dt), by simp [he], ?_⟩
    simp only [he, Bool.false_eq_true, if_false, hv, if_true]
    have : assemble dt = goDate (specFields dt) := by
      simp only [str_to_date_ampm_ignored, he, hv, Bool.not_false, Bool.true_and] at h2
      simp only [assemble, hj, specFields]
      cases ham : dt.am with
      | none => rfl
      | some v =>
        rw [ham] at h2
        cases v
        · simp only [decide_eq_false_iff_not] at h2
          simp only [if_neg h2]
        · simp only [decide_eq_false_iff_not] at h2
          simp only [if_neg h2]
    rw [this]

/-- witness: `STR_TO_DATE('2023-02-29', '%Y-%m-%d')` is 2023-03-01 in the Impl model; the Spec rejects -/
theorem finding_str_to_date_invalid_shifted :
    ∃ date fmt, agrees date fmt = false ∧ implIs date fmt (goDate ⟨2023, 3, 1, 0, 0, 0, 0⟩) = true :=
  ⟨[50, 48, 50, 51, 45, 48, 50, 45, 50, 57], [37, 89, 45, 37, 109, 45, 37, 100], by decide, by decide⟩

/-! ## 4. Adding then subtracting an interval -/

/-- `TimeDelta.apply` is the MySQL interval arithmetic (one month count, one clamp) outside the
API-only region. -/
theorem timedelta_eq_spec_partial (td : Delta) (sign t : Int) (hs : sign = 1 ∨ sign = -1)
    (hr : intermediateFeb29 td sign t = false) : applyDelta td sign t = specDelta td sign t :=
  applyDelta_eq_spec td sign t hs hr

/-- FULL STATEMENT (false): `∀ td sign t, applyDelta td sign t = specDelta td sign t`. -/
theorem finding_timedelta_year_month_intermediate_feb29 :
    ∃ td sign t, applyDelta td sign t ≠ specDelta td sign t :=
  ⟨⟨1, 1, 0, 0, 0, 0, 0⟩, -1, goDate ⟨2024, 2, 29, 0, 0, 0, 0⟩, by decide⟩

/-- Spec: adding then subtracting the same interval restores the instant when no end-of-month
clamp occurs. -/
theorem add_sub_interval_spec (td : Delta) (t : Int) (hc : clamps td 1 t = false) (hm : mixedDelta td = false) :
    specDelta td (-1) (specDelta td 1 t) = t := spec_add_sub td t hc hm

/-- Impl model: every interval one SQL unit can denote (years or months but not both, or an exact
day…microsecond amount) is undone by subtracting it, when no end-of-month clamp occurs. -/
theorem add_sub_interval (td : Delta) (t : Int) (hsql : td.years = 0 ∨ td.months = 0)
    (hm : mixedDelta td = false) (hc : clamps td 1 t = false) :
    applyDelta td (-1) (applyDelta td 1 t) = t := by
  rw [applyDelta_eq_spec td 1 t (Or.inl rfl) (intermediateFeb29_single td 1 t hsql),
    applyDelta_eq_spec td (-1) _ (Or.inr rfl) (intermediateFeb29_single td (-1) _ hsql)]
  exact spec_add_sub td t hc hm

-- non-vacuity: one month from 2024-03-30 does not clamp; from 2024-01-31 it does
example : clamps ⟨0, 1, 0, 0, 0, 0, 0⟩ 1 (goDate ⟨2024, 3, 30, 12, 0, 0, 0⟩) = false := by decide
example : clamps ⟨0, 1, 0, 0, 0, 0, 0⟩ 1 (goDate ⟨2024, 1, 31, 0, 0, 0, 0⟩) = true ∧
    applyDelta ⟨0, 1, 0, 0, 0, 0, 0⟩ (-1) (applyDelta ⟨0, 1, 0, 0, 0, 0, 0⟩ 1 (goDate ⟨2024, 1, 31, 0, 0, 0, 0⟩))
      = goDate ⟨2024, 1, 29, 0, 0, 0, 0⟩ := by decide

/-- days are exact: `AddDate(0, 0, n)` moves by `n · 24h` -/
theorem add_days_exact (t n : Int) : addDays t n = t + n * nsDay := addDays_eq t n

/-! ## 5. DATEDIFF and TIMESTAMPDIFF -/

/-- Spec of DATEDIFF in civil terms: difference of the day numbers of the two civil dates -/
theorem datediff_spec_civil (f1 f2 : Fields) (h1 : validFields f1) (h2 : validFields f2) :
    dateDiffSpec (goDate f1) (goDate f2) = dfc f1.y f1.mo f1.d - dfc f2.y f2.mo f2.d := by
  unfold dateDiffSpec
  rw [goDate_of_valid f1 h1, goDate_of_valid f2 h2]
  obtain ⟨_, _, _, _, a1, a2, a3, a4, a5, a6, a7, a8⟩ := h1
  obtain ⟨_, _, _, _, b1, b2, b3, b4, b5, b6, b7, b8⟩ := h2
  simp only [nsDay, nsHour, nsMin, nsSec]
  omega

/-- FULL STATEMENT (false): `∀ t1 t2, dateDiffImpl t1 t2 = dateDiffSpec t1 t2`. -/
theorem datediff_eq_days_partial (t1 t2 : Int) (h : datediff_saturates t1 t2 = false) :
    dateDiffImpl t1 t2 = dateDiffSpec t1 t2 := dateDiff_partial t1 t2 h

theorem finding_datediff_saturates : ∃ t1 t2, dateDiffImpl t1 t2 ≠ dateDiffSpec t1 t2 :=
  -- DATEDIFF('2400-01-01', '2000-01-01') = 106752 instead of 146097
  ⟨goDate ⟨2400, 1, 1, 0, 0, 0, 0⟩, goDate ⟨2000, 1, 1, 0, 0, 0, 0⟩, by decide⟩

example : datediff_saturates (goDate ⟨2024, 3, 1, 1, 0, 0, 0⟩) (goDate ⟨2024, 2, 28, 23, 0, 0, 0⟩) = false ∧
    dateDiffImpl (goDate ⟨2024, 3, 1, 1, 0, 0, 0⟩) (goDate ⟨2024, 2, 28, 23, 0, 0, 0⟩) = 2 := by decide

/-- TIMESTAMPDIFF(SECOND) of instants on whole seconds is the difference of their second counts -/
theorem timestampdiff_seconds (t1 t2 : Int) (h1 : t1 % nsSec = 0) (h2 : t2 % nsSec = 0) :
    tsDiffImpl .second t1 t2 = t2 / nsSec - t1 / nsSec := by
  simp only [tsDiffImpl, microsDiff, unixMicro]
  have e : t2 / 1000 - t1 / 1000 = (t2 / nsSec - t1 / nsSec) * 1000000 := by
    simp only [nsSec] at *; omega
  rw [e, Int.mul_tdiv_cancel _ (by decide)]

/-- TIMESTAMPDIFF(DAY) of two midnights is DATEDIFF's Spec with the arguments swapped -/
theorem timestampdiff_days (t1 t2 : Int) (h1 : t1 % nsDay = 0) (h2 : t2 % nsDay = 0) :
    tsDiffImpl .day t1 t2 = dateDiffSpec t2 t1 := by
  simp only [tsDiffImpl, microsDiff, unixMicro, dateDiffSpec]
  have e : t2 / 1000 - t1 / 1000 = (t2 / nsDay - t1 / nsDay) * 86400000000 := by
    simp only [nsDay] at *; omega
  rw [e, Int.mul_tdiv_cancel _ (by decide)]

/-- in general the sub-day units truncate the exact microsecond difference toward zero -/
theorem timestampdiff_truncates (t1 t2 : Int) (h : 0 ≤ microsDiff t1 t2) :
    tsDiffImpl .second t1 t2 * 1000000 ≤ microsDiff t1 t2 ∧
    microsDiff t1 t2 < (tsDiffImpl .second t1 t2 + 1) * 1000000 := by
  simp only [tsDiffImpl]
  rw [Int.tdiv_eq_ediv_of_nonneg h]
  omega

example : (goDate ⟨2024, 1, 1, 0, 0, 1, 0⟩) % nsSec = 0 ∧
    tsDiffImpl .second (goDate ⟨2024, 1, 1, 0, 0, 1, 0⟩) (goDate ⟨2024, 1, 2, 0, 0, 0, 0⟩) = 86399 := by decide

/-- with a correct seconds-per-minute constant `monthsDiff` is the number of complete months -/
theorem monthsDiff_correct_constant (t1 t2 : Int) : monthsDiffWith 60 t1 t2 = monthsDiffSpec t1 t2 := by
  unfold monthsDiffWith monthsDiffSpec
  simp only
  have h := monthsDiffWith_core 60 (if t1 > t2 then t2 else t1) (if t1 > t2 then t1 else t2) (Or.inl rfl)
  simp only at h
  rw [h]
  split <;> split <;> omega

/-- FULL STATEMENT (false): `∀ t1 t2, monthsDiff t1 t2 = monthsDiffSpec t1 t2`. -/
theorem monthsdiff_partial (t1 t2 : Int) (hr : monthsdiff_minutes_ignored t1 t2 = false) :
    monthsDiff t1 t2 = monthsDiffSpec t1 t2 := by
  have hr' : (fieldsOf t1).d = (fieldsOf t2).d → (fieldsOf t1).mi = (fieldsOf t2).mi := by
    simp only [monthsdiff_minutes_ignored, decide_eq_false_iff_not, not_and, Decidable.not_not] at hr
    exact hr
  by_cases hsw : t1 > t2
  · have h := monthsDiffWith_core secondsPerMinuteImpl t2 t1 (Or.inr (fun e => (hr' e.symm).symm))
    simp only [monthsDiff, monthsDiffWith, monthsDiffSpec, hsw, if_true] at h ⊢
    rw [h]; split <;> omega
  · have h := monthsDiffWith_core secondsPerMinuteImpl t1 t2 (Or.inr hr')
    simp only [monthsDiff, monthsDiffWith, monthsDiffSpec, hsw, if_false] at h ⊢
    rw [h]; split <;> omega

theorem finding_monthsdiff_minutes_ignored : ∃ t1 t2, monthsDiff t1 t2 ≠ monthsDiffSpec t1 t2 :=
  -- TIMESTAMPDIFF(MONTH, '2024-01-15 10:30:00', '2024-02-15 10:00:00') = 1 instead of 0
  ⟨goDate ⟨2024, 1, 15, 10, 30, 0, 0⟩, goDate ⟨2024, 2, 15, 10, 0, 0, 0⟩, by decide⟩

/-- TIMESTAMPDIFF on the calendar units = Spec outside the region; on the other units always -/
theorem timestampdiff_partial (u : TsUnit) (t1 t2 : Int) (hr : monthsdiff_minutes_ignored t1 t2 = false) :
    tsDiffImpl u t1 t2 = tsDiffSpec u t1 t2 := by
  cases u <;> simp only [tsDiffImpl, tsDiffSpec, monthsdiff_partial t1 t2 hr]

/-- month counting inverts month addition: `n ≥ 0` whole months after `t` (no clamp) are counted as `n` -/
example : monthsDiffSpec (goDate ⟨2024, 1, 15, 8, 0, 0, 0⟩)
    (specDelta ⟨0, 13, 0, 0, 0, 0, 0⟩ 1 (goDate ⟨2024, 1, 15, 8, 0, 0, 0⟩)) = 13 := by decide

/-! ## 6. The SQL text of a DATE / DATETIME value (what a client is sent for a temporal result)

Spec: the text is the canonical `%Y-%m-%d[ %H:%i:%s[.%f]]` rendering — the one DATE_FORMAT produces
(`sqltext_spec_is_date_format`) and STR_TO_DATE reads back to the same value (`sqltext_spec_reads_back`).
Impl model: `appendDateFormat` / `appendDatetimeFormat` / `appendTimeFormat` / `appendMicroseconds`. -/

def dateItems : List Item := [.Y, .lit 45, .m, .lit 45, .d]
def clockItems : List Item := [.H, .lit 58, .i, .lit 58, .s]
def clock6Items : List Item := [.H, .lit 58, .i, .lit 58, .s, .lit 46, .f]

example : renderItems dateItems = ofString "%Y-%m-%d" ∧ renderItems clock6Items = ofString "%H:%i:%s.%f" := by decide

/-- the Spec text is DATE_FORMAT's: date part `%Y-%m-%d`, clock part `%H:%i:%s` resp. `%H:%i:%s.%f`
(the `formatDate` model is tied to the code for years 0..9999) -/
theorem sqltext_spec_is_date_format (t : Int) :
    formatImpl t (renderItems dateItems) = .ok (sqlDateSpec t) ∧
    formatImpl t (renderItems clockItems) = .ok (sqlTimeSpecF (fieldsOf t) 0) ∧
    formatImpl t (renderItems clock6Items) = .ok (sqlTimeSpecF (fieldsOf t) 6) := by
  have hv := fieldsOf_valid t
  obtain ⟨_, _, _, _, _, _, _, _, _, _, h7, h8⟩ := hv
  refine ⟨?_, ?_, ?_⟩
  · rw [format_items t dateItems (by decide)]
    simp [dateItems, itemText, sqlDateSpec, sqlDateSpecF]
  · rw [format_items t clockItems (by decide)]
    simp [clockItems, itemText, sqlTimeSpecF]
  · rw [format_items t clock6Items (by decide)]
    have : ((fieldsOf t).ns / 1000).toNat < 10 ^ 6 := by omega
    simp [clock6Items, itemText, sqlTimeSpecF, padShow_lt 6 _ this]

/-- … and it reads back: STR_TO_DATE of the Spec text of a date, with the same format, is that date -/
theorem sqltext_spec_reads_back (f : Fields) (hv : validFields f) (hy : 0 ≤ f.y ∧ f.y ≤ 9999) :
    parseImpl (sqlDateSpecF f) (renderItems dateItems) = .ok (some (goDate { f with h := 0, mi := 0, s := 0, ns := 0 })) := by
  have h := (roundtrip_items dateItems f (by decide) hv hy).2
  have e : dateItems.flatMap (itemText f) = sqlDateSpecF f := by
    simp [dateItems, itemText, sqlDateSpecF]
  rw [e] at h
  rw [h]
  rfl

theorem zeroTime_year : (fieldsOf zeroTime).y = -1 := by decide

/-- FULL STATEMENT (false on the unchanged tree): `∀ k t, year 0..9999 → sqlTextImpl k t = sqlTextSpec k t`.
Guarded: outside the year class 1..999 the text sent for a DATE / DATETIME(p ≤ 6) value is the Spec text. -/
theorem sqltext_eq_spec_partial (k : SqlKind) (t : Int) (hk : ∀ p, k = .datetime p → p ≤ 6)
    (hy : 0 ≤ (fieldsOf t).y ∧ (fieldsOf t).y ≤ 9999) (hr : datetime_text_year_below_1000 t = false) :
    sqlTextImpl k t = sqlTextSpec k t := by
  have hz : t ≠ zeroTime := by
    intro h; rw [h, zeroTime_year] at hy; omega
  have hr' : ¬ (1 ≤ (fieldsOf t).y ∧ (fieldsOf t).y ≤ 999) := by
    simpa [datetime_text_year_below_1000] using hr
  have hd := sqlDate_eq_spec (fieldsOf t) (fieldsOf_valid t) hy hr'
  cases k with
  | date => simp only [sqlTextImpl, sqlTextSpec, sqlDateImpl, sqlDateSpec, hz, if_false, hd]
  | datetime p =>
    simp only [sqlTextImpl, sqlTextSpec, sqlDatetimeImpl, sqlDatetimeSpec, hz, if_false, hd,
      sqlTime_eq_spec (fieldsOf t) p (fieldsOf_valid t) (hk p rfl)]

/-- the region is exact: for every value of year 1..999 the text differs from the Spec text -/
theorem sqltext_ne_spec_in_region (k : SqlKind) (t : Int) (hk : ∀ p, k = .datetime p → p ≤ 6)
    (hr : datetime_text_year_below_1000 t = true) : sqlTextImpl k t ≠ sqlTextSpec k t := by
  have hr' : 1 ≤ (fieldsOf t).y ∧ (fieldsOf t).y ≤ 999 := by
    simpa [datetime_text_year_below_1000] using hr
  have hz : t ≠ zeroTime := by
    intro h; rw [h, zeroTime_year] at hr'; omega
  cases k with
  | date =>
    simp only [sqlTextImpl, sqlTextSpec, sqlDateImpl, sqlDateSpec, hz, if_false]
    have := sqlDate_ne_spec (fieldsOf t) (fieldsOf_valid t) hr' [] [] rfl
    simpa using this
  | datetime p =>
    simp only [sqlTextImpl, sqlTextSpec, sqlDatetimeImpl, sqlDatetimeSpec, hz, if_false, List.append_assoc]
    apply sqlDate_ne_spec (fieldsOf t) (fieldsOf_valid t) hr'
    rw [sqlTime_eq_spec (fieldsOf t) p (fieldsOf_valid t) (hk p rfl)]

/-- witness: `DATE_SUB('1000-05-07 11:28:39', INTERVAL 41 YEAR)` of type DATETIME(6) is sent as
`959-05-07 11:28:39.000000`; the Spec text is `0959-05-07 11:28:39.000000` -/
theorem finding_datetime_text_year_below_1000 :
    ∃ k t, sqlTextImpl k t ≠ sqlTextSpec k t ∧
      sqlTextImpl k t = ofString "959-05-07 11:28:39.000000" ∧ sqlTextSpec k t = ofString "0959-05-07 11:28:39.000000" :=
  ⟨.datetime 6, applyDelta ⟨41, 0, 0, 0, 0, 0, 0⟩ (-1) (goDate ⟨1000, 5, 7, 11, 28, 39, 0⟩), by decide, by decide, by decide⟩

-- non-vacuity of the guard: years 0, 1000 and 9999 are outside the region and written alike
example : datetime_text_year_below_1000 (goDate ⟨1000, 1, 1, 0, 0, 0, 0⟩) = false ∧
    datetime_text_year_below_1000 (goDate ⟨0, 5, 7, 0, 0, 0, 0⟩) = false ∧
    sqlTextImpl (.datetime 0) (goDate ⟨0, 5, 7, 11, 28, 39, 0⟩) = ofString "0000-05-07 11:28:39" ∧
    sqlTextImpl (.datetime 3) (goDate ⟨9999, 12, 31, 23, 59, 59, 7000000⟩) = ofString "9999-12-31 23:59:59.007" ∧
    sqlTextImpl .date (goDate ⟨999, 12, 31, 0, 0, 0, 0⟩) = ofString "999-12-31" := by decide

/-! ## 7. The result range of DATE_ADD / DATE_SUB -/

/-- FULL STATEMENT (false on the unchanged tree): `∀ t, validateTime t = validateTimeSpec t` — a result
outside the years 0..9999 is NULL. Guarded: true outside the 32-day window before the year 0. -/
theorem dateadd_range_partial (t : Int) (hr : dateadd_result_before_year_zero t = false) :
    validateTime t = validateTimeSpec t := by
  have hz : zeroTime < yearZeroStart := by decide
  simp only [dateadd_result_before_year_zero, Bool.and_eq_false_iff, decide_eq_false_iff_not] at hr
  unfold validateTime validateTimeSpec
  by_cases h1 : t < zeroTime
  · have : t < yearZeroStart := by omega
    simp [h1, this]
  · have h2 : ¬ t < yearZeroStart := by omega
    simp [h1, h2]

/-- the Impl range is never narrower than the Spec range: what the Spec accepts is returned unchanged -/
theorem dateadd_range_complete (t v : Int) (h : validateTimeSpec t = some v) : validateTime t = some v := by
  have hz : zeroTime < yearZeroStart := by decide
  unfold validateTimeSpec at h
  unfold validateTime
  split at h
  · simp at h
  · rename_i hn
    have : ¬ (t < zeroTime ∨ t > maxTime) := by omega
    simp only [this, if_false]; exact h

/-- in the region a date of the year −1 (or the zero date) is returned where the Spec demands NULL -/
theorem dateadd_range_in_region (t : Int) (hr : dateadd_result_before_year_zero t = true) :
    validateTime t = some t ∧ validateTimeSpec t = none := by
  have hm : yearZeroStart < maxTime := by decide
  simp only [dateadd_result_before_year_zero, Bool.and_eq_true, decide_eq_true_eq] at hr
  unfold validateTime validateTimeSpec
  have h1 : ¬ (t < zeroTime ∨ t > maxTime) := by omega
  simp [h1, hr.2]

/-- witness: `DATE_ADD('0009-12-29 17:55:07', INTERVAL -10 YEAR)` is returned as `-1-12-29 17:55:07.000000`
(NULL expected, as for `INTERVAL -11 YEAR`); `DATE_SUB('0000-01-01', INTERVAL 32 DAY)` is the zero date -/
theorem finding_dateadd_result_before_year_zero :
    ∃ t, validateTime t ≠ validateTimeSpec t ∧ sqlTextImpl (.datetime 6) t = ofString "-1-12-29 17:55:07.000000" :=
  ⟨applyDelta ⟨-10, 0, 0, 0, 0, 0, 0⟩ 1 (goDate ⟨9, 12, 29, 17, 55, 7, 0⟩), by decide, by decide⟩

example : validateTime (applyDelta ⟨-11, 0, 0, 0, 0, 0, 0⟩ 1 (goDate ⟨9, 12, 29, 17, 55, 7, 0⟩)) = none := by decide
example : applyDelta ⟨0, 0, 32, 0, 0, 0, 0⟩ (-1) yearZeroStart = zeroTime ∧
    sqlTextImpl (.datetime 6) zeroTime = ofString "0000-00-00 00:00:00.000000" ∧
    dateadd_result_before_year_zero zeroTime = true := by decide
example : dateadd_result_before_year_zero (goDate ⟨1000, 1, 1, 0, 0, 0, 0⟩) = false ∧
    validateTime (goDate ⟨1000, 1, 1, 0, 0, 0, 0⟩) = some (goDate ⟨1000, 1, 1, 0, 0, 0, 0⟩) := by decide

end Gms.C31
