/-
C06 — Equivalent SQL formulations return equal results.

Each theorem is one of the equivalences the property names, proved for the SQL definition
(`Gms.Rel`), for all databases, environments and rows:

* `in_list_eq_or`, `notin_list_eq_and` — `x IN (a, b, …)` and its disjunction of equalities (all
  three truth values, NULLs included);
* `between_eq_and` — BETWEEN and its pair of comparisons;
* `in_subq_eq_exists`, `filter_in_subq_eq_exists` — `WHERE x IN (SELECT e FROM S)` and its
  semi-join formulation `WHERE EXISTS (SELECT * FROM S WHERE e = x)`;
* `on_eq_where_inner` — inner-join condition in ON or in WHERE;
* `derived_inline` — a derived table / CTE `SELECT c0, …, c(n-1) FROM (Q) AS s` is its body `Q`
  (in the term language a FROM-subquery *is* its body: the printer's fused, nested and CTE
  spellings are one term, so this is the only law the inlining needs);
* `const_fold` — an expression over literal constants and the same expression over columns
  holding those values;
* `hashIn_eq_listIn` — the Impl model of `HashInTuple` (hash set of keys + NULL flag) computes the
  list IN, under `KeyEq` (equal keys ⇔ `=`); `facts_match` ties the model to the decision sequence
  of the Go code.
-/
import Gms.Lemmas.Rel
import Gms.Model.HashIn
import Gms.Generated.C06

namespace Gms.HashIn
open Gms.Sql Gms.Rel

/-! ## Lemmas -/

theorem cmpTri_eq_ne (a b : Value) : cmpTri .ne a b = Tri.not (cmpTri .eq a b) := by
  simp only [cmpTri]
  cases a.cmp? b with
  | none => rfl
  | some o => cases o <;> rfl

theorem evalE_orChain (db : Db) (env : Env) (e : Expr) (es : List Expr) (h : es ≠ []) :
    evalE db env (orChain e es) = (inTri (evalE db env e) (evalEs db env es)).toValue := by
  induction es with
  | nil => exact absurd rfl h
  | cons a as ih =>
    cases as with
    | nil =>
      simp only [orChain, evalE, evalEs, inTri]
      cases cmpTri .eq (evalE db env e) (evalE db env a) <;> rfl
    | cons b bs =>
      have ih' := ih (by simp)
      simp only [orChain, evalE, evalEs, inTri] at ih' ⊢
      rw [ih', truth_toValue, truth_toValue]

theorem evalE_andChain (db : Db) (env : Env) (e : Expr) (es : List Expr) (h : es ≠ []) :
    evalE db env (andChain e es) = (Tri.not (inTri (evalE db env e) (evalEs db env es))).toValue := by
  induction es with
  | nil => exact absurd rfl h
  | cons a as ih =>
    cases as with
    | nil =>
      simp only [andChain, evalE, evalEs, inTri, cmpTri_eq_ne]
      cases cmpTri .eq (evalE db env e) (evalE db env a) <;> rfl
    | cons b bs =>
      have ih' := ih (by simp)
      simp only [andChain, evalE, evalEs, inTri] at ih' ⊢
      rw [ih', truth_toValue, truth_toValue, cmpTri_eq_ne]
      simp only [Tri.not_or]

theorem lookup_zero (r : Row) (env : Env) (i : Nat) : lookup (r :: env) 0 i = r.getD i .null := by
  simp [lookup]

theorem lookup_succ (r r' : Row) (env : Env) (d i : Nat) :
    lookup (r :: env) (d + 1) i = lookup (r' :: env) (d + 1) i := by
  simp [lookup]

mutual
theorem substRow_ok (db : Db) (env : Env) (r r' : Row) :
    (e : Expr) → noSub e = true → evalE db (r' :: env) (substRow r e) = evalE db (r :: env) e
  | .lit _, _ => rfl
  | .col 0 i, _ => by simp [substRow, evalE, lookup_zero]
  | .col (d + 1) i, _ => by simp only [substRow, evalE]; exact lookup_succ r' r env d i
  | .neg e, h => by simp only [substRow, evalE, substRow_ok db env r r' e h]
  | .arith _ a b, h => by
    simp only [noSub, Bool.and_eq_true] at h
    simp only [substRow, evalE, substRow_ok db env r r' a h.1, substRow_ok db env r r' b h.2]
  | .cmp _ a b, h => by
    simp only [noSub, Bool.and_eq_true] at h
    simp only [substRow, evalE, substRow_ok db env r r' a h.1, substRow_ok db env r r' b h.2]
  | .and a b, h => by
    simp only [noSub, Bool.and_eq_true] at h
    simp only [substRow, evalE, substRow_ok db env r r' a h.1, substRow_ok db env r r' b h.2]
  | .or a b, h => by
    simp only [noSub, Bool.and_eq_true] at h
    simp only [substRow, evalE, substRow_ok db env r r' a h.1, substRow_ok db env r r' b h.2]
  | .xor a b, h => by
    simp only [noSub, Bool.and_eq_true] at h
    simp only [substRow, evalE, substRow_ok db env r r' a h.1, substRow_ok db env r r' b h.2]
  | .not e, h => by simp only [substRow, evalE, substRow_ok db env r r' e h]
  | .isNull e, h => by simp only [substRow, evalE, substRow_ok db env r r' e h]
  | .isTruth _ e, h => by simp only [substRow, evalE, substRow_ok db env r r' e h]
  | .inList e es, h => by
    simp only [noSub, Bool.and_eq_true] at h
    simp only [substRow, evalE, substRow_ok db env r r' e h.1, substRows_ok db env r r' es h.2]
  | .between e lo hi, h => by
    simp only [noSub, Bool.and_eq_true] at h
    simp only [substRow, evalE, substRow_ok db env r r' e h.1.1, substRow_ok db env r r' lo h.1.2,
      substRow_ok db env r r' hi h.2]
  | .ite c a b, h => by
    simp only [noSub, Bool.and_eq_true] at h
    simp only [substRow, evalE, substRow_ok db env r r' c h.1.1, substRow_ok db env r r' a h.1.2,
      substRow_ok db env r r' b h.2]
  | .coalesce a b, h => by
    simp only [noSub, Bool.and_eq_true] at h
    simp only [substRow, evalE, substRow_ok db env r r' a h.1, substRow_ok db env r r' b h.2]
  | .exists _, h => by simp [noSub] at h
  | .inSub _ _, h => by simp [noSub] at h
  | .scalar _, h => by simp [noSub] at h

theorem substRows_ok (db : Db) (env : Env) (r r' : Row) :
    (es : List Expr) → noSub.noSubs es = true →
      evalEs db (r' :: env) (substRow.substRows r es) = evalEs db (r :: env) es
  | [], _ => rfl
  | e :: es, h => by
    simp only [noSub.noSubs, Bool.and_eq_true] at h
    simp only [substRow.substRows, evalEs, substRow_ok db env r r' e h.1, substRows_ok db env r r' es h.2]
end

/-- Non-NULL values always compare. -/
theorem cmpTri_eq_two_valued (a b : Value) (ha : a ≠ .null) (hb : b ≠ .null) :
    cmpTri .eq a b = .t ∨ cmpTri .eq a b = .f := by
  have h : ∃ o, a.cmp? b = some o := by cases a <;> cases b <;> simp_all [Value.cmp?]
  obtain ⟨o, ho⟩ := h
  simp only [cmpTri, ho]
  cases o <;> simp [Tri.ofBool, CmpOp.holds]

/-- Hash keys agree with `=` on the values of one IN evaluation. -/
def KeyEq {κ : Type} (key : Value → Option κ) (vals : List Value) : Prop :=
  (∀ a ∈ vals, a ≠ .null → (key a).isSome) ∧
  (∀ a ∈ vals, ∀ b ∈ vals, ∀ ka kb, key a = some ka → key b = some kb →
      (ka = kb ↔ cmpTri .eq a b = .t))

theorem newInMap_spec {κ : Type} [DecidableEq κ] (key : Value → Option κ) (vs : List Value)
    (hs : ∀ a ∈ vs, a ≠ .null → (key a).isSome) :
    ((newInMap key vs).hasNull = true ↔ Value.null ∈ vs)
    ∧ ∀ k, k ∈ (newInMap key vs).keys ↔ ∃ w ∈ vs, w ≠ .null ∧ key w = some k := by
  induction vs with
  | nil => simp [newInMap]
  | cons v vs ih =>
    have ih' := ih (fun a ha => hs a (List.mem_cons_of_mem _ ha))
    cases v with
    | null =>
      simp only [newInMap, List.mem_cons, true_or, true_and]
      intro k
      rw [ih'.2 k]
      constructor
      · rintro ⟨w, hw, h1, h2⟩; exact ⟨w, Or.inr hw, h1, h2⟩
      · rintro ⟨w, hw | hw, h1, h2⟩
        · exact absurd hw h1
        · exact ⟨w, hw, h1, h2⟩
    | int i =>
      have hk := hs (.int i) (by simp) (by simp)
      obtain ⟨k0, hk0⟩ := Option.isSome_iff_exists.mp hk
      simp only [newInMap, hk0, List.mem_cons]
      refine ⟨by simpa using ih'.1, ?_⟩
      intro k
      rw [ih'.2 k]
      constructor
      · rintro (rfl | ⟨w, hw, h1, h2⟩)
        · exact ⟨.int i, Or.inl rfl, by simp, hk0⟩
        · exact ⟨w, Or.inr hw, h1, h2⟩
      · rintro ⟨w, hw | hw, h1, h2⟩
        · subst hw; rw [hk0] at h2; exact Or.inl (Option.some.inj h2).symm
        · exact Or.inr ⟨w, hw, h1, h2⟩
    | str b =>
      have hk := hs (.str b) (by simp) (by simp)
      obtain ⟨k0, hk0⟩ := Option.isSome_iff_exists.mp hk
      simp only [newInMap, hk0, List.mem_cons]
      refine ⟨by simpa using ih'.1, ?_⟩
      intro k
      rw [ih'.2 k]
      constructor
      · rintro (rfl | ⟨w, hw, h1, h2⟩)
        · exact ⟨.str b, Or.inl rfl, by simp, hk0⟩
        · exact ⟨w, Or.inr hw, h1, h2⟩
      · rintro ⟨w, hw | hw, h1, h2⟩
        · subst hw; rw [hk0] at h2; exact Or.inl (Option.some.inj h2).symm
        · exact Or.inr ⟨w, hw, h1, h2⟩

end Gms.HashIn

/-! ## Property theorems -/
namespace Gms.C06
open Gms.Sql Gms.Rel Gms.HashIn

/-- The decision sequence of `HashInTuple.Eval` and the NULL handling of `newInMap`, re-read
from the source on this run, are the ones the model transliterates. -/
theorem facts_match :
    Gms.Generated.C06.hashInEvalReturns =
      ["nil, err", "nil, nil", "nil, err", "false, nil", "true, nil", "nil, nil", "false, nil"]
    ∧ Gms.Generated.C06.hashInEvalConds =
      ["err != nil", "leftVal == nil", "err != nil", "inRange != sql.InRange", "_, ok := hit.cmp[key]; ok", "hit.hasNull"]
    ∧ Gms.Generated.C06.newInMapNullSkips = 2
    ∧ Gms.Generated.C06.newInMapInRangeGuard = "inRange == sql.InRange" := by
  decide

/-- `x IN (a, b, …)` is the disjunction of the equalities, in all three truth values. -/
theorem in_list_eq_or (db : Db) (env : Env) (e : Expr) (es : List Expr) (h : es ≠ []) :
    evalE db env (.inList e es) = evalE db env (orChain e es) := by
  rw [evalE_orChain db env e es h]; simp [evalE]

/-- `x NOT IN (a, b, …)` is the conjunction of the inequalities. -/
theorem notin_list_eq_and (db : Db) (env : Env) (e : Expr) (es : List Expr) (h : es ≠ []) :
    evalE db env (.not (.inList e es)) = evalE db env (andChain e es) := by
  rw [evalE_andChain db env e es h]; simp [evalE, truth_toValue]

/-- BETWEEN is the pair of comparisons. -/
theorem between_eq_and (db : Db) (env : Env) (e lo hi : Expr) :
    evalE db env (.between e lo hi) = evalE db env (betweenAnd e lo hi) := by
  simp [betweenAnd, evalE, betweenTri, truth_toValue]

theorem exists_truth_iff (db : Db) (env : Env) (q : Query) :
    (evalE db env (.exists q)).truth = .t ↔ ∃ b, b ∈ evalQ db env q := by
  simp only [evalE, truth_toValue]
  cases h : evalQ db env q with
  | nil => simp [Tri.ofBool]
  | cons a l => simp [Tri.ofBool]

/-- `x IN (SELECT e FROM S)` is TRUE exactly when `EXISTS (SELECT * FROM S WHERE x = e)` is. -/
theorem in_subq_eq_exists (db : Db) (env : Env) (r : Row) (i : Nat) (e : Expr) (s : Query) :
    (evalE db (r :: env) (.inSub (.col 0 i) (.project [e] s))).truth = .t ↔
      (evalE db (r :: env) (.exists (.filter (.cmp .eq (.col 1 i) e) s))).truth = .t := by
  rw [exists_truth_iff]
  have hl : (evalE db (r :: env) (.inSub (.col 0 i) (.project [e] s))).truth = .t ↔
      ∃ b ∈ evalQ db (r :: env) s, cmpTri .eq (r.getD i .null) (evalE db (b :: r :: env) e) = .t := by
    simp only [evalE, truth_toValue, inTri_eq_t, firstCol, evalQ, List.mem_map, evalEs, lookup_zero]
    constructor
    · rintro ⟨w, ⟨_, ⟨b, hb, rfl⟩, rfl⟩, hw⟩; exact ⟨b, hb, by simpa using hw⟩
    · rintro ⟨b, hb, hw⟩; exact ⟨_, ⟨_, ⟨b, hb, rfl⟩, rfl⟩, by simpa using hw⟩
  rw [hl]
  simp only [evalQ, List.mem_filter, decide_eq_true_eq, evalE, truth_toValue]
  have h1 : ∀ b : Row, lookup (b :: r :: env) 1 i = r.getD i .null := by intro b; simp [lookup]
  simp only [h1]

/-- … hence the two WHERE clauses keep the same rows of any query. -/
theorem filter_in_subq_eq_exists (db : Db) (env : Env) (i : Nat) (e : Expr) (s base : Query) :
    evalQ db env (.filter (.inSub (.col 0 i) (.project [e] s)) base) =
      evalQ db env (.filter (.exists (.filter (.cmp .eq (.col 1 i) e) s)) base) := by
  simp only [evalQ]
  apply List.filter_congr
  intro r _
  have h := in_subq_eq_exists db env r i e s
  rw [Bool.eq_iff_iff]
  simp only [decide_eq_true_eq]
  exact h

/-- Inner-join condition in ON or in WHERE. -/
theorem on_eq_where_inner (db : Db) (env : Env) (on : Expr) (l r : Query) :
    evalQ db env (.join .inner on l r) = evalQ db env (.filter on (.join .inner (.lit (.int 1)) l r)) := by
  simp only [evalQ, innerJoin]
  have hone : ∀ a b : Row, decide ((evalE db ((a ++ b) :: env) (.lit (.int 1))).truth = .t) = true := by
    intro a b; simp [evalE, Value.truth]
  simp only [hone, List.filter_flatMap, List.filter_map]
  congr 1
  funext a
  have ht : (evalQ db env r).filter (fun _ => true) = evalQ db env r := by simp
  rw [ht]
  rfl

/-- A derived table (or CTE) that selects all columns of its body is its body. -/
theorem derived_inline (db : Db) (env : Env) (q : Query) (n : Nat)
    (hw : ∀ r ∈ evalQ db env q, r.length = n) :
    evalQ db env (.project (idCols n) q) = evalQ db env q := by
  simp only [evalQ]
  have hrow : ∀ r : Row, r.length = n → evalEs db (r :: env) (idCols n) = r := by
    intro r hr
    have gen : ∀ (l : List Nat), evalEs db (r :: env) (l.map (fun i => Expr.col 0 i)) = l.map (fun i => r.getD i .null) := by
      intro l
      induction l with
      | nil => rfl
      | cons a l ih => simp [evalEs, evalE, lookup, ih]
    rw [idCols, gen]
    apply List.ext_getElem
    · simp [hr]
    · intro k h1 h2
      simp at h1
      simp [List.getD_eq_getElem?_getD, List.getElem?_eq_getElem h2]
  calc (evalQ db env q).map (fun r => evalEs db (r :: env) (idCols n))
      = (evalQ db env q).map id := List.map_congr_left (fun r hr => hrow r (hw r hr))
    _ = evalQ db env q := List.map_id _

/-- An expression over the columns of a row and the same expression over the literal values the
row holds (subquery-free expressions; `r'` is whatever row the constant expression is evaluated
on). -/
theorem const_fold (db : Db) (env : Env) (r r' : Row) (e : Expr) (h : noSub e = true) :
    evalE db (r' :: env) (substRow r e) = evalE db (r :: env) e :=
  substRow_ok db env r r' e h

/-- The hashed IN computes the list IN whenever hash keys agree with `=` on the values involved
(true for integers and for strings under one collation; for case-insensitive collations this
hypothesis is C07's finding). -/
theorem hashIn_eq_listIn {κ : Type} [DecidableEq κ] (key : Value → Option κ) (v : Value)
    (vs : List Value) (hne : vs ≠ []) (hk : KeyEq key (v :: vs)) :
    evalHashIn key (newInMap key vs) v = inTri v vs := by
  obtain ⟨hsome, heq⟩ := hk
  have hspec := newInMap_spec key vs (fun a ha => hsome a (List.mem_cons_of_mem _ ha))
  cases hv : v with
  | null =>
    -- NULL IN (non-empty list) is NULL
    simp only [evalHashIn]
    cases hin : inTri .null vs with
    | u => rfl
    | t =>
      obtain ⟨w, _, hw⟩ := (inTri_eq_t _ _).mp hin
      rw [cmpTri_null_left .eq (by decide)] at hw; cases hw
    | f => exact absurd hin (inTri_null_left vs hne)
  | int i =>
    subst hv
    exact hashIn_nonnull key (.int i) vs (by simp) hsome heq hspec
  | str b =>
    subst hv
    exact hashIn_nonnull key (.str b) vs (by simp) hsome heq hspec
where
  hashIn_nonnull {κ : Type} [DecidableEq κ] (key : Value → Option κ) (v : Value) (vs : List Value)
      (hv : v ≠ .null)
      (hsome : ∀ a ∈ v :: vs, a ≠ .null → (key a).isSome)
      (heq : ∀ a ∈ v :: vs, ∀ b ∈ v :: vs, ∀ ka kb, key a = some ka → key b = some kb →
        (ka = kb ↔ cmpTri .eq a b = .t))
      (hspec : ((newInMap key vs).hasNull = true ↔ Value.null ∈ vs)
        ∧ ∀ k, k ∈ (newInMap key vs).keys ↔ ∃ w ∈ vs, w ≠ .null ∧ key w = some k) :
      evalHashIn key (newInMap key vs) v = inTri v vs := by
    obtain ⟨kv, hkv⟩ := Option.isSome_iff_exists.mp (hsome v (by simp) hv)
    have hev : evalHashIn key (newInMap key vs) v =
        if kv ∈ (newInMap key vs).keys then .t else if (newInMap key vs).hasNull then .u else .f := by
      cases v with
      | null => exact absurd rfl hv
      | int i => simp [evalHashIn, hkv]
      | str b => simp [evalHashIn, hkv]
    rw [hev]
    by_cases hmem : kv ∈ (newInMap key vs).keys
    · rw [if_pos hmem]
      obtain ⟨w, hw, hwn, hkw⟩ := (hspec.2 kv).mp hmem
      have : cmpTri .eq v w = .t := (heq v (by simp) w (List.mem_cons_of_mem _ hw) kv kv hkv hkw).mp rfl
      exact ((inTri_eq_t v vs).mpr ⟨w, hw, this⟩).symm
    · rw [if_neg hmem]
      -- no non-NULL element equals v
      have hno : ∀ w ∈ vs, w ≠ .null → cmpTri .eq v w = .f := by
        intro w hw hwn
        obtain ⟨kw, hkw⟩ := Option.isSome_iff_exists.mp (hsome w (List.mem_cons_of_mem _ hw) hwn)
        rcases cmpTri_eq_two_valued v w hv hwn with ht | hf
        · have : kv = kw := (heq v (by simp) w (List.mem_cons_of_mem _ hw) kv kw hkv hkw).mpr ht
          exact absurd ((hspec.2 kv).mpr ⟨w, hw, hwn, this ▸ hkw⟩) hmem
        · exact hf
      by_cases hnull : Value.null ∈ vs
      · have : (newInMap key vs).hasNull = true := hspec.1.mpr hnull
        rw [if_pos this]
        cases hin : inTri v vs with
        | u => rfl
        | f => exact absurd hin (inTri_null_mem v vs hnull)
        | t =>
          obtain ⟨w, hw, hwt⟩ := (inTri_eq_t v vs).mp hin
          by_cases hwn : w = .null
          · subst hwn; rw [cmpTri_null_right .eq (by decide)] at hwt; cases hwt
          · rw [hno w hw hwn] at hwt; cases hwt
      · have : ¬ (newInMap key vs).hasNull = true := fun h => hnull (hspec.1.mp h)
        rw [if_neg this]
        symm
        rw [inTri_eq_f]
        intro w hw
        exact hno w hw (fun h => hnull (h ▸ hw))

/-- `KeyEq` is satisfiable and the theorem has content: integers keyed by themselves. -/
example : evalHashIn (fun v => some v) (newInMap (fun v => some v) [.int 1, .null, .int 3]) (.int 2) = .u
    ∧ inTri (.int 2) [.int 1, .null, .int 3] = .u
    ∧ evalHashIn (fun v => some v) (newInMap (fun v => some v) [.int 1, .null, .int 3]) (.int 3) = .t
    ∧ evalHashIn (fun v => some v) (newInMap (fun v => some v) [.int 1, .int 3]) (.int 2) = .f := by
  decide

/-- Without `KeyEq` the statement fails (Appendix-C mutant "HashInTuple ignores NULL in list" is
the same shape: a key function that drops information): a constant key makes everything IN. -/
example : evalHashIn (fun _ => some 0) (newInMap (fun _ => some 0) [.int 1]) (.int 2) ≠ inTri (.int 2) [.int 1] := by
  decide

example : Rel.eval [⟨1, [[.int 1], [.null], [.int 2]]⟩]
      (.filter (.inList (.col 0 0) [.lit (.int 2), .lit .null]) (.table 0)) = [[.int 2]]
    ∧ evalE [] [[.null]] (.inList (.col 0 0) [.lit (.int 2)]) = .null
    ∧ evalE [] [[.null]] (orChain (.col 0 0) [.lit (.int 2)]) = .null := by decide

end Gms.C06
