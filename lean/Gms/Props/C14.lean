/-
C14 — Primary and unique keys are enforced exactly.

Model: Gms/Model/MemTable.lean (`tableEditor.Insert/Update/Delete`, `pkTableEditAccumulator.Get /
GetByCols`, `checkUniqueConstraints`, `columnsMatch`, `ApplyEdits`) and Gms/Model/MemTableDdl.lean
(schema changes between statements; `indexColsForTableEditor` resolves index columns by name).
Helper lemmas: Gms/Lemmas/MemTable.lean, Gms/Lemmas/MemTableEd.lean, Gms/Lemmas/MemTableDdl.lean,
Gms/Lemmas/MemTableDdlWf.lean. Audited theorems: `namespace Gms.C14`.
-/
import Gms.Model.MemTable
import Gms.Lemmas.MemTable
import Gms.Lemmas.MemTableEd
import Gms.Lemmas.MemTableStmt
import Gms.Model.MemTableDdl
import Gms.Lemmas.MemTableDdl
import Gms.Lemmas.MemTableDdlWf
import Gms.Generated.C14

namespace Gms.MemTable

/-! ## histories of editor calls -/

/-- a call on `tableEditor` -/
inductive EdCall where
  | ins (r : Row)
  | del (r : Row)
  | upd (old new : Row)
  deriving Repr

def EdCall.rows : EdCall → List Row
  | .ins r => [r]
  | .del r => [r]
  | .upd o n => [o, n]

def edCall (sch : Schema) (e : Ed) : EdCall → Except EdErr Ed
  | .ins r => edInsert sch e r
  | .del r => .ok (edDelete sch e r)
  | .upd o n => edUpdate sch e o n

/-- the unique check of this call is exact (complement of the region predicate `inexactNow`). -/
def callExact (sch : Schema) (e : Ed) : EdCall → Bool
  | .ins r => !inexactNow sch e r
  | .del _ => true
  | .upd o n => !inexactNow sch (pkDelete sch e o) n

/-- the calls of one statement, stopping at the first error -/
def runCalls (sch : Schema) : Ed → List EdCall → Except EdErr Ed
  | e, [] => .ok e
  | e, c :: cs =>
    match edCall sch e c with
    | .ok e' => runCalls sch e' cs
    | .error x => .error x

def exactRun (sch : Schema) : Ed → List EdCall → Bool
  | _, [] => true
  | e, c :: cs =>
    callExact sch e c &&
      (match edCall sch e c with
       | .ok e' => exactRun sch e' cs
       | .error _ => true)

/-- Go: `TableEditorIter`: `StatementBegin`, the calls, then `StatementComplete`, or
`DiscardChanges` after the first error. -/
def runStmtCalls (sch : Schema) (t : List Row) (cs : List EdCall) : List Row :=
  match runCalls sch (stmtBegin (mkEd t)) cs with
  | .ok e => (stmtComplete sch e).rows
  | .error _ => (stmtDiscard (stmtBegin (mkEd t))).rows

def runHist (sch : Schema) (t : List Row) (stmts : List (List EdCall)) : List Row :=
  stmts.foldl (runStmtCalls sch) t

/-- the guard of `unique_invariant_partial`, statement by statement: every unique check is exact.
(Before the repair of `pk_print_collision` it also demanded `KeyInjOn` of the rows of every
statement; that now follows from typing: `keyInjOn_typed`.) -/
def HistGuard (sch : Schema) : List Row → List (List EdCall) → Prop
  | _, [] => True
  | t, cs :: rest =>
    exactRun sch (stmtBegin (mkEd t)) cs = true ∧ HistGuard sch (runStmtCalls sch t cs) rest

/-- well-formedness of a history: the key columns of every row handed to the editor hold values of
the declared kinds (`KeyTyped`). -/
def HistTyped (sch : Schema) (stmts : List (List EdCall)) : Prop :=
  ∀ cs ∈ stmts, ∀ c ∈ cs, ∀ r ∈ c.rows, KeyTyped sch r

/-! ## the pre-fix editor `Insert` (only to state the witness `fixed_pk_print_collision`) -/

def pkInsertPreFix (sch : Schema) (e : Ed) (row : Row) : Ed :=
  { e with adds := alSet e.adds (getRowKeyPreFix sch.pk row) row }

def pkGetPreFix (sch : Schema) (e : Ed) (row : Row) : Option (Row × Bool) :=
  let k := getRowKeyPreFix sch.pk row
  match alGet e.adds k with
  | some r => some (r, true)
  | none =>
    match alGet e.dels k with
    | some r => some (r, false)
    | none =>
      match e.rows.find? (fun pr => columnsMatch sch.pk [] pr row) with
      | some r => some (r, true)
      | none => none

/-- `tableEditor.Insert` on a keyed table as it was before the `fix:` commit (`edInsert` with the
pre-fix `getRowKey`; ghost flag omitted). -/
def edInsertPreFix (sch : Schema) (e : Ed) (row : Row) : Except EdErr Ed :=
  match pkGetPreFix sch e row with
  | some (r, true) => .error (.pk r false)
  | _ =>
    match checkUnique sch e row sch.uniques with
    | some ex => .error (.uk ex false)
    | none => .ok (pkInsertPreFix sch e row)

/-- state invariant: distinct key values, and no two rows agree on a unique index (NULLs never agree). -/
def UniqInv (sch : Schema) (t : List Row) : Prop := NoDupPk sch.pk t ∧ ListOK sch t

theorem runCalls_inv (sch : Schema) (hk : sch.keyless = false) (hci : NoCi sch) (S : List Row)
    (hinj : KeyInjOn sch.pk S) (cs : List EdCall) (hS : ∀ c ∈ cs, ∀ r ∈ c.rows, r ∈ S) (e : Ed)
    (inv : EdInv sch S e) (hex : exactRun sch e cs = true) (e' : Ed) (h : runCalls sch e cs = .ok e') :
    EdInv sch S e' := by
  induction cs generalizing e with
  | nil => simp only [runCalls] at h; injection h with h; subst h; exact inv
  | cons c cs ih =>
    simp only [runCalls] at h
    simp only [exactRun, Bool.and_eq_true] at hex
    have hcS := hS c (by simp)
    have hcs : ∀ c ∈ cs, ∀ r ∈ c.rows, r ∈ S := fun c hc => hS c (by simp [hc])
    cases hc : edCall sch e c with
    | error x => rw [hc] at h; cases h
    | ok e1 =>
      rw [hc] at h hex
      have inv1 : EdInv sch S e1 := by
        cases c with
        | ins r =>
          simp only [edCall] at hc
          have hx : inexactNow sch e r = false := by simpa [callExact] using hex.1
          exact (edInsert_ok sch hk hci S hinj e inv r (hcS r (by simp [EdCall.rows])) hx e1 hc).1
        | del r =>
          simp only [edCall, edDelete, accDelete, hk, Bool.false_eq_true, if_false] at hc
          injection hc with hc; subst hc
          exact edInv_delete sch hci S hinj e inv r (hcS r (by simp [EdCall.rows]))
        | upd o n =>
          simp only [edCall] at hc
          have hx : inexactNow sch (pkDelete sch e o) n = false := by simpa [callExact] using hex.1
          exact (edUpdate_ok sch hk hci S hinj e inv o n (hcS o (by simp [EdCall.rows]))
            (hcS n (by simp [EdCall.rows])) hx e1 hc).1
      exact ih hcs e1 inv1 hex.2 h

theorem edInv_begin (sch : Schema) (S : List Row) (t : List Row) (h : UniqInv sch t) :
    EdInv sch S (stmtBegin (mkEd t)) := by
  refine ⟨⟨by simp [stmtBegin, mkEd], by simp [stmtBegin, mkEd], by simp [stmtBegin, mkEd]⟩, h.1, ?_⟩
  have : pkApply sch (stmtBegin (mkEd t)) = sortRows sch t := rfl
  rw [this]
  exact listOK_sub sch t _ h.2 (fun r hr => (mem_sortRows sch t r).mp hr)

theorem runStmtCalls_inv (sch : Schema) (hk : sch.keyless = false) (hci : NoCi sch) (t : List Row)
    (h : UniqInv sch t) (cs : List EdCall) (hinj : KeyInjOn sch.pk (cs.flatMap EdCall.rows))
    (hex : exactRun sch (stmtBegin (mkEd t)) cs = true) : UniqInv sch (runStmtCalls sch t cs) := by
  unfold runStmtCalls
  cases hr : runCalls sch (stmtBegin (mkEd t)) cs with
  | error x => exact h
  | ok e =>
    have inv := runCalls_inv sch hk hci _ hinj cs
      (fun c hc r hr => List.mem_flatMap.mpr ⟨c, hc, hr⟩) _ (edInv_begin sch _ t h) hex e hr
    have : (stmtComplete sch e).rows = pkApply sch e := by
      simp [stmtComplete, applyEdits, hk]
    simp only
    rw [this]
    exact ⟨noDupPk_pkApply sch hci e inv.nd, inv.ok⟩

/-! ## bridge to the executable Spec predicate `specNoDup` -/

theorem specConflict_false (sch : Schema) (hk : sch.keyless = false) (hci : NoCi sch) (hnp : NoPrefix sch) (L : List Row)
    (hok : ListOK sch L) (r1 r2 : Row) (h1 : r1 ∈ L) (h2 : r2 ∈ L)
    (hne : proj sch.pk r1 ≠ proj sch.pk r2) : specConflict sch r1 r2 = false := by
  rw [Bool.eq_false_iff]
  intro hc
  simp only [specConflict, Schema.keys, hk, Bool.false_eq_true, if_false, List.any_append, List.any_cons,
    List.any_nil, Bool.or_false, Bool.or_eq_true] at hc
  rcases hc with hc | hc
  · obtain ⟨m, _⟩ := specKeyEq_imp sch hci sch.pk [] (by simp) r1 r2 hc
    exact hne ((columnsMatch_nil_iff sch.pk r1 r2).mp m)
  · obtain ⟨u, hu, hm⟩ := List.any_eq_true.mp hc
    obtain ⟨m, n⟩ := specKeyEq_imp sch hci u.1 u.2 (hnp u hu) r1 r2 hm
    have := hok r1 h1 r2 h2 hne u hu n
    rw [m] at this; cases this

theorem uniqInv_specNoDup (sch : Schema) (hk : sch.keyless = false) (hci : NoCi sch) (hnp : NoPrefix sch) (t : List Row)
    (h : UniqInv sch t) : specNoDup sch t = true := by
  obtain ⟨hnd, hok⟩ := h
  induction t with
  | nil => rfl
  | cons r rs ih =>
    have hnd' : NoDupPk sch.pk rs := by
      unfold NoDupPk at hnd ⊢; simp only [List.map_cons, List.nodup_cons] at hnd; exact hnd.2
    have hnot : proj sch.pk r ∉ rs.map (proj sch.pk) := by
      unfold NoDupPk at hnd; simp only [List.map_cons, List.nodup_cons] at hnd; exact hnd.1
    simp only [specNoDup, Bool.and_eq_true, Bool.not_eq_true']
    refine ⟨?_, ih hnd' (listOK_sub sch _ _ hok (fun x hx => List.mem_cons_of_mem _ hx))⟩
    rw [List.any_eq_false]
    intro x hx
    have hne : proj sch.pk r ≠ proj sch.pk x := fun e => hnot (by rw [e]; exact List.mem_map_of_mem hx)
    have := specConflict_false sch hk hci hnp (r :: rs) hok r x (by simp) (List.mem_cons_of_mem _ hx) hne
    simp [this]

/-! ## histories that interleave statements with schema changes -/

theorem proj_remap {sch sch' : Schema} {f : Nat → Nat} {g : Row → Row} {K : Nat → Prop} {R : Row → Prop}
    (m : Remap sch sch' f g K R) (r : Row) (h : R r) : proj sch'.pk (g r) = proj sch.pk r := by
  rw [m.pk]
  simp only [proj, List.map_map]
  apply List.map_congr_left
  intro c hc
  exact m.val r h c (m.kpk c hc)

/-- the state invariant is carried through a re-numbering of the key ordinals. -/
theorem uniqInv_remap {sch sch' : Schema} {f : Nat → Nat} {g : Row → Row} {K : Nat → Prop} {R : Row → Prop}
    (m : Remap sch sch' f g K R) (t : List Row) (ht : ∀ r ∈ t, R r) (h : UniqInv sch t) :
    UniqInv sch' (t.map g) := by
  obtain ⟨hnd, hok⟩ := h
  constructor
  · unfold NoDupPk at hnd ⊢
    have : (t.map g).map (proj sch'.pk) = t.map (proj sch.pk) := by
      rw [List.map_map]
      apply List.map_congr_left
      intro r hr
      exact proj_remap m r (ht r hr)
    rw [this]; exact hnd
  · intro r1' h1 r2' h2 hne u' hu' hnull
    obtain ⟨r1, hr1, rfl⟩ := List.mem_map.mp h1
    obtain ⟨r2, hr2, rfl⟩ := List.mem_map.mp h2
    rw [m.uq] at hu'
    obtain ⟨u, hu, rfl⟩ := List.mem_map.mp hu'
    rw [proj_remap m r1 (ht r1 hr1), proj_remap m r2 (ht r2 hr2)] at hne
    rw [hasNull_remap m u.1 (m.kuq u hu) r2 (ht r2 hr2)] at hnull
    rw [columnsMatch_remap m u.1 u.2 (m.kuq u hu) r1 r2 (ht r1 hr1) (ht r2 hr2)]
    exact hok r1 hr1 r2 hr2 hne u hu hnull

/-- one item of a mixed history: the editor calls of a DML statement, or a schema change. -/
inductive HItem where
  | dml (cs : List EdCall)
  | ddl (d : Ddl)

/-- a mixed history on the named table definition: every statement runs in an editor created from
the definition as it is then (`NSchema.resolve` = `indexColsForTableEditor`). -/
def runMixed : NSchema → List Row → List HItem → NSchema × List Row
  | ns, t, [] => (ns, t)
  | ns, t, .dml cs :: rest => runMixed ns (runStmtCalls ns.resolve t cs) rest
  | ns, t, .ddl d :: rest => runMixed (ddlSchema ns d) (t.map (ddlRow d)) rest

/-- guards along a mixed history: for a statement those of `unique_invariant_partial` (keyed table,
no case-insensitive column, typed rows, exact unique lookups); for a schema change: applicable, and
the stored rows have the table's width. -/
def MixedGuard : NSchema → List Row → List HItem → Prop
  | _, _, [] => True
  | ns, t, .dml cs :: rest =>
    ns.resolve.keyless = false ∧ NoCi ns.resolve ∧ (∀ c ∈ cs, ∀ r ∈ c.rows, KeyTyped ns.resolve r)
      ∧ exactRun ns.resolve (stmtBegin (mkEd t)) cs = true
      ∧ MixedGuard ns (runStmtCalls ns.resolve t cs) rest
  | ns, t, .ddl d :: rest =>
    ddlOk ns d = true ∧ (∀ r ∈ t, r.length = ns.names.length)
      ∧ MixedGuard (ddlSchema ns d) (t.map (ddlRow d)) rest

end Gms.MemTable

/-! ## Property theorems -/
namespace Gms.C14
open Gms.MemTable

/-- The structure of the duplicate checks is the one the model was written against: `columnsMatch`
truncates `string`/`[]byte` values to `v[:prefixLength]` (bytes), compares decimals with `Cmp` and
everything else with Go `!=`; `GetByCols` looks at pending deletes (bail), pending adds, stored
rows, in this order; `Get` at adds, deletes, stored rows; `checkUniqueConstraints` skips an index
in which the row has a NULL; `Insert`/`Update` call the checks in the modelled order; `getRowKey`
finds the columns of a unique index by NAME (`indexColsForTableEditor`: `Name`, `columnIndexes` →
`Schema.IndexOf`; the field ordinals stored in the index expressions, stale after ADD COLUMN … FIRST /
AFTER and RENAME TABLE, are never read: `indexColsOrdinalReads = 0`); `getRowKey`
prints every key value with `%v` and writes it length-prefixed (`"%d:%s,"` with `len(s), s`) — the
repair of finding `pk_print_collision`: if the prefix disappears again this obligation breaks and
`fixed_pk_print_collision` below is the replay. -/
theorem facts_match :
    Gms.Generated.C14.columnsMatchSwitchCases = ["string", "[]byte", "string", "[]byte"]
    ∧ Gms.Generated.C14.columnsMatchTypeAsserts = ["*apd.Decimal", "*apd.Decimal", "[]byte", "[]byte"]
    ∧ Gms.Generated.C14.columnsMatchNeq = ["v1Decimal.Cmp(v2Decimal) != 0", "v1 != v2"]
    ∧ Gms.Generated.C14.columnsMatchSlices = ["v[:prefixLength]", "v[:prefixLength]", "v[:prefixLength]", "v[:prefixLength]"]
    ∧ Gms.Generated.C14.columnsMatchDecimalCmp = 1
    ∧ Gms.Generated.C14.pkGetByCols = ["deletes.FindForeach", "columnsMatch", "adds.FindForeach", "columnsMatch",
        "tableData.schema.HasVirtualColumns", "columnsMatch"]
    ∧ Gms.Generated.C14.pkGet = ["getRowKey", "adds.Get", "deletes.Get", "columnsMatch"]
    ∧ Gms.Generated.C14.getRowKeyFormats = ["%v", "%d:%s,"]
    ∧ Gms.Generated.C14.getRowKeyLenArgs = ["len(s)", "s"]
    ∧ Gms.Generated.C14.checkUnique = ["hasNullForAnyCols", "ea.GetByCols", "sql.NewUniqueKeyErr"]
    ∧ Gms.Generated.C14.edInsert = ["ea.Get", "sql.NewUniqueKeyErr", "checkUniqueConstraints", "ea.Insert"]
    ∧ Gms.Generated.C14.edUpdate = ["ea.Delete", "pkColsDiffer", "ea.Get", "sql.NewUniqueKeyErr", "checkUniqueConstraints", "ea.Insert"]
    ∧ Gms.Generated.C14.pkColsDiffer = ["pkColumnIndexes", "columnsMatch"]
    ∧ Gms.Generated.C14.checkUniqueNullContinue = 1
    ∧ Gms.Generated.C14.insertDupIsPK = ["true"]
    ∧ Gms.Generated.C14.hasNullConds = ["row[idx] == nil"]
    ∧ Gms.Generated.C14.hasNullReturns = ["true", "false"]
    ∧ Gms.Generated.C14.indexColsForTableEditor = ["IsUnique", "Name", "columnIndexes", "PrefixLengths"]
    ∧ Gms.Generated.C14.indexColsOrdinalReads = 0
    ∧ Gms.Generated.C14.columnIndexes = ["schema.IndexOf", "errColumnNotFound.New"] := by
  decide

/-- **The printed key is injective** (`key_injective`; FALSE before the repair of
`pk_print_collision`, see `fixed_pk_print_collision`): for every schema and every set of rows whose
key columns hold values of the declared kinds, `getRowKey` gives different rows-by-key different map
keys — whatever the number of key columns and whatever digits, separators or lengths the values
contain. -/
theorem key_injective (sch : Schema) (S : List Row) (hty : ∀ r ∈ S, KeyTyped sch r) :
    KeyInjOn sch.pk S :=
  keyInjOn_typed sch S hty

/-- non-vacuity: the old witnesses are typed rows, and their keys now differ. -/
example : KeyTyped { cols := [{}, {}, {}], pk := [0, 1], uniques := [] } [.int 1, .int 23, .int 0]
    ∧ KeyTyped { cols := [{}, {}, {}], pk := [0, 1], uniques := [] } [.int 12, .int 3, .int 1]
    ∧ getRowKey [0, 1] [.int 1, .int 23, .int 0] ≠ getRowKey [0, 1] [.int 12, .int 3, .int 1]
    ∧ getRowKey [0, 1] [.str [97], .str [98, 99]] ≠ getRowKey [0, 1] [.str [97, 98], .str [99]] := by
  refine ⟨?_, ?_, by decide, by decide⟩ <;> intro c hc <;>
    simp only [List.mem_cons, List.not_mem_nil, or_false] at hc <;> rcases hc with rfl | rfl <;> decide

/-- Full statement (`unique_invariant`): `∀ sch t stmts, UniqInv sch t → UniqInv sch (runHist sch t stmts)`
— FALSE on the unchanged code (see the findings below). Proved: the same for every history of
editor calls (any number of statements, any calls) over typed rows under the guards: no
case-insensitive column, and `HistGuard`: every unique-index lookup exact w.r.t. the pending edits.
(The former third guard — printed keys of the rows of one statement distinguishable — is gone:
it holds for all typed rows since the repair of `pk_print_collision`, `key_injective`.) -/
theorem unique_invariant_partial (sch : Schema) (hk : sch.keyless = false) (hci : NoCi sch)
    (t : List Row) (h : UniqInv sch t) (stmts : List (List EdCall)) (hty : HistTyped sch stmts)
    (hg : HistGuard sch t stmts) :
    UniqInv sch (runHist sch t stmts) := by
  unfold runHist
  induction stmts generalizing t with
  | nil => exact h
  | cons cs rest ih =>
    simp only [List.foldl_cons]
    obtain ⟨g2, g3⟩ := hg
    have g1 : KeyInjOn sch.pk (cs.flatMap EdCall.rows) :=
      keyInjOn_typed sch _ (fun r hr => by
        obtain ⟨c, hc, hrc⟩ := List.mem_flatMap.mp hr
        exact hty cs (by simp) c hc r hrc)
    exact ih _ (runStmtCalls_inv sch hk hci t h cs g1 g2)
      (fun cs' hcs' => hty cs' (List.mem_cons_of_mem _ hcs')) g3

/-- … and the invariant is the executable Spec predicate the driver and the harness evaluate. -/
theorem unique_invariant_partial_spec (sch : Schema) (hk : sch.keyless = false) (hci : NoCi sch)
    (hnp : NoPrefix sch) (t : List Row) (h : UniqInv sch t) (stmts : List (List EdCall))
    (hty : HistTyped sch stmts) (hg : HistGuard sch t stmts) :
    specNoDup sch (runHist sch t stmts) = true :=
  uniqInv_specNoDup sch hk hci hnp _ (unique_invariant_partial sch hk hci t h stmts hty hg)

/-- non-vacuity: a two-statement history (insert two rows; move one to a new key and unique value,
delete the other, insert a third) satisfies every guard, and the result has three… two rows. -/
def exSch : Schema := { cols := [{}, {}], pk := [0], uniques := [([1], [0])] }
def exHist : List (List EdCall) :=
  [[.ins [.int 1, .int 5], .ins [.int 2, .null]],
   [.upd [.int 1, .int 5] [.int 3, .int 6], .del [.int 2, .null], .ins [.int 4, .int 5]]]

example : exactRun exSch (stmtBegin (mkEd [])) exHist[0] = true
    ∧ exactRun exSch (stmtBegin (mkEd (runStmtCalls exSch [] exHist[0]))) exHist[1] = true
    ∧ runHist exSch [] exHist = [[.int 3, .int 6], [.int 4, .int 5]] := by decide

example : HistTyped exSch exHist := by
  intro cs hcs c hc r hr k hk
  simp only [exSch, List.mem_cons, List.not_mem_nil, or_false] at hk
  subst hk
  simp only [exHist, List.mem_cons, List.not_mem_nil, or_false] at hcs
  rcases hcs with rfl | rfl <;> simp only [List.mem_cons, List.not_mem_nil, or_false] at hc <;>
    rcases hc with rfl | rfl | rfl <;> simp only [EdCall.rows, List.mem_cons, List.not_mem_nil, or_false] at hr <;>
    (try rcases hr with rfl | rfl) <;> (try subst hr) <;> decide

/-- **No false duplicate** (`no_false_duplicate`, editor level): if `tableEditor.Insert` rejects a
row, the row it names is in the table-as-it-will-be and collides with the new row on the primary
key or on a unique index in which the new row has no NULL — for all typed rows (`S`: the rows the
statement has handled so far), under the two remaining guards (no case-insensitive column, exact
unique lookup). The `KeyInjOn` guard of the pre-repair version is gone. -/
theorem no_false_duplicate_partial (sch : Schema) (hk : sch.keyless = false) (hci : NoCi sch)
    (S : List Row) (hty : ∀ r ∈ S, KeyTyped sch r) (e : Ed) (inv : EdInv sch S e) (row : Row) (hr : row ∈ S)
    (hex : inexactNow sch e row = false) (x : EdErr) (h : edInsert sch e row = .error x) :
    x.existing ∈ pkApply sch e ∧
      (proj sch.pk x.existing = proj sch.pk row ∨
        ∃ u ∈ sch.uniques, hasNullForAnyCols row u.1 = false ∧ columnsMatch u.1 u.2 x.existing row = true) :=
  edInsert_err sch hk hci S (keyInjOn_typed sch S hty) e inv row hr hex x h

/-- **No false duplicate on the primary key — full statement** (no guard besides typing; this is
the statement `finding_pk_print_collision` used to refute): on a table without unique indexes, a
row that `tableEditor.Insert` rejects really has the key values of the row named in the error, and
that row is in the table-as-it-will-be. -/
theorem no_false_pk_duplicate (sch : Schema) (hk : sch.keyless = false) (hci : NoCi sch)
    (hu : sch.uniques = []) (S : List Row) (hty : ∀ r ∈ S, KeyTyped sch r) (e : Ed) (inv : EdInv sch S e)
    (row : Row) (hr : row ∈ S) (x : EdErr) (h : edInsert sch e row = .error x) :
    x.existing ∈ pkApply sch e ∧ proj sch.pk x.existing = proj sch.pk row := by
  have hex : inexactNow sch e row = false := by simp [inexactNow, hu]
  obtain ⟨h1, h2⟩ := edInsert_err sch hk hci S (keyInjOn_typed sch S hty) e inv row hr hex x h
  refine ⟨h1, ?_⟩
  rcases h2 with h2 | ⟨u, hu', _⟩
  · exact h2
  · rw [hu] at hu'; cases hu'

/-- … and an accepted row collides with nothing: its key is free and it agrees with no row of the
table-as-it-will-be on a unique index; afterwards that table is the old one plus the row. -/
theorem insert_accepts_exactly (sch : Schema) (hk : sch.keyless = false) (hci : NoCi sch)
    (S : List Row) (hty : ∀ r ∈ S, KeyTyped sch r) (e : Ed) (inv : EdInv sch S e) (row : Row) (hr : row ∈ S)
    (hex : inexactNow sch e row = false) (e' : Ed) (h : edInsert sch e row = .ok e') :
    (∀ r, r ∈ pkApply sch e' ↔ r = row ∨ r ∈ pkApply sch e) ∧ LMap sch e (proj sch.pk row) = none
      ∧ ListOK sch (pkApply sch e') := by
  obtain ⟨i, m, f⟩ := edInsert_ok sch hk hci S (keyInjOn_typed sch S hty) e inv row hr hex e' h
  exact ⟨m, f, i.ok⟩

/-- `null_never_conflicts`: a row with a NULL in every unique index passes the unique check,
whatever the table holds. -/
theorem null_never_conflicts (sch : Schema) (e : Ed) (row : Row)
    (h : ∀ u ∈ sch.uniques, hasNullForAnyCols row u.1 = true) :
    checkUnique sch e row sch.uniques = none :=
  checkUnique_null sch e row sch.uniques h

/-- **`pkTableEditAccumulator.Get` is exact — full statement** (it needed the guard `KeyInjOn`
before the repair): for all typed rows it answers "present" iff the table-as-it-will-be holds a
row with the key values of `row` (and returns that row). -/
theorem get_exact (sch : Schema) (S : List Row) (hty : ∀ r ∈ S, KeyTyped sch r) (e : Ed)
    (hwf : AccWF sch.pk S e) (row : Row) (hr : row ∈ S) :
    LMap sch e (proj sch.pk row)
      = match pkGet sch e row with
        | some (r, true) => some r
        | _ => none :=
  pkGet_spec sch S (keyInjOn_typed sch S hty) e hwf row hr

/-! ### schema changes between the statements (Gms/Model/MemTableDdl.lean)

Every statement gets a new `tableEditor`; the positions of the unique-index columns it works with are
recomputed from the table definition by `indexColsForTableEditor`, BY NAME. The theorems below say
that this keeps the keys enforced across ADD COLUMN at any position, DROP COLUMN of a non-key
column, RENAME COLUMN and RENAME TABLE — for every well-formed table definition, every applicable
change and all rows of the table's width. (An editor that trusted ordinals recorded earlier loses
`ddl_keeps_every_index` or `ddl_unique_check_same_values`; the correspondence runs histories that
interleave these changes with duplicate-writing DML.) -/

/-- **No unique index is lost by a schema change**: the editor created afterwards checks as many
unique indexes as the table has. -/
theorem ddl_keeps_every_index (ns : NSchema) (d : Ddl) (hwf : ns.wf = true) (hok : ddlOk ns d = true) :
    (indexColsForTableEditor (ddlSchema ns d)).length = ns.idx.length
      ∧ (ddlSchema ns d).idx.length = ns.idx.length := by
  obtain ⟨f, K, m⟩ := ddl_remap ns d hwf hok
  have h : indexColsForTableEditor (ddlSchema ns d)
      = (indexColsForTableEditor ns).map (fun u => (u.1.map f, u.2)) := m.uq
  refine ⟨?_, by cases d <;> simp [ddlSchema]⟩
  rw [h, List.length_map]
  exact indexCols_length ns.names ns.idx (wf_unpack ns hwf).2.2.1

/-- **The editor created after a schema change compares the same values**: there is a re-numbering
`f` of the ordinals such that the new editor's primary key and unique indexes are the old ones
re-numbered, and on the transformed rows `columnsMatch` / `hasNullForAnyCols` over the re-numbered
columns answer exactly what they answered on the old rows over the old columns. -/
theorem ddl_unique_check_same_values (ns : NSchema) (d : Ddl) (hwf : ns.wf = true) (hok : ddlOk ns d = true) :
    ∃ f : Nat → Nat,
      indexColsForTableEditor (ddlSchema ns d) = (indexColsForTableEditor ns).map (fun u => (u.1.map f, u.2))
      ∧ (ddlSchema ns d).pk = ns.pk.map f
      ∧ ∀ r1 r2 : Row, r1.length = ns.names.length → r2.length = ns.names.length →
          (columnsMatch (ns.pk.map f) [] (ddlRow d r1) (ddlRow d r2) = columnsMatch ns.pk [] r1 r2)
          ∧ ∀ u ∈ indexColsForTableEditor ns,
              columnsMatch (u.1.map f) u.2 (ddlRow d r1) (ddlRow d r2) = columnsMatch u.1 u.2 r1 r2
              ∧ hasNullForAnyCols (ddlRow d r1) (u.1.map f) = hasNullForAnyCols r1 u.1 := by
  obtain ⟨f, K, m⟩ := ddl_remap ns d hwf hok
  refine ⟨f, m.uq, m.pk, fun r1 r2 h1 h2 => ⟨columnsMatch_remap m ns.pk [] m.kpk r1 r2 h1 h2, fun u hu => ?_⟩⟩
  exact ⟨columnsMatch_remap m u.1 u.2 (m.kuq u hu) r1 r2 h1 h2, hasNull_remap m u.1 (m.kuq u hu) r1 h1⟩

/-- … so two rows collide on a key after the change iff they collided before it (Spec equality:
collations, character prefixes, NULL never equal) … -/
theorem ddl_conflict_same (ns : NSchema) (d : Ddl) (hwf : ns.wf = true) (hok : ddlOk ns d = true)
    (r1 r2 : Row) (h1 : r1.length = ns.names.length) (h2 : r2.length = ns.names.length) :
    specConflict (ddlSchema ns d).resolve (ddlRow d r1) (ddlRow d r2) = specConflict ns.resolve r1 r2 := by
  obtain ⟨f, K, m⟩ := ddl_remap ns d hwf hok
  exact specConflict_remap m r1 r2 h1 h2

/-- **… and a schema change preserves the state invariant** (`specNoDup`, the predicate the driver
and the harness evaluate): a duplicate-free table stays duplicate-free, w.r.t. the editor created
after the change. -/
theorem ddl_preserves_unique (ns : NSchema) (d : Ddl) (hwf : ns.wf = true) (hok : ddlOk ns d = true)
    (t : List Row) (ht : ∀ r ∈ t, r.length = ns.names.length) :
    specNoDup (ddlSchema ns d).resolve (t.map (ddlRow d)) = specNoDup ns.resolve t := by
  obtain ⟨f, K, m⟩ := ddl_remap ns d hwf hok
  exact specNoDup_remap m t ht

/-- **The uniqueness invariant over histories that interleave statements with schema changes**:
for every well-formed table definition, every table satisfying the invariant and every history of
DML statements (arbitrary editor calls) and schema changes (ADD COLUMN at any position, DROP COLUMN
of a non-key column, RENAME COLUMN, RENAME TABLE), under the guards of `unique_invariant_partial` for
the statements, the stored rows keep distinct key values and never agree on a unique index — with
respect to the editor created from the definition as it is at the end (index columns resolved by
name), and the definition stays well-formed. -/
theorem unique_invariant_ddl_partial (ns : NSchema) (hwf : ns.wf = true) (t : List Row)
    (h : UniqInv ns.resolve t) (items : List HItem) (hg : MixedGuard ns t items) :
    UniqInv (runMixed ns t items).1.resolve (runMixed ns t items).2 ∧ (runMixed ns t items).1.wf = true := by
  induction items generalizing ns t with
  | nil => exact ⟨h, hwf⟩
  | cons it rest ih =>
    cases it with
    | dml cs =>
      obtain ⟨hk, hci, hty, hex, hrest⟩ := hg
      have g1 : KeyInjOn ns.resolve.pk (cs.flatMap EdCall.rows) :=
        keyInjOn_typed ns.resolve _ (fun r hr => by
          obtain ⟨c, hc, hrc⟩ := List.mem_flatMap.mp hr
          exact hty c hc r hrc)
      exact ih ns hwf _ (runStmtCalls_inv ns.resolve hk hci t h cs g1 hex) hrest
    | ddl d =>
      obtain ⟨hok, hlen, hrest⟩ := hg
      obtain ⟨f, K, m⟩ := ddl_remap ns d hwf hok
      exact ih (ddlSchema ns d) (ddl_wf ns d hwf hok) _ (uniqInv_remap m t hlen h) hrest

/-- non-vacuity: `t(c0 PRIMARY KEY, c1 UNIQUE)`; ADD COLUMN c2 FIRST, DROP COLUMN (of a third
column), RENAME COLUMN c1 TO c5 are applicable to well-formed definitions, and the editor created
afterwards guards ordinal 2 / 1 / 1 — the column the index names, not the ordinal it had. -/
def exNs : NSchema := { names := [0, 1], cols := [{}, {}], pk := [0], idx := [([1], [0])] }
def exNs3 : NSchema := { names := [0, 7, 1], cols := [{}, {}, {}], pk := [0], idx := [([1], [0])] }

example : exNs.wf = true ∧ ddlOk exNs (.addCol 0 2 {}) = true ∧ ddlOk exNs (.renCol 1 5) = true
    ∧ exNs3.wf = true ∧ ddlOk exNs3 (.dropCol 1) = true
    ∧ indexColsForTableEditor exNs = [([1], [0])]
    ∧ indexColsForTableEditor (ddlSchema exNs (.addCol 0 2 {})) = [([2], [0])]
    ∧ (ddlSchema exNs (.addCol 0 2 {})).pk = [1]
    ∧ indexColsForTableEditor exNs3 = [([2], [0])]
    ∧ indexColsForTableEditor (ddlSchema exNs3 (.dropCol 1)) = [([1], [0])]
    ∧ (ddlSchema exNs (.renCol 1 5)).idx = [([5], [0])]
    ∧ indexColsForTableEditor (ddlSchema exNs (.renCol 1 5)) = [([1], [0])] := by decide

/-- … and after ADD COLUMN c2 FIRST the row (2,10) is still rejected next to (1,10): the statement
`INSERT INTO t VALUES (NULL,2,10)` on the table `[(NULL,1,10)]` is a duplicate for the Impl model
and for the Spec, while an editor working with the ordinal the index had at creation (1, now the
primary-key column) accepts it — the shape of defect this part of the check is after. -/
example :
    (implStmt (ddlSchema exNs (.addCol 0 2 {})).resolve ([[.int 1, .int 10]].map (ddlRow (.addCol 0 2 {})))
        (.insert false [[.null, .int 2, .int 10]])).1 = .dup
    ∧ (specStmt (ddlSchema exNs (.addCol 0 2 {})).resolve ([[.int 1, .int 10]].map (ddlRow (.addCol 0 2 {})))
        (.insert false [[.null, .int 2, .int 10]])).1 = .dup
    ∧ (implStmt { (ddlSchema exNs (.addCol 0 2 {})).resolve with uniques := indexColsForTableEditor exNs }
        [[.null, .int 1, .int 10]] (.insert false [[.null, .int 2, .int 10]])).1 = .ok 1 0 := by decide

/-- non-vacuity: insert (1,10),(2,11); ADD COLUMN c2 FIRST; insert (NULL,3,12); RENAME TABLE; delete
(NULL,2,11), insert (NULL,4,11) — every guard holds and three rows are stored. -/
def exMixed : List HItem :=
  [.dml [.ins [.int 1, .int 10], .ins [.int 2, .int 11]], .ddl (.addCol 0 2 {}),
   .dml [.ins [.null, .int 3, .int 12]], .ddl .renTab,
   .dml [.del [.null, .int 2, .int 11], .ins [.null, .int 4, .int 11]]]

example : (runMixed exNs [] exMixed).2
    = [[.null, .int 1, .int 10], [.null, .int 3, .int 12], [.null, .int 4, .int 11]] := by decide

/-! ### the repaired finding, and the findings that remain on the unchanged tree -/

def schComposite : Schema := { cols := [{}, {}, {}], pk := [0, 1], uniques := [] }
def schUnique : Schema := { cols := [{}, {}], pk := [0], uniques := [([1], [0])] }
def schCiPk : Schema := { cols := [{ str := true, ci := true }, {}], pk := [0], uniques := [] }
def schCiUq : Schema := { cols := [{}, { str := true, ci := true }], pk := [0], uniques := [([1], [0])] }

/-- **Repaired defect `pk_print_collision`.** Before the `fix:` commit `no_false_duplicate` was
FALSE without a `KeyInjOn` guard: with (1,23) pending, the pre-fix `tableEditor.Insert` rejected
(12,3) as a duplicate of it although the two rows collide on no key (their printed keys were both
`123`). The repaired `Insert` accepts the row, and the statement INSERT (1,23),(12,3) has the
outcome and the table of the Spec; likewise for the string keys ('a','bc') / ('ab','c'). -/
theorem fixed_pk_print_collision :
    (∃ r, (match edInsertPreFix schComposite (pkInsertPreFix schComposite (mkEd []) [.int 1, .int 23, .int 0])
              [.int 12, .int 3, .int 1] with | .error x => some x.existing | .ok _ => none) = some r
        ∧ specConflict schComposite r [.int 12, .int 3, .int 1] = false
        ∧ keyCollidePreFix schComposite r [.int 12, .int 3, .int 1] = true)
    ∧ (match edInsert schComposite (pkInsert schComposite (mkEd []) [.int 1, .int 23, .int 0])
          [.int 12, .int 3, .int 1] with | .error _ => false | .ok _ => true) = true
    ∧ implStmt schComposite [] (.insert false [[.int 1, .int 23, .int 0], [.int 12, .int 3, .int 1]])
        = specStmt schComposite [] (.insert false [[.int 1, .int 23, .int 0], [.int 12, .int 3, .int 1]])
    ∧ getRowKeyPreFix [0, 1] [.str [97], .str [98, 99]] = getRowKeyPreFix [0, 1] [.str [97, 98], .str [99]]
    ∧ getRowKey [0, 1] [.str [97], .str [98, 99]] ≠ getRowKey [0, 1] [.str [97, 98], .str [99]] :=
  ⟨⟨[.int 1, .int 23, .int 0], by decide, by decide, by decide⟩, by decide, by decide, by decide, by decide⟩

/-- `unique_invariant` is FALSE: one REPLACE stores the unique value 5 twice. -/
theorem finding_unique_check_ignores_pending_edits :
    ∃ sch t s, specNoDup sch t = true ∧ (implStmtE sch t s).2.inexact = true
      ∧ specNoDup sch (implStmt sch t s).2 = false :=
  ⟨schUnique, [[.int 1, .int 5]], .replace [[.int 1, .int 6], [.int 2, .int 5], [.int 3, .int 5]],
    by decide, by decide, by decide⟩

/-- … and the other direction of the same defect: a row is rejected because of a stored row that
is itself pending deletion (false duplicate; the Spec accepts the statement). -/
theorem finding_unique_check_sees_deleted_row :
    ∃ sch t s, (implStmtE sch t s).2.inexact = true ∧ (implStmt sch t s).1 = .dup
      ∧ (specStmt sch t s).1 ≠ .dup :=
  ⟨{ cols := [{}, {}, {}, {}], pk := [3], uniques := [([0, 1], [0, 0])] },
    [[.int 4, .int 31, .int 123, .int 5]],
    .odku [[.int 12, .null, .int 5, .int 5], [.int 3, .int 31, .int 0, .int 5]] [.vals 1],
    by decide, by decide, by decide⟩

/-- `unique_invariant` is FALSE under a case-insensitive collation: 'a' and 'A' are both accepted,
as primary key and as unique key (`columnsMatch` compares the stored Go strings). -/
theorem finding_ci_collation_key :
    (∃ t s, regionCiKey schCiPk t s = true ∧ (implStmt schCiPk t s).1 = .ok 2 0
        ∧ specNoDup schCiPk (implStmt schCiPk t s).2 = false ∧ (specStmt schCiPk t s).1 = .dup)
    ∧ (∃ t s, regionCiKey schCiUq t s = true ∧ (implStmt schCiUq t s).1 = .ok 2 0
        ∧ specNoDup schCiUq (implStmt schCiUq t s).2 = false ∧ (specStmt schCiUq t s).1 = .dup) :=
  ⟨⟨[], .insert false [[.str [97], .int 1], [.str [65], .int 2]], by decide, by decide, by decide, by decide⟩,
   ⟨[], .insert false [[.int 1, .str [97]], [.int 2, .str [65]]], by decide, by decide, by decide, by decide⟩⟩

/-- `no_false_duplicate` is FALSE for a prefix index over multi-byte text: 'é' and 'è' share
their first *byte*, not their first character (`columnsMatch` cuts `v[:prefixLength]`). -/
theorem finding_prefix_bytes_vs_chars :
    ∃ sch t s, regionPrefixMultibyte sch t s = true ∧ (implStmt sch t s).1 = .dup
      ∧ (specStmt sch t s).1 = .ok 1 0 :=
  ⟨{ cols := [{}, { str := true }], pk := [0], uniques := [([1], [1])] },
    [[.int 1, .str [195, 169]]], .insert false [[.int 2, .str [195, 168]]], by decide, by decide, by decide⟩

/-- … the same defect seen by a table rewrite (ALTER TABLE … DROP COLUMN re-inserts every stored row
through an editor): a table that satisfies the Spec invariant ('éa' and 'èa' under UNIQUE (c1(1)),
stored through the pending-edits defect) is rejected with a duplicate-key error (`implDup`). -/
theorem finding_prefix_bytes_vs_chars_rewrite :
    ∃ sch t, regionPrefixMultibyte sch t (.delete [] [] none) = true ∧ specNoDup sch t = true
      ∧ implDup sch t = true :=
  ⟨{ cols := [{}, { str := true }], pk := [0], uniques := [([1], [1])] },
    [[.int 1, .str [195, 169, 97]], [.int 2, .str [195, 168, 97]]], by decide, by decide, by decide⟩

end Gms.C14
