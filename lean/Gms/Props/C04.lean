/-
C04 — ORDER BY output is ordered and LIMIT/OFFSET select the right slice.

Proved for all rows, key lists, directions, limits and offsets (no bound):

* `cmpRows_impl_eq_spec` — the transliteration of `RowSorter.CompareRows` (DESC swap, both-NULL skip,
  NULLs first, `typ.Compare`) is the reference key comparison `keysCmp`;
* `cmpRows_total_preorder` — that comparison is antisymmetric and its `≤` transitive on key tuples of
  one length (integers, byte strings, NULL; mixed ASC/DESC), so "sorted" is meaningful;
* `sort_impl_eq_spec` — the left-to-right stable sort (`sort.Stable`) is the reference ORDER BY, hence
  `sort_sorted` / `sort_perm`: the output is ordered under every key's direction and is a permutation;
* `topN_spec` — the top-N heap (max-heap on (CompareRows, arrival number), pop when larger than n,
  result filled back to front) returns EXACTLY the first n rows of the stable sort; `top1_spec` — the
  LIMIT-1 scan returns its first row;
* `limit_offset_slice` / `eval_limit_orderBy` — the plan `Offset(m, TopN(n+m))` (with the LIMIT-1 special
  case) returns rows m+1 … m+n of the reference ordering: `evalQ (limit n m (orderBy …))`;
* `nulls_first_asc`, `nulls_last_desc`, `sorted_nulls_first` — NULL placement.
-/
import Gms.Lemmas.Sort
import Gms.Generated.C04

namespace Gms.C04
open Gms.Sql Gms.Rel Gms.Sort List

/-- `CompareRows` (Impl) = the reference key comparison (Spec). -/
theorem cmpRows_impl_eq_spec (ds : List Bool) (a b : Row) : cmpRowsImpl ds a b = keysCmp ds a b :=
  cmpRowsImpl_eq_keysCmp ds a b

/-- The row comparison of ORDER BY is a total preorder (keys of one length). -/
theorem cmpRows_total_preorder (ds : List Bool) (key : Row → Row) (k : Nat) (hk : ∀ r, (key r).length = k) :
    TotalPre (fun a b => keysCmp ds (key a) (key b)) where
  swap a b := keysCmp_swap ds (key a) (key b)
  trans a b c := keysCmp_le_trans ds (key a) (key b) (key c) (by rw [hk, hk]) (by rw [hk, hk])

theorem ltImpl_eq (ds : List Bool) (key : Row → Row) :
    ltImpl ds key = ltOf (fun a b => keysCmp ds (key a) (key b)) := by
  funext a b
  simp [ltImpl, ltOf, cmpRows_impl_eq_spec]

theorem orderRows_eq (ds : List Bool) (key : Row → Row) (rows : List Row) :
    orderRows ds key rows = sortBy (leOf (fun a b => keysCmp ds (key a) (key b))) rows := rfl

/-- `sort.Stable` over `RowSorter` (Impl) = the reference ORDER BY (Spec): same sequence. -/
theorem sort_impl_eq_spec (ds : List Bool) (key : Row → Row) (k : Nat) (hk : ∀ r, (key r).length = k)
    (rows : List Row) : sortL2R (ltImpl ds key) rows = orderRows ds key rows := by
  rw [ltImpl_eq, orderRows_eq]
  exact sortL2R_eq_sortBy (cmpRows_total_preorder ds key k hk) rows

/-- The output of ORDER BY is ordered: no row is followed (anywhere later) by a strictly smaller one. -/
theorem sort_sorted (ds : List Bool) (key : Row → Row) (k : Nat) (hk : ∀ r, (key r).length = k) (rows : List Row) :
    (orderRows ds key rows).Pairwise (fun a b => keysCmp ds (key a) (key b) ≠ .gt) := by
  have h := cmpRows_total_preorder ds key k hk
  have := sortBy_sorted (leOf (fun a b => keysCmp ds (key a) (key b))) h.le_total h.le_trans rows
  rw [orderRows_eq]
  refine this.imp ?_
  intro a b hab
  simpa [leOf] using hab

/-- … and a permutation of its input (no row lost, duplicated or invented). -/
theorem sort_perm (ds : List Bool) (key : Row → Row) (rows : List Row) : orderRows ds key rows ~ rows :=
  sortBy_perm _ rows

/-- **Top-N heap = the first n rows of the stable sort**, exactly. -/
theorem topN_spec (ds : List Bool) (key : Row → Row) (k : Nat) (hk : ∀ r, (key r).length = k) (n : Nat)
    (rows : List Row) : topN (ltImpl ds key) n rows = (orderRows ds key rows).take n := by
  rw [topN_eq_take_sort, sort_impl_eq_spec ds key k hk]

/-- The LIMIT-1 scan (`topRowIter`) returns the first row of the ordering. -/
theorem top1_spec (ds : List Bool) (key : Row → Row) (k : Nat) (hk : ∀ r, (key r).length = k)
    (rows : List Row) : top1 (ltImpl ds key) rows = (orderRows ds key rows).head? := by
  rw [top1_eq_head_sort, sort_impl_eq_spec ds key k hk]

/-- `Offset(m, TopN(n + m))` = rows m+1 … m+n of the ordering. -/
theorem limit_offset_slice (ds : List Bool) (key : Row → Row) (k : Nat) (hk : ∀ r, (key r).length = k)
    (n m : Nat) (rows : List Row) :
    topNPlan (ltImpl ds key) n m rows = limitRows n m (orderRows ds key rows) := by
  rw [topNPlan_eq_slice, sort_impl_eq_spec ds key k hk]
  rfl

theorem evalEs_length (db : Db) (env : Env) (es : List Expr) : (evalEs db env es).length = es.length := by
  induction es with
  | nil => simp [evalEs]
  | cons e es ih => simp [evalEs, ih]

/-- The SQL definition of `… ORDER BY ks LIMIT n OFFSET m` is what the engine's plan computes. -/
theorem eval_limit_orderBy (db : Db) (env : Env) (ks : List Expr) (ds : List Bool) (n m : Nat) (q : Query) :
    evalQ db env (.limit n m (.orderBy ks ds q))
      = topNPlan (ltImpl ds (fun r => evalEs db (r :: env) ks)) n m (evalQ db env q) := by
  rw [limit_offset_slice ds _ ks.length (fun r => evalEs_length db (r :: env) ks)]
  simp [evalQ]

theorem eval_orderBy (db : Db) (env : Env) (ks : List Expr) (ds : List Bool) (q : Query) :
    evalQ db env (.orderBy ks ds q)
      = sortL2R (ltImpl ds (fun r => evalEs db (r :: env) ks)) (evalQ db env q) := by
  rw [sort_impl_eq_spec ds _ ks.length (fun r => evalEs_length db (r :: env) ks)]
  simp [evalQ]

/-! ## NULL placement -/

/-- ASC: NULL sorts before every non-NULL value. -/
theorem nulls_first_asc (v : Value) (hv : v ≠ .null) (rest : List Bool) (as bs : Row) :
    keysCmp (false :: rest) (.null :: as) (v :: bs) = .lt := by
  cases v with
  | null => exact absurd rfl hv
  | int i => simp [keysCmp, Value.ord]
  | str s => simp [keysCmp, Value.ord]

/-- DESC: NULL sorts after every non-NULL value. -/
theorem nulls_last_desc (v : Value) (hv : v ≠ .null) (rest : List Bool) (as bs : Row) :
    keysCmp (true :: rest) (.null :: as) (v :: bs) = .gt := by
  cases v with
  | null => exact absurd rfl hv
  | int i => simp [keysCmp, Value.ord, Ordering.swap]
  | str s => simp [keysCmp, Value.ord, Ordering.swap]

/-- In the output of `ORDER BY k ASC`, a row whose key is not NULL is never followed by a row
whose key is NULL (NULLs first); under DESC it is never preceded by one (NULLs last). -/
theorem sorted_nulls_first (d : Bool) (kf : Row → Value) (rows : List Row) :
    (orderRows [d] (fun r => [kf r]) rows).Pairwise
      (fun a b => if d then (kf a = .null → kf b = .null) else (kf b = .null → kf a = .null)) := by
  have h := sort_sorted [d] (fun r => [kf r]) 1 (fun _ => rfl) rows
  refine h.imp ?_
  intro a b hab
  cases d
  · intro hb
    apply Classical.byContradiction
    intro ha
    apply hab
    have := nulls_first_asc (kf a) ha [] [] []
    have hs := keysCmp_swap [false] [Value.null] [kf a]
    rw [this] at hs
    simp only [hb]
    rw [hs]; rfl
  · intro ha
    apply Classical.byContradiction
    intro hb
    apply hab
    simp only [ha]
    exact nulls_last_desc (kf b) hb [] [] []

/-! ## Non-vacuity -/

example : orderRows [false, true] (fun r => r) [[.int 2, .int 1], [.null, .int 5], [.int 2, .int 3], [.int 1, .null]]
    = [[.null, .int 5], [.int 1, .null], [.int 2, .int 3], [.int 2, .int 1]] := by decide

example : topN (ltImpl [false] (fun r => r.take 1)) 2 [[.int 2, .int 1], [.int 1, .int 9], [.int 2, .int 0], [.int 1, .int 7]]
    = [[.int 1, .int 9], [.int 1, .int 7]] := by decide

example : topNPlan (ltImpl [true] (fun r => r)) 1 1 [[.int 2], [.null], [.int 3]] = [[.int 2]] := by decide

/-! ## Finding on the unchanged tree: the order provided by a merge join over reverse index scans

The Impl models above cover the Sort / TopN / Offset / Limit operators. When the ORDER is instead
*provided by the plan* — index scans, and merge joins over index scans — the result is covered by
the correspondence only. One such plan is wrong on the unchanged tree (region
`reverse_merge_join_null_peek`, decided on the plan skeleton + data): the recorded engine output on
the corpus witness is not even a permutation of the definition's result. -/

def wDb : Db :=
  [{ width := 2, rows := [[.int (-1), .int (-2)], [.null, .int 5], [.null, .int 6]] },
   { width := 2, rows := [[.int (-1), .int 7], [.int 3, .int 8]] }]

/-- `SELECT * FROM t0 s1 JOIN t1 s2 ON s1.c0 = s2.c0 ORDER BY s1.c0 DESC` -/
def wQ : Query :=
  .orderBy [.col 0 0] [true] (.join .inner (.cmp .eq (.col 0 0) (.col 0 2)) (.table 0) (.table 1))

/-- What the engine returns under `MERGE_JOIN(s1,s2)` (MergeJoin over two reverse index scans),
replayed with `.build/c04 sql` and on every run by the corpus case. -/
def wObserved : List Row := List.replicate 3 [.int (-1), .int (-2), .int (-1), .int 7]

theorem finding_reverse_merge_join_null_peek :
    eval wDb wQ = [[.int (-1), .int (-2), .int (-1), .int 7]] ∧ ¬ (wObserved ~ eval wDb wQ) := by
  refine ⟨by decide, ?_⟩
  intro h
  have := h.length_eq
  revert this
  decide

/-- Guarded statement (the part of the engine that IS modelled): whenever the order is produced by
the Sort / TopN / Offset operators, the Impl model returns exactly the definition's sequence — for
every database, key list, direction list, limit and offset. -/
theorem impl_eq_spec_partial (db : Db) (ks : List Expr) (ds : List Bool) (n m : Nat) (q : Query) :
    evalQ db [] (.limit n m (.orderBy ks ds q))
        = topNPlan (ltImpl ds (fun r => evalEs db [r] ks)) n m (evalQ db [] q)
    ∧ evalQ db [] (.orderBy ks ds q) = sortL2R (ltImpl ds (fun r => evalEs db [r] ks)) (evalQ db [] q) :=
  ⟨eval_limit_orderBy db [] ks ds n m q, eval_orderBy db [] ks ds q⟩

/-! ## Regenerated facts -/

/-- The decision points the Impl models transliterate are the ones in the source: `CompareRows`
swaps for DESC, skips two NULLs, returns −1 / 1 for a NULL on the left / right under NullsFirst, and
returns the type comparison otherwise; `IsLesserRow` is `< 0`; the heap is a max-heap with the later
arrival treated as larger among equals; a row is popped when the heap exceeds `n`; the result is
filled back to front; the LIMIT-1 scan replaces the candidate only by a strictly smaller row; the
sort is `sort.Stable`; the planner asks TopN for `limit + offset` rows; `limit == 1` selects the scan;
the planner's zero `NullOrdering` is NullsFirst. -/
theorem facts_match :
    Generated.C04.compareRowsSteps = ["desc-swap:av, bv = bv, av", "both-null:continue", "nulls-first", "decided:return cmp"]
    ∧ Generated.C04.nullsFirstReturns = ["av == nil => -1", "bv == nil => 1"]
    ∧ Generated.C04.isLesserRow = "s.CompareRows(a, b) < 0"
    ∧ Generated.C04.heapLess = ["if cmp == 0", "return h.order[i] > h.order[j]", "return cmp > 0"]
    ∧ Generated.C04.topNPopCondition = ["int64(rowsHeap.Len()) > n"]
    ∧ Generated.C04.topNFillLoop = "i := l - 1; i >= 0; i--"
    ∧ Generated.C04.top1Update = ["sorter.IsLesserRow(row, topRow) => topRow = row"]
    ∧ Generated.C04.sortIterCalls = ["sort.Stable"]
    ∧ Generated.C04.topNLimitArgs = ["expression.NewPlus(limit.Limit, offset.Offset)", "limit.Limit"]
    ∧ Generated.C04.buildTopNDispatch = ["limit == 1", "iters.NewTopRowIter", "iters.NewTopRowsIter"]
    ∧ Generated.C04.zeroNullOrderingIsNullsFirst = true := by
  decide

end Gms.C04
