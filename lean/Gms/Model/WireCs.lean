/-
C28 — character-set dependent part of the text wire form (core-only).

The string-like column types (ENUM, SET, CHAR/VARCHAR, TEXT) compute the length they announce
(`MaxTextResponseByteLength`, the `ColumnLength` of the field packet) at one site and produce the
bytes at another: `Type.SQL` / `Type.SQLValue` transcode the Go (UTF-8) string into the session's
`character_set_results` at encode time. This file models both sites.

Impl model (transliterations of the Go code that exists, defects included)
* `Cs.maxLen`            – `CharacterSetID.MaxLength()` (sql/charactersets.go, `characterSetArray`)
* `Res.effective`        – `resultCharset := ctx.GetCharacterSetResults(); if Unspecified || binary
                            { resultCharset = t.collation.CharacterSet() }` (enum.go, set.go, strings.go)
* `encodeCp`, `encode`   – `CharacterSetID.Encoder().Encode` per code point (sql/encodings: utf8mb4 and
                            binary pass the Go string through, utf8mb3 refuses 4-byte sequences, latin1
                            is cp1252 with the five undefined bytes mapped to C1, ascii, utf16/utf32 big
                            endian); `none` = `Encode` reports failure (`ErrCharSetFailedToEncode`)
* `decodeCs`             – `Encoder().Decode` (what a client does with the received bytes)
* `enumLen`              – `CreateEnumType`: max over members of `RuneCountInString × maxCharLength`
* `setLen`               – `CreateSetType`: the loop `+= RuneCount × maxCharLength; if i != 0 { += maxCharLength }`
* `announced`            – `MaxTextResponseByteLength(ctx)` of EnumType, SetType, StringType
                            (CHAR/VARCHAR: `length × charsetMaxLength` fixed at construction;
                            TEXT: `maxByteLength × character_set_results.MaxLength()` per session)
* `setText`              – `SetType.convertBitFieldToString`
* `sentText`             – `Type.SQL(ctx, nil, v)`

Spec
* the announced length must bound the transcoded text (`Gms.C28.cs_text_len_le_announced_partial`);
  `ResultCharsetWider` is the class in which the unchanged code cannot do so: the length is
  computed with the maximum character width of one character set while the bytes are produced in a
  wider one.
-/
import Gms.Model.Utf8

namespace Gms.WireCs
open Gms.Utf8

/-- The character sets of the envelope (those with an `Encoder` that the harness exercises). -/
inductive Cs where
  | utf8mb4 | utf8mb3 | latin1 | ascii | utf16 | utf32 | binary
  deriving DecidableEq, Repr, Inhabited

def Cs.all : List Cs := [.utf8mb4, .utf8mb3, .latin1, .ascii, .utf16, .utf32, .binary]

def Cs.name : Cs → String
  | .utf8mb4 => "utf8mb4" | .utf8mb3 => "utf8mb3" | .latin1 => "latin1" | .ascii => "ascii"
  | .utf16 => "utf16" | .utf32 => "utf32" | .binary => "binary"

def Cs.ofName? (s : String) : Option Cs := Cs.all.find? (fun c => c.name == s)

/-- Go: `CharacterSetID.MaxLength()`. -/
def Cs.maxLen : Cs → Nat
  | .utf8mb4 => 4 | .utf8mb3 => 3 | .latin1 => 1 | .ascii => 1 | .utf16 => 4 | .utf32 => 4 | .binary => 1

/-- The session's `character_set_results`: a character set or NULL (`CharacterSet_Unspecified`). -/
inductive Res where
  | cs (c : Cs)
  | null
  deriving DecidableEq, Repr, Inhabited

def Res.ofName? (s : String) : Option Res :=
  if s == "null" then some .null else (Cs.ofName? s).map .cs

/-- Go: the character set `Type.SQL` transcodes into. -/
def Res.effective (r : Res) (col : Cs) : Cs :=
  match r with
  | .null => col
  | .cs .binary => col
  | .cs c => c

/-- Go: `ctx.GetCharacterSetResults().MaxLength()` — `characterSetArray[0]` (Unspecified) is given the
default character set's (utf8mb4) figures by `init`. -/
def Res.rawMaxLen : Res → Nat
  | .null => 4
  | .cs c => c.maxLen

/-! ## Encoders -/

/-- bytes 0x80 … 0x9F of `encodings.Latin1` (cp1252; 0x81 0x8D 0x8F 0x90 0x9D map to the C1 code
point of the same number). Tied to the compiled encoder by `Gms.C28.facts_cs`. -/
def cp1252Hi : List Nat :=
  [0x20AC, 0x81, 0x201A, 0x192, 0x201E, 0x2026, 0x2020, 0x2021, 0x2C6, 0x2030, 0x160, 0x2039, 0x152, 0x8D, 0x17D, 0x8F,
   0x90, 0x2018, 0x2019, 0x201C, 0x201D, 0x2022, 0x2013, 0x2014, 0x2DC, 0x2122, 0x161, 0x203A, 0x153, 0x9D, 0x17E, 0x178]

/-- code point of a byte under `encodings.Latin1` -/
def latin1Cp (b : Nat) : Nat := if 0x80 ≤ b ∧ b < 0xA0 then cp1252Hi.getD (b - 0x80) 0 else b

def latin1Byte? (cp : Nat) : Option Nat :=
  if cp < 0x80 ∨ (0xA0 ≤ cp ∧ cp ≤ 0xFF) then some cp
  else (cp1252Hi.findIdx? (· == cp)).map (0x80 + ·)

/-- Go: `Encoder().Encode` of the UTF-8 form of one scalar value. -/
def encodeCp (c : Cs) (cp : Nat) : Option Bytes :=
  if !isScalar cp then none else
  match c with
  | .utf8mb4 | .binary => some (encodeRune cp)
  | .utf8mb3 => if cp < 0x10000 then some (encodeRune cp) else none
  | .ascii => if cp < 0x80 then some [cp] else none
  | .latin1 => (latin1Byte? cp).map fun b => [b]
  | .utf16 =>
    if cp < 0x10000 then some [cp / 256, cp % 256]
    else
      let v := cp - 0x10000
      let hi := 0xD800 + v / 1024
      let lo := 0xDC00 + v % 1024
      some [hi / 256, hi % 256, lo / 256, lo % 256]
  | .utf32 => some [0, cp / 65536, cp / 256 % 256, cp % 256]

/-- Go: `Encoder().Encode(string(runes))`. -/
def encode (c : Cs) : List Nat → Option Bytes
  | [] => some []
  | r :: rs =>
    match encodeCp c r, encode c rs with
    | some a, some b => some (a ++ b)
    | _, _ => none

/-- Go: `Encoder().Decode` — bytes of the character set back to code points (`none`: ill-formed). -/
def decodeCs (c : Cs) : Nat → Bytes → Option (List Nat)
  | 0, _ => none
  | fuel + 1, bs =>
    match c, bs with
    | _, [] => some []
    | .utf8mb4, _ | .binary, _ => if validUtf8 bs then some (decodeRunes bs) else none
    | .utf8mb3, _ =>
      if validUtf8 bs && (decodeRunes bs).all (· < 0x10000) then some (decodeRunes bs) else none
    | .ascii, b :: rest => if b < 0x80 then (decodeCs .ascii fuel rest).map (b :: ·) else none
    | .latin1, b :: rest =>
      (decodeCs .latin1 fuel rest).map (latin1Cp b :: ·)
    | .utf16, a :: b :: rest =>
      let u := a * 256 + b
      if u < 0xD800 ∨ 0xE000 ≤ u then (decodeCs .utf16 fuel rest).map (u :: ·)
      else match rest with
        | c2 :: d :: rest' =>
          let l := c2 * 256 + d
          if u < 0xDC00 ∧ 0xDC00 ≤ l ∧ l < 0xE000 then
            (decodeCs .utf16 fuel rest').map ((0x10000 + (u - 0xD800) * 1024 + (l - 0xDC00)) :: ·)
          else none
        | _ => none
    | .utf32, a :: b :: c2 :: d :: rest =>
      let u := b * 65536 + c2 * 256 + d
      if a = 0 ∧ isScalar u then (decodeCs .utf32 fuel rest).map (u :: ·) else none
    | _, _ => none

/-! ## Column types and stored values -/

/-- A member / a string value: its code points. -/
abbrev Str := List Nat

inductive Ty where
  | enum (col : Cs) (members : List Str)
  | set (col : Cs) (members : List Str)
  | char (col : Cs) (n : Nat)           -- CHAR(n) and VARCHAR(n): the same length code
  | text (col : Cs) (maxBytes : Nat)    -- TINYTEXT 255, TEXT 65535, MEDIUMTEXT 16777215
  deriving DecidableEq, Repr, Inhabited

inductive Val where
  | idx (i : Nat)       -- ENUM: 1-based index
  | bits (b : Nat)      -- SET: bit field
  | str (s : Str)
  deriving DecidableEq, Repr, Inhabited

def Ty.col : Ty → Cs
  | .enum c _ | .set c _ | .char c _ | .text c _ => c

def utf8Len (s : Str) : Nat := (encodeRunes s).length

/-- Storable values (necessary conditions of `Type.Convert`, as far as lengths are concerned):
ENUM index in range, SET bit field within the members, CHAR/VARCHAR: `StringType.Convert` counts
UTF-8 bytes when the column character set is single-byte and otherwise accepts when the byte count
or the rune count is within `n`; TEXT: UTF-8 byte count within `maxByteLength`. -/
def Valid : Ty → Val → Prop
  | .enum col ms, .idx i => col ≠ .binary ∧ 1 ≤ i ∧ i ≤ ms.length
  | .set col ms, .bits b => col ≠ .binary ∧ 1 ≤ ms.length ∧ ms.length ≤ 64 ∧ b < 2 ^ ms.length
  | .char col n, .str s =>
    col ≠ .binary ∧ (∀ r ∈ s, isScalar r = true) ∧
      (if col.maxLen = 1 then utf8Len s ≤ n else (utf8Len s ≤ n ∨ s.length ≤ n))
  | .text col mb, .str s => col ≠ .binary ∧ (∀ r ∈ s, isScalar r = true) ∧ utf8Len s ≤ mb
  | _, _ => False

instance (t : Ty) (v : Val) : Decidable (Valid t v) := by
  cases t <;> cases v <;> unfold Valid <;> infer_instance

/-! ## Impl model: the announced length (computed at type construction) -/

/-- Go: `CreateEnumType`: `byteLength := RuneCountInString(value) * maxCharLength; if byteLength >
maxResponseByteLength { maxResponseByteLength = byteLength }`. -/
def enumLen (w : Nat) : List Str → Nat
  | [] => 0
  | m :: rest => let r := enumLen w rest; if m.length * w > r then m.length * w else r

/-- Go: `CreateSetType`: `maxByteLength += RuneCount(value) * maxCharLength; if i != 0 { maxByteLength
+= maxCharLength }` — the loop from index `i`. -/
def setLenFrom (w : Nat) : Nat → List Str → Nat
  | _, [] => 0
  | i, m :: rest => m.length * w + (if i ≠ 0 then w else 0) + setLenFrom w (i + 1) rest

def setLen (w : Nat) (ms : List Str) : Nat := setLenFrom w 0 ms

/-- Go: `MaxTextResponseByteLength(ctx)`. -/
def announced (res : Res) : Ty → Nat
  | .enum col ms => enumLen col.maxLen ms
  | .set col ms => setLen col.maxLen ms
  | .char col n => n * col.maxLen
  | .text _ mb => mb * res.rawMaxLen

/-- the maximum character width the announced length is computed with -/
def lenWidth (res : Res) : Ty → Nat
  | .text _ _ => res.rawMaxLen
  | t => t.col.maxLen

/-! ## Impl model: the text (produced at encode time) -/

/-- members selected by the bit field, lowest bit first -/
def selected : List Str → Nat → List Str
  | [], _ => []
  | m :: rest, b => if b % 2 = 1 then m :: selected rest (b / 2) else selected rest (b / 2)

def joinComma : List Str → Str
  | [] => []
  | [m] => m
  | m :: rest => m ++ 44 :: joinComma rest

/-- Go: `SetType.convertBitFieldToString`. -/
def setText (ms : List Str) (b : Nat) : Str := joinComma (selected ms b)

/-- the string that is transcoded (`none`: the value is not of this type) -/
def plainText : Ty → Val → Option Str
  | .enum _ ms, .idx i => if i = 0 then some [] else ms[i - 1]?
  | .set _ ms, .bits b => some (setText ms b)
  | .char _ _, .str s => some s
  | .text _ _, .str s => some s
  | _, _ => none

/-- Go: `Type.SQL(ctx, nil, v)` under `character_set_results = res` (`none`: error). -/
def sentText (res : Res) (t : Ty) (v : Val) : Option Bytes :=
  match plainText t v with
  | some s => encode (res.effective t.col) s
  | none => none

/-! ## Region -/

/-- The bytes are produced in a character set whose widest character is wider than the width the
announced length was computed with (e.g. a latin1 ENUM read with `character_set_results = utf8mb4`,
a utf8mb3 SET read with utf32, a utf16 TEXT read with `character_set_results = binary`). -/
def ResultCharsetWider (res : Res) (t : Ty) : Prop := lenWidth res t < (res.effective t.col).maxLen

instance (res : Res) (t : Ty) : Decidable (ResultCharsetWider res t) := by
  unfold ResultCharsetWider; infer_instance

def regionOf (res : Res) (t : Ty) : String :=
  if ResultCharsetWider res t then "result_charset_wider_than_announced" else "-"

/-- what a client that decodes the bytes in the effective character set ends up with -/
def roundTrip (res : Res) (t : Ty) (v : Val) : Bool :=
  match plainText t v, sentText res t v with
  | some s, some bs => decodeCs (res.effective t.col) (bs.length + 1) bs == some s
  | _, _ => false

end Gms.WireCs
