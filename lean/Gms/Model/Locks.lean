/-
C38 — model of sql/lock_subsystem.go (`LockSubsystem`) (core-only, executable).

Names and session ids are `Nat`. `**ownedLock` behind an atomic pointer is a `Cell`: the immutable
record `(owner, count)` plus a *version* that stands for the pointer identity — every successful
`CompareAndSwapPointer` installs a freshly allocated record, i.e. a fresh version, and a CAS succeeds
iff the version it loaded is still the current one (the loaded pointer keeps the old record alive, so
the address cannot be reused: no ABA).

* Spec        `astep` on `Table`: the *atomic* meaning of the five primitive operations
              (`ensure`, `tryAcq`, `unlock`, `relOne`, `getState`), with the code's convention
              `owner = 0 ⇔ free`. The API calls are sequential compositions of primitives:
              `TryLock = ensure ; tryAcq`, `Lock = ensure ; (tryAcq ; sleep)*`,
              `ReleaseAll = relOne n₁ ; … ; relOne nₖ` over the session's lock set.
* Impl model  `call` / `micro`: the code as interleavable atomic steps of one thread per session:
              map lookup / creation under the RW mutex, `LoadPointer`, the decision on the loaded
              record, `CompareAndSwapPointer` (+ the session-local `AddLock` / `DelLock`, which only
              the session's own thread can observe), retry on CAS failure.
-/
namespace Gms.Locks

/-! ### Spec: atomic operations on the abstract lock table -/

/-- name ↦ `(owner, count)`; `none` = the lock was never created. -/
abbrev Table := Nat → Option (Nat × Nat)

def Table.empty : Table := fun _ => none

def upd {β : Type} (t : Nat → β) (n : Nat) (v : β) : Nat → β := fun m => if m = n then v else t m

inductive Op where
  | ensure (n : Nat)
  | tryAcq (u n : Nat)
  | unlock (u n : Nat)
  | relOne (u n : Nat)
  | getState (n : Nat)
  deriving DecidableEq, Repr, Inhabited

inductive R where
  | unit
  | acquired (b : Bool)
  | ok
  | errNotExist
  | errNotOwned
  | released (k : Nat)
  | notExist
  | free
  | inUse (o : Nat)
  deriving DecidableEq, Repr, Inhabited

/-- What `Unlock` installs: one level less, or the empty record. -/
def unlockVal (u c : Nat) : Nat × Nat := if c > 1 then (u, c - 1) else (0, 0)

/-- What `tryLock` installs on a record it may take. -/
def acqVal (u o c : Nat) : Nat × Nat := if o = 0 then (u, 1) else (u, c + 1)

def astep (t : Table) : Op → Table × R
  | .ensure n =>
    match t n with
    | none => (upd t n (some (0, 0)), .unit)
    | some _ => (t, .unit)
  | .tryAcq u n =>
    match t n with
    | none => (t, .acquired false)
    | some (o, c) =>
      if o = 0 ∨ o = u then (upd t n (some (acqVal u o c)), .acquired true) else (t, .acquired false)
  | .unlock u n =>
    match t n with
    | none => (t, .errNotExist)
    | some (o, c) =>
      if o ≠ u then (t, .errNotOwned) else (upd t n (some (unlockVal u c)), .ok)
  | .relOne u n =>
    match t n with
    | none => (t, .released 0)
    | some (o, _) =>
      if o ≠ u then (t, .released 0) else (upd t n (some (0, 0)), .released 1)
  | .getState n =>
    match t n with
    | none => (t, .notExist)
    | some (o, _) => if o = 0 then (t, .free) else (t, .inUse o)

/-- Sequential run of primitives. -/
def arun (t : Table) : List Op → Table × List R
  | [] => (t, [])
  | op :: ops =>
    let (t', r) := astep t op
    let (t'', rs) := arun t' ops
    (t'', r :: rs)

def owner (t : Table) (n : Nat) : Nat := match t n with | some (o, _) => o | none => 0
def count (t : Table) (n : Nat) : Nat := match t n with | some (_, c) => c | none => 0

/-! ### Impl model: interleavable atomic steps -/

structure Cell where
  ver : Nat
  owner : Nat
  count : Nat
  deriving DecidableEq, Repr, Inhabited

/-- Which retry loop a thread is in. -/
inductive Kind where
  | try | unl | rel
  deriving DecidableEq, Repr, Inhabited

inductive Pc where
  | idle
  /-- about to `atomic.LoadPointer` the cell of `n` -/
  | load (k : Kind) (n : Nat)
  /-- loaded version `ver` with record `(o, c)`, decided to CAS -/
  | cas (k : Kind) (n : Nat) (ver o c : Nat)
  deriving DecidableEq, Repr, Inhabited

structure CSt where
  cells : Nat → Option Cell
  nextVer : Nat
  pc : Nat → Pc
  /-- `BaseSession.locks` of each session (a set; kept duplicate free) -/
  sets : Nat → List Nat

def CSt.init : CSt := { cells := fun _ => none, nextVer := 0, pc := fun _ => .idle, sets := fun _ => [] }

def addLock (l : List Nat) (n : Nat) : List Nat := if n ∈ l then l else n :: l
def delLock (l : List Nat) (n : Nat) : List Nat := l.filter (· ≠ n)

inductive Call where
  | tryLock (n : Nat)
  | unlock (n : Nat)
  | relOne (n : Nat)
  | getState (n : Nat)
  deriving DecidableEq, Repr, Inhabited

def kindOp (k : Kind) (u n : Nat) : Op :=
  match k with
  | .try => .tryAcq u n
  | .unl => .unlock u n
  | .rel => .relOne u n

/-- The record a successful CAS of loop `k` installs, given the loaded record `(o, c)`. -/
def casVal (k : Kind) (u o c : Nat) : Nat × Nat :=
  match k with
  | .try => acqVal u o c
  | .unl => unlockVal u c
  | .rel => (0, 0)

def casRes (k : Kind) : R :=
  match k with
  | .try => .acquired true
  | .unl => .ok
  | .rel => .released 1

/-- The session-local bookkeeping done right after a successful CAS. -/
def casSets (k : Kind) (l : List Nat) (n o : Nat) (newCount : Nat) : List Nat :=
  match k with
  | .try => if o = 0 then addLock l n else l
  | .unl => if newCount = 0 then delLock l n else l
  | .rel => l

/-- The decision taken on a loaded record with owner `o`: go on to the CAS, or return. -/
def goCond (k : Kind) (u o : Nat) : Bool :=
  match k with
  | .try => decide (o = 0 ∨ o = u)
  | .unl => decide (o = u)
  | .rel => decide (o = u)

/-- What the call returns when the loaded record does not allow the CAS. -/
def failRes (k : Kind) : R :=
  match k with
  | .try => .acquired false
  | .unl => .errNotOwned
  | .rel => .released 0

/-- Result of one atomic step: new state, the call's result if it completed, and the primitive
that took effect at this very step (its linearization point), if any. -/
structure Out where
  st : CSt
  done : Option R
  lin : Option (Op × R)

/-- First shared-memory action of a call by an idle thread `u`. -/
def call (s : CSt) (u : Nat) : Call → Out
  -- TryLock: getOrCreateLock
  | .tryLock n =>
    match s.cells n with
    | none =>
      { st := { s with cells := upd s.cells n (some ⟨s.nextVer, 0, 0⟩), nextVer := s.nextVer + 1,
                       pc := upd s.pc u (.load .try n) },
        done := none, lin := some (.ensure n, .unit) }
    | some _ =>
      { st := { s with pc := upd s.pc u (.load .try n) }, done := none, lin := some (.ensure n, .unit) }
  -- Unlock: getNamedLock
  | .unlock n =>
    match s.cells n with
    | none => { st := s, done := some .errNotExist, lin := some (.unlock u n, .errNotExist) }
    | some _ => { st := { s with pc := upd s.pc u (.load .unl n) }, done := none, lin := none }
  -- one iteration of ReleaseAll's callback: getNamedLock
  | .relOne n =>
    match s.cells n with
    | none => { st := s, done := some (.released 0), lin := some (.relOne u n, .released 0) }
    | some _ => { st := { s with pc := upd s.pc u (.load .rel n) }, done := none, lin := none }
  -- GetLockState: lookup + one load
  | .getState n =>
    let r := match s.cells n with
      | none => R.notExist
      | some c => if c.owner = 0 then R.free else R.inUse c.owner
    { st := s, done := some r, lin := some (.getState n, r) }

/-- Next atomic step of a thread that is inside a call. -/
def micro (s : CSt) (u : Nat) : Out :=
  match s.pc u with
  | .idle => { st := s, done := none, lin := none }
  | .load k n =>
    match s.cells n with
    | none => { st := s, done := none, lin := none }     -- unreachable: cells are never deleted
    | some c =>
      if goCond k u c.owner then
        { st := { s with pc := upd s.pc u (.cas k n c.ver c.owner c.count) }, done := none, lin := none }
      else
        { st := { s with pc := upd s.pc u .idle }, done := some (failRes k), lin := some (kindOp k u n, failRes k) }
  | .cas k n v o c =>
    match s.cells n with
    | none => { st := s, done := none, lin := none }     -- unreachable
    | some cell =>
      if cell.ver = v then
        let nv := casVal k u o c
        { st := { s with cells := upd s.cells n (some ⟨s.nextVer, nv.1, nv.2⟩), nextVer := s.nextVer + 1,
                         pc := upd s.pc u .idle,
                         sets := upd s.sets u (casSets k (s.sets u) n o nv.2) },
          done := some (casRes k), lin := some (kindOp k u n, casRes k) }
      else
        { st := { s with pc := upd s.pc u (.load k n) }, done := none, lin := none }

/-- A scheduler action. -/
inductive Act where
  | call (u : Nat) (c : Call)
  | step (u : Nat)
  deriving DecidableEq, Repr, Inhabited

/-- `none`: not enabled (a call on a busy thread / a step of an idle thread). -/
def cstep (s : CSt) : Act → Option Out
  | .call u c => if s.pc u = .idle then some (call s u c) else none
  | .step u => if s.pc u = .idle then none else some (micro s u)

/-- Run a schedule; collect the linearization points in order. `none` if an action was not enabled. -/
def crun (s : CSt) : List Act → Option (CSt × List (Op × R))
  | [] => some (s, [])
  | a :: as =>
    match cstep s a with
    | none => none
    | some o =>
      match crun o.st as with
      | none => none
      | some (s', ls) => some (s', (o.lin.toList ++ ls))

def proj (cells : Nat → Option Cell) : Table := fun n => (cells n).map fun c => (c.owner, c.count)

/-! ### Sequential executions of the Impl model (what a single goroutine observes) -/

/-- Run thread `u` alone until its call completes (fuel bounds the loop; sequentially two micro
steps suffice). -/
def finish (s : CSt) (u : Nat) : Nat → CSt × Option R
  | 0 => (s, none)
  | fuel + 1 =>
    let o := micro s u
    match o.done with
    | some r => (o.st, some r)
    | none => finish o.st u fuel

def seqCall (s : CSt) (u : Nat) (c : Call) : CSt × Option R :=
  let o := call s u c
  match o.done with
  | some r => (o.st, some r)
  | none => finish o.st u 4

/-- `ReleaseAll`: iterate the session's lock set (a snapshot: the callback does not modify it). -/
def seqReleaseAll (s : CSt) (u : Nat) : CSt × Nat :=
  (s.sets u).foldl (fun (acc : CSt × Nat) n =>
    let (s', r) := seqCall acc.1 u (.relOne n)
    (s', acc.2 + (match r with | some (.released k) => k | _ => 0))) (s, 0)

end Gms.Locks
