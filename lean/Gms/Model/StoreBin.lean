/-
C27 — binary strings (`[]byte`: `X'..'` / `0x..` literals, BINARY / VARBINARY / BLOB values) written
into integer and BIT columns (core-only model).

* Spec: a binary string denotes the big-endian unsigned integer of its bytes (`beVal`; this is how the
  engine — and MySQL for hexadecimal literals — reads a binary string in a numeric context). A
  non-empty binary string is treated like that integer ("exact, or reported and nearest"); the empty
  binary string written to an integer column has to be reported (BIT: it denotes 0).
* Impl model of the `[]byte` branch of `convertToInt64` / `convertToUint64` (sql/types/number.go):
  `strconv.ParseInt / ParseUint (hex.EncodeToString(v), 16, 64)` — a syntax error on the empty string, a
  range error beyond `MaxInt64` / `MaxUint64`, leading zero bytes are harmless (any length) — followed
  by the tail of `NumberTypeImpl_.Convert` (= `ConvertRound` for a non-string value) and the insert
  policy of `insertIter.Next`. BIT: `BitType_.Convert` on `[]byte` is `convertBit n (.s bs)`
  (Gms/Model/NumConv.lean: a Go string is converted to `[]byte` first).
* DECIMAL reads a binary string as text and YEAR refuses it: not part of this model (never generated).
-/
import Gms.Model.StoreStr
namespace Gms.Conv
open Gms.Num

/-- the big-endian unsigned integer a binary string denotes (any length) -/
def beVal (bs : List UInt8) : Nat := bs.foldl (fun acc b => acc * 256 + b.toNat) 0

/-- `convertToInt64(t, v []byte, _)`: `strconv.ParseInt(hex.EncodeToString(v), 16, 64)`; any error
(syntax error on `""`, range error at `2^63` and beyond) ⇒ `0, InRange, ErrInvalidValue` -/
def convertToInt64B (bs : List UInt8) : Res :=
  if bs = [] ∨ (beVal bs : Int) > maxI64 then ⟨0, .inRange, .fatal⟩ else ⟨beVal bs, .inRange, .none⟩

/-- `convertToUint64(t, v []byte, _)`: `strconv.ParseUint(hex.EncodeToString(v), 16, 64)` -/
def convertToUint64B (bs : List UInt8) : Res :=
  if bs = [] ∨ (beVal bs : Int) > maxU64 then ⟨0, .inRange, .fatal⟩ else ⟨beVal bs, .inRange, .none⟩

/-- `NumberTypeImpl_.Convert` (and `ConvertRound`, which defers to it for anything but a Go string) on
a `[]byte` value: the same dispatch and range guards as `convertInt`, on the result of the `[]byte`
branch of the 64-bit converter. -/
def convertIntB (t : ITy) (bs : List UInt8) : CRes :=
  match t with
  | .i64 => let r := convertToInt64B bs; ⟨.int r.val, r.flag, r.err⟩
  | .u64 => let r := convertToUint64B bs; ⟨.int r.val, r.flag, r.err⟩
  | t =>
    let r := convertToInt64B bs
    if r.err = .fatal then ⟨.int (convertInt.wrapTo t r.val), r.flag, .fatal⟩
    else if r.val > t.hi then ⟨.int t.hi, .overflow, .none⟩
    else if r.val < t.lo then
      ⟨.int (if t.unsigned then convertInt.wrapTo t (t.hi + r.val + 1) else t.lo), .underflow, .none⟩
    else ⟨.int r.val, .inRange, r.err⟩

/-- the largest value the `[]byte` branch lets through for the type: `MaxUint64` for BIGINT UNSIGNED
(`convertToUint64`), `MaxInt64` for the nine types that go through `convertToInt64` -/
def binLimit (t : ITy) : Int := if t = .u64 then maxU64 else maxI64

end Gms.Conv

namespace Gms.Store
open Gms.Num Gms.Conv

/-- `Type.Convert` of a `[]byte` value, for the types that read it as a number -/
def convertB : Ty → List UInt8 → CRes
  | .int it, bs => convertIntB it bs
  | .bit n, bs => convertBit n (.s bs)
  | _, _ => ⟨.null, .inRange, .fatal⟩        -- YEAR refuses `[]byte`; DECIMAL (text) is not modelled

/-- the types of the binary-string model -/
def binModelled : Ty → Bool
  | .int _ => true
  | .bit _ => true
  | _ => false

/-! ## Spec -/

/-- What the property demands of `Convert` on a binary string: as the integer it denotes. The empty
string is no integer (integer columns: it has to be reported; BIT: 0). BIT refuses anything longer
than 8 bytes, leading zero bytes included: left undetermined when the value would fit. -/
def acceptableConvertB (t : Ty) (bs : List UInt8) (r : CRes) : Option Bool :=
  match t with
  | .int _ => if bs = [] then some (!(conversionOk r)) else acceptNum t ((beVal bs : Int), 0) r
  | .bit n =>
    if bs.length > 8 ∧ (beVal bs : Int) ≤ 2 ^ n - 1 then none else acceptNum t ((beVal bs : Int), 0) r
  | _ => none

/-! ## Insert path -/

/-- `INSERT [IGNORE]` of a binary string: `insertIter.Next` on the result of `ConvertRound` (integer
columns never get nil back) / `Convert` (BIT: nil becomes the type's zero under IGNORE) -/
def insertBin (ignore : Bool) : Ty → List UInt8 → Outcome
  | .int it, bs => policy ignore (convertIntB it bs)
  | t, bs => if ignore then insertIgnore t (.s bs) else insertStrict t (.s bs)

/-- What the property demands of the row `INSERT [IGNORE]` leaves behind for a binary string. -/
def acceptableBinOutcome (ignore : Bool) (t : Ty) (bs : List UInt8) (o : Outcome) : Option Bool :=
  match t with
  | .int _ =>
    if bs = [] then
      some (match o with
        | .rejected => !ignore
        | .stored _ w => ignore && w)
    else some (acceptNumOutcome ignore t ((beVal bs : Int), 0) o)
  | .bit n =>
    if bs.length > 8 ∧ (beVal bs : Int) ≤ 2 ^ n - 1 then none
    else some (acceptNumOutcome ignore t ((beVal bs : Int), 0) o)
  | _ => none

/-! ## Region -/

/-- a binary string whose value is beyond what `strconv.ParseInt/ParseUint(…, 16, 64)` accepts (from
`2^63` on for every integer type except BIGINT UNSIGNED, from `2^64` on for that one): the converter
returns `0` beside `ErrInvalidValue`; a strict INSERT rejects the row (as the property demands), but
`INSERT IGNORE` stores that 0 (with a warning) instead of the nearest value, the type's maximum. -/
def binary_out_of_range_stored_as_zero (t : Ty) (bs : List UInt8) : Prop :=
  match t with
  | .int it => bs ≠ [] ∧ (beVal bs : Int) > binLimit it
  | _ => False

instance (t bs) : Decidable (binary_out_of_range_stored_as_zero t bs) := by
  unfold binary_out_of_range_stored_as_zero; split <;> infer_instance

end Gms.Store
