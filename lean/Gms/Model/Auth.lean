/-
C40 — model of the authentication decision (core-only).

Go code modelled (sql/mysql_db/auth.go, mysql_db.go):
* `validateMysqlNativePassword`                       → `validateNative`   (Impl, `none` = run-time panic) / `validateNativeSpec`
  (`validateNativePreFix`: the function before the `fix:` commit that added the response-length guard)
* `nativePasswordHashStorage.UserEntryWithHash`,
  `MySQLDb.ValidateHash` (same decision logic)         → `authNative`
* `userValidator.HandleUser` + `decoyAuthSubject`      → `handleUser`
* `noopCachingStorage.UserEntryWithCacheHash`          → `sha2Fast`
* `MySQLDb.GetUser` (which account a login is checked against) is `Gms.Priv.getUserIdx`; the Spec's choice
  (`chooseSpec`: MySQL's rule — the most specific matching host first) is defined here.

SHA-1 is a parameter `H : Bytes → Bytes` of every definition and is universally quantified in the
theorems; the driver instantiates it with `sha1` below (checked against crypto/sha1 by the harness).
-/
import Gms.Model.Priv

namespace Gms.Auth
open Gms.Priv

abbrev Bytes := List UInt8

/-! ## SHA-1 (FIPS 180-4), for the driver only -/

def rotl (x : UInt32) (n : UInt32) : UInt32 := (x <<< n) ||| (x >>> (32 - n))

def be32 (a b c d : UInt8) : UInt32 :=
  (a.toUInt32 <<< 24) ||| (b.toUInt32 <<< 16) ||| (c.toUInt32 <<< 8) ||| d.toUInt32

def wordsOf : Bytes → List UInt32
  | a :: b :: c :: d :: r => be32 a b c d :: wordsOf r
  | _ => []

def bytesOf32 (w : UInt32) : Bytes := [(w >>> 24).toUInt8, (w >>> 16).toUInt8, (w >>> 8).toUInt8, w.toUInt8]

def bytesOf64 (n : Nat) : Bytes :=
  (List.range 8).map (fun i => UInt8.ofNat ((n >>> (8 * (7 - i))) % 256))

def sha1Pad (msg : Bytes) : Bytes :=
  let l := msg.length
  let k := (119 - (l % 64)) % 64      -- zero bytes so that l + 1 + k + 8 ≡ 0 (mod 64)
  msg ++ [0x80] ++ List.replicate k 0 ++ bytesOf64 (8 * l)

def chunks64 : Nat → Bytes → List Bytes
  | 0, _ => []
  | fuel + 1, bs => if bs.isEmpty then [] else bs.take 64 :: chunks64 fuel (bs.drop 64)

def schedule (blk : Bytes) : Array UInt32 :=
  (List.range 64).foldl (fun (w : Array UInt32) i =>
    let t := i + 16
    w.push (rotl (w[t-3]! ^^^ w[t-8]! ^^^ w[t-14]! ^^^ w[t-16]!) 1)) (wordsOf blk).toArray

structure S5 where
  a : UInt32
  b : UInt32
  c : UInt32
  d : UInt32
  e : UInt32

def sha1Block (h : S5) (blk : Bytes) : S5 :=
  let w := schedule blk
  let r := (List.range 80).foldl (fun (s : S5) t =>
    let (f, k) :=
      if t < 20 then ((s.b &&& s.c) ||| ((~~~ s.b) &&& s.d), (0x5A827999 : UInt32))
      else if t < 40 then (s.b ^^^ s.c ^^^ s.d, (0x6ED9EBA1 : UInt32))
      else if t < 60 then ((s.b &&& s.c) ||| (s.b &&& s.d) ||| (s.c &&& s.d), (0x8F1BBCDC : UInt32))
      else (s.b ^^^ s.c ^^^ s.d, (0xCA62C1D6 : UInt32))
    let tmp := rotl s.a 5 + f + s.e + k + w[t]!
    { a := tmp, b := s.a, c := rotl s.b 30, d := s.c, e := s.d }) h
  { a := h.a + r.a, b := h.b + r.b, c := h.c + r.c, d := h.d + r.d, e := h.e + r.e }

def sha1 (msg : Bytes) : Bytes :=
  let p := sha1Pad msg
  let h := (chunks64 (p.length / 64 + 1) p).foldl sha1Block
    { a := 0x67452301, b := 0xEFCDAB89, c := 0x98BADCFE, d := 0x10325476, e := 0xC3D2E1F0 }
  bytesOf32 h.a ++ bytesOf32 h.b ++ bytesOf32 h.c ++ bytesOf32 h.d ++ bytesOf32 h.e

/-! ## encoding/hex.DecodeString -/

def hexVal (c : Char) : Option UInt8 :=
  if '0' ≤ c ∧ c ≤ '9' then some (UInt8.ofNat (c.toNat - '0'.toNat))
  else if 'a' ≤ c ∧ c ≤ 'f' then some (UInt8.ofNat (c.toNat - 'a'.toNat + 10))
  else if 'A' ≤ c ∧ c ≤ 'F' then some (UInt8.ofNat (c.toNat - 'A'.toNat + 10))
  else none

/-- Go: `hex.DecodeString`: an error (here `none`) for an odd length or a non-hex character. -/
def hexDecode : List Char → Option Bytes
  | [] => some []
  | [_] => none
  | a :: b :: r =>
    match hexVal a, hexVal b, hexDecode r with
    | some x, some y, some t => some ((x * 16 + y) :: t)
    | _, _, _ => none

/-- The stored double hash: `mysqlNativePassword[0] == '*'` is stripped, the rest hex-decoded. -/
def decodeStored (stored : List Char) : Option Bytes :=
  match stored with
  | '*' :: r => hexDecode r
  | s => hexDecode s

/-! ## `validateMysqlNativePassword` -/

/-- Go: `for i := range scramble { scramble[i] ^= authResponse[i] }` — `none` when `authResponse` is shorter
than `scramble` (index out of range); bytes of `authResponse` beyond `len(scramble)` are never read. (Since the
`fix:` commit the loop is only reached with `len(authResponse) == len(scramble)`.) -/
def xorPrefix : Bytes → Bytes → Option Bytes
  | [], _ => some []
  | _ :: _, [] => none
  | s :: ss, r :: rs => (xorPrefix ss rs).map (fun t => (s ^^^ r) :: t)

/-- Bytewise XOR of two byte strings (truncating to the shorter one). -/
def xor : Bytes → Bytes → Bytes
  | s :: ss, r :: rs => (s ^^^ r) :: xor ss rs
  | _, _ => []

/-- Impl model of the code **before** the `fix:` commit (no length check between the computation of the
scramble and the XOR loop). Kept only to state the witnesses `Gms.C40.fixed_native_short_response_oob` and
`Gms.C40.fixed_native_long_response_accepted`. `none` = the Go function panics. -/
def validateNativePreFix (H : Bytes → Bytes) (resp salt : Bytes) (stored : List Char) : Option Bool :=
  if resp.isEmpty || stored.isEmpty then some false
  else
    match decodeStored stored with
    | none => some false
    | some hash =>
      match xorPrefix (H (salt ++ hash)) resp with
      | none => none
      | some stage1 => some (H stage1 == hash)

/-- Impl model (repaired code). After `scramble := crypt.Sum(nil)` and before the XOR loop:
`if len(authResponse) != len(scramble) { return false }`. `none` = the Go function panics — the loop is
transliterated as before (`xorPrefix`), that it cannot panic any more is a theorem
(`Gms.C40.native_no_crash`), not a feature of the model. -/
def validateNative (H : Bytes → Bytes) (resp salt : Bytes) (stored : List Char) : Option Bool :=
  if resp.isEmpty || stored.isEmpty then some false
  else
    match decodeStored stored with
    | none => some false
    | some hash =>
      if resp.length != (H (salt ++ hash)).length then some false
      else
        match xorPrefix (H (salt ++ hash)) resp with
        | none => none
        | some stage1 => some (H stage1 == hash)

/-- Spec: the response is a 20-byte token `t` with `H (t ⊕ H (salt ++ stored)) = stored`; anything else
(empty, short, long, undecodable stored hash) is rejected. -/
def validateNativeSpec (H : Bytes → Bytes) (resp salt : Bytes) (stored : List Char) : Bool :=
  match decodeStored stored with
  | none => false
  | some hash => !stored.isEmpty && resp.length == 20 && H (xor (H (salt ++ hash)) resp) == hash

/-- What a client that knows `h1 = H(password)` sends (vitess `ScrambleMysqlNativePassword`). -/
def clientToken (H : Bytes → Bytes) (salt h1 : Bytes) : Bytes := xor h1 (H (salt ++ H h1))

/-- Regions of the two repaired defects of the scramble check (value classes on which the pre-fix code
differed from the Spec; used by the `fixed_…` witnesses only — the driver names no region any more). -/
def shortResponse (resp : Bytes) (stored : List Char) : Bool :=
  0 < resp.length && resp.length < 20 && !stored.isEmpty && (decodeStored stored).isSome

def longResponse (resp : Bytes) : Bool := 20 < resp.length

/-! ## Accounts and the login decision -/

structure Acct where
  name : String
  host : String
  plugin : String
  auth : List Char
  locked : Bool
  deriving Repr, Inhabited, DecidableEq

inductive Out where
  | accept (user host : String)   -- the connection is accepted and runs as this identity
  | deny
  | needMore                       -- caching_sha2 fast path: continue with the full exchange
  | crash
  deriving Repr, DecidableEq, Inhabited

def keysOfAccts (accts : List Acct) : List (String × String) := accts.map (fun a => (a.name, a.host))

/-- Go: `db.GetUser(rd, user, host, false)`. -/
def chooseImpl (accts : List Acct) (user host : String) : Option Acct :=
  (getUserIdx (keysOfAccts accts) user host false).bind (fun i => accts[i]?)

/-- The credential check against the chosen account, parameterised by the scramble check. -/
def checkAcct (v : Bytes → Bytes → List Char → Option Bool) (a : Acct) (salt resp : Bytes) : Out :=
  if a.locked then .deny
  else if !a.auth.isEmpty then
    match v resp salt a.auth with
    | none => .crash
    | some true => .accept a.name a.host
    | some false => .deny
  else if !resp.isEmpty then .deny
  else .accept a.name a.host

/-- Go: `nativePasswordHashStorage.UserEntryWithHash` / `MySQLDb.ValidateHash` (accounts without
connection-security requirements). -/
def authNative (H : Bytes → Bytes) (enabled : Bool) (accts : List Acct) (user host : String) (salt resp : Bytes) : Out :=
  if !enabled then .accept user host
  else
    match chooseImpl accts user host with
    | none => .deny
    | some a => checkAcct (validateNative H) a salt resp

/-! ### the Spec's choice of account: the most specific matching host -/

/-- Does this account accept the client (same matching relation as `GetUser`)? -/
def acctMatches (user host : String) (a : Acct) : Bool :=
  a.name = user && (a.host = normHost host || hostMatches (normHost host) host a.host false)

/-- Position of the first wildcard of a host pattern (`none`: a literal host — most specific). -/
def wildPos (h : String) : Option Nat :=
  let cs := h.toList
  if cs.contains '%' then some (cs.takeWhile (· ≠ '%')).length else none

/-- `a` is at least as specific as `b`. -/
def moreSpecific (a b : String) : Bool :=
  match wildPos a, wildPos b with
  | none, _ => true
  | some _, none => false
  | some i, some j => i ≥ j

/-- The matching accounts of this name that no other matching account beats. -/
def mostSpecific (accts : List Acct) (user host : String) : List Acct :=
  let ms := accts.filter (acctMatches user host)
  ms.filter (fun a => ms.all (fun b => moreSpecific a.host b.host))

/-- Spec: named accounts before anonymous ones, the most specific host first; `none` when nothing matches;
`some none` when the rule does not single out one account (equally specific patterns). -/
def chooseSpec (accts : List Acct) (user host : String) : Option (Option Acct) :=
  match mostSpecific accts user host with
  | [a] => some (some a)
  | _ :: _ :: _ => some none
  | [] =>
    match mostSpecific accts "" host with
    | [a] => some (some a)
    | _ :: _ :: _ => some none
    | [] => none

/-- Spec of the native login: enabled accounts database assumed. `none`: not determined by the Spec. -/
def authNativeSpec (H : Bytes → Bytes) (accts : List Acct) (user host : String) (salt resp : Bytes) : Option Out :=
  match chooseSpec accts user host with
  | none => some .deny
  | some none => none
  | some (some a) => some (checkAcct (fun r s st => some (validateNativeSpec H r s st)) a salt resp)

/-- Region: the account `GetUser` picks is not the one the most-specific-host rule picks. -/
def matchOrderDiffers (accts : List Acct) (user host : String) : Bool :=
  match chooseSpec accts user host with
  | some (some a) => chooseImpl accts user host != some a
  | _ => false

/-! ## method negotiation and the caching_sha2 fast path -/

def defaultAuthMethod : String := "mysql_native_password"

/-- Go: `userValidator.HandleUser`: is auth method `method` eligible for this login? -/
def handleUser (enabled : Bool) (accts : List Acct) (method user host : String) : Bool :=
  if !enabled then true
  else
    match chooseImpl accts user host with
    | none => method = defaultAuthMethod
    | some a => a.plugin = method

/-- Go: `noopCachingStorage.UserEntryWithCacheHash`. -/
def sha2Fast (enabled : Bool) (accts : List Acct) (user host : String) (resp : Bytes) : Out :=
  if !enabled then .needMore
  else if resp.isEmpty || resp == [0] then
    match chooseImpl accts user host with
    | none => .deny
    | some a =>
      if a.locked then .deny
      else if a.auth.isEmpty then .accept user host
      else .deny
  else .needMore

end Gms.Auth
