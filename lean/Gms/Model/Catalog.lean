/-
C43 — catalog model and the information_schema / SHOW views over it (core-only).

Spec = the catalog (what exists) and each view as a function of it. Impl model = the same views
with the three places where sql/information_schema deviates:
* `columnKeyImpl`  — sql/information_schema/columns_table.go `getIndexKeyInfo` + `getRowsFromTable`:
  one map filled index by index (PRIMARY first, then by index name: memory.Table.GetIndexes), later
  indexes overwrite earlier ones, *every* column of a non-unique index gets MUL, only the first
  column of a composite UNIQUE one; then the UNI→PRI promotion for the first NOT NULL column when
  there is no primary key. `columnKeysSpec` is the rule SHOW COLUMNS implements (PRI > UNI > MUL, first
  columns only), so the two statements disagree on COLUMN_KEY whenever an index has a second column
  or a column is in two indexes.
* `privSetMissing` — `triggersRowIter` / `viewsRowIter` return no rows when the session has no
  cached privilege set, which is always the case when account management is disabled (the default
  engine): TRIGGERS and VIEWS are empty although SHOW TRIGGERS / TABLES list the objects.
* `routinesView` — `routinesRowIter` substitutes an *empty* privilege set for a missing one, so ROUTINES
  (and SHOW PROCEDURE STATUS, which is answered from it) list nothing with account management disabled.

DDL modelled (memory database semantics as observed through the engine): CREATE / DROP TABLE
(dropping a table drops its triggers), ADD COLUMN [FIRST | AFTER], DROP COLUMN (of a column no key
mentions), RENAME COLUMN (keys follow), CREATE / DROP INDEX, ADD / DROP PRIMARY KEY (key columns
become NOT NULL), CREATE / DROP VIEW, CREATE / DROP TRIGGER.

Key order: a key is a *list* of column names in declaration order, which need not be the column
order of the table (`PRIMARY KEY (b, a)`); STATISTICS / SHOW INDEX / KEY_COLUMN_USAGE number the key
columns in that order and SHOW CREATE TABLE prints them in that order. `showCreatePk` follows
sql/rowexec/show_iters.go `produceCreateTableStatement`, which goes through the *ordinals* of the key
columns in the schema (`pkSchema.PkOrdinals`, key order) and reads the names back from the schema.

Routines: stored procedures with their characteristics ([NOT] DETERMINISTIC, the four SQL data access
classes, SQL SECURITY). `routinesLoop` follows the loop of `routinesRowIter`: three variables declared
outside the loop, re-initialised at the top of every iteration, then overwritten by the characteristics
of the procedure at hand; `routineRow` is the row as a function of that one procedure alone.

DDL modelled additionally: CREATE / DROP PROCEDURE.
Not modelled (kept out of the generator): RENAME TABLE (triggers keep the old table name and every
later SHOW TRIGGERS / DROP TABLE in that database fails), DROP COLUMN of a column of a UNIQUE index
(panics), foreign keys, checks, events (these three only through the model-free per-object oracle of the
harness), functions, procedure parameters and bodies, columns of views, table names differing only in case.
-/
namespace Gms.Catalog

structure Col where
  name : String
  ty : String
  nullable : Bool
  dflt : Option String
deriving DecidableEq, Repr

structure Idx where
  name : String
  unique : Bool
  cols : List String
deriving DecidableEq, Repr

structure Tbl where
  name : String
  cols : List Col
  pk : List String
  idxs : List Idx
deriving DecidableEq, Repr

structure View where
  name : String
  text : String
deriving DecidableEq, Repr

structure Trig where
  name : String
  table : String
  timing : String
  event : String
deriving DecidableEq, Repr

/-- A routine characteristic that `routinesRowIter` looks at (plan.Characteristic_*). -/
inductive Chr | det | notDet | containsSql | noSql | readsSql | modifiesSql
deriving DecidableEq, Repr

/-- A stored procedure: its characteristics in the order written, and whether SQL SECURITY INVOKER
was stated (plan.Procedure.SecurityContext). -/
structure Proc where
  name : String
  chars : List Chr
  invoker : Bool
deriving DecidableEq, Repr

structure Cat where
  tables : List Tbl
  views : List View
  trigs : List Trig
  procs : List Proc
deriving DecidableEq, Repr

def Cat.empty : Cat := ⟨[], [], [], []⟩

def Cat.table? (c : Cat) (n : String) : Option Tbl := c.tables.find? (·.name = n)
def Cat.hasName (c : Cat) (n : String) : Bool := c.tables.any (·.name = n) || c.views.any (·.name = n)
def Tbl.hasCol (t : Tbl) (n : String) : Bool := t.cols.any (·.name = n)

inductive Pos | last | first | after (c : String)
deriving DecidableEq, Repr

inductive Ddl
  | createTable (t : Tbl)
  | dropTable (n : String)
  | addColumn (t : String) (c : Col) (pos : Pos)
  | dropColumn (t : String) (c : String)
  | renameColumn (t : String) (old new : String)
  | createIndex (t : String) (i : Idx)
  | dropIndex (t : String) (n : String)
  | addPk (t : String) (cols : List String)
  | dropPk (t : String)
  | createView (v : View)
  | dropView (n : String)
  | createTrigger (tr : Trig)
  | dropTrigger (n : String)
  | createProc (p : Proc)
  | dropProc (n : String)
deriving Repr

def nodupNames : List String → Bool
  | [] => true
  | a :: rest => !rest.contains a && nodupNames rest

def insertCol (cols : List Col) (c : Col) : Pos → Option (List Col)
  | .last => some (cols ++ [c])
  | .first => some (c :: cols)
  | .after a =>
    if cols.any (·.name = a) then
      some (cols.flatMap fun x => if x.name = a then [x, c] else [x])
    else none

def setNotNull (cols : List Col) (names : List String) : List Col :=
  cols.map fun c => if names.contains c.name then { c with nullable := false } else c

def renameIn (old new : String) (l : List String) : List String := l.map fun x => if x = old then new else x

def Tbl.mentions (t : Tbl) (c : String) : Bool := t.pk.contains c || t.idxs.any (·.cols.contains c)

def updTable (c : Cat) (n : String) (f : Tbl → Tbl) : Cat :=
  { c with tables := c.tables.map fun t => if t.name = n then f t else t }

/-- A table definition the engine accepts. -/
def tblOk (t : Tbl) : Bool :=
  !t.cols.isEmpty && nodupNames (t.cols.map (·.name)) && t.pk.all t.hasCol && nodupNames t.pk &&
  nodupNames (t.idxs.map (·.name)) &&
  t.idxs.all fun i => !i.cols.isEmpty && i.cols.all t.hasCol && nodupNames i.cols && i.name != "PRIMARY"

/-- One DDL statement: `none` = rejected (no change). -/
def apply (c : Cat) : Ddl → Option Cat
  | .createTable t =>
    if c.hasName t.name || !tblOk t then none
    else some { c with tables := c.tables ++ [{ t with cols := setNotNull t.cols t.pk }] }
  | .dropTable n =>
    if c.tables.any (·.name = n) then
      some { c with tables := c.tables.filter (·.name ≠ n), trigs := c.trigs.filter (·.table ≠ n) }
    else none
  | .addColumn tn col pos =>
    match c.table? tn with
    | some t =>
      if t.hasCol col.name then none
      else match insertCol t.cols col pos with
        | some cols => some (updTable c tn fun t => { t with cols := cols })
        | none => none
    | none => none
  | .dropColumn tn cn =>
    match c.table? tn with
    | some t =>
      if !t.hasCol cn || t.mentions cn || t.cols.length ≤ 1 then none
      else some (updTable c tn fun t => { t with cols := t.cols.filter (·.name ≠ cn) })
    | none => none
  | .renameColumn tn old new =>
    match c.table? tn with
    | some t =>
      if !t.hasCol old || t.hasCol new then none
      else some (updTable c tn fun t =>
        { t with cols := t.cols.map (fun x => if x.name = old then { x with name := new } else x),
                 pk := renameIn old new t.pk,
                 idxs := t.idxs.map fun i => { i with cols := renameIn old new i.cols } })
    | none => none
  | .createIndex tn i =>
    match c.table? tn with
    | some t =>
      if t.idxs.any (·.name = i.name) || i.name = "PRIMARY" || i.cols.isEmpty || !i.cols.all t.hasCol || !nodupNames i.cols then none
      else some (updTable c tn fun t => { t with idxs := t.idxs ++ [i] })
    | none => none
  | .dropIndex tn n =>
    match c.table? tn with
    | some t =>
      if t.idxs.any (·.name = n) then some (updTable c tn fun t => { t with idxs := t.idxs.filter (·.name ≠ n) })
      else none
    | none => none
  | .addPk tn cols =>
    match c.table? tn with
    | some t =>
      if !t.pk.isEmpty || cols.isEmpty || !cols.all t.hasCol || !nodupNames cols then none
      else some (updTable c tn fun t => { t with pk := cols, cols := setNotNull t.cols cols })
    | none => none
  | .dropPk tn =>
    match c.table? tn with
    | some t => if t.pk.isEmpty then none else some (updTable c tn fun t => { t with pk := [] })
    | none => none
  | .createView v => if c.hasName v.name then none else some { c with views := c.views ++ [v] }
  | .dropView n => if c.views.any (·.name = n) then some { c with views := c.views.filter (·.name ≠ n) } else none
  | .createTrigger tr =>
    if c.trigs.any (·.name = tr.name) || !c.tables.any (·.name = tr.table) then none
    else some { c with trigs := c.trigs ++ [tr] }
  | .dropTrigger n => if c.trigs.any (·.name = n) then some { c with trigs := c.trigs.filter (·.name ≠ n) } else none
  | .createProc p => if c.procs.any (·.name = p.name) then none else some { c with procs := c.procs ++ [p] }
  | .dropProc n => if c.procs.any (·.name = n) then some { c with procs := c.procs.filter (·.name ≠ n) } else none

/-- A history: rejected statements leave the catalog unchanged. -/
def applyAll (c : Cat) : List Ddl → Cat
  | [] => c
  | d :: rest => applyAll ((apply c d).getD c) rest

/-! ### views -/

abbrev Row := List String

def yesNo (b : Bool) : String := if b then "YES" else "NO"

/-- information_schema.TABLES (table_name, table_type) = SHOW FULL TABLES. -/
def tablesView (c : Cat) : List Row :=
  c.tables.map (fun t => [t.name, "BASE TABLE"]) ++ c.views.map (fun v => [v.name, "VIEW"])

def showTables (c : Cat) : List Row := c.tables.map (fun t => [t.name]) ++ c.views.map (fun v => [v.name])

/-- `memory.Table.GetIndexes`: PRIMARY first, then the secondary indexes by name. -/
def insertIdx (i : Idx) : List Idx → List Idx
  | [] => [i]
  | j :: rest => if i.name < j.name then i :: j :: rest else j :: insertIdx i rest

def sortIdxs (l : List Idx) : List Idx := l.foldr insertIdx []

def Tbl.allIdxs (t : Tbl) : List Idx :=
  (if t.pk.isEmpty then [] else [⟨"PRIMARY", true, t.pk⟩]) ++ sortIdxs t.idxs

/-- `getIndexKeyInfo`: the map as an association list, later entries win. -/
def keyMapImpl (t : Tbl) : List (String × String) :=
  t.allIdxs.flatMap fun i =>
    if i.name = "PRIMARY" then i.cols.map (·, "PRI")
    else if i.unique then
      (if i.cols.length > 1 then (i.cols.take 1).map (·, "MUL") else i.cols.map (·, "UNI"))
    else i.cols.map (·, "MUL")

def lookupLast (m : List (String × String)) (k : String) : Option String :=
  m.foldl (fun acc (p : String × String) => if p.1 = k then some p.2 else acc) none

/-- `getRowsFromTable`: column keys in column order, with the UNI→PRI promotion (`hasPK` is set by
the first promoted column). -/
def columnKeysImplAux (m : List (String × String)) (pk : List String) : List Col → Bool → List String
  | [], _ => []
  | col :: rest, hasPK =>
    if pk.contains col.name then "PRI" :: columnKeysImplAux m pk rest hasPK
    else match lookupLast m col.name with
      | some "UNI" =>
        if !col.nullable && !hasPK then "PRI" :: columnKeysImplAux m pk rest true
        else "UNI" :: columnKeysImplAux m pk rest hasPK
      | some k => k :: columnKeysImplAux m pk rest hasPK
      | none => "" :: columnKeysImplAux m pk rest hasPK

def columnKeysImpl (t : Tbl) : List String := columnKeysImplAux (keyMapImpl t) t.pk t.cols (!t.pk.isEmpty)

def colNullable (t : Tbl) (n : String) : Bool := (t.cols.find? (·.name = n)).any (·.nullable)

/-- sql/rowexec/show.go `buildShowColumns` + show_iters.go `isPriCol / isUnqCol / isMulCol`: the rule
SHOW COLUMNS uses, which is the documented one (PRI > UNI > MUL, decided by the *first* column of an
index; a UNIQUE NOT NULL index stands in for a missing primary key). `isPriCol` only ever looks at
the first unique index in `GetIndexes` order. This rule is taken as the Spec for COLUMN_KEY. -/
def isPriCol (t : Tbl) (c : Col) : Bool :=
  match t.allIdxs.find? (·.unique) with
  | some i => i.cols.head? = some c.name && i.cols.all fun n => !colNullable t n
  | none => false

def isUnqCol (t : Tbl) (c : Col) : Bool :=
  t.allIdxs.any fun i => i.unique && i.cols.length = 1 && i.cols.head? = some c.name

def isMulCol (t : Tbl) (c : Col) : Bool :=
  t.allIdxs.any fun i => i.cols.head? = some c.name && (!i.unique || i.cols.length > 1)

def showKey (t : Tbl) (c : Col) : String :=
  if t.pk.contains c.name then "PRI" else if isPriCol t c then "PRI"
  else if isUnqCol t c then "UNI" else if isMulCol t c then "MUL" else ""

def columnKeysSpec (t : Tbl) : List String := t.cols.map (showKey t)

/-- Rows of information_schema.COLUMNS for one table:
(table, column, ordinal, is_nullable, column_type, column_key, column_default). -/
def columnRows (keys : Tbl → List String) (t : Tbl) : List Row :=
  (t.cols.zip (keys t)).zipIdx.map fun ((col, key), i) =>
    [t.name, col.name, toString (i + 1), yesNo col.nullable, col.ty, key, col.dflt.getD "NULL"]

def columnsView (keys : Tbl → List String) (c : Cat) : List Row := c.tables.flatMap (columnRows keys)

/-- SHOW COLUMNS FROM t: (field, type, null, key, default). `quoteStr`: sql/rowexec/show.go prints
`col.Default.String()`, which keeps the quotes of a string literal (`'x'`), while
information_schema.columns (and MySQL) print the bare value. -/
def isStringTy (ty : String) : Bool := "varchar".toList.isPrefixOf ty.toList

def showDefault (quoteStr : Bool) (col : Col) : String :=
  match col.dflt with
  | none => "NULL"
  | some d => if quoteStr && isStringTy col.ty then "'" ++ d ++ "'" else d

def showColumns (quoteStr : Bool) (keys : Tbl → List String) (t : Tbl) : List Row :=
  (t.cols.zip (keys t)).map fun (col, key) => [col.name, col.ty, yesNo col.nullable, key, showDefault quoteStr col]

/-- Rows of information_schema.STATISTICS for one table:
(table, non_unique, index_name, seq_in_index, column_name, nullable). -/
def statRows (t : Tbl) : List Row :=
  t.allIdxs.flatMap fun i =>
    i.cols.zipIdx.map fun (cn, k) =>
      [t.name, if i.unique then "0" else "1", i.name, toString (k + 1), cn, if colNullable t cn then "YES" else ""]

def statisticsView (c : Cat) : List Row := c.tables.flatMap statRows

/-- SHOW INDEX FROM t, same columns. -/
def showIndex (t : Tbl) : List Row := statRows t

/-- information_schema.TABLE_CONSTRAINTS (constraint_name, table_name, constraint_type). -/
def constraintRows (t : Tbl) : List Row :=
  (t.allIdxs.filter (·.unique)).map fun i => [i.name, t.name, if i.name = "PRIMARY" then "PRIMARY KEY" else "UNIQUE"]

def tableConstraintsView (c : Cat) : List Row := c.tables.flatMap constraintRows

/-- information_schema.KEY_COLUMN_USAGE (constraint_name, table_name, column_name, ordinal_position). -/
def keyColumnRows (t : Tbl) : List Row :=
  (t.allIdxs.filter (·.unique)).flatMap fun i => i.cols.zipIdx.map fun (cn, k) => [i.name, t.name, cn, toString (k + 1)]

def keyColumnUsageView (c : Cat) : List Row := c.tables.flatMap keyColumnRows

/-- information_schema.TRIGGERS (trigger_name, event_manipulation, event_object_table, action_timing)
= the same columns of SHOW TRIGGERS. -/
def showTriggers (c : Cat) : List Row := c.trigs.map fun tr => [tr.name, tr.event, tr.table, tr.timing]

/-- information_schema.VIEWS (table_name, view_definition). -/
def viewsRows (c : Cat) : List Row := c.views.map fun v => [v.name, v.text]

/-- `privSetMissing`: the session has no cached privilege set (account management disabled). -/
def triggersView (privSetMissing : Bool) (c : Cat) : List Row := if privSetMissing then [] else showTriggers c
def viewsView (privSetMissing : Bool) (c : Cat) : List Row := if privSetMissing then [] else viewsRows c

/-! ### key order: SHOW CREATE TABLE -/

/-- `pkSchema.PkOrdinals`: the positions of the key columns in the schema, in key order. -/
def pkOrdinals (t : Tbl) : List Nat := t.pk.map fun n => (t.cols.map (·.name)).idxOf n

/-- `produceCreateTableStatement`: `for _, idx := range pkOrdinals { primaryKeyCols = append(primaryKeyCols, schema[idx].Name) }`. -/
def showCreatePk (t : Tbl) : List String := (pkOrdinals t).filterMap fun k => (t.cols[k]?).map (·.name)

/-- One key clause of SHOW CREATE TABLE: (name, unique, the column list as printed). -/
def keyLine (i : Idx) : Row := [i.name, if i.unique then "1" else "0", ",".intercalate i.cols]

/-- The key clauses of SHOW CREATE TABLE in the order printed: PRIMARY KEY (through the ordinals), then
`i.indexes` = `GetIndexes` without PRIMARY. -/
def showCreateKeys (t : Tbl) : List Row :=
  (if (showCreatePk t).isEmpty then [] else [keyLine ⟨"PRIMARY", true, showCreatePk t⟩]) ++ (sortIdxs t.idxs).map keyLine

/-- The column names of SHOW CREATE TABLE in the order printed. -/
def showCreateCols (t : Tbl) : List String := t.cols.map (·.name)

/-! ### routines -/

/-- `securityType`, `isDeterministic`, `sqlDataAccess` of `routinesRowIter` (declared outside the loops). -/
structure RVars where
  sec : String
  det : String
  acc : String
deriving DecidableEq, Repr

/-- The three assignments at the top of the loop body. -/
def resetVars (_ : RVars) : RVars := ⟨"DEFINER", "NO", "CONTAINS SQL"⟩

/-- The if / else-if chains over one characteristic. -/
def chrStep (v : RVars) : Chr → RVars
  | .det => { v with det := "YES" }
  | .notDet => { v with det := "NO" }
  | .containsSql => { v with acc := "CONTAINS SQL" }
  | .noSql => { v with acc := "NO SQL" }
  | .readsSql => { v with acc := "READS SQL DATA" }
  | .modifiesSql => { v with acc := "MODIFIES SQL DATA" }

/-- The loop over the procedures with its loop-carried variables: rows
(routine_name, is_deterministic, sql_data_access, security_type). -/
def routinesLoop : RVars → List Proc → List Row
  | _, [] => []
  | v, p :: rest =>
    let v1 := resetVars v
    let v2 := p.chars.foldl chrStep v1
    let v3 := if p.invoker then { v2 with sec := "INVOKER" } else v2
    [p.name, v3.det, v3.acc, v3.sec] :: routinesLoop v3 rest

def isDetChr : Chr → Bool
  | .det | .notDet => true
  | _ => false

/-- Spec: the *last* [NOT] DETERMINISTIC written decides; default NO. -/
def detOf (chars : List Chr) : String :=
  match (chars.filter isDetChr).getLast? with
  | some .det => "YES"
  | _ => "NO"

def isAccChr : Chr → Bool
  | .det | .notDet => false
  | _ => true

/-- Spec: the *last* data access class written decides; default CONTAINS SQL. -/
def accOf (chars : List Chr) : String :=
  match (chars.filter isAccChr).getLast? with
  | some .noSql => "NO SQL"
  | some .readsSql => "READS SQL DATA"
  | some .modifiesSql => "MODIFIES SQL DATA"
  | _ => "CONTAINS SQL"

/-- Spec: the ROUTINES row of a procedure is a function of that procedure alone. -/
def routineRow (p : Proc) : Row := [p.name, detOf p.chars, accOf p.chars, if p.invoker then "INVOKER" else "DEFINER"]

def insertProc (p : Proc) : List Proc → List Proc
  | [] => [p]
  | q :: rest => if p.name < q.name then p :: q :: rest else q :: insertProc p rest

/-- The procedures of a database are iterated sorted by name. -/
def sortProcs (l : List Proc) : List Proc := l.foldr insertProc []

/-- information_schema.ROUTINES (routine_name, is_deterministic, sql_data_access, security_type), code's
rule: the loop with carried variables; nothing without a privilege set. -/
def routinesView (privSetMissing : Bool) (c : Cat) : List Row :=
  if privSetMissing then [] else routinesLoop ⟨"", "", ""⟩ (sortProcs c.procs)

/-- Spec: one row per existing procedure, each computed from that procedure alone. -/
def routinesSpec (c : Cat) : List Row := (sortProcs c.procs).map routineRow

/-- SHOW PROCEDURE STATUS (name, security_type): answered from information_schema.ROUTINES. -/
def showProcStatus (rows : List Row) : List Row := rows.map fun r => [r.getD 0 "", r.getD 3 ""]

end Gms.Catalog
