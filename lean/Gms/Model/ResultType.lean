/-
C09 — Result values conform to the result schema (core-only model).

Part 1 — column types and cells
* `RTy`     – the column types the engine reports for the modelled statements
* `Cell`    – a returned Go value, abstracted to what validity depends on
* `valid`   – Spec: the cell is a value of the type (range / precision+scale / length); it is
              also the Impl model of "`Type.Convert` accepts the value in range and leaves it `=`"

Part 2 — nullability of result columns, over the shared query syntax (`Gms.Sql.Expr/Query`)
* `nullE`   – Impl model of `IsNullable` of the engine's expressions (sql/expression/*.go,
              function/coalesce.go, if.go, ifnull.go, plan/subquery.go …)
* `nullQ`   – Impl model of the `Nullable` flags of the schema a statement reports
              (`fixJoin = fixAgg = false`): a projection copies the flag of the base column
              (`GetField.nullable`) even above an outer join; `Sum/Min/Max.IsNullable` are `false`.
              With `fixJoin`/`fixAgg` set it is the *sound* inference the property demands.
* `badCols` – columns flagged NOT NULL that contain NULL in the reference result (`Rel.eval`)
-/
import Gms.Model.Rel

namespace Gms.ResultType
open Gms.Sql Gms.Rel

/-! ## Part 1: types and cells -/

inductive RTy where
  | int (bits : Nat) (unsigned : Bool)  -- TINYINT 8 … BIGINT 64; BOOLEAN = TINYINT(1) = int 8 false
  | decimal (p s : Nat)
  | double
  | char (n : Nat)          -- CHAR(n) / VARCHAR(n): at most n characters
  | text (maxBytes : Nat)   -- TINYTEXT … LONGTEXT: at most maxBytes bytes
  | null                    -- the type of the NULL literal
  deriving DecidableEq, Repr, Inhabited

inductive Cell where
  | null
  | int (i : Int)                 -- any Go integer kind
  | bool (b : Bool)               -- Go bool
  | dec (c : Int) (s : Nat)       -- *apd.Decimal c·10^-s
  | dbl                           -- float64 (finite)
  | str (chars bytes : Nat)       -- string with that many characters / bytes
  deriving DecidableEq, Repr, Inhabited

def intLo (bits : Nat) (unsigned : Bool) : Int := if unsigned then 0 else -((2 : Int) ^ (bits - 1))
def intHi (bits : Nat) (unsigned : Bool) : Int :=
  if unsigned then (2 : Int) ^ bits - 1 else (2 : Int) ^ (bits - 1) - 1

def inIntRange (bits : Nat) (unsigned : Bool) (i : Int) : Bool :=
  decide (intLo bits unsigned ≤ i) && decide (i ≤ intHi bits unsigned)

/-- Is the cell a value of the type? NULL is a value of every type (nullability is separate). -/
def valid : RTy → Cell → Bool
  | _, .null => true
  | .int b u, .int i => inIntRange b u i
  | .int b u, .bool v => inIntRange b u (if v then 1 else 0)
  | .int b u, .dec c s => decide (c % ((10 : Int) ^ s) = 0) && inIntRange b u (c / (10 : Int) ^ s)
  | .decimal p s, .int i => decide (i.natAbs < 10 ^ (p - s))
  | .decimal p s, .bool v => decide ((if v then 1 else 0) < 10 ^ (p - s))
  | .decimal p s, .dec c s' => decide (s' ≤ s) && decide (c.natAbs < 10 ^ (p - s + s'))
  | .double, .int _ => true
  | .double, .bool _ => true
  | .double, .dbl => true
  | .double, .dec _ _ => true   -- every finite number is a DOUBLE value (up to rounding)
  | .char n, .str chars _ => decide (chars ≤ n)
  | .text m, .str _ bytes => decide (bytes ≤ m)
  | _, _ => false

/-- Why the type rejects the cell (a value class; with the kind of expression that produced the
column it names the region of a finding). -/
def valueClass : RTy → Cell → String
  | .int b u, .int i => if u && i < 0 then "u" ++ toString b ++ "_negative" else "int_out_of_range"
  | .int b u, .dec c s =>
    if u && c < 0 then "u" ++ toString b ++ "_negative"
    else if c % ((10 : Int) ^ s) ≠ 0 then "fraction_in_integer" else "int_out_of_range"
  | .int _ _, .bool _ => "int_out_of_range"
  | .decimal _ s, .dec _ s' => if s' > s then "decimal_scale" else "decimal_precision"
  | .decimal _ _, .int _ => "decimal_precision"
  | .decimal _ _, .bool _ => "decimal_precision"
  | .char _, .str _ _ => "string_too_long"
  | .text _, .str _ _ => "string_too_long"
  | _, _ => "kind_mismatch"

/-! ## Part 2: nullability -/

abbrev Flags := List Bool   -- `true` = the column may hold NULL

def colFlag (sch : List Flags) (d i : Nat) : Bool :=
  match sch[d]? with
  | some r => r.getD i true
  | none => true

/-- Go: `IsNullable` of the expression the planbuilder makes of the term. -/
def nullE (sch : List Flags) : Expr → Bool
  | .lit v => v.isNull                                  -- Literal: lit.Val == nil
  | .col d i => colFlag sch d i                         -- GetField: p.nullable
  | .neg e => nullE sch e                               -- UnaryMinus (UnaryExpressionStub)
  | .arith _ a b => nullE sch a || nullE sch b          -- Arithmetic/Div/Mod (BinaryExpressionStub)
  | .cmp op a b => if op = .nseq then false else nullE sch a || nullE sch b
  | .and a b => nullE sch a || nullE sch b
  | .or a b => nullE sch a || nullE sch b
  | .xor a b => nullE sch a || nullE sch b
  | .not e => nullE sch e
  | .isNull _ => false
  | .isTruth _ _ => false
  | .inList _ _ => true                                 -- InTuple: true
  | .between e lo hi => nullE sch e || nullE sch lo || nullE sch hi
  | .ite _ a b => nullE sch a || nullE sch b            -- Case / If: any branch value or the ELSE
  | .coalesce a b => nullE sch a && nullE sch b         -- Coalesce / IfNull: all arguments
  | .exists _ => false
  | .inSub _ _ => true
  | .scalar _ => true                                   -- plan.Subquery: true

def aggNull (fixAgg : Bool) (noKeys : Bool) (sch : List Flags) (fn : AggFn) (arg : Expr) : Bool :=
  match fn with
  | .countStar | .count | .countDistinct => false
  | .sum | .min | .max => if fixAgg then noKeys || nullE sch arg else false

def zipAggs (fixAgg noKeys : Bool) (sch : List Flags) : List AggFn → List Expr → Flags
  | f :: fs, a :: as => aggNull fixAgg noKeys sch f a :: zipAggs fixAgg noKeys sch fs as
  | _, _ => []

def orFlags : Flags → Flags → Flags
  | a :: as, b :: bs => (a || b) :: orFlags as bs
  | _, _ => []

/-- The `Nullable` flags of the columns a query reports. `fixJoin`/`fixAgg` = false: the engine;
both true: the sound inference. `outer` = flags of the enclosing rows (correlation). -/
def nullQ (fixJoin fixAgg : Bool) (tabs : List Flags) (outer : List Flags) : Query → Flags
  | .table n => tabs.getD n []
  | .filter _ q => nullQ fixJoin fixAgg tabs outer q
  | .project es q => es.map (nullE (nullQ fixJoin fixAgg tabs outer q :: outer))
  | .join k _ l r =>
    let fl := nullQ fixJoin fixAgg tabs outer l
    let fr := nullQ fixJoin fixAgg tabs outer r
    match k with
    | .inner => fl ++ fr
    | .left => fl ++ (if fixJoin then fr.map (fun _ => true) else fr)
    | .right => (if fixJoin then fl.map (fun _ => true) else fl) ++ fr
  | .group ks fns args q =>
    let sch := nullQ fixJoin fixAgg tabs outer q :: outer
    ks.map (nullE sch) ++ zipAggs fixAgg ks.isEmpty sch fns args
  | .distinct q => nullQ fixJoin fixAgg tabs outer q
  | .setop _ _ l r => orFlags (nullQ fixJoin fixAgg tabs outer l) (nullQ fixJoin fixAgg tabs outer r)
  | .orderBy _ _ q => nullQ fixJoin fixAgg tabs outer q
  | .limit _ _ q => nullQ fixJoin fixAgg tabs outer q

/-- Columns (positions) flagged NOT NULL that hold a NULL in some row. -/
def badCols (flags : Flags) (rows : List Row) : List Nat :=
  (List.range flags.length).filter fun j =>
    flags.getD j true == false && rows.any (fun r => (r.getD j .null).isNull)

inductive Cause where
  | outerJoin   -- a column of the null-supplying side of an outer join keeps NOT NULL
  | aggregate   -- SUM/MIN/MAX reported NOT NULL
  | other
  deriving DecidableEq, Repr, Inhabited

def Cause.name : Cause → String
  | .outerJoin => "outer_join_notnull" | .aggregate => "aggregate_notnull" | .other => "-"

/-- Why a bad column is bad: which repair of the inference makes it nullable. -/
def causeOf (tabs : List Flags) (q : Query) (j : Nat) : Cause :=
  if (nullQ true false tabs [] q).getD j true then .outerJoin
  else if (nullQ false true tabs [] q).getD j true then .aggregate
  else if (nullQ true true tabs [] q).getD j true then .outerJoin
  else .other

end Gms.ResultType
