/-
Shared numeric model (core-only): SQL integer types, Go fixed-width integers as `BitVec`,
exact integers as `Int`.

C25 part — model of sql/expression/arithmetic.go (`Arithmetic.Eval`, `plus/minus/mult`,
`UnaryMinus.Eval/Type`), sql/expression/div.go (`Div`, `IntDiv`), sql/expression/mod.go (`Mod`)
on integer operands, together with the operand conversion that precedes the operator
(`convertValueToType` → `NumberTypeImpl_.Convert` → `convertToInt64/convertToUint64`) and the
rendering that follows it (`NumberTypeImpl_.SQL` of the expression's declared type).

* Spec  : `exactArith`, `exactNeg`, `exactIntDiv`, `exactMod`, `exactDiv4` on `Int`
* Impl  : `implArith`, `implNeg`, `implIntDiv`, `implMod`, `implDiv`   (wrapping, defects included)
* Region predicates (defect classes of the unchanged code) — see Gms/Props/C25.lean
-/
namespace Gms.Num

/-- The ten SQL integer column/literal types (`sqltypes.Int8 … Uint64`). -/
inductive ITy where
  | i8 | u8 | i16 | u16 | i24 | u24 | i32 | u32 | i64 | u64
  deriving DecidableEq, Repr, Inhabited

namespace ITy

def all : List ITy := [i8, u8, i16, u16, i24, u24, i32, u32, i64, u64]

def unsigned : ITy → Bool
  | u8 | u16 | u24 | u32 | u64 => true
  | _ => false

def bits : ITy → Nat
  | i8 | u8 => 8
  | i16 | u16 => 16
  | i24 | u24 => 24
  | i32 | u32 => 32
  | i64 | u64 => 64

def lo (t : ITy) : Int := if t.unsigned then 0 else -(2 ^ (t.bits - 1) : Int)
def hi (t : ITy) : Int := if t.unsigned then (2 ^ t.bits : Int) - 1 else (2 ^ (t.bits - 1) : Int) - 1

/-- `v` is a value a column / literal of type `t` can hold. -/
def InRange (t : ITy) (v : Int) : Prop := t.lo ≤ v ∧ v ≤ t.hi

instance (t : ITy) (v : Int) : Decidable (t.InRange v) := by unfold InRange; infer_instance

def name : ITy → String
  | i8 => "i8" | u8 => "u8" | i16 => "i16" | u16 => "u16" | i24 => "i24" | u24 => "u24"
  | i32 => "i32" | u32 => "u32" | i64 => "i64" | u64 => "u64"

def ofName? (s : String) : Option ITy := all.find? (fun t => t.name == s)

/-- `NumberTypeImpl_.String()` of the type. -/
def sqlName : ITy → String
  | i8 => "tinyint" | u8 => "tinyint unsigned" | i16 => "smallint" | u16 => "smallint unsigned"
  | i24 => "mediumint" | u24 => "mediumint unsigned" | i32 => "int" | u32 => "int unsigned"
  | i64 => "bigint" | u64 => "bigint unsigned"

/-- The Go type of a value of this SQL type (`NumberTypeImpl_.ValueType`). -/
def goName : ITy → String
  | i8 => "int8" | u8 => "uint8" | i16 => "int16" | u16 => "uint16" | i24 => "int32" | u24 => "uint32"
  | i32 => "int32" | u32 => "uint32" | i64 => "int64" | u64 => "uint64"

end ITy

def minI64 : Int := -(2 ^ 63)
def maxI64 : Int := 2 ^ 63 - 1
def maxU64 : Int := 2 ^ 64 - 1

def inI64 (v : Int) : Prop := minI64 ≤ v ∧ v ≤ maxI64
def inU64 (v : Int) : Prop := 0 ≤ v ∧ v ≤ maxU64
instance (v : Int) : Decidable (inI64 v) := by unfold inI64; infer_instance
instance (v : Int) : Decidable (inU64 v) := by unfold inU64; infer_instance

/-- planbuilder `convertInt`: the type given to an integer literal (`none`: it becomes a decimal). -/
def litTy (v : Int) : Option ITy :=
  if v < minI64 then none
  else if v < -(2 ^ 31) then some .i64
  else if v < -(2 ^ 15) then some .i32
  else if v < -(2 ^ 7) then some .i16
  else if v < 2 ^ 7 then some .i8
  else if v < 2 ^ 8 then some .u8
  else if v < 2 ^ 15 then some .i16
  else if v < 2 ^ 16 then some .u16
  else if v < 2 ^ 31 then some .i32
  else if v < 2 ^ 32 then some .u32
  else if v ≤ maxI64 then some .i64
  else if v ≤ maxU64 then some .u64
  else none

/-! ## What a client observes -/

/-- Canonical observation of one result cell. `dec c s` is the fixed-point text of `c / 10^s`
(negative zero is printed as zero by the harness and the driver alike). -/
inductive Obs where
  | int (v : Int)
  | dec (coeff : Int) (scale : Nat)
  | null
  | errRange
  | errOther          -- any other error (`err:1105`)
  deriving DecidableEq, Repr, Inhabited

/-- The property's acceptance relation: the exact value, or an out-of-range error when the exact
value does not fit the declared result range `resOk` or the signed 64-bit range. -/
def acceptable (resOk : Int → Bool) (impl exact : Obs) : Prop :=
  impl = exact ∨ (impl = .errRange ∧ ∃ v, exact = .int v ∧ ¬ (inI64 v ∧ resOk v = true))

instance (resOk : Int → Bool) (impl exact : Obs) : Decidable (acceptable resOk impl exact) := by
  unfold acceptable
  cases exact with
  | int v =>
    by_cases h : (inI64 v ∧ resOk v = true)
    · exact decidable_of_iff (impl = .int v) (by
        constructor
        · intro e; exact Or.inl e
        · rintro (e | ⟨_, w, hw, hn⟩)
          · exact e
          · cases hw; exact absurd h hn)
    · exact decidable_of_iff (impl = .int v ∨ impl = .errRange) (by
        constructor
        · rintro (e | e)
          · exact Or.inl e
          · exact Or.inr ⟨e, v, rfl, h⟩
        · rintro (e | ⟨e, _⟩)
          · exact Or.inl e
          · exact Or.inr e)
  | dec c s => exact decidable_of_iff (impl = .dec c s) (by
      constructor
      · intro e; exact Or.inl e
      · rintro (e | ⟨_, w, hw, _⟩)
        · exact e
        · cases hw)
  | null => exact decidable_of_iff (impl = .null) (by
      constructor
      · intro e; exact Or.inl e
      · rintro (e | ⟨_, w, hw, _⟩)
        · exact e
        · cases hw)
  | errRange => exact decidable_of_iff (impl = .errRange) (by
      constructor
      · intro e; exact Or.inl e
      · rintro (e | ⟨_, w, hw, _⟩)
        · exact e
        · cases hw)
  | errOther => exact decidable_of_iff (impl = .errOther) (by
      constructor
      · intro e; exact Or.inl e
      · rintro (e | ⟨_, w, hw, _⟩)
        · exact e
        · cases hw)

/-! ## Operand conversion (`convertValueToType` with the expression's type) -/

/-- Go `convertToInt64` on a value of integer type `t`: a `uint64` above `MaxInt64` is clamped to
`MaxInt64` (the `Overflow` flag it returns is dropped by `convertValueToType`). -/
def toI64 (t : ITy) (v : Int) : BitVec 64 :=
  if t = .u64 ∧ v > maxI64 then BitVec.ofInt 64 maxI64 else BitVec.ofInt 64 v

/-- Go `convertToUint64` on a value of integer type `t`: negative signed values wrap
(`MaxUint64 - uint(-v-1)`), i.e. two's complement. -/
def toU64 (v : Int) : BitVec 64 := BitVec.ofInt 64 v

/-! ## `+ - *` (`Arithmetic`) -/

inductive AOp where
  | add | sub | mul
  deriving DecidableEq, Repr, Inhabited

/-- Go's native operator on 64-bit operands (both `int64` and `uint64` wrap the same way). -/
def AOp.bv : AOp → BitVec 64 → BitVec 64 → BitVec 64
  | .add, x, y => x + y
  | .sub, x, y => x - y
  | .mul, x, y => x * y

def AOp.exact : AOp → Int → Int → Int
  | .add, x, y => x + y
  | .sub, x, y => x - y
  | .mul, x, y => x * y

/-- `Arithmetic.getReturnType` on two integer types: `Uint64` iff both are unsigned. -/
def arithUnsigned (lt rt : ITy) : Bool := lt.unsigned && rt.unsigned

/-- Range of the declared result type of `+ - *`. -/
def arithResOk (lt rt : ITy) (v : Int) : Bool :=
  if arithUnsigned lt rt then decide (inU64 v) else decide (inI64 v)

/-- `Arithmetic.Eval` on two non-NULL integer operands, as rendered to the client. -/
def implArith (op : AOp) (lt : ITy) (lv : Int) (rt : ITy) (rv : Int) : Obs :=
  if arithUnsigned lt rt then .int (op.bv (toU64 lv) (toU64 rv)).toNat
  else .int (op.bv (toI64 lt lv) (toI64 rt rv)).toInt

def exactArith (op : AOp) (lv rv : Int) : Obs := .int (op.exact lv rv)

/-! ## unary minus (`UnaryMinus.Eval` + `UnaryMinus.Type` + rendering) -/

/-- Two's-complement reinterpretation of `v` in `n` bits, as a signed number. -/
def wrapS (n : Nat) (v : Int) : Int := (BitVec.ofInt n v).toInt

/-- `convertToUint64` of a signed Go integer followed by the `SQLUintN` clamp at `cap`. -/
def renderUnsigned (cap : Int) (x : Int) : Int :=
  let u := if x < 0 then x + 2 ^ 64 else x
  if u > cap then cap else u

/-- `-child` where the child is a column of type `t` holding `v`. -/
def implNeg (t : ITy) (v : Int) : Obs :=
  match t with
  | .i8 | .i16 | .i32 => .int (-v)                       -- `-int64(n)`, declared BIGINT
  | .i24 => .int (max (-(2 ^ 23)) (min (2 ^ 23 - 1) (-v)))   -- `-int64(n)`, declared MEDIUMINT: `SQLInt24` clamps
  | .i64 => if v = minI64 then .errRange else .int (-v)
  | .u8 => .int (renderUnsigned (2 ^ 8 - 1) (wrapS 8 (-(wrapS 8 v))))       -- `-int8(n)`, declared TINYINT UNSIGNED
  | .u16 => .int (renderUnsigned (2 ^ 16 - 1) (wrapS 16 (-(wrapS 16 v))))   -- `-int16(n)`, declared SMALLINT UNSIGNED
  | .u24 => .int (renderUnsigned (2 ^ 24) (wrapS 32 (-(wrapS 32 v))))       -- `-int32(n)`, declared MEDIUMINT UNSIGNED (clamp at 1<<24)
  | .u32 => .int (wrapS 32 (-(wrapS 32 v)))                                  -- `-int32(n)`, declared INT
  | .u64 => .int (wrapS 64 (-(wrapS 64 v)))                                  -- `-int64(n)`, declared BIGINT

def exactNeg (v : Int) : Obs := .int (-v)

/-- Declared result type of `-child` is signed 64-bit wide enough for every exact result except
`-MinInt64`; the acceptance range used for the error case. -/
def negResOk (v : Int) : Bool := decide (inI64 v)

/-! ## `DIV` (`IntDiv`) -/

/-- `IntDiv.Type`: `Uint64` if either side is unsigned. -/
def intDivUnsigned (lt rt : ITy) : Bool := lt.unsigned || rt.unsigned

def intDivResOk (lt rt : ITy) (v : Int) : Bool :=
  if intDivUnsigned lt rt then decide (inU64 v) else decide (inI64 v)

/-- `IntDiv.Eval`: both unsigned ⇒ `uint64 / uint64`; both signed ⇒ `int64 / int64` (Go: `MinInt64 / -1`
wraps); mixed ⇒ decimal division truncated to an `int64` (error when it does not fit), rendered
through the declared `Uint64` type (negative quotients wrap). -/
def implIntDiv (lt : ITy) (lv : Int) (rt : ITy) (rv : Int) : Obs :=
  if lt.unsigned && rt.unsigned then
    if toU64 rv = 0 then .null else .int ((toU64 lv) / (toU64 rv)).toNat
  else if !lt.unsigned && !rt.unsigned then
    if toI64 rt rv = 0 then .null else .int ((toI64 lt lv).sdiv (toI64 rt rv)).toInt
  else
    if rv = 0 then .null
    else
      let q := Int.tdiv lv rv
      if q < minI64 ∨ q > maxI64 then .errRange
      else .int (if q < 0 then q + 2 ^ 64 else q)

def exactIntDiv (lv rv : Int) : Obs := if rv = 0 then .null else .int (Int.tdiv lv rv)

/-! ## `%` (`Mod`) — always evaluated on decimals (`apd.Rem`, a parameter: exact remainder) -/

def implMod (lv rv : Int) : Obs := if rv = 0 then .null else .dec (Int.tmod lv rv) 0
def exactMod (lv rv : Int) : Obs := if rv = 0 then .null else .dec (Int.tmod lv rv) 0

/-! ## `/` (`Div`) on integers -/

def divPrecInc : Nat := 4
def divIntPrecInc : Nat := 9

/-- Internal scale of `Div.div` for operand scales `ls`, `rs`. -/
def divInternalScale (ls rs : Nat) : Nat :=
  let inc := (ls + rs + divPrecInc + divIntPrecInc - 1) / divIntPrecInc
  let inc := if ls ≠ 0 ∧ rs ≠ 0 then
      max inc ((ls + divIntPrecInc - 1) / divIntPrecInc + (rs + divIntPrecInc - 1) / divIntPrecInc)
    else inc
  inc * divIntPrecInc

/-- sign of a quotient -/
def quoNeg (a b : Int) : Bool := (a < 0) != (b < 0)

def signed (neg : Bool) (m : Nat) : Int := if neg then -(m : Int) else (m : Int)

/-- `Div.Eval` on two integers: quotient truncated at the internal scale (9), then rounded
half away from zero to `divPrecInc` (4) places (`DecimalDiv(…, truncate)` then `DecimalRound`). -/
def implDiv (lv rv : Int) : Obs :=
  if rv = 0 then .null
  else
    let s := divInternalScale 0 0
    let t := lv.natAbs * 10 ^ s / rv.natAbs
    let r := (t + 5 * 10 ^ (s - divPrecInc - 1)) / 10 ^ (s - divPrecInc)
    .dec (signed (quoNeg lv rv) r) divPrecInc

/-- Spec: the exact quotient rounded half away from zero to 4 places. -/
def exactDiv4 (lv rv : Int) : Obs :=
  if rv = 0 then .null
  else .dec (signed (quoNeg lv rv) ((2 * lv.natAbs * 10 ^ 4 + rv.natAbs) / (2 * rv.natAbs))) 4


/-! ## Declared result types (`Type()` of the expression nodes) -/

inductive BOp where
  | add | sub | mul | idiv | mod | div
  deriving DecidableEq, Repr, Inhabited

/-- The declared SQL type of a result, as far as rendering depends on it. -/
inductive ResTy where
  | i64 | u64 | u8 | u16 | u24 | i24 | i32
  | dec (scale : Nat)
  | other
  deriving DecidableEq, Repr, Inhabited

/-- `Arithmetic.getReturnType` / `IntDiv.Type` / `Mod.Type` / `Div.Type` on two integer columns. -/
def binResTy : BOp → ITy → ITy → ResTy
  | .add, lt, rt | .sub, lt, rt | .mul, lt, rt => if arithUnsigned lt rt then .u64 else .i64
  | .idiv, lt, rt => if intDivUnsigned lt rt then .u64 else .i64
  | .mod, _, _ => .dec 0
  | .div, _, _ => .dec divPrecInc

/-- `UnaryMinus.Type` on an integer column. -/
def negResTy : ITy → ResTy
  | .i8 | .i16 | .i32 | .i64 => .i64
  | .i24 => .i24
  | .u8 => .u8
  | .u16 => .u16
  | .u24 => .u24
  | .u32 => .i32
  | .u64 => .i64


/-! ## Regions: defect classes of the unchanged code, decided on the case

Each is a value/feature class; `Gms/Props/C25.lean` proves that outside them the Impl model is
acceptable, and that each contains a concrete failing point. -/

/-- `+ - *`: the exact result leaves the range of the declared result type (BIGINT, or BIGINT
UNSIGNED when both operands are unsigned): Go's 64-bit operator wraps silently. -/
def bigint_overflow_wraps (op : AOp) (lt : ITy) (lv : Int) (rt : ITy) (rv : Int) : Prop :=
  arithResOk lt rt (op.exact lv rv) = false

/-- `+ - *` with operands of mixed signedness where the BIGINT UNSIGNED operand exceeds
`MaxInt64`: it is clamped to `MaxInt64` by the conversion to the BIGINT result type. -/
def unsigned_operand_clamped (lt : ITy) (lv : Int) (rt : ITy) (rv : Int) : Prop :=
  arithUnsigned lt rt = false ∧ ((lt = .u64 ∧ lv > maxI64) ∨ (rt = .u64 ∧ rv > maxI64))

/-- `MinInt64 DIV -1` on two signed operands wraps to `MinInt64`. -/
def intdiv_minint_by_minus1 (lt : ITy) (lv : Int) (rt : ITy) (rv : Int) : Prop :=
  lt.unsigned = false ∧ rt.unsigned = false ∧ lv = minI64 ∧ rv = -1

/-- `DIV` with operands of mixed signedness and a negative quotient: the `int64` quotient is
rendered through the declared BIGINT UNSIGNED type and wraps to `2^64 + q`. -/
def intdiv_mixed_negative_as_unsigned (lt : ITy) (lv : Int) (rt : ITy) (rv : Int) : Prop :=
  lt.unsigned ≠ rt.unsigned ∧ rv ≠ 0 ∧ Int.tdiv lv rv < 0 ∧ minI64 ≤ Int.tdiv lv rv

/-- unary minus on an unsigned column: `-int8(n)`, `-int16(n)` (rendered as unsigned: every
non-zero value), `-int32(n)` on MEDIUMINT UNSIGNED (rendered as unsigned), on INT UNSIGNED above
`2^31` and `-int64(n)` on BIGINT UNSIGNED above `2^63` wrap. -/
def neg_unsigned_wraps (t : ITy) (v : Int) : Prop :=
  match t with
  | .u8 | .u16 | .u24 => v ≠ 0
  | .u32 => v > 2 ^ 31
  | .u64 => v > 2 ^ 63
  | _ => False

/-- unary minus on MEDIUMINT `-8388608`: the exact `8388608` is clamped to `8388607` by the
declared MEDIUMINT result type. -/
def neg_mediumint_min_clamped (t : ITy) (v : Int) : Prop := t = .i24 ∧ v = -(2 ^ 23)

instance (op lt lv rt rv) : Decidable (bigint_overflow_wraps op lt lv rt rv) := by
  unfold bigint_overflow_wraps; infer_instance
instance (lt lv rt rv) : Decidable (unsigned_operand_clamped lt lv rt rv) := by
  unfold unsigned_operand_clamped; infer_instance
instance (lt lv rt rv) : Decidable (intdiv_minint_by_minus1 lt lv rt rv) := by
  unfold intdiv_minint_by_minus1; infer_instance
instance (lt lv rt rv) : Decidable (intdiv_mixed_negative_as_unsigned lt lv rt rv) := by
  unfold intdiv_mixed_negative_as_unsigned; infer_instance
instance (t v) : Decidable (neg_unsigned_wraps t v) := by
  unfold neg_unsigned_wraps; cases t <;> infer_instance
instance (t v) : Decidable (neg_mediumint_min_clamped t v) := by
  unfold neg_mediumint_min_clamped; infer_instance


/-! ## Decimal operands (`*apd.Decimal`: coefficient and scale; `apd` arithmetic is a parameter of
the model and is taken as exact — `DecimalCtx` has precision 0 for `Add/Sub/Mul`)

Whenever one operand is a DECIMAL, `Arithmetic`, `IntDiv`, `Mod` and `Div` convert both operands with
`convertToDecimalValue` (exact for integers, no clamping) and work on decimals. -/

structure Dec where
  coeff : Int
  scale : Nat
  deriving DecidableEq, Repr, Inhabited

def Dec.ofInt (v : Int) : Dec := { coeff := v, scale := 0 }

/-- coefficient of `a` re-expressed at scale `s ≥ a.scale` -/
def Dec.at (a : Dec) (s : Nat) : Int := a.coeff * 10 ^ (s - a.scale)

/-- `apd` `Add/Sub/Mul`: exponent `min` (scale `max`) for `+ -`, sum of the scales for `*`. -/
def implDecArith (op : AOp) (a b : Dec) : Obs :=
  match op with
  | .add => let s := max a.scale b.scale; .dec (a.at s + b.at s) s
  | .sub => let s := max a.scale b.scale; .dec (a.at s - b.at s) s
  | .mul => .dec (a.coeff * b.coeff) (a.scale + b.scale)

/-- `apd.NumDigits` of a coefficient (`0` has one digit). -/
def numDigits (n : Nat) : Nat := if n < 10 then 1 else numDigits (n / 10) + 1
decreasing_by omega

/-- `Mod` on decimals: `DecimalMod` calls `apd.Rem` with precision = the larger digit count of the two
coefficients; `Rem` fails (`DivisionImpossible`) when the integer quotient has more digits than that. -/
def implDecMod (a b : Dec) : Obs :=
  if b.coeff = 0 then .null
  else
    let s := max a.scale b.scale
    let q := (a.at s).natAbs / (b.at s).natAbs
    if numDigits q > max (numDigits a.coeff.natAbs) (numDigits b.coeff.natAbs) then .errOther
    else .dec (Int.tmod (a.at s) (b.at s)) s

/-- Spec: remainder of the truncating division at the common scale. -/
def exactDecMod (a b : Dec) : Obs :=
  if b.coeff = 0 then .null
  else let s := max a.scale b.scale; .dec (Int.tmod (a.at s) (b.at s)) s

/-- `%` with a DECIMAL operand whose integer quotient has more digits than both coefficients:
`apd.Rem` reports "division impossible" and the statement fails. -/
def mod_quotient_exceeds_precision (a b : Dec) : Prop :=
  b.coeff ≠ 0 ∧
    numDigits ((a.at (max a.scale b.scale)).natAbs / (b.at (max a.scale b.scale)).natAbs)
      > max (numDigits a.coeff.natAbs) (numDigits b.coeff.natAbs)

instance (a b) : Decidable (mod_quotient_exceeds_precision a b) := by
  unfold mod_quotient_exceeds_precision; infer_instance

/-- `IntDiv` on decimals: `DecimalDiv(l, r, 0, truncate)` then `Int64()`; the declared type is
`Uint64` when an integer operand is unsigned (`resUnsigned`), and the `int64` is rendered through it. -/
def implDecIntDiv (resUnsigned : Bool) (a b : Dec) : Obs :=
  if b.coeff = 0 then .null
  else
    let s := max a.scale b.scale
    let q := Int.tdiv (a.at s) (b.at s)
    if q < minI64 ∨ q > maxI64 then .errRange
    else .int (if resUnsigned ∧ q < 0 then q + 2 ^ 64 else q)

def exactDecIntDiv (a b : Dec) : Obs :=
  if b.coeff = 0 then .null else let s := max a.scale b.scale; .int (Int.tdiv (a.at s) (b.at s))

def decIntDivResOk (resUnsigned : Bool) (v : Int) : Bool :=
  if resUnsigned then decide (inU64 v) else decide (inI64 v)

/-- final scale of an outermost `/`: left scale + `div_precision_increment`, capped at 30 -/
def divFinalScale (ls : Nat) : Nat := min 30 (ls + divPrecInc)

/-- `Div.Eval` on decimals: quotient truncated at the internal scale `S`, then `DecimalRound`
(half away from zero) to the final scale `f` — which does nothing when `S = f`. -/
def implDecDiv (a b : Dec) : Obs :=
  if b.coeff = 0 then .null
  else
    let S := divInternalScale a.scale b.scale
    let f := divFinalScale a.scale
    -- |a| / |b| * 10^S = |ca| * 10^(S + sb) / (|cb| * 10^sa)
    let t := a.coeff.natAbs * 10 ^ (S + b.scale) / (b.coeff.natAbs * 10 ^ a.scale)
    let r := if S ≤ f then t * 10 ^ (f - S) else (t + 5 * 10 ^ (S - f - 1)) / 10 ^ (S - f)
    .dec (signed (quoNeg a.coeff b.coeff) r) f

/-- Spec: the exact quotient rounded half away from zero to the final scale. -/
def exactDecDiv (a b : Dec) : Obs :=
  if b.coeff = 0 then .null
  else
    let f := divFinalScale a.scale
    let n := a.coeff.natAbs * 10 ^ (f + b.scale)
    let d := b.coeff.natAbs * 10 ^ a.scale
    .dec (signed (quoNeg a.coeff b.coeff) ((2 * n + d) / (2 * d))) f

/-- `/` whose internal scale equals the final scale (`rs = 0` and `ls + 4` a multiple of 9, i.e.
left scale 5, 14 or 23): the truncated quotient is returned without rounding. -/
def div_internal_scale_not_above_final (a b : Dec) : Prop :=
  divInternalScale a.scale b.scale ≤ divFinalScale a.scale

/-- `DIV` declared BIGINT UNSIGNED (an integer operand is unsigned) with a negative quotient. -/
def intdiv_dec_negative_as_unsigned (resUnsigned : Bool) (a b : Dec) : Prop :=
  resUnsigned = true ∧ b.coeff ≠ 0 ∧
    Int.tdiv (a.at (max a.scale b.scale)) (b.at (max a.scale b.scale)) < 0 ∧
    minI64 ≤ Int.tdiv (a.at (max a.scale b.scale)) (b.at (max a.scale b.scale))

instance (a b) : Decidable (div_internal_scale_not_above_final a b) := by
  unfold div_internal_scale_not_above_final; infer_instance
instance (u a b) : Decidable (intdiv_dec_negative_as_unsigned u a b) := by
  unfold intdiv_dec_negative_as_unsigned; infer_instance

end Gms.Num
