/-
C22 — model of the CREATE TABLE text printed by SHOW CREATE TABLE (core-only).

Go sources transliterated here:

* `sql/parser.go`               `MySqlSchemaFormatter`: `QuoteIdentifier`, `GenerateCreateTableColumnDefinition`,
  `GenerateCreateTablePrimaryKeyDefinition`, `GenerateCreateTableIndexDefinition` (the index
  comment goes through `EscapeSpecialCharactersInComment` like every other comment since the
  `fix:` commit; the pre-fix printer, which put it between quotes as it was, is kept as
  `showKeyPreFix` / `showTablePreFix` for the witness theorem only), `GenerateCreateTableStatement`,
  `EscapeSpecialCharactersInComment` (six consecutive `strings.ReplaceAll`)
* `sql/rowexec/show_iters.go`   `produceCreateTableStatement` (order of the parts), `convertColumnDefaultToString`

* `sql/types/strings.go`        `StringType.StringWithTableCollation` (the `CHARACTER SET` / `COLLATE` clauses of a
  char / varchar / text column, printed relative to the table collation) — `collSpecOf` / `collClause`;
  the table options `DEFAULT CHARSET=… COLLATE=…` print the table collation itself

and the readers a statement parser applies to that text (reference readers for exactly the printer's
image): a back-quoted identifier, a single-quoted string literal, and the resolution of a column's
(character set, collation) from its optional clauses and the enclosing default (`resolveColl`:
COLLATE wins and must belong to the CHARACTER SET when both are given; CHARACTER SET alone means that
character set's default collation; neither means the table's collation — `lexCollClause` reads the
clause text back into the optional names).
-/
namespace Gms.ShowCreate

abbrev Str := List Char

-- ---------------------------------------------------------------------------------------------
-- Identifiers

/-- Go: ``fmt.Sprintf("`%s`", strings.ReplaceAll(id, "`", "``"))``. -/
def quoteIdent (s : Str) : Str :=
  '`' :: (s.flatMap fun c => if c = '`' then ['`', '`'] else [c]) ++ ['`']

/-- Reference reader: the body of a back-quoted identifier (`acc` is reversed). -/
def lexIdentBody : Str → Str → Option (Str × Str)
  | '`' :: '`' :: rest, acc => lexIdentBody rest ('`' :: acc)
  | '`' :: rest, acc => some (acc.reverse, rest)
  | c :: rest, acc => lexIdentBody rest (c :: acc)
  | [], _ => none

def lexIdent : Str → Option (Str × Str)
  | '`' :: rest => lexIdentBody rest []
  | _ => none

-- ---------------------------------------------------------------------------------------------
-- String literals and comments

def replaceChar (c : Char) (by_ : Str) (s : Str) : Str := s.flatMap fun x => if x = c then by_ else [x]

/-- Go `EscapeSpecialCharactersInComment`: six `strings.ReplaceAll` in this order. -/
def escapeSeq (s : Str) : Str :=
  replaceChar (Char.ofNat 0) ['\\', '0']
    (replaceChar '\r' ['\\', 'r']
      (replaceChar '\n' ['\\', 'n']
        (replaceChar '"' ['\\', '"']
          (replaceChar '\\' ['\\', '\\']
            (replaceChar '\'' ['\'', '\''] s)))))

/-- The same as one character map. -/
def escapeChar (c : Char) : Str :=
  if c = '\'' then ['\'', '\''] else
  if c = '\\' then ['\\', '\\'] else
  if c = '"' then ['\\', '"'] else
  if c = '\n' then ['\\', 'n'] else
  if c = '\r' then ['\\', 'r'] else
  if c = Char.ofNat 0 then ['\\', '0'] else [c]

def escape (s : Str) : Str := s.flatMap escapeChar

def unescapeChar (c : Char) : Char :=
  if c = 'n' then '\n' else if c = 'r' then '\r' else if c = '0' then Char.ofNat 0 else
  if c = 't' then '\t' else if c = 'b' then Char.ofNat 8 else if c = 'Z' then Char.ofNat 26 else c

/-- Reference reader: the body of a single-quoted MySQL string literal (`''` and backslash escapes). -/
def lexStrBody : Str → Str → Option (Str × Str)
  | '\'' :: '\'' :: rest, acc => lexStrBody rest ('\'' :: acc)
  | '\'' :: rest, acc => some (acc.reverse, rest)
  | '\\' :: c :: rest, acc => lexStrBody rest (unescapeChar c :: acc)
  | '\\' :: [], _ => none
  | c :: rest, acc => lexStrBody rest (c :: acc)
  | [], _ => none

def lexStr : Str → Option (Str × Str)
  | '\'' :: rest => lexStrBody rest []
  | _ => none

/-- Characters a literal printed *without* escaping does not survive (the pre-fix index comments). -/
def rawSafe (s : Str) : Bool := s.all fun c => c != '\'' && c != '\\'

-- ---------------------------------------------------------------------------------------------
-- Character sets and collations

/-- A collation: its name, the name of its character set, and whether it is that character set's
default collation. (Go: `sql.CollationID` with `.Name()`, `.CharacterSet().String()`,
`.CharacterSet().DefaultCollation()`.) -/
structure Coll where
  name : Str
  cs : Str
  isDflt : Bool
  deriving DecidableEq, Repr, Inhabited

/-- The collations of the envelope (a regenerated fact compares this table with what the compiled
code says about each name: `Gms.C22.coll_table_match`). -/
def collTable : List Coll := [
  ⟨"utf8mb4_0900_ai_ci".toList, "utf8mb4".toList, true⟩,
  ⟨"utf8mb4_0900_bin".toList, "utf8mb4".toList, false⟩,
  ⟨"utf8mb4_general_ci".toList, "utf8mb4".toList, false⟩,
  ⟨"utf8mb4_bin".toList, "utf8mb4".toList, false⟩,
  ⟨"utf8mb4_unicode_ci".toList, "utf8mb4".toList, false⟩,
  ⟨"latin1_swedish_ci".toList, "latin1".toList, true⟩,
  ⟨"latin1_bin".toList, "latin1".toList, false⟩,
  ⟨"latin1_general_ci".toList, "latin1".toList, false⟩,
  ⟨"latin1_general_cs".toList, "latin1".toList, false⟩,
  ⟨"ascii_general_ci".toList, "ascii".toList, true⟩,
  ⟨"ascii_bin".toList, "ascii".toList, false⟩,
  ⟨"utf8mb3_general_ci".toList, "utf8mb3".toList, true⟩,
  ⟨"utf8mb3_bin".toList, "utf8mb3".toList, false⟩,
  ⟨"utf8mb3_unicode_ci".toList, "utf8mb3".toList, false⟩,
  ⟨"utf16_general_ci".toList, "utf16".toList, true⟩,
  ⟨"utf16_bin".toList, "utf16".toList, false⟩]

/-- The engine's default table collation (`sql.Collation_Default`). -/
def engineColl : Coll := ⟨"utf8mb4_0900_bin".toList, "utf8mb4".toList, false⟩

def findColl (env : List Coll) (n : Str) : Option Coll := env.find? fun c => c.name = n

def dfltColl (env : List Coll) (cs : Str) : Option Coll := env.find? fun c => c.cs = cs && c.isDflt

/-- What a column definition (or the table options) says about its collation: an optional
`CHARACTER SET` name and an optional `COLLATE` name. -/
structure CollSpec where
  cs : Option Str
  coll : Option Str
  deriving DecidableEq, Repr, Inhabited

/-- Reference reader (what CREATE TABLE does with the clauses): COLLATE wins and must belong to the
CHARACTER SET when both are given (otherwise the statement is rejected: `none`); CHARACTER SET
alone means the default collation of that character set; neither means the enclosing default
(`dflt`: the table collation for a column, the engine default for the table options). -/
def resolveColl (env : List Coll) (dflt : Coll) (s : CollSpec) : Option Coll :=
  match s.coll, s.cs with
  | some n, none => findColl env n
  | some n, some cs => match findColl env n with
    | some c => if c.cs = cs then some c else none
    | none => none
  | none, some cs => dfltColl env cs
  | none, none => some dflt

/-- Go `StringWithTableCollation`, which clauses are printed for a column of collation `c` in a
table of collation `t`:
`if t.CharacterSet() != tableCollation.CharacterSet() { " CHARACTER SET " … }`
`if t.collation != tableCollation { " COLLATE " … }`. -/
def collSpecOf (t c : Coll) : CollSpec :=
  { cs := if c.cs ≠ t.cs then some c.cs else none
    coll := if c.name ≠ t.name then some c.name else none }

def specText (s : CollSpec) : Str :=
  (match s.cs with | some n => " CHARACTER SET ".toList ++ n | none => []) ++
  (match s.coll with | some n => " COLLATE ".toList ++ n | none => [])

/-- The text `StringWithTableCollation` appends to the type. -/
def collClause (t c : Coll) : Str := specText (collSpecOf t c)

/-- A printer that also drops `COLLATE` when the collation is its character set's default, without
printing `CHARACTER SET` in exchange (NOT the Go code: kept to state `collate_clause_needed`, the
reason the Go condition may not be weakened that way). -/
def collSpecElideDflt (t c : Coll) : CollSpec :=
  { cs := if c.cs ≠ t.cs then some c.cs else none
    coll := if c.name ≠ t.name && !c.isDflt then some c.name else none }

/-- What MySQL itself prints: `CHARACTER SET` whenever the column collation is not the table's, and
`COLLATE` unless it is the character set's default (NOT the Go code: kept to state
`mysql_clause_round_trip`, the sound way of dropping the default collation). -/
def collSpecMysql (t c : Coll) : CollSpec :=
  if c.name = t.name then { cs := none, coll := none }
  else { cs := some c.cs, coll := if c.isDflt then none else some c.name }

/-- Characters of a character set / collation name. -/
def isWordChar (c : Char) : Bool := c.isAlphanum || c = '_'

def spanWord : Str → Str × Str
  | [] => ([], [])
  | c :: rest => if isWordChar c then let (w, r) := spanWord rest; (c :: w, r) else ([], c :: rest)

/-- `dropPrefix p s` = the rest of `s` after the prefix `p`, if `s` starts with it. -/
def dropPrefix : Str → Str → Option Str
  | [], s => some s
  | _ :: _, [] => none
  | p :: ps, c :: cs => if p = c then dropPrefix ps cs else none

/-- An optional `<keyword><word>`: the word and the rest, or nothing and the text as it was. -/
def lexKw (kw s : Str) : Option Str × Str :=
  match dropPrefix kw s with
  | some r => (some (spanWord r).1, (spanWord r).2)
  | none => (none, s)

/-- Reference reader of the clause text: an optional ` CHARACTER SET <word>` then an optional
` COLLATE <word>`; hands over what follows. -/
def lexCollClause (s : Str) : CollSpec × Str :=
  let a := lexKw " CHARACTER SET ".toList s
  let b := lexKw " COLLATE ".toList a.2
  ({ cs := a.1, coll := b.1 }, b.2)

-- ---------------------------------------------------------------------------------------------
-- The schema and its printer

/-- Column types of the envelope (their texts are regenerated facts: `Type.String()`). -/
inductive Ty where
  | int | bigint | tinyint | double | text | date
  | varchar (n : Nat)
  | char (n : Nat)
  | decimal (p s : Nat)
  deriving DecidableEq, Repr, Inhabited

def natText (n : Nat) : Str := Nat.toDigits 10 n

def tyText : Ty → Str
  | .int => "int".toList
  | .bigint => "bigint".toList
  | .tinyint => "tinyint".toList
  | .double => "double".toList
  | .text => "text".toList
  | .date => "date".toList
  | .varchar n => "varchar(".toList ++ natText n ++ [')']
  | .char n => "char(".toList ++ natText n ++ [')']
  | .decimal p s => "decimal(".toList ++ natText p ++ [','] ++ natText s ++ [')']

def Ty.isText : Ty → Bool
  | .text | .varchar _ | .char _ => true
  | _ => false

/-- A literal default: the text of a number (printed between quotes as is), or a string. -/
inductive Dflt where
  | num (text : Str)
  | str (s : Str)
  | null
  deriving DecidableEq, Repr, Inhabited

structure Col where
  name : Str
  ty : Ty
  notNull : Bool
  autoInc : Bool
  dflt : Option Dflt
  comment : Str
  /-- the column's collation (char / varchar / text columns; `none` otherwise) -/
  coll : Option Coll := none
  deriving DecidableEq, Repr, Inhabited

structure Key where
  unique : Bool
  name : Str
  cols : List Str
  comment : Str
  deriving DecidableEq, Repr, Inhabited

structure Table where
  name : Str
  cols : List Col
  pk : List Str
  keys : List Key
  comment : Str
  /-- the table's collation -/
  coll : Coll := engineColl
  deriving DecidableEq, Repr, Inhabited

def joinWith (sep : Str) : List Str → Str
  | [] => []
  | [a] => a
  | a :: rest => a ++ sep ++ joinWith sep rest

/-- Go `Literal.String()` of a text literal: quote and backslash doubled. -/
def strLit (s : Str) : Str :=
  '\'' :: (s.flatMap fun c => if c = '\'' then ['\'', '\''] else if c = '\\' then ['\\', '\\'] else [c]) ++ ['\'']

def dfltText : Dflt → Str
  | .num t => '\'' :: t ++ ['\'']
  | .str s => strLit s
  | .null => "NULL".toList

/-- Go `GenerateCreateTableColumnDefinition`; the type text of a char / varchar / text column is
`StringWithTableCollation(tableCollation)`. -/
def showCol (tc : Coll) (c : Col) : Str :=
  "  ".toList ++ quoteIdent c.name ++ [' '] ++ tyText c.ty ++
    (match c.coll with | some cc => if c.ty.isText then collClause tc cc else [] | none => []) ++
    (if c.notNull then " NOT NULL".toList else []) ++
    (if c.autoInc then " AUTO_INCREMENT".toList else []) ++
    (match c.dflt with | some d => " DEFAULT ".toList ++ dfltText d | none => []) ++
    (if c.comment.isEmpty then [] else " COMMENT '".toList ++ escape c.comment ++ ['\''])

/-- Go `GenerateCreateTablePrimaryKeyDefinition`. -/
def showPk (pk : List Str) : Str := "  PRIMARY KEY (".toList ++ joinWith [','] (pk.map quoteIdent) ++ [')']

/-- Go `GenerateCreateTableIndexDefinition` up to the comment. -/
def showKeyHead (k : Key) : Str :=
  "  ".toList ++ (if k.unique then "UNIQUE ".toList else []) ++ "KEY ".toList ++ quoteIdent k.name ++
    " (".toList ++ joinWith [','] (k.cols.map quoteIdent) ++ [')']

/-- Go `GenerateCreateTableIndexDefinition`: the comment is escaped by
`EscapeSpecialCharactersInComment` (repaired code). -/
def showKey (k : Key) : Str :=
  showKeyHead k ++ (if k.comment.isEmpty then [] else " COMMENT '".toList ++ escape k.comment ++ ['\''])

/-- The same function before the `fix:` commit: the comment was put between quotes as it was.
Not part of the Impl model any more; kept to state `fixed_index_comment_unescaped`. -/
def showKeyPreFix (k : Key) : Str :=
  showKeyHead k ++ (if k.comment.isEmpty then [] else " COMMENT '".toList ++ k.comment ++ ['\''])

/-- Go string `<` on index names (bytes). -/
def strLe : Str → Str → Bool
  | [], _ => true
  | _ :: _, [] => false
  | a :: as, b :: bs => if a.toNat < b.toNat then true else if b.toNat < a.toNat then false else strLe as bs

def insertKey (k : Key) : List Key → List Key
  | [] => [k]
  | x :: xs => if strLe k.name x.name then k :: x :: xs else x :: insertKey k xs

/-- Go `memory.Table.GetIndexes`: the secondary indexes are listed sorted by name. -/
def sortKeys : List Key → List Key
  | [] => []
  | k :: ks => insertKey k (sortKeys ks)

/-- Go `produceCreateTableStatement` + `GenerateCreateTableStatement`, over a key printer. -/
def showTableWith (key : Key → Str) (t : Table) : Str :=
  let parts := t.cols.map (showCol t.coll) ++ (if t.pk.isEmpty then [] else [showPk t.pk]) ++ (sortKeys t.keys).map key
  "CREATE TABLE ".toList ++ quoteIdent t.name ++ " (\n".toList ++ joinWith [',', '\n'] parts ++
    "\n) ENGINE=InnoDB DEFAULT CHARSET=".toList ++ t.coll.cs ++ " COLLATE=".toList ++ t.coll.name ++
    (if t.comment.isEmpty then [] else " COMMENT='".toList ++ escape t.comment ++ ['\''])

/-- The Impl model: the text of SHOW CREATE TABLE (repaired code). -/
def showTable (t : Table) : Str := showTableWith showKey t

/-- The text before the `fix:` commit (witness theorem only). -/
def showTablePreFix (t : Table) : Str := showTableWith showKeyPreFix t

end Gms.ShowCreate
