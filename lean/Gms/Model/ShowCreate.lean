/-
C22 — model of the CREATE TABLE text printed by SHOW CREATE TABLE (core-only).

Go sources transliterated here:

* `sql/parser.go`               `MySqlSchemaFormatter`: `QuoteIdentifier`, `GenerateCreateTableColumnDefinition`,
  `GenerateCreateTablePrimaryKeyDefinition`, `GenerateCreateTableIndexDefinition` (the index
  comment goes through `EscapeSpecialCharactersInComment` like every other comment since the
  `fix:` commit; the pre-fix printer, which put it between quotes as it was, is kept as
  `showKeyPreFix` / `showTablePreFix` for the witness theorem only), `GenerateCreateTableStatement`,
  `EscapeSpecialCharactersInComment` (six consecutive `strings.ReplaceAll`)
* `sql/rowexec/show_iters.go`   `produceCreateTableStatement` (order of the parts), `convertColumnDefaultToString`

and the two lexical readers a statement parser applies to that text (reference readers for
exactly the printer's image): a back-quoted identifier and a single-quoted string literal.
-/
namespace Gms.ShowCreate

abbrev Str := List Char

-- ---------------------------------------------------------------------------------------------
-- Identifiers

/-- Go: ``fmt.Sprintf("`%s`", strings.ReplaceAll(id, "`", "``"))``. -/
def quoteIdent (s : Str) : Str :=
  '`' :: (s.flatMap fun c => if c = '`' then ['`', '`'] else [c]) ++ ['`']

/-- Reference reader: the body of a back-quoted identifier (`acc` is reversed). -/
def lexIdentBody : Str → Str → Option (Str × Str)
  | '`' :: '`' :: rest, acc => lexIdentBody rest ('`' :: acc)
  | '`' :: rest, acc => some (acc.reverse, rest)
  | c :: rest, acc => lexIdentBody rest (c :: acc)
  | [], _ => none

def lexIdent : Str → Option (Str × Str)
  | '`' :: rest => lexIdentBody rest []
  | _ => none

-- ---------------------------------------------------------------------------------------------
-- String literals and comments

def replaceChar (c : Char) (by_ : Str) (s : Str) : Str := s.flatMap fun x => if x = c then by_ else [x]

/-- Go `EscapeSpecialCharactersInComment`: six `strings.ReplaceAll` in this order. -/
def escapeSeq (s : Str) : Str :=
  replaceChar (Char.ofNat 0) ['\\', '0']
    (replaceChar '\r' ['\\', 'r']
      (replaceChar '\n' ['\\', 'n']
        (replaceChar '"' ['\\', '"']
          (replaceChar '\\' ['\\', '\\']
            (replaceChar '\'' ['\'', '\''] s)))))

/-- The same as one character map. -/
def escapeChar (c : Char) : Str :=
  if c = '\'' then ['\'', '\''] else
  if c = '\\' then ['\\', '\\'] else
  if c = '"' then ['\\', '"'] else
  if c = '\n' then ['\\', 'n'] else
  if c = '\r' then ['\\', 'r'] else
  if c = Char.ofNat 0 then ['\\', '0'] else [c]

def escape (s : Str) : Str := s.flatMap escapeChar

def unescapeChar (c : Char) : Char :=
  if c = 'n' then '\n' else if c = 'r' then '\r' else if c = '0' then Char.ofNat 0 else
  if c = 't' then '\t' else if c = 'b' then Char.ofNat 8 else if c = 'Z' then Char.ofNat 26 else c

/-- Reference reader: the body of a single-quoted MySQL string literal (`''` and backslash escapes). -/
def lexStrBody : Str → Str → Option (Str × Str)
  | '\'' :: '\'' :: rest, acc => lexStrBody rest ('\'' :: acc)
  | '\'' :: rest, acc => some (acc.reverse, rest)
  | '\\' :: c :: rest, acc => lexStrBody rest (unescapeChar c :: acc)
  | '\\' :: [], _ => none
  | c :: rest, acc => lexStrBody rest (c :: acc)
  | [], _ => none

def lexStr : Str → Option (Str × Str)
  | '\'' :: rest => lexStrBody rest []
  | _ => none

/-- Characters a literal printed *without* escaping does not survive (the pre-fix index comments). -/
def rawSafe (s : Str) : Bool := s.all fun c => c != '\'' && c != '\\'

-- ---------------------------------------------------------------------------------------------
-- The schema and its printer

/-- Column types of the envelope (their texts are regenerated facts: `Type.String()`). -/
inductive Ty where
  | int | bigint | tinyint | double | text | date
  | varchar (n : Nat)
  | char (n : Nat)
  | decimal (p s : Nat)
  deriving DecidableEq, Repr, Inhabited

def natText (n : Nat) : Str := Nat.toDigits 10 n

def tyText : Ty → Str
  | .int => "int".toList
  | .bigint => "bigint".toList
  | .tinyint => "tinyint".toList
  | .double => "double".toList
  | .text => "text".toList
  | .date => "date".toList
  | .varchar n => "varchar(".toList ++ natText n ++ [')']
  | .char n => "char(".toList ++ natText n ++ [')']
  | .decimal p s => "decimal(".toList ++ natText p ++ [','] ++ natText s ++ [')']

def Ty.isText : Ty → Bool
  | .text | .varchar _ | .char _ => true
  | _ => false

/-- A literal default: the text of a number (printed between quotes as is), or a string. -/
inductive Dflt where
  | num (text : Str)
  | str (s : Str)
  | null
  deriving DecidableEq, Repr, Inhabited

structure Col where
  name : Str
  ty : Ty
  notNull : Bool
  autoInc : Bool
  dflt : Option Dflt
  comment : Str
  deriving DecidableEq, Repr, Inhabited

structure Key where
  unique : Bool
  name : Str
  cols : List Str
  comment : Str
  deriving DecidableEq, Repr, Inhabited

structure Table where
  name : Str
  cols : List Col
  pk : List Str
  keys : List Key
  comment : Str
  deriving DecidableEq, Repr, Inhabited

def joinWith (sep : Str) : List Str → Str
  | [] => []
  | [a] => a
  | a :: rest => a ++ sep ++ joinWith sep rest

/-- Go `Literal.String()` of a text literal: quote and backslash doubled. -/
def strLit (s : Str) : Str :=
  '\'' :: (s.flatMap fun c => if c = '\'' then ['\'', '\''] else if c = '\\' then ['\\', '\\'] else [c]) ++ ['\'']

def dfltText : Dflt → Str
  | .num t => '\'' :: t ++ ['\'']
  | .str s => strLit s
  | .null => "NULL".toList

/-- Go `GenerateCreateTableColumnDefinition`. -/
def showCol (c : Col) : Str :=
  "  ".toList ++ quoteIdent c.name ++ [' '] ++ tyText c.ty ++
    (if c.notNull then " NOT NULL".toList else []) ++
    (if c.autoInc then " AUTO_INCREMENT".toList else []) ++
    (match c.dflt with | some d => " DEFAULT ".toList ++ dfltText d | none => []) ++
    (if c.comment.isEmpty then [] else " COMMENT '".toList ++ escape c.comment ++ ['\''])

/-- Go `GenerateCreateTablePrimaryKeyDefinition`. -/
def showPk (pk : List Str) : Str := "  PRIMARY KEY (".toList ++ joinWith [','] (pk.map quoteIdent) ++ [')']

/-- Go `GenerateCreateTableIndexDefinition` up to the comment. -/
def showKeyHead (k : Key) : Str :=
  "  ".toList ++ (if k.unique then "UNIQUE ".toList else []) ++ "KEY ".toList ++ quoteIdent k.name ++
    " (".toList ++ joinWith [','] (k.cols.map quoteIdent) ++ [')']

/-- Go `GenerateCreateTableIndexDefinition`: the comment is escaped by
`EscapeSpecialCharactersInComment` (repaired code). -/
def showKey (k : Key) : Str :=
  showKeyHead k ++ (if k.comment.isEmpty then [] else " COMMENT '".toList ++ escape k.comment ++ ['\''])

/-- The same function before the `fix:` commit: the comment was put between quotes as it was.
Not part of the Impl model any more; kept to state `fixed_index_comment_unescaped`. -/
def showKeyPreFix (k : Key) : Str :=
  showKeyHead k ++ (if k.comment.isEmpty then [] else " COMMENT '".toList ++ k.comment ++ ['\''])

/-- Go string `<` on index names (bytes). -/
def strLe : Str → Str → Bool
  | [], _ => true
  | _ :: _, [] => false
  | a :: as, b :: bs => if a.toNat < b.toNat then true else if b.toNat < a.toNat then false else strLe as bs

def insertKey (k : Key) : List Key → List Key
  | [] => [k]
  | x :: xs => if strLe k.name x.name then k :: x :: xs else x :: insertKey k xs

/-- Go `memory.Table.GetIndexes`: the secondary indexes are listed sorted by name. -/
def sortKeys : List Key → List Key
  | [] => []
  | k :: ks => insertKey k (sortKeys ks)

/-- Go `produceCreateTableStatement` + `GenerateCreateTableStatement`, over a key printer. -/
def showTableWith (key : Key → Str) (t : Table) : Str :=
  let parts := t.cols.map showCol ++ (if t.pk.isEmpty then [] else [showPk t.pk]) ++ (sortKeys t.keys).map key
  "CREATE TABLE ".toList ++ quoteIdent t.name ++ " (\n".toList ++ joinWith [',', '\n'] parts ++
    "\n) ENGINE=InnoDB DEFAULT CHARSET=utf8mb4 COLLATE=utf8mb4_0900_bin".toList ++
    (if t.comment.isEmpty then [] else " COMMENT='".toList ++ escape t.comment ++ ['\''])

/-- The Impl model: the text of SHOW CREATE TABLE (repaired code). -/
def showTable (t : Table) : Str := showTableWith showKey t

/-- The text before the `fix:` commit (witness theorem only). -/
def showTablePreFix (t : Table) : Str := showTableWith showKeyPreFix t

end Gms.ShowCreate
