/-
Sort / top-N / LIMIT-OFFSET (core-only), the model side of C04.

Impl models (transliterations of the Go code):
* `cmpKeyImpl` / `cmpRowsImpl` — `sorters.RowSorter.CompareRows` (`sql/sorters/row_sorter.go`): per
  sort condition, swap the operands for DESC, skip when both are NULL, NULL first
  (`NullOrdering == NullsFirst`, the only ordering the planner produces), else `typ.Compare`.
* `sortL2R` — what `sort.Stable` over `RowSorter` (`iters.sortIter.computeSortedRows`) observably
  does: a stable sort (rows arrive left to right; a later row goes behind its equals).
* `topN` — `sorters.GetTopNRows` (`sql/sorters/rows_heap.go`): push each row with its arrival number
  into a max-heap ordered by (CompareRows, arrival number), pop the maximum when the size exceeds
  `n`, finally pop everything into the result back to front. The heap's layout is not observable;
  what it returns is determined because (CompareRows, arrival number) is a strict total order —
  the state is modelled as the ascending list of the kept rows (`container/heap` is trusted).
* `top1` — `iters.topRowIter` (LIMIT 1): one scan keeping the first strictly smaller row.
* `offsetRows`, `limitRows'` — `offsetIter` (skip `m`), `limitIter` (stop after `n`).
* `topNPlan` — what `analyzer.insertTopNNodes` builds for `Limit(n, Offset(m, Sort))`:
  `Offset(m, TopN(n + m))`.

Spec: `Gms.Rel.orderRows` (stable insertion sort, NULLs lowest) and `Gms.Rel.limitRows`.
-/
import Gms.Model.Rel

namespace Gms.Sort
open Gms.Sql Gms.Rel

/-- `typ.Compare` on two non-NULL values of one type (integers; strings under the binary
collation). -/
def typeCompare (a b : Value) : Ordering := a.ord b

/-- One sort condition of `CompareRows`; `none` = equal, continue with the next condition. -/
def cmpKeyImpl (desc : Bool) (a b : Value) : Option Ordering :=
  let av := if desc then b else a      -- `if sc.Order == sql.Descending { av, bv = bv, av }`
  let bv := if desc then a else b
  if av.isNull && bv.isNull then none
  else if av.isNull then some .lt      -- NullsFirst: `return -1`
  else if bv.isNull then some .gt      -- `return 1`
  else
    match typeCompare av bv with
    | .eq => none
    | o => some o

/-- `CompareRows` on the evaluated key tuples (`ds` = DESC flags; a missing flag is ASC). -/
def cmpRowsImpl : List Bool → Row → Row → Ordering
  | d :: ds, a :: as, b :: bs =>
    match cmpKeyImpl d a b with
    | none => cmpRowsImpl ds as bs
    | some o => o
  | [], a :: as, b :: bs =>
    match cmpKeyImpl false a b with
    | none => cmpRowsImpl [] as bs
    | some o => o
  | _, _, _ => .eq

section Generic
variable {α : Type}

/-- A later element goes behind every element it is not strictly smaller than. -/
def insertAfter (lt : α → α → Bool) (x : α) : List α → List α
  | [] => [x]
  | y :: ys => if lt x y then x :: y :: ys else y :: insertAfter lt x ys

/-- Stable sort, rows consumed left to right (`sort.Stable`). -/
def sortL2R (lt : α → α → Bool) (rows : List α) : List α := rows.foldl (fun s x => insertAfter lt x s) []

/-- One iteration of `GetTopNRows`: `heap.Push`, then `heap.Pop` (the maximum) if the heap holds
more than `n` rows. -/
def topNStep (lt : α → α → Bool) (n : Nat) (s : List α) (x : α) : List α := (insertAfter lt x s).take n

def topN (lt : α → α → Bool) (n : Nat) (rows : List α) : List α := rows.foldl (topNStep lt n) []

/-- `topRowIter`: `if sorter.IsLesserRow(row, topRow) { topRow = row }`. -/
def top1 (lt : α → α → Bool) : List α → Option α
  | [] => none
  | x :: xs => some (xs.foldl (fun best r => if lt r best then r else best) x)

def offsetRows (m : Nat) (rows : List α) : List α := rows.drop m
def limitRows' (n : Nat) (rows : List α) : List α := rows.take n

/-- `Offset(m, TopN(n + m, child))`, with the LIMIT-1 special case of `buildTopN`. -/
def topNPlan (lt : α → α → Bool) (n m : Nat) (rows : List α) : List α :=
  offsetRows m (if n + m = 1 then (top1 lt rows).toList else topN lt (n + m) rows)

end Generic

/-- The ordering the engine sorts rows by: `IsLesserRow` on the key tuples. -/
def ltImpl (ds : List Bool) (key : Row → Row) (a b : Row) : Bool := cmpRowsImpl ds (key a) (key b) == .lt

end Gms.Sort
