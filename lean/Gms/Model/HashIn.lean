/-
C06 — Impl model of `HashInTuple` (sql/expression/in.go: `newInMap` + `HashInTuple.Eval`), the
hashed form `apply_hash_in.go` substitutes for `x IN (literal, …)`, and the syntactic rewrites
whose two sides C06 compares (IN-list ↔ OR chain, BETWEEN ↔ pair of comparisons, IN-subquery ↔
EXISTS, literal substitution). Core-only.

`key` stands for `hash.HashOfSimple(value, cmpType)` followed by xxhash: `none` = "out of range
for the compare type", `some k` = the hash key.
-/
import Gms.Model.Rel

namespace Gms.HashIn
open Gms.Sql Gms.Rel

structure HashSet (κ : Type) where
  keys : List κ
  hasNull : Bool

/-- Go: `newInMap` (left type not NULL, tuple non-empty): NULL elements only set the flag; the
other elements are hashed; elements out of range for the compare type are dropped. -/
def newInMap {κ : Type} (key : Value → Option κ) : List Value → HashSet κ
  | [] => ⟨[], false⟩
  | .null :: vs => let s := newInMap key vs; ⟨s.keys, true⟩
  | v :: vs =>
    let s := newInMap key vs
    match key v with
    | some k => ⟨k :: s.keys, s.hasNull⟩
    | none => s

/-- Go: `HashInTuple.Eval`. -/
def evalHashIn {κ : Type} [DecidableEq κ] (key : Value → Option κ) (s : HashSet κ) (v : Value) : Tri :=
  match v with
  | .null => .u
  | v =>
    match key v with
    | none => .f
    | some k => if k ∈ s.keys then .t else if s.hasNull then .u else .f

/-! ### Rewrites (the B side of the C06 pairs) -/

/-- `x = a OR x = b OR …` -/
def orChain (e : Expr) : List Expr → Expr
  | [] => .lit (.int 0)
  | [a] => .cmp .eq e a
  | a :: as => .or (.cmp .eq e a) (orChain e as)

/-- `x <> a AND x <> b AND …` -/
def andChain (e : Expr) : List Expr → Expr
  | [] => .lit (.int 1)
  | [a] => .cmp .ne e a
  | a :: as => .and (.cmp .ne e a) (andChain e as)

def betweenAnd (e lo hi : Expr) : Expr := .and (.cmp .ge e lo) (.cmp .le e hi)

/-- The identity select list `c0, …, c(n-1)` of a derived table. -/
def idCols (n : Nat) : List Expr := (List.range n).map (fun i => Expr.col 0 i)

/-- Subquery-free expressions. -/
def noSub : Expr → Bool
  | .lit _ => true
  | .col _ _ => true
  | .neg e => noSub e
  | .arith _ a b => noSub a && noSub b
  | .cmp _ a b => noSub a && noSub b
  | .and a b => noSub a && noSub b
  | .or a b => noSub a && noSub b
  | .xor a b => noSub a && noSub b
  | .not e => noSub e
  | .isNull e => noSub e
  | .isTruth _ e => noSub e
  | .inList e es => noSub e && noSubs es
  | .between e lo hi => noSub e && noSub lo && noSub hi
  | .ite c a b => noSub c && noSub a && noSub b
  | .coalesce a b => noSub a && noSub b
  | .exists _ => false
  | .inSub _ _ => false
  | .scalar _ => false
where
  noSubs : List Expr → Bool
    | [] => true
    | e :: es => noSub e && noSubs es

/-- Replace the columns of the current row by the literal values they hold. -/
def substRow (r : Row) : Expr → Expr
  | .lit v => .lit v
  | .col 0 i => .lit (r.getD i .null)
  | .col (d + 1) i => .col (d + 1) i
  | .neg e => .neg (substRow r e)
  | .arith op a b => .arith op (substRow r a) (substRow r b)
  | .cmp op a b => .cmp op (substRow r a) (substRow r b)
  | .and a b => .and (substRow r a) (substRow r b)
  | .or a b => .or (substRow r a) (substRow r b)
  | .xor a b => .xor (substRow r a) (substRow r b)
  | .not e => .not (substRow r e)
  | .isNull e => .isNull (substRow r e)
  | .isTruth w e => .isTruth w (substRow r e)
  | .inList e es => .inList (substRow r e) (substRows r es)
  | .between e lo hi => .between (substRow r e) (substRow r lo) (substRow r hi)
  | .ite c a b => .ite (substRow r c) (substRow r a) (substRow r b)
  | .coalesce a b => .coalesce (substRow r a) (substRow r b)
  | .exists q => .exists q
  | .inSub e q => .inSub e q
  | .scalar q => .scalar q
where
  substRows (r : Row) : List Expr → List Expr
    | [] => []
    | e :: es => substRow r e :: substRows r es

end Gms.HashIn
