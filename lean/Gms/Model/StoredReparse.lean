/-
C10 — stored routine text is parsed again under the mode recorded at CREATE time (core-only).

`CREATE PROCEDURE` keeps the statement TEXT and `sql.LoadSqlMode(ctx).String()` (the session's
sql_mode at that moment). `CALL`, and every statement that makes the analyzer load the procedures of a
database (e.g. a query on information_schema.routines), goes through
`planbuilder.BuildProcedureHelper`, which parses the text again:

    b.SetParserOptions(sql.NewSqlModeFromString(procDetails.SqlMode).ParserOptions())
    stmt, _, _, _ := b.parser.ParseWithOptions(b.ctx, procDetails.CreateStatement, ';', false, b.parserOpts)
    procStmt := stmt.(*ast.DDL)

The parse error is dropped and the type assertion is unchecked: if the text does not parse under the
options in force, `stmt` is a nil interface and the assertion panics (a `runtime.Error`, which the
recover of `BuildProcedureHelper` / `Builder.Parse` re-panics). That cannot happen as long as the
options are the ones the text was parsed with when it was stored — the invariant proved in
Gms/Props/C10.lean — and does happen as soon as the options of the CALLING session leak into the
re-parse (`Policy`).

The model is parametric in the texts and the parser (`parses`); the driver instantiates it with the
bodies of the harness's `(rp …)` cases.
-/
namespace Gms.StoredReparse

/-- `ast.ParserOptions`. -/
structure Opts where
  ansiQuotes : Bool
  pipesAsConcat : Bool
  deriving DecidableEq, Repr

/-- A sql_mode value: the list of mode names (`[]` = `SET sql_mode = ''`; the recorded string is the
names joined by commas, empty iff the list is empty). -/
abbrev Mode := List String

/-- `SqlMode.ParserOptions` (sql/sql_mode.go): ANSI is a compound mode. -/
def optsOf (m : Mode) : Opts :=
  { ansiQuotes := m.contains "ANSI_QUOTES" || m.contains "ANSI",
    pipesAsConcat := m.contains "PIPES_AS_CONCAT" || m.contains "ANSI" }

/-- Which mode the re-parse takes its options from, given the recorded and the session's mode. -/
abbrev Policy := (recorded session : Mode) → Mode

/-- `BuildProcedureHelper` as written: always the recorded mode. -/
def recordedPolicy : Policy := fun r _ => r

/-- The defect class: "no mode recorded ⇒ keep the options `planbuilder.New` derived from the session". -/
def emptyFallsBack : Policy := fun r s => if r.isEmpty then s else r

inductive Stmt (Text : Type) where
  | setMode (m : Mode)
  | create (name : Nat) (t : Text)
  | call (name : Nat)
  | list                      -- a statement for which the analyzer loads every stored procedure
  deriving Repr

inductive Obs where
  | ok       -- a result or an error came back from a CALL / listing; a SET / CREATE succeeded
  | err      -- CREATE failed (syntax error under the session's options, or the name exists)
  | crash    -- nil statement, unchecked type assertion: the panic leaves Engine.Query
  deriving DecidableEq, Repr

structure St (Text : Type) where
  sess : Mode
  store : List (Nat × Mode × Text)

def St.init {Text : Type} (m : Mode) : St Text := { sess := m, store := [] }

def St.lookup {Text : Type} (s : St Text) (n : Nat) : Option (Mode × Text) :=
  (s.store.find? (fun e => e.1 == n)).map (·.2)

/-- One statement. `parses o t`: the CREATE statement with text `t` is grammatical under options `o`. -/
def step {Text : Type} (parses : Opts → Text → Bool) (pol : Policy) (s : St Text) : Stmt Text → St Text × Obs
  | .setMode m => ({ s with sess := m }, .ok)
  | .create n t =>
    if !parses (optsOf s.sess) t then (s, .err)
    else if (s.lookup n).isSome then (s, .err)
    else ({ s with store := (n, s.sess, t) :: s.store }, .ok)
  | .call n =>
    match s.lookup n with
    | none => (s, .ok)        -- "stored procedure does not exist": an error comes back
    | some (r, t) => if parses (optsOf (pol r s.sess)) t then (s, .ok) else (s, .crash)
  | .list =>
    if s.store.all (fun e => parses (optsOf (pol e.2.1 s.sess)) e.2.2) then (s, .ok) else (s, .crash)

def run {Text : Type} (parses : Opts → Text → Bool) (pol : Policy) : St Text → List (Stmt Text) → List Obs
  | _, [] => []
  | s, x :: xs => let r := step parses pol s x; r.2 :: run parses pol r.1 xs

/-- The invariant of the store: every text parses under the mode recorded with it. -/
def Inv {Text : Type} (parses : Opts → Text → Bool) (s : St Text) : Prop :=
  ∀ e ∈ s.store, parses (optsOf e.2.1) e.2.2 = true

/-! ### the instance of the `(rp …)` cases -/

/-- The bodies of the harness (cores2.go `rpBodies`), by index: 1 (`SHOW TABLES LIKE "t%"`) and 4
(`… ENUM("on", "off")`) have a double-quoted token where only a string is grammatical. -/
def rpParses (o : Opts) (body : Nat) : Bool :=
  if body = 1 ∨ body = 4 then !o.ansiQuotes else true

def Obs.str : Obs → String
  | .ok => "ok"
  | .err => "err"
  | .crash => "crash"

end Gms.StoredReparse
