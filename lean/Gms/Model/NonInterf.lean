/-
C36 — model of concurrent read-only sessions against one engine (core-only).

`n` sessions run programs (lists of statements) against one committed store `db`. What a statement
may touch:

  * the committed store `db`            — READ ONLY (no step of the model writes it);
  * the state its own session owns      — user variables, current database, warning list,
                                          session status counters (`Local`); read and written;
  * the shared registries               — global `Questions` / `Com_select` (atomic adds in
                                          `sql.IncrementStatusVariable`), `Threads_running` and the
                                          process-list entry of the connection (`ProcessList`
                                          methods, each under `pl.mu`).

A statement of session `i` is executed as four atomic steps, interleaved arbitrarily with the
steps of the other sessions (this is the bracket `Handler.doQuery` puts around `Engine.Query`;
each step is atomic because it is a mutex-protected method or an atomic add — the abstraction
the race-detector runs validate):

  idle      → began      `ProcessList.BeginQuery`: Threads_running += 1, Command := Query
  began     → counted    `Engine.QueryWithBindings` entry: Questions += 1 (global and session)
  counted   → evaluated  bind / analyse / execute: the result is a function of `db` and of the
                         session's own `Local`; Com_select += 1 (global and session) when the
                         analysed node is a SELECT; the session's `Local` is updated
  evaluated → idle       `ProcessList.EndQuery`: Threads_running -= 1, Command := Sleep; pc += 1

A schedule is a list of session ids: "session `i` takes its next step". Ids `≥ n` and sessions
whose program is finished are no-ops.
-/
namespace Gms.NonInterf

inductive Phase where
  | idle | began | counted | evaluated
  deriving DecidableEq, Repr

/-- The state a session owns. User variables: absent or `none` = SQL NULL. -/
structure Local where
  vars : List (String × Option Int)
  curDb : String
  warn : Nat
  questions : Nat
  comSelect : Nat
  deriving DecidableEq, Repr

/-- Statements. `read` is any statement whose result is a function of the committed store only
(every table query); the others read and write session-owned state. -/
inductive Stmt (Db : Type) where
  /-- a table query: result = `f db`; `sel` = the analysed node is a SELECT; `warn = none`: the
  statement failed before binding finished (parse error, unknown table) and the warning list is
  kept, `some w`: the list is replaced by `w` warnings. -/
  | read (f : Db → String) (sel : Bool) (warn : Option Nat)
  | setVar (v : String) (k : Int)     -- SET @v = k
  | addVar (v : String) (k : Int)     -- SET @v = @v + k
  | getVar (v : String)               -- SELECT @v
  | useDb (d : String)                -- USE d
  | curDb                             -- SELECT DATABASE()
  | sessQuestions                     -- SHOW SESSION STATUS LIKE 'Questions'
  | sessComSelect                     -- SHOW SESSION STATUS LIKE 'Com_select'
  | divZero                           -- SELECT 1/0   (NULL + warning 1365)
  | showWarnings                      -- SHOW WARNINGS (number of rows)

def lookupVar (vars : List (String × Option Int)) (v : String) : Option Int :=
  match vars.find? (fun p => p.1 == v) with
  | some p => p.2
  | none => none

def setVarL (vars : List (String × Option Int)) (v : String) (x : Option Int) : List (String × Option Int) :=
  (v, x) :: vars.filter (fun p => p.1 != v)

def showVal : Option Int → String
  | none => "null"
  | some k => "i:" ++ toString k

/-- Is the analysed node a SELECT (`plan.NodeRepresentsSelect`)? -/
def Stmt.isSelect {Db : Type} : Stmt Db → Bool
  | .read _ sel _ => sel
  | .getVar _ | .curDb | .divZero => true
  | _ => false

/-- `Com_select` (session copy) grows when the analysed node is a SELECT. -/
def bumpSel (b : Bool) (l : Local) : Local := { l with comSelect := l.comSelect + (if b then 1 else 0) }

/-- Evaluation of one statement: result text and the session's new `Local`. The store is an
argument, never a result. `SET` keeps the warning list, `SHOW WARNINGS` keeps it, every other
successfully bound statement clears it (`clearWarnings` in engine.go). -/
def sem {Db : Type} (st : Stmt Db) (db : Db) (l : Local) : String × Local :=
  let l := bumpSel st.isSelect l
  match st with
  | .read f _ w => (f db, match w with | none => l | some w => { l with warn := w })
  | .setVar v k => ("ok", { l with vars := setVarL l.vars v (some k) })
  | .addVar v k => ("ok", { l with vars := setVarL l.vars v ((lookupVar l.vars v).map (· + k)) })
  | .getVar v => (showVal (lookupVar l.vars v), { l with warn := 0 })
  | .useDb d => ("ok", { l with curDb := d, warn := 0 })
  | .curDb => ("s:" ++ l.curDb, { l with warn := 0 })
  | .sessQuestions => ("i:" ++ toString l.questions, { l with warn := 0 })
  | .sessComSelect => ("i:" ++ toString l.comSelect, { l with warn := 0 })
  | .divZero => ("null", { l with warn := 1 })
  | .showWarnings => ("i:" ++ toString l.warn, l)

/-- One session: its own state, program counter, position inside the current statement, the
results it has received (most recent first) and its process-list entry (`true` = Query). -/
structure Sess where
  loc : Local
  pc : Nat
  phase : Phase
  results : List String
  command : Bool
  deriving DecidableEq, Repr

def initLocal : Local := { vars := [], curDb := "d", warn := 0, questions := 0, comSelect := 0 }
def initSess : Sess := { loc := initLocal, pc := 0, phase := .idle, results := [], command := false }

/-- The next step of one session, seen from that session alone. -/
def lstep {Db : Type} (db : Db) (prog : List (Stmt Db)) (s : Sess) : Sess :=
  match prog[s.pc]? with
  | none => s
  | some st =>
    match s.phase with
    | .idle => { s with phase := .began, command := true }
    | .began => { s with phase := .counted, loc := { s.loc with questions := s.loc.questions + 1 } }
    | .counted =>
      let r := sem st db s.loc
      { s with phase := .evaluated, loc := r.2, results := r.1 :: s.results }
    | .evaluated => { s with phase := .idle, pc := s.pc + 1, command := false }

structure St (Db : Type) where
  db : Db
  questions : Nat
  comSelect : Nat
  running : Nat
  sess : Nat → Sess

def upd {β : Type} (f : Nat → β) (i : Nat) (v : β) : Nat → β := fun j => if j = i then v else f j

def init {Db : Type} (db : Db) : St Db :=
  { db := db, questions := 0, comSelect := 0, running := 0, sess := fun _ => initSess }

/-- The global step "session `i` moves": the shared registries are updated together with the
session's own state; `db` is copied. -/
def step {Db : Type} (n : Nat) (progs : Nat → List (Stmt Db)) (g : St Db) (i : Nat) : St Db :=
  if i < n then
    let s := g.sess i
    match (progs i)[s.pc]? with
    | none => g
    | some st =>
      match s.phase with
      | .idle =>
        { g with running := g.running + 1, sess := upd g.sess i { s with phase := .began, command := true } }
      | .began =>
        { g with questions := g.questions + 1,
                 sess := upd g.sess i { s with phase := .counted, loc := { s.loc with questions := s.loc.questions + 1 } } }
      | .counted =>
        let r := sem st g.db s.loc
        { g with comSelect := g.comSelect + (if st.isSelect then 1 else 0),
                 sess := upd g.sess i { s with phase := .evaluated, loc := r.2, results := r.1 :: s.results } }
      | .evaluated =>
        { g with running := g.running - 1, sess := upd g.sess i { s with phase := .idle, pc := s.pc + 1, command := false } }
  else g

def run {Db : Type} (n : Nat) (progs : Nat → List (Stmt Db)) (db : Db) (evs : List Nat) : St Db :=
  evs.foldl (step n progs) (init db)

/-- `k` steps of one session running alone. -/
def solo {Db : Type} (db : Db) (prog : List (Stmt Db)) : Nat → Sess
  | 0 => initSess
  | k + 1 => lstep db prog (solo db prog k)

/-! ### Spec: a session run alone, statement by statement -/

/-- Sequential execution of a program on a private session: (results in order, final `Local`). -/
def seqRun {Db : Type} (db : Db) : List (Stmt Db) → Local → List String × Local
  | [], l => ([], l)
  | st :: rest, l =>
    let r := sem st db { l with questions := l.questions + 1 }
    let t := seqRun db rest r.2
    (r.1 :: t.1, t.2)

/-- Sum over the sessions `0..n-1`. -/
def sumN (f : Nat → Nat) : Nat → Nat
  | 0 => 0
  | n + 1 => sumN f n + f n

def busy (s : Sess) : Nat := if s.phase = .idle then 0 else 1

/-- Occurrences of `i` in a schedule. -/
def occ (i : Nat) : List Nat → Nat
  | [] => 0
  | j :: rest => (if j = i then 1 else 0) + occ i rest

/-- All sessions have finished their programs. -/
def finished {Db : Type} (n : Nat) (progs : Nat → List (Stmt Db)) (g : St Db) : Prop :=
  ∀ i, i < n → (g.sess i).pc = (progs i).length ∧ (g.sess i).phase = .idle

/-! ### access footprints (lockset discipline) -/

/-- Shared locations a read-only statement touches. -/
inductive Loc where
  | store            -- table data of the committed store
  | catalogMap       -- analyzer.Catalog (c.mu)
  | procList         -- sqle.ProcessList maps and entries (pl.mu)
  | statusCounter    -- global status counters (atomic.Uint64)
  | memCaches        -- sql.MemoryManager cache registry (m.mu)
  | infoTableCatalog -- field `catalog` of the shared information_schema table objects
  | owned (i : Nat)  -- state owned by session i
  deriving DecidableEq, Repr

inductive Mode where
  | plainRead | plainWrite | atomicRMW | lockedRead | lockedWrite
  deriving DecidableEq, Repr

structure Access where
  sess : Nat
  loc : Loc
  mode : Mode
  deriving DecidableEq, Repr

def Mode.isWrite : Mode → Bool
  | .plainWrite | .atomicRMW | .lockedWrite => true
  | _ => false

def Mode.isPlain : Mode → Bool
  | .plainRead | .plainWrite => true
  | _ => false

/-- Two accesses race: different sessions (there is no happens-before edge between sessions other
than the locks and atomics themselves), same location, one writes, one is unsynchronised. -/
def racy (a b : Access) : Bool :=
  a.sess != b.sess && a.loc == b.loc && (a.mode.isWrite || b.mode.isWrite) && (a.mode.isPlain || b.mode.isPlain)

/-- Accesses of one statement of session `i`. `info`: the statement makes the planbuilder resolve
an information_schema table (`buildResolvedTable` then calls `AssignCatalog`, a plain field write
on the shared table object, and execution reads that field). -/
def footprint (i : Nat) (info : Bool) : List Access :=
  [ ⟨i, .procList, .lockedWrite⟩, ⟨i, .statusCounter, .atomicRMW⟩, ⟨i, .owned i, .plainWrite⟩, ⟨i, .owned i, .plainRead⟩,
    ⟨i, .store, .plainRead⟩, ⟨i, .catalogMap, .lockedRead⟩, ⟨i, .memCaches, .lockedWrite⟩ ] ++
  (if info then [⟨i, .infoTableCatalog, .plainWrite⟩, ⟨i, .infoTableCatalog, .plainRead⟩] else [])

end Gms.NonInterf
