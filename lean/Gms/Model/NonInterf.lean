/-
C36 — model of concurrent read-only queries against one engine (core-only).

Each query `i` goes through three atomic steps, interleaved arbitrarily with the steps of the
other queries (the process-list mutex and the atomic status counters make each step atomic in
the code; that abstraction is what the race-detector runs validate):

  begin i    : Questions += 1 (atomic), process list BeginQuery (Threads_running += 1, under mu)
  eval i     : the query is evaluated — a function of the committed store `db` only — and
               Com_select += 1
  finish i   : EndQuery (Threads_running -= 1)

Events that are not enabled (wrong phase, unknown query) are no-ops.
-/
namespace Gms.NonInterf

inductive Phase where
  | idle | began | evaluated | done
  deriving DecidableEq, Repr

inductive Ev where
  | begin (i : Nat) | eval (i : Nat) | finish (i : Nat)
  deriving Repr

structure St (Db R : Type) where
  db : Db
  questions : Nat
  comSelect : Nat
  running : Nat
  phase : Nat → Phase
  result : Nat → Option R

def upd {β : Type} (f : Nat → β) (i : Nat) (v : β) : Nat → β := fun j => if j = i then v else f j

def init {Db R : Type} (db : Db) : St Db R :=
  { db := db, questions := 0, comSelect := 0, running := 0, phase := fun _ => .idle, result := fun _ => none }

/-- `n` queries; `q i` is what query `i` computes from the store. -/
def step {Db R : Type} (n : Nat) (q : Nat → Db → R) (s : St Db R) : Ev → St Db R
  | .begin i =>
    if i < n ∧ s.phase i = .idle then
      { s with questions := s.questions + 1, running := s.running + 1, phase := upd s.phase i .began }
    else s
  | .eval i =>
    if i < n ∧ s.phase i = .began then
      { s with comSelect := s.comSelect + 1, phase := upd s.phase i .evaluated, result := upd s.result i (some (q i s.db)) }
    else s
  | .finish i =>
    if i < n ∧ s.phase i = .evaluated then
      { s with running := s.running - 1, phase := upd s.phase i .done }
    else s

def run {Db R : Type} (n : Nat) (q : Nat → Db → R) (db : Db) (evs : List Ev) : St Db R :=
  evs.foldl (step n q) (init db)

/-- Number of queries among `0..n-1` whose phase satisfies `p`. -/
def cnt (p : Phase → Bool) (f : Nat → Phase) : Nat → Nat
  | 0 => 0
  | n + 1 => cnt p f n + (if p (f n) then 1 else 0)

end Gms.NonInterf
