/-
C24 — model of the stored-procedure interpreter (core-only).

Source files modelled: sql/procedures/parse.go (`ConvertStmt`, `resolveGoToIndexes`, `Parse`),
sql/procedures/interpreter_logic.go (`execOp`, `Call`), sql/procedures/interpreter_stack.go
(scopes, variables, labels), sql/rowexec/proc.go + sql/planbuilder/proc.go (`buildCall`: parameter
set-up and write-back through the session's stored-procedure parameters).

* `Stmt`/`Expr`      – the structured source language (what the vitess AST of a body is mapped to)
* `compile`          – Impl model of `ConvertStmt` (flat op list, placeholders -1 and -2, `resolve`)
* `step`/`run`       – Impl model of the op machine (`Call` loop + `execOp`), including the scope
                        scans of `OpCode_Goto`
* `exec`             – Spec: big-step structured semantics with lexical scoping, parameterised by
                        `Sem` (the three points where MySQL's definition and the engine differ
                        *by design of the op code*, so that both readings can be stated)
* `callImpl`/`callSpec` – a CALL with IN/OUT/INOUT arguments in a session

Statement lists are right-nested `seq`; `IF … ELSEIF … ELSE` and `CASE` arms are right-nested
`ite` (the flat code `ConvertStmt` emits for an arm list is identical to the code of the nested
form; the compile-level correspondence checks this on every generated body).
-/
namespace Gms.ProcLang

abbrev Name := Nat
/-- SQL integer value; `none` is NULL. Booleans are 0/1 (the engine's `bool` results are turned
into `1`/`0` literals by `InterpreterVariable.ToAST`). -/
abbrev Val := Option Int
abbrev Scope := List (Name × Val)

inductive Expr where
  | lit (n : Int)
  | null
  | var (x : Name)
  | add (a b : Expr)
  | sub (a b : Expr)
  | mul (a b : Expr)
  | eq (a b : Expr)
  | lt (a b : Expr)
  | le (a b : Expr)
  | and (a b : Expr)
  | or (a b : Expr)
  | not (a : Expr)
  deriving Repr, DecidableEq, Inhabited

inductive Stmt where
  | skip
  | seq (a b : Stmt)
  | block (label : Option Name) (body : Stmt)
  | declare (x : Name) (dflt : Option Int)
  | set (x : Name) (e : Expr)
  | emit (e : Expr)                      -- INSERT INTO lg(v) VALUES (e): the observable trace
  | ite (c : Expr) (thn els : Stmt)
  | caseNotFound                         -- CASE without ELSE: the implicit error arm
  | while (label : Option Name) (c : Expr) (body : Stmt)
  | repeat (label : Option Name) (body : Stmt) (c : Expr)
  | loop (label : Option Name) (body : Stmt)
  | leave (l : Name)
  | iterate (l : Name)
  | signal                               -- SIGNAL SQLSTATE '45000'
  deriving Repr, DecidableEq, Inhabited

/-! ### Values and expressions (three-valued logic of the engine on integers) -/

def b2v (b : Bool) : Val := some (if b then 1 else 0)

def arith (f : Int → Int → Int) : Val → Val → Val
  | some a, some b => some (f a b)
  | _, _ => none

def cmp (f : Int → Int → Bool) : Val → Val → Val
  | some a, some b => b2v (f a b)
  | _, _ => none

def isZero (v : Val) : Bool := v == some 0
def isTrue (v : Val) : Bool := match v with | some n => n != 0 | none => false

def and3 (a b : Val) : Val :=
  if isZero a || isZero b then some 0 else if a.isNone || b.isNone then none else some 1
def or3 (a b : Val) : Val :=
  if isTrue a || isTrue b then some 1 else if a.isNone || b.isNone then none else some 0
def not3 : Val → Val
  | none => none
  | some n => b2v (n == 0)

/-- `SELECT e` with the variables substituted by `look`; `none` = some name did not resolve
(the engine then fails with "column … could not be found", errno 1105). -/
def evalExpr (look : Name → Option Val) : Expr → Option Val
  | .lit n => some (some n)
  | .null => some none
  | .var x => look x
  | .add a b => do let x ← evalExpr look a; let y ← evalExpr look b; pure (arith (· + ·) x y)
  | .sub a b => do let x ← evalExpr look a; let y ← evalExpr look b; pure (arith (· - ·) x y)
  | .mul a b => do let x ← evalExpr look a; let y ← evalExpr look b; pure (arith (· * ·) x y)
  | .eq a b => do let x ← evalExpr look a; let y ← evalExpr look b; pure (cmp (· == ·) x y)
  | .lt a b => do let x ← evalExpr look a; let y ← evalExpr look b; pure (cmp (· < ·) x y)
  | .le a b => do let x ← evalExpr look a; let y ← evalExpr look b; pure (cmp (· ≤ ·) x y)
  | .and a b => do let x ← evalExpr look a; let y ← evalExpr look b; pure (and3 x y)
  | .or a b => do let x ← evalExpr look a; let y ← evalExpr look b; pure (or3 x y)
  | .not a => do let x ← evalExpr look a; pure (not3 x)

/-! ### The store: scope stack (head = innermost), session parameters, trace -/

structure Spp where
  val : Val
  hasBeenSet : Bool
  deriving Repr, DecidableEq, Inhabited

structure Store where
  stack : List Scope
  sess : List (Name × Spp)
  log : List Val            -- newest first
  deriving Repr, DecidableEq, Inhabited

def lookupScope (x : Name) : Scope → Option Val
  | [] => none
  | (y, v) :: r => if y = x then some v else lookupScope x r

/-- Go: `InterpreterStack.GetVariable` (top scope first). -/
def lookupStack (x : Name) : List Scope → Option Val
  | [] => none
  | s :: r => match lookupScope x s with
    | some v => some v
    | none => lookupStack x r

def lookupSess (x : Name) : List (Name × Spp) → Option Spp
  | [] => none
  | (y, p) :: r => if y = x then some p else lookupSess x r

/-- Go: `replaceVariablesInExpr`, case `*ast.ColName`: stack variable, else session parameter. -/
def Store.look (σ : Store) (x : Name) : Option Val :=
  match lookupStack x σ.stack with
  | some v => some v
  | none => (lookupSess x σ.sess).map (·.val)

def setScope (x : Name) (v : Val) : Scope → Option Scope
  | [] => none
  | (y, w) :: r => if y = x then some ((y, v) :: r) else (setScope x v r).map ((y, w) :: ·)

def setStack (x : Name) (v : Val) : List Scope → Option (List Scope)
  | [] => none
  | s :: r => match setScope x v s with
    | some s' => some (s' :: r)
    | none => (setStack x v r).map (s :: ·)

def setSess (x : Name) (v : Val) : List (Name × Spp) → Option (List (Name × Spp))
  | [] => none
  | (y, p) :: r =>
    if y = x then some ((y, { val := v, hasBeenSet := true }) :: r) else (setSess x v r).map ((y, p) :: ·)

/-- Go: `stack.SetVariable` falling back to `Session.SetStoredProcParam`; `none` = "variable
could not be found" (errno 1105). -/
def Store.set (σ : Store) (x : Name) (v : Val) : Option Store :=
  match setStack x v σ.stack with
  | some st => some { σ with stack := st }
  | none => match setSess x v σ.sess with
    | some ss => some { σ with sess := ss }
    | none => none

def Store.push (σ : Store) : Store := { σ with stack := [] :: σ.stack }
def Store.pop (σ : Store) : Store := { σ with stack := σ.stack.tail }
def Store.emit (σ : Store) (v : Val) : Store := { σ with log := v :: σ.log }

/-- Go: `NewVariableWithValue` into the top scope (map assignment: shadows an older entry). -/
def Store.declare (σ : Store) (x : Name) (v : Val) : Option Store :=
  match σ.stack with
  | [] => none
  | s :: r => some { σ with stack := ((x, v) :: s) :: r }

/-! ### Target language and compiler (`ConvertStmt`) -/

inductive Op where
  | scopeBegin (label : Option Name) (idx : Int)
  | scopeEnd (label : Option Name) (idx : Int)
  | declare (x : Name) (dflt : Option Int)
  | set (x : Name) (e : Expr)
  | exec (e : Expr)
  | ifz (e : Expr) (idx : Int)              -- OpCode_If: jump to `idx` when `e` is 0 / NULL
  | goto (target : Option Name) (idx : Int)
  | exception                               -- OpCode_Exception (1339)
  | signal                                  -- OpCode_Signal (1644)
  deriving Repr, DecidableEq, Inhabited

/-- Compile-time label table: `stack.NewLabel` / `stack.GetLabel`. The compile-time scopes are
pushed by `BeginEndBlock` and never popped, and a registration always goes into the top scope, so
`GetLabel` returns the most recent registration of the name. -/
abbrev Labels := List (Name × Nat)

def getLabel (l : Name) : Labels → Int
  | [] => -1
  | (k, i) :: r => if k = l then (i : Int) else getLabel l r

def regLabel (label : Option Name) (i : Nat) (lb : Labels) : Labels :=
  match label with
  | some l => (l, i) :: lb
  | none => lb

def resolveOp (l : Name) (loopStart loopEnd : Int) : Op → Op
  | .goto (some t) idx =>
    if t = l then
      if idx = -1 then .goto (some t) loopStart
      else if idx = -2 then .goto (some t) loopEnd
      else .goto (some t) idx
    else .goto (some t) idx
  | op => op

/-- Go: `resolveGoToIndexes` over a range of the op list. -/
def resolve (label : Option Name) (loopStart loopEnd : Int) (ops : List Op) : List Op :=
  match label with
  | none => ops
  | some l => ops.map (resolveOp l loopStart loopEnd)

/-- Go: `ConvertStmt`. `base` is `len(*ops)` on entry. Returns the ops appended and the label table. -/
def compile (base : Nat) (lb : Labels) : Stmt → List Op × Labels
  | .skip => ([], lb)
  | .seq a b =>
    let ra := compile base lb a
    let rb := compile (base + ra.1.length) ra.2 b
    (ra.1 ++ rb.1, rb.2)
  | .block label body =>
    let rb := compile (base + 1) lb body
    let endIdx : Nat := base + 1 + rb.1.length + 1
    (.scopeBegin label (base + 1 : Nat) ::
      resolve label (base + 1 : Nat) endIdx (rb.1 ++ [.scopeEnd label endIdx]), rb.2)
  | .declare x d => ([.declare x d], lb)
  | .set x e => ([.set x e], lb)
  | .emit e => ([.exec e], lb)
  | .ite c thn els =>
    let rt := compile (base + 1) lb thn
    let elseStart : Nat := base + 1 + rt.1.length + 1
    let re := compile elseStart rt.2 els
    let endIdx : Nat := elseStart + re.1.length
    (.ifz c elseStart :: (rt.1 ++ [.goto none endIdx] ++ re.1), re.2)
  | .caseNotFound => ([.exception], lb)
  | .while label c body =>
    let rb := compile (base + 1) lb body
    let endIdx : Nat := base + 1 + rb.1.length + 1
    (resolve label base endIdx (.ifz c endIdx :: (rb.1 ++ [.goto none base])), rb.2)
  | .repeat label body c =>
    let r1 := compile base lb body
    let loopStart : Nat := base + r1.1.length
    let lb2 := regLabel label loopStart r1.2
    let r2 := compile (loopStart + 1) lb2 body
    let endIdx : Nat := loopStart + 1 + r2.1.length + 1
    (resolve label loopStart endIdx (r1.1 ++ (.ifz (.not c) endIdx :: (r2.1 ++ [.goto none loopStart]))), r2.2)
  | .loop label body =>
    let lb1 := regLabel label base lb
    let rb := compile base lb1 body
    let endIdx : Nat := base + rb.1.length + 1
    (resolve label base endIdx (rb.1 ++ [.goto label base]), rb.2)
  | .leave l => ([.goto (some l) (-2)], lb)
  | .iterate l => ([.goto (some l) (getLabel l lb)], lb)
  | .signal => ([.signal], lb)

/-- Go: `Parse`. -/
def compileProgram (s : Stmt) : List Op := (compile 0 [] s).1

/-! ### The op machine (`Call` loop + `execOp`) -/

inductive Outcome where
  | ok
  | err (code : Nat)
  | crash
  | timeout
  deriving Repr, DecidableEq, Inhabited

structure MState where
  pc : Int           -- Go: `counter` (the op executed last; starts at -1)
  σ : Store
  deriving Repr, DecidableEq, Inhabited

inductive StepRes where
  | running (m : MState)
  | done (o : Outcome) (σ : Store)
  deriving Repr, DecidableEq, Inhabited

def popStack : List Scope → Option (List Scope)
  | [] => none                 -- Go: nil scope dereferenced in PopScope ⇒ panic
  | _ :: r => some r

/-- Effect of one op passed by a `Goto` scan: forward scans push/pop, backward scans undo. -/
def applyScope (fwd : Bool) (op : Op) (st : List Scope) : Option (List Scope) :=
  match op with
  | .scopeBegin _ _ => if fwd then some ([] :: st) else popStack st
  | .scopeEnd _ _ => if fwd then popStack st else some ([] :: st)
  | _ => some st

def scanList (fwd : Bool) : List Op → List Scope → Option (List Scope)
  | [], st => some st
  | op :: rest, st => match applyScope fwd op st with
    | none => none
    | some st' => scanList fwd rest st'

/-- Go: `case OpCode_Goto` at counter `c`. -/
def gotoStep (ops : List Op) (c : Nat) (idx : Int) (σ : Store) : StepRes :=
  if (c : Int) ≤ idx then
    if (c : Int) < idx - 1 then
      -- for ; counter < Index-1; counter++ : ops c … idx-2
      if (idx - 1).toNat > ops.length then .done .crash σ
      else match scanList true ((ops.drop c).take ((idx - 1).toNat - c)) σ.stack with
        | none => .done .crash σ
        | some st => .running { pc := idx - 1, σ := { σ with stack := st } }
    else .running { pc := c, σ := σ }
  else
    -- for ; counter > Index-1; counter-- : ops c … idx, in that order, inverted
    if idx < 0 then .done .crash σ
    else match scanList false (((ops.drop idx.toNat).take (c - idx.toNat + 1)).reverse) σ.stack with
      | none => .done .crash σ
      | some st => .running { pc := idx - 1, σ := { σ with stack := st } }

def condFalse (v : Val) : Bool := v.isNone || isZero v

/-- Go: `execOp` for the op at counter `c` (errors are not handled: no DECLARE HANDLER in the
modelled fragment, so `Call` returns the error). -/
def execOp (ops : List Op) (c : Nat) (op : Op) (σ : Store) : StepRes :=
  match op with
  | .scopeBegin _ _ => .running { pc := c, σ := σ.push }
  | .scopeEnd _ _ =>
    match popStack σ.stack with
    | none => .done .crash σ
    | some st => .running { pc := c, σ := { σ with stack := st } }
  | .declare x d =>
    match σ.declare x (some (d.getD 0)) with      -- no DEFAULT ⇒ `typ.Zero()`
    | none => .done .crash σ
    | some σ' => .running { pc := c, σ := σ' }
  | .set x e =>
    match evalExpr σ.look e with
    | none => .done (.err 1105) σ
    | some v => match σ.set x v with
      | none => .done (.err 1105) σ
      | some σ' => .running { pc := c, σ := σ' }
  | .exec e =>
    match evalExpr σ.look e with
    | none => .done (.err 1105) σ
    | some v => .running { pc := c, σ := σ.emit v }
  | .ifz e idx =>
    match evalExpr σ.look e with
    | none => .done (.err 1105) σ
    | some v => if condFalse v then .running { pc := idx - 1, σ := σ } else .running { pc := c, σ := σ }
  | .goto _ idx => gotoStep ops c idx σ
  | .exception => .done (.err 1339) σ
  | .signal => .done (.err 1644) σ

/-- One iteration of the `for` loop of `Call`. -/
def step (ops : List Op) (m : MState) : StepRes :=
  let c := m.pc + 1
  if c < 0 then .done .crash m.σ
  else match ops[c.toNat]? with
    | none => .done .ok m.σ
    | some op => execOp ops c.toNat op m.σ

def run : Nat → List Op → MState → Outcome × Store
  | 0, _, m => (.timeout, m.σ)
  | n + 1, ops, m =>
    match step ops m with
    | .running m' => run n ops m'
    | .done o σ => (o, σ)

/-! ### Spec: big-step structured semantics -/

inductive Sig where
  | normal
  | leave (l : Name)
  | iterate (l : Name)
  | error (code : Nat)
  deriving Repr, DecidableEq, Inhabited

/-- The three places where "as defined" (MySQL) and the op code differ by construction. -/
structure Sem where
  declDefault : Val                 -- DECLARE x INT without DEFAULT
  untilNullExits : Bool             -- REPEAT … UNTIL NULL
  iterateRepeatChecksUntil : Bool   -- ITERATE of a REPEAT label
  deriving Repr, DecidableEq

def Sem.mysql : Sem := { declDefault := none, untilNullExits := false, iterateRepeatChecksUntil := false }
def Sem.gms : Sem := { declDefault := some 0, untilNullExits := true, iterateRepeatChecksUntil := true }

def declValue (sem : Sem) : Option Int → Val
  | some n => some n
  | none => sem.declDefault

/-- The UNTIL test of a REPEAT: `v` is the evaluated condition (`none` = a name did not resolve),
`again` the result of going round the loop once more. -/
def repeatCheck (sem : Sem) (v : Option Val) (σ1 : Store) (again : Option (Sig × Store)) : Option (Sig × Store) :=
  match v with
  | none => some (.error 1105, σ1)
  | some none => if sem.untilNullExits then some (.normal, σ1) else again
  | some (some k) => if k = 0 then again else some (.normal, σ1)

def exec (sem : Sem) : Nat → Stmt → Store → Option (Sig × Store)
  | 0, _, _ => none
  | n + 1, s, σ =>
    match s with
    | .skip => some (.normal, σ)
    | .seq a b =>
      match exec sem n a σ with
      | none => none
      | some (.normal, σ1) => exec sem n b σ1
      | some r => some r
    | .block label body =>
      match exec sem n body σ.push with
      | none => none
      | some (sig, σ1) =>
        let sig' := match sig with
          | .leave l => if label = some l then Sig.normal else sig
          | _ => sig
        some (sig', σ1.pop)
    | .declare x d =>
      match σ.declare x (declValue sem d) with
      | none => some (.error 0, σ)
      | some σ' => some (.normal, σ')
    | .set x e =>
      match evalExpr σ.look e with
      | none => some (.error 1105, σ)
      | some v => match σ.set x v with
        | none => some (.error 1105, σ)
        | some σ' => some (.normal, σ')
    | .emit e =>
      match evalExpr σ.look e with
      | none => some (.error 1105, σ)
      | some v => some (.normal, σ.emit v)
    | .ite c thn els =>
      match evalExpr σ.look c with
      | none => some (.error 1105, σ)
      | some v => if condFalse v then exec sem n els σ else exec sem n thn σ
    | .caseNotFound => some (.error 1339, σ)
    | .while label c body =>
      match evalExpr σ.look c with
      | none => some (.error 1105, σ)
      | some v =>
        if condFalse v then some (.normal, σ)
        else match exec sem n body σ with
          | none => none
          | some (.normal, σ1) => exec sem n (.while label c body) σ1
          | some (.iterate l, σ1) =>
            if label = some l then exec sem n (.while label c body) σ1 else some (.iterate l, σ1)
          | some (.leave l, σ1) => if label = some l then some (.normal, σ1) else some (.leave l, σ1)
          | some (.error e, σ1) => some (.error e, σ1)
    | .repeat label body c =>
      match exec sem n body σ with
      | none => none
      | some (sig, σ1) =>
        let again := exec sem n (.repeat label body c) σ1
        let check : Option (Sig × Store) := repeatCheck sem (evalExpr σ1.look c) σ1 again
        match sig with
        | .normal => check
        | .iterate l =>
          if label = some l then (if sem.iterateRepeatChecksUntil then check else again)
          else some (.iterate l, σ1)
        | .leave l => if label = some l then some (.normal, σ1) else some (.leave l, σ1)
        | .error e => some (.error e, σ1)
    | .loop label body =>
      match exec sem n body σ with
      | none => none
      | some (.normal, σ1) => exec sem n (.loop label body) σ1
      | some (.iterate l, σ1) =>
        if label = some l then exec sem n (.loop label body) σ1 else some (.iterate l, σ1)
      | some (.leave l, σ1) => if label = some l then some (.normal, σ1) else some (.leave l, σ1)
      | some (.error e, σ1) => some (.error e, σ1)
    | .leave l => some (.leave l, σ)
    | .iterate l => some (.iterate l, σ)
    | .signal => some (.error 1644, σ)

/-! ### CALL: parameters and the session -/

inductive Mode where
  | in_ | out | inout
  deriving Repr, DecidableEq, Inhabited

structure Param where
  name : Name
  mode : Mode
  deriving Repr, DecidableEq, Inhabited

inductive Arg where
  | lit (v : Val)
  | uvar (u : Name)
  deriving Repr, DecidableEq, Inhabited

structure Proc where
  params : List Param
  body : Stmt
  deriving Repr, DecidableEq, Inhabited

/-- What survives between statements of a session: user variables, the session's stored-procedure
parameters (Go: `BaseSession.storedProcParams`, never cleared), and the trace table. -/
structure Session where
  uvars : List (Name × Val)
  sess : List (Name × Spp)
  log : List Val
  deriving Repr, DecidableEq, Inhabited

def getU (u : Name) : List (Name × Val) → Val
  | [] => none
  | (k, v) :: r => if k = u then v else getU u r

def setU (u : Name) (v : Val) : List (Name × Val) → List (Name × Val)
  | [] => [(u, v)]
  | (k, w) :: r => if k = u then (k, v) :: r else (k, w) :: setU u v r

def argVal (uv : List (Name × Val)) : Arg → Val
  | .lit v => v
  | .uvar u => getU u uv

/-- Go: `Session.NewStoredProcParam` — keeps an existing entry of that name. -/
def newSpp (x : Name) (ss : List (Name × Spp)) : List (Name × Spp) :=
  match lookupSess x ss with
  | some _ => ss
  | none => ss ++ [(x, { val := none, hasBeenSet := false })]

/-- Go: `spp.Value = paramVal` in `buildCall` of rowexec (HasBeenSet untouched). -/
def assignSpp (x : Name) (v : Val) : List (Name × Spp) → List (Name × Spp)
  | [] => []
  | (y, p) :: r => if y = x then (y, { p with val := v }) :: r else (y, p) :: assignSpp x v r

def initParamsImpl (uv : List (Name × Val)) : List Param → List Arg → List (Name × Spp) → List (Name × Spp)
  | p :: ps, a :: as, ss => initParamsImpl uv ps as (assignSpp p.name (argVal uv a) (newSpp p.name ss))
  | _, _, ss => ss

/-- Go: the loop after `procedures.Call` in `buildCall`: OUT/INOUT user-variable arguments. -/
def writeBackImpl (ss : List (Name × Spp)) : List Param → List Arg → List (Name × Val) → List (Name × Val)
  | p :: ps, a :: as, uv =>
    let uv' := match p.mode, a with
      | .in_, _ => uv
      | m, .uvar u =>
        match lookupSess p.name ss with
        | none => uv
        | some spp => setU u (if m = .out && !spp.hasBeenSet then none else spp.val) uv
      | _, .lit _ => uv
    writeBackImpl ss ps as uv'
  | _, _, uv => uv

def callImpl (fuel : Nat) (p : Proc) (args : List Arg) (s : Session) : Outcome × Session :=
  let ss := initParamsImpl s.uvars p.params args s.sess
  let r := run fuel (compileProgram p.body) { pc := -1, σ := { stack := [[]], sess := ss, log := s.log } }
  match r.1 with
  | .ok => (.ok, { uvars := writeBackImpl r.2.sess p.params args s.uvars, sess := r.2.sess, log := r.2.log })
  | o => (o, { uvars := s.uvars, sess := r.2.sess, log := r.2.log })

/-- Spec: IN/INOUT parameters start with the argument's value, OUT parameters with NULL. -/
def initParamsSpec (uv : List (Name × Val)) : List Param → List Arg → List (Name × Spp)
  | p :: ps, a :: as =>
    (p.name, { val := if p.mode = .out then none else argVal uv a, hasBeenSet := false }) :: initParamsSpec uv ps as
  | _, _ => []

def writeBackSpec (ss : List (Name × Spp)) : List Param → List Arg → List (Name × Val) → List (Name × Val)
  | p :: ps, a :: as, uv =>
    let uv' := match p.mode, a with
      | .in_, _ => uv
      | _, .uvar u =>
        match lookupSess p.name ss with
        | none => uv
        | some spp => setU u spp.val uv
      | _, .lit _ => uv
    writeBackSpec ss ps as uv'
  | _, _, uv => uv

/-- Spec of a CALL; `none` = the structured semantics did not finish within `fuel`. -/
def callSpec (sem : Sem) (fuel : Nat) (p : Proc) (args : List Arg) (s : Session) : Option (Outcome × Session) :=
  let ss := initParamsSpec s.uvars p.params args
  match exec sem fuel p.body { stack := [[]], sess := ss, log := s.log } with
  | none => none
  | some (.normal, σ) =>
    some (.ok, { uvars := writeBackSpec σ.sess p.params args s.uvars, sess := s.sess, log := σ.log })
  | some (.error e, σ) => some (.err e, { uvars := s.uvars, sess := s.sess, log := σ.log })
  | some (_, σ) => some (.crash, { uvars := s.uvars, sess := s.sess, log := σ.log })  -- LEAVE/ITERATE escaping the body: ill-formed

/-! ### Static feature predicates (regions are built from these) -/

/-- Number of ops `compile` emits for a statement (independent of `base` and the label table). -/
def codeLen : Stmt → Nat
  | .skip => 0
  | .seq a b => codeLen a + codeLen b
  | .block _ b => codeLen b + 2
  | .ite _ t e => codeLen t + codeLen e + 2
  | .while _ _ b => codeLen b + 2
  | .repeat _ b _ => codeLen b + codeLen b + 2
  | .loop _ b => codeLen b + 1
  | _ => 1

/-- Last op emitted for `s` is a `ScopeEnd`. -/
def endsWithBlock : Stmt → Bool
  | .block _ _ => true
  | .seq a b => if codeLen b = 0 then endsWithBlock a else endsWithBlock b
  | .ite _ _ els => codeLen els != 0 && endsWithBlock els
  | _ => false

/-- Some `IF/CASE` has a final branch whose code ends with a `ScopeEnd`. -/
def hasElseBlock : Stmt → Bool
  | .seq a b => hasElseBlock a || hasElseBlock b
  | .block _ b => hasElseBlock b
  | .ite _ t e => endsWithBlock e || hasElseBlock t || hasElseBlock e
  | .while _ _ b => hasElseBlock b
  | .repeat _ b _ => hasElseBlock b
  | .loop _ b => hasElseBlock b
  | _ => false

/-- `LEAVE l` occurs where the nearest enclosing construct labelled `l` is a BEGIN…END block.
`env` maps the labels in scope to "is a block". -/
def hasLeaveBlock (env : List (Name × Bool)) : Stmt → Bool
  | .seq a b => hasLeaveBlock env a || hasLeaveBlock env b
  | .block l b => hasLeaveBlock (match l with | some l => (l, true) :: env | none => env) b
  | .ite _ t e => hasLeaveBlock env t || hasLeaveBlock env e
  | .while l _ b => hasLeaveBlock (match l with | some l => (l, false) :: env | none => env) b
  | .repeat l b _ => hasLeaveBlock (match l with | some l => (l, false) :: env | none => env) b
  | .loop l b => hasLeaveBlock (match l with | some l => (l, false) :: env | none => env) b
  | .leave l => (env.lookup l).getD false
  | _ => false

def hasBareDeclare : Stmt → Bool
  | .seq a b => hasBareDeclare a || hasBareDeclare b
  | .block _ b => hasBareDeclare b
  | .ite _ t e => hasBareDeclare t || hasBareDeclare e
  | .while _ _ b => hasBareDeclare b
  | .repeat _ b _ => hasBareDeclare b
  | .loop _ b => hasBareDeclare b
  | .declare _ none => true
  | _ => false

def hasRepeat : Stmt → Bool
  | .seq a b => hasRepeat a || hasRepeat b
  | .block _ b => hasRepeat b
  | .ite _ t e => hasRepeat t || hasRepeat e
  | .while _ _ b => hasRepeat b
  | .repeat _ _ _ => true
  | .loop _ b => hasRepeat b
  | _ => false

/-- `ITERATE l` occurs where the nearest enclosing construct labelled `l` is a REPEAT.
`env` maps labels in scope to "is a REPEAT". -/
def hasIterateRepeat (env : List (Name × Bool)) : Stmt → Bool
  | .seq a b => hasIterateRepeat env a || hasIterateRepeat env b
  | .block l b => hasIterateRepeat (match l with | some l => (l, false) :: env | none => env) b
  | .ite _ t e => hasIterateRepeat env t || hasIterateRepeat env e
  | .while l _ b => hasIterateRepeat (match l with | some l => (l, false) :: env | none => env) b
  | .repeat l b _ => hasIterateRepeat (match l with | some l => (l, true) :: env | none => env) b
  | .loop l b => hasIterateRepeat (match l with | some l => (l, false) :: env | none => env) b
  | .iterate l => (env.lookup l).getD false
  | _ => false

/-- `ITERATE l` occurs where the nearest enclosing construct labelled `l` is a REPEAT whose body's
code ends with a `ScopeEnd` (the body's last statement is a BEGIN…END block, or an IF/CASE whose
final branch ends with one). In the first ("once") copy of the body the ITERATE is a *forward*
`Goto` to the UNTIL test at `loopStart`; the scan of `OpCode_Goto` stops at `Index-2`, so the
`ScopeEnd` sitting at `loopStart-1` is neither scanned nor executed: when the ITERATE is inside
that block its scope stays on the stack, when it is in front of it an empty scope does.
`env` maps the labels in scope to "is a REPEAT whose body ends with a block". -/
def hasIterateRepeatEndBlock (env : List (Name × Bool)) : Stmt → Bool
  | .seq a b => hasIterateRepeatEndBlock env a || hasIterateRepeatEndBlock env b
  | .block l b => hasIterateRepeatEndBlock (match l with | some l => (l, false) :: env | none => env) b
  | .ite _ t e => hasIterateRepeatEndBlock env t || hasIterateRepeatEndBlock env e
  | .while l _ b => hasIterateRepeatEndBlock (match l with | some l => (l, false) :: env | none => env) b
  | .repeat l b _ =>
    hasIterateRepeatEndBlock (match l with | some l => (l, endsWithBlock b) :: env | none => env) b
  | .loop l b => hasIterateRepeatEndBlock (match l with | some l => (l, false) :: env | none => env) b
  | .iterate l => (env.lookup l).getD false
  | _ => false

/-- No LEAVE / ITERATE at all (the fragment of `compile_correct`). -/
def jumpFree : Stmt → Bool
  | .seq a b => jumpFree a && jumpFree b
  | .block _ b => jumpFree b
  | .ite _ t e => jumpFree t && jumpFree e
  | .while _ _ b => jumpFree b
  | .repeat _ b _ => jumpFree b
  | .loop _ b => jumpFree b
  | .leave _ => false
  | .iterate _ => false
  | _ => true

/-- A label is used for a LOOP/REPEAT and *later* (in compile order) an `ITERATE` of the same
name is compiled while the label table still holds the older index: under a WHILE of that name,
or in the first ("once") copy of a REPEAT body of that name. Computed by replaying `compile`'s
label table: the ITERATE gets a non-placeholder index that lies outside its own loop. -/
def staleIterate (s : Stmt) : Bool :=
  -- an `iterate` op whose index is ≥ 0 but is not the start of a loop that encloses it shows up
  -- as a resolved backward/forward goto to a foreign position; detect it structurally instead:
  let rec go (lb : List Name) (env : List (Name × Bool)) : Stmt → Bool × List Name
    -- lb: labels registered so far (LOOP/REPEAT, compile order); env: enclosing label ↦ "registered afresh"
    | .seq a b => let ra := go lb env a; let rb := go ra.2 env b; (ra.1 || rb.1, rb.2)
    | .block l b => go lb (match l with | some l => (l, false) :: env | none => env) b
    | .ite _ t e => let rt := go lb env t; let re := go rt.2 env e; (rt.1 || re.1, re.2)
    | .while l _ b => go lb (match l with | some l => (l, false) :: env | none => env) b
    | .repeat l b _ =>
      -- first copy: label not yet registered afresh
      let r1 := go lb (match l with | some l => (l, false) :: env | none => env) b
      let lb2 := match l with | some l => l :: r1.2 | none => r1.2
      let r2 := go lb2 (match l with | some l => (l, true) :: env | none => env) b
      (r1.1 || r2.1, r2.2)
    | .loop l b =>
      let lb1 := match l with | some l => l :: lb | none => lb
      go lb1 (match l with | some l => (l, true) :: env | none => env) b
    | .iterate l => (lb.contains l && !((env.lookup l).getD true), lb)
    | _ => (false, lb)
  (go [] [] s).1

/-- Sub-class of `staleIterate` on which the Impl model does **not** predict the engine: an
`ITERATE l` compiled against a stale registration of `l` whose registering LOOP/REPEAT lies inside a
BEGIN…END block that does not enclose the ITERATE. The backward `Goto` then enters a block that has
been closed; its scan re-pushes an *empty* scope for the block's `ScopeEnd`, so the block's variables
no longer resolve. The model answers `err 1105` at the first such read. The engine does that only
when the expression has never been evaluated before: `replaceVariablesInExpr` writes the substituted
value into the `ColName` node of the op's (shared) AST and returns the node unchanged when the name
does not resolve, so an unresolved name silently evaluates to the value it had at the previous
evaluation of that AST node (the two copies of a REPEAT body share their nodes). That per-node cache
is not part of this model; the harness keeps these cases out of the run-level correspondence
(payload flag `(norun)`, checked against this predicate by the driver) and evaluates them with its
direct-interpretation oracle only.

`lb`: labels registered so far with the block path (ids of the enclosing blocks, innermost first)
of the registering statement, most recent first; `path`: block path of the current statement;
the `Nat` threaded through numbers the blocks in compile order. -/
def staleIntoClosedBlock (s : Stmt) : Bool :=
  let rec go (lb : List (Name × List Nat)) (env : List (Name × Bool)) (path : List Nat) (next : Nat) :
      Stmt → Bool × List (Name × List Nat) × Nat
    | .seq a b =>
      let ra := go lb env path next a
      let rb := go ra.2.1 env path ra.2.2 b
      (ra.1 || rb.1, rb.2.1, rb.2.2)
    | .block l b =>
      go lb (match l with | some l => (l, false) :: env | none => env) (next :: path) (next + 1) b
    | .ite _ t e =>
      let rt := go lb env path next t
      let re := go rt.2.1 env path rt.2.2 e
      (rt.1 || re.1, re.2.1, re.2.2)
    | .while l _ b => go lb (match l with | some l => (l, false) :: env | none => env) path next b
    | .repeat l b _ =>
      let r1 := go lb (match l with | some l => (l, false) :: env | none => env) path next b
      let lb2 := match l with | some l => (l, path) :: r1.2.1 | none => r1.2.1
      let r2 := go lb2 (match l with | some l => (l, true) :: env | none => env) path r1.2.2 b
      (r1.1 || r2.1, r2.2.1, r2.2.2)
    | .loop l b =>
      let lb1 := match l with | some l => (l, path) :: lb | none => lb
      go lb1 (match l with | some l => (l, true) :: env | none => env) path next b
    | .iterate l =>
      let stale := !((env.lookup l).getD true)
      ((match lb.lookup l with
        | some rp => stale && !(rp.isSuffixOf path)
        | none => false), lb, next)
    | _ => (false, lb, next)
  (go [] [] [] 0 s).1

end Gms.ProcLang
