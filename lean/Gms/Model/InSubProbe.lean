/-
Impl model of `plan.InSubquery.Eval` (sql/plan/insubquery.go), core-only — the code path behind
`x [NOT] IN (SELECT …)` whenever the subquery is not unnested into a semi/anti join, in particular
for every CORRELATED subquery.

```go
left := in.LeftChild.Eval(ctx, row); leftNull := left == nil
values := right.HashMultiple(ctx, row)        // hash table of the subquery's rows FOR THIS outer row
if leftNull { if values.Size() == 0 { return false }; return nil }
val, notFound := values.Get(hash(left))
if notFound != nil {
    if _, nilNotFound := values.Get(nilKey); nilNotFound == nil { return nil }   // a NULL in the set
    return false
}
return rTyp.Compare(left, val) == 0
```

`probe x ws` is one call: `x` the value of the left operand, `ws` the first column of the rows the
subquery returns for the current outer row. Abstraction: two values have the same hash key iff they
are equal (no collisions; both sides converted to the subquery's column type — the typed fragment
of C02 has one type per comparison).

The `InSubquery` node is ONE object for all outer rows of a query, so its evaluation over a scan is
`probeRows`: a map — call k sees the result set of row k only. `probeMemoRows` is the same scan
with one piece of per-node state that survives from row to row (a memoised "the set contains a
NULL", fixed at the first miss): the class of change the regenerated table `corrRuns` and the
correlated-subquery stream of harness/cmd/c02/corr.go are there to exclude
(`Gms.C02.memo_scan_differs`, `Gms.C02.memo_scan_notIn_null_true`).
-/
import Gms.Model.Sql

namespace Gms.InSubProbe
open Gms.Sql

/-- One call of `InSubquery.Eval`. -/
def probe (x : Value) (ws : List Value) : Value :=
  if x.isNull then (if ws.isEmpty then .int 0 else .null)
  else
    match ws.find? (fun w => decide (w = x)) with          -- values.Get(key)
    | some w => (Tri.ofBool (x.cmp? w == some .eq)).toValue  -- rTyp.Compare(left, val) == 0
    | none => if ws.any Value.isNull then .null else .int 0  -- values.Get(nilKey)

/-- The node evaluated on the successive outer rows of a scan: `(left value, result set)` per row. -/
def probeRows (calls : List (Value × List Value)) : List Value :=
  calls.map (fun c => probe c.1 c.2)

/-- `x NOT IN (…)` of one call, as a truth value. -/
def notInTruth (x : Value) (ws : List Value) : Tri := Tri.not (probe x ws).truth

/-! ### The excluded class: state that survives from one row to the next -/

/-- One call of a variant that remembers, from the first miss on, whether "the" set has a NULL. -/
def probeMemo (memo : Option Bool) (x : Value) (ws : List Value) : Value × Option Bool :=
  if x.isNull then ((if ws.isEmpty then .int 0 else .null), memo)
  else
    match ws.find? (fun w => decide (w = x)) with
    | some w => ((Tri.ofBool (x.cmp? w == some .eq)).toValue, memo)
    | none =>
      let hasNull := match memo with
        | some b => b
        | none => ws.any Value.isNull
      ((if hasNull then .null else .int 0), some hasNull)

def probeMemoRows : Option Bool → List (Value × List Value) → List Value
  | _, [] => []
  | memo, c :: cs =>
    let r := probeMemo memo c.1 c.2
    r.1 :: probeMemoRows r.2 cs

end Gms.InSubProbe
