/-
Known-defect regions of C01 (core-only): decided on the case — the query term and the operator
skeleton of the analyzed plan (join operators in pre-order, `Tbl`/`Idx` leaves) — never on the
outcome.

* `inner_conjunct_lost_at_outer_join` — `joinOrderBuilder.addPlans` collects the filters of the
  inner-join edges that become applicable between two vertex sets, but when a non-inner edge is
  applicable for the same pair it builds only the outer join and passes the collected inner
  filters as `selFilters`, which `addJoin`/`addJoinToGroup` never use. An inner join whose ON has
  several conjuncts is split into one edge per conjunct; l-asscom may then move a LEFT JOIN above
  the inner join, and a conjunct that mentions the LEFT JOIN's right table is silently dropped.
  Region: the term has an inner join with ≥ 2 ON-conjuncts above a left join, and in the plan some
  left outer join operator has an inner-type join operator below/after it (pre-order).
* `hash_exclude_nulls_probe_miss` — `buildHashLookup` for `IsExcludeNulls` joins returns "some
  non-empty bucket" when the probed bucket is empty, which is only right when no right row outside
  the bucket can make the condition NULL. Region: a NOT IN subquery whose own WHERE is correlated
  (the anti-join condition has ≥ 2 conjuncts, so a NULL key part does not make the whole condition
  NULL) executed by a `…HashJoinExcludingNulls` / `AntiHashJoin` operator.
-/
import Gms.Model.Rel
import Gms.Model.PhysKeys
import Gms.Model.JoinConflict

namespace Gms.PhysRegions
open Gms.Sql Gms.Rel

inductive Region where
  | innerConjunctLostAtOuterJoin
  | hashExcludeNullsProbeMiss
  | mergeJoinTupleNullKey
  | transitiveEdgeFromNullsafeEquality
  | hashJoinTupleKeyNotByEquality
  | lookupJoinProbeKeyRounded
  | semiJoinDistinctNotByKeyEquality
  | notInAsLeftOuterJoin
  | lookupJoinNullsafeForAllKeyParts
  | innerConjunctLostByConflictRule
  | leftJoinReplacedByInnerJoin
  deriving DecidableEq, Repr

def Region.name : Region → String
  | .innerConjunctLostAtOuterJoin => "inner_conjunct_lost_at_outer_join"
  | .hashExcludeNullsProbeMiss => "hash_exclude_nulls_probe_miss"
  | .mergeJoinTupleNullKey => "merge_join_tuple_null_key"
  | .transitiveEdgeFromNullsafeEquality => "transitive_edge_from_nullsafe_equality"
  | .hashJoinTupleKeyNotByEquality => "hash_join_tuple_key_not_by_equality"
  | .lookupJoinProbeKeyRounded => "lookup_join_probe_key_rounded"
  | .semiJoinDistinctNotByKeyEquality => "semi_join_distinct_not_by_key_equality"
  | .notInAsLeftOuterJoin => "not_in_as_left_outer_join"
  | .lookupJoinNullsafeForAllKeyParts => "lookup_join_nullsafe_for_all_key_parts"
  | .innerConjunctLostByConflictRule => "inner_conjunct_lost_by_conflict_rule"
  | .leftJoinReplacedByInnerJoin => "left_join_replaced_by_inner_join"

/-- Number of top-level conjuncts. -/
def conjuncts : Expr → Nat
  | .and a b => conjuncts a + conjuncts b
  | _ => 1

/-- Strip the unary operators above the join tree. -/
def joinTree : Query → Query
  | .filter _ q => joinTree q
  | .project _ q => joinTree q
  | .group _ _ _ q => joinTree q
  | .distinct q => joinTree q
  | q => q

def hasLeftJoin : Query → Bool
  | .join .left _ _ _ => true
  | .join _ _ l r => hasLeftJoin l || hasLeftJoin r
  | _ => false

/-- An inner join with several ON-conjuncts somewhere above a left join. -/
def multiConjInnerAboveLeft : Query → Bool
  | .join .inner on l r =>
    (conjuncts on ≥ 2 && (hasLeftJoin l || hasLeftJoin r))
      || multiConjInnerAboveLeft l || multiConjInnerAboveLeft r
  | .join _ _ l r => multiConjInnerAboveLeft l || multiConjInnerAboveLeft r
  | _ => false

def isLeftOuterOp (s : String) : Bool := s.startsWith "LeftOuter"
def isInnerTypeOp (s : String) : Bool :=
  s == "InnerJoin" || s == "HashJoin" || s == "LookupJoin" || s == "MergeJoin" || s == "CrossJoin"
    || s == "CrossHashJoin" || s == "RangeHeapJoin"

/-- Some left outer join operator is followed (pre-order) by an inner-type join operator. -/
def outerAboveInner : List String → Bool
  | [] => false
  | o :: rest => (isLeftOuterOp o && rest.any isInnerTypeOp) || outerAboveInner rest

/-- The encoding of `WHERE (a.ci, a.cj) NOT IN (SELECT b.ck, b.cl FROM b)` (a row-constructor NOT IN
keeps a row iff every conjunction of column equalities is FALSE):
`WHERE NOT EXISTS (SELECT * FROM b WHERE NOT ((… = … AND … = …) IS FALSE))`. -/
def hasTupleNotIn : Query → Bool
  | .filter (.not (.exists (.filter (.not (.isTruth false (.and _ _))) _))) _ => true
  | _ => false

def isHashExclOp (s : String) : Bool :=
  s == "LeftOuterHashJoinExcludingNulls" || s == "AntiHashJoin"

/-- Column pairs of the `<=>` conjuncts in the ON conditions of inner joins. -/
def nseqConj : Expr → List (Nat × Nat)
  | .and a b => nseqConj a ++ nseqConj b
  | .cmp .nseq (.col 0 i) (.col 0 j) => [(i, j)]
  | _ => []

def nseqPairs : Query → List (Nat × Nat)
  | .join .inner on l r => nseqConj on ++ nseqPairs l ++ nseqPairs r
  | .join _ _ l r => nseqPairs l ++ nseqPairs r
  | _ => []

def sharesCol (p q : Nat × Nat) : Bool :=
  p != q && (p.1 == q.1 || p.1 == q.2 || p.2 == q.1 || p.2 == q.2)

/-- Two `<=>` join conjuncts share a column: `a <=> b`, `a <=> c`. -/
def sharedNullsafe (q : Query) : Bool :=
  let ps := nseqPairs q
  ps.any fun p => ps.any fun r => sharesCol p r

def dbHasNull (db : Db) : Bool := db.any fun t => t.rows.any fun r => r.any Value.isNull

/-- A conjunct of the predicate is `e NOT IN (subquery)`. -/
def predHasNotIn : Expr → Bool
  | .not (.inSub _ _) => true
  | .and a b => predHasNotIn a || predHasNotIn b
  | _ => false

/-- Some WHERE of the statement's outer block(s) has a `NOT IN (subquery)` conjunct. -/
def whereNotIn : Query → Bool
  | .filter p q => predHasNotIn p || whereNotIn q
  | .project _ q => whereNotIn q
  | .group _ _ _ q => whereNotIn q
  | .distinct q => whereNotIn q
  | .join _ _ l r => whereNotIn l || whereNotIn r
  | _ => false

/-- `LeftOuterMergeJoin` / `LeftOuterLookupJoin`: the left outer joins that have no
`…ExcludingNulls` variant. -/
def isPlainLeftOuterOp (s : String) : Bool := s == "LeftOuterMergeJoin" || s == "LeftOuterLookupJoin"

/-- * `not_in_as_left_outer_join` — the memo implements the anti join of `x NOT IN (SELECT y …)` as
  `Filter(y-side IS NULL, LeftOuter{Merge,Lookup}Join(x = y))`. That is the NOT EXISTS reading: a left
  row whose `x` is NULL, and every unmatched left row when some `y` is NULL, is kept although NOT IN
  is NULL there (only the hash variant has an `ExcludingNulls` form). Region: a `NOT IN (subquery)`
  conjunct in a WHERE, a plain left outer merge/lookup join in the plan, a NULL in the database. -/
def notInRegion (db : Db) (q : Query) (ops : List String) : Bool :=
  whereNotIn q && ops.any isPlainLeftOuterOp && dbHasNull db

/-- Column-to-column conjuncts of an ON condition with the given comparison. -/
def colCmpConj (op : CmpOp) : Expr → Nat
  | .and a b => colCmpConj op a + colCmpConj op b
  | .cmp o (.col 0 _) (.col 0 _) => if o == op then 1 else 0
  | _ => 0

/-- Some join's ON has a `<=>` conjunct beside an `=` conjunct (both column to column). -/
def mixedNullsafeOn : Query → Bool
  | .join _ on l r =>
    (colCmpConj .nseq on ≥ 1 && colCmpConj .eq on ≥ 1) || mixedNullsafeOn l || mixedNullsafeOn r
  | _ => false

def isLookupJoinOp (s : String) : Bool :=
  s == "LookupJoin" || s == "LeftOuterLookupJoin" || s == "SemiLookupJoin" || s == "AntiLookupJoin"
    || s == "AntiLookupIncludingNulls"

/-- * `lookup_join_nullsafe_for_all_key_parts` — when ONE conjunct of a join condition is `<=>`, the
  index lookup built for the join matches NULL keys for EVERY key part it is keyed on — also for a
  part that comes from a plain `=` conjunct, which is then dropped as "implied by the lookup": rows
  whose `=` columns are both NULL join. Region: an ON with a `<=>` conjunct beside an `=` conjunct, a
  lookup join in the plan, a NULL in the database. -/
def nullsafeLookupRegion (db : Db) (q : Query) (ops : List String) : Bool :=
  mixedNullsafeOn (joinTree q) && ops.any isLookupJoinOp && dbHasNull db

/-- * `inner_conjunct_lost_by_conflict_rule` — see `Gms/Model/JoinConflict.lean`: the join tree is a
  left-deep chain of inner joins over base tables, and the model of the builder's conflict
  detection (`calcTES` rules + `applicable`) puts some ON-conjunct over ≥ 2 tables at NO join node of
  this plan (`leaves` = the chain position of every leaf of the plan skeleton). Decided on the query
  term and the plan skeleton. Needs ≥ 4 tables (`Gms.C01.no_rules_upto_three_tables`). -/
def conflictRuleRegion (db : Db) (q : Query) (ops : List String) (leaves : List Nat) : Bool :=
  Gms.JoinConflict.conjunctLost db (joinTree q) ops leaves

/-- Number of LEFT JOINs of the join tree. -/
def leftJoins : Query → Nat
  | .join .left _ l r => 1 + leftJoins l + leftJoins r
  | .join _ _ l r => leftJoins l + leftJoins r
  | _ => 0

/-- * `left_join_replaced_by_inner_join` — `ensureClosure` derives from equalities above a LEFT JOIN an
  edge between the LEFT JOIN's two sides and registers it as an inner edge; `addPlans` may then join
  the two sides as an INNER join on that edge alone, without the LEFT JOIN's ON. Region: the plan has
  fewer left outer join operators than the term has LEFT JOINs (no other plan of the generated
  queries ever has: the builder has no rule that turns a LEFT JOIN into an inner join on purpose). -/
def leftJoinReplaced (q : Query) (ops : List String) : Bool :=
  leftJoins (joinTree q) > (ops.filter isLeftOuterOp).length

def region (db : Db) (q : Query) (ops : List String) (leaves : List Nat := []) : Option Region :=
  if conflictRuleRegion db q ops leaves then some .innerConjunctLostByConflictRule
  else if leftJoinReplaced q ops then some .leftJoinReplacedByInnerJoin
  else if multiConjInnerAboveLeft (joinTree q) && outerAboveInner ops then
    some .innerConjunctLostAtOuterJoin
  else if ops.contains "TupleCmp" && dbHasNull db then some .mergeJoinTupleNullKey
  else if sharedNullsafe (joinTree q) then some .transitiveEdgeFromNullsafeEquality
  else if hasTupleNotIn q && ops.any isHashExclOp then some .hashExcludeNullsProbeMiss
  else if notInRegion db q ops then some .notInAsLeftOuterJoin
  else if nullsafeLookupRegion db q ops then some .lookupJoinNullsafeForAllKeyParts
  else none

/-! ### Regions of the `keq` stream (join keys whose equality is not byte equality)

Decided on the case: the key kinds, the STORED values, the query term and the operator skeleton
(which for this stream also has `TupleKey` — some HashLookup is keyed by a row constructor — and
`Distinct`). -/

open Gms.PhysKeys in
/-- The non-NULL values of the non-raw key columns with their normal forms. -/
def keyValues (kss : List (List KeyKind)) (db : Db) : List (Value × Value) :=
  (kss.zip db).flatMap fun p =>
    p.2.rows.flatMap fun row =>
      (p.1.zip row).filterMap fun kv =>
        if kv.1 == .raw || kv.2.isNull then none
        else (normValue kv.1 kv.2).map fun n => (n, kv.2)

/-- Two stored key values are equal as join keys without being the same stored value
(`'Bob'`/`'BOB'`, `1`/`1.0`, `1.5`/`1.500`, `0.0`/`-0.0`). -/
def dbHasKeyVariants (kss : List (List Gms.PhysKeys.KeyKind)) (db : Db) : Bool :=
  let kv := keyValues kss db
  kv.any fun a => kv.any fun b => a.1 == b.1 && a.2 != b.2

/-- Some key column is of an integral numeric type. -/
def hasIntegralKeyColumn (kss : List (List Gms.PhysKeys.KeyKind)) : Bool :=
  kss.any fun ks => ks.contains .numZ

/-- Some stored value of a fraction-capable numeric key column is not an integer. -/
def hasFractionalKey (kss : List (List Gms.PhysKeys.KeyKind)) (db : Db) : Bool :=
  (kss.zip db).any fun p => p.2.rows.any fun row => (p.1.zip row).any fun kv =>
    kv.1 == .num && (match Gms.PhysKeys.normValue kv.1 kv.2 with
      | some (.int n) => n % 1000 != 0
      | _ => false)

def isLookupOp (s : String) : Bool :=
  s == "LookupJoin" || s == "LeftOuterLookupJoin" || s == "SemiLookupJoin" || s == "AntiLookupJoin"
    || s == "AntiLookupIncludingNulls"

/-- * `semi_join_distinct_not_by_key_equality` — the memo turns a semi join (`IN` / `EXISTS`) into an
  inner join over `Distinct(right side projected on the key)`; `plan.Distinct` hashes rows without a
  schema (C07 `distinct_collation`, `distinct_decimal_scale`), so two right keys that are equal as
  join keys but stored differently both survive and a left row matching them is returned twice —
  unlike under a `Semi…Join` plan. Region: a `Distinct` in the plan and key variants in the database.
* `lookup_join_probe_key_rounded` — a lookup join converts the probe value to the type of the
  index column (`2.5` → `3` for a BIGINT index) and does not re-check the equality: rows join that
  are not equal. Region: a lookup join in the plan, an integral key column, and a stored key value
  of a fraction-capable key column that is not an integer.
* `hash_join_tuple_key_not_by_equality` — `plan.NewHashLookup` derives `leftKeySch` from the
  single row-constructor expression of a multi-column key (`hash.ExprsToSchema(ctx, leftProbeKey)`: ONE
  column of tuple type), so `hash.HashOf` finds no `StringType` for the key parts and hashes strings
  by their bytes and decimals by their scale-preserving text: rows whose key parts are equal under the
  collation / numerically but stored differently land in different buckets and are lost (after the
  first left row, which still scans the whole right side). Region: some HashLookup of the plan is
  keyed by a row constructor and the database has key variants. -/
def keqRegion (kss : List (List Gms.PhysKeys.KeyKind)) (rawDb : Db) (_q : Query) (ops : List String) :
    Option Region :=
  if ops.contains "TupleKey" && dbHasKeyVariants kss rawDb then some .hashJoinTupleKeyNotByEquality
  else if ops.contains "Distinct" && dbHasKeyVariants kss rawDb then some .semiJoinDistinctNotByKeyEquality
  else if ops.any isLookupOp && hasIntegralKeyColumn kss && hasFractionalKey kss rawDb then
    some .lookupJoinProbeKeyRounded
  else none

end Gms.PhysRegions
