/-
M5c `RowAlias` — who may write into the cells of a stored row: the row-building path of
`INSERT … [ON DUPLICATE KEY UPDATE …]` with Go's slice semantics (core-only, executable). Used by
C15 (statement atomicity).

Why a memory model. A `sql.Row` is a Go slice: a view `arr[0:len]` of a backing array that may be
longer than the view (`cap > len`). The in-memory tables store the very slice the statement hands
to the editor, the `Existing` row of a unique-key error *is* the stored slice, and
`TableData.copy()` (the statement snapshot, the session copy) copies partition slices but shares
the rows. Statement atomicity — every effect of a statement goes through the edit accumulator and
is dropped by `DiscardChanges` — therefore rests on an invariant that is nowhere written down in
the source: **no cell `arr[i]`, `i < len`, of a row that is reachable from the table is ever
written in place.** The path that comes closest to breaking it is ON DUPLICATE KEY UPDATE:

    handleOnDuplicateKeyUpdate(oldRow = ue.Existing, newRow):
        updateAcc := append(oldRow, newRow...)       -- in place when cap(oldRow) ≥ len+len !
        for each SET:  updateAcc = SetField.Eval(updateAcc)   -- row.Copy(), then copy[idx] = val
        evalRow := updateAcc[:len(oldRow)]           -- a prefix of a 2N array: N cells to spare
        evaluateChecks(evalRow); updater.Update(oldRow, evalRow)

A row stored by this path has spare capacity, so the *next* `append(oldRow, newRow...)` on it does
not allocate: the "scratch" accumulator is the stored array. That is harmless exactly as long as
everything afterwards writes either beyond `len` (the append itself) or into a fresh copy
(`SetField.Eval`). This file models that path with explicit backing arrays; `Gms/Props/C15.lean`
proves the frame property for every memory, every capacity and every statement, and shows that the
variant which assigns into the accumulator in place loses it.

Sources modelled:
* sql/rows.go              `Row.Copy` / `NewRow` (`make` + `copy`: a fresh array, cap = len)
* sql/expression/set.go    `SetField.Eval` (evaluate against the accumulator, copy, assign into the copy)
* sql/rowexec/insert.go    `insertIter.Next` (nullability and CHECK of the incoming row, conversion,
                           `inserter.Insert`, duplicate → `handleOnDuplicateKeyUpdate`),
                           `handleOnDuplicateKeyUpdate`, `applyUpdates`
* memory/table_editor.go   the accumulator seen as "the table with the pending edits applied"
                           (the physical layout is `Gms/Model/MemIndex.lean`'s business)
* sql/plan/table_editor.go `TableEditorIter.Close`: failure ⇒ the stored rows of before

Abstractions: one table with a single-column primary key (column 0) and no other unique key;
values NULL / integer / string (a string never converts to the BIGINT columns: conversion error);
`slack` extra cells the allocator may add to any allocation (Go's size classes) is a parameter;
Go map order = list order (observations are sorted).
-/
import Gms.Model.MemTable
namespace Gms.RowAlias
open Gms.MemTable

/-! ## Backing arrays and slices -/

/-- the heap of backing arrays (`[]interface{}` objects), addressed by position. -/
abbrev Mem := List (List Val)

/-- a Go slice header on this path: `arr[0:len]` (the offset is always 0), `cap` = length of the array. -/
structure Slice where
  arr : Nat
  len : Nat
  deriving DecidableEq, Repr, Inhabited

def arrOf (m : Mem) (a : Nat) : List Val := (m[a]?).getD []

/-- what a reader of the slice sees. -/
def view (m : Mem) (s : Slice) : Row := (arrOf m s.arr).take s.len

def capOf (m : Mem) (s : Slice) : Nat := (arrOf m s.arr).length

/-- Go: `make(Row, len(vs)) + copy` (`NewRow`, `Row.Copy`), the allocator rounding the array up by `slack` cells. -/
def alloc (m : Mem) (vs : Row) (slack : Nat) : Mem × Slice :=
  (m ++ [vs ++ List.replicate slack .null], ⟨m.length, vs.length⟩)

/-- Go: `append(s, vs...)`: **in place** when the backing array has room, a fresh array otherwise. -/
def appendS (m : Mem) (s : Slice) (vs : Row) (slack : Nat) : Mem × Slice :=
  if s.len + vs.length ≤ capOf m s then
    (m.set s.arr ((arrOf m s.arr).take s.len ++ vs ++ (arrOf m s.arr).drop (s.len + vs.length)),
     ⟨s.arr, s.len + vs.length⟩)
  else
    alloc m (view m s ++ vs) slack

/-- Go: `s[i] = v` (in place; `i < len` or the real code panics — then nothing is written). -/
def setS (m : Mem) (s : Slice) (i : Nat) (v : Val) : Mem :=
  if i < s.len then m.set s.arr ((arrOf m s.arr).set i v) else m

/-! ## Assignments of ON DUPLICATE KEY UPDATE -/

/-- Go: the right-hand side of one `SetField`, evaluated against the accumulator row
`old ++ new` (`VALUES(c)` is `GetField(n + c)`): the assigned column and its new value. -/
def asgEval (n : Nat) (acc : Row) : Asg → Nat × Val
  | .set c v => (c, v)
  | .add c k => (c, match acc.at c with
                    | .int i => .int (i + k)
                    | _ => .null)
  | .vals c => (c, acc.at (n + c))

/-- Go: `SetField.Eval(ctx, row)`: evaluate, `updatedRow := row.Copy()`, `updatedRow[idx] = val`.
The argument is never written. -/
def setField (slack : Nat) (n : Nat) (m : Mem) (acc : Slice) (a : Asg) : Mem × Slice :=
  let cv := asgEval n (view m acc) a
  let cp := alloc m (view m acc) slack
  (setS cp.1 cp.2 cv.1 cv.2, cp.2)

/-- NOT in the source: the variant that assigns into the accumulator itself (an "obvious"
allocation saving). Kept only to show what the frame theorem excludes (`Props/C15.lean`:
`inplace_assignment_breaks_atomicity`). -/
def setFieldInPlace (_slack : Nat) (n : Nat) (m : Mem) (acc : Slice) (a : Asg) : Mem × Slice :=
  let cv := asgEval n (view m acc) a
  (setS m acc cv.1 cv.2, acc)

/-- the pure value of the assignment chain on the accumulator. -/
def accAfter (n : Nat) (acc : Row) (asg : List Asg) : Row :=
  asg.foldl (fun acc a => acc.set (asgEval n acc a).1 (asgEval n acc a).2) acc

/-- Spec of ON DUPLICATE KEY UPDATE on values: the old row after the assignments, each evaluated
left to right against (row so far) ++ (row from VALUES). -/
def specAsg (n : Nat) (old new : Row) (asg : List Asg) : Row := (accAfter n (old ++ new) asg).take n

/-! ## The table and a statement -/

/-- static description: number of columns, NOT NULL columns, `CHECK (col < bound)`, allocator slack. -/
structure Cfg where
  n : Nat
  nn : List Nat := []
  ck : Option (Nat × Int) := none
  slack : Nat := 0
  deriving Repr, Inhabited

def isStr : Val → Bool
  | .str _ => true
  | _ => false

def checkFails (cfg : Cfg) (r : Row) : Bool :=
  match cfg.ck with
  | none => false
  | some (c, b) => match r.at c with
    | .int i => !decide (i < b)
    | _ => false

/-- Go: `insertIter.Next` before the editor is called: `validateNullability`, `evaluateChecks`,
conversion to the column types (a string is not a BIGINT). -/
def badNew (cfg : Cfg) (r : Row) : Bool :=
  cfg.nn.any (fun c => r.at c == .null) || checkFails cfg r || r.any isStr

/-- Go: `handleOnDuplicateKeyUpdate` re-evaluates the CHECK constraints on the updated row. -/
def badUpd (cfg : Cfg) (r : Row) : Bool := checkFails cfg r

/-- the committed table: backing arrays and the stored rows (slices into them). -/
structure St where
  mem : Mem
  rows : List Slice
  deriving Repr, Inhabited

/-- inside a statement: the memory and the table as the accumulator shows it (stored rows with the
pending edits applied) — `pkTableEditAccumulator.Get` answers from here. -/
structure Work where
  mem : Mem
  cur : List Slice
  deriving Repr, Inhabited

def visibleOf (m : Mem) (ss : List Slice) : List Row := ss.map (view m)

/-- what a reader of the committed table sees. -/
def visible (st : St) : List Row := visibleOf st.mem st.rows

inductive Stmt where
  | ins (rows : List Row)                        -- INSERT … VALUES …
  | odku (rows : List Row) (asg : List Asg)      -- … ON DUPLICATE KEY UPDATE …
  deriving Repr, Inhabited

def Stmt.rows : Stmt → List Row
  | .ins rs => rs
  | .odku rs _ => rs

def Stmt.asg : Stmt → Option (List Asg)
  | .ins _ => none
  | .odku _ a => some a

abbrev SetFn := Nat → Nat → Mem → Slice → Asg → Mem × Slice

/-- Go: `applyUpdates`: the chain of `SetField`s over the accumulator. -/
def applyUpdates (sf : SetFn) (cfg : Cfg) (m : Mem) (acc : Slice) (asg : List Asg) : Mem × Slice :=
  asg.foldl (fun ma a => sf cfg.slack cfg.n ma.1 ma.2 a) (m, acc)

/-- Go: one `insertIter.Next`: the incoming row is checked and stored (`inserter.Insert`), or it
hits a stored / pending row with the same key: duplicate-key error for a plain INSERT,
`handleOnDuplicateKeyUpdate` otherwise. Returns the work state (memory effects included even when
the row fails) and whether the row failed. -/
def stepRow (sf : SetFn) (cfg : Cfg) (asg : Option (List Asg)) (w : Work) (r : Row) : Work × Bool :=
  if badNew cfg r then (w, true)
  else
    match (visibleOf w.mem w.cur).findIdx? (fun x => x.at 0 == r.at 0) with
    | none =>
      let al := alloc w.mem r cfg.slack
      ({ mem := al.1, cur := w.cur ++ [al.2] }, false)
    | some i =>
      match asg with
      | none => (w, true)
      | some asg =>
        let old := w.cur.getD i default
        let ap := appendS w.mem old r cfg.slack
        let up := applyUpdates sf cfg ap.1 ap.2 asg
        let ev : Slice := ⟨up.2.arr, old.len⟩
        if badUpd cfg (view up.1 ev) then ({ mem := up.1, cur := w.cur }, true)
        else ({ mem := up.1, cur := w.cur.set i ev }, false)

/-- the rows of a statement until the first failure. -/
def runRows (sf : SetFn) (cfg : Cfg) (asg : Option (List Asg)) : Work → List Row → Work × Bool
  | w, [] => (w, false)
  | w, r :: rs =>
    match stepRow sf cfg asg w r with
    | (w', true) => (w', true)
    | (w', false) => runRows sf cfg asg w' rs

/-- Go: `TableEditorIter` around the insert iterator: a failure publishes the stored rows of
before (`DiscardChanges`: the snapshot shares the row slices — and the memory is whatever the
statement left behind), success publishes the accumulated table. -/
def runStmtG (sf : SetFn) (cfg : Cfg) (st : St) (s : Stmt) : St × Bool :=
  match runRows sf cfg s.asg ⟨st.mem, st.rows⟩ s.rows with
  | (w, true) => ({ mem := w.mem, rows := st.rows }, true)
  | (w, false) => ({ mem := w.mem, rows := w.cur }, false)

/-- the Impl model: the source's `SetField.Eval`. -/
def runStmt (cfg : Cfg) (st : St) (s : Stmt) : St × Bool := runStmtG setField cfg st s

def runHistory (cfg : Cfg) : St → List Stmt → St
  | st, [] => st
  | st, s :: ss => runHistory cfg (runStmt cfg st s).1 ss

/-! ## Spec: the same statement on values (no memory) -/

def specRow (cfg : Cfg) (asg : Option (List Asg)) (t : List Row) (r : Row) : Option (List Row) :=
  if badNew cfg r then none
  else
    match t.findIdx? (fun x => x.at 0 == r.at 0) with
    | none => some (t ++ [r])
    | some i =>
      match asg with
      | none => none
      | some asg =>
        let ev := specAsg cfg.n (t.getD i []) r asg
        if badUpd cfg ev then none else some (t.set i ev)

def specRows (cfg : Cfg) (asg : Option (List Asg)) : List Row → List Row → Option (List Row)
  | t, [] => some t
  | t, r :: rs =>
    match specRow cfg asg t r with
    | none => none
    | some t' => specRows cfg asg t' rs

/-- all or nothing: the table after the statement and whether it failed. -/
def specStmt (cfg : Cfg) (t : List Row) (s : Stmt) : List Row × Bool :=
  match specRows cfg s.asg t s.rows with
  | none => (t, true)
  | some t' => (t', false)

/-! ## Well-formedness -/

/-- the slice lies inside an existing array. -/
def Valid (m : Mem) (s : Slice) : Prop := s.arr < m.length ∧ s.len ≤ capOf m s

instance (m : Mem) (s : Slice) : Decidable (Valid m s) := inferInstanceAs (Decidable (_ ∧ _))

/-- every row in play is a valid slice of exactly `n` cells (its capacity is arbitrary). -/
def WF (n : Nat) (m : Mem) (ss : List Slice) : Prop := ∀ s ∈ ss, s.len = n ∧ Valid m s

/-- **Frame**: every array that existed keeps its length and its first `n` cells. -/
def Frame (n : Nat) (m m' : Mem) : Prop :=
  m.length ≤ m'.length ∧
  ∀ a, a < m.length → (arrOf m' a).take n = (arrOf m a).take n ∧ (arrOf m' a).length = (arrOf m a).length

end Gms.RowAlias
