/-
C09 — conversions and text generalisation (core-only model).

Part 1 — `types.GeneralizeTypes`, text/text branch (sql/types/conversion.go): the declared type of
CASE / IF / IFNULL and of set-operation columns over two text operands
* `TextTy`          – CHAR/VARCHAR (limit in characters) and TINYTEXT…LONGTEXT (limit in bytes) with the
                      character set's bytes-per-character
* `accepts`         – Spec and Impl model of "the type's Convert accepts the string" (ASCII-only data in
                      single-byte character sets, see harness/cmd/c09/conv.go)
* `generalizeText`  – Impl model: the operand with the larger `Length()` (characters), the second on a tie
* `covers`          – Spec: the result type accepts every value either operand can hold
* `generalizeBytes` – the tempting variant "larger `MaxByteLength()`" (unsound across character sets)

Part 2 — `expression.Convert` (sql/expression/convert.go): CAST / CONVERT and the implicit conversions
of set operations
* `Conv`            – the 14 targets
* `Src`             – classes of input values as `Convert.Eval` distinguishes them
* `convOut`         – Impl model of `Convert.Eval`: a value, NULL (every conversion failure is turned into
                      NULL, mostly with a warning) or an error (JSON only)
* `nullConv`        – Impl model of `Convert.IsNullable`
* `setopTarget`     – Impl model of `GetConvertToType` (the conversion `mergeSetOpSchemas` wraps around
                      both sides of a set operation whose column types differ)
-/
import Gms.Model.Utf8

namespace Gms.ConvType

/-! ## Part 1: text generalisation -/

structure TextTy where
  text : Bool    -- TINYTEXT … LONGTEXT (byte limit) rather than CHAR / VARCHAR (character limit)
  chars : Nat    -- `Length()` = maxCharLength
  bytes : Nat    -- `MaxByteLength()`
  mb : Nat       -- `CharacterSet().MaxLength()`
  deriving DecidableEq, Repr, Inhabited

/-- A string, abstracted to what the length checks depend on. -/
structure Str where
  chars : Nat
  bytes : Nat
  deriving DecidableEq, Repr, Inhabited

/-- `StringType.Convert` accepts the string: TEXT types count bytes, CHAR/VARCHAR characters. -/
def accepts (t : TextTy) (s : Str) : Bool :=
  if t.text then decide (s.bytes ≤ t.bytes) else decide (s.chars ≤ t.chars)

/-- Go: `if sta.Length() > stb.Length() { return a }; return b`. -/
def generalizeText (a b : TextTy) : TextTy := if a.chars > b.chars then a else b

/-- The variant that compares storage widths. -/
def generalizeBytes (a b : TextTy) : TextTy := if a.bytes > b.bytes then a else b

/-- `s` can be stored in a column of type `t` when no character takes more than `w` bytes. -/
def Fits (t : TextTy) (w : Nat) (s : Str) : Prop :=
  accepts t s = true ∧ s.chars ≤ s.bytes ∧ s.bytes ≤ s.chars * w

/-- The longest value of the type: it dominates every other one in characters and in bytes. -/
def top (t : TextTy) (w : Nat) : Str :=
  if t.text then ⟨t.bytes, t.bytes⟩ else ⟨t.chars, t.chars * w⟩

/-- Spec: `r` accepts the longest values of both operands (hence all their values, `covers_iff`). -/
def covers (r a b : TextTy) (wa wb : Nat) : Bool := accepts r (top a wa) && accepts r (top b wb)

/-- The byte limits of TINYTEXT, TEXT, MEDIUMTEXT, LONGTEXT. -/
def tiers : List Nat := [255, 65535, 16777215, 4294967295]

/-- Well-formed as `CreateString` builds it. -/
def TextTy.wf (t : TextTy) : Bool :=
  decide (1 ≤ t.mb) && decide (t.mb ≤ 4) &&
    (if t.text then tiers.contains t.bytes && t.chars == t.bytes / t.mb else t.bytes == t.chars * t.mb)

def TextTy.ofTuple (t : Bool × Nat × Nat × Nat) : TextTy := ⟨t.1, t.2.1, t.2.2.1, t.2.2.2⟩

/-- Defect class: a character-limited and a byte-limited operand are compared by `Length()`. -/
def MixedFamily (a b : TextTy) : Bool := a.text != b.text

/-! ## Part 2: conversions -/

inductive Conv where
  | binary | char | nchar | date | datetime | decimal | float | double | real | json | signed | time
  | unsigned | year
  deriving DecidableEq, Repr, Inhabited

def Conv.all : List Conv :=
  [.binary, .char, .nchar, .date, .datetime, .decimal, .float, .double, .real, .json, .signed, .time,
   .unsigned, .year]

/-- The `castToType` constant. -/
def Conv.name : Conv → String
  | .binary => "binary" | .char => "char" | .nchar => "nchar" | .date => "date"
  | .datetime => "datetime" | .decimal => "decimal" | .float => "float" | .double => "double"
  | .real => "real" | .json => "json" | .signed => "signed" | .time => "time"
  | .unsigned => "unsigned" | .year => "year"

/-- The name of the Go constant. -/
def Conv.goConst : Conv → String
  | .binary => "ConvertToBinary" | .char => "ConvertToChar" | .nchar => "ConvertToNChar"
  | .date => "ConvertToDate" | .datetime => "ConvertToDatetime" | .decimal => "ConvertToDecimal"
  | .float => "ConvertToFloat" | .double => "ConvertToDouble" | .real => "ConvertToReal"
  | .json => "ConvertToJSON" | .signed => "ConvertToSigned" | .time => "ConvertToTime"
  | .unsigned => "ConvertToUnsigned" | .year => "ConvertToYear"

/-- Go: the first `case` of the switch in `Convert.IsNullable` (`return true`). -/
def convAlways : Conv → Bool
  | .date | .datetime | .binary | .char | .nchar => true
  | _ => false

/-- Go: `Convert.IsNullable` (`default: return c.Child.IsNullable(ctx)`). -/
def nullConv (c : Conv) (child : Bool) : Bool := convAlways c || child

/-- What a text / byte-string value parses as. `unenc`: text with a character its column's character
set cannot encode (the engine stores any UTF-8 string in any column). -/
inductive Shape where
  | date | datetime | time | num | junk | empty | json | unenc
  deriving DecidableEq, Repr, Inhabited

inductive TKind where
  | date | datetime | time
  deriving DecidableEq, Repr, Inhabited

inductive Src where
  | null
  | num (big : Bool)                              -- any Go number (also a YEAR value); `big`: not a valid hhmmss
  | text (sh : Shape)                             -- Go string from a CHAR / VARCHAR / TEXT column
  | bytes (b : Utf8.Bytes) (blob : Bool) (sh : Shape)  -- []byte from BINARY / VARBINARY (`blob = false`) or BLOB
  | temporal (k : TKind)                          -- time.Time / Timespan
  deriving DecidableEq, Repr, Inhabited

inductive Out where
  | val | null | err
  deriving DecidableEq, Repr, Inhabited

def Shape.dateLike : Shape → Bool
  | .date | .datetime => true
  | _ => false

def Shape.timeLike : Shape → Bool
  | .time | .num | .empty => true
  | _ => false

def Shape.jsonLike : Shape → Bool
  | .num | .json => true
  | _ => false

/-- The numeric targets (`ConvertHexBlobToDecimalForNumericContext` first). -/
def Conv.numeric : Conv → Bool
  | .decimal | .float | .double | .real | .signed | .unsigned | .year => true
  | _ => false

/-- Go: `Convert.Eval` (with `convertValue`): what comes out for a value of the class. -/
def convOut (c : Conv) (s : Src) : Out :=
  match s with
  | .null => .null                                           -- `if val == nil { return nil, nil }`
  | _ =>
  match c with
  | .binary =>                                               -- re-encoding into the origin character set
    match s with
    | .text .unenc => .null
    | _ => .val
  | .char | .nchar =>                                        -- LongText.Convert: strict mode rejects invalid UTF-8
    match s with
    | .bytes b _ _ => if Utf8.validUtf8 b then .val else .null
    | _ => .val
  | .date | .datetime =>                                     -- only time / string / []byte inputs; parse failure → NULL
    match s with
    | .text sh => if sh.dateLike then .val else .null
    | .bytes _ _ sh => if sh.dateLike then .val else .null
    | .temporal k => if k = .date ∨ k = .datetime then .val else .null
    | _ => .null
  | .time =>                                                 -- `Time.Convert` error → NULL
    match s with
    | .num big => if big then .null else .val
    | .text sh => if sh.timeLike then .val else .null
    | .bytes _ _ _ => .null
    | _ => .val
  | .json =>                                                 -- the only target whose failure is an error
    match s with
    | .text sh => if sh.jsonLike then .val else .err
    | .bytes _ _ sh => if sh.jsonLike then .val else .err
    | _ => .val
  | _ =>                                                     -- numeric targets: a BLOB is read as a hexadecimal number
    match s with                                             -- (`strconv.ParseUint(hex, 16, 64)`: not empty, < 2^64)
    | .bytes b true _ => if b.length = 0 ∨ (b.dropWhile (· == 0)).length > 8 then .null else .val
    | _ => .val

/-- Defect classes of the unchanged tree: conversions that can fail although their flag is inherited. -/
inductive ConvRegion where
  | time          -- CAST(x AS TIME) of a value that is no time
  | blobNumeric   -- CAST(blob AS SIGNED / UNSIGNED / DECIMAL / FLOAT / DOUBLE / REAL / YEAR) of no byte or of a number ≥ 2^64
  | none
  deriving DecidableEq, Repr, Inhabited

def ConvRegion.name : ConvRegion → String
  | .time => "convert_time_notnull" | .blobNumeric => "convert_blob_numeric_notnull" | .none => "-"

def convRegion (c : Conv) (s : Src) : ConvRegion :=
  if s = .null ∨ convOut c s ≠ .null then .none
  else if c = .time then .time
  else if c.numeric then .blobNumeric
  else .none

/-! ### Implicit conversions of set operations -/

/-- Type families as `GetConvertToType` distinguishes them. -/
inductive Fam where
  | null | blob | decimal | bit | uint | sint | float | year | other
  deriving DecidableEq, Repr, Inhabited

def Fam.ofName : String → Option Fam
  | "null" => some .null | "blob" => some .blob | "decimal" => some .decimal | "bit" => some .bit
  | "uint" => some .uint | "sint" => some .sint | "float" => some .float | "year" => some .year
  | "other" => some .other
  | _ => none

def Fam.isNumber : Fam → Bool
  | .decimal | .bit | .uint | .sint | .float | .year => true
  | _ => false

/-- Go: `GetConvertToType(l, r)`. -/
def setopTarget (l r : Fam) : Conv :=
  let go (l r : Fam) : Conv :=
    if !l.isNumber || !r.isNumber then (if l = .blob ∨ r = .blob then .binary else .char)
    else if l = .decimal ∨ r = .decimal then .decimal
    else if l = .bit ∨ r = .bit then .signed
    else if l = .uint ∧ r = .uint then .unsigned
    else if l = .sint ∧ r = .sint then .signed
    else if (l = .sint ∨ l = .uint) ∧ (r = .sint ∨ r = .uint) then .signed
    else .char
  if l = .null then go r r else if r = .null then go l l else go l r

/-- The `Nullable` flag `SetOp.Schema` reports for a column whose sides have flags `nl`, `nr`:
`same` = the two column types are `Equals` (no conversion is inserted). -/
def setopFlag (same : Bool) (l r : Fam) (nl nr : Bool) : Bool :=
  if same then nl || nr else nullConv (setopTarget l r) nl || nullConv (setopTarget l r) nr

/-- … and the flag the *enclosing scope* keeps for the column of a set operation in a derived table
(`mergeSetOpScopeColumns`: `left.nullable || right.nullable`, before any conversion). -/
def setopScopeFlag (nl nr : Bool) : Bool := nl || nr

end Gms.ConvType
