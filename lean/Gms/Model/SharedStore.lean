/-
C36 — the storage all sessions share, and the access paths of read-only statements (core-only).

The in-memory backend keeps one copy of a table: the rows of a partition in a slice
(`TableData.partitions`) and, per secondary index, a slice of index rows
(`TableData.secondaryIndexStorage`), each carrying the extended key (indexed value, primary key)
and the location (partition, position) of its row in the primary storage. Every session reads
these slices. The model keeps one partition (tables created through SQL have one) and one
secondary index over the column `v`.

  * `Phys`      the physical storage: rows in STORED order, index entries in STORED order;
  * `implEval`  Impl: the access paths of memory/table.go —
                  primary-key lookup (`Table.PartitionRows` on a `rangePartition` + the sort in
                  `IndexedTable.PartitionRows`): the partition's rows, range filter, stable sort by
                  the key in index direction;
                  secondary-index lookup (`indexScanRowIter`): the index entries walked forwards or
                  backwards, the range evaluated on the entry's key, the row taken from the
                  position the entry points at (an entry pointing past the end is skipped);
                  full scan: the partition's rows;
  * `specEval`  Spec: the statement's meaning on the logical table (the set of rows, given in
                primary-key order), no positions, no index;
  * `Consistent` what the table editor maintains: rows stored in strictly ascending key order,
                every position indexed exactly once by an entry with that row's key, entries in key
                order;
  * `execCopy` / `execAlias`  one statement as a state transformer of the storage: the real code
                sorts a COPY of the partition (`execCopy`, the storage is returned unchanged);
                `execAlias` is the defect class "the iterator walks the stored slice itself", in
                which the sort of a primary-key lookup lands in the storage.
-/
namespace Gms.SharedStore

structure Row where
  pk : Int
  v : Option Int
  deriving DecidableEq, Repr

/-- One row of the secondary-index storage. -/
structure Entry where
  key : Option Int
  pk : Int
  idx : Nat
  deriving DecidableEq, Repr

structure Phys where
  rows : List Row
  sec : List Entry
  deriving DecidableEq, Repr

/-- Read-only statements over one table. Bounds are inclusive, `none` = open. -/
inductive Q where
  /-- `SELECT pk, v FROM p WHERE pk <range> ORDER BY pk [DESC] [LIMIT n]` -/
  | pkr (lo hi : Option Int) (desc : Bool) (lim : Option Nat)
  /-- `SELECT pk, v FROM p WHERE v BETWEEN lo AND hi` (also `v = k`); no order requested: the
  observation is the rows sorted by primary key -/
  | srows (lo hi : Int)
  /-- `SELECT v FROM p WHERE v <range> ORDER BY v [DESC]` -/
  | srng (lo hi : Option Int) (desc : Bool)
  /-- `SELECT pk, v FROM p`; observation sorted by primary key -/
  | scan
  /-- `SELECT COUNT(*), COUNT(v), MIN(pk), MAX(pk) FROM p` -/
  | agg
  deriving DecidableEq, Repr

abbrev Result := List (List (Option Int))

/-! ### orders and the stable insertion sort (`sort.Stable`) -/

def insertBy {α : Type} (le : α → α → Bool) (x : α) : List α → List α
  | [] => [x]
  | y :: ys => if le x y then x :: y :: ys else y :: insertBy le x ys

/-- Stable: an element is placed before the first later element it is `le` to. -/
def sortBy {α : Type} (le : α → α → Bool) : List α → List α
  | [] => []
  | x :: xs => insertBy le x (sortBy le xs)

def pkLe (a b : Row) : Bool := decide (a.pk ≤ b.pk)
def pkGe (a b : Row) : Bool := decide (b.pk ≤ a.pk)

/-- SQL index order on a nullable integer: NULL first. -/
def optLe : Option Int → Option Int → Bool
  | none, _ => true
  | some _, none => false
  | some a, some b => decide (a ≤ b)

/-! ### ranges -/

def geLo : Option Int → Int → Bool
  | none, _ => true
  | some l, x => decide (l ≤ x)

def leHi : Option Int → Int → Bool
  | none, _ => true
  | some h, x => decide (x ≤ h)

def inRange (lo hi : Option Int) (x : Int) : Bool := geLo lo x && leHi hi x

/-- A range over the nullable column: NULL satisfies only the range without bounds. -/
def vIn (lo hi : Option Int) : Option Int → Bool
  | none => lo.isNone && hi.isNone
  | some x => inRange lo hi x

def proj (r : Row) : List (Option Int) := [some r.pk, r.v]

def takeLim {α : Type} : Option Nat → List α → List α
  | none, l => l
  | some n, l => l.take n

def minPk : List Row → Option Int
  | [] => none
  | r :: rs => match minPk rs with
    | none => some r.pk
    | some m => some (if r.pk ≤ m then r.pk else m)

def maxPk : List Row → Option Int
  | [] => none
  | r :: rs => match maxPk rs with
    | none => some r.pk
    | some m => some (if m ≤ r.pk then r.pk else m)

def aggRow (rows : List Row) : List (Option Int) :=
  [some (rows.length : Int), some ((rows.filter fun r => r.v.isSome).length : Int), minPk rows, maxPk rows]

/-! ### Impl: the access paths -/

/-- `indexScanRowIter`: walk the index entries `es`, keep those whose key is in range, take the
row stored at the position the entry points at. -/
def fetch (rows : List Row) (es : List Entry) (lo hi : Option Int) : List Row :=
  es.filterMap fun e => if vIn lo hi e.key then rows[e.idx]? else none

def implEval (ph : Phys) : Q → Result
  | .pkr lo hi desc lim =>
    takeLim lim (((sortBy (if desc then pkGe else pkLe) ph.rows).filter fun r => inRange lo hi r.pk).map proj)
  | .srows lo hi => (sortBy pkLe (fetch ph.rows ph.sec (some lo) (some hi))).map proj
  | .srng lo hi desc => (fetch ph.rows (if desc then ph.sec.reverse else ph.sec) lo hi).map fun r => [r.v]
  | .scan => (sortBy pkLe ph.rows).map proj
  | .agg => [aggRow ph.rows]

/-! ### Spec: the logical table -/

/-- The logical table of a storage: its rows in primary-key order. -/
def logical (ph : Phys) : List Row := sortBy pkLe ph.rows

/-- Meaning of a statement on a logical table `t` (rows in primary-key order). -/
def specEval (t : List Row) : Q → Result
  | .pkr lo hi desc lim =>
    let l := t.filter fun r => inRange lo hi r.pk
    takeLim lim ((if desc then l.reverse else l).map proj)
  | .srows lo hi => (t.filter fun r => vIn (some lo) (some hi) r.v).map proj
  | .srng lo hi desc =>
    let vs := sortBy optLe ((t.map (·.v)).filter (vIn lo hi))
    (if desc then vs.reverse else vs).map fun v => [v]
  | .scan => t.map proj
  | .agg => [aggRow t]

/-! ### the invariant of the storage -/

/-- Entry `e` describes the row stored at the position it points at. -/
def entryOk (rows : List Row) (e : Entry) : Bool :=
  match rows[e.idx]? with
  | some r => r.v == e.key && r.pk == e.pk
  | none => false

def Consistent (ph : Phys) : Prop :=
  ph.rows.Pairwise (fun a b => a.pk < b.pk) ∧
  (ph.sec.map (·.idx)).Perm (List.range ph.rows.length) ∧
  (∀ e ∈ ph.sec, entryOk ph.rows e = true) ∧
  ph.sec.Pairwise (fun a b => optLe a.key b.key = true)

instance (ph : Phys) : Decidable (Consistent ph) := by
  unfold Consistent; exact inferInstance

/-! ### statements as transformers of the shared storage -/

/-- The real code: the partition iterator owns a copy; nothing is written back. -/
def execCopy (ph : Phys) (q : Q) : Result × Phys := (implEval ph q, ph)

/-- Defect class: the partition iterator walks the STORED slice, so the stable sort that puts a
primary-key lookup into index order re-orders the storage every session reads. The statement's
own result is what it always was. -/
def execAlias (ph : Phys) (q : Q) : Result × Phys :=
  match q with
  | .pkr _ _ desc _ => (implEval ph q, { ph with rows := sortBy (if desc then pkGe else pkLe) ph.rows })
  | _ => (implEval ph q, ph)

/-- A history of statements (of any sessions, in the order they execute): results and final storage. -/
def runWith (exec : Phys → Q → Result × Phys) : Phys → List Q → List Result × Phys
  | ph, [] => ([], ph)
  | ph, q :: qs =>
    let r := exec ph q
    let t := runWith exec r.2 qs
    (r.1 :: t.1, t.2)

/-! ### rendering (the observation of a statement) -/

def cellStr : Option Int → String
  | none => "N"
  | some i => toString i

def render (r : Result) : String :=
  "r:" ++ ";".intercalate (r.map fun row => ",".intercalate (row.map cellStr))

abbrev Store := List Phys

def emptyPhys : Phys := { rows := [], sec := [] }

def tbl (db : Store) (t : Nat) : Phys := db.getD t emptyPhys

/-- What session statements of the interleaving model read from the store. -/
def pqImpl (t : Nat) (q : Q) (db : Store) : String := render (implEval (tbl db t) q)
def pqSpec (t : Nat) (q : Q) (db : Store) : String := render (specEval (logical (tbl db t)) q)

end Gms.SharedStore
