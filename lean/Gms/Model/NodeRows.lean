/-
C34, statement level: ONE function node, evaluated once per row of a statement; the results are
read after the last row (a client that fetches the whole result set, a Sort/Distinct/Group node
that buffers rows).

Go hands a `[]byte` result out as a slice header (array, length): the SQL value of an earlier row
stays what it was only as long as nobody writes into that array. Memory model: a heap of backing
arrays (address = index, capacity = length of the array), a returned value is a `Ref`.

* `stepFresh` — the discipline of the code as it is (every modelled `Eval` builds its result in
  storage of its own: `hex.DecodeString`, `[]byte(string)`, `strings.Builder`, …): allocate, return.
* `stepScratch` — the discipline the property forbids: the node keeps a buffer between rows
  (`if cap(buf) < n { buf = make([]byte, n, 2*n) }; res := buf[:n]; …; return res`).

Core Lean only. Theorems: `Gms/Props/C34.lean` (`fresh_observe`, `fresh_prefix_stable`,
`fresh_row_independent`, `scratch_same_length_overwrites`, `scratch_breaks_statement`).
-/
namespace Gms.NodeRows

abbrev Bytes := List Nat

/-- backing arrays; address = index; the capacity of an array is its length -/
abbrev Heap := List Bytes

/-- a Go slice header handed out as an SQL value: the first `len` bytes of array `arr` -/
structure Ref where
  arr : Nat
  len : Nat
deriving DecidableEq, Repr

def arrOf (h : Heap) (a : Nat) : Bytes := h.getD a []

/-- what a reader of the value sees *now* -/
def view (h : Heap) (r : Ref) : Bytes := (arrOf h r.arr).take r.len

/-! ## A node without state between rows -/

/-- one `Eval`: the result `f row` is built in a new array. -/
def stepFresh {ρ : Type} (f : ρ → Bytes) (h : Heap) (row : ρ) : Heap × Ref :=
  (h ++ [f row], ⟨h.length, (f row).length⟩)

/-- one statement: the node evaluated for every row, the returned values retained. -/
def runFresh {ρ : Type} (f : ρ → Bytes) : Heap → List ρ → Heap × List Ref
  | h, [] => (h, [])
  | h, row :: rest =>
    let s := stepFresh f h row
    let t := runFresh f s.1 rest
    (t.1, s.2 :: t.2)

/-- the retained values as read after the last row. -/
def observe (p : Heap × List Ref) : List Bytes := p.2.map (view p.1)

/-! ## A node with a scratch buffer kept between rows -/

/-- writing `new` over the beginning of an array (`new.length ≤ old.length`). -/
def overwrite (old new : Bytes) : Bytes := new ++ old.drop new.length

/-- node state: the address of the scratch buffer, `none` before the first row. -/
abbrev ScratchState := Heap × Option Nat

def grow (h : Heap) (v : Bytes) : ScratchState × Ref :=
  ((h ++ [v ++ List.replicate v.length 0], some h.length), ⟨h.length, v.length⟩)

/-- one `Eval` of a node that decodes into `buf` and returns `buf[:n]`; the buffer is replaced (by
one of twice the size) only when the row needs more than its capacity. -/
def stepScratch {ρ : Type} (f : ρ → Bytes) (s : ScratchState) (row : ρ) : ScratchState × Ref :=
  let v := f row
  match s.2 with
  | none => grow s.1 v
  | some a =>
    if v.length ≤ (arrOf s.1 a).length then
      ((s.1.set a (overwrite (arrOf s.1 a) v), some a), ⟨a, v.length⟩)
    else grow s.1 v

def runScratch {ρ : Type} (f : ρ → Bytes) : ScratchState → List ρ → ScratchState × List Ref
  | s, [] => (s, [])
  | s, row :: rest =>
    let x := stepScratch f s row
    let t := runScratch f x.1 rest
    (t.1, x.2 :: t.2)

def observeScratch (p : ScratchState × List Ref) : List Bytes := p.2.map (view p.1.1)

end Gms.NodeRows
