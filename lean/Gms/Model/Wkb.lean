/-
C52 — model of the WKB / EWKB codec of sql/types (core-only).

  Go                                                    here
  ----------------------------------------------------  ---------------------------------------
  float64 coordinate (math.Float64bits / frombits)      `F8`: the 8 bytes of the bit pattern, little-endian
                                                        order (no float semantics are needed for the codec)
  Point / LineString / Polygon / Multi* / GeomColl      `Geom` (the SRID of nested values is the SRID of the
                                                        top value: `Deserialize*` passes one `srid` down)
  X.WriteData(buf) (point.go … geometrycollection.go)   `wData`
  X.Serialize(): AllocateGeoTypeBuffer + WriteEWKBHeader `serialize` (buffer size computed as in each
     + WriteData, GeomColl.CalculateSize                  Serialize, `calcSize`; too small ⇒ crash, too big ⇒ zeros)
  DeserializeWKBHeader / DeserializeEWKBHeader          `hdr`, in `convert`
  DeserializePoint/Line/Poly/MPoint/MLine/MPoly/GeomColl `dPoint` … `dColl` (length guards, per-item byte order,
                                                        `buf[:PointSize]` on a short buffer = run-time panic)
  GeometryType.Convert([]byte)                          `convert`
  ST_AsWKB (spatial/wkb.go AsWKB.Eval)                  `asWKB`
  ST_GeomFromWKB(wkb, srid) (EvalGeomFromWKB)           `fromWKB`
  X.Swap()                                              `swap`

`Res`: ok / err (sql.ErrInvalidGISData) / crash (slice bounds or index out of range panic).
Every `[]byte` that reaches the decoder from SQL has cap = len, so `buf[:16]` panics iff len < 16.
-/
namespace Gms.Wkb

abbrev Byte := UInt8

/-- 64-bit pattern of a float64, least significant byte first. -/
structure F8 where
  b0 : Byte
  b1 : Byte
  b2 : Byte
  b3 : Byte
  b4 : Byte
  b5 : Byte
  b6 : Byte
  b7 : Byte
  deriving DecidableEq, Repr

structure Pt where
  x : F8
  y : F8
  deriving DecidableEq, Repr

inductive Geom where
  | point (p : Pt)
  | line (ps : List Pt)
  | poly (ls : List (List Pt))
  | mpoint (ps : List Pt)
  | mline (ls : List (List Pt))
  | mpoly (ps : List (List (List Pt)))
  | coll (gs : List Geom)
  deriving Repr

inductive Res (α : Type) where
  | ok (a : α)
  | err
  | crash
  deriving Repr

/-- Go: the `WKB…ID` constants (regenerated fact `typeIds`). -/
def typeId : Geom → Nat
  | .point _ => 1
  | .line _ => 2
  | .poly _ => 3
  | .mpoint _ => 4
  | .mline _ => 5
  | .mpoly _ => 6
  | .coll _ => 7

/-! ### Writers -/

/-- `binary.LittleEndian.PutUint32(buf, uint32(n))` (`big = false`; the Go writers only write
little-endian — `big = true` is the big-endian form the readers also accept). -/
def e32 (big : Bool) (n : Nat) : List Byte :=
  let l : List Byte := [UInt8.ofNat (n % 256), UInt8.ofNat (n / 256 % 256), UInt8.ofNat (n / 65536 % 256),
    UInt8.ofNat (n / 16777216 % 256)]
  if big then l.reverse else l

def eF8 (big : Bool) (f : F8) : List Byte :=
  if big then [f.b7, f.b6, f.b5, f.b4, f.b3, f.b2, f.b1, f.b0] else [f.b0, f.b1, f.b2, f.b3, f.b4, f.b5, f.b6, f.b7]

/-- Go: `Point.WriteData`. -/
def wPt (big : Bool) (p : Pt) : List Byte := eF8 big p.x ++ eF8 big p.y

/-- Go: `LineString.WriteData`. -/
def wLine (big : Bool) (ps : List Pt) : List Byte := e32 big ps.length ++ ps.flatMap (wPt big)

/-- Go: `Polygon.WriteData`. -/
def wPoly (big : Bool) (ls : List (List Pt)) : List Byte := e32 big ls.length ++ ls.flatMap (wLine big)

/-- Go: `WriteWKBHeader` (byte-order flag 1 = little-endian, then the type). -/
def wHdr (big : Bool) (typ : Nat) : List Byte := (if big then 0 else 1) :: e32 big typ

/-- Go: `MultiPoint.WriteData`. -/
def wMPoint (big : Bool) (ps : List Pt) : List Byte :=
  e32 big ps.length ++ ps.flatMap fun p => wHdr big 1 ++ wPt big p

/-- Go: `MultiLineString.WriteData`. -/
def wMLine (big : Bool) (ls : List (List Pt)) : List Byte :=
  e32 big ls.length ++ ls.flatMap fun l => wHdr big 2 ++ wLine big l

/-- Go: `MultiPolygon.WriteData`. -/
def wMPoly (big : Bool) (ps : List (List (List Pt))) : List Byte :=
  e32 big ps.length ++ ps.flatMap fun p => wHdr big 3 ++ wPoly big p

mutual
/-- Go: `X.WriteData` (data part, without the outer header). -/
def wData (big : Bool) : Geom → List Byte
  | .point p => wPt big p
  | .line ps => wLine big ps
  | .poly ls => wPoly big ls
  | .mpoint ps => wMPoint big ps
  | .mline ls => wMLine big ls
  | .mpoly ps => wMPoly big ps
  | .coll gs => e32 big gs.length ++ wItems big gs
/-- Go: the loop of `GeomColl.WriteData`: header with the member's type, then its data. -/
def wItems (big : Bool) : List Geom → List Byte
  | [] => []
  | g :: gs => (wHdr big (typeId g) ++ wData big g) ++ wItems big gs
end

/-! ### Buffer sizes (`AllocateGeoTypeBuffer(numPoints, numCounts, numWKBHeaders)`) -/

structure Sz where
  pts : Nat
  cnts : Nat
  hdrs : Nat
  deriving DecidableEq, Repr

def Sz.add (a b : Sz) : Sz := ⟨a.pts + b.pts, a.cnts + b.cnts, a.hdrs + b.hdrs⟩
def Sz.bytes (s : Sz) : Nat := 16 * s.pts + 4 * s.cnts + 5 * s.hdrs

def sumLen {α : Type} (ls : List (List α)) : Nat := (ls.map List.length).sum

mutual
/-- Go: one iteration of the `switch` in `GeomColl.CalculateSize`. -/
def calcItem : Geom → Sz
  | .point _ => ⟨1, 0, 1⟩
  | .line ps => ⟨ps.length, 1, 1⟩
  | .poly ls => ⟨sumLen ls, ls.length + 1, 1⟩
  | .mpoint ps => ⟨ps.length, 1, ps.length + 1⟩
  | .mline ls => ⟨sumLen ls, ls.length + 1, ls.length + 1⟩
  | .mpoly ps => ⟨(ps.map sumLen).sum, (ps.map List.length).sum + ps.length + 1, ps.length + 1⟩
  | .coll gs => let s := calcSize gs; ⟨s.pts, s.cnts + 1, s.hdrs + 1⟩
/-- Go: `GeomColl.CalculateSize`. -/
def calcSize : List Geom → Sz
  | [] => ⟨0, 0, 0⟩
  | g :: gs => (calcItem g).add (calcSize gs)
end

/-- Go: the arguments each `Serialize` passes to `AllocateGeoTypeBuffer` (data part: without the
9 header bytes). -/
def allocSz : Geom → Sz
  | .point _ => ⟨1, 0, 0⟩
  | .line ps => ⟨ps.length, 1, 0⟩
  | .poly ls => ⟨sumLen ls, ls.length + 1, 0⟩
  | .mpoint ps => ⟨ps.length, 1, ps.length⟩
  | .mline ls => ⟨sumLen ls, ls.length + 1, ls.length⟩
  | .mpoly ps => ⟨(ps.map sumLen).sum, (ps.map List.length).sum + ps.length + 1, ps.length⟩
  | .coll gs => let s := calcSize gs; ⟨s.pts, s.cnts + 1, s.hdrs⟩

/-- Go: `X.Serialize()`: allocate, write the EWKB header (SRID little-endian, flag 1, type), write
the data into the rest. Writing past the end of the buffer is a run-time panic. -/
def serialize (srid : Nat) (g : Geom) : Res (List Byte) :=
  let data := wData false g
  let cap := (allocSz g).bytes
  if data.length > cap then .crash
  else .ok (e32 false srid ++ wHdr false (typeId g) ++ data ++ List.replicate (cap - data.length) 0)

/-! ### Readers -/

/-- `binary.{Big,Little}Endian.Uint32(buf)`; every call site is guarded by a length check. -/
def u32 (big : Bool) : List Byte → Nat
  | a :: b :: c :: d :: _ =>
    if big then d.toNat + 256 * c.toNat + 65536 * b.toNat + 16777216 * a.toNat
    else a.toNat + 256 * b.toNat + 65536 * c.toNat + 16777216 * d.toNat
  | _ => 0

/-- The two floats of `DeserializePoint` (exactly 16 bytes). -/
def rdPt (big : Bool) : List Byte → Option Pt
  | [a0, a1, a2, a3, a4, a5, a6, a7, c0, c1, c2, c3, c4, c5, c6, c7] =>
    if big then some ⟨⟨a7, a6, a5, a4, a3, a2, a1, a0⟩, ⟨c7, c6, c5, c4, c3, c2, c1, c0⟩⟩
    else some ⟨⟨a0, a1, a2, a3, a4, a5, a6, a7⟩, ⟨c0, c1, c2, c3, c4, c5, c6, c7⟩⟩
  | _ => none

/-- Go: `DeserializePoint(buf, isBig, srid)`: `len(buf) != PointSize` ⇒ error. -/
def dPoint (big : Bool) (buf : List Byte) : Res Pt :=
  match rdPt big buf with
  | some p => .ok p
  | none => .err

/-- Go: `DeserializePoint(buf[:PointSize], …)` followed by `buf = buf[PointSize:]`: slicing a
buffer shorter than 16 bytes panics. Returns the point and the rest. -/
def dPointAt (big : Bool) (buf : List Byte) : Res (Pt × List Byte) :=
  if buf.length < 16 then .crash
  else match dPoint big (buf.take 16) with
    | .ok p => .ok (p, buf.drop 16)
    | .err => .err
    | .crash => .crash

/-- A Go `for i := range items { items[i], c, err = item(buf); …; buf = buf[c:] }` loop. -/
def rep {α : Type} (item : List Byte → Res (α × List Byte)) : Nat → List Byte → Res (List α × List Byte)
  | 0, buf => .ok ([], buf)
  | n + 1, buf =>
    match item buf with
    | .ok (a, rest) =>
      match rep item n rest with
      | .ok (as, r) => .ok (a :: as, r)
      | .err => .err
      | .crash => .crash
    | .err => .err
    | .crash => .crash

/-- Go: `DeserializeLine`: at least a count and two points must be left in the buffer. -/
def dLine (big : Bool) (buf : List Byte) : Res (List Pt × List Byte) :=
  if buf.length < 4 + 16 + 16 then .err
  else rep (dPointAt big) (u32 big buf) (buf.drop 4)

/-- Go: `DeserializePoly`: at least two counts and four points. -/
def dPoly (big : Bool) (buf : List Byte) : Res (List (List Pt) × List Byte) :=
  if buf.length < 4 + 4 + 4 * 16 then .err
  else rep (dLine big) (u32 big buf) (buf.drop 4)

/-- Go: `DeserializeWKBHeader` + `buf = buf[WKBHeaderSize:]`: byte-order flag (0 = big-endian,
anything else little-endian) and type. -/
def hdr (buf : List Byte) : Res (Bool × Nat × List Byte) :=
  if buf.length < 5 then .err
  else
    let big := buf.head? == some 0
    .ok (big, u32 big (buf.drop 1), buf.drop 5)

/-- One member of a Multi* value: its own header (own byte order), the expected type, the data. -/
def dMember {α : Type} (want : Nat) (data : Bool → List Byte → Res (α × List Byte)) (buf : List Byte) :
    Res (α × List Byte) :=
  match hdr buf with
  | .ok (big, typ, rest) => if typ != want then .err else data big rest
  | .err => .err
  | .crash => .crash

/-- Go: `DeserializeMPoint`. -/
def dMPoint (big : Bool) (buf : List Byte) : Res (List Pt × List Byte) :=
  if buf.length < 4 + 5 + 16 then .err
  else rep (dMember 1 dPointAt) (u32 big buf) (buf.drop 4)

/-- Go: `DeserializeMLine`. -/
def dMLine (big : Bool) (buf : List Byte) : Res (List (List Pt) × List Byte) :=
  if buf.length < 4 + 5 + 4 + 2 * 16 then .err
  else rep (dMember 2 dLine) (u32 big buf) (buf.drop 4)

/-- Go: `DeserializeMPoly`. -/
def dMPoly (big : Bool) (buf : List Byte) : Res (List (List (List Pt)) × List Byte) :=
  if buf.length < 4 + 5 + 2 * 4 + 4 * 16 then .err
  else rep (dMember 3 dPoly) (u32 big buf) (buf.drop 4)

def Res.map {α β : Type} (f : α → β) : Res α → Res β
  | .ok a => .ok (f a)
  | .err => .err
  | .crash => .crash

def first {α β γ : Type} (f : α → γ) (p : α × β) : γ × β := (f p.1, p.2)

/-- Go: one iteration of the loop of `DeserializeGeomColl`: the member's header (own byte order),
`switch typ`, the member's data. `dc` is `DeserializeGeomColl` itself (nested collections). -/
def dItem (dc : Bool → List Byte → Res (List Geom × List Byte)) (b : List Byte) : Res (Geom × List Byte) :=
  match hdr b with
  | .ok (ibig, typ, rest) =>
    match typ with
    | 1 => (dPointAt ibig rest).map (first Geom.point)
    | 2 => (dLine ibig rest).map (first Geom.line)
    | 3 => (dPoly ibig rest).map (first Geom.poly)
    | 4 => (dMPoint ibig rest).map (first Geom.mpoint)
    | 5 => (dMLine ibig rest).map (first Geom.mline)
    | 6 => (dMPoly ibig rest).map (first Geom.mpoly)
    | 7 => (dc ibig rest).map (first Geom.coll)
    | _ => .err
  | .err => .err
  | .crash => .crash

/-- Go: `DeserializeGeomColl` (fuel bounds the nesting depth; `convert` supplies the buffer
length, which is more than any nesting that fits into the buffer). -/
def dColl : Nat → Bool → List Byte → Res (List Geom × List Byte)
  | 0, _, _ => .err
  | fuel + 1, big, buf =>
    if buf.length < 4 then .err
    else rep (dItem (dColl fuel)) (u32 big buf) (buf.drop 4)

/-- The `switch geomType` shared by `GeometryType.Convert` and `EvalGeomFromWKB`: the top-level
point must fill the buffer exactly, for the other types trailing bytes are ignored. -/
def dTop (fuel : Nat) (big : Bool) (typ : Nat) (val : List Byte) : Res Geom :=
  match typ with
  | 1 => (dPoint big val).map Geom.point
  | 2 => (dLine big val).map fun r => Geom.line r.1
  | 3 => (dPoly big val).map fun r => Geom.poly r.1
  | 4 => (dMPoint big val).map fun r => Geom.mpoint r.1
  | 5 => (dMLine big val).map fun r => Geom.mline r.1
  | 6 => (dMPoly big val).map fun r => Geom.mpoly r.1
  | 7 => (dColl fuel big val).map fun r => Geom.coll r.1
  | _ => .err

/-- Go: `GeometryType.Convert(ctx, []byte)`: `DeserializeEWKBHeader` (SRID always little-endian),
then the data. Result: SRID and value. -/
def convert (buf : List Byte) : Res (Nat × Geom) :=
  if buf.length < 9 then .err
  else
    let srid := u32 false buf
    let big := (buf.drop 4).head? == some 0
    let typ := u32 big (buf.drop 5)
    (dTop buf.length big typ (buf.drop 9)).map fun g => (srid, g)

/-! ### Axis swap, ST_AsWKB, ST_GeomFromWKB -/

def swapPt (p : Pt) : Pt := ⟨p.y, p.x⟩

mutual
/-- Go: `X.Swap()`. -/
def swap : Geom → Geom
  | .point p => .point (swapPt p)
  | .line ps => .line (ps.map swapPt)
  | .poly ls => .poly (ls.map (·.map swapPt))
  | .mpoint ps => .mpoint (ps.map swapPt)
  | .mline ls => .mline (ls.map (·.map swapPt))
  | .mpoly ps => .mpoly (ps.map (·.map (·.map swapPt)))
  | .coll gs => .coll (swapL gs)
def swapL : List Geom → List Geom
  | [] => []
  | g :: gs => swap g :: swapL gs
end

/-- Go: `types.GeoSpatialSRID` (regenerated fact). -/
def geoSRID : Nat := 4326

/-- Go: `AsWKB.Eval`: swap for SRID 4326, serialize, drop the SRID. -/
def asWKB (srid : Nat) (g : Geom) : Res (List Byte) :=
  (serialize srid (if srid = geoSRID then swap g else g)).map (·.drop 4)

/-- Go: `EvalGeomFromWKB` with an explicit, valid SRID argument and no axis-order option. -/
def fromWKB (buf : List Byte) (srid : Nat) : Res Geom :=
  match hdr buf with
  | .ok (big, typ, val) => (dTop buf.length big typ val).map fun g => if srid = geoSRID then swap g else g
  | .err => .err
  | .crash => .crash

/-! ### Well-formed values (what the constructors / parsers of the engine produce) -/

def lineOK (ps : List Pt) : Bool := 2 ≤ ps.length && ps.length < 4294967296
def polyOK (ls : List (List Pt)) : Bool :=
  1 ≤ ls.length && ls.length < 4294967296 && ls.all fun l => 4 ≤ l.length && l.length < 4294967296

mutual
def wf : Geom → Bool
  | .point _ => true
  | .line ps => lineOK ps
  | .poly ls => polyOK ls
  | .mpoint ps => 1 ≤ ps.length && ps.length < 4294967296
  | .mline ls => 1 ≤ ls.length && ls.length < 4294967296 && ls.all lineOK
  | .mpoly ps => 1 ≤ ps.length && ps.length < 4294967296 && ps.all polyOK
  | .coll gs => gs.length < 4294967296 && wfL gs
def wfL : List Geom → Bool
  | [] => true
  | g :: gs => wf g && wfL gs
end

mutual
/-- Nesting depth of geometry collections. -/
def depth : Geom → Nat
  | .coll gs => depthL gs + 1
  | _ => 0
def depthL : List Geom → Nat
  | [] => 0
  | g :: gs => max (depth g) (depthL gs)
end

/-! ### Bounding boxes and the spatial-index filter (memory/table.go `spatialTableIter.Next`) -/

/-- The interval test of `spatialTableIter.Next`, over any totally ordered coordinates (finite
floats are modelled by `Int`). -/
def ivOverlapImpl (gMin gMax iMin iMax : Int) : Bool :=
  (decide (gMin ≤ iMin) && decide (iMin ≤ gMax)) || (decide (gMin ≤ iMax) && decide (iMax ≤ gMax)) ||
  (decide (iMin ≤ gMin) && decide (gMin ≤ iMax)) || (decide (iMin ≤ gMax) && decide (gMax ≤ iMax))

structure Box where
  minX : Int
  minY : Int
  maxX : Int
  maxY : Int
  deriving DecidableEq, Repr

def boxOverlapImpl (g i : Box) : Bool :=
  ivOverlapImpl g.minX g.maxX i.minX i.maxX && ivOverlapImpl g.minY g.maxY i.minY i.maxY

/-- Go: `X.BBox()` of a list of vertices: fold of min / max starting from (Max, Max, -Max, -Max). -/
def bboxOf (big : Int) (vs : List (Int × Int)) : Box :=
  vs.foldl (fun b v => ⟨min b.minX v.1, min b.minY v.2, max b.maxX v.1, max b.maxY v.2⟩) ⟨big, big, -big, -big⟩

/-- Index lookup as executed: bounding-box filter of the table iterator, then the predicate itself
(`rangeBuildSpatialLeaf` always keeps the predicate as a left-over filter). -/
def lookup {ρ : Type} (box : ρ → Box) (pred : ρ → Bool) (q : Box) (rows : List ρ) : List ρ :=
  (rows.filter fun r => boxOverlapImpl (box r) q).filter pred

end Gms.Wkb
