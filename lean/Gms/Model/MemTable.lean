/-
M5 `MemTable` — model of the in-memory storage engine's DML path (core-only, executable).

Sources modelled (path by path):
* memory/table_editor.go      `columnsMatch`, `getRowKey`, `pkTableEditAccumulator`
                              (`Insert/Delete/Get/GetByCols/ApplyEdits/deleteHelper/insertHelper`),
                              `keylessTableEditAccumulator` (same methods), `tableEditor`
                              (`StatementBegin/Insert/Delete/Update/StatementComplete/DiscardChanges`,
                              `checkUniqueConstraints`, `pkColsDiffer`, `hasNullForAnyCols`)
* sql/rows.go                 `Row.Equals`
* sql/plan/table_editor.go    `TableEditorIter`, `CheckpointingTableEditorIter`
* sql/rowexec/insert.go       `insertIter.Next` (plain / IGNORE / REPLACE loop / ON DUPLICATE KEY UPDATE)
* sql/rowexec/update.go       `updateIter.Next`;  sql/rowexec/delete.go `deleteIter.Next`
* sql/rowexec/dml_iters.go    the five `accumulatorRowHandler`s (affected / matched counting)

Abstractions (recorded in props/C13.json, props/C14.json):
* the partitions `map[string][]sql.Row` are flattened into one `List Row`; Go map iteration
  (partitions, `cmap.Map.Foreach`) becomes list order. This is faithful whenever at most one
  stored row can be hit by a search, which is what `NoDupPk` gives; the harness never continues
  a history after the stored rows stopped being duplicate-free.
* values are `NULL | integer | byte string`; `%v` printing of an integer is its decimal form.
* `utf8mb4_0900_ai_ci` is modelled on the ASCII alphabet the generators use (case folding).

Two layers: **Impl** (`ed*`, `pk*`, `kl*`, `impl*`) transliterates the Go code, defects included;
**Spec** (`spec*`) is the reference table model: a keyed map for keyed tables and a multiset for
keyless ones, uniqueness under the columns' collations, MySQL's affected/matched row counts.
-/
namespace Gms.MemTable

/-! ## Values, rows, schemas -/

inductive Val where
  | null
  | int (i : Int)
  | str (b : List Nat)          -- bytes
  deriving DecidableEq, Repr, Inhabited

abbrev Row := List Val
abbrev Key := List Nat           -- the Go `string` built by `getRowKey`, as bytes

structure Col where
  str : Bool := false
  nullable : Bool := true
  ci : Bool := false             -- collation is case-insensitive (utf8mb4_0900_ai_ci)
  deriving DecidableEq, Repr, Inhabited

structure Schema where
  cols : List Col
  pk : List Nat                          -- `schema.PkOrdinals`
  uniques : List (List Nat × List Nat)   -- unique indexes: (column ordinals, prefix lengths; 0 = none)
  deriving Repr, Inhabited

def Schema.keyless (s : Schema) : Bool := s.pk.isEmpty

def Row.at (r : Row) (i : Nat) : Val := r.getD i .null

/-! ## `%v` printing and `getRowKey` -/

def digit (n : Nat) : Nat := 48 + n % 10

/-- decimal digits of `n`, most significant first (`fuel > n` suffices). -/
def natDecF : Nat → Nat → List Nat
  | 0, _ => []
  | f + 1, n => if n < 10 then [digit n] else natDecF f (n / 10) ++ [digit n]

def natDec (n : Nat) : List Nat := natDecF (n + 1) n

def printInt (i : Int) : List Nat :=
  if i < 0 then 45 :: natDec (-i).toNat else natDec i.toNat

/-- Go: `fmt.Sprintf("%v", v)` for the value kinds of the model (`<nil>` for NULL). -/
def printVal : Val → Key
  | .null => [60, 110, 105, 108, 62]
  | .int i => printInt i
  | .str b => b

/-- Go: `fmt.Fprintf(&rowKey, "%d:%s,", len(s), s)`: one key part, the printed value prefixed with
its length in bytes (`:` = 58, `,` = 44). -/
def keyPart (s : Key) : Key := natDec s.length ++ 58 :: (s ++ [44])

/-- Go: `pkTableEditAccumulator.getRowKey` (since the `fix:` commit for finding `pk_print_collision`):
the printed key columns, each one length-prefixed. -/
def getRowKey (pk : List Nat) (r : Row) : Key := pk.flatMap (fun i => keyPart (printVal (r.at i)))

/-- `getRowKey` as it was before the repair: the printed key columns concatenated with no
separator. Kept only to state the witness of the repaired defect (`fixed_pk_print_collision`). -/
def getRowKeyPreFix (pk : List Nat) (r : Row) : Key := pk.flatMap (fun i => printVal (r.at i))

/-- The key columns themselves (what the Spec map is keyed by). -/
def proj (cols : List Nat) (r : Row) : List Val := cols.map (fun i => r.at i)

/-! ## `columnsMatch`, `Row.Equals` -/

/-- Go: the `prefixLength` truncation of `string` / `[]byte` values (bytes, not characters). -/
def goPrefix (n : Nat) : Val → Val
  | .str b => .str (b.take n)
  | v => v

/-- Go: one column of `columnsMatch`: optional byte-prefix truncation, then interface `!=`
(so `nil == nil` holds). Decimals are outside the model. -/
def colMatch (pl : Nat) (v1 v2 : Val) : Bool :=
  if pl > 0 then goPrefix pl v1 == goPrefix pl v2 else v1 == v2

/-- Go: `columnsMatch(colIndexes, prefixLengths, row, row2, schema)` (no virtual columns). -/
def columnsMatch : List Nat → List Nat → Row → Row → Bool
  | [], _, _, _ => true
  | c :: cs, pls, r1, r2 => colMatch (pls.headD 0) (r1.at c) (r2.at c) && columnsMatch cs pls.tail r1 r2

def foldByte (b : Nat) : Nat := if 65 ≤ b ∧ b ≤ 90 then b + 32 else b

/-- Collation key of a string under the case-insensitive collation (ASCII alphabet). -/
def foldCI (b : List Nat) : List Nat := b.map foldByte

/-- `Type.Compare(a, b) == 0` for a column (NULLs compare equal to each other). -/
def valEq (ci : Bool) : Val → Val → Bool
  | .str a, .str b => if ci then foldCI a == foldCI b else a == b
  | a, b => a == b

/-- Go: `Row.Equals(row, schema)`. -/
def rowEquals : List Col → Row → Row → Bool
  | [], [], [] => true
  | c :: cs, a :: as, b :: bs => valEq c.ci a b && rowEquals cs as bs
  | _, _, _ => false

/-- Go: `hasNullForAnyCols`. -/
def hasNullForAnyCols (r : Row) (cols : List Nat) : Bool := cols.any (fun c => r.at c == .null)

/-! ## Association lists (Go maps keyed by the printed key) -/

def alGet : List (Key × Row) → Key → Option Row
  | [], _ => none
  | (k', r) :: rest, k => if k' = k then some r else alGet rest k

def alSet : List (Key × Row) → Key → Row → List (Key × Row)
  | [], k, r => [(k, r)]
  | (k', r') :: rest, k, r => if k' = k then (k, r) :: rest else (k', r') :: alSet rest k r

def alDel : List (Key × Row) → Key → List (Key × Row)
  | [], _ => []
  | (k', r') :: rest, k => if k' = k then rest else (k', r') :: alDel rest k

/-! ## Small list helpers -/

/-- remove the first element satisfying `p` (Go: `append(s[:i], s[i+1:]...)` at the first hit). -/
def eraseFirst {α : Type} (p : α → Bool) : List α → List α
  | [] => []
  | a :: as => if p a then as else a :: eraseFirst p as

/-- overwrite the first element satisfying `p`; `none` when there is none. -/
def replaceFirst {α : Type} (p : α → Bool) (new : α) : List α → Option (List α)
  | [] => none
  | a :: as => if p a then some (new :: as) else (replaceFirst p new as).map (a :: ·)

/-! ## The table editor state -/

/-- `tableEditor` + its accumulator + the session table data.
Keyed tables use `adds/dels`, keyless ones `kadds/kdels`. -/
structure Ed where
  rows : List Row                   -- `ea.tableData.partitions`, flattened
  adds : List (Key × Row) := []
  dels : List (Key × Row) := []
  kadds : List Row := []
  kdels : List Row := []
  snap : List Row := []             -- `initialTable` (taken by `StatementBegin`)
  inexact : Bool := false           -- ghost (not in the Go code): see `inexactNow`; never read by the Impl
  deriving Repr, Inhabited

def Ed.clear (e : Ed) : Ed := { e with adds := [], dels := [], kadds := [], kdels := [] }

/-- Error of an editor call: a duplicate on the primary key or on a unique index, with the
`UniqueKeyError.Existing` row. -/
inductive EdErr where
  | pk (existing : Row) (ghost : Bool)      -- `ghost`: the editor's ghost flag at the time of the error
  | uk (existing : Row) (ghost : Bool)
  deriving Repr

def EdErr.existing : EdErr → Row
  | .pk r _ => r
  | .uk r _ => r

def EdErr.ghost : EdErr → Bool
  | .pk _ g => g
  | .uk _ g => g

/-! ### keyed accumulator -/

def pkInsert (sch : Schema) (e : Ed) (row : Row) : Ed :=
  { e with adds := alSet e.adds (getRowKey sch.pk row) row }

def pkDelete (sch : Schema) (e : Ed) (row : Row) : Ed :=
  let k := getRowKey sch.pk row
  { e with adds := alDel e.adds k, dels := alSet e.dels k row }

/-- Go: `pkTableEditAccumulator.Get`: `(row, added)`. -/
def pkGet (sch : Schema) (e : Ed) (row : Row) : Option (Row × Bool) :=
  let k := getRowKey sch.pk row
  match alGet e.adds k with
  | some r => some (r, true)
  | none =>
    match alGet e.dels k with
    | some r => some (r, false)
    | none =>
      match e.rows.find? (fun pr => columnsMatch sch.pk [] pr row) with
      | some r => some (r, true)
      | none => none

/-- Go: `pkTableEditAccumulator.GetByCols` (no virtual columns). Note the first branch: *any*
pending delete that matches on the columns makes the lookup answer "not found". -/
def pkGetByCols (e : Ed) (row : Row) (cols pls : List Nat) : Option Row :=
  if e.dels.any (fun d => columnsMatch cols pls d.2 row) then none
  else
    match e.adds.find? (fun a => columnsMatch cols pls a.2 row) with
    | some a => some a.2
    | none => e.rows.find? (fun pr => columnsMatch cols pls pr row)

/-- Go: `pkTableEditAccumulator.deleteHelper`: the first stored row that matches on the key
columns or is `Equals` to the row. -/
def pkDeleteHelper (sch : Schema) (t : List Row) (row : Row) : List Row :=
  eraseFirst (fun pr => columnsMatch sch.pk [] pr row || rowEquals sch.cols pr row) t

/-- Go: `pkTableEditAccumulator.insertHelper`: overwrite the stored row with the same key, else append. -/
def pkInsertHelper (sch : Schema) (t : List Row) (row : Row) : List Row :=
  match replaceFirst (fun pr => columnsMatch sch.pk [] pr row) row t with
  | some t' => t'
  | none => t ++ [row]

/-- Go: `pkTableEditAccumulator.ApplyEdits` before `sortRows`: all deletes, then all adds. -/
def pkApplyU (sch : Schema) (e : Ed) : List Row :=
  (e.adds.map (·.2)).foldl (pkInsertHelper sch) ((e.dels.map (·.2)).foldl (pkDeleteHelper sch) e.rows)

def listLt : List Nat → List Nat → Bool
  | [], [] => false
  | [], _ :: _ => true
  | _ :: _, [] => false
  | a :: as, b :: bs => if a < b then true else if b < a then false else listLt as bs

/-- three-way comparison of non-NULL values of one column (`none` when a NULL is involved). -/
def valCmp (ci : Bool) : Val → Val → Option Ordering
  | .int a, .int b => some (compare a b)
  | .str a, .str b =>
    let (a, b) := if ci then (foldCI a, foldCI b) else (a, b)
    some (if a = b then .eq else if listLt a b then .lt else .gt)
  | _, _ => none

/-- ORDER BY comparison: NULL sorts first ascending. `true` when `a` must come strictly before `b`. -/
def ordLt (sch : Schema) : List (Nat × Bool) → Row → Row → Bool
  | [], _, _ => false
  | (c, desc) :: rest, a, b =>
    let va := a.at c
    let vb := b.at c
    let o : Ordering :=
      match va, vb with
      | .null, .null => .eq
      | .null, _ => .lt
      | _, .null => .gt
      | _, _ => (valCmp ((sch.cols.getD c {}).ci) va vb).getD .eq
    let o := if desc then o.swap else o
    match o with
    | .lt => true
    | .gt => false
    | .eq => ordLt sch rest a b

def insertSorted (lt : Row → Row → Bool) (x : Row) : List Row → List Row
  | [] => [x]
  | y :: ys => if lt x y then x :: y :: ys else y :: insertSorted lt x ys

/-- stable insertion sort. -/
def sortRowsBy (lt : Row → Row → Bool) (l : List Row) : List Row :=
  l.foldr (fun x acc => insertSorted lt x acc) []

/-- Go: `TableData.sortRows`: order by the primary-key columns taken in *schema* order
(`pkLess` over the columns flagged `PrimaryKey`, not over `PkOrdinals`). -/
def sortRows (sch : Schema) (t : List Row) : List Row :=
  sortRowsBy (ordLt sch (((List.range sch.cols.length).filter (fun c => sch.pk.contains c)).map (fun c => (c, false)))) t

/-- Go: `pkTableEditAccumulator.ApplyEdits`: deletes, adds, `sortRows`. The stored order is what a
later table scan (UPDATE / DELETE source) sees. -/
def pkApply (sch : Schema) (e : Ed) : List Row := sortRows sch (pkApplyU sch e)

/-! ### keyless accumulator -/

def klInsert (sch : Schema) (e : Ed) (row : Row) : Ed :=
  if e.kdels.any (fun d => rowEquals sch.cols row d) then
    { e with kdels := eraseFirst (fun d => rowEquals sch.cols row d) e.kdels }
  else { e with kadds := e.kadds ++ [row] }

def klDelete (sch : Schema) (e : Ed) (row : Row) : Ed :=
  if e.kadds.any (fun a => rowEquals sch.cols row a) then
    { e with kadds := eraseFirst (fun a => rowEquals sch.cols row a) e.kadds }
  else { e with kdels := e.kdels ++ [row] }

/-- Go: `keylessTableEditAccumulator.GetByCols`: the `deleteCount`-th match in rows ++ adds. -/
def klGetByCols (e : Ed) (row : Row) (cols pls : List Nat) : Option Row :=
  let deleteCount := (e.kdels.filter (fun d => columnsMatch cols pls d row)).length
  (((e.rows ++ e.kadds).filter (fun r => columnsMatch cols pls r row)).drop deleteCount).head?

def klDeleteHelper (sch : Schema) (t : List Row) (row : Row) : List Row :=
  eraseFirst (fun pr => rowEquals sch.cols pr row) t

def klApply (sch : Schema) (e : Ed) : List Row :=
  e.kdels.foldl (klDeleteHelper sch) e.rows ++ e.kadds

/-! ### `tableEditor` -/

def accInsert (sch : Schema) (e : Ed) (row : Row) : Ed :=
  if sch.keyless then klInsert sch e row else pkInsert sch e row

def accDelete (sch : Schema) (e : Ed) (row : Row) : Ed :=
  if sch.keyless then klDelete sch e row else pkDelete sch e row

def accGet (sch : Schema) (e : Ed) (row : Row) : Option (Row × Bool) :=
  if sch.keyless then none else pkGet sch e row

def accGetByCols (sch : Schema) (e : Ed) (row : Row) (cols pls : List Nat) : Option Row :=
  if sch.keyless then klGetByCols e row cols pls else pkGetByCols e row cols pls

def applyEdits (sch : Schema) (e : Ed) : List Row :=
  if sch.keyless then klApply sch e else pkApply sch e

/-- Go: `tableEditor.checkUniqueConstraints`. -/
def checkUnique (sch : Schema) (e : Ed) (row : Row) : List (List Nat × List Nat) → Option Row
  | [] => none
  | (cols, pls) :: rest =>
    if hasNullForAnyCols row cols then checkUnique sch e row rest
    else
      match accGetByCols sch e row cols pls with
      | some ex => some ex
      | none => checkUnique sch e row rest

/-- Ghost predicate (defect region `unique_check_ignores_pending_edits`): for some unique index,
`pkGetByCols` answers differently from a lookup in the table as it would be after `ApplyEdits`:
* "not found" through the *a pending delete matches → bail* branch although another row with the
  same unique value is there (the delete masks it), or
* "found" a stored row that is itself pending deletion (its entry in `deletes` was overwritten
  by a later delete with the same printed key, or never matched on these columns). -/
def inexactNow (sch : Schema) (e : Ed) (row : Row) : Bool :=
  !sch.keyless && sch.uniques.any (fun u =>
    !hasNullForAnyCols row u.1 &&
      (match pkGetByCols e row u.1 u.2 with
       | none => (pkApply sch e).any (fun r => columnsMatch u.1 u.2 r row)
       | some ex => !(pkApply sch e).contains ex))

def Ed.mark (e : Ed) (b : Bool) : Ed := { e with inexact := e.inexact || b }

/-- Go: `tableEditor.Insert` (no AUTO_INCREMENT column). -/
def edInsert (sch : Schema) (e : Ed) (row : Row) : Except EdErr Ed :=
  let g := e.inexact || inexactNow sch e row
  match accGet sch e row with
  | some (r, true) => .error (.pk r g)
  | _ =>
    match checkUnique sch e row sch.uniques with
    | some ex => .error (.uk ex g)
    | none => .ok ((accInsert sch e row).mark g)

/-- Go: `tableEditor.Delete`. -/
def edDelete (sch : Schema) (e : Ed) (row : Row) : Ed := accDelete sch e row

/-- Go: `tableEditor.Update`: delete the old row, check the new key if it differs, check the
unique indexes, insert the new row. -/
def edUpdate (sch : Schema) (e : Ed) (old new : Row) : Except EdErr Ed :=
  let e1 := accDelete sch e old
  let g := e.inexact || inexactNow sch e1 new
  let pkDiffer := !columnsMatch sch.pk [] old new
  match (if pkDiffer then accGet sch e1 new else none) with
  | some (r, true) => .error (.pk r g)
  | _ =>
    match checkUnique sch e1 new sch.uniques with
    | some ex => .error (.uk ex g)
    | none => .ok ((accInsert sch e1 new).mark g)

def stmtBegin (e : Ed) : Ed := { e with snap := e.rows }

/-- Go: `StatementComplete`: `ApplyEdits`, `Clear`. -/
def stmtComplete (sch : Schema) (e : Ed) : Ed := { (e.clear) with rows := applyEdits sch e }

/-- Go: `DiscardChanges` with a non-ignorable error: `Clear`, restore the snapshot. -/
def stmtDiscard (e : Ed) : Ed := { (e.clear) with rows := e.snap }

def mkEd (t : List Row) : Ed := { rows := t }

/-! ## Statements -/

inductive Asg where
  | set (c : Nat) (v : Val)        -- c = <literal>
  | add (c : Nat) (k : Int)        -- c = c + k
  | vals (c : Nat)                 -- c = VALUES(c)   (ON DUPLICATE KEY UPDATE only)
  deriving Repr, Inhabited

inductive Cmp where
  | eq | ne | lt | le | gt | ge
  deriving DecidableEq, Repr, Inhabited

inductive Cond where
  | cmp (op : Cmp) (c : Nat) (v : Val)
  | isNull (c : Nat)
  | notNull (c : Nat)
  deriving Repr, Inhabited

inductive Stmt where
  | insert (ignore : Bool) (rows : List Row)
  | replace (rows : List Row)
  | odku (rows : List Row) (asg : List Asg)
  | update (asg : List Asg) (wh : List Cond) (ord : List (Nat × Bool)) (lim : Option Nat)
  | delete (wh : List Cond) (ord : List (Nat × Bool)) (lim : Option Nat)
  deriving Repr, Inhabited

inductive Outcome where
  | ok (affected matched : Nat)
  | dup                       -- ERROR 1062
  | stuck                     -- the REPLACE loop did not terminate within its fuel (never observed)
  deriving DecidableEq, Repr, Inhabited

def setAt (r : Row) (c : Nat) (v : Val) : Row := r.set c v

/-- One assignment, evaluated left to right on the row being built (`new` is the row from VALUES). -/
def applyAsg1 (cur new : Row) : Asg → Row
  | .set c v => setAt cur c v
  | .add c k => match cur.at c with
    | .int i => setAt cur c (.int (i + k))
    | _ => setAt cur c .null
  | .vals c => setAt cur c (new.at c)

def applyAsg (asg : List Asg) (old new : Row) : Row := asg.foldl (fun cur a => applyAsg1 cur new a) old

def evalCond (sch : Schema) (r : Row) : Cond → Bool
  | .isNull c => r.at c == .null
  | .notNull c => r.at c != .null
  | .cmp op c v =>
    match valCmp ((sch.cols.getD c {}).ci) (r.at c) v with
    | none => false
    | some o =>
      match op with
      | .eq => o == .eq | .ne => o != .eq | .lt => o == .lt
      | .le => o != .gt | .gt => o == .gt | .ge => o != .lt

/-- The rows an UPDATE / DELETE works on: WHERE, then ORDER BY, then LIMIT, on the table as it
was before the statement. -/
def source (sch : Schema) (t : List Row) (wh : List Cond) (ord : List (Nat × Bool)) (lim : Option Nat) : List Row :=
  let sel := t.filter (fun r => wh.all (evalCond sch r))
  let sorted := if ord.isEmpty then sel else sortRowsBy (ordLt sch ord) sel
  match lim with
  | none => sorted
  | some n => sorted.take n

/-! ### Impl: the rowexec iterators reduced to their calls on the table editor -/

/-- Go: `TableEditorIter` around `insertIter` without IGNORE/REPLACE/ODKU. -/
def implInsertRows (sch : Schema) : Ed → List Row → Except EdErr Ed
  | e, [] => .ok e
  | e, r :: rs => match edInsert sch e r with
    | .ok e' => implInsertRows sch e' rs
    | .error x => .error x

/-- Go: `CheckpointingTableEditorIter` around `insertIter` with IGNORE: every row is its own
statement; a duplicate is an ignorable error (`DiscardChanges` only clears the accumulator). -/
def implInsertIgnore (sch : Schema) : Ed → List Row → Nat → Ed × Nat
  | e, [], n => (e, n)
  | e, r :: rs, n =>
    match edInsert sch (stmtBegin e) r with
    | .ok e' => implInsertIgnore sch (stmtComplete sch e') rs (n + 1)
    | .error x => implInsertIgnore sch (((stmtBegin e).clear).mark x.ghost) rs n

/-- Go: the REPLACE loop of `insertIter.Next` for one row: `Insert`; on a duplicate `Delete(ue.Existing)` and retry. -/
def implReplaceOne (sch : Schema) : Nat → Ed → Row → Bool → Option (Ed × Bool)
  | 0, _, _, _ => none
  | f + 1, e, row, deleted =>
    match edInsert sch e row with
    | .ok e' => some (e', deleted)
    | .error x => implReplaceOne sch f ((edDelete sch e x.existing).mark x.ghost) row true

/-- Go: `replaceRowHandler`: one per row, one more if *some* row was deleted. -/
def implReplace (sch : Schema) : Ed → List Row → Nat → Option (Ed × Nat)
  | e, [], n => some (e, n)
  | e, r :: rs, n =>
    match implReplaceOne sch (sch.uniques.length + 3) e r false with
    | none => none
    | some (e', deleted) => implReplace sch e' rs (n + 1 + (if deleted then 1 else 0))

/-- Go: `insertIter.Next` with ON DUPLICATE KEY UPDATE + `onDuplicateUpdateHandler`. -/
def implOdku (sch : Schema) (asg : List Asg) : Ed → List Row → Nat → Except EdErr (Ed × Nat)
  | e, [], n => .ok (e, n)
  | e, r :: rs, n =>
    match edInsert sch e r with
    | .ok e' => implOdku sch asg e' rs (n + 1)
    | .error x =>
      let old := x.existing
      let new := applyAsg asg old r
      match edUpdate sch (e.mark x.ghost) old new with
      | .error y => .error y
      | .ok e' => implOdku sch asg e' rs (n + (if rowEquals sch.cols old new then 0 else 2))

/-- Go: `updateIter.Next` + `updateRowHandler`: (affected, matched). -/
def implUpdate (sch : Schema) (asg : List Asg) : Ed → List Row → Nat → Nat → Except EdErr (Ed × Nat × Nat)
  | e, [], a, m => .ok (e, a, m)
  | e, old :: rs, a, m =>
    let new := applyAsg asg old old
    if rowEquals sch.cols old new then implUpdate sch asg e rs a (m + 1)
    else
      match edUpdate sch e old new with
      | .error y => .error y
      | .ok e' => implUpdate sch asg e' rs (a + 1) (m + 1)

def implDelete (sch : Schema) (e : Ed) (rows : List Row) : Ed := rows.foldl (edDelete sch) e

/-- One statement on the stored table `t`: outcome and editor state afterwards (`rows` is the
stored table, `inexact` the ghost flag). -/
def implStmtE (sch : Schema) (t : List Row) : Stmt → Outcome × Ed
  | .insert false rows =>
    match implInsertRows sch (stmtBegin (mkEd t)) rows with
    | .ok e => (.ok rows.length 0, stmtComplete sch e)
    | .error x => (.dup, (mkEd t).mark x.ghost)
  | .insert true rows =>
    let (e, n) := implInsertIgnore sch (mkEd t) rows 0
    (.ok n 0, e)
  | .replace rows =>
    match implReplace sch (stmtBegin (mkEd t)) rows 0 with
    | some (e, n) => (.ok n 0, stmtComplete sch e)
    | none => (.stuck, mkEd t)
  | .odku rows asg =>
    match implOdku sch asg (stmtBegin (mkEd t)) rows 0 with
    | .ok (e, n) => (.ok n 0, stmtComplete sch e)
    | .error x => (.dup, (mkEd t).mark x.ghost)
  | .update asg wh ord lim =>
    match implUpdate sch asg (stmtBegin (mkEd t)) (source sch t wh ord lim) 0 0 with
    | .ok (e, a, m) => (.ok a m, stmtComplete sch e)
    | .error x => (.dup, (mkEd t).mark x.ghost)
  | .delete wh ord lim =>
    -- Go: analyzer `deleteToTruncate`: a DELETE whose child is the bare table becomes TRUNCATE
    if wh.isEmpty && ord.isEmpty && lim.isNone then (.ok t.length 0, mkEd [])
    else
      let rows := source sch t wh ord lim
      (.ok rows.length 0, stmtComplete sch (implDelete sch (stmtBegin (mkEd t)) rows))

def implStmt (sch : Schema) (t : List Row) (s : Stmt) : Outcome × List Row :=
  let (o, e) := implStmtE sch t s
  (o, e.rows)

/-! ### Spec: reference table model -/

/-- length in bytes of the UTF-8 sequence that starts with lead byte `b`. -/
def utf8Len (b : Nat) : Nat := if b < 128 then 1 else if b < 224 then 2 else if b < 240 then 3 else 4

/-- the first `n` characters (UTF-8 sequences) of a byte string; `fuel ≥ length` suffices. -/
def takeCharsF : Nat → Nat → List Nat → List Nat
  | 0, _, _ => []
  | _, 0, _ => []
  | _, _, [] => []
  | f + 1, n + 1, b :: rest =>
    (b :: rest).take (utf8Len b) ++ takeCharsF f n ((b :: rest).drop (utf8Len b))

def takeChars (n : Nat) (bs : List Nat) : List Nat := takeCharsF bs.length n bs

/-- Spec equality of two key values of a column: collation-aware, with a prefix length counted
in *characters*; NULL is never equal to anything. -/
def specColEq (ci : Bool) (pl : Nat) : Val → Val → Bool
  | .int a, .int b => a == b
  | .str a, .str b =>
    let a := if pl > 0 then takeChars pl a else a
    let b := if pl > 0 then takeChars pl b else b
    if ci then foldCI a == foldCI b else a == b
  | _, _ => false

/-- Two rows agree on a key (all its columns equal under the Spec equality; a NULL never agrees). -/
def specKeyEq (sch : Schema) : List Nat → List Nat → Row → Row → Bool
  | [], _, _, _ => true
  | c :: cs, pls, r1, r2 =>
    specColEq ((sch.cols.getD c {}).ci) (pls.headD 0) (r1.at c) (r2.at c) && specKeyEq sch cs pls.tail r1 r2

/-- All keys of the table: the primary key first, then the unique indexes in order. -/
def Schema.keys (sch : Schema) : List (List Nat × List Nat) :=
  (if sch.keyless then [] else [(sch.pk, [])]) ++ sch.uniques

/-- `r1` and `r2` collide on some key. -/
def specConflict (sch : Schema) (r1 r2 : Row) : Bool :=
  sch.keys.any (fun k => specKeyEq sch k.1 k.2 r1 r2)

/-- The stored rows that conflict with `row`, ordered by the first key they collide on
(primary key first) — MySQL's choice of the row ON DUPLICATE KEY UPDATE updates. -/
def specConflicts (sch : Schema) (t : List Row) (row : Row) : List Row :=
  let byKey := sch.keys.flatMap (fun k => t.filter (fun r => specKeyEq sch k.1 k.2 r row))
  byKey.eraseDups

/-- remove one occurrence of `r` (exact row). -/
def removeRow (t : List Row) (r : Row) : List Row := t.erase r

def specInsertAll (sch : Schema) : List Row → List Row → Option (List Row)
  | t, [] => some t
  | t, r :: rs => if t.any (specConflict sch r) then none else specInsertAll sch (t ++ [r]) rs

def specInsertIgnore (sch : Schema) : List Row → List Row → Nat → List Row × Nat
  | t, [], n => (t, n)
  | t, r :: rs, n =>
    if t.any (specConflict sch r) then specInsertIgnore sch t rs n
    else specInsertIgnore sch (t ++ [r]) rs (n + 1)

/-- REPLACE: delete *every* conflicting row, insert; affected = 1 + number deleted. -/
def specReplace (sch : Schema) : List Row → List Row → Nat → List Row × Nat
  | t, [], n => (t, n)
  | t, r :: rs, n =>
    let cs := t.filter (specConflict sch r)
    specReplace sch (t.filter (fun x => !specConflict sch r x) ++ [r]) rs (n + 1 + cs.length)

/-- ON DUPLICATE KEY UPDATE: 1 per inserted row, 2 per changed row, 0 per unchanged row; the
updated row must not collide with another row. -/
def specOdku (sch : Schema) (asg : List Asg) : List Row → List Row → Nat → Option (List Row × Nat)
  | t, [], n => some (t, n)
  | t, r :: rs, n =>
    match specConflicts sch t r with
    | [] => specOdku sch asg (t ++ [r]) rs (n + 1)
    | old :: _ =>
      let new := applyAsg asg old r
      if new = old then specOdku sch asg t rs n
      else
        let t' := removeRow t old
        if t'.any (specConflict sch new) then none
        else specOdku sch asg (t' ++ [new]) rs (n + 2)

def specUpdate (sch : Schema) (asg : List Asg) : List Row → List Row → Nat → Nat → Option (List Row × Nat × Nat)
  | t, [], a, m => some (t, a, m)
  | t, old :: rs, a, m =>
    let new := applyAsg asg old old
    if new = old then specUpdate sch asg t rs a (m + 1)
    else
      let t' := removeRow t old
      if t'.any (specConflict sch new) then none
      else specUpdate sch asg (t' ++ [new]) rs (a + 1) (m + 1)

def specStmt (sch : Schema) (t : List Row) : Stmt → Outcome × List Row
  | .insert false rows =>
    match specInsertAll sch t rows with
    | some t' => (.ok rows.length 0, t')
    | none => (.dup, t)
  | .insert true rows =>
    let (t', n) := specInsertIgnore sch t rows 0
    (.ok n 0, t')
  | .replace rows =>
    let (t', n) := specReplace sch t rows 0
    (.ok n 0, t')
  | .odku rows asg =>
    match specOdku sch asg t rows 0 with
    | some (t', n) => (.ok n 0, t')
    | none => (.dup, t)
  | .update asg wh ord lim =>
    match specUpdate sch asg t (source sch t wh ord lim) 0 0 with
    | some (t', a, m) => (.ok a m, t')
    | none => (.dup, t)
  | .delete wh ord lim =>
    let rows := source sch t wh ord lim
    (.ok rows.length 0, rows.foldl removeRow t)

/-- No two stored rows collide on a key (the C14 state invariant, under the Spec equality). -/
def specNoDup (sch : Schema) : List Row → Bool
  | [] => true
  | r :: rs => !rs.any (specConflict sch r) && specNoDup sch rs

/-! ## Defect regions (decidable on the case; named in `known_findings/*.jsonl`) -/

/-- Two rows handled by one statement have different key values whose printed concatenations
collide — under the pre-fix `getRowKey`, which had no separator. (With the repaired `getRowKey`
no two typed rows are in this relation: `Gms.MemTable.keyInjOn_typed`.) -/
def keyCollidePreFix (sch : Schema) (r1 r2 : Row) : Bool :=
  !sch.keyless && getRowKeyPreFix sch.pk r1 == getRowKeyPreFix sch.pk r2 && proj sch.pk r1 != proj sch.pk r2

def anyPair {α : Type} (p : α → α → Bool) : List α → Bool
  | [] => false
  | a :: as => as.any (p a) || anyPair p as

/-- The rows a statement may hand to the editor. For ON DUPLICATE KEY UPDATE the row that gets
updated can be a stored row or a row inserted earlier by the same statement, so the images are
taken over both (string values of images of images occur in these already). -/
def stmtRows (sch : Schema) (t : List Row) : Stmt → List Row
  | .insert _ rows => rows
  | .replace rows => rows ++ t
  | .odku rows asg => rows ++ t ++ (rows ++ t).flatMap (fun o => rows.map (fun r => applyAsg asg o r))
  | .update asg wh ord lim =>
    let src := source sch t wh ord lim
    src ++ src.map (fun o => applyAsg asg o o)
  | .delete wh ord lim => source sch t wh ord lim

/-- The former region `pk_print_collision` (repaired; no longer named by the drivers): the value
class on which the pre-fix code failed. -/
def regionPrintCollisionPreFix (sch : Schema) (t : List Row) (s : Stmt) : Bool :=
  anyPair (keyCollidePreFix sch) (stmtRows sch t s)

/-- Region `ci_collation_key`: a key column has a case-insensitive collation and the statement or
the table holds two strings in it that differ only by case. -/
def regionCiKey (sch : Schema) (t : List Row) (s : Stmt) : Bool :=
  let rows := stmtRows sch t s ++ t
  sch.keys.any (fun k => k.1.any (fun c =>
    (sch.cols.getD c {}).ci &&
      anyPair (fun (r1 r2 : Row) => r1.at c != r2.at c && valEq true (r1.at c) (r2.at c)) rows))

/-- Region `prefix_bytes_vs_chars`: a unique index has a prefix length on a column in which the
statement or the table holds a string with a multi-byte character (the prefix is cut in bytes). -/
def regionPrefixMultibyte (sch : Schema) (t : List Row) (s : Stmt) : Bool :=
  let rows := stmtRows sch t s ++ t
  sch.uniques.any (fun u => (u.1.zip u.2).any (fun cp =>
    decide (cp.2 > 0) && rows.any (fun r => match r.at cp.1 with
      | .str b => b.any (fun x => decide (x ≥ 128))
      | _ => false)))

/-- some replaced row collides with two or more stored rows (Spec state threaded). -/
def replaceMulti (sch : Schema) : List Row → List Row → Bool
  | _, [] => false
  | t, r :: rs =>
    decide ((t.filter (specConflict sch r)).length ≥ 2) ||
      replaceMulti sch (t.filter (fun x => !specConflict sch r x) ++ [r]) rs

/-- Region `replace_multi_delete_count`. -/
def regionReplaceMulti (sch : Schema) (t : List Row) : Stmt → Bool
  | .replace rows => replaceMulti sch t rows
  | _ => false

end Gms.MemTable
