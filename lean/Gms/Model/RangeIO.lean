/-
Parsing / printing of cuts, column ranges and ranges for the line protocol (drivers of C46, C03).
Not part of any theorem.
-/
import Gms.Driver.Proto
import Gms.Model.RangeTree

namespace Gms.RangeIO
open Gms.Proto Gms.Range

def parseCutStr (s : String) : Option Cut :=
  if s == "bn" then some .belowNull
  else if s == "an" then some .aboveNull
  else if s == "aa" then some .aboveAll
  else match s.toList with
    | 'b' :: rest => (String.ofList rest).toInt?.map Cut.below
    | 'a' :: rest => (String.ofList rest).toInt?.map Cut.above
    | _ => none

def parseCut : Sexp → Option Cut
  | .atom s => parseCutStr s
  | _ => none

def parseCol : Sexp → Option ColRange
  | .list [lo, hi] => do pure ⟨← parseCut lo, ← parseCut hi⟩
  | _ => none

def parseRange : Sexp → Option Range
  | .list cs => cs.mapM parseCol
  | _ => none

def parseRanges : Sexp → Option (List Range)
  | .list rs => rs.mapM parseRange
  | _ => none

def parseCols : Sexp → Option (List ColRange)
  | .list cs => cs.mapM parseCol
  | _ => none

def showCut : Cut → String := Gms.RangeTree.cutStr
def showCol (c : ColRange) : String := "(" ++ showCut c.lo ++ " " ++ showCut c.hi ++ ")"
def showList {α : Type} (f : α → String) (l : List α) : String := "(" ++ " ".intercalate (l.map f) ++ ")"
def showRange (r : Range) : String := showList showCol r
def showRanges (rs : List Range) : String := showList showRange rs
def showBool (b : Bool) : String := if b then "t" else "f"

end Gms.RangeIO
