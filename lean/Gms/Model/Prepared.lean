/-
C12 — prepared statements: binding as substitution (core-only).

What the Go code does (engine.go `QueryWithBindings` / `preparedStatement` / `bindQuery` /
`bindExecuteQueryNode`, sql/planbuilder/builder.go `SetBindings`, `BindvarContext.GetSubstitute`,
`UnusedBindings`, orderby.go `normalizeValArg`, scalar.go `ast.ValArg`):

  * the *parsed statement* (vitess AST, placeholders `:v1 … :vn`) is cached per session under the
    statement text; nothing else is kept between executions;
  * an execution builds a fresh plan from the cached AST; every placeholder node looks its name up
    in the `BindvarContext` (`GetSubstitute` also records the name in `used`); a missing name is
    the error "bind variable not provided"; after planning, a binding that was never looked up is
    the error "invalid arguments";
  * the substituted expression is the literal the binder builds from the bound value.

Model: `Stmt` is the cached AST (with `Atom.param`/`PExpr.param` nodes); `exec σ st db` plans and
runs it against the bindings `σ` (lookups at the placeholder nodes, `used` tracking, the two
errors), `subst σ st` is the statement text with the values written as literals. The reference
semantics of the small statement language (integers / byte strings / NULL, three-valued logic of
the shared M1 `Gms.Sql`) plays the role of the SQL definition.
-/
import Gms.Model.Sql
namespace Gms.Prepared
open Gms.Sql

/-- a value position that may be a placeholder: literal or `?` number `i` (0-based) -/
inductive Atom where
  | lit (v : Value)
  | param (i : Nat)
  deriving Repr, DecidableEq, Inhabited

inductive PExpr where
  | atom (a : Atom)
  | col (i : Nat)
  | neg (e : PExpr)
  | arith (op : ArithOp) (a b : PExpr)
  | cmp (op : CmpOp) (a b : PExpr)
  | and (a b : PExpr)
  | or (a b : PExpr)
  | not (e : PExpr)
  | isNull (e : PExpr)
  | inList (e : PExpr) (items : List Atom)
  | between (e lo hi : PExpr)
  deriving Repr, Inhabited

/-- the bindings of one execution: value of placeholder `i`, if provided -/
abbrev Bindings := List (Option Value)

def lookup (σ : Bindings) (i : Nat) : Option Value := (σ.getD i none)

/-! ## Evaluation against bindings (`normalizeValArg` at every placeholder) -/

def Atom.eval (σ : Bindings) : Atom → Value
  | .lit v => v
  | .param i => (lookup σ i).getD .null

def PExpr.eval (σ : Bindings) (row : Row) : PExpr → Value
  | .atom a => a.eval σ
  | .col i => row.getD i .null
  | .neg e => negate (e.eval σ row)
  | .arith op a b => Gms.Sql.arith op (a.eval σ row) (b.eval σ row)
  | .cmp op a b => (cmpTri op (a.eval σ row) (b.eval σ row)).toValue
  | .and a b => (Tri.and (a.eval σ row).truth (b.eval σ row).truth).toValue
  | .or a b => (Tri.or (a.eval σ row).truth (b.eval σ row).truth).toValue
  | .not e => (Tri.not (e.eval σ row).truth).toValue
  | .isNull e => (Tri.ofBool (e.eval σ row).isNull).toValue
  | .inList e items => (inTri (e.eval σ row) (items.map (Atom.eval σ))).toValue
  | .between e lo hi => (betweenTri (e.eval σ row) (lo.eval σ row) (hi.eval σ row)).toValue

/-! ## Substitution (the statement text with the values written as literals) -/

def Atom.subst (σ : Bindings) : Atom → Atom
  | .lit v => .lit v
  | .param i => match lookup σ i with
    | some v => .lit v
    | none => .param i

def PExpr.subst (σ : Bindings) : PExpr → PExpr
  | .atom a => .atom (a.subst σ)
  | .col i => .col i
  | .neg e => .neg (e.subst σ)
  | .arith op a b => .arith op (a.subst σ) (b.subst σ)
  | .cmp op a b => .cmp op (a.subst σ) (b.subst σ)
  | .and a b => .and (a.subst σ) (b.subst σ)
  | .or a b => .or (a.subst σ) (b.subst σ)
  | .not e => .not (e.subst σ)
  | .isNull e => .isNull (e.subst σ)
  | .inList e items => .inList (e.subst σ) (items.map (Atom.subst σ))
  | .between e lo hi => .between (e.subst σ) (lo.subst σ) (hi.subst σ)

/-! ## Placeholders occurring in a term (`BindvarContext.used` after planning) -/

def Atom.params : Atom → List Nat
  | .lit _ => []
  | .param i => [i]

def PExpr.params : PExpr → List Nat
  | .atom a => a.params
  | .col _ => []
  | .neg e => e.params
  | .arith _ a b => a.params ++ b.params
  | .cmp _ a b => a.params ++ b.params
  | .and a b => a.params ++ b.params
  | .or a b => a.params ++ b.params
  | .not e => e.params
  | .isNull e => e.params
  | .inList e items => e.params ++ items.flatMap Atom.params
  | .between e lo hi => e.params ++ lo.params ++ hi.params

/-! ## Statements over one table `t(id INT PRIMARY KEY, k INT, s VARCHAR)` kept sorted by id -/

inductive Stmt where
  /-- `SELECT id, proj… FROM t WHERE w ORDER BY id [LIMIT lim]` -/
  | select (proj : List PExpr) (w : PExpr) (lim : Option Atom)
  /-- `INSERT INTO t VALUES (a0, a1, a2)` -/
  | insert (vals : List Atom)
  /-- `UPDATE t SET col = e WHERE w` (col = 1: k, 2: s) -/
  | update (col : Nat) (e : PExpr) (w : PExpr)
  /-- `DELETE FROM t WHERE w` -/
  | delete (w : PExpr)
  deriving Repr, Inhabited

def Stmt.params : Stmt → List Nat
  | .select proj w lim => proj.flatMap PExpr.params ++ w.params ++ (match lim with | some a => a.params | none => [])
  | .insert vals => vals.flatMap Atom.params
  | .update _ e w => e.params ++ w.params
  | .delete w => w.params

def Stmt.subst (σ : Bindings) : Stmt → Stmt
  | .select proj w lim => .select (proj.map (PExpr.subst σ)) (w.subst σ) (lim.map (Atom.subst σ))
  | .insert vals => .insert (vals.map (Atom.subst σ))
  | .update c e w => .update c (e.subst σ) (w.subst σ)
  | .delete w => .delete (w.subst σ)

abbrev Table := List Row

inductive Outcome where
  | rows (rs : List Row)           -- result set of a SELECT
  | ok (affected : Nat)            -- DML
  | errDup                         -- 1062 duplicate primary key
  | errNullKey                     -- 1048 NULL primary key
  | errMissing                     -- "bind variable not provided"
  | errUnused                      -- "invalid arguments. expected: n, found: m"
  | errLimit                       -- LIMIT value is not a non-negative integer
  deriving Repr, DecidableEq, Inhabited

def keyOf (r : Row) : Value := r.getD 0 .null

def insertSorted (r : Row) : Table → Table
  | [] => [r]
  | x :: xs => if (keyOf r).ord (keyOf x) == .lt then r :: x :: xs else x :: insertSorted r xs

def setCol (r : Row) (c : Nat) (v : Value) : Row := r.set c v

/-- the reference semantics of a statement whose placeholders are resolved through `σ` -/
def run (σ : Bindings) (st : Stmt) (db : Table) : Outcome × Table :=
  match st with
  | .select proj w lim =>
    let hits := db.filter fun r => (w.eval σ r).truth == .t
    let out := hits.map fun r => keyOf r :: proj.map (PExpr.eval σ r)
    match lim with
    | none => (.rows out, db)
    | some a => match a.eval σ with
      | .int n => if n < 0 then (.errLimit, db) else (.rows (out.take n.toNat), db)
      | _ => (.errLimit, db)
  | .insert vals =>
    let r := vals.map (Atom.eval σ)
    if (keyOf r).isNull then (.errNullKey, db)
    else if db.any (fun x => keyOf x == keyOf r) then (.errDup, db)
    else (.ok 1, insertSorted r db)
  | .update c e w =>
    let hit := fun r => (w.eval σ r).truth == .t
    let changed := db.filter fun r => hit r && (r.getD c .null != e.eval σ r)
    (.ok changed.length, db.map fun r => if hit r then setCol r c (e.eval σ r) else r)
  | .delete w =>
    let hit := fun r => (w.eval σ r).truth == .t
    (.ok (db.filter hit).length, db.filter fun r => !hit r)

/-- Impl model of one execution of a prepared statement: plan the cached AST against the
bindings (missing binding ⇒ error while planning; binding never looked up ⇒ error after
planning), then run the plan. `σ` may have *more* entries than placeholders. -/
def exec (σ : Bindings) (st : Stmt) (db : Table) : Outcome × Table :=
  if st.params.any (fun i => (lookup σ i).isNone) then (.errMissing, db)
  else if (List.range σ.length).any (fun i => (lookup σ i).isSome && !st.params.contains i) then (.errUnused, db)
  else run σ st db

/-- Spec: the statement text with the values written as literals, executed without bindings. -/
def execInlined (σ : Bindings) (st : Stmt) (db : Table) : Outcome × Table := run [] (st.subst σ) db

/-- a history of executions of prepared statements (statement, bindings); observations in order -/
def execAll : List (Stmt × Bindings) → Table → List Outcome
  | [], _ => []
  | (st, σ) :: rest, db => (exec σ st db).1 :: execAll rest (exec σ st db).2

def execAllInlined : List (Stmt × Bindings) → Table → List Outcome
  | [], _ => []
  | (st, σ) :: rest, db => (execInlined σ st db).1 :: execAllInlined rest (execInlined σ st db).2

def finalTable : List (Stmt × Bindings) → Table → Table
  | [], db => db
  | (st, σ) :: rest, db => finalTable rest (exec σ st db).2

/-- every placeholder is bound and every binding is used -/
def WellBound (σ : Bindings) (st : Stmt) : Prop :=
  (∀ i ∈ st.params, (lookup σ i).isSome) ∧ (∀ i, i < σ.length → (lookup σ i).isSome → i ∈ st.params)

/-! ## Literal classes: wire/API value → AST literal (`sqlparser.ExprFromValue`), and the text
form the same value has as a literal in the statement text -/

inductive AstKind where
  | nullVal | intVal | floatVal | strVal
  deriving Repr, DecidableEq, Inhabited

/-- the classes of `querypb` types `ExprFromValue` distinguishes -/
inductive WireClass where
  | null | integral | float | decimal | quoted
  deriving Repr, DecidableEq, Inhabited

def astKindOfWire : WireClass → AstKind
  | .null => .nullVal
  | .integral => .intVal
  | .float => .floatVal
  | .decimal => .floatVal
  | .quoted => .strVal

/-- the token class the parser assigns to the literal text of a value of that class
(`NULL`, `123`, `1.5e0`, `1.5`, `'abc'`) -/
def astKindOfText : WireClass → AstKind
  | .null => .nullVal
  | .integral => .intVal
  | .float => .floatVal
  | .decimal => .floatVal
  | .quoted => .strVal

end Gms.Prepared
