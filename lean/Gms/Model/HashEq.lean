/-
C07 — Grouping and de-duplication use the same equality as `=` (core-only model).

Impl model (transliterations of the Go code that exists, defects included)
* `natText`/`intText`  – `strconv.FormatInt/FormatUint(v, 10)`
* `decText`            – `(*apd.Decimal).Text('f')` for coefficient `c`, exponent `-s`
* `decTrimText`        – the `*apd.Decimal` arm of `hash.HashOfSimple` (trailing zeros and '.' trimmed)
* `goText`             – the type switch of `hash.HashOf` (what is written for a Go value when no
                         string-typed schema column applies)
* `toStr`              – `types.ConvertToString` (what a string-typed schema column makes of a value)
* `elemKey`/`rowKey`   – `hash.HashOf`: bytes written to the digest (`<nil>`, 0x00 separators, weight
                         strings when the schema column is a string type)
* `xxh64`              – XXH64 with seed 0 (cespare/xxhash), so that `hashOf` is bit-exact
* `convertCmp`/`simpleKey`/`hashOfSimple` – `hash.HashOfSimple` (promotion + formatting)
* `countDistinctKey`   – `countDistinctBuffer.Update` (`Text.Convert(v) + ","` per column)
* the operators (`groups`, `firstOcc`, `interAll`, `exceptAll`, `inTuple`, `inSub`, `joinPairs`)
  – the hash-keyed iterators of sql/rowexec, sql/iters, sql/plan, parameterised by the
  "same key" relation so that the same definitions give the Spec when run with `=`.

Spec
* `eqVal`  – SQL `=` on two non-NULL values under a collation: numerically equal (any
             representation), or equal lists of collation weights
* `same`/`mtch` – "not distinct" (NULLs together) and "`=` is TRUE"
-/
import Gms.Model.Collation

namespace Gms.HashEq
open Gms.Collation (writeWeights runes)

/-! ## Values -/

/-- A Go value as it reaches a hashing operator. -/
inductive Val where
  | null
  | int (i : Int)              -- any Go integer kind
  | dec (c : Int) (s : Nat)    -- *apd.Decimal with coefficient c and exponent -s
  | str (b : List Nat)         -- Go string (bytes)
  | bool (b : Bool)            -- Go bool (result of a comparison / TRUE / FALSE)
  | flt (c : Int) (s : Nat) (negZero : Bool)
                               -- Go float64 / float32 whose shortest round-trip decimal is `c / 10^s`,
                               -- in normal form (`s = 0`: an integral value, `c` is the whole integer of any
                               -- magnitude, e.g. 2^63 or 10^19; `s > 0`: `c` does not end in 0);
                               -- `negZero`: the value is -0.0 (then c = 0, s = 0)
  deriving DecidableEq, Repr, Inhabited

/-- A collation: `raw` = `Collation_binary` (bytes are hashed and compared as they are);
otherwise one int32 weight per rune. -/
structure Coll where
  raw : Bool
  w : Nat → Int

/-! ## Text forms -/

def natDigitsF : Nat → Nat → List Nat → List Nat
  | 0, _, acc => acc
  | f + 1, n, acc =>
    if n < 10 then (48 + n) :: acc else natDigitsF f (n / 10) ((48 + n % 10) :: acc)

/-- Go: `strconv.FormatUint(n, 10)` as ASCII codes. -/
def natText (n : Nat) : List Nat := natDigitsF (n + 1) n []

/-- Go: `strconv.FormatInt(i, 10)`. -/
def intText (i : Int) : List Nat :=
  if i < 0 then 45 :: natText i.natAbs else natText i.natAbs

def padLeft (n : Nat) (l : List Nat) : List Nat := List.replicate (n - l.length) 48 ++ l

/-- Go: `(*apd.Decimal).Text('f')` of coefficient `c`, exponent `-s` (at least one integer digit,
exactly `s` fraction digits). -/
def decText (c : Int) (s : Nat) : List Nat :=
  let ds := padLeft (s + 1) (natText c.natAbs)
  let body := if s = 0 then ds else ds.take (ds.length - s) ++ 46 :: ds.drop (ds.length - s)
  if c < 0 then 45 :: body else body

def dropTrailing (p : Nat → Bool) (l : List Nat) : List Nat := (l.reverse.dropWhile p).reverse

/-- Go: the `*apd.Decimal` arm of `HashOfSimple`: `Text('f')`, and if it contains '.', trailing
'0's and then trailing '.'s are removed. -/
def decTrimText (c : Int) (s : Nat) : List Nat :=
  let t := decText c s
  if t.contains 46 then dropTrailing (· == 46) (dropTrailing (· == 48) t) else t

/-- Go: `strconv.FormatFloat(v, 'f', -1, bits)` followed by `if str == "-0" { str = "0" }` (the
float32/float64 arms of `HashOf`, `HashOfSimple` and `ConvertToString`): the positional text of the
shortest round-trip decimal — every integer digit for integral values of any magnitude (no exponent
form, no saturation at the int64 range), exactly `s` fraction digits otherwise — and -0.0 is written
like 0.0. -/
def fltText (c : Int) (s : Nat) (negZero : Bool) : List Nat :=
  let t := if negZero && c == 0 then 45 :: decText c s else decText c s
  if t == [45, 48] then [48] else t

def nilKey : List Nat := [60, 110, 105, 108, 62]      -- "<nil>"
def trueText : List Nat := [116, 114, 117, 101]       -- "true"
def falseText : List Nat := [102, 97, 108, 115, 101]  -- "false"

/-- Go: the type switch at the end of `hash.HashOf` (`default:` is `fmt.Sprintf("%v", v)`, which
is where a Go `bool` lands). -/
def goText : Val → List Nat
  | .null => nilKey
  | .int i => intText i
  | .dec c s => decText c s
  | .str b => b
  | .bool true => trueText
  | .bool false => falseText
  | .flt c s z => fltText c s z

/-- Go: `types.ConvertToString` (no length limit reached). -/
def toStr : Val → List Nat
  | .null => []
  | .int i => intText i
  | .dec c s => decText c s
  | .str b => b
  | .bool true => [49]
  | .bool false => [48]
  | .flt c s z => fltText c s z

/-! ## `hash.HashOf` -/

/-- Bytes `HashOf` writes for one row element; `sch = some c` iff `i < len(sch)` and the schema
column is a string type with collation `c`. `none` = the error "malformed string". -/
def elemKey (sch : Option Coll) (v : Val) : Option (List Nat) :=
  match v, sch with
  | .null, _ => some nilKey
  | v, some c => writeWeights c.w c.raw (toStr v)
  | v, none => some (goText v)

/-- Bytes `HashOf(ctx, sch, row)` writes: the element keys separated by a 0x00 byte. -/
def rowKey : List (Option Coll) → List Val → Option (List Nat)
  | _, [] => some []
  | sch, [v] => elemKey sch.head?.join v
  | sch, v :: vs =>
    match elemKey sch.head?.join v, rowKey sch.tail vs with
    | some k, some ks => some (k ++ 0 :: ks)
    | _, _ => none

/-! ## XXH64 (seed 0) -/

namespace XX
def p1 : UInt64 := 11400714785074694791
def p2 : UInt64 := 14029467366897019727
def p3 : UInt64 := 1609587929392839161
def p4 : UInt64 := 9650029242287828579
def p5 : UInt64 := 2870177450012600261

def rotl (x : UInt64) (r : UInt64) : UInt64 := (x <<< r) ||| (x >>> (64 - r))
def round (acc inp : UInt64) : UInt64 := rotl (acc + inp * p2) 31 * p1
def mergeRound (acc v : UInt64) : UInt64 := (acc ^^^ round 0 v) * p1 + p4
/-- little-endian read -/
def le (bs : List Nat) : UInt64 := bs.foldr (fun b a => a * 256 + UInt64.ofNat b) 0

def stripes : Nat → List Nat → UInt64 × UInt64 × UInt64 × UInt64 → (UInt64 × UInt64 × UInt64 × UInt64) × List Nat
  | 0, bs, st => (st, bs)
  | f + 1, bs, (v1, v2, v3, v4) =>
    if bs.length < 32 then ((v1, v2, v3, v4), bs)
    else stripes f (bs.drop 32)
      (round v1 (le (bs.take 8)), round v2 (le ((bs.drop 8).take 8)),
       round v3 (le ((bs.drop 16).take 8)), round v4 (le ((bs.drop 24).take 8)))

def tail8 : Nat → List Nat → UInt64 → UInt64 × List Nat
  | 0, bs, h => (h, bs)
  | f + 1, bs, h =>
    if bs.length < 8 then (h, bs)
    else tail8 f (bs.drop 8) (rotl (h ^^^ round 0 (le (bs.take 8))) 27 * p1 + p4)

def tail1 : List Nat → UInt64 → UInt64
  | [], h => h
  | b :: bs, h => tail1 bs (rotl (h ^^^ (UInt64.ofNat b * p5)) 11 * p1)

def avalanche (h : UInt64) : UInt64 :=
  let h := (h ^^^ (h >>> 33)) * p2
  let h := (h ^^^ (h >>> 29)) * p3
  h ^^^ (h >>> 32)

def sum64 (bs : List Nat) : UInt64 :=
  let n := bs.length
  let (h, rest) :=
    if n ≥ 32 then
      let ((v1, v2, v3, v4), rest) := stripes n bs (p1 + p2, p2, 0, 0 - p1)
      let h := rotl v1 1 + rotl v2 7 + rotl v3 12 + rotl v4 18
      (mergeRound (mergeRound (mergeRound (mergeRound h v1) v2) v3) v4, rest)
    else (p5, bs)
  let h := h + UInt64.ofNat n
  let (h, rest) := tail8 n rest h
  let (h, rest) :=
    if rest.length ≥ 4 then (rotl (h ^^^ (le (rest.take 4) * p1)) 23 * p2 + p3, rest.drop 4) else (h, rest)
  avalanche (tail1 rest h)
end XX

/-- Go: `hash.HashOf(ctx, sch, row)`; `none` = error. -/
def hashOf (sch : List (Option Coll)) (row : List Val) : Option UInt64 :=
  (rowKey sch row).map XX.sum64

/-! ## `hash.HashOfSimple` -/

/-- The compare types `HashOfSimple` is called with in the modelled envelope. -/
inductive CmpTy where
  | int64                 -- types.Int64
  | decimal               -- types.InternalDecimalType = DECIMAL(65,30)
  | float64               -- types.Float64 (integers up to 2^53 and short decimals only: there
                          -- `FormatFloat(v, 'f', -1, 64)` is the trimmed decimal text)
  | text (c : Coll)       -- a text type with collation c

def pow10 (n : Nat) : Nat := 10 ^ n

/-- Go: decimal → int64 conversion (`Int64.Convert` rounds half away from zero). -/
def roundDec (c : Int) (s : Nat) : Int :=
  let q : Int := ((2 * c.natAbs + pow10 s) / (2 * pow10 s) : Nat)
  if c < 0 then -q else q

/-- Go: `types.ConvertOrTruncate(ctx, i, t.Promote())` followed by the formatting switch of
`HashOfSimple`, for non-text compare types; `none` = outside the modelled envelope. -/
def numKey : CmpTy → Val → Option (List Nat)
  | .int64, .int i => some (intText i)
  | .int64, .dec c s => some (intText (roundDec c s))
  | .int64, .bool b => some (if b then [49] else [48])
  | .decimal, .int i => some (intText i)
  | .decimal, .dec c s => some (decTrimText c s)
  | .decimal, .bool b => some (if b then [49] else [48])
  | .float64, .int i => some (intText i)
  | .float64, .dec c s => some (decTrimText c s)
  | .float64, .bool b => some (if b then [49] else [48])
  | .float64, .flt c s z => some (fltText c s z)   -- float64 → float64: identity, then the float arm
  | _, _ => none

/-- Bytes `HashOfSimple(ctx, v, t)` hashes (v non-NULL). -/
def simpleKey (t : CmpTy) (v : Val) : Option (List Nat) :=
  match t, v with
  | _, .null => none
  | .text c, .str b => writeWeights c.w c.raw b
  | .text _, _ => none
  | t, v => numKey t v

/-- Go: `hash.HashOfSimple(ctx, v, t)`: NULL hashes to 0. -/
def hashOfSimple (t : CmpTy) (v : Val) : Option UInt64 :=
  match v with
  | .null => some 0
  | v => (simpleKey t v).map XX.sum64

/-- Go: the tuple arm of `HashOfSimple`: `fmt.Sprintf("%v", hashes)` of the element hashes. -/
def hashOfSimpleTuple (ts : List CmpTy) (vs : List Val) : Option UInt64 :=
  match (List.zip ts vs).mapM (fun (t, v) => hashOfSimple t v) with
  | none => none
  | some hs =>
    let body := " ".intercalate (hs.map fun h => toString h.toNat)
    some (XX.sum64 (("[" ++ body ++ "]").toList.map Char.toNat))

/-- Go: `countDistinctBuffer.Update`: `Text.Convert(v) + ","` for every column (rows containing a
NULL are skipped before). -/
def countDistinctKey : List Val → List Nat
  | [] => []
  | v :: vs => toStr v ++ 44 :: countDistinctKey vs

/-! ## Spec: SQL `=` -/

/-- A number as `c / 10^s`. -/
def numOf : Val → Option (Int × Nat)
  | .int i => some (i, 0)
  | .dec c s => some (c, s)
  | .bool b => some (if b then 1 else 0, 0)
  | .flt c s _ => some (c, s)   -- the double itself (its shortest decimal determines it); -0.0 = 0.0
  | _ => none

def eqNum (a b : Int × Nat) : Bool := a.1 * (pow10 b.2 : Nat) == b.1 * (pow10 a.2 : Nat)

/-- The list of collation weights of a string (`raw`: its bytes). -/
def weights (c : Coll) (b : List Nat) : List Int :=
  if c.raw then b.map Int.ofNat else (runes false b).map c.w

/-- SQL `a = b` for two non-NULL values of one comparison family (numbers, or strings under
collation `c`); `none` = NULL, or outside the typed fragment (number vs. string). -/
def eqVal (c : Coll) : Val → Val → Option Bool
  | .null, _ => none
  | _, .null => none
  | .str a, .str b => some (weights c a == weights c b)
  | a, b =>
    match numOf a, numOf b with
    | some x, some y => some (eqNum x y)
    | _, _ => none

/-- "Not distinct": what GROUP BY / DISTINCT / set operations must treat as one value. -/
def same (c : Coll) (a b : Val) : Bool :=
  match a, b with
  | .null, .null => true
  | a, b => eqVal c a b == some true

/-- `=` is TRUE: what IN and join keys must match on. -/
def mtch (c : Coll) (a b : Val) : Bool := eqVal c a b == some true

/-! ## The hash-keyed operators, parameterised by the key relation

`r a b` = "a and b have the same key" (Impl) or `same`/`mtch` (Spec). Rows are identified by
their position in the input. -/

/-- Position of the first element the relation relates to `v`, if any. -/
def findIdx (r : Val → Val → Bool) (v : Val) : List (Nat × Val) → Option Nat
  | [] => none
  | (i, x) :: rest => if r x v then some i else findIdx r v rest

/-- Go: `groupByGroupingIter.compute`: per row, look the key up; new key ⇒ new group (in first
seen order). Result: `(index of the first row, row count)` per group. -/
def bump (r : Val → Val → Bool) (v : Val) : List (Nat × Val × Nat) → List (Nat × Val × Nat)
  | [] => []
  | g :: gs => if r g.2.1 v then (g.1, g.2.1, g.2.2 + 1) :: gs else g :: bump r v gs

def groupsAux (r : Val → Val → Bool) : List Val → Nat → List (Nat × Val × Nat) → List (Nat × Val × Nat)
  | [], _, acc => acc
  | v :: vs, i, acc =>
    if acc.any (fun g => r g.2.1 v) then groupsAux r vs (i + 1) (bump r v acc)
    else groupsAux r vs (i + 1) (acc ++ [(i, v, 1)])

def groups (r : Val → Val → Bool) (xs : List Val) : List (Nat × Nat) :=
  (groupsAux r xs 0 []).map fun g => (g.1, g.2.2)

/-- Go: `distinctIter.Next`: a row passes iff its key was not seen before. Result: positions of
the rows that pass. -/
def firstOccAux (r : Val → Val → Bool) : List Val → Nat → List Val → List Nat
  | [], _, _ => []
  | v :: vs, i, seen =>
    if seen.any (fun s => r s v) then firstOccAux r vs (i + 1) seen
    else i :: firstOccAux r vs (i + 1) (seen ++ [v])

def firstOcc (r : Val → Val → Bool) (xs : List Val) : List Nat := firstOccAux r xs 0 []

/-- COUNT(DISTINCT x): number of key classes among the non-NULL values. -/
def countDistinct (r : Val → Val → Bool) (xs : List Val) : Nat :=
  (firstOcc r (xs.filter (· != .null))).length

/-- Remove the first element related to `v`; `none` if there is none. -/
def removeFirst (r : Val → Val → Bool) (v : Val) : List Val → Option (List Val)
  | [] => none
  | y :: ys => if r y v then some ys else (removeFirst r v ys).map (y :: ·)

/-- Go: `IntersectIter.Next`: right keys are counted; a left row passes while its key's count is
positive, and decrements it. Result: the left rows that pass (position, value). -/
def interAll (r : Val → Val → Bool) : List Val → Nat → List Val → List (Nat × Val)
  | [], _, _ => []
  | v :: vs, i, ys =>
    match removeFirst r v ys with
    | some ys' => (i, v) :: interAll r vs (i + 1) ys'
    | none => interAll r vs (i + 1) ys

/-- Go: `ExceptIter.Next`: right keys are counted — **and the `nil` row returned together with
`io.EOF` is hashed too**, i.e. the key of the empty row gets count 1 (`phantom v` = "v's key is
the key of the empty row"); a left row is dropped while its key's count is positive. -/
def exceptAll (r : Val → Val → Bool) (phantom : Val → Bool) : List (Nat × Val) → List Val → Bool → List (Nat × Val)
  | [], _, _ => []
  | (i, v) :: vs, ys, ph =>
    match removeFirst r v ys with
    | some ys' => exceptAll r phantom vs ys' ph
    | none =>
      if ph && phantom v then exceptAll r phantom vs ys false
      else (i, v) :: exceptAll r phantom vs ys ph

/-- Go: `NewDistinctIter` under a child: the rows that pass, with their positions. -/
def dedup (r : Val → Val → Bool) (xs : List Val) : List (Nat × Val) :=
  (firstOcc r xs).filterMap fun i => (xs[i]?).map fun v => (i, v)

/-- The Distinct node that sits on top of a non-ALL set operation. -/
def distinctOf (r : Val → Val → Bool) (rows : List (Nat × Val)) : List Nat :=
  let keep := firstOcc r (rows.map (·.2))
  keep.filterMap fun k => (rows[k]?).map (·.1)

/-- `x IN (list)` / `x IN (subquery)` truth value: 2 = TRUE, 1 = NULL, 0 = FALSE. -/
def inTuple (m : Val → Val → Bool) (ys : List Val) (v : Val) : Nat :=
  if v == .null then 1
  else if ys.any (fun y => y != .null && m y v) then 2
  else if ys.any (· == .null) then 1 else 0

/-- Go: `InSubquery.Eval` on a cached right side: look the left key up; on a hit, the cached
value (the *last* right value with that key) is compared with `=` once more. -/
def inSub (k : Val → Val → Bool) (m : Val → Val → Bool) (ys : List Val) (v : Val) : Nat :=
  if v == .null then (if ys.isEmpty then 0 else 1)
  else
    match (ys.filter fun y => y != .null && k y v).getLast? with
    | some y => if m v y then 2 else 0
    | none => if ys.any (· == .null) then 1 else 0

/-- Go: hash join: probe by key, then the join condition is evaluated on the candidates. -/
def joinPairs (k : Val → Val → Bool) (m : Val → Val → Bool) (xs ys : List Val) : List (Nat × Nat) :=
  (xs.zipIdx).flatMap fun (x, i) =>
    (ys.zipIdx).filterMap fun (y, j) => if k x y && m x y then some (i, j) else none

/-! ## Scenarios: which key each operator uses on which values

A case is an operator, the column types of the two inputs (`lt` for table t1 / the probed side,
`rt` for table t2 / the list or subquery side) and the stored values. -/

inductive ColTy where
  | int            -- INT
  | dec (s : Nat)  -- DECIMAL(12,s)
  | strBin         -- VARCHAR(20) COLLATE utf8mb4_0900_bin
  | strCi          -- VARCHAR(20) COLLATE <the case's collation>
  | dbl            -- DOUBLE
  deriving DecidableEq, Repr, Inhabited

inductive Op where
  | groupBy | distinct | countDistinct | union | intersect | except | inList | inSub | hashJoin
  deriving DecidableEq, Repr, Inhabited

def Op.name : Op → String
  | .groupBy => "groupby" | .distinct => "distinct" | .countDistinct => "countdistinct"
  | .union => "union" | .intersect => "intersect" | .except => "except"
  | .inList => "inlist" | .inSub => "insub" | .hashJoin => "hashjoin"

/-- Does the operator's call of `hash.HashOf` pass the schema (call-site fact, regenerated)?
`none`: the operator does not call `HashOf` on its values. -/
def Op.schemaSupplied : Op → Option Bool
  | .groupBy => some true      -- rowexec/agg.go groupingKey: HashOf(ctx, i.keySch, i.keyRow)
  | .distinct => some false    -- plan/distinct.go DistinctHasher.HashOf: HashOf(ctx, nil, row)
  | .union => some false       -- the Distinct node on top of the set operation
  | .intersect => some false   -- iters/rel_iters.go IntersectIter.Next: HashOf(ctx, nil, res)
  | .except => some false      -- iters/rel_iters.go ExceptIter.Next: HashOf(ctx, nil, res)
  | .inSub => some true        -- plan/insubquery.go: HashOf(ctx, Schema{rTyp}, row); subquery.go putAllRows: HashOf(ctx, sch, …)
  | .countDistinct => none     -- unary_agg_buffers.go: own text key
  | .inList => none            -- expression/in.go: HashOfSimple
  | .hashJoin => none          -- plan/hash_lookup.go: HashOfSimple for single-column keys

/-- The two collations of a case: the one of `strCi` columns and utf8mb4_0900_bin (also the
collation of the LongText compare type of IN lists). -/
structure Env where
  ci : Coll
  bin : Coll

def Env.collOf (e : Env) : ColTy → Option Coll
  | .strBin => some e.bin
  | .strCi => some e.ci
  | _ => none

/-- The collation `=` uses between the two sides (both sides have the same string type). -/
def Env.cmpColl (e : Env) (lt : ColTy) : Coll := (e.collOf lt).getD e.bin

/-- A value of a column of type `mine` after UNION [ALL] / INTERSECT / EXCEPT unified it with a
column of type `other`: INT next to DECIMAL becomes a scale-0 decimal, everything else is passed
through unchanged (in particular decimals keep their own scale). -/
def arrive (other mine : ColTy) (v : Val) : Val :=
  match mine, other, v with
  | .int, .dec _, .int i => .dec i 0
  | _, _, v => v

/-- Go: `rTyp.Convert(left)` in `InSubquery.Eval` (exact conversions only). -/
def convTo (rt : ColTy) (v : Val) : Val :=
  match rt, v with
  | .dec s, .int i => .dec (i * (pow10 s : Nat)) s
  | .dec s, .dec c s' => if s' ≤ s then .dec (c * (pow10 (s - s') : Nat)) s else .dec c s'
  | _, v => v

/-- Go: `types.GetCompareType(lType, right[0].Type())` in `newInMap`, and
`GetCompareType(leftKeyType, rightKeyType)` for the hash join. -/
def cmpTyOf (e : Env) (lt : ColTy) (other : Option ColTy) (first : Val) : CmpTy :=
  match lt with
  | .strBin => if other == some .strBin then .text e.bin else .text e.bin
  | .strCi => if other == some .strCi then .text e.ci else .text e.bin
  | .dec _ => .decimal
  | .dbl => .float64   -- GetCompareType(DOUBLE, DOUBLE) (float literals / a DOUBLE column on the other side)
  | .int =>
    match other, first with
    | some (.dec _), _ => .decimal
    | none, .dec _ _ => .decimal
    | none, .null => .float64   -- GetCompareType(INT, NULL type): neither both signed nor both unsigned
    | _, _ => .int64

def keyEq (a b : Option (List Nat)) : Bool := a.isSome && a == b

/-- The relations of one case: `k` = "same key" (Impl), `s` = what the property demands. -/
structure Rels where
  k : Val → Val → Bool
  s : Val → Val → Bool

def hashOfRel (sch : Option Coll) (a b : Val) : Bool := keyEq (elemKey sch a) (elemKey sch b)

def relsOf (e : Env) (op : Op) (lt rt : ColTy) (ys : List Val) : Rels :=
  let c := e.cmpColl lt
  match op with
  | .groupBy => ⟨hashOfRel (e.collOf lt), same c⟩
  | .distinct | .union | .intersect | .except => ⟨hashOfRel none, same c⟩
  | .countDistinct => ⟨fun a b => countDistinctKey [a] == countDistinctKey [b], same c⟩
  | .inList =>
    let t := cmpTyOf e lt none (ys.headD .null)
    ⟨fun a b => keyEq (simpleKey t a) (simpleKey t b), mtch c⟩
  -- NULL on either side never reaches the key lookup (`leftNull` is returned early; `inSub` skips NULL right values)
  | .inSub => ⟨fun a b => a != .null && b != .null && hashOfRel (e.collOf rt) a b, mtch c⟩
  | .hashJoin =>
    let t := cmpTyOf e lt (some rt) .null
    ⟨fun a b => keyEq (simpleKey t a) (simpleKey t b), mtch c⟩

/-- Position of the first element identical to the `i`-th (observations identify rows by value). -/
def canonPos (l : List Val) (i : Nat) : Nat :=
  match l[i]? with
  | some v => (l.findIdx? (· == v)).getD i
  | none => i

/-- A structured observation. -/
inductive Obs where
  | pairs (l : List (Nat × Nat))
  | nats (l : List Nat)
  | num (n : Nat)
  deriving DecidableEq, Repr, Inhabited

def showNats (l : List Nat) : String := " ".intercalate (l.map toString)
def showPairs (l : List (Nat × Nat)) : String :=
  " ".intercalate (l.map fun p => "(" ++ toString p.1 ++ " " ++ toString p.2 ++ ")")

def Obs.render : Obs → String
  | .pairs l => showPairs l
  | .nats l => showNats l
  | .num n => toString n

def insertNat (x : Nat) : List Nat → List Nat
  | [] => [x]
  | y :: ys => if x ≤ y then x :: y :: ys else y :: insertNat x ys

def sortNats (l : List Nat) : List Nat := l.foldr insertNat []

/-- The two inputs as they reach the operator. -/
def inputs (op : Op) (lt rt : ColTy) (xs ys : List Val) : List Val × List Val :=
  match op with
  | .inList | .hashJoin => (xs, ys)
  | .inSub => (xs.map (convTo rt), ys)
  | _ => (xs.map (arrive rt lt), ys.map (arrive lt rt))

/-- Result of the operator under relation `r` (and `m` = the final `=` re-check, `ph` = whether
the EOF row of EXCEPT is hashed), rendered as the observation the harness prints. -/
def runWith (op : Op) (r m : Val → Val → Bool) (ph : Val → Bool) (xs ys : List Val) : Obs :=
  match op with
  | .groupBy => .pairs (groups r (xs ++ ys))
  | .distinct | .union => .nats (sortNats ((firstOcc r (xs ++ ys)).map (canonPos (xs ++ ys))))
  | .countDistinct => .num (countDistinct r (xs ++ ys))
  | .intersect => .nats (sortNats ((distinctOf r (interAll r xs 0 ys)).map (canonPos xs)))
  -- rowexec/rel.go buildSetOp: EXCEPT DISTINCT de-duplicates both children, then ExceptIter
  | .except => .nats (sortNats (((exceptAll r ph (dedup r xs) ((dedup r ys).map (·.2)) true).map (·.1)).map (canonPos xs)))
  | .inList => .nats ((xs.zipIdx.filter fun (v, _) => inTuple r ys v == 2).map (·.2))
  | .inSub => .nats (xs.map (inSub r m ys))
  | .hashJoin => .pairs (joinPairs r m xs ys)

def emptyRowKey (v : Val) : Bool := elemKey none v == some []

def implObs (e : Env) (op : Op) (lt rt : ColTy) (xs ys : List Val) : Obs :=
  runWith op (relsOf e op lt rt ys).k (relsOf e op lt rt ys).s emptyRowKey
    (inputs op lt rt xs ys).1 (inputs op lt rt xs ys).2

def specObs (e : Env) (op : Op) (lt rt : ColTy) (xs ys : List Val) : Obs :=
  runWith op (relsOf e op lt rt ys).s (relsOf e op lt rt ys).s (fun _ => false)
    (inputs op lt rt xs ys).1 (inputs op lt rt xs ys).2

/-! ### Regions: why Impl and Spec differ on a case -/

def isNum : Val → Bool
  | .int _ | .dec _ _ => true
  | _ => false

/-- Defect classes, in priority order. -/
inductive Cause where
  | nilText       -- the text '<nil>' and NULL have the same key
  | emptyKey      -- EXCEPT: a row whose key is the key of the empty row
  | collation     -- two strings are `=` under the collation but have different keys
  | decimalScale  -- two numbers are `=` but their decimal texts differ (scale)
  | elemRounded   -- IN list: elements are converted to the type of the first element
  | boolInt       -- Go bool vs. integer
  | other
  deriving DecidableEq, Repr, Inhabited

def Cause.name : Cause → String
  | .nilText => "nil_text" | .emptyKey => "empty_key" | .collation => "collation"
  | .decimalScale => "decimal_scale" | .elemRounded => "elem_rounded" | .boolInt => "bool_int"
  | .other => "other"

def Cause.all : List Cause :=
  [.nilText, .emptyKey, .collation, .decimalScale, .elemRounded, .boolInt, .other]

/-- Class of a pair of values on which "same key" and `=` disagree. -/
def pairCause (op : Op) (a b : Val) : Cause :=
  match a, b with
  | .null, .str _ | .str _, .null => .nilText
  | .str _, .str _ => .collation
  | .bool _, _ | _, .bool _ => .boolInt
  | a, b =>
    if isNum a && isNum b then (if op == .inList then .elemRounded else .decimalScale)
    else .other

/-- All defect classes present in a case (COUNT(DISTINCT) never sees NULLs). -/
def causes (e : Env) (op : Op) (lt rt : ColTy) (xs ys : List Val) : List Cause :=
  let (xs', ys') := inputs op lt rt xs ys
  let R := relsOf e op lt rt ys
  let all := if op == .countDistinct then (xs' ++ ys').filter (· != .null) else xs' ++ ys'
  let pairs := all.flatMap fun a => all.filterMap fun b =>
    if R.k a b != R.s a b then some (pairCause op a b) else none
  let ph := if op == .except && xs'.any emptyRowKey then [Cause.emptyKey] else []
  ph ++ pairs

/-- The region of a case: the operator and the first defect class in priority order. -/
def region (e : Env) (op : Op) (lt rt : ColTy) (xs ys : List Val) : Option (Op × Cause) :=
  let cs := causes e op lt rt xs ys
  (Cause.all.find? (fun p => cs.contains p)).map fun c => (op, c)

def regionName : Option (Op × Cause) → String
  | some (op, c) => op.name ++ "_" ++ c.name
  | none => "-"

end Gms.HashEq
