/-
C44 — system and user variables (core-only model).

Code modelled (path by path):
* sql/types/system_{bool,int,uint,double,enum,set,string}.go `Convert`              → `convert`
* sql/types/set.go `SetType.Convert`, `convertStringToBitField`, `convertBitFieldToString`,
  `allValuesBitField`                                                                  → `setOfString`, `bitsToString`
* sql/core.go `MysqlSystemVariable.SetValue / InitValue / IsReadOnly / IsGlobalOnly`,
  `MysqlScope.SetValue / GetValue` (Global, Session, Persist, PersistOnly)             → `scopeSetValue`, `readSys`
* sql/variables/system_variables.go `SetGlobal / GetGlobal / NewSessionMap`             → `setGlobal`, `getGlobal`, `newSession`
* sql/base_session.go `SetSessionVariable / setSessVar / GetSessionVariable /
  GetSessionVariableDefault`, sql/uservars.go                                          → `setSessionVar`, …
* memory/session.go `PersistGlobal`                                                    → `persistGlobal`
* sql/planbuilder/set.go `buildSysVar`, `simplifySetExpr` (string literal converted at plan time,
  DEFAULT → registered default, `@@x` / `@u` right-hand sides evaluated at execution time),
  sql/rowexec/rel.go `buildSet` (assignments executed left to right, stop at the first error),
  sql/planbuilder/scalar.go `convertInt` + sql/types/conversion.go `ApproximateTypeFromValue`
  (type of a user variable)                                                            → `planSet`, `execSet`, `litType`

Two layers share these definitions through `Quirks`: `implQ` is the code as it is, `specQ` what the
property demands (a rejected statement has no effect; a value outside the variable's type is
rejected, never wrapped or rounded; an unqualified `@@x` of a GLOBAL-only variable is its global
value). Every quirk is a named `Region` of Props/C44.

String → typed value (`case string:` of the system_* `Convert`s) is modelled on the characters:
`parseIntL` = `strconv.ParseInt(s, 10, 64)` (optional sign, decimal digits, nothing else — no base
prefix, no underscore, no blank, no exponent; leading zeros are decimal), `parseFloatL` =
`strconv.ParseFloat(s, 64)` on finite values (`readFloat` + `underscoreOK`: decimal mantissa with
optional point and `e` exponent; Go-literal extras: `_` between digits, `0x…p…` hexadecimal
floats), `boolOfChars` (on / off / true / false); system_uint has no string arm.
The character-set / collation variables are modelled too: `Var.allowed` = the `NotifyChanged`
validators `validateCharacterSet` / `validateCollation`, `Var.couple` = the second assignment of
`setSystemVar` (character_set_connection ↔ collation_connection, character_set_server ↔
collation_server, written through the scope of the statement), `Var.catalog` = session-scope reads
of `character_set_database` / `collation_database` come from the current database
(`MysqlScope.GetValue`), `expandNames` = `SET NAMES` (planbuilder `buildSet`).

Not modelled (kept out of the generator, see `Var.special`): variables with another
`NotifyChanged` hook or a `ValueFunction`, `time_zone` validation, `SET NAMES … COLLATE` (the
COLLATE part is dropped by the planbuilder) and `SET CHARACTER SET`, `sql_mode` / `collation_*` /
`lc_time_names` given as an integer literal (planbuilder rewrites it), variables whose type is not
a system_* type (`server_id`, `server_uuid`).
Assumptions on values: decimal / float literals and the mantissas of numeric strings have
magnitude < 2^53 and at most 15 significant digits, exponents are small (float64 conversion is
exact and `inf` / `nan` / out-of-range strings are rejected by the bounds); names of set members
are ASCII (collation hash = case-insensitive comparison).
-/
namespace Gms.SysVars

/-- Registry `Scope.Type`. `persist`: the five entries tagged `SystemVariableScope_Persist`
(`log_bin`, `server_id`, …); `SetValue` only tests for `Session` and `Global`, so they behave as `both`. -/
inductive Scope | global | session | both | persist
deriving DecidableEq, Repr

inductive Ty
  | bool
  | int (lo hi : Int) (negOne : Bool)
  | uint (lo hi : Nat)
  | double (lo hi : Int)
  | enum (vals : List String)
  | set (vals : List String)
  | string
  | other
deriving DecidableEq, Repr

/-- Go value of a right-hand side after evaluation. `dec m s`/`flt m s` denote `m / 10^s`
(`*apd.Decimal` resp. `float64`). -/
inductive Val
  | null
  | bool (b : Bool)
  | int (i : Int)
  | uint (n : Nat)
  | dec (m : Int) (s : Nat)
  | flt (m : Int) (s : Nat)
  | str (s : String)
deriving DecidableEq, Repr

/-- Go value stored in `SystemVarValue.Val`. -/
inductive SVal
  | i8 (b : Bool)
  | int (i : Int)
  | uint (n : Nat)
  | dbl (m : Int) (s : Nat)
  | str (s : String)
  | bits (n : Nat)
deriving DecidableEq, Repr

structure Var where
  name : String
  scope : Scope
  dynamic : Bool
  /-- has a ValueFunction or a NotifyChanged hook, is coupled / validated by name in the executor,
  or is not of a system_* type: outside the modelled envelope -/
  special : Bool
  ty : Ty
  default : SVal
  /-- `NotifyChanged = validateCharacterSet / validateCollation`: the names (lower case, `""`
  included) `sql.ParseCharacterSet` / `sql.ParseCollation` accept, dumped from the compiled code -/
  allowed : Option (List String) := none
  /-- `setSystemVar`: the counterpart that is assigned next, in the scope of the statement, and the
  map value (lower case) ↦ counterpart's value (character set ↦ its default collation, collation ↦
  its character set), dumped from the compiled code -/
  couple : Option (String × List (String × String)) := none
  /-- `MysqlScope.GetValue`, SESSION scope: `character_set_database` / `collation_database` are
  read from the current database, not from the session -/
  catalog : Option SVal := none
deriving DecidableEq, Repr

abbrev Reg := List Var

/-- What differs between the code and the property. -/
structure Quirks where
  /-- int64↔uint64 reinterpretation in `Convert` (`uint64(-1)`, `int64(2^64-1)`) -/
  wraps : Bool
  /-- `DecimalIntPartUint64`: a decimal given to an unsigned variable is rounded and loses its sign -/
  decRounds : Bool
  /-- a multi-assignment SET keeps the assignments made before the failing one -/
  partialMulti : Bool
  /-- `SET PERSIST` writes the persisted map before scope / read-only checks -/
  persistFirst : Bool
  /-- unqualified `@@x` of a GLOBAL-only variable reads the session's start-up copy -/
  staleGlobalOnly : Bool
  /-- `strconv.ParseFloat` accepts Go literal syntax for a double variable: `_` between digits and
  hexadecimal floats (`'1_000'` = 1000, `'0x1p4'` = 16); the property demands decimal notation -/
  goFloat : Bool
  /-- SESSION-scope reads of `character_set_database` / `collation_database` ignore the session's
  value (and a new session does not see the global one) -/
  catalogReads : Bool
deriving DecidableEq, Repr

def implQ : Quirks := ⟨true, true, true, true, true, true, true⟩
def specQ : Quirks := ⟨false, false, false, false, false, false, false⟩

/-! ### strings -/

def lowerC (c : Char) : Char := if 'A' ≤ c ∧ c ≤ 'Z' then Char.ofNat (c.toNat + 32) else c
def lower (s : String) : String := String.ofList (s.toList.map lowerC)

def digitsVal : List Char → Nat → Option Nat
  | [], acc => some acc
  | c :: cs, acc => if '0' ≤ c ∧ c ≤ '9' then digitsVal cs (acc * 10 + (c.toNat - '0'.toNat)) else none

/-- Go `strconv.ParseUint(s, 10, 64)` without the range check. -/
def parseNat (cs : List Char) : Option Nat :=
  match cs with
  | [] => none
  | _ => digitsVal cs 0

def two63 : Nat := 9223372036854775808
def two64 : Nat := 18446744073709551616

/-- Go `strconv.ParseInt(s, 10, 64)` on the characters of `s`: one optional sign, then decimal
digits only (base 10 is fixed: no `0x` / `0b` / `0o` / leading-zero-octal, no `_`), 64-bit range. -/
def parseIntL (cs : List Char) : Option Int :=
  let r : Option Int := match cs with
    | '-' :: ds => (parseNat ds).map fun n => -(n : Int)
    | '+' :: ds => (parseNat ds).map fun n => (n : Int)
    | ds => (parseNat ds).map fun n => (n : Int)
  match r with
  | some i => if -(two63 : Int) ≤ i ∧ i < two63 then some i else none
  | none => none

def parseInt (s : String) : Option Int := parseIntL s.toList

/-- `case string:` of system_bool.go (`strings.ToLower`, ASCII letters). -/
def boolOfChars (cs : List Char) : Option Bool :=
  let l := cs.map lowerC
  if l = ['o', 'n'] ∨ l = ['t', 'r', 'u', 'e'] then some true
  else if l = ['o', 'f', 'f'] ∨ l = ['f', 'a', 'l', 's', 'e'] then some false
  else none

/-! #### `strconv.ParseFloat` (finite results) -/

/-- value of a digit of `readFloat` (hexadecimal letters only in a `0x` mantissa) -/
def digitIn (hex : Bool) (c : Char) : Option Nat :=
  if '0' ≤ c ∧ c ≤ '9' then some (c.toNat - 48)
  else if hex = true ∧ 'a' ≤ c ∧ c ≤ 'f' then some (c.toNat - 87)
  else if hex = true ∧ 'A' ≤ c ∧ c ≤ 'F' then some (c.toNat - 55)
  else none

/-- The mantissa loop of `readFloat` (underscores already removed): digits with at most one `.`;
returns the coefficient, the number of digits after the point, the number of digits, the rest. -/
def scanMant (hex : Bool) : List Char → Nat → Nat → Nat → Bool → Nat × Nat × Nat × List Char
  | [], acc, frac, nd, _ => (acc, frac, nd, [])
  | c :: cs, acc, frac, nd, dot =>
    if c = '.' then
      if dot then (acc, frac, nd, c :: cs) else scanMant hex cs acc frac nd true
    else match digitIn hex c with
      | some d => scanMant hex cs (acc * (if hex then 16 else 10) + d) (if dot then frac + 1 else frac) (nd + 1) dot
      | none => (acc, frac, nd, c :: cs)

/-- exponent after `e` / `p`: optional sign, decimal digits up to the end of the string -/
def parseExp : List Char → Option Int
  | '+' :: ds => (parseNat ds).map fun n => (n : Int)
  | '-' :: ds => (parseNat ds).map fun n => -(n : Int)
  | ds => (parseNat ds).map fun n => (n : Int)

/-- `c * b^e` (b = 2 or 10) as `m / 10^s`. -/
def mkRat (neg : Bool) (c : Nat) (e : Int) (two : Bool) : Int × Nat :=
  let m : Int := if neg then -(c : Int) else c
  if two then
    if 0 ≤ e then (m * (2 ^ e.toNat : Nat), 0) else (m * (5 ^ (-e).toNat : Nat), (-e).toNat)
  else
    if 0 ≤ e then (m * (10 ^ e.toNat : Nat), 0) else (m, (-e).toNat)

/-- `readFloat` after the sign: `0x` selects a hexadecimal mantissa, which must be followed by a `p`
exponent; a decimal mantissa may be followed by an `e` exponent; at least one digit; nothing after. -/
def parseFloatBody (neg : Bool) (cs : List Char) : Option (Int × Nat) :=
  let hb : Bool × List Char := match cs with
    | '0' :: x :: rest => if lowerC x = 'x' then (true, rest) else (false, cs)
    | _ => (false, cs)
  let hex := hb.1
  match scanMant hex hb.2 0 0 0 false with
  | (c, frac, nd, rest) =>
    if nd = 0 then none else
    match rest with
    | [] => if hex then none else some (mkRat neg c (-(frac : Int)) false)
    | x :: ex =>
      if lowerC x = (if hex then 'p' else 'e') then
        match parseExp ex with
        | some e => some (if hex then mkRat neg c (e - 4 * (frac : Int)) true else mkRat neg c (e - (frac : Int)) false)
        | none => none
      else none

/-- Go `strconv.underscoreOK` from the number proper on; `saw` is `^` (start), `0` (digit or base
prefix), `_` or `!` (anything else). -/
def usOK (hex : Bool) : List Char → Char → Bool
  | [], saw => saw != '_'
  | c :: cs, saw =>
    if (digitIn hex c).isSome then usOK hex cs '0'
    else if c = '_' then (if saw = '0' then usOK hex cs '_' else false)
    else if saw = '_' then false
    else usOK hex cs '!'

def dropSign : List Char → List Char
  | '+' :: r => r
  | '-' :: r => r
  | r => r

/-- Go `strconv.underscoreOK`: an underscore only between digits or between a base prefix and a digit. -/
def underscoreOK (cs : List Char) : Bool :=
  match dropSign cs with
  | '0' :: p :: rest =>
    if lowerC p = 'b' ∨ lowerC p = 'o' ∨ lowerC p = 'x' then usOK (lowerC p = 'x') rest '0'
    else usOK false ('0' :: p :: rest) '^'
  | r => usOK false r '^'

/-- The string uses Go literal syntax that is not decimal notation: an underscore, or a `0x` prefix. -/
def goSyntax (cs : List Char) : Bool :=
  cs.contains '_' || (match dropSign cs with
    | '0' :: x :: _ => lowerC x = 'x'
    | _ => false)

/-- Go `strconv.ParseFloat(s, 64)` on the characters of `s`, finite results as `m / 10^s`:
underscores are skipped by `readFloat` and checked afterwards by `underscoreOK`; the property
(`goFloat = false`) accepts decimal notation only. -/
def parseFloatL (q : Quirks) (cs : List Char) : Option (Int × Nat) :=
  if goSyntax cs && !q.goFloat then none
  else if cs.contains '_' && !underscoreOK cs then none
  else match cs.filter (· != '_') with
    | '-' :: r => parseFloatBody true r
    | '+' :: r => parseFloatBody false r
    | r => parseFloatBody false r

def splitOnComma : List Char → List Char → List (List Char)
  | [], cur => [cur.reverse]
  | c :: cs, cur => if c = ',' then cur.reverse :: splitOnComma cs [] else splitOnComma cs (c :: cur)

def trimRightSp (cs : List Char) : List Char := (cs.reverse.dropWhile (· = ' ')).reverse

/-! ### numbers -/

/-- `int64(x)` for a uint64 `x`. -/
def wrapI (n : Nat) : Int := if n < two63 then n else (n : Int) - two64
/-- `uint64(x)` for an int64 `x`. -/
def wrapU (i : Int) : Nat := if i < 0 then (i + two64).toNat else i.toNat

/-- `m / 10^s` as an integer if it is one. -/
def integral (m : Int) (s : Nat) : Option Int :=
  if m % (10 ^ s : Nat) = 0 then some (m / (10 ^ s : Nat)) else none

/-- `sql.DecimalRound(v, 0).Coeff.Uint64()`: round half up on the magnitude, sign dropped. -/
def decRoundAbs (m : Int) (s : Nat) : Nat :=
  let p := 10 ^ s
  (2 * m.natAbs + p) / (2 * p)

def normDbl : Int → Nat → Int × Nat
  | m, 0 => (m, 0)
  | m, s + 1 => if m % 10 = 0 then normDbl (m / 10) s else (m, s + 1)

def mkDbl (m : Int) (s : Nat) : SVal := .dbl m s

def inDbl (lo hi : Int) (m : Int) (s : Nat) : Bool :=
  decide (lo * (10 ^ s : Nat) ≤ m) && decide (m ≤ hi * (10 ^ s : Nat))

/-! ### sets and enums -/

def findIdxLast (vals : List String) (s : String) : Option Nat :=
  let l := lower s
  (vals.zipIdx.foldl (fun acc (v, i) => if lower v = l then some i else acc) none)

/-- `allValuesBitField` (its special case for 64 members is the same number). -/
def allBits (vals : List String) : Nat := 2 ^ vals.length - 1

def isPow2Below (n : Nat) (len : Nat) : Bool := (List.range len).any fun i => n = 2 ^ i

/-- One comma-separated element of `convertStringToBitField` (no member is the empty string):
skip an empty element; match a member (right-trimmed, case-insensitively); else accept a
single-bit number (0 is skipped); else fail. -/
def setElem (vals : List String) (bitsSoFar : Nat) (el : List Char) : Option Nat :=
  if el.isEmpty then some bitsSoFar else
  match findIdxLast vals (String.ofList (trimRightSp el)) with
  | some i => some (bitsSoFar ||| 2 ^ i)
  | none =>
    match parseNat el with
    | some n =>
      if n ≥ two64 then none
      else if n = 0 then some bitsSoFar
      else if isPow2Below n vals.length then some (bitsSoFar ||| n) else none
    | none => none

def setElems (vals : List String) : List (List Char) → Nat → Option Nat
  | [], acc => some acc
  | el :: rest, acc => match setElem vals acc el with
    | some acc' => setElems vals rest acc'
    | none => none

/-- `convertStringToBitField`. -/
def setOfString (vals : List String) (s : String) : Option Nat :=
  if s = "" then some 0 else setElems vals (splitOnComma s.toList []) 0

/-- `convertBitFieldToString`. -/
def bitsToString (vals : List String) (n : Nat) : String :=
  ",".intercalate ((vals.zipIdx.filter fun (_, i) => n.testBit i).map (·.1))

/-! ### `Convert` of the system-variable types -/

def convInt (q : Quirks) (lo hi : Int) (neg : Bool) (i : Int) : Option SVal :=
  let _ := q
  if (lo ≤ i ∧ i ≤ hi) ∨ (neg = true ∧ i = -1) then some (.int i) else none

def convUint (lo hi : Nat) (n : Nat) : Option SVal :=
  if lo ≤ n ∧ n ≤ hi then some (.uint n) else none

def convEnum (vals : List String) (i : Int) : Option SVal :=
  if 0 ≤ i ∧ i < vals.length then (vals[i.toNat]?).map .str else none

def convSetBits (vals : List String) (n : Nat) : Option SVal :=
  if n ≤ allBits vals then some (.bits n) else none

def convert (q : Quirks) : Ty → Val → Option SVal
  -- system_bool.go
  | .bool, .bool b => some (.i8 b)
  | .bool, .int i => if i = 0 then some (.i8 false) else if i = 1 then some (.i8 true) else none
  | .bool, .uint n => if n = 0 then some (.i8 false) else if n = 1 then some (.i8 true) else none
  | .bool, .dec m s | .bool, .flt m s =>
    match integral m s with
    | some 0 => some (.i8 false)
    | some 1 => some (.i8 true)
    | _ => none
  | .bool, .str s =>
    match boolOfChars s.toList with
    | some b => some (.i8 b)
    | none => none
  | .bool, .null => none
  -- system_int.go
  | .int lo hi neg, .int i => convInt q lo hi neg i
  | .int lo hi neg, .uint n =>
    if q.wraps then convInt q lo hi neg (wrapI n)
    else if n < two63 then convInt q lo hi neg n else none
  | .int lo hi neg, .dec m s | .int lo hi neg, .flt m s =>
    match integral m s with
    | some i => convInt q lo hi neg i
    | none => none
  | .int lo hi neg, .str s =>
    match parseIntL s.toList with
    | some i => convInt q lo hi neg i
    | none => none
  | .int _ _ _, .null | .int _ _ _, .bool _ => none
  -- system_uint.go
  | .uint lo hi, .int i =>
    if q.wraps then convUint lo hi (wrapU i)
    else if 0 ≤ i then convUint lo hi i.toNat else none
  | .uint lo hi, .uint n => convUint lo hi n
  | .uint lo hi, .dec m s =>
    if q.decRounds then convUint lo hi (decRoundAbs m s % two64)
    else match integral m s with
      | some i => if 0 ≤ i then convUint lo hi i.toNat else none
      | none => none
  | .uint lo hi, .flt m s =>
    match integral m s with
    | some i => if 0 ≤ i then convUint lo hi i.toNat else none
    | none => none
  | .uint _ _, .null | .uint _ _, .bool _ | .uint _ _, .str _ => none
  -- system_double.go
  | .double lo hi, .int i => if inDbl lo hi i 0 then some (mkDbl i 0) else none
  | .double lo hi, .uint n => if inDbl lo hi n 0 then some (mkDbl n 0) else none
  | .double lo hi, .dec m s | .double lo hi, .flt m s => if inDbl lo hi m s then some (mkDbl m s) else none
  | .double lo hi, .str s =>
    match parseFloatL q s.toList with
    | some (m, sc) => if inDbl lo hi m sc then some (mkDbl m sc) else none
    | none => none
  | .double _ _, .null | .double _ _, .bool _ => none
  -- system_enum.go
  | .enum vals, .int i => convEnum vals i
  | .enum vals, .uint n => convEnum vals (wrapI n)
  | .enum vals, .dec m s | .enum vals, .flt m s =>
    match integral m s with
    | some i => convEnum vals i
    | none => none
  | .enum vals, .str s => match findIdxLast vals s with
    | some i => (vals[i]?).map .str
    | none => none
  | .enum _, .null | .enum _, .bool _ => none
  -- system_set.go + set.go
  | .set vals, .int i =>
    if q.wraps then convSetBits vals (wrapU i)
    else if 0 ≤ i then convSetBits vals i.toNat else none
  | .set vals, .uint n => convSetBits vals n
  | .set vals, .dec m s | .set vals, .flt m s =>
    match integral m s with
    | some i =>
      if q.wraps then convSetBits vals (wrapU i)
      else if 0 ≤ i then convSetBits vals i.toNat else none
    | none => none
  | .set vals, .str s => (setOfString vals s).map .bits
  | .set _, .null | .set _, .bool _ => none
  -- system_string.go
  | .string, .null => some (.str "")
  | .string, .str s => some (.str s)
  | .string, _ => none
  | .other, _ => none

/-- The `case string:` arm of the numeric system_* `Convert`s on the characters of the string
(`convert q ty (.str s) = convStr q ty s.toList` for these types, `convert_str`); enum, set and
string variables work on the string as a whole. -/
def convStr (q : Quirks) : Ty → List Char → Option SVal
  | .bool, cs => match boolOfChars cs with
    | some b => some (.i8 b)
    | none => none
  | .int lo hi neg, cs => match parseIntL cs with
    | some i => convInt q lo hi neg i
    | none => none
  | .uint _ _, _ => none
  | .double lo hi, cs => match parseFloatL q cs with
    | some (m, sc) => if inDbl lo hi m sc then some (mkDbl m sc) else none
    | none => none
  | _, _ => none

/-- The value is one the type's `Convert` can produce (what "has the variable's type" means). -/
def valid : Ty → SVal → Bool
  | .bool, .i8 _ => true
  | .int lo hi neg, .int i => decide (lo ≤ i ∧ i ≤ hi) || (neg && decide (i = -1))
  | .uint lo hi, .uint n => decide (lo ≤ n ∧ n ≤ hi)
  | .double lo hi, .dbl m s => inDbl lo hi m s
  | .enum vals, .str s => vals.contains s
  | .set vals, .bits n => decide (n ≤ allBits vals)
  | .set vals, .str s => (setOfString vals s).isSome   -- registered defaults of set variables are strings
  | .string, .str _ => true
  | _, _ => false

/-- Client-visible text of a stored value (`Type.SQL`, after `BitsToString` for sets). -/
def render (t : Ty) : SVal → String
  | .i8 b => if b then "1" else "0"
  | .int i => toString i
  | .uint n => toString n
  | .dbl m s => let (m', s') := normDbl m s; toString m' ++ "/" ++ toString (10 ^ s')
  | .str s => s
  | .bits n => match t with
    | .set vals => bitsToString vals n
    | _ => toString n

/-- The Go value an expression `@@x` evaluates to (`GetGlobal` / `GetSessionVariable`). -/
def toVal (t : Ty) : SVal → Val
  | .i8 b => .int (if b then 1 else 0)
  | .int i => .int i
  | .uint n => .uint n
  | .dbl m s => .flt m s
  | .str s => .str s
  | .bits n => match t with
    | .set vals => .str (bitsToString vals n)
    | _ => .uint n

/-! ### state -/

abbrev Map (β : Type) := List (String × β)

def Map.get {β : Type} (m : Map β) (k : String) : Option β := (m.find? (·.1 = k)).map (·.2)
def Map.put {β : Type} (m : Map β) (k : String) (v : β) : Map β :=
  match m with
  | [] => [(k, v)]
  | (k', v') :: rest => if k' = k then (k, v) :: rest else (k', v') :: Map.put rest k v

/-- Type of a user variable as the client sees it (`ApproximateTypeFromValue` of the stored Go value). -/
inductive UTy | null | i8 | u8 | i16 | u16 | i32 | u32 | i64 | u64 | dec (p s : Nat) | dbl | str (len : Nat) | bool
deriving DecidableEq, Repr

structure UVal where
  val : Val
  ty : UTy
deriving DecidableEq, Repr

structure Session where
  sys : Map SVal
  user : Map UVal
deriving DecidableEq, Repr

structure State where
  global : Map SVal
  sessions : List (Nat × Session)
  persisted : Map SVal
deriving DecidableEq, Repr

def Reg.find (r : Reg) (name : String) : Option Var := r.find? (·.name = name)

/-- `InitSystemVariables`: every variable at its registered default. -/
def init (r : Reg) : State := { global := r.map fun v => (v.name, v.default), sessions := [], persisted := [] }

def State.sess (st : State) (sid : Nat) : Option Session := (st.sessions.find? (·.1 = sid)).map (·.2)

def putSess : List (Nat × Session) → Nat → Session → List (Nat × Session)
  | [], sid, s => [(sid, s)]
  | (k, s') :: rest, sid, s => if k = sid then (sid, s) :: rest else (k, s') :: putSess rest sid s

/-- `NewBaseSessionWithClientServer`: the session map is a copy of the global map (`NewSessionMap`). -/
def newSession (st : State) (sid : Nat) : State :=
  { st with sessions := putSess st.sessions sid { sys := st.global, user := [] } }

/-! ### statements -/

inductive Err | unknown | globalOnly | sessionOnly | readOnly | invalid | unsupported | other | charset
deriving DecidableEq, Repr

def Err.toString : Err → String
  | .unknown => "unknown" | .globalOnly => "globalonly" | .sessionOnly => "sessiononly"
  | .readOnly => "readonly" | .invalid => "invalid" | .unsupported => "unsupported" | .other => "other"
  | .charset => "charset"

/-- Scope of a reference after `VarScope`: `explicit` = written as `@@scope.x` (specifiedScope ≠ ""). -/
inductive SetScope | session | global | persist | persistOnly
deriving DecidableEq, Repr

structure SysRef where
  scope : SetScope
  explicit : Bool
  name : String
deriving DecidableEq, Repr

inductive Rhs
  | lit (v : Val)
  | dflt
  | sys (r : SysRef)
  | user (name : String)
deriving DecidableEq, Repr

inductive Target
  | sys (r : SysRef)
  | user (name : String)
deriving DecidableEq, Repr

inductive Stmt
  | newSession (sid : Nat)
  | set (sid : Nat) (asgs : List (Target × Rhs))
  | get (sid : Nat) (refs : List Target)
  /-- `PersistableSession.GetPersistedValue` (the persisted map is shared by all sessions) -/
  | getPersisted (name : String)
deriving Repr

/-- Planned right-hand side. -/
inductive PRhs
  | val (v : Val)
  | sys (global : Bool) (name : String)
  | user (name : String)
deriving DecidableEq, Repr

def isReadOnly (v : Var) : Bool := !v.dynamic
def isGlobalOnly (v : Var) : Bool := v.scope = .global

/-- `buildSysVar` for a read or a SET target: existence and the explicit-SESSION check. Returns
whether the reference resolves to the Global scope. -/
def resolveRef (r : Reg) (ref : SysRef) : Except Err Unit :=
  match ref.scope with
  | .global => match r.find ref.name with
    | some _ => .ok ()
    | none => .error .unknown
  | .session => match r.find ref.name with
    | some v => if ref.explicit && isGlobalOnly v then .error .globalOnly else .ok ()
    | none => .error .unknown
  | .persist | .persistOnly => .ok ()

/-- `NotifyChanged` of the character-set / collation variables (`validateCharacterSet`,
`validateCollation`): the converted value must be a name `ParseCharacterSet` / `ParseCollation`
accepts (case-insensitively). -/
def notifyOk (v : Var) (sv : SVal) : Bool :=
  match v.allowed with
  | none => true
  | some names => match sv with
    | .str s => names.contains (lower s)
    | _ => false

/-- `MysqlSystemVariable.SetValue` checks, then `InitValue` = `Type.Convert` + `NotifyChanged`. -/
def setValue (q : Quirks) (v : Var) (x : Val) (global : Bool) : Except Err SVal :=
  if global && v.scope = .session then .error .sessionOnly
  else if !global && v.scope = .global then .error .globalOnly
  else if isReadOnly v then .error .readOnly
  else match convert q v.ty x with
    | some sv => if notifyOk v sv then .ok sv else .error .charset
    | none => .error .invalid

/-- `globalSystemVariables.SetGlobal`. -/
def setGlobal (q : Quirks) (r : Reg) (st : State) (name : String) (x : Val) : Except Err State :=
  match r.find name with
  | none => .error .unknown
  | some v => do
    let sv ← setValue q v x true
    pure { st with global := st.global.put name sv }

/-- `BaseSession.SetSessionVariable` + `setSessVar` (every registered name is in the session map). -/
def setSessionVar (q : Quirks) (r : Reg) (st : State) (sid : Nat) (name : String) (x : Val) : Except Err State :=
  match st.sess sid, r.find name with
  | some s, some v =>
    if isReadOnly v then .error .readOnly
    else do
      let sv ← setValue q v x false
      pure { st with sessions := putSess st.sessions sid { s with sys := s.sys.put name sv } }
  | _, _ => .error .unknown

/-- `memory.Session.PersistGlobal`: only `Type.Convert` guards the write. -/
def persistGlobal (q : Quirks) (r : Reg) (st : State) (name : String) (x : Val) : Except Err State :=
  match r.find name with
  | none => .error .unknown
  | some v => match convert q v.ty x with
    | some sv => .ok { st with persisted := st.persisted.put name sv }
    | none => .error .invalid

def lift (st : State) : Except Err State → State × Option Err
  | .ok st' => (st', none)
  | .error e => (st, some e)

/-- `MysqlScope.SetValue`: new state and the error, if any. `SET PERSIST` in the code writes the
persisted map first and keeps that write when `SetGlobal` then fails; the property
(`persistFirst = false`) demands the checks of `SetGlobal` first. -/
def scopeSetValue (q : Quirks) (r : Reg) (st : State) (sid : Nat) (sc : SetScope) (name : String) (x : Val) :
    State × Option Err :=
  match sc with
  | .global => lift st (setGlobal q r st name x)
  | .session => lift st (setSessionVar q r st sid name x)
  | .persist =>
    if q.persistFirst then
      match persistGlobal q r st name x with
      | .error e => (st, some e)
      | .ok st1 => lift st1 (setGlobal q r st1 name x)
    else
      match setGlobal q r st name x with
      | .error e => (st, some e)
      | .ok st1 => lift st (persistGlobal q r st1 name x)
  | .persistOnly =>
    if q.persistFirst then lift st (persistGlobal q r st name x)
    else match r.find name with
      | none => (st, some .unknown)
      | some v => match setValue q v x true with
        | .error e => (st, some e)
        | .ok _ => lift st (persistGlobal q r st name x)

/-- `GetGlobal` / `GetSessionVariable` as a Go value. -/
def readSys (r : Reg) (st : State) (sid : Nat) (global : Bool) (name : String) : Except Err (Ty × SVal) :=
  match r.find name with
  | none => .error .unknown
  | some v =>
    if global then match st.global.get name with
      | some sv => .ok (v.ty, sv)
      | none => .error .unknown
    else match (st.sess sid).bind (·.sys.get name) with
      | some sv => .ok (v.ty, sv)
      | none => .error .unknown

/-- `convertInt`: the narrowest Go integer type of a non-negative literal; `-n` is typed by the
planbuilder's negation folding the same way on the signed side. -/
def litType : Val → UTy
  | .null => .null
  | .bool _ => .bool
  | .int i =>
    if 0 ≤ i then
      if i < 128 then .i8 else if i < 256 then .u8 else if i < 32768 then .i16 else if i < 65536 then .u16
      else if i < 2147483648 then .i32 else if i < 4294967296 then .u32 else .i64
    else
      if -128 ≤ i then .i8 else if -32768 ≤ i then .i16 else if -2147483648 ≤ i then .i32 else .i64
  | .uint _ => .u64
  | .dec m s => .dec (max (toString m.natAbs).length (s + 1)) s   -- `GetDecimalPrecisionAndScale`: "0.5" is decimal(2,1)
  | .flt _ _ => .dbl
  | .str s => .str s.utf8ByteSize

/-- Type of the Go value a system variable evaluates to. -/
def sysValType (t : Ty) : SVal → UTy
  | .i8 _ => .i8
  | .int _ => .i64
  | .uint _ => .u64
  | .dbl _ _ => .dbl
  | .str s => .str s.utf8ByteSize
  | .bits n => match t with
    | .set vals => .str (bitsToString vals n).utf8ByteSize
    | _ => .u64

/-- Plan one assignment (`setExprsToExpressions`): errors here abort the statement before any effect. -/
def planAsg (q : Quirks) (r : Reg) (a : Target × Rhs) : Except Err (Target × PRhs) :=
  match a with
  | (.user n, rhs) =>
    match rhs with
    | .lit v => .ok (.user n, .val v)
    | .dflt => .error .other
    | .sys ref => do
      resolveRef r ref
      match ref.scope with
      | .global => pure (.user n, .sys true ref.name)
      | .session => pure (.user n, .sys false ref.name)
      | _ => throw .other
    | .user m => .ok (.user n, .user m)
  | (.sys t0, rhs) => do
    -- the parser has already split `@@session.x` of a SET target into scope + name, so
    -- `buildSysVar` sees no specifiedScope there (the GLOBAL-only check happens in `SetValue`)
    let t : SysRef := { t0 with explicit := false }
    resolveRef r t
    let ty : Option Ty := (r.find t.name).map (·.ty)
    match rhs with
    | .lit (.str s) =>
      -- `simplifySetExpr`: a string literal is converted by the variable's type at plan time
      match ty with
      | some ty => match convert q ty (.str s) with
        | some sv => pure (.sys t, .val (toVal ty sv))
        | none => throw .invalid
      | none => pure (.sys t, .val (.str s))
    | .lit v => pure (.sys t, .val v)
    | .dflt =>
      match t.scope with
      | .persist | .persistOnly => throw .unsupported
      | _ => match r.find t.name with
        | some v => pure (.sys t, .val (toVal v.ty v.default))
        | none => throw .unknown
    | .sys ref => do
      resolveRef r ref
      match ref.scope with
      | .global => pure (.sys t, .sys true ref.name)
      | .session => pure (.sys t, .sys false ref.name)
      | _ => throw .other
    | .user m => pure (.sys t, .user m)

def planSet (q : Quirks) (r : Reg) : List (Target × Rhs) → Except Err (List (Target × PRhs))
  | [] => .ok []
  | a :: rest => do
    let p ← planAsg q r a
    let ps ← planSet q r rest
    pure (p :: ps)

/-- `SystemVar.Eval` with the scope chosen by `buildSysVar`: a SESSION-scope reference reads the
session map even for a GLOBAL-only variable (`GetSessionScope` is always Session); the property
demands the global value there. -/
def readScoped (q : Quirks) (r : Reg) (st : State) (sid : Nat) (global : Bool) (name : String) :
    Except Err (Ty × SVal) :=
  match r.find name with
  | none => .error .unknown
  | some v =>
    -- `MysqlScope.GetValue`: a SESSION-scope read of character_set_database / collation_database is
    -- answered from the current database; the property demands the session's value
    match (if global || !q.catalogReads then none else v.catalog) with
    | some c => .ok (v.ty, c)
    | none => readSys r st sid (global || (isGlobalOnly v && !q.staleGlobalOnly)) name

/-- Evaluate a planned right-hand side in the current (possibly already modified) state. -/
def evalRhs (q : Quirks) (r : Reg) (st : State) (sid : Nat) : PRhs → Except Err (Val × UTy)
  | .val v => .ok (v, litType v)
  | .sys g n => do
    let (ty, sv) ← readScoped q r st sid g n
    pure (toVal ty sv, sysValType ty sv)
  | .user n => match (st.sess sid).bind (·.user.get (lower n)) with
    | some u => .ok (u.val, u.ty)
    | none => .ok (.null, .null)

/-- The value `setSystemVar` gives to the counterpart of a coupled variable, from the evaluated
(not yet converted) right-hand side: NULL stays NULL, a string is parsed as a character set /
collation and mapped (default collation of the character set, character set of the collation),
anything else is an invalid value. -/
def coupledVal (tbl : List (String × String)) : Val → Except Err Val
  | .null => .ok .null
  | .str s => match tbl.find? (·.1 = lower s) with
    | some p => .ok (.str p.2)
    | none => .error .charset
  | _ => .error .invalid

/-- The counterpart of a coupled variable and its value table. -/
def coupleOf (r : Reg) (name : String) : Option (String × List (String × String)) :=
  (r.find name).bind (·.couple)

/-- `setSystemVar`: the assignment itself, then — for character_set_connection / collation_connection
/ character_set_server / collation_server — the counterpart, **through the same scope**. -/
def setSystemVar (q : Quirks) (r : Reg) (st : State) (sid : Nat) (t : SysRef) (v : Val) : State × Option Err :=
  match scopeSetValue q r st sid t.scope t.name v with
  | (st1, some e) => (st1, some e)
  | (st1, none) =>
    match coupleOf r t.name with
    | none => (st1, none)
    | some (other, tbl) =>
      match coupledVal tbl v with
      | .error e => (st1, some e)
      | .ok v' => scopeSetValue q r st1 sid t.scope other v'

/-- One assignment at execution time (`buildSet` → `setSystemVar` / `setUserVar`). -/
def execAsg (q : Quirks) (r : Reg) (st : State) (sid : Nat) (a : Target × PRhs) : State × Option Err :=
  match evalRhs q r st sid a.2 with
  | .error e => (st, some e)
  | .ok (v, uty) =>
    match a.1 with
    | .user n =>
      match st.sess sid with
      | some s => ({ st with sessions := putSess st.sessions sid { s with user := s.user.put (lower n) ⟨v, uty⟩ } }, none)
      | none => (st, some .other)
    | .sys t => setSystemVar q r st sid t v

/-- `SET NAMES x` (planbuilder `buildSet` → `getSetVarExprsFromSetNamesExpr`): three SESSION
assignments with the same right-hand side; `character_set_connection` then drags
`collation_connection` along (`setSystemVar`). -/
def expandNames (rhs : Rhs) : List (Target × Rhs) :=
  ["character_set_client", "character_set_connection", "character_set_results"].map fun n =>
    (Target.sys ⟨.session, false, n⟩, rhs)

def execAsgs (q : Quirks) (r : Reg) (sid : Nat) : State → List (Target × PRhs) → State × Option Err
  | st, [] => (st, none)
  | st, a :: rest =>
    match execAsg q r st sid a with
    | (st', none) => execAsgs q r sid st' rest
    | (st', some e) => (st', some e)

/-- A whole SET statement. -/
def execSet (q : Quirks) (r : Reg) (st : State) (sid : Nat) (asgs : List (Target × Rhs)) : State × Option Err :=
  match planSet q r asgs with
  | .error e => (st, some e)
  | .ok ps =>
    match execAsgs q r sid st ps with
    | (st', none) => (st', none)
    | (st', some e) =>
      -- the code stops at the failing assignment and keeps what was done before it
      if q.partialMulti then (st', some e)
      else if q.persistFirst then ({ st with persisted := st'.persisted }, some e)
      else (st, some e)

def padLeft (n : Nat) (s : String) : String := String.ofList (List.replicate (n - s.length) '0') ++ s

def showRat (m : Int) (s : Nat) : String := let (m', s') := normDbl m s; toString m' ++ "/" ++ toString (10 ^ s')

/-- Client-visible text of a user variable (float64 values are shown as exact fractions; the harness
canonicalises the engine's text the same way). -/
def showVal : Val → String
  | .null => "NULL"
  | .bool b => if b then "1" else "0"
  | .int i => toString i
  | .uint n => toString n
  | .dec m s =>
    if s = 0 then toString m else
    (if m < 0 then "-" else "") ++ toString (m.natAbs / 10 ^ s) ++ "." ++ padLeft s (toString (m.natAbs % 10 ^ s))
  | .flt m s => showRat m s
  | .str s => s

def showUTy : UTy → String
  | .null => "null" | .i8 => "tinyint" | .u8 => "tinyint unsigned" | .i16 => "smallint" | .u16 => "smallint unsigned"
  | .i32 => "int" | .u32 => "int unsigned" | .i64 => "bigint" | .u64 => "bigint unsigned"
  | .dec p s => "decimal(" ++ toString p ++ "," ++ toString s ++ ")" | .dbl => "double"
  | .str n => "varchar(" ++ toString n ++ ")" | .bool => "tinyint(1)"

/-- One select item: text and type name. -/
def readItem (q : Quirks) (r : Reg) (st : State) (sid : Nat) : Target → Except Err (String × String)
  | .user n => match (st.sess sid).bind (·.user.get (lower n)) with
    | some u => .ok (showVal u.val, showUTy u.ty)
    | none => .ok ("NULL", "null")
  | .sys ref => do
    resolveRef r ref
    match ref.scope with
    | .global => let (ty, sv) ← readSys r st sid true ref.name; pure (render ty sv, "sys")
    | .session => let (ty, sv) ← readScoped q r st sid false ref.name; pure (render ty sv, "sys")
    | _ => throw .other

def readItems (q : Quirks) (r : Reg) (st : State) (sid : Nat) : List Target → Except Err (List (String × String))
  | [] => .ok []
  | t :: rest => do
    let x ← readItem q r st sid t
    let xs ← readItems q r st sid rest
    pure (x :: xs)

inductive Obs
  | ok
  | err (e : Err)
  | row (cells : List (String × String))
deriving DecidableEq, Repr

def step (q : Quirks) (r : Reg) (st : State) : Stmt → State × Obs
  | .newSession sid => (newSession st sid, .ok)
  | .set sid asgs =>
    match execSet q r st sid asgs with
    | (st', none) => (st', .ok)
    | (st', some e) => (st', .err e)
  | .get sid refs =>
    match readItems q r st sid refs with
    | .ok cells => (st, .row cells)
    | .error e => (st, .err e)
  | .getPersisted name =>
    match st.persisted.get name, r.find name with
    | some sv, some v => (st, .row [(render v.ty sv, "persisted")])
    | _, _ => (st, .row [("none", "persisted")])

def run (q : Quirks) (r : Reg) : State → List Stmt → State × List Obs
  | st, [] => (st, [])
  | st, s :: rest =>
    let (st', o) := step q r st s
    let (st'', os) := run q r st' rest
    (st'', o :: os)

end Gms.SysVars
