/-
C40 — the host-pattern matcher of `MySQLDb.GetUser` (core-only).

Go code modelled (sql/mysql_db/mysql_db.go):

    func matchesHostPattern(host, pattern string) bool {
        if !strings.Contains(pattern, "%") { return false }
        regexPattern := regexp.QuoteMeta(pattern)
        regexPattern = strings.ReplaceAll(regexPattern, "%", ".*")
        regexPattern = "^" + regexPattern + "$"
        matched, err := regexp.MatchString(regexPattern, host)
        return err == nil && matched
    }

i.e. the anchored regular expression whose only operator is `.*` (one per `%`; `.` does not match a newline),
every other character of the pattern — `_`, `.`, `\`, … — being a literal.

* Spec `Matches` — the *language* of that regular expression, as an inductive relation: the host is the
  concatenation, in order, of the pattern's literal characters and one arbitrary newline-free gap per `%`.
  In particular the pieces are **disjoint**: no character of the host is used by two literals.
* Impl model `glob` — a structurally recursive matcher (so that `decide` can run it); `Gms.Priv.globMatch`
  (the C39 model used by `getUserIdx`) is proved equal to it in `Gms/Props/C40.lean`.
* `segs` / `interleave` — the pattern as its literal segments, and the host as segments interleaved with gaps:
  the shape `prefix ++ gap₁ ++ seg₁ ++ … ++ gapₙ ++ suffix` every hand-written matcher has to respect.
* `overlapMatch` — the matcher one obtains when prefix, suffix and the middle segments are looked up
  independently in the host (`strings.HasPrefix`, `strings.HasSuffix`, `strings.Index`) without keeping them
  disjoint. It is **not** the code's semantics; it is kept as the witness of the defect class
  (`Gms.C40.overlap_matcher_unsound`).
* `likeMatch` — MySQL's own rule for account hosts (LIKE: `%` any run, `_` any one character), the code's
  matcher restricted to patterns without `_` (`Gms.C40.glob_eq_like_of_no_underscore`).
-/
namespace Gms.HostPattern

/-- No newline in the gap a `%` stands for (`.` of Go's regexp does not match `\n`). -/
def gapOk (g : List Char) : Prop := ∀ x ∈ g, x ≠ '\n'

/-- **Spec**: the language of `^` + QuoteMeta(pattern)[`%` ↦ `.*`] + `$`. -/
inductive Matches : List Char → List Char → Prop
  | nil : Matches [] []
  | lit (c : Char) (ps hs : List Char) : c ≠ '%' → Matches ps hs → Matches (c :: ps) (c :: hs)
  | wild (g ps hs : List Char) : gapOk g → Matches ps hs → Matches ('%' :: ps) (g ++ hs)

/-- `f` accepts the string itself or a suffix reached by skipping newline-free characters. -/
def anyTail (f : List Char → Bool) : List Char → Bool
  | [] => f []
  | c :: hs => f (c :: hs) || (c != '\n' && anyTail f hs)

/-- **Impl model** (structural recursion on the pattern). -/
def glob : List Char → List Char → Bool
  | [], h => h.isEmpty
  | p :: ps, h =>
    if p = '%' then anyTail (glob ps) h
    else
      match h with
      | [] => false
      | c :: hs => p == c && glob ps hs

/-- Go: `matchesHostPattern(host, pattern)`. -/
def matchesHostPattern (host pattern : String) : Bool :=
  pattern.toList.contains '%' && glob pattern.toList host.toList

/-! ## segments -/

/-- The literal segments of a pattern: `strings.Split(pattern, "%")` (never empty). -/
def segs : List Char → List (List Char)
  | [] => [[]]
  | c :: ps =>
    if c = '%' then [] :: segs ps
    else
      match segs ps with
      | [] => [[c]]
      | s :: ss => (c :: s) :: ss

/-- Segments interleaved with gaps: `s₀ ++ g₁ ++ s₁ ++ … ++ gₙ ++ sₙ`. -/
def interleave : List (List Char) → List (List Char) → List Char
  | [], _ => []
  | s :: _, [] => s
  | s :: ss, g :: gs => s ++ g ++ interleave ss gs

/-- Number of literal characters of a pattern. -/
def litLen (p : List Char) : Nat := (p.filter (· ≠ '%')).length

/-! ## the defect class: pieces that may overlap -/

def isPrefix : List Char → List Char → Bool
  | [], _ => true
  | _ :: _, [] => false
  | a :: as, b :: bs => a == b && isPrefix as bs

/-- Go: `strings.Index(h, s)` + the rest after the hit: the remainder of `h` behind the leftmost
occurrence of `s`, `none` when there is none. -/
def afterFirst (s : List Char) : List Char → Option (List Char)
  | [] => if s.isEmpty then some [] else none
  | c :: hs => if isPrefix s (c :: hs) then some ((c :: hs).drop s.length) else afterFirst s hs

def middlesIn : List (List Char) → List Char → Bool
  | [], _ => true
  | s :: ss, h =>
    match afterFirst s h with
    | none => false
    | some r => middlesIn ss r

/-- The matcher with independently anchored pieces (prefix and suffix tested against the whole host, the
middle segments searched in everything behind the prefix — including the characters the suffix claims). -/
def overlapMatch (p h : List Char) : Bool :=
  p.contains '%' &&
  (let ss := segs p
   let pre := ss.head!
   let suf := ss.getLast!
   isPrefix pre h && isPrefix suf.reverse h.reverse &&
     middlesIn (ss.drop 1).dropLast (h.drop pre.length))

/-! ## MySQL's rule (LIKE) -/

def anyTailAll (f : List Char → Bool) : List Char → Bool
  | [] => f []
  | c :: hs => f (c :: hs) || anyTailAll f hs

/-- MySQL: account host patterns are LIKE patterns: `%` any run of characters, `_` exactly one character
(escapes are not modelled: patterns without a backslash). -/
def likeMatch : List Char → List Char → Bool
  | [], h => h.isEmpty
  | p :: ps, h =>
    if p = '%' then anyTailAll (likeMatch ps) h
    else
      match h with
      | [] => false
      | c :: hs => (p == '_' || p == c) && likeMatch ps hs

end Gms.HostPattern
