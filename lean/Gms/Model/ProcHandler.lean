/-
C24 — DECLARE … HANDLER (core-only): the error path of the stored-procedure interpreter.

Source modelled: sql/procedures/interpreter_logic.go `handleError` (handler selection, execution of
the handler statement, CONTINUE / EXIT, the scan that looks for the end of the declaring block),
`execOp` case `OpCode_Declare` (handler registration with the DECLARE op's counter), the error
branch of the `Call` loop, sql/procedures/interpreter_stack.go `NewHandler` / `ListHandlers`.

The language is the label-free part of `Gms/Model/ProcLang.lean` (blocks, DECLARE, SET, trace
INSERT, IF/CASE, WHILE, SIGNAL) plus `DECLARE {EXIT|CONTINUE} HANDLER FOR {SQLEXCEPTION|NOT FOUND}
SET x = e`. A scope carries its handlers next to its variables, so the machine is written again
over `HScope`; values, expressions, session parameters and CALL parameter passing are shared with
`ProcLang`.

* `compileH`            – Impl model of `ConvertStmt` on this fragment
* `handleError`,`exitScan`, `stepH`/`runH` – Impl model of the op machine with the error path
* `execH`               – Spec: big-step structured semantics; the innermost enclosing handler of
                          the raised condition runs in the scope of its own block; CONTINUE completes
                          the failing statement, EXIT completes the block that declared the handler
* `callImplH`/`callSpecH`
-/
import Gms.Model.ProcLang
namespace Gms.ProcH
open Gms.ProcLang

inductive HStmt where
  | skip
  | seq (a b : HStmt)
  | block (body : HStmt)
  | declare (x : Name) (d : Int)
  /-- `DECLARE (EXIT|CONTINUE) HANDLER FOR (NOT FOUND|SQLEXCEPTION) SET x = e` -/
  | handler (exit : Bool) (notFound : Bool) (x : Name) (e : Expr)
  | set (x : Name) (e : Expr)
  | emit (e : Expr)
  | ite (c : Expr) (thn els : HStmt)
  | caseNotFound
  | while (c : Expr) (body : HStmt)
  | signal                               -- SIGNAL SQLSTATE '45000'
  deriving Repr, DecidableEq, Inhabited

/-- A registered handler. `counter` is the index of its DECLARE op (Go: `InterpreterHandler.Counter`). -/
structure Hnd where
  exit : Bool
  notFound : Bool
  x : Name
  e : Expr
  counter : Nat
  deriving Repr, DecidableEq, Inhabited

structure HScope where
  vars : Scope
  hs : List Hnd             -- declaration order (Go: append)
  deriving Repr, DecidableEq, Inhabited

def HScope.empty : HScope := { vars := [], hs := [] }

structure HStore where
  stack : List HScope       -- head = innermost
  sess : List (Name × Spp)
  log : List Val            -- newest first
  deriving Repr, DecidableEq, Inhabited

/-! ### Variables -/

def lookupH (x : Name) : List HScope → Option Val
  | [] => none
  | s :: r => match lookupScope x s.vars with
    | some v => some v
    | none => lookupH x r

def HStore.look (σ : HStore) (x : Name) : Option Val :=
  match lookupH x σ.stack with
  | some v => some v
  | none => (lookupSess x σ.sess).map (·.val)

def setH (x : Name) (v : Val) : List HScope → Option (List HScope)
  | [] => none
  | s :: r => match setScope x v s.vars with
    | some vs => some ({ s with vars := vs } :: r)
    | none => (setH x v r).map (s :: ·)

def HStore.set (σ : HStore) (x : Name) (v : Val) : Option HStore :=
  match setH x v σ.stack with
  | some st => some { σ with stack := st }
  | none => match setSess x v σ.sess with
    | some ss => some { σ with sess := ss }
    | none => none

def HStore.push (σ : HStore) : HStore := { σ with stack := HScope.empty :: σ.stack }
def HStore.pop (σ : HStore) : HStore := { σ with stack := σ.stack.tail }
def HStore.emit (σ : HStore) (v : Val) : HStore := { σ with log := v :: σ.log }

def HStore.declare (σ : HStore) (x : Name) (v : Val) : Option HStore :=
  match σ.stack with
  | [] => none
  | s :: r => some { σ with stack := { s with vars := (x, v) :: s.vars } :: r }

/-- Go: `stack.NewHandler` — appended to the handlers of the top scope. -/
def HStore.addHandler (σ : HStore) (h : Hnd) : Option HStore :=
  match σ.stack with
  | [] => none
  | s :: r => some { σ with stack := { s with hs := s.hs ++ [h] } :: r }

/-- `SET x = e` on a store: evaluate, assign; `none` = a name did not resolve (errno 1105). -/
def HStore.assign (σ : HStore) (x : Name) (e : Expr) : Option HStore :=
  match evalExpr σ.look e with
  | none => none
  | some v => σ.set x v

/-! ### Target language and compiler -/

inductive HOp where
  | scopeBegin (idx : Int)
  | scopeEnd (idx : Int)
  | declare (x : Name) (d : Int)
  | handler (exit : Bool) (notFound : Bool) (x : Name) (e : Expr)   -- OpCode_Declare with a Handler
  | set (x : Name) (e : Expr)
  | exec (e : Expr)
  | ifz (e : Expr) (idx : Int)
  | goto (idx : Int)
  | exception
  | signal
  deriving Repr, DecidableEq, Inhabited

/-- Go: `ConvertStmt` (same shapes as `ProcLang.compile`; no labels in this fragment). -/
def compileH (base : Nat) : HStmt → List HOp
  | .skip => []
  | .seq a b =>
    let ra := compileH base a
    ra ++ compileH (base + ra.length) b
  | .block body =>
    let rb := compileH (base + 1) body
    let endIdx : Nat := base + 1 + rb.length + 1
    .scopeBegin (base + 1 : Nat) :: (rb ++ [.scopeEnd endIdx])
  | .declare x d => [.declare x d]
  | .handler ex nf x e => [.handler ex nf x e]
  | .set x e => [.set x e]
  | .emit e => [.exec e]
  | .ite c thn els =>
    let rt := compileH (base + 1) thn
    let elseStart : Nat := base + 1 + rt.length + 1
    let re := compileH elseStart els
    let endIdx : Nat := elseStart + re.length
    .ifz c elseStart :: (rt ++ [.goto endIdx] ++ re)
  | .caseNotFound => [.exception]
  | .while c body =>
    let rb := compileH (base + 1) body
    let endIdx : Nat := base + 1 + rb.length + 1
    .ifz c endIdx :: (rb ++ [.goto base])
  | .signal => [.signal]

def compileProgramH (s : HStmt) : List HOp := compileH 0 s

/-! ### The op machine with the error path -/

structure HState where
  pc : Int
  σ : HStore
  deriving Repr, DecidableEq, Inhabited

inductive HStepRes where
  | running (m : HState)
  | done (o : Outcome) (σ : HStore)
  deriving Repr, DecidableEq, Inhabited

def popH : List HScope → Option (List HScope)
  | [] => none
  | _ :: r => some r

def applyScopeH (fwd : Bool) (op : HOp) (st : List HScope) : Option (List HScope) :=
  match op with
  | .scopeBegin _ => if fwd then some (HScope.empty :: st) else popH st
  | .scopeEnd _ => if fwd then popH st else some (HScope.empty :: st)
  | _ => some st

def scanListH (fwd : Bool) : List HOp → List HScope → Option (List HScope)
  | [], st => some st
  | op :: rest, st => match applyScopeH fwd op st with
    | none => none
    | some st' => scanListH fwd rest st'

/-- Go: `case OpCode_Goto` (as `ProcLang.gotoStep`). -/
def gotoStepH (ops : List HOp) (c : Nat) (idx : Int) (σ : HStore) : HStepRes :=
  if (c : Int) ≤ idx then
    if (c : Int) < idx - 1 then
      if (idx - 1).toNat > ops.length then .done .crash σ
      else match scanListH true ((ops.drop c).take ((idx - 1).toNat - c)) σ.stack with
        | none => .done .crash σ
        | some st => .running { pc := idx - 1, σ := { σ with stack := st } }
    else .running { pc := c, σ := σ }
  else
    if idx < 0 then .done .crash σ
    else match scanListH false (((ops.drop idx.toNat).take (c - idx.toNat + 1)).reverse) σ.stack with
      | none => .done .crash σ
      | some st => .running { pc := idx - 1, σ := { σ with stack := st } }

/-- Go: `ListHandlers` — top scope first, declaration order inside a scope. -/
def listHandlers (st : List HScope) : List Hnd := st.flatMap (·.hs)

/-- Go: the selection loop of `handleError` for an error that is not a cursor's end of data: the
`break` inside the `switch` leaves only the switch, so the **last** SQLEXCEPTION handler of the list
(the outermost one) is the one that stays in `matchingHandler`; NOT FOUND handlers never match. -/
def matchingHandler (st : List HScope) : Option Hnd :=
  ((listHandlers st).filter (fun h => !h.notFound)).getLast?

/-- Go: the EXIT scan of `handleError`:
`remaining := 1; for nc = start; nc < len; nc++ { if remaining == 0 {break}; ScopeBegin: ++; ScopeEnd: -- }; return nc-1`.
`ops` is the suffix of the op list that starts at index `i`. -/
def exitScanAux : List HOp → Nat → Nat → Nat
  | [], _, i => i - 1
  | op :: rest, rem, i =>
    if rem = 0 then i - 1
    else match op with
      | .scopeBegin _ => exitScanAux rest (rem + 1) (i + 1)
      | .scopeEnd _ => exitScanAux rest (rem - 1) (i + 1)
      | _ => exitScanAux rest rem (i + 1)

def exitScan (ops : List HOp) (start : Nat) : Nat := exitScanAux (ops.drop start) 1 start

/-- Go: `handleError` + the error branch of `Call`, for the error `code` raised by the op at
counter `c`. The handler statement (one `Set` op) runs on the *current* stack. No scope is popped
on EXIT: the machine resumes behind the `ScopeEnd` the scan stopped at. -/
def handleError (ops : List HOp) (c : Nat) (code : Nat) (σ : HStore) : HStepRes :=
  match matchingHandler σ.stack with
  | none => .done (.err code) σ
  | some h =>
    match σ.assign h.x h.e with
    | none => .done (.err 1105) σ
    | some σ' =>
      if h.exit then .running { pc := (exitScan ops h.counter : Nat), σ := σ' }
      else .running { pc := c, σ := σ' }

def execOpH (ops : List HOp) (c : Nat) (op : HOp) (σ : HStore) : HStepRes :=
  match op with
  | .scopeBegin _ => .running { pc := c, σ := σ.push }
  | .scopeEnd _ =>
    match popH σ.stack with
    | none => .done .crash σ
    | some st => .running { pc := c, σ := { σ with stack := st } }
  | .declare x d =>
    match σ.declare x (some d) with
    | none => .done .crash σ
    | some σ' => .running { pc := c, σ := σ' }
  | .handler ex nf x e =>
    match σ.addHandler { exit := ex, notFound := nf, x := x, e := e, counter := c } with
    | none => .done .crash σ
    | some σ' => .running { pc := c, σ := σ' }
  | .set x e =>
    match σ.assign x e with
    | none => handleError ops c 1105 σ
    | some σ' => .running { pc := c, σ := σ' }
  | .exec e =>
    match evalExpr σ.look e with
    | none => handleError ops c 1105 σ
    | some v => .running { pc := c, σ := σ.emit v }
  | .ifz e idx =>
    match evalExpr σ.look e with
    | none => handleError ops c 1105 σ
    | some v => if condFalse v then .running { pc := idx - 1, σ := σ } else .running { pc := c, σ := σ }
  | .goto idx => gotoStepH ops c idx σ
  | .exception => handleError ops c 1339 σ
  | .signal => handleError ops c 1644 σ

def stepH (ops : List HOp) (m : HState) : HStepRes :=
  let c := m.pc + 1
  if c < 0 then .done .crash m.σ
  else match ops[c.toNat]? with
    | none => .done .ok m.σ
    | some op => execOpH ops c.toNat op m.σ

def runH : Nat → List HOp → HState → Outcome × HStore
  | 0, _, m => (.timeout, m.σ)
  | n + 1, ops, m =>
    match stepH ops m with
    | .running m' => runH n ops m'
    | .done o σ => (o, σ)

/-! ### Spec: structured semantics with handlers -/

inductive HSig where
  | normal
  | error (code : Nat)
  /-- an EXIT handler has run; control leaves the block whose scope sits at stack depth `depth` -/
  | exit (depth : Nat)
  deriving Repr, DecidableEq, Inhabited

/-- The innermost scope (searching from the top) that has a handler for an SQLEXCEPTION-class
condition: returns the scopes above it, the handler, and the stack from that scope downwards. -/
def findHandler : List HScope → Option (List HScope × Hnd × List HScope)
  | [] => none
  | s :: r =>
    match s.hs.find? (fun h => !h.notFound) with
    | some h => some ([], h, s :: r)
    | none => match findHandler r with
      | some (above, h, below) => some (s :: above, h, below)
      | none => none

/-- A statement raised `code` in store `σ`. The handler statement runs in the scope of the block
that declared the handler (the scopes above it are not visible to it). -/
def raise (code : Nat) (σ : HStore) : HSig × HStore :=
  match findHandler σ.stack with
  | none => (.error code, σ)
  | some (above, h, below) =>
    match ({ σ with stack := below } : HStore).assign h.x h.e with
    | none => (.error 1105, σ)
    | some σ' =>
      let σ'' : HStore := { σ' with stack := above ++ σ'.stack }
      if h.exit then (.exit below.length, σ'') else (.normal, σ'')

def execH : Nat → HStmt → HStore → Option (HSig × HStore)
  | 0, _, _ => none
  | n + 1, s, σ =>
    match s with
    | .skip => some (.normal, σ)
    | .seq a b =>
      match execH n a σ with
      | none => none
      | some (.normal, σ1) => execH n b σ1
      | some r => some r
    | .block body =>
      match execH n body σ.push with
      | none => none
      | some (sig, σ1) =>
        let sig' := match sig with
          | .exit d => if d = σ.stack.length + 1 then HSig.normal else sig
          | _ => sig
        some (sig', σ1.pop)
    | .declare x d =>
      match σ.declare x (some d) with
      | none => some (.error 0, σ)
      | some σ' => some (.normal, σ')
    | .handler ex nf x e =>
      -- the counter is irrelevant to the structured semantics
      match σ.addHandler { exit := ex, notFound := nf, x := x, e := e, counter := 0 } with
      | none => some (.error 0, σ)
      | some σ' => some (.normal, σ')
    | .set x e =>
      match σ.assign x e with
      | none => some (raise 1105 σ)
      | some σ' => some (.normal, σ')
    | .emit e =>
      match evalExpr σ.look e with
      | none => some (raise 1105 σ)
      | some v => some (.normal, σ.emit v)
    | .ite c thn els =>
      match evalExpr σ.look c with
      | none => some (raise 1105 σ)
      | some v => if condFalse v then execH n els σ else execH n thn σ
    | .caseNotFound => some (raise 1339 σ)
    | .while c body =>
      match evalExpr σ.look c with
      | none => some (raise 1105 σ)
      | some v =>
        if condFalse v then some (.normal, σ)
        else match execH n body σ with
          | none => none
          | some (.normal, σ1) => execH n (.while c body) σ1
          | some r => some r
    | .signal => some (raise 1644 σ)

/-! ### CALL -/

structure HProc where
  params : List Param
  body : HStmt
  deriving Repr, DecidableEq, Inhabited

def callImplH (fuel : Nat) (p : HProc) (args : List Arg) (s : Session) : Outcome × Session :=
  let ss := initParamsImpl s.uvars p.params args s.sess
  let r := runH fuel (compileProgramH p.body) { pc := -1, σ := { stack := [HScope.empty], sess := ss, log := s.log } }
  match r.1 with
  | .ok => (.ok, { uvars := writeBackImpl r.2.sess p.params args s.uvars, sess := r.2.sess, log := r.2.log })
  | o => (o, { uvars := s.uvars, sess := r.2.sess, log := r.2.log })

def callSpecH (fuel : Nat) (p : HProc) (args : List Arg) (s : Session) : Option (Outcome × Session) :=
  let ss := initParamsSpec s.uvars p.params args
  match execH fuel p.body { stack := [HScope.empty], sess := ss, log := s.log } with
  | none => none
  | some (.normal, σ) =>
    some (.ok, { uvars := writeBackSpec σ.sess p.params args s.uvars, sess := s.sess, log := σ.log })
  | some (.error e, σ) => some (.err e, { uvars := s.uvars, sess := s.sess, log := σ.log })
  | some (.exit _, σ) => some (.crash, { uvars := s.uvars, sess := s.sess, log := σ.log })

/-! ### Static feature predicates (regions) -/

def codeLenH : HStmt → Nat
  | .skip => 0
  | .seq a b => codeLenH a + codeLenH b
  | .block b => codeLenH b + 2
  | .ite _ t e => codeLenH t + codeLenH e + 2
  | .while _ b => codeLenH b + 2
  | _ => 1

def endsWithBlockH : HStmt → Bool
  | .block _ => true
  | .seq a b => if codeLenH b = 0 then endsWithBlockH a else endsWithBlockH b
  | .ite _ _ els => codeLenH els != 0 && endsWithBlockH els
  | _ => false

/-- region `else_block_scope_leak` on this fragment (see `ProcLang.hasElseBlock`). -/
def hasElseBlockH : HStmt → Bool
  | .seq a b => hasElseBlockH a || hasElseBlockH b
  | .block b => hasElseBlockH b
  | .ite _ t e => endsWithBlockH e || hasElseBlockH t || hasElseBlockH e
  | .while _ b => hasElseBlockH b
  | _ => false

/-- Some statement can raise a condition (SIGNAL, CASE without ELSE). -/
def canRaise : HStmt → Bool
  | .seq a b => canRaise a || canRaise b
  | .block b => canRaise b
  | .ite _ t e => canRaise t || canRaise e
  | .while _ b => canRaise b
  | .caseNotFound => true
  | .signal => true
  | _ => false

/-- The statement list of a block declares an SQLEXCEPTION handler directly (not in a nested block). -/
def declaresSqlexc : HStmt → Bool
  | .seq a b => declaresSqlexc a || declaresSqlexc b
  | .handler _ nf _ _ => !nf
  | _ => false

def declaresExitSqlexc : HStmt → Bool
  | .seq a b => declaresExitSqlexc a || declaresExitSqlexc b
  | .handler ex nf _ _ => ex && !nf
  | _ => false

/-- Region `nested_handler_outermost_wins`: a block that declares an SQLEXCEPTION handler lies inside
a block that declares one (`under` = an enclosing block does), and the inner block can raise: the
engine picks the outermost handler, the innermost one is the one in charge. -/
def nestedHandlers (under : Bool) : HStmt → Bool
  | .seq a b => nestedHandlers under a || nestedHandlers under b
  | .block b => (under && declaresSqlexc b && canRaise b) || nestedHandlers (under || declaresSqlexc b) b
  | .ite _ t e => nestedHandlers under t || nestedHandlers under e
  | .while _ b => nestedHandlers under b
  | _ => false

/-- Region `exit_handler_scope_leak`: an EXIT handler for SQLEXCEPTION declared in a block that is
not the procedure's outermost block, and that block can raise: on EXIT the engine resumes behind the
block's `ScopeEnd` without executing it (nor those of the blocks in between), so the scope — its
variables and its handlers — stays on the stack. `top` = the statement is the procedure body. -/
def exitHandlerNested (top : Bool) : HStmt → Bool
  | .seq a b => exitHandlerNested top a || exitHandlerNested top b
  | .block b => (!top && declaresExitSqlexc b && canRaise b) || exitHandlerNested false b
  | .ite _ t e => exitHandlerNested false t || exitHandlerNested false e
  | .while _ b => exitHandlerNested false b
  | _ => false

def exprVars : Expr → List Name
  | .var x => [x]
  | .add a b | .sub a b | .mul a b | .eq a b | .lt a b | .le a b | .and a b | .or a b => exprVars a ++ exprVars b
  | .not a => exprVars a
  | _ => []

/-- Names a block's own SQLEXCEPTION handlers mention (assigned or read). -/
def handlerNames : HStmt → List Name
  | .seq a b => handlerNames a ++ handlerNames b
  | .handler _ nf x e => if nf then [] else x :: exprVars e
  | _ => []

/-- `ns` contains a name that is declared in a block nested in `s` which can raise. -/
def shadowedRaise (ns : List Name) : HStmt → Bool
  | .seq a b => shadowedRaise ns a || shadowedRaise ns b
  | .block b => (declaresAny ns b && canRaise b) || shadowedRaise ns b
  | .ite _ t e => shadowedRaise ns t || shadowedRaise ns e
  | .while _ b => shadowedRaise ns b
  | _ => false
where
  declaresAny (ns : List Name) : HStmt → Bool
    | .seq a b => declaresAny ns a || declaresAny ns b
    | .declare x _ => ns.contains x
    | _ => false

/-- Region `handler_body_dynamic_scope`: a handler's statement mentions a name that a block nested in
the handler's block declares again, and a condition can be raised inside that nested block or deeper:
the engine resolves the handler statement's names on the stack of the *failing* statement, so it
reads / assigns the inner variable; the handler statement belongs to the scope of its own block. -/
def handlerDynScope : HStmt → Bool
  | .seq a b => handlerDynScope a || handlerDynScope b
  | .block b => shadowedRaise (handlerNames b) b || handlerDynScope b
  | .ite _ t e => handlerDynScope t || handlerDynScope e
  | .while _ b => handlerDynScope b
  | _ => false

end Gms.ProcH
