/-
C08 — model of window framing and of the aggregate / window functions (core-only).

Sources modelled (path by path):
  sql/expression/function/aggregation/window_framer.go     rowFramerBase, rangeFramerBase,
                                                            findInclusionBoundary, PeerGroupFramer,
                                                            PartitionFramer
  sql/expression/function/aggregation/window_framer.og.go  which bound fields each framer sets
  sql/expression/function/aggregation/window_functions.go  SumAgg/AvgAgg/CountAgg (prefix sums),
                                                            Min/Max/First/Last, RowNumber, rankBase,
                                                            PercentRank, DenseRank, NTile, Lag/Lead
  sql/expression/function/aggregation/window_partition.go  sort by (partition, order), partitions,
                                                            one framer stream per partition
  sql/expression/function/aggregation/unary_agg_buffers.go GROUP BY buffers (count/sum/avg/min/max/
                                                            bit_*/group_concat/json_arrayagg)
  sql/planbuilder/aggregates.go buildWindowDef              default frame when OVER has no ORDER BY
  sql/sorters/row_sorter.go CompareRows, sql/types CompareNulls

Two layers:
  * Spec  — the definition: a frame is a *set of row positions* of the partition (`rowsMem`,
            `rangeMem`), a function value is defined from the rows of that set.
  * Impl  — the Go code: a framer is an iterator producing half-open index intervals
            `(start, end)` over the sorted buffer, the functions compute from the interval.
-/
namespace Gms.Window

abbrev Val := Option Int

inductive Bound where
  | up                -- UNBOUNDED PRECEDING
  | prec (n : Nat)    -- n PRECEDING
  | cur               -- CURRENT ROW
  | foll (n : Nat)    -- n FOLLOWING
  | uf                -- UNBOUNDED FOLLOWING
  deriving Repr, DecidableEq, Inhabited

/-! ## Spec: ROWS frames (positions are absolute indexes into the sorted buffer) -/

/-- position `j` is not before the frame start of row `i` -/
def Bound.loOK (b : Bound) (i j : Nat) : Bool :=
  match b with
  | .up => true
  | .prec n => i ≤ j + n
  | .cur => i ≤ j
  | .foll n => i + n ≤ j
  | .uf => false

/-- position `j` is not after the frame end of row `i` -/
def Bound.hiOK (b : Bound) (i j : Nat) : Bool :=
  match b with
  | .up => false
  | .prec n => j + n ≤ i
  | .cur => j ≤ i
  | .foll n => j ≤ i + n
  | .uf => true

/-- Spec: `j` belongs to the ROWS frame `lo .. hi` of row `i` in the partition `[ps, pe)`. -/
def rowsMem (lo hi : Bound) (ps pe i j : Nat) : Bool :=
  decide (ps ≤ j) && decide (j < pe) && lo.loOK i j && hi.hiOK i j

/-! ## Impl: `rowFramerBase` -/

/-- The fields of `rowFramerBase` a generated constructor sets (window_framer.og.go). -/
structure RowCfg where
  unbPrec : Bool := false
  unbFoll : Bool := false
  startCur : Bool := false
  endCur : Bool := false
  startNPrec : Nat := 0
  endNPrec : Nat := 0
  startNFoll : Nat := 0
  endNFoll : Nat := 0
  deriving Repr, DecidableEq, Inhabited

/-- Go `NewFramer`: `switch { case f.startNPreceding != 0: …; case f.startNFollowing != 0: …;
case f.startCurrentRow: 0 }` (an offset of 0 is indistinguishable from "unset"). -/
def RowCfg.startOffset (c : RowCfg) : Int :=
  if c.startNPrec ≠ 0 then -(c.startNPrec : Int)
  else if c.startNFoll ≠ 0 then (c.startNFoll : Int) else 0

def RowCfg.endOffset (c : RowCfg) : Int :=
  if c.endNPrec ≠ 0 then -(c.endNPrec : Int)
  else if c.endNFoll ≠ 0 then (c.endNFoll : Int) else 0

/-- Go `rowFramerBase.Next`, the interval part. -/
def rowsInterval (c : RowCfg) (ps pe idx : Int) : Int × Int :=
  let newStart := idx + c.startOffset
  let newStart := if c.unbPrec || decide (newStart < ps) then ps else newStart
  let newEnd := idx + c.endOffset + 1
  let newEnd := if c.unbFoll || decide (newEnd > pe) then pe else newEnd
  let newStart := if newStart > newEnd then newEnd else newStart
  (newStart, newEnd)

/-- Go `rowFramerBase.Next`: `none` is `io.EOF`; otherwise the interval and the advanced `idx`. -/
def rowsNext (c : RowCfg) (ps pe idx : Int) : Option ((Int × Int) × Int) :=
  if idx ≠ 0 ∧ idx ≥ pe then none
  else if pe = 0 then none
  else some (rowsInterval c ps pe idx, idx + 1)

/-- The interval stream the partition iterator pulls from a framer created by
`NewFramer({ps, pe})`: `Next` until `io.EOF` (fuel bounds the loop). -/
def rowsStream (c : RowCfg) (ps pe : Int) : Nat → Int → List (Int × Int)
  | 0, _ => []
  | fuel + 1, idx =>
    match rowsNext c ps pe idx with
    | none => []
    | some (iv, idx') => iv :: rowsStream c ps pe fuel idx'

/-- window_framer.og.go: the constructor chosen by `NewFrame` for a pair of bounds sets exactly
these fields. -/
def cfgOfBounds (lo hi : Bound) : RowCfg :=
  let c : RowCfg := {}
  let c := match lo with
    | .up => { c with unbPrec := true }
    | .prec n => { c with startNPrec := n }
    | .cur => { c with startCur := true }
    | .foll n => { c with startNFoll := n }
    | .uf => { c with unbFoll := true }
  match hi with
    | .up => { c with unbPrec := true }
    | .prec n => { c with endNPrec := n }
    | .cur => { c with endCur := true }
    | .foll n => { c with endNFoll := n }
    | .uf => { c with unbFoll := true }

/-- Frames the parser accepts (`frame starting from following row cannot have preceding rows`,
start ≠ UNBOUNDED FOLLOWING, end ≠ UNBOUNDED PRECEDING, CURRENT ROW .. n PRECEDING rejected). -/
def Bound.validLo : Bound → Bool
  | .uf => false
  | _ => true
def Bound.validHi : Bound → Bool
  | .up => false
  | _ => true

/-- Known-defect class (finding `rows_frame_before_partition`): the frame end lies before the
partition start, `rowFramerBase.Next` then returns an empty interval *outside* the partition
(`newEnd` is never clamped from below); `MinAgg`/`JSON_ARRAYAGG` slice the buffer with it. -/
def rowsEndBeforePartition (c : RowCfg) (ps pe idx : Int) : Bool :=
  !c.unbFoll && decide (idx + c.endOffset + 1 < ps) && decide (idx + c.endOffset + 1 ≤ pe)

/-! ## Keys, comparison, sorting -/

/-- sql/types `CompareNulls` as used by `NumberTypeImpl_.Compare`: NULL is *greater* than a value. -/
def cmpNullGreater : Val → Val → Int
  | none, none => 0
  | none, some _ => 1
  | some _, none => -1
  | some a, some b => if a < b then -1 else if a = b then 0 else 1

structure Row where
  id : Int
  p : Val
  k : Val
  x : Val
  deriving Repr, DecidableEq, Inhabited

inductive Col where
  | p | k | id
  deriving Repr, DecidableEq, Inhabited

def Row.get (r : Row) : Col → Val
  | .p => r.p
  | .k => r.k
  | .id => some r.id

structure OrdKey where
  col : Col
  desc : Bool
  deriving Repr, DecidableEq, Inhabited

/-- sql/sorters `RowSorter.CompareRows` (NullOrdering is always NullsFirst, swapped for DESC). -/
def compareRows : List OrdKey → Row → Row → Int
  | [], _, _ => 0
  | o :: os, a, b =>
    let av := if o.desc then b.get o.col else a.get o.col
    let bv := if o.desc then a.get o.col else b.get o.col
    match av, bv with
    | none, none => compareRows os a b
    | none, some _ => -1
    | some _, none => 1
    | some x, some y => if x < y then -1 else if x = y then compareRows os a b else 1

/-- insertion into a sorted list *after* every element that is not greater (stable). -/
def insertStable (ks : List OrdKey) (x : Row) : List Row → List Row
  | [] => [x]
  | y :: ys => if compareRows ks x y < 0 then x :: y :: ys else y :: insertStable ks x ys

/-- `sort.Stable(sorter)`: a stable sort (the algorithm is a parameter of the model: any stable
sort gives the same list). -/
def stableSort (ks : List OrdKey) (rows : List Row) : List Row :=
  rows.foldl (fun acc r => insertStable ks r acc) []

/-- `isNewPartition` / `isNewOrderByValue`: `Type.Compare(..) != 0` on some expression; with
`CompareNulls` two NULLs are equal. -/
def sameOn (cols : List Col) (a b : Row) : Bool :=
  cols.all fun c => cmpNullGreater (a.get c) (b.get c) == 0

/-- `initializePartitions`: the list of `(start, end)` of maximal runs of rows equal on the
partition columns. `start` is the start of the current run, `j` the index of `row :: rest`. -/
def partitionsAux (cols : List Col) : List Row → Row → Nat → Nat → List (Nat × Nat)
  | [], _, start, j => [(start, j)]
  | r :: rest, last, start, j =>
    if sameOn cols last r then partitionsAux cols rest r start (j + 1)
    else (start, j) :: partitionsAux cols rest r j (j + 1)

def partitions (cols : List Col) : List Row → List (Nat × Nat)
  | [] => []
  | r :: rest => partitionsAux cols rest r 0 1

/-! ## Impl: `rangeFramerBase` -/

structure RangeCfg where
  unbPrec : Bool := false
  unbFoll : Bool := false
  startCur : Bool := false
  endCur : Bool := false
  startNPrec : Option Nat := none
  endNPrec : Option Nat := none
  startNFoll : Option Nat := none
  endNFoll : Option Nat := none
  hasOrder : Bool := true      -- `f.orderBy != nil`
  deriving Repr, DecidableEq, Inhabited

def rangeCfgOfBounds (lo hi : Bound) (hasOrder : Bool) : RangeCfg :=
  let c : RangeCfg := { hasOrder := hasOrder }
  let c := match lo with
    | .up => { c with unbPrec := true }
    | .prec n => { c with startNPrec := some n }
    | .cur => { c with startCur := true }
    | .foll n => { c with startNFoll := some n }
    | .uf => { c with unbFoll := true }
  match hi with
    | .up => { c with unbPrec := true }
    | .prec n => { c with endNPrec := some n }
    | .cur => { c with endCur := true }
    | .foll n => { c with endNFoll := some n }
    | .uf => { c with unbFoll := true }

/-- Go `NewFramer`: `startInclusion` = orderBy, orderBy − n, orderBy + n (as an offset). -/
def RangeCfg.startOff (c : RangeCfg) : Int :=
  if c.startCur then 0 else
  match c.startNPrec with
  | some n => -(n : Int)
  | none => match c.startNFoll with
    | some n => (n : Int)
    | none => 0

def RangeCfg.endOff (c : RangeCfg) : Int :=
  if c.endCur then 0 else
  match c.endNPrec with
  | some n => -(n : Int)
  | none => match c.endNFoll with
    | some n => (n : Int)
    | none => 0

/-- `NULL ± n = NULL` -/
def addOff (v : Val) (off : Int) : Val := v.map (· + off)

/-- Go `findInclusionBoundary`: the loop `for ; cmp < stopCond; i++ { if i >= partitionEnd
{ return i }; cmp = Compare(expr(buf[i]), cur) }; return i-1`: the first `i ≥ searchStart` whose
key compares `≥ stop` to `cur` (`stop = 0`: greaterThanOrEqual, `1`: greaterThan), or the first
`i ≥ partitionEnd`. `keys` is the key column of the whole sorted buffer. -/
def scanBoundary (keys : List Val) (cur : Val) (stop : Int) (pe : Nat) : Nat → Nat → Nat
  | 0, i => i
  | fuel + 1, i =>
    if i ≥ pe then i
    else if cmpNullGreater (keys.getD i none) cur ≥ stop then i
    else scanBoundary keys cur stop pe fuel (i + 1)

def findInclusionBoundary (keys : List Val) (pos searchStart pe : Nat) (off : Int) (stop : Int) : Nat :=
  scanBoundary keys (addOff (keys.getD pos none) off) stop pe (pe + 1 - searchStart) searchStart

structure RangeState where
  idx : Nat
  frameStart : Nat
  frameEnd : Nat
  deriving Repr, DecidableEq, Inhabited

/-- Go `rangeFramerBase.Next` (sliding: the search resumes at the previous frame). -/
def rangeNext (c : RangeCfg) (keys : List Val) (ps pe : Nat) (st : RangeState) :
    Option ((Nat × Nat) × RangeState) :=
  if st.idx ≠ 0 ∧ st.idx ≥ pe then none else
  let newStart :=
    if st.frameStart < ps ∨ c.unbPrec ∨ (c.startCur ∧ ¬ c.hasOrder) then ps
    else findInclusionBoundary keys st.idx st.frameStart pe c.startOff 0
  let newEnd := if newStart > st.frameEnd then newStart else st.frameEnd
  let newEnd :=
    if newEnd > pe ∨ c.unbFoll ∨ (c.endCur ∧ ¬ c.hasOrder) then pe
    else findInclusionBoundary keys st.idx newEnd pe c.endOff 1
  some ((newStart, newEnd), { idx := st.idx + 1, frameStart := newStart, frameEnd := newEnd })

def rangeStream (c : RangeCfg) (keys : List Val) (ps pe : Nat) : Nat → RangeState → List (Nat × Nat)
  | 0, _ => []
  | fuel + 1, st =>
    match rangeNext c keys ps pe st with
    | none => []
    | some (iv, st') => iv :: rangeStream c keys ps pe fuel st'

def rangeIntervals (c : RangeCfg) (keys : List Val) (ps pe : Nat) : List (Nat × Nat) :=
  rangeStream c keys ps pe (pe - ps) { idx := ps, frameStart := ps, frameEnd := ps }

/-! ## Spec: RANGE frames (by key distance; NULL keys are peers of each other) -/

/-- extended integers: the position of a key in the sort order (`asc`: NULL first;
`desc`: NULL last and values negated, so that the buffer is ascending in `XInt`). -/
inductive XInt where
  | negInf | fin (v : Int) | posInf
  deriving Repr, DecidableEq, Inhabited

def XInt.le : XInt → XInt → Bool
  | .negInf, _ => true
  | _, .posInf => true
  | .fin a, .fin b => a ≤ b
  | _, _ => false

def XInt.shift : XInt → Int → XInt
  | .fin v, d => .fin (v + d)
  | x, _ => x

def normKey (desc : Bool) : Val → XInt
  | none => if desc then .posInf else .negInf
  | some v => .fin (if desc then -v else v)

def Bound.rangeLoOK (b : Bound) (ci kj : XInt) : Bool :=
  match b with
  | .up => true
  | .prec n => (ci.shift (-(n : Int))).le kj
  | .cur => ci.le kj
  | .foll n => (ci.shift n).le kj
  | .uf => false

def Bound.rangeHiOK (b : Bound) (ci kj : XInt) : Bool :=
  match b with
  | .up => false
  | .prec n => kj.le (ci.shift (-(n : Int)))
  | .cur => kj.le ci
  | .foll n => kj.le (ci.shift n)
  | .uf => true

/-- Spec: `j` belongs to the RANGE frame of row `i` (single order key, direction `desc`). -/
def rangeMem (lo hi : Bound) (desc : Bool) (keys : List Val) (ps pe i j : Nat) : Bool :=
  decide (ps ≤ j) && decide (j < pe) &&
    lo.rangeLoOK (normKey desc (keys.getD i none)) (normKey desc (keys.getD j none)) &&
    hi.rangeHiOK (normKey desc (keys.getD i none)) (normKey desc (keys.getD j none))

def Bound.isOffset : Bound → Bool
  | .prec _ => true
  | .foll _ => true
  | _ => false

/-- Spec of RANGE frames whose bounds are only UNBOUNDED / CURRENT ROW, for any number of order
keys: CURRENT ROW stands for the whole peer group, peers being the rows equal on *all* ORDER BY
expressions (`c` = window-order comparison of row `j` with the current row). -/
def Bound.peerLoOK (b : Bound) (c : Int) : Bool :=
  match b with
  | .up => true
  | .cur => c ≥ 0
  | _ => false

def Bound.peerHiOK (b : Bound) (c : Int) : Bool :=
  match b with
  | .uf => true
  | .cur => c ≤ 0
  | _ => false

def peerMem (lo hi : Bound) (ks : List OrdKey) (buf : List Row) (ps pe i j : Nat) : Bool :=
  decide (ps ≤ j) && decide (j < pe) &&
    lo.peerLoOK (compareRows ks (buf.getD j default) (buf.getD i default)) &&
    hi.peerHiOK (compareRows ks (buf.getD j default) (buf.getD i default))

/-- Spec of the default frame with ORDER BY: RANGE UNBOUNDED PRECEDING .. CURRENT ROW. -/
def defaultMem (ks : List OrdKey) (buf : List Row) (ps pe i j : Nat) : Bool :=
  peerMem .up .cur ks buf ps pe i j

/-! ## Impl: `PeerGroupFramer` -/

/-- Go `nextPeerGroup`: scan forward from `pos` while each row equals its predecessor. -/
def peerScan (cols : List Col) (buf : List Row) (pe : Nat) : Nat → Nat → Nat
  | 0, i => i
  | fuel + 1, i =>
    if i ≥ pe then i
    else if sameOn cols (buf.getD (i - 1) default) (buf.getD i default) then peerScan cols buf pe fuel (i + 1)
    else i

def nextPeerGroup (cols : List Col) (buf : List Row) (pos pe : Nat) : Nat × Nat :=
  if pos ≥ pe ∨ pos > buf.length then (0, 0) else (pos, peerScan cols buf pe (pe - pos) (pos + 1))

/-- Go `PeerGroupFramer.Next` iterated over one partition. state = (idx, frameStart, frameEnd) -/
def peerStream (cols : List Col) (buf : List Row) (pe : Nat) : Nat → Nat → Nat × Nat → List (Nat × Nat)
  | 0, _, _ => []
  | fuel + 1, idx, fr =>
    if idx ≠ 0 ∧ idx ≥ pe then [] else
    let fr := if idx ≥ fr.2 then nextPeerGroup cols buf idx pe else fr
    fr :: peerStream cols buf pe fuel (idx + 1) fr

def peerIntervals (cols : List Col) (buf : List Row) (ps pe : Nat) : List (Nat × Nat) :=
  peerStream cols buf pe (pe - ps) ps (ps, ps)

/-! ## Results -/

inductive Res where
  | null
  | int (v : Int)
  | rat (n : Int) (d : Nat)     -- exact quotient n/d (the engine prints a float64)
  | nan                          -- float64 NaN (0/0)
  deriving Repr, DecidableEq, Inhabited

def Res.ofVal : Val → Res
  | none => .null
  | some v => .int v

/-! ## Spec: function values over a frame given as the list of its values (in window order) -/

def nonNull (vs : List Val) : List Int := vs.filterMap id

def specCount (vs : List Val) : Res := .int (nonNull vs).length
def specSum (vs : List Val) : Res :=
  match nonNull vs with
  | [] => .null
  | xs => .int xs.sum
def specAvg (vs : List Val) : Res :=
  match nonNull vs with
  | [] => .null
  | xs => .rat xs.sum xs.length
def listMin : List Int → Option Int
  | [] => none
  | x :: xs => some (xs.foldl (fun m y => if y < m then y else m) x)
def listMax : List Int → Option Int
  | [] => none
  | x :: xs => some (xs.foldl (fun m y => if y > m then y else m) x)
def specMin (vs : List Val) : Res := Res.ofVal (listMin (nonNull vs))
def specMax (vs : List Val) : Res := Res.ofVal (listMax (nonNull vs))
def specFirst (vs : List Val) : Res := Res.ofVal (vs.head?.getD none)
def specLast (vs : List Val) : Res := Res.ofVal (vs.getLast?.getD none)

/-- NTILE(n) of the row at 0-based position `i` of a partition of `count` rows: the first
`count % n` buckets have `count / n + 1` rows, the others `count / n` (definition). -/
def specNtile (count n i : Nat) : Nat :=
  let bs := count / n
  let r := count % n
  if i < r * (bs + 1) then i / (bs + 1) + 1
  else if bs = 0 then i + 1
  else r + (i - r * (bs + 1)) / bs + 1

/-! ## Impl: the `Compute` functions (partition values `xs`, partition start `ps`, interval) -/

/-- Go `floatPrefixSum`: running sums with NULL counted as 0, and running NULL counts. -/
def prefixSums : List Val → Int → List Int
  | [], _ => []
  | v :: vs, last => (last + v.getD 0) :: prefixSums vs (last + v.getD 0)

def prefixNulls : List Val → Nat → List Nat
  | [], _ => []
  | v :: vs, c => (if v.isNone then c + 1 else c) :: prefixNulls vs (if v.isNone then c + 1 else c)

/-- Go `countPrefixSum` for `COUNT(expr)`. -/
def prefixCounts : List Val → Int → List Int
  | [], _ => []
  | v :: vs, last => (if v.isSome then last + 1 else last) :: prefixCounts vs (if v.isSome then last + 1 else last)

/-- Go `computePrefixSum(interval, partitionStart, prefixSum)`. -/
def computePrefixSum (s e ps : Int) (pre : List Int) : Int :=
  let startIdx := s - ps - 1
  let endIdx := e - ps - 1
  let sum := if endIdx ≥ 0 then pre.getD endIdx.toNat 0 else 0
  if startIdx ≥ 0 then sum - pre.getD startIdx.toNat 0 else sum

/-- Go `AvgAgg.Compute`: the non-NULL count from the NULL prefix counts. -/
def nonNullCnt (s e ps : Int) (nulls : List Nat) : Int :=
  let startIdx := s - ps - 1
  let endIdx := e - ps - 1
  let c : Int := if endIdx ≥ 0 then endIdx + 1 - (nulls.getD endIdx.toNat 0 : Int) else 0
  if startIdx ≥ 0 then c - (startIdx + 1) + (nulls.getD startIdx.toNat 0 : Int) else c

/-- the rows `buf[s:e]` of the partition, addressed relative to `ps` -/
def sliceRel (xs : List Val) (ps s e : Int) : List Val :=
  if s ≥ e then [] else (xs.drop (s - ps).toNat).take (e - s).toNat

/-- Go `MaxAgg.Compute` loop (`if max == nil { max = v }; if cmp == 1 { max = v }`). -/
def maxLoop (vs : List Val) : Val :=
  vs.foldl (fun m v => match v with
    | none => m
    | some y => match m with
      | none => some y
      | some mm => if y > mm then some y else some mm) none

def minLoop (vs : List Val) : Val :=
  vs.foldl (fun m v => match v with
    | none => m
    | some y => match m with
      | none => some y
      | some mm => if y < mm then some y else some mm) none

inductive AggFn where
  | countStar | count | sum | avg | min | max | first | last
  deriving Repr, DecidableEq, Inhabited

/-- `Compute` of the framed aggregates on the interval `(s, e)`; `none` = the Go code panics
(`MinAgg` slices `buf[interval.Start:interval.End]`, a negative bound is a run-time panic). -/
def aggCompute (f : AggFn) (xs : List Val) (ps s e : Int) : Option Res :=
  match f with
  | .countStar => some (.int (computePrefixSum s e ps (prefixCounts (xs.map fun _ => some 0) 0)))
  | .count => some (.int (computePrefixSum s e ps (prefixCounts xs 0)))
  | .sum => if e - s < 1 then some .null else some (.int (computePrefixSum s e ps (prefixSums xs 0)))
  | .avg =>
    let c := nonNullCnt s e ps (prefixNulls xs 0)
    if c = 0 then some .nan else some (.rat (computePrefixSum s e ps (prefixSums xs 0)) c.toNat)
  | .min => if s < 0 ∨ e < 0 then none else some (Res.ofVal (minLoop (sliceRel xs ps s e)))
  | .max => some (Res.ofVal (maxLoop (sliceRel xs ps s e)))
  | .first => if e - s < 1 then some .null else some (Res.ofVal ((sliceRel xs ps s e).head?.getD none))
  | .last => if e - s < 1 then some .null else some (Res.ofVal ((sliceRel xs ps s e).getLast?.getD none))

/-- Spec of the framed aggregates on the values of the frame. -/
def aggSpec (f : AggFn) (vs : List Val) : Res :=
  match f with
  | .countStar => .int vs.length
  | .count => specCount vs
  | .sum => specSum vs
  | .avg => specAvg vs
  | .min => specMin vs
  | .max => specMax vs
  | .first => specFirst vs
  | .last => specLast vs

/-! ### NTILE state machine (`NTile.StartPartition` / `NTile.Compute`) -/

structure NtileState where
  pos : Nat := 0
  bucketSize : Nat := 0
  bigBuckets : Nat := 0
  bucket : Nat := 0
  deriving Repr, DecidableEq, Inhabited

/-- Go `NTile.StartPartition` (numBuckets ≥ 1 checked by the caller). `bigBuckets` is *not*
reset when `numBuckets > count`. -/
def ntileStart (st : NtileState) (count n : Nat) : NtileState :=
  if n > count then { st with bucketSize := 1, pos := 0, bucket := 1 }
  else { bucketSize := count / n, bigBuckets := count % n, pos := 0, bucket := 1 }

/-- Go `NTile.Compute` (with the deferred `n.pos++`): returns the bucket and the next state. -/
def ntileStep (st : NtileState) : Nat × NtileState :=
  if st.pos = 0 then (st.bucket, { st with pos := st.pos + 1 })
  else if st.bigBuckets > 0 ∧ st.pos % (st.bucketSize + 1) = 0 then
    let big := st.bigBuckets - 1
    let pos := if big = 0 then 0 else st.pos
    (st.bucket + 1, { st with bucket := st.bucket + 1, bigBuckets := big, pos := pos + 1 })
  else if st.bigBuckets = 0 ∧ st.pos % st.bucketSize = 0 then
    (st.bucket + 1, { st with bucket := st.bucket + 1, pos := st.pos + 1 })
  else (st.bucket, { st with pos := st.pos + 1 })

def ntileRun : Nat → NtileState → List Nat
  | 0, _ => []
  | k + 1, st => (ntileStep st).1 :: ntileRun k (ntileStep st).2

/-- the state after `k` rows -/
def ntileAfter : Nat → NtileState → NtileState
  | 0, st => st
  | k + 1, st => ntileAfter k (ntileStep st).2

/-! ### rank family (`rankBase`, `PercentRank`, `DenseRank`) -/

/-- Go `rankBase.Compute` for the row at absolute position `pos` with peer-group interval
`(s, e)` in the partition `[ps, pe)`. -/
def rankCompute (pos ps pe s e : Nat) : Option Nat :=
  if (e : Int) - s < 1 then none
  else if pos = 0 then some 1
  else if pe - ps = 1 then some 1
  else some (s - ps + 1)

structure DenseState where
  prevRank : Nat := 0
  denseRank : Nat := 0
  deriving Repr, DecidableEq, Inhabited

def denseStep (st : DenseState) (rank : Nat) : Nat × DenseState :=
  if rank = 1 then (1, { prevRank := 1, denseRank := 1 })
  else if rank ≠ st.prevRank then (st.denseRank + 1, { prevRank := rank, denseRank := st.denseRank + 1 })
  else (st.denseRank, st)

/-- Go `PercentRank.Compute`. -/
def percentRankOf (rank ps pe : Nat) : Res :=
  if pe - ps = 1 then .rat 0 1 else .rat ((rank : Int) - 1) (pe - ps - 1)

/-! ### LAG / LEAD (`leadLagBase.Compute`; `offset` is negated for LEAD; `pos` is absolute) -/

def lagCompute (buf : List Row) (pos : Nat) (offset : Int) (dflt : Val) (s e : Nat) : Res :=
  let idx : Int := (pos : Int) - offset
  if s > e then .null
  else if idx ≥ s ∧ idx < e then Res.ofVal (buf.getD idx.toNat default).x
  else Res.ofVal dflt

/-- Spec: the value `off` rows before (LAG) / after (LEAD) in the partition, else the default. -/
def lagSpec (xs : List Val) (i : Nat) (off : Nat) (lead : Bool) (dflt : Val) : Res :=
  if lead then (if i + off < xs.length then Res.ofVal (xs.getD (i + off) none) else Res.ofVal dflt)
  else (if off ≤ i then Res.ofVal (xs.getD (i - off) none) else Res.ofVal dflt)

/-! ## The whole pipeline on one query `SELECT id, F OVER (…) FROM t` -/

inductive Fn where
  | agg (f : AggFn)
  | rowNumber | rank | denseRank | percentRank
  | ntile (n : Nat)
  | lag (off : Nat) (dflt : Val)
  | lead (off : Nat) (dflt : Val)
  deriving Repr, DecidableEq, Inhabited

inductive FrameSpec where
  | none
  | rows (lo hi : Bound)
  | range (lo hi : Bound)
  deriving Repr, DecidableEq, Inhabited

structure Query where
  part : Bool              -- PARTITION BY p
  ord : List OrdKey        -- ORDER BY
  frame : FrameSpec
  fn : Fn
  deriving Repr, Inhabited

def Query.sortKeys (q : Query) : List OrdKey :=
  (if q.part then [{ col := .p, desc := false }] else []) ++ q.ord

def Query.partCols (q : Query) : List Col := if q.part then [.p] else []

/-- the sorted buffer and its partitions (`materializeInput`, `initializePartitions`) -/
def Query.buffer (q : Query) (rows : List Row) : List Row := stableSort q.sortKeys rows

/-- key column the RANGE framer sees: `window.OrderBy.ToExpressions()[0]` -/
def Query.rangeKeys (q : Query) (buf : List Row) : List Val :=
  match q.ord with
  | [] => buf.map fun _ => none
  | o :: _ => buf.map fun r => r.get o.col

/-- which framer `windowToIter` ends up with for a framed aggregate
(`WithWindow` + `DefaultFramer` + `buildWindowDef`'s default for an empty ORDER BY). -/
inductive Framer where
  | rows (c : RowCfg)
  | range (c : RangeCfg)
  deriving Repr, Inhabited

def Query.framer (q : Query) (f : AggFn) : Framer :=
  match q.frame with
  | .rows lo hi => .rows (cfgOfBounds lo hi)
  | .range lo hi => .range (rangeCfgOfBounds lo hi (!q.ord.isEmpty))
  | .none =>
    if q.ord.isEmpty then .rows (cfgOfBounds .up .uf)     -- buildWindowDef
    else match f with
      | .first | .last => .rows { unbPrec := true }      -- NewUnboundedPrecedingToCurrentRowFramer
      | _ => .range { unbPrec := true, endCur := true }  -- baseWindowFunction.DefaultFramer

def Framer.intervals (fr : Framer) (keys : List Val) (ps pe : Nat) : List (Int × Int) :=
  match fr with
  | .rows c => rowsStream c ps pe (pe - ps) ps
  | .range c => (rangeIntervals c keys ps pe).map fun (a, b) => ((a : Int), (b : Int))

def xsOf (buf : List Row) (ps pe : Nat) : List Val := ((buf.drop ps).take (pe - ps)).map (·.x)

def allSome : List (Option α) → Option (List α)
  | [] => some []
  | none :: _ => none
  | some x :: rest => (allSome rest).map (x :: ·)

/-- per-function state carried across the partitions of one query -/
structure ImplState where
  nt : NtileState := {}
  dense : DenseState := {}
  deriving Repr, Inhabited

/-- Impl: the values of one partition, in buffer order; `none` = the engine panics. -/
def implPartition (q : Query) (buf : List Row) (ps pe : Nat) (st : ImplState) : Option (List Res) × ImplState :=
  let xs := xsOf buf ps pe
  let n := pe - ps
  match q.fn with
  | .agg f =>
    let ivs := (q.framer f).intervals (q.rangeKeys buf) ps pe
    (allSome (ivs.map fun (s, e) => aggCompute f xs ps s e), st)
  | .rowNumber => (some ((List.range n).map fun (i : Nat) => Res.int ((i : Int) + 1)), st)
  | .rank =>
    let ivs := peerIntervals (q.ord.map (·.col)) buf ps pe
    (some ((ivs.zip (List.range n)).map fun ((s, e), i) =>
      match rankCompute (ps + i) ps pe s e with
      | none => Res.null
      | some r => Res.int r), st)
  | .percentRank =>
    let ivs := peerIntervals (q.ord.map (·.col)) buf ps pe
    (some ((ivs.zip (List.range n)).map fun ((s, e), i) =>
      match rankCompute (ps + i) ps pe s e with
      | none => Res.null
      | some r => percentRankOf r ps pe), st)
  | .denseRank =>
    let ivs := peerIntervals (q.ord.map (·.col)) buf ps pe
    let ranks := (ivs.zip (List.range n)).map fun ((s, e), i) => rankCompute (ps + i) ps pe s e
    let (out, ds) := ranks.foldl (fun (acc : List Res × DenseState) r =>
      match r with
      | none => (acc.1 ++ [Res.null], acc.2)
      | some rk => let (d, s') := denseStep acc.2 rk; (acc.1 ++ [Res.int d], s')) ([], st.dense)
    (some out, { st with dense := ds })
  | .ntile k =>
    let s0 := ntileStart st.nt n k
    (some ((ntileRun n s0).map fun (b : Nat) => Res.int (b : Int)), { st with nt := ntileAfter n s0 })
  | .lag off d =>
    (some ((List.range n).map fun i => lagCompute buf (ps + i) off d ps pe), st)
  | .lead off d =>
    (some ((List.range n).map fun i => lagCompute buf (ps + i) (-(off : Int)) d ps pe), st)

/-- Spec: the values of one partition from the definitions. -/
def frameMem (q : Query) (buf : List Row) (ps pe i j : Nat) : Bool :=
  match q.frame with
  | .rows lo hi => rowsMem lo hi ps pe i j
  | .range lo hi =>
    match q.ord with
    | [] => decide (ps ≤ j) && decide (j < pe)     -- no ORDER BY: all rows are peers
    | o :: _ =>
      if lo.isOffset || hi.isOffset then rangeMem lo hi o.desc (q.rangeKeys buf) ps pe i j
      else peerMem lo hi q.ord buf ps pe i j
  | .none =>
    if q.ord.isEmpty then decide (ps ≤ j) && decide (j < pe) else defaultMem q.ord buf ps pe i j

def frameVals (q : Query) (buf : List Row) (ps pe i : Nat) : List Val :=
  ((List.range (pe - ps)).filter fun d => frameMem q buf ps pe i (ps + d)).map fun d => (buf.getD (ps + d) default).x

/-- number of rows of the partition strictly before row `i` in the window order -/
def rowsBefore (ks : List OrdKey) (buf : List Row) (ps pe i : Nat) : List Nat :=
  (List.range (pe - ps)).filter fun d => compareRows ks (buf.getD (ps + d) default) (buf.getD i default) < 0

/-- number of distinct peer groups strictly before row `i`: rows before `i` that differ from
their predecessor, plus the first one -/
def groupsBefore (ks : List OrdKey) (buf : List Row) (ps pe i : Nat) : Nat :=
  ((rowsBefore ks buf ps pe i).filter fun d =>
    d = 0 ∨ compareRows ks (buf.getD (ps + d - 1) default) (buf.getD (ps + d) default) ≠ 0).length

def specPartition (q : Query) (buf : List Row) (ps pe : Nat) : List Res :=
  let xs := xsOf buf ps pe
  let n := pe - ps
  (List.range n).map fun i =>
    match q.fn with
    | .agg f => aggSpec f (frameVals q buf ps pe (ps + i))
    | .rowNumber => .int ((i : Int) + 1)
    | .rank => .int ((rowsBefore q.ord buf ps pe (ps + i)).length + 1)
    | .denseRank => .int (groupsBefore q.ord buf ps pe (ps + i) + 1)
    | .percentRank =>
      if n = 1 then .rat 0 1 else .rat (rowsBefore q.ord buf ps pe (ps + i)).length (n - 1)
    | .ntile k => .int (specNtile n k i)
    | .lag off d => lagSpec xs i off false d
    | .lead off d => lagSpec xs i off true d

/-- Impl over all partitions: `(id, value)` per row, or `none` when the engine panics. -/
def implQuery (q : Query) (rows : List Row) : Option (List (Int × Res)) :=
  let buf := q.buffer rows
  let parts := partitions q.partCols buf
  let (out, _) := parts.foldl (fun (acc : Option (List Res) × ImplState) (pp : Nat × Nat) =>
    let (r, st') := implPartition q buf pp.1 pp.2 acc.2
    (match acc.1, r with
     | some a, some b => some (a ++ b)
     | _, _ => none, st')) (some [], {})
  out.map fun vs => (buf.map (·.id)).zip vs

def specQuery (q : Query) (rows : List Row) : List (Int × Res) :=
  let buf := q.buffer rows
  let parts := partitions q.partCols buf
  (buf.map (·.id)).zip (parts.flatMap fun pp => specPartition q buf pp.1 pp.2)

/-! ## Known-defect regions of the SQL-level pipeline (decided on the case) -/

def hasNullKey (keys : List Val) (ps pe : Nat) : Bool :=
  ((keys.drop ps).take (pe - ps)).any (·.isNone)

/-- the framer used is a `rangeFramerBase` with an order key -/
def Query.usesRangeFramer (q : Query) : Bool :=
  match q.fn with
  | .agg f => match q.framer f with
    | .range c => c.hasOrder
    | .rows _ => false
  | _ => false

def Query.isAgg (q : Query) (fs : List AggFn) : Bool :=
  match q.fn with
  | .agg f => fs.contains f
  | _ => false

end Gms.Window
