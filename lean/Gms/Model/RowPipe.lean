/-
C19 — model of the row pipeline of INSERT and UPDATE (core-only).

Go sources transliterated here:

* `sql/planbuilder/dml.go`   `buildInsertValues` (DEFAULT keyword / omitted columns ↦ the column's
  default or generated expression), `assignmentExprsToExpressions` + `addDependentUpdateExprs`
  (explicit SET fields left to right, then one derived SET per generated column),
  `loadChecksFromTable` (no checks when the table is wrapped in a `VirtualColumnTable`,
  which is not a `sql.CheckTable`)
* `sql/rowexec/insert.go`    `insertIter.Next`: `validateNullability` → `evaluateChecks` → type
  conversion → `inserter.Insert`; `ignoreOrClose`/`warnOnIgnorableError` for INSERT IGNORE
* `sql/rowexec/update.go`    `applyUpdateExpressionsWithIgnore` (derived fields only when the row
  changed), `updateIter.Next`: unchanged rows skipped; `checks` → `validateNullability` →
  `updater.Update`; `ignoreOrError` for UPDATE IGNORE

Envelope: one table; column 0 is an integer primary key that every INSERT provides; the other
columns are integers (nullable or NOT NULL), plain with an optional default (a literal or an
expression over column 0), or generated (STORED / VIRTUAL) from an expression over earlier
columns — plain or generated (chains `g1 AS (a*2)`, `g2 AS (g1+1)`); CHECK constraints are three-valued Boolean expressions over all columns. Values stay
inside the INT range, so the type-conversion step is the identity.
-/
namespace Gms.RowPipe

abbrev Val := Option Int
abbrev Row := List Val

inductive E where
  | col (i : Nat)
  | lit (v : Val)
  | add (a b : E)
  | mul (a b : E)
  deriving Repr, DecidableEq, Inhabited

inductive Tri where
  | t | f | u
  deriving Repr, DecidableEq, Inhabited

inductive B where
  | lt (a b : E) | le (a b : E) | eq (a b : E) | ne (a b : E)
  | isNull (a : E)
  | and (p q : B) | or (p q : B) | not (p : B)
  deriving Repr, DecidableEq, Inhabited

def getc (r : Row) (i : Nat) : Val := r.getD i none

def E.eval (r : Row) : E → Val
  | .col i => getc r i
  | .lit v => v
  | .add a b => match a.eval r, b.eval r with | some x, some y => some (x + y) | _, _ => none
  | .mul a b => match a.eval r, b.eval r with | some x, some y => some (x * y) | _, _ => none

def cmp (p : Int → Int → Bool) : Val → Val → Tri
  | some x, some y => if p x y then .t else .f
  | _, _ => .u

def Tri.and : Tri → Tri → Tri
  | .f, _ => .f | _, .f => .f | .t, .t => .t | _, _ => .u
def Tri.or : Tri → Tri → Tri
  | .t, _ => .t | _, .t => .t | .f, .f => .f | _, _ => .u
def Tri.not : Tri → Tri
  | .t => .f | .f => .t | .u => .u

def B.eval (r : Row) : B → Tri
  | .lt a b => cmp (fun x y => decide (x < y)) (a.eval r) (b.eval r)
  | .le a b => cmp (fun x y => decide (x ≤ y)) (a.eval r) (b.eval r)
  | .eq a b => cmp (fun x y => decide (x = y)) (a.eval r) (b.eval r)
  | .ne a b => cmp (fun x y => decide (x ≠ y)) (a.eval r) (b.eval r)
  | .isNull a => if (a.eval r).isNone then .t else .f
  | .and p q => (p.eval r).and (q.eval r)
  | .or p q => (p.eval r).or (q.eval r)
  | .not p => (p.eval r).not

inductive Gen where
  | none
  | stored (e : E)
  | virt (e : E)
  deriving Repr, DecidableEq, Inhabited

structure ColSpec where
  notNull : Bool
  dflt : Option E
  gen : Gen
  deriving Repr, Inhabited

structure Chk where
  expr : B
  enforced : Bool
  deriving Repr, Inhabited

structure Table where
  cols : List ColSpec
  checks : List Chk
  deriving Repr, Inhabited

def Gen.expr? : Gen → Option E
  | .none => Option.none
  | .stored e => some e
  | .virt e => some e

def Table.hasVirtual (T : Table) : Bool := T.cols.any fun c => match c.gen with | .virt _ => true | _ => false

/-- Go: `loadChecksFromTable` — a table with a virtual column is wrapped in `VirtualColumnTable`
(`planbuilder/from.go`), which does not implement `sql.CheckTable`: no checks are loaded. -/
def Table.loadedChecks (T : Table) : List Chk := if T.hasVirtual then [] else T.checks

inductive Err where
  | notNull      -- 1048 ErrInsertIntoNonNullableProvidedNull
  | check        -- ErrCheckConstraintViolated
  | dup          -- 1062
  deriving Repr, DecidableEq, Inhabited

/-- A value in an INSERT tuple / the right-hand side of a SET. -/
inductive Src where
  | val (v : Val)
  | dflt
  | expr (e : E)     -- UPDATE only
  deriving Repr, DecidableEq, Inhabited

/-- The default a column takes when omitted or set to DEFAULT: its generated expression, else its
declared default, else NULL. Go: `columnDefaultValues[i]` in `buildInsertValues`. -/
def defaultExpr (c : ColSpec) : E :=
  match c.gen.expr? with
  | some e => e
  | none => c.dflt.getD (.lit none)

/-- Go: first pass of the INSERT source projection: explicit values as given, everything else
NULL for now (`r0`); generated and default expressions are evaluated against the row that holds
the explicit values. -/
def explicitRow (n : Nat) (cols : List Nat) (vals : List Src) : Row :=
  (List.range n).map fun i =>
    match (cols.zip vals).find? (fun p => p.1 == i) with
    | some (_, .val v) => v
    | _ => none

/-- Column by column, in schema order: column `i` is assigned the value of `g i` (if any)
evaluated against the row built so far. -/
def assignFold (g : Nat → Option E) (n : Nat) (r : Row) : Row :=
  (List.range n).foldl (fun r i => match g i with | some e => r.set i (e.eval r) | none => r) r

/-- The tuple gives an explicit value (not DEFAULT) for column `i`. -/
def isExplicit (cols : List Nat) (vals : List Src) (i : Nat) : Bool :=
  match (cols.zip vals).find? (fun p => p.1 == i) with
  | some (_, .val _) => true
  | _ => false

def colSpec (T : Table) (i : Nat) : ColSpec := T.cols.getD i default

/-- Fill every column that was omitted or given as DEFAULT, in column order, evaluating its
default against the row built so far (plain defaults only mention column 0, generated columns
only plain columns, which precede them in the fold because they are explicit or already filled). -/
def fillDefaults (T : Table) (cols : List Nat) (vals : List Src) (r0 : Row) : Row :=
  assignFold (fun i => if isExplicit cols vals i then none else some (defaultExpr (colSpec T i))) T.cols.length r0

/-- NOT NULL columns that hold NULL. -/
def nullBad (T : Table) (r : Row) : List Nat :=
  (List.range T.cols.length).filter fun i => (colSpec T i).notNull && (getc r i).isNone

/-- Go: `validateNullability`. With IGNORE a NULL in a NOT NULL column becomes the zero value. -/
def nullability (T : Table) (ignore : Bool) (r : Row) : Except Err Row :=
  let bad := nullBad T r
  if bad.isEmpty then .ok r
  else if ignore then .ok (bad.foldl (fun r i => r.set i (some 0)) r)
  else .error .notNull

/-- Go: `evaluateChecks` — an enforced check rejects the row only when it evaluates to FALSE. -/
def checksPass (cs : List Chk) (r : Row) : Bool :=
  cs.all fun c => !c.enforced || c.expr.eval r != .f

def pk (r : Row) : Val := getc r 0

/-- What is stored: the values of virtual columns are not stored, they are recomputed on read. -/
def readRow (T : Table) (r : Row) : Row :=
  (List.range T.cols.length).foldl (fun r i =>
    match (colSpec T i).gen with
    | .virt e => r.set i (e.eval r)
    | _ => r) r

inductive Outcome where
  | stored (r : Row)
  | skipped            -- IGNORE: the row is dropped with a warning
  | failed (e : Err)
  deriving Repr, DecidableEq

/-- Go: `insertIter.Next` for one tuple. `rows` is the table before this tuple. -/
def insertRow (T : Table) (ignore : Bool) (cols : List Nat) (vals : List Src) (rows : List Row) : Outcome :=
  let r := fillDefaults T cols vals (explicitRow T.cols.length cols vals)
  match nullability T ignore r with
  | .error e => .failed e
  | .ok r =>
    if !checksPass T.loadedChecks r then (if ignore then .skipped else .failed .check) else
    if rows.any (fun x => pk x == pk r) then (if ignore then .skipped else .failed .dup) else
    .stored r

/-- Go: `applyUpdateExpressionsWithIgnore`: explicit SET fields left to right on the row being
built, then — only if the row changed — one derived SET per generated column, in column order. -/
def applySets (T : Table) (old : Row) (sets : List (Nat × Src)) : Row :=
  let r := sets.foldl (fun r (p : Nat × Src) =>
    let v := match p.2 with
      | .val v => v
      | .dflt => (defaultExpr (colSpec T p.1)).eval r
      | .expr e => e.eval r
    r.set p.1 v) old
  if r == old then r else assignFold (fun i => (colSpec T i).gen.expr?) T.cols.length r

/-- Go: `updateIter.Next` for one row: unchanged ⇒ nothing; checks, *then* nullability, then the editor. -/
def updateRow (T : Table) (ignore : Bool) (sets : List (Nat × Src)) (old : Row) (others : List Row) : Outcome :=
  let new := applySets T old sets
  if new == old then .stored old else
  if !checksPass T.loadedChecks new then (if ignore then .skipped else .failed .check) else
  match nullability T ignore new with
  | .error e => .failed e
  | .ok new =>
    if pk new != pk old && others.any (fun x => pk x == pk new) then (if ignore then .skipped else .failed .dup)
    else .stored new

inductive Stmt where
  | insert (ignore : Bool) (cols : List Nat) (tuples : List (List Src))
  | update (ignore : Bool) (sets : List (Nat × Src)) (key : Option Int)   -- WHERE c0 = key / no WHERE
  | delete (key : Int)
  deriving Repr

/-- Rows in flight carry the virtual values (the `VirtualColumnTable` projects them on read). -/
def tableRows (T : Table) (rows : List Row) : List Row := rows.map (readRow T)

def insertBy {α : Type} (le : α → α → Bool) (a : α) : List α → List α
  | [] => [a]
  | b :: bs => if le a b then a :: b :: bs else b :: insertBy le a bs

def isort {α : Type} (le : α → α → Bool) : List α → List α
  | [] => []
  | a :: as => insertBy le a (isort le as)

def pkLe (a b : Row) : Bool :=
  match pk a, pk b with
  | some x, some y => decide (x ≤ y)
  | none, _ => true
  | _, none => false

def keyMatch (key : Option Int) (r : Row) : Bool :=
  match key with | none => true | some k => pk r == some k

/-- A multi-row statement visits the rows in primary-key order, stops at the first failing row
and then has no effect. -/
def runStmt (T : Table) (rows : List Row) : Stmt → Except Err (List Row)
  | .insert ignore cols tuples =>
    tuples.foldlM (fun rows vals =>
      match insertRow T ignore cols vals rows with
      | .stored r => .ok (rows ++ [r])
      | .skipped => .ok rows
      | .failed e => .error e) rows
  | .update ignore sets key =>
    let targets := isort pkLe (rows.filter (keyMatch key))
    targets.foldlM (fun rows old =>
      let others := rows.filter (fun x => pk x != pk old)
      match updateRow T ignore sets (readRow T old) others with
      | .stored r => .ok (rows.map fun x => if pk x == pk old then r else x)
      | .skipped => .ok rows
      | .failed e => .error e) rows
  | .delete k => .ok (rows.filter fun r => pk r != some k)

def step (T : Table) (rows : List Row) (st : Stmt) : List Row × Option Err :=
  match runStmt T rows st with
  | .ok rows' => (rows', none)
  | .error e => (rows, some e)

-- ---------------------------------------------------------------------------------------------
-- Spec: what every stored row must satisfy.

/-- No enforced check is FALSE, no NOT NULL column is NULL, every generated column equals its
expression over the row's current values. -/
def storedOk (T : Table) (r : Row) : Bool :=
  (T.checks.all fun c => !c.enforced || c.expr.eval r != .f) &&
  ((List.range T.cols.length).all fun i =>
    (!(colSpec T i).notNull || (getc r i).isSome) &&
    (match (colSpec T i).gen.expr? with | some e => getc r i == e.eval r | none => true))

/-- Every column an expression mentions is below `k`. -/
def E.colsLt (k : Nat) : E → Bool
  | .col i => decide (i < k)
  | .lit _ => true
  | .add a b => a.colsLt k && b.colsLt k
  | .mul a b => a.colsLt k && b.colsLt k

/-- Well-formed table: the default / generated expression of column `i` only mentions earlier columns. -/
def Table.wf (T : Table) : Bool :=
  (List.range T.cols.length).all fun i => (defaultExpr (colSpec T i)).colsLt i

def allStoredOk (T : Table) (rows : List Row) : Bool := (tableRows T rows).all (storedOk T)

-- ---------------------------------------------------------------------------------------------
-- Defect regions (decided on the table, the statement and the table contents before it).

/-- Region `virtual_column_disables_checks`: the table has a virtual column and an enforced check. -/
def Table.checksLost (T : Table) : Bool := T.hasVirtual && T.checks.any (·.enforced)

/-- The IGNORE adjustment (NULL ↦ zero value in a NOT NULL column) fires on this row. -/
def adjusts (T : Table) (ignore : Bool) (r : Row) : Bool := ignore && !(nullBad T r).isEmpty

/-- Region `ignore_null_adjustment`: an IGNORE statement adjusts a NULL for some row it processes. -/
def stmtAdjusts (T : Table) (rows : List Row) : Stmt → Bool
  | .insert ig cols tuples =>
    tuples.any fun vals => adjusts T ig (fillDefaults T cols vals (explicitRow T.cols.length cols vals))
  | .update ig sets key =>
    (rows.filter (keyMatch key)).any fun old => adjusts T ig (applySets T (readRow T old) sets)
  | .delete _ => false

/-- Statement shape assumed by the theorems (and produced by the generator): an INSERT gives no
explicit value for a generated column (the engine rejects such statements when they are built). -/
def stmtWf (T : Table) : Stmt → Bool
  | .insert _ cols tuples =>
    tuples.all fun vals => (List.range T.cols.length).all fun i =>
      !isExplicit cols vals i || (colSpec T i).gen.expr?.isNone
  | _ => true

-- ---------------------------------------------------------------------------------------------
-- INSERT … ON DUPLICATE KEY UPDATE (one tuple)

/-- Go: `insertIter.Next` with `onDupKeyUpdateExprs` for one tuple. The tuple first passes the
INSERT phases (`validateNullability`, `evaluateChecks`); `inserter.Insert` then either stores it or
reports the existing row with the same key, and `handleOnDuplicateKeyUpdate` applies the SET list
to *that* row: explicit fields, the derived fields (one per generated column, the same
`addDependentUpdateExprs` list as UPDATE) if the row changed, the checks, `updater.Update`.
The statement is expressed as the plain statement it behaves as. Envelope: no NOT NULL column
besides the key and the key is not assigned (the ON DUPLICATE KEY path does not call
`validateNullability`), the SET list does not use `VALUES(col)`. -/
def odkuStmt (T : Table) (rows : List Row) (cols : List Nat) (vals : List Src) (sets : List (Nat × Src)) :
    Except Err Stmt :=
  match insertRow T false cols vals [] with
  | .failed e => .error e
  | .skipped => .ok (.insert false cols [vals])
  | .stored r =>
    match pk r with
    | some k =>
      if rows.any (fun x => pk x == some k) then .ok (.update false sets (some k))
      else .ok (.insert false cols [vals])
    | none => .ok (.insert false cols [vals])

/-- One ON DUPLICATE KEY UPDATE statement: a tuple the INSERT phases reject fails without effect. -/
def stepOdku (T : Table) (rows : List Row) (cols : List Nat) (vals : List Src) (sets : List (Nat × Src)) :
    List Row × Option Err :=
  match odkuStmt T rows cols vals sets with
  | .ok st => step T rows st
  | .error e => (rows, some e)

end Gms.RowPipe
