/-
C03 — model of the analyzer side of an index scan, sql/analyzer/costed_index_scan.go (core-only):
the path from a filter expression to the range collection handed to the index.

Spec layer
* `E` – a filter: leaf predicates on index columns combined with (binary) AND / OR, as the analyzer
  sees it (`expression.And`, `expression.Or`);
* `E.holds` – SQL truth (TRUE or not) of the filter on a key tuple.

Impl model layer (one `def` per Go function)
* `andLeaves`, `orGroupRanges`, `nodeRanges` – `indexCoster.buildAnd` / `buildOr` (nested ANDs are
  flattened into one `iScanAnd`, nested ORs into one `iScanOr`, an OR under an AND becomes one of its
  `orChildren`, leaves of an AND are collected in id = traversal order) fused with
  `indexScanRangeBuilder.rangeBuildAnd` / `rangeBuildOr` / `rangeBuildLeaf`;
* `andStep`, `rangeBuildAnd` – the loop over `f.orChildren` of `rangeBuildAnd` with its use of a
  **nil collection as the sentinel** "no disjunction applied yet" (`[]` is Go's `nil`), the
  `MySQLRangeCollection.Intersect` calls (`Gms.Range.collectionIntersect`: pairwise
  `MySQLRange.Intersect`, all-empty placeholder for disjoint pairs, `RemoveOverlappingRanges`) and
  the final intersection with the ranges of the leaf conjunction (`MySQLIndexBuilder`);
* `orAppend` – `rangeBuildOr`: the ranges of the children, concatenated;
* `rootRanges` – `buildRangeCollection`: the root node's ranges through `RemoveOverlappingRanges`.

Every node is in the scan (`include` holds every id): that is what the coster produces when all
leaves are on the index prefix. Not modelled: the coster's choice of `include`, `leftover` /
`imprecise` bookkeeping, the one-column `IN` fast path of `buildRangeCollection` for a root leaf
(`inValsToMySQLRangeColl`), spatial / full-text leaves.
-/
import Gms.Model.Range
import Gms.Model.IndexBuilder

namespace Gms.IndexScan
open Gms.Range Gms.IndexBuilder

/-! ## Spec -/

inductive E where
  | leaf (col : Nat) (p : Pred)
  | and (a b : E)
  | or (a b : E)
  deriving Repr, Inhabited

/-- SQL truth of the filter on a key tuple (AND / OR of "is TRUE" is "is TRUE" of AND / OR). -/
def E.holds : E → List (Option Int) → Bool
  | .leaf c p, v => p.holds (v[c]?.getD none)
  | .and a b, v => a.holds v && b.holds v
  | .or a b, v => a.holds v || b.holds v

def E.leaves : E → List (Nat × Pred)
  | .leaf c p => [(c, p)]
  | .and a b => a.leaves ++ b.leaves
  | .or a b => a.leaves ++ b.leaves

/-! ## Impl model -/

/-- Go: `iScanAnd.leaves()` of the `iScanAnd` that `buildAnd` fills from this expression: the leaf
children of the AND spine in id (= traversal) order. -/
def andLeaves : E → List (Nat × Pred)
  | .leaf c p => [(c, p)]
  | .and a b => andLeaves a ++ andLeaves b
  | .or _ _ => []

/-- Go: `rangeBuildOr`: `ret = append(ret, ranges...)` over the children; the first error wins. -/
def orAppend (a b : Res (List Range)) : Res (List Range) :=
  match a with
  | .ok x =>
    match b with
    | .ok y => .ok (x ++ y)
    | e => e
  | e => e

section
variable {T : Type} (ops : TreeOps T) (fuel : Nat)

/-- Go: one iteration of `for _, or := range f.orChildren` in `rangeBuildAnd`:
`if ranges == nil { continue }; if ret == nil { ret = ranges; continue }; ret, err = ret.Intersect(ranges)`.
`[]` is Go's `nil` collection. -/
def andStep (ret : Res (List Range)) (ranges : Res (List Range)) : Res (List Range) :=
  match ret with
  | .ok ret =>
    match ranges with
    | .ok ranges =>
      if ranges.isEmpty then .ok ret
      else if ret.isEmpty then .ok ranges
      else collectionIntersect ops fuel ret ranges
    | e => e
  | e => e

/-- Go: `rangeBuildAnd` given the ranges of its OR children (in order) and `partBuilder.Ranges()`:
`if ret == nil { return partRanges }; return ret.Intersect(partRanges)`. -/
def rangeBuildAnd (ors : List (Res (List Range))) (part : List Range) : Res (List Range) :=
  match ors.foldl (andStep ops fuel) (.ok []) with
  | .ok ret => if ret.isEmpty then .ok part else collectionIntersect ops fuel ret part
  | e => e

variable (t : IntType) (n : Nat)

mutual
/-- The ranges of the `orChildren` of the `iScanAnd` built from the AND spine at this expression. -/
def orGroupRanges : E → List (Res (List Range))
  | .leaf _ _ => []
  | .and a b => orGroupRanges a ++ orGroupRanges b
  | .or a b => [orAppend (nodeRanges a) (nodeRanges b)]
/-- The ranges of an expression as a child of an OR (or as the root): `rangeBuildLeaf` for a leaf,
`rangeBuildAnd` for an AND, the concatenation over the flattened children for an OR. -/
def nodeRanges : E → Res (List Range)
  | .leaf c p => .ok (ranges (build t n [(c, p)]))
  | .or a b => orAppend (nodeRanges a) (nodeRanges b)
  | .and a b =>
    rangeBuildAnd ops fuel (orGroupRanges a ++ orGroupRanges b) (ranges (build t n (andLeaves a ++ andLeaves b)))
end

/-- Go: `buildRangeCollection` (root that is an AND or an OR; a root leaf takes the same path except
for the one-column `IN` fast path). -/
def rootRanges (e : E) : Res (List Range) :=
  match nodeRanges ops fuel t n e with
  | .ok rs => removeOverlappingRanges ops fuel rs
  | e => e

end

end Gms.IndexScan
