/-
C52 — the typed constructors ST_PointFromWKB … ST_GeomCollFromWKB (spatial/wkb.go): each is
`EvalGeomFromWKB(ctx, row, exprs, expectedGeomType)` — the generic decoder plus a type test.
-/
import Gms.Model.Wkb
namespace Gms.Wkb

/-- Go: `EvalGeomFromWKB` with `expectedGeomType` (`WKBUnknown` = 0 accepts every type), explicit
valid SRID, no axis-order option. -/
def fromWKBTyped (expected : Nat) (buf : List Byte) (srid : Nat) : Res Geom :=
  match hdr buf with
  | .ok (big, typ, val) =>
    if expected != 0 && typ != expected then .err
    else (dTop buf.length big typ val).map fun g => if srid = geoSRID then swap g else g
  | .err => .err
  | .crash => .crash

/-- The `expectedGeomType` the SQL function registered for geometry type `t` really passes
(regenerated facts `typedEval`, `typedCtor`): `MPolyFromWKB.Eval` passes `WKBPolyID`, and
`NewGeomCollFromWKB` builds an `MPolyFromWKB`. -/
def typedExpectedImpl : Nat → Nat
  | 6 => 3
  | 7 => 3
  | t => t

/-- Impl model of `ST_<T>FromWKB(wkb, srid)`, `t` = type id of `<T>`. -/
def typedFromWKB (t : Nat) (buf : List Byte) (srid : Nat) : Res Geom := fromWKBTyped (typedExpectedImpl t) buf srid

/-- Spec: the function for type `t` accepts exactly the values of type `t`. -/
def typedFromWKBSpec (t : Nat) (buf : List Byte) (srid : Nat) : Res Geom := fromWKBTyped t buf srid

end Gms.Wkb
